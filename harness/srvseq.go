package main

// C04 / C05 / C12: sequential histories against the real framework with the scripted
// implementation. One line = one connection's history.
//
//   srvseq <msize> <dotu> <auth> ; <T message> > <answer> [, <AuthCheck answer>] ; ...
//
// Observable per step:  calls=[…] reply=<decoded reply> destroyed=[…] fids=[…] m=<msize>/<dotu>

import (
	"fmt"
	"strings"
	"time"

	g "github.com/rminnich/go9p"
)

func splitTok(t []string, sep string) [][]string {
	var out [][]string
	cur := []string{}
	for _, x := range t {
		if x == sep {
			out = append(out, cur)
			cur = []string{}
		} else {
			cur = append(cur, x)
		}
	}
	return append(out, cur)
}

// seqOracle, when set, receives every executed step of a sequential history so that the
// property's own oracle is evaluated on the implementation's observable behaviour.
var seqOracle func(st *seqStep)

type seqStep struct {
	line    string // the history so far (a replayable case line ending with this step)
	cfg     []string
	msg     []string
	ans     [][]string
	before  g.VerifConnInfo
	after   g.VerifConnInfo
	reply   *g.Fcall // nil: no reply (connection dropped)
	frame   int      // length of the reply frame
	reqlen  int      // length of the request frame
	calls   []string
	destroy []uint32
}

func execSrvSeq(line string) (string, bool) {
	t := strings.Fields(line)
	if t[0] == "connect" {
		return execConnect(line)
	}
	if t[0] == "bufsess" {
		return "accept", true // the observation is the line; the driver is the judge
	}
	parts := splitTok(t[1:], ";")
	cfg := parts[0]
	msize := uint32(atou(cfg[0], 32))
	s := newSession(msize, cfg[1] == "1", cfg[2] == "1", 0)
	defer s.close()
	var outs []string
	ok := false
	for i, st := range parts[1:] {
		ma := splitTok(st, ">")
		msg := ma[0]
		ans := splitTok(ma[1], ",")
		s.sc.mu.Lock()
		s.sc.main = ans[0]
		s.sc.check = nil
		if len(ans) > 1 {
			s.sc.check = ans[1]
		}
		s.sc.calls = nil
		s.sc.destroy = nil
		s.sc.mu.Unlock()
		before := s.info()
		dotu := before.Dotu
		fc := g.NewFcall(1 << 20)
		if err := packMsg(fc, dotu, msg); err != nil {
			outs = append(outs, "unsendable")
			continue
		}
		tag := uint16(i + 1)
		if msg[0] == "Tversion" {
			tag = g.NOTAG
		}
		g.SetTag(fc, tag)
		prefix := func() string {
			return "srvseq " + strings.Join(cfg, " ") + " ; " + joinSteps(parts[1:i+2])
		}
		dropped := func() {
			outs = append(outs, "no-reply")
			if seqOracle != nil {
				time.Sleep(2 * time.Millisecond)
				s.sc.mu.Lock()
				calls := append([]string{}, s.sc.calls...)
				s.sc.mu.Unlock()
				seqOracle(&seqStep{line: prefix(), cfg: cfg, msg: msg, ans: ans, before: before, after: before,
					reqlen: len(fc.Pkt), calls: calls})
			}
		}
		if _, err := s.c.Write(fc.Pkt); err != nil {
			dropped()
			break
		}
		buf, err := readFrame(s.c, 10*time.Second)
		if err != nil {
			dropped()
			break
		}
		vi := s.info()
		// replies are encoded in the dialect in force when they were packed: the one
		// negotiated by this very request for Rversion (which carries no dialect field)
		rc, _, err := g.Unpack(buf, vi.Dotu)
		rep := ""
		if err != nil {
			rep = "undecodable:" + hexOr(buf)
		} else {
			if rc.Tag != tag {
				rep = fmt.Sprintf("wrongtag:%d:", rc.Tag)
			}
			rep += strings.ReplaceAll(showFcall(rc), " ", "_")
			if rc.Type != g.Rerror {
				ok = true
			}
		}
		s.sc.mu.Lock()
		if seqOracle != nil {
			var rr *g.Fcall
			if err == nil {
				rr = rc
			}
			seqOracle(&seqStep{line: prefix(), cfg: cfg, msg: msg, ans: ans, before: before, after: vi, reply: rr,
				frame: len(buf), reqlen: len(fc.Pkt), calls: append([]string{}, s.sc.calls...),
				destroy: append([]uint32{}, s.sc.destroy...)})
		}
		calls := "[" + strings.Join(s.sc.calls, ",") + "]"
		ds := make([]string, len(s.sc.destroy))
		for k, d := range s.sc.destroy {
			ds[k] = fmt.Sprint(d)
		}
		s.sc.mu.Unlock()
		outs = append(outs, fmt.Sprintf("calls=%s reply=%s len=%d destroyed=[%s] fids=%s m=%d/%s", calls, rep, len(buf),
			strings.Join(ds, ","), showFids(vi), vi.Msize, b2s(vi.Dotu)))
	}
	return strings.Join(outs, " ; "), ok
}

func joinSteps(steps [][]string) string {
	p := make([]string, len(steps))
	for i, st := range steps {
		p[i] = strings.Join(st, " ")
	}
	return strings.Join(p, " ; ")
}
