package main

// Shared server-side kit: an in-memory connection to a real go9p Srv running a scripted
// file server, a frame reader that does not use go9p's receive loop, and the scripted ops.

import (
	"encoding/binary"
	"fmt"
	"io"
	"net"
	"sort"
	"strings"
	"sync"
	"time"

	g "github.com/rminnich/go9p"
)

type pipeAddr struct{}

func (pipeAddr) Network() string { return "pipe" }
func (pipeAddr) String() string  { return "pipe" }

type pconn struct{ net.Conn }

func (pconn) RemoteAddr() net.Addr { return pipeAddr{} }
func (pconn) LocalAddr() net.Addr  { return pipeAddr{} }

// answer of the scripted implementation: tokens of an R message, or E:<hex>:<code>
type script struct {
	mu      sync.Mutex
	main    []string // answer to the forwarded operation
	check   []string // answer of AuthCheck (nil = accept)
	calls   []string
	destroy []uint32
	closed  int
	dotu    func() bool
	byOp    map[string][]string    // per-operation answers (override main)
	hook    func(op string, r *g.SrvReq) // called inside the operation before it answers
}

func (s *script) ans(op string) []string {
	s.mu.Lock()
	defer s.mu.Unlock()
	if a, ok := s.byOp[op]; ok {
		return a
	}
	return s.main
}

func (s *script) do(op string, r *g.SrvReq) {
	s.log(op, r)
	s.mu.Lock()
	h := s.hook
	s.mu.Unlock()
	if h != nil {
		h(op, r)
	}
	s.respond(r, s.ans(op))
}

func (s *script) log(op string, r *g.SrvReq) {
	f := func(x *g.SrvFid) string {
		if x == nil {
			return "-"
		}
		return fmt.Sprint(g.VerifFidNo(x))
	}
	uid := -1
	var main *g.SrvFid
	switch op {
	case "authInit":
		main = r.Afid
	default:
		main = r.Fid
	}
	if main != nil && main.User != nil {
		uid = main.User.Id()
	}
	af, nf := f(r.Afid), f(r.Newfid)
	if op == "authInit" {
		af = "-"
	}
	s.mu.Lock()
	s.calls = append(s.calls, fmt.Sprintf("%s:%s:%d:%s:%s", op, f(main), uid, af, nf))
	s.mu.Unlock()
}

func isErrAns(a []string) (string, uint32, bool) {
	if len(a) == 1 && strings.HasPrefix(a[0], "E:") {
		p := strings.Split(a[0], ":")
		return string(mustHex(p[1])), uint32(atou(p[2], 32)), true
	}
	return "", 0, false
}

// respond answers req as the script says.
func (s *script) respond(r *g.SrvReq, a []string) {
	if n, c, ok := isErrAns(a); ok {
		r.RespondError(&g.Error{Err: n, Errornum: c})
		return
	}
	u32 := func(x string) uint32 { return uint32(atou(x, 32)) }
	switch a[0] {
	case "Rattach":
		q := parseQid(a[1])
		r.RespondRattach(&q)
	case "Rauth":
		q := parseQid(a[1])
		r.RespondRauth(&q)
	case "Rwalk":
		var qs []g.Qid
		for _, q := range parseList(a[1]) {
			qs = append(qs, parseQid(q))
		}
		r.RespondRwalk(qs)
	case "Ropen":
		q := parseQid(a[1])
		r.RespondRopen(&q, u32(a[2]))
	case "Rcreate":
		q := parseQid(a[1])
		r.RespondRcreate(&q, u32(a[2]))
	case "Rread":
		r.RespondRread(mustHex(a[1]))
	case "Rwrite":
		if a[1] == "=" { // as many bytes as the request carried
			r.RespondRwrite(uint32(len(r.Tc.Data)))
		} else {
			r.RespondRwrite(u32(a[1]))
		}
	case "Rclunk":
		r.RespondRclunk()
	case "Rremove":
		r.RespondRremove()
	case "Rstat":
		d, _ := parseStat(a[1:])
		r.RespondRstat(d)
	case "Rwstat":
		r.RespondRwstat()
	case "Rflush":
		r.RespondRflush()
	case "Rversion":
		r.RespondRversion(u32(a[1]), string(mustHex(a[2])))
	default:
		panic("script: cannot answer with " + a[0])
	}
}

func (s *script) Attach(r *g.SrvReq) { s.do("attach", r) }
func (s *script) Walk(r *g.SrvReq) { s.do("walk", r) }
func (s *script) Open(r *g.SrvReq) { s.do("open", r) }
func (s *script) Create(r *g.SrvReq) { s.do("create", r) }
func (s *script) Read(r *g.SrvReq) { s.do("read", r) }
func (s *script) Write(r *g.SrvReq) { s.do("write", r) }
func (s *script) Clunk(r *g.SrvReq) { s.do("clunk", r) }
func (s *script) Remove(r *g.SrvReq) { s.do("remove", r) }
func (s *script) Stat(r *g.SrvReq) { s.do("stat", r) }
func (s *script) Wstat(r *g.SrvReq) { s.do("wstat", r) }
func (s *script) FidDestroy(f *g.SrvFid) {
	s.mu.Lock()
	s.destroy = append(s.destroy, g.VerifFidNo(f))
	s.mu.Unlock()
}
func (s *script) ConnOpened(*g.Conn) {}
func (s *script) ConnClosed(*g.Conn) { s.mu.Lock(); s.closed++; s.mu.Unlock() }

// scriptAuth adds AuthOps.
type scriptAuth struct{ *script }

func (s scriptAuth) AuthInit(afid *g.SrvFid, aname string) (*g.Qid, error) {
	uid := -1
	if afid.User != nil {
		uid = afid.User.Id()
	}
	s.mu.Lock()
	s.calls = append(s.calls, fmt.Sprintf("authInit:%d:%d:-:-", g.VerifFidNo(afid), uid))
	s.mu.Unlock()
	if n, c, ok := isErrAns(s.main); ok {
		return nil, &g.Error{Err: n, Errornum: c}
	}
	if s.main[0] != "Rauth" {
		return nil, &g.Error{Err: "script: AuthInit wants Rauth", Errornum: 5}
	}
	q := parseQid(s.main[1])
	return &q, nil
}
func (s scriptAuth) AuthDestroy(afid *g.SrvFid) {
	uid := -1
	if afid.User != nil {
		uid = afid.User.Id()
	}
	s.mu.Lock()
	s.calls = append(s.calls, fmt.Sprintf("authDestroy:%d:%d:-:-", g.VerifFidNo(afid), uid))
	s.mu.Unlock()
}
func (s scriptAuth) AuthCheck(fid *g.SrvFid, afid *g.SrvFid, aname string) error {
	af := "-"
	if afid != nil {
		af = fmt.Sprint(g.VerifFidNo(afid))
	}
	uid := -1
	if fid.User != nil {
		uid = fid.User.Id()
	}
	s.mu.Lock()
	s.calls = append(s.calls, fmt.Sprintf("authCheck:%d:%d:%s:-", g.VerifFidNo(fid), uid, af))
	s.mu.Unlock()
	if n, c, ok := isErrAns(s.check); ok {
		return &g.Error{Err: n, Errornum: c}
	}
	return nil
}
func (s scriptAuth) AuthRead(afid *g.SrvFid, offset uint64, data []byte) (int, error) {
	uid := -1
	if afid.User != nil {
		uid = afid.User.Id()
	}
	s.mu.Lock()
	s.calls = append(s.calls, fmt.Sprintf("authRead:%d:%d:-:-", g.VerifFidNo(afid), uid))
	s.mu.Unlock()
	if n, c, ok := isErrAns(s.main); ok {
		return 0, &g.Error{Err: n, Errornum: c}
	}
	d := mustHex(s.main[1])
	return copy(data, d), nil
}
func (s scriptAuth) AuthWrite(afid *g.SrvFid, offset uint64, data []byte) (int, error) {
	uid := -1
	if afid.User != nil {
		uid = afid.User.Id()
	}
	s.mu.Lock()
	s.calls = append(s.calls, fmt.Sprintf("authWrite:%d:%d:-:-", g.VerifFidNo(afid), uid))
	s.mu.Unlock()
	if n, c, ok := isErrAns(s.main); ok {
		return 0, &g.Error{Err: n, Errornum: c}
	}
	return int(atou(s.main[1], 32)), nil
}

var sharedLog = g.NewLogger(64) // one logger goroutine for all sessions

// session is one client connection to a real server.
type session struct {
	srv  *g.Srv
	c    net.Conn
	conn *g.Conn
	sc   *script
}

func newSession(msize uint32, dotu bool, auth bool, maxpend int) *session {
	sc := &script{}
	srv := &g.Srv{Msize: msize, Dotu: dotu, Maxpend: maxpend, Log: sharedLog}
	var ops interface{} = sc
	if auth {
		ops = scriptAuth{sc}
	}
	if !srv.Start(ops) {
		panic("Srv.Start refused the scripted ops")
	}
	a, b := net.Pipe()
	srv.NewConn(pconn{a})
	s := &session{srv: srv, c: b, sc: sc}
	for _, cn := range g.VerifConns(srv) {
		s.conn = cn
	}
	return s
}

func (s *session) close() { s.c.Close() }

// readFrame reads one 9P frame with its own 4-byte-size reader.
func readFrame(c net.Conn, d time.Duration) ([]byte, error) {
	c.SetReadDeadline(time.Now().Add(d))
	hdr := make([]byte, 4)
	if _, err := io.ReadFull(c, hdr); err != nil {
		return nil, err
	}
	n := binary.LittleEndian.Uint32(hdr)
	if n < 4 || n > 1<<26 {
		return nil, fmt.Errorf("frame size %d", n)
	}
	buf := make([]byte, n)
	copy(buf, hdr)
	if _, err := io.ReadFull(c, buf[4:]); err != nil {
		return nil, err
	}
	return buf, nil
}

func (s *session) info() g.VerifConnInfo { return g.VerifConn(s.conn) }

func showFids(vi g.VerifConnInfo) string {
	ks := make([]int, 0, len(vi.Fids))
	for k := range vi.Fids {
		ks = append(ks, int(k))
	}
	sort.Ints(ks)
	p := make([]string, len(ks))
	for i, k := range ks {
		f := vi.Fids[uint32(k)]
		p[i] = fmt.Sprintf("%d:%d:%d:%s:%d:%d:%d", k, f.Uid, f.Type, b2s(f.Opened), f.Omode, f.Diroffset, f.Ref)
	}
	return "[" + strings.Join(p, ",") + "]"
}
