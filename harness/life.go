package main

// C03, C07, C08, C11 — scenario families over the real server with forced schedules, the
// statement oracles on the decoded wire, and the log of lock-protected regions that the Lean
// model (G9.SrvLife) has to accept.

import (
	"fmt"
	"math/rand"
	"runtime"
	"sort"
	"strings"
	"sync/atomic"
	"time"

	g "github.com/rminnich/go9p"
)

func init() {
	props["C03"] = propRunner{gen: genC03, exec: execLife}
	props["C07"] = propRunner{gen: genC07, exec: execLife}
	props["C08"] = propRunner{gen: genC08, exec: execLife}
	props["C11"] = propRunner{gen: genC11, exec: execLife}
}

func execLife(line string) (string, bool) { return "*", true }

// perturbation of the schedule at the library's schedule points, derived from the case seed
func perturber(seed int64, every uint64) func(string) {
	var ctr uint64
	return func(point string) {
		x := atomic.AddUint64(&ctr, 1)*0x9e3779b97f4a7c15 + uint64(seed)
		x ^= x >> 29
		switch x % every {
		case 0:
			runtime.Gosched()
		case 1:
			time.Sleep(time.Duration(x>>8%200) * time.Microsecond)
		}
	}
}

func replyText(raw []byte) string {
	fc, _, err := g.Unpack(raw, false)
	if err != nil {
		return "undecodable:" + err.Error()
	}
	switch fc.Type {
	case g.Rread:
		return "Rread:" + string(fc.Data)
	case g.Rstat:
		return "Rstat:" + fc.Dir.Name
	case g.Rwalk:
		return fmt.Sprintf("Rwalk:%d", len(fc.Wqid))
	case g.Ropen:
		return fmt.Sprintf("Ropen:%d", fc.Qid.Path)
	case g.Rcreate:
		return fmt.Sprintf("Rcreate:%d", fc.Qid.Path)
	case g.Rwrite:
		return fmt.Sprintf("Rwrite:%d", fc.Count)
	case g.Rclunk:
		return "Rclunk"
	case g.Rremove:
		return "Rremove"
	case g.Rwstat:
		return "Rwstat"
	case g.Rattach:
		return "Rattach"
	case g.Rflush:
		return "Rflush"
	case g.Rversion:
		return "Rversion"
	case g.Rerror:
		return "Rerror:" + fc.Error
	}
	return fmt.Sprintf("type-%d", fc.Type)
}

// replyOracle checks "exactly one correctly tagged reply" for the requests [lo,hi) against the
// frames [f0,…): every request not in atMostOne has exactly one frame with its tag, of the
// matching type or Rerror, carrying what the implementation produced; no other frame.
func replyOracle(c *Ctx, s *lifeSess, sigp, line string, lo, hi, f0 int, atMostOne map[int]bool) bool {
	s.mu.Lock()
	defer s.mu.Unlock()
	ok := true
	fail := func(sig, desc string) {
		ok = false
		s.mu.Unlock()
		c.oracleFail(sigp+"/"+sig, desc, line)
		s.mu.Lock()
	}
	used := map[int]bool{}
	for rid := lo; rid < hi && rid < len(s.reqs); rid++ {
		q := s.reqs[rid]
		var mine []int
		for i := f0; i < len(s.fr); i++ {
			if s.fr[i].tag == q.tag && !used[i] {
				// with a shared tag the k-th frame of the tag answers the k-th request of the tag
				mine = append(mine, i)
				break
			}
		}
		want := q.typ + 1
		if len(mine) == 0 {
			if !atMostOne[rid] {
				fail("missing-reply", fmt.Sprintf("request %d (type %d tag %d) got no reply", rid, q.typ, q.tag))
			}
			continue
		}
		i := mine[0]
		used[i] = true
		f := s.fr[i]
		if f.typ != want && f.typ != g.Rerror {
			fail("wrong-type", fmt.Sprintf("request %d (type %d tag %d) answered with type %d", rid, q.typ, q.tag, f.typ))
			continue
		}
		q.mu.Lock()
		ans := q.answer
		q.mu.Unlock()
		if f.typ == want && ans != "" && q.typ != g.Tflush {
			if got := replyText(f.raw); got != ans {
				fail("wrong-content", fmt.Sprintf("request %d (tag %d): implementation produced %q, wire carried %q", rid, q.tag, ans, got))
			}
		}
		if f.typ == g.Rerror && ans != "" && q.typ != g.Tflush {
			// the implementation's (first) answer to a request it was handed is never an error here
			fail("wrong-content", fmt.Sprintf("request %d (tag %d): implementation produced %q, wire carried an Rerror (%s)", rid, q.tag, ans, replyText(f.raw)))
		}
	}
	for i := f0; i < len(s.fr); i++ {
		if !used[i] {
			f := s.fr[i]
			fail("extra-reply", fmt.Sprintf("frame %d (type %d tag %d) answers no outstanding request", i, f.typ, f.tag))
		}
	}
	return ok
}

func (s *lifeSess) emitLog(c *Ctx) {
	c.emit(s.logLine(), s.modelObs(), true)
	c.emit(s.fidLine(false), s.fidObs(), true)
	s.checkInUse(c)
}

// emitLogEnded: as emitLog, for a session whose connection is gone and whose goroutines have all ended.
func (s *lifeSess) emitLogEnded(c *Ctx) {
	c.emit(s.logLine(), s.modelObs(), true)
	c.emit(s.fidLine(true), s.fidObs(), true)
	s.checkInUse(c)
}

// the file server is never told that a fid is destroyed while it is working on a request on that fid
func (s *lifeSess) checkInUse(c *Ctx) {
	s.mu.Lock()
	bad := append([]string{}, s.inUse...)
	s.mu.Unlock()
	if len(bad) > 0 {
		c.oracleFail("C11/destroyed-in-use", strings.Join(bad, "; "), s.fidLine(true))
	}
}

// waitEntered waits until each of the given requests has reached the implementation or —
// refused by the framework — has been answered (frames from f0 on).
func (s *lifeSess) waitEntered(rids []int, f0 int, d time.Duration) bool {
	dl := time.Now().Add(d)
	for {
		all := true
		s.mu.Lock()
		for _, r := range rids {
			if r >= len(s.reqs) {
				all = false
				break
			}
			if atomic.LoadInt64(&s.reqs[r].entered) != 0 {
				continue
			}
			answered := false
			for i := f0; i < len(s.fr); i++ {
				if s.fr[i].tag == s.reqs[r].tag {
					answered = true
					break
				}
			}
			if !answered {
				all = false
				break
			}
		}
		s.mu.Unlock()
		if all {
			return true
		}
		if time.Now().After(dl) {
			return false
		}
		time.Sleep(200 * time.Microsecond)
	}
}

// waitExited waits until the implementation's work for every request it was handed (handler, or the
// late answer of an asynchronous one) is over.
func (s *lifeSess) waitExited(d time.Duration) bool {
	dl := time.Now().Add(d)
	for {
		all := true
		s.mu.Lock()
		for _, q := range s.reqs {
			if atomic.LoadInt64(&q.entered) != 0 && atomic.LoadInt64(&q.exited) == 0 {
				all = false
				break
			}
		}
		s.mu.Unlock()
		if all {
			return true
		}
		if time.Now().After(dl) {
			return false
		}
		time.Sleep(200 * time.Microsecond)
	}
}

func (s *lifeSess) nreqs() int {
	s.mu.Lock()
	defer s.mu.Unlock()
	return len(s.reqs)
}

// ---------------------------------------------------------------- C03

type fidState struct{ open bool }

// genReq packs a request of a random type for fid (tracking what the fid can take).
func genReq(r *rand.Rand, s *lifeSess, tag uint16, fid uint32, st *fidState, fresh *uint32) ([]byte, string) {
	for {
		switch r.Intn(6) {
		case 0:
			return s.send(tag, func(fc *g.Fcall) error { return g.PackTstat(fc, fid) }), "stat"
		case 1:
			d := &g.Dir{Type: 0xFFFF, Dev: 0xFFFFFFFF, Mode: 0xFFFFFFFF, Atime: 0xFFFFFFFF, Mtime: 0xFFFFFFFF, Length: 0xFFFFFFFFFFFFFFFF}
			d.Qid = g.Qid{Type: 0xFF, Version: 0xFFFFFFFF, Path: 0xFFFFFFFFFFFFFFFF}
			return s.send(tag, func(fc *g.Fcall) error { return g.PackTwstat(fc, fid, d, false) }), "wstat"
		case 2:
			*fresh++
			nf := *fresh
			names := []string{"a", "b"}[:r.Intn(3)]
			return s.send(tag, func(fc *g.Fcall) error { return g.PackTwalk(fc, fid, nf, names) }), "walk"
		case 3:
			if !st.open {
				st.open = true
				return s.send(tag, func(fc *g.Fcall) error { return g.PackTopen(fc, fid, g.ORDWR) }), "open"
			}
		case 4:
			if st.open {
				return s.send(tag, func(fc *g.Fcall) error { return g.PackTread(fc, fid, 0, 64) }), "read"
			}
		case 5:
			if st.open {
				data := []byte(fmt.Sprintf("w-%d", tag))
				return s.send(tag, func(fc *g.Fcall) error { return g.PackTwrite(fc, fid, 0, uint32(len(data)), data) }), "write"
			}
		}
	}
}

func genC03(c *Ctx) {
	i := 0
	for k := 0; k < c.scale(220, 6000) && !c.stop(); k++ {
		i++
		r := c.rng(i)
		K := []int{1, 2, 3, 4, 5, 5, 8, 16, 64}[r.Intn(9)]
		maxpend := []int{0, 1, 8, 64}[r.Intn(4)]
		rounds := 1 + r.Intn(3)
		line := fmt.Sprintf("lifejudge C03 seed=%d K=%d maxpend=%d rounds=%d", i, K, maxpend, rounds)
		c.begin(line)
		s := newLifeSess(8192, maxpend, false)
		if r.Intn(3) > 0 {
			s.perturb = perturber(int64(i), uint64(4+r.Intn(12)))
		}
		if !s.setup(K) {
			c.oracleFail("C03/setup", "session set-up failed", line)
			s.end()
			continue
		}
		states := make([]fidState, K+1)
		fresh := uint32(1000)
		okAll := true
		for round := 0; round < rounds && okAll; round++ {
			base := s.nreqs()
			f0 := s.nframes()
			var frames [][]byte
			for j := 0; j < K; j++ {
				p := plan{gate: true, answers: 1}
				if r.Intn(4) == 0 {
					p = plan{async: true, answers: 1}
				}
				if r.Intn(5) == 0 {
					p.answers = 2
				} else if r.Intn(6) == 0 {
					p.overlap = []string{"respond.mark", "respond.post", "respond.queued"}[r.Intn(3)]
					c.count("overlapping-answers")
				}
				s.mu.Lock()
				s.plans[base+j] = p
				s.mu.Unlock()
				fr, kind := genReq(r, s, uint16(10+j), uint32(j+1), &states[j+1], &fresh)
				c.count("req:" + kind)
				frames = append(frames, fr)
			}
			// all in one segment, or split at random frame boundaries
			if r.Intn(2) == 0 {
				s.write(frames...)
			} else {
				for j := 0; j < K; {
					n := 1 + r.Intn(K-j)
					s.write(frames[j : j+n]...)
					j += n
				}
			}
			rids := make([]int, K)
			for j := range rids {
				rids[j] = base + j
			}
			if !s.waitEntered(rids, f0, 10*time.Second) {
				c.oracleFail("C03/not-dispatched", fmt.Sprintf("not all of %d outstanding requests reached the implementation", K), line)
				okAll = false
				break
			}
			// a client that reads slowly: the writer sits inside Write with the first reply while the
			// other answers are made, and further requests are received, executed and answered
			stall := r.Intn(4) == 0
			if stall {
				atomic.StoreInt32(&s.paused, 1)
				time.Sleep(time.Millisecond)
				c.count("slow-reader-round")
			}
			// every permutation for up to 5 outstanding is reached over the seeds; random beyond
			for _, j := range r.Perm(K) {
				s.release(base + j)
				if r.Intn(3) == 0 && !stall {
					s.waitFrames(s.nframes()+1, 2*time.Millisecond)
				}
			}
			extra := 0
			if stall {
				time.Sleep(time.Duration(200+r.Intn(800)) * time.Microsecond)
				extra = 1 + r.Intn(4)
				var more [][]byte
				var mrids []int
				for j := 0; j < extra; j++ {
					more = append(more, s.send(uint16(200+j), func(fc *g.Fcall) error { return g.PackTstat(fc, 0) }))
					mrids = append(mrids, base+K+j)
				}
				s.write(more...)
				s.waitEntered(mrids, f0, 2*time.Second)
				time.Sleep(time.Duration(200+r.Intn(800)) * time.Microsecond)
				atomic.StoreInt32(&s.paused, 0)
			}
			if !s.waitFrames(f0+K+extra, 10*time.Second) {
				s.quiet(5 * time.Millisecond)
			} else {
				s.quiet(2 * time.Millisecond)
			}
			if !replyOracle(c, s, "C03", line, base, base+K+extra, f0, nil) {
				okAll = false
			}
		}
		c.count(fmt.Sprintf("K:%d", K))
		c.count(fmt.Sprintf("maxpend:%d", maxpend))
		time.Sleep(time.Millisecond)
		s.emitLog(c)
		s.end()
		c.emit(line, "*", true)
	}
	genC03rolling(c, 100000)
	genC03lateWriter(c)
	genC03flushBusyWriter(c)
}

// A Tflush waits on an executing request while the writer goroutine is busy with a client that reads
// slowly. When the request is answered its reply goes out before the Rflush: once the Rflush is
// on the wire the tag has no outstanding request, and no reply may follow for it.
func genC03flushBusyWriter(c *Ctx) {
	for k := 0; k < c.scale(25, 700) && !c.stop(); k++ {
		i := 400000 + k
		r := c.rng(i)
		maxpend := []int{0, 0, 1, 2}[r.Intn(4)]
		rounds := 2 + r.Intn(5)
		line := fmt.Sprintf("lifejudge C03 flush-busy-writer seed=%d maxpend=%d rounds=%d", i, maxpend, rounds)
		c.begin(line)
		s := newLifeSess(8192, maxpend, false)
		if !s.setup(2) {
			c.oracleFail("C03/setup", "session set-up failed", line)
			s.end()
			continue
		}
		for round := 0; round < rounds; round++ {
			base := s.nreqs()
			f0 := s.nframes()
			// the client stops reading; enough answers to leave the writer inside Write and its queue full
			atomic.StoreInt32(&s.paused, 1)
			time.Sleep(200 * time.Microsecond)
			nx := maxpend + 2
			var fr [][]byte
			var xr []int
			for j := 0; j < nx; j++ {
				fr = append(fr, s.send(uint16(30+j), func(fc *g.Fcall) error { return g.PackTstat(fc, 0) }))
				xr = append(xr, base+j)
			}
			s.write(fr...)
			s.waitEntered(xr, f0, 2*time.Second)
			time.Sleep(time.Duration(200+r.Intn(500)) * time.Microsecond)
			a := base + nx
			s.mu.Lock()
			s.plans[a] = plan{gate: true, answers: 1, async: r.Intn(3) == 0}
			s.plans[a+2] = plan{gate: true, answers: 1}
			s.mu.Unlock()
			s.write(s.send(11, func(fc *g.Fcall) error { return g.PackTstat(fc, 1) }))
			s.waitEntered([]int{a}, f0, 2*time.Second)
			// the Tflush, then a request that tells when the receive loop is past the Tflush
			s.write(s.send(12, func(fc *g.Fcall) error { return g.PackTflush(fc, 11) }),
				s.send(13, func(fc *g.Fcall) error { return g.PackTstat(fc, 2) }))
			s.waitEntered([]int{a + 2}, f0, 2*time.Second)
			s.release(a)
			time.Sleep(time.Duration(300+r.Intn(1200)) * time.Microsecond)
			atomic.StoreInt32(&s.paused, 0)
			s.release(a + 2)
			s.waitFrames(f0+nx+3, 5*time.Second)
			s.quiet(2 * time.Millisecond)
			s.mu.Lock()
			ia, ifl := -1, -1
			for j := f0; j < len(s.fr); j++ {
				if s.fr[j].tag == 11 && ia < 0 {
					ia = j
				}
				if s.fr[j].tag == 12 && ifl < 0 {
					ifl = j
				}
			}
			s.mu.Unlock()
			if ifl >= 0 && ia > ifl {
				c.oracleFail("C03/reply-after-rflush", fmt.Sprintf("round %d: the reply to the flushed request (tag 11) is frame %d, after the Rflush (frame %d): a reply for a tag with no outstanding request", round, ia-f0, ifl-f0), line)
			}
			if !replyOracle(c, s, "C03", line, base, base+nx+3, f0, nil) {
				break
			}
		}
		c.count("flush-busy-writer")
		time.Sleep(time.Millisecond)
		s.emitLog(c)
		s.end()
		c.emit(line, "*", true)
	}
}

// A request cancelled by Tflush (FlushOp honoured) whose worker keeps going and fills its reply buffer
// in place afterwards, while later requests have been answered and their replies are still waiting for a
// client that reads slowly: every reply must carry what the implementation produced for its own request.
func genC03lateWriter(c *Ctx) {
	for k := 0; k < c.scale(30, 800) && !c.stop(); k++ {
		i := 300000 + k
		r := c.rng(i)
		maxpend := []int{0, 1, 8, 64}[r.Intn(4)]
		line := fmt.Sprintf("lifejudge C03 late-writer seed=%d maxpend=%d", i, maxpend)
		c.begin(line)
		s := newLifeSess(8192, maxpend, true)
		ok := s.setup(6)
		for fid := uint32(1); ok && fid <= 6; fid++ { // reads need open fids
			f := s.rpc(1, func(fc *g.Fcall) error { return g.PackTopen(fc, fid, g.OREAD) })
			ok = f != nil && f.typ == g.Ropen
		}
		if !ok {
			c.oracleFail("C03/setup", "session set-up failed", line)
			s.end()
			continue
		}
		base := s.nreqs()
		f0 := s.nframes()
		s.mu.Lock()
		s.plans[base] = plan{gate: true, honour: true, inplace: true, async: r.Intn(2) == 0}
		s.mu.Unlock()
		s.write(s.send(7, func(fc *g.Fcall) error { return g.PackTread(fc, 1, 0, 64) }))
		s.waitEntered([]int{base}, f0, 5*time.Second)
		if f := s.rpc(8, func(fc *g.Fcall) error { return g.PackTflush(fc, 7) }); f == nil || f.typ != g.Rflush {
			c.oracleFail("C03/late-writer/no-rflush", "the Tflush of the executing read was not answered", line)
		}
		// the client stops reading; more reads are received, executed and answered
		atomic.StoreInt32(&s.paused, 1)
		time.Sleep(time.Millisecond)
		extra := 2 + r.Intn(7)
		var more [][]byte
		var mrids []int
		for j := 0; j < extra; j++ {
			fid := uint32(2 + j%5)
			more = append(more, s.send(uint16(20+j), func(fc *g.Fcall) error { return g.PackTread(fc, fid, 0, 64) }))
			mrids = append(mrids, base+2+j)
		}
		s.write(more...)
		s.waitEntered(mrids, f0, 2*time.Second)
		time.Sleep(time.Duration(200+r.Intn(1500)) * time.Microsecond)
		// now the cancelled worker fills its buffer
		s.release(base)
		s.waitExited(2 * time.Second)
		time.Sleep(time.Duration(r.Intn(500)) * time.Microsecond)
		atomic.StoreInt32(&s.paused, 0)
		s.waitFrames(f0+1+extra, 5*time.Second)
		s.quiet(2 * time.Millisecond)
		atMostOne := map[int]bool{base: true} // the cancelled read may go unanswered
		replyOracle(c, s, "C03", line, base, base+2+extra, f0, atMostOne)
		c.count("late-writer")
		s.emitLog(c)
		s.end()
		c.emit(line, "*", true)
	}
}

// rolling: a window of outstanding requests; every reply frees its tag, which is reused at
// once for the next request — while the answered request may not yet have left the tag table.
func genC03rolling(c *Ctx, i0 int) {
	i := i0
	for k := 0; k < c.scale(120, 3000) && !c.stop(); k++ {
		i++
		r := c.rng(i)
		W := []int{1, 2, 3, 5, 8}[r.Intn(5)]
		N := W * (2 + r.Intn(4))
		maxpend := []int{0, 1, 8}[r.Intn(3)]
		line := fmt.Sprintf("lifejudge C03 rolling seed=%d W=%d N=%d maxpend=%d", i, W, N, maxpend)
		c.begin(line)
		s := newLifeSess(8192, maxpend, false)
		if r.Intn(2) == 0 {
			s.perturb = perturber(int64(i), uint64(3+r.Intn(10)))
		}
		if !s.setup(W) {
			c.oracleFail("C03/setup", "session set-up failed", line)
			s.end()
			continue
		}
		base := s.nreqs()
		f0 := s.nframes()
		states := make([]fidState, W+1)
		fresh := uint32(2000)
		// some answered requests linger between queueing their reply and leaving the tag table
		var parked []*park
		for j := 0; j < N; j++ {
			if r.Intn(4) == 0 {
				parked = append(parked, s.parkRule("respond.queued", base+j, 0))
			}
		}
		sent := 0
		free := []int{}
		for j := 0; j < W; j++ {
			free = append(free, j)
		}
		seen := f0
		slotOf := map[uint16]int{}
		dl := time.Now().Add(20 * time.Second)
		for (sent < N || seen < f0+N) && time.Now().Before(dl) {
			for sent < N && len(free) > 0 {
				slot := free[0]
				free = free[1:]
				tag := uint16(10 + slot)
				slotOf[tag] = slot
				fr, kind := genReq(r, s, tag, uint32(slot+1), &states[slot+1], &fresh)
				c.count("req:" + kind)
				s.write(fr)
				sent++
			}
			if !s.waitFrames(seen+1, 50*time.Millisecond) {
				// nothing arrives: a lingering request may be holding its successor — let one go
				for _, p := range parked {
					select {
					case <-p.reached:
						select {
						case <-p.release:
						default:
							close(p.release)
						}
					default:
					}
				}
				continue
			}
			s.mu.Lock()
			for ; seen < len(s.fr); seen++ {
				free = append(free, slotOf[s.fr[seen].tag])
			}
			s.mu.Unlock()
			// release lingering requests whose tag has been reused meanwhile, at random
			for _, p := range parked {
				select {
				case <-p.reached:
					if r.Intn(2) == 0 {
						select {
						case <-p.release:
						default:
							close(p.release)
						}
					}
				default:
				}
			}
		}
		for _, p := range parked {
			select {
			case <-p.release:
			default:
				close(p.release)
			}
		}
		s.quiet(3 * time.Millisecond)
		replyOracle(c, s, "C03", line, base, base+N, f0, nil)
		c.count(fmt.Sprintf("W:%d", W))
		time.Sleep(time.Millisecond)
		s.emitLog(c)
		s.end()
		c.emit(line, "*", true)
	}
}

// ---------------------------------------------------------------- shared helpers for flush scenarios

func (s *lifeSess) frameIndex(tag uint16, typ uint8, from int) int {
	s.mu.Lock()
	defer s.mu.Unlock()
	for i := from; i < len(s.fr); i++ {
		if s.fr[i].tag == tag && (typ == 0 || s.fr[i].typ == typ) {
			return i
		}
	}
	return -1
}

func (s *lifeSess) countFrames(tag uint16, typ uint8, from int) int {
	s.mu.Lock()
	defer s.mu.Unlock()
	n := 0
	for i := from; i < len(s.fr); i++ {
		if s.fr[i].tag == tag && (typ == 0 || s.fr[i].typ == typ) {
			n++
		}
	}
	return n
}

func sortedKeys(m map[string]int) string {
	ks := make([]string, 0, len(m))
	for k := range m {
		ks = append(ks, k)
	}
	sort.Strings(ks)
	return strings.Join(ks, ",")
}
