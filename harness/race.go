package main

// C19 — workloads for the Go race detector.  This file is compiled into both harness
// binaries; it does something only in the one built with -race (./check builds
// harness-race for C19 and starts it with GORACE=log_path=<dir>/race halt_on_error=0).
// After the workloads every report the detector wrote is read back: a report with a frame
// inside the library is an oracle failure whose signature is the pair of racing library
// functions; a report without one is a race of the harness itself and fails the run too.

import (
	"bytes"
	"fmt"
	"math/rand"
	"net"
	"os"
	"path/filepath"
	"regexp"
	"sort"
	"strings"
	"sync"
	"time"

	g "github.com/rminnich/go9p"
)

func init() {
	props["C19"] = propRunner{gen: genC19, exec: execLife}
}

// ufsWorkers: one client shared by n goroutines, each on its own files and fids.
func ufsWorkers(c *Ctx, i int, line string) {
	r := c.rng(i)
	e, err := newUfs([]uint32{512, 8192}[r.Intn(2)], r.Intn(2) == 0)
	if err != nil {
		c.oracleFail("C19/setup", err.Error(), line)
		return
	}
	defer e.close()
	n := 2 + r.Intn(7)
	os.Mkdir(filepath.Join(e.root, "shared"), 0o755)
	for k := 0; k < 3; k++ {
		os.WriteFile(filepath.Join(e.root, "shared", fmt.Sprintf("f%d", k)), bytes.Repeat([]byte{byte('a' + k)}, 3000), 0o644)
	}
	var wg sync.WaitGroup
	seeds := make([]int64, n)
	for w := range seeds {
		seeds[w] = r.Int63()
	}
	var mu sync.Mutex
	var problems []string
	for w := 0; w < n; w++ {
		wg.Add(1)
		go func(w int) {
			defer wg.Done()
			rr := rand.New(rand.NewSource(seeds[w]))
			dir := fmt.Sprintf("w%d", w)
			bad := func(f string, a ...interface{}) {
				mu.Lock()
				problems = append(problems, fmt.Sprintf("worker %d: ", w)+fmt.Sprintf(f, a...))
				mu.Unlock()
			}
			// every walk starts from the shared root fid (as the client's path helpers do)
			df, err := e.c.FCreate(dir, g.DMDIR|0o755, g.OREAD)
			if err != nil {
				bad("mkdir: %v", err)
				return
			}
			df.Close()
			for op := 0; op < 12+rr.Intn(20); op++ {
				name := fmt.Sprintf("%s/f%d", dir, rr.Intn(4))
				switch rr.Intn(7) {
				case 0, 1:
					f, err := e.c.FCreate(name, 0o644, g.ORDWR)
					if err != nil {
						f, err = e.c.FOpen(name, g.ORDWR)
					}
					if err == nil {
						data := bytes.Repeat([]byte{byte(w)}, 1+rr.Intn(2000))
						f.Written(data, 0)
						buf := make([]byte, len(data))
						f.ReadAt(buf, 0)
						f.Close()
					}
				case 2:
					if d, err := e.c.FStat(name); err == nil && d.Name == "" {
						bad("stat %s: empty name", name)
					}
				case 3:
					if f, err := e.c.FOpen(dir, g.OREAD); err == nil {
						f.Readdir(0)
						f.Close()
					}
				case 4:
					e.c.FRemove(name)
				case 5:
					// a file everybody reads
					if f, err := e.c.FOpen(fmt.Sprintf("shared/f%d", rr.Intn(3)), g.OREAD); err == nil {
						buf := make([]byte, 512)
						f.ReadAt(buf, int64(rr.Intn(2000)))
						f.Close()
					}
				case 6:
					if fid, err := e.c.FWalk(dir); err == nil {
						e.c.Clunk(fid)
					}
				}
			}
		}(w)
	}
	if !waitWG(&wg, 60*time.Second) {
		c.oracleFail("C19/hang/ufs-workers", "workers did not finish", line)
	}
	for _, p := range problems {
		c.oracleFail("C19/ufs-workers", p, line)
	}
	c.count(fmt.Sprintf("ufs-workers:%d", n))
}

// churn: connections opened and dropped (quiescent) on a server whose other connections stay busy.
func connChurn(c *Ctx, i int, line string) {
	r := c.rng(i)
	busy := newLifeSess(8192, []int{0, 1, 8}[r.Intn(3)], r.Intn(2) == 0)
	busy.perturb = perturber(int64(i), 5)
	if !busy.setup(6) {
		c.oracleFail("C19/setup", "session set-up failed", line)
		busy.end()
		return
	}
	stop := make(chan bool)
	var wg sync.WaitGroup
	wg.Add(1)
	go func() {
		defer wg.Done()
		tag := uint16(10)
		for {
			select {
			case <-stop:
				return
			default:
			}
			fid := uint32(1 + int(tag)%6)
			busy.rpc(tag, func(fc *g.Fcall) error { return g.PackTstat(fc, fid) })
			tag++
			if tag > 60000 {
				tag = 10
			}
		}
	}()
	for k := 0; k < 4+r.Intn(8); k++ {
		s := connectLife(busy.srv, busy.ops, busy.cap)
		if s.setup(1 + r.Intn(3)) {
			for j := 0; j < r.Intn(4); j++ {
				s.rpc(uint16(5+j), func(fc *g.Fcall) error { return g.PackTstat(fc, 1) })
			}
		}
		// its own requests have been answered: drop it
		s.end()
	}
	close(stop)
	wg.Wait()
	busy.end()
	c.count("conn-churn")
}

// ufsChurn: a busy .u connection stats its root while connections of users the server has not
// seen yet are mounted and dropped (each only after its own Tattach has been answered).
var churnUid uint32 = 700000

func ufsChurn(c *Ctx, i int, line string) {
	r := c.rng(i)
	e, err := newC06srv("ufs", 8192, true, r)
	if err != nil {
		c.oracleFail("C19/setup", err.Error(), line)
		return
	}
	defer e.closef()
	rt := func(cn net.Conn, tag uint16, pack func(fc *g.Fcall) error) []byte {
		fc := g.NewFcall(8192)
		if pack(fc) != nil {
			return nil
		}
		g.SetTag(fc, tag)
		cn.SetWriteDeadline(time.Now().Add(3 * time.Second))
		if _, err := cn.Write(fc.Pkt); err != nil {
			return nil
		}
		buf, err := readFrame(cn, 3*time.Second)
		if err != nil {
			return nil
		}
		return buf
	}
	busy := e.newc()
	defer busy.Close()
	rt(busy, g.NOTAG, func(fc *g.Fcall) error { return g.PackTversion(fc, 8192, "9P2000.u") })
	rt(busy, 1, func(fc *g.Fcall) error { return g.PackTattach(fc, 0, g.NOFID, "", "", uint32(os.Getuid()), true) })
	stop := make(chan bool)
	var wg sync.WaitGroup
	wg.Add(1)
	go func() {
		defer wg.Done()
		for {
			select {
			case <-stop:
				return
			default:
			}
			if rt(busy, 2, func(fc *g.Fcall) error { return g.PackTstat(fc, 0) }) == nil {
				return
			}
		}
	}()
	for k := 0; k < 20+r.Intn(30); k++ {
		cn := e.newc()
		churnUid++
		uid := churnUid
		rt(cn, g.NOTAG, func(fc *g.Fcall) error { return g.PackTversion(fc, 8192, "9P2000.u") })
		rt(cn, 1, func(fc *g.Fcall) error { return g.PackTattach(fc, 0, g.NOFID, "", "", uid, true) })
		cn.Close()
	}
	close(stop)
	wg.Wait()
	c.count("ufs-churn")
}

// flushes with live targets on distinct fids, including a Tversion at session start.
func flushMix(c *Ctx, i int, line string) {
	r := c.rng(i)
	s := newLifeSess(8192, []int{0, 1, 8}[r.Intn(3)], r.Intn(2) == 0)
	s.perturb = perturber(int64(i), uint64(3+r.Intn(6)))
	defer s.end()
	K := 2 + r.Intn(6)
	if !s.setup(K + 1) {
		c.oracleFail("C19/setup", "session set-up failed", line)
		return
	}
	// a Tflush that arrives while its target sits inside Respond (marked as answered, not yet out of the
	// tag table): the flush chain is touched by both
	{
		rid := s.nreqs()
		n0 := s.nframes()
		want := 1
		p := s.parkRule([]string{"respond.mark", "respond.post", "respond.queued"}[r.Intn(3)], rid, 0)
		s.write(s.send(50, func(fc *g.Fcall) error { return g.PackTstat(fc, uint32(K+1)) }))
		if waitc(p.reached, 2*time.Second) {
			s.write(flushFrame(s, 51, 50))
			want = 2
			time.Sleep(time.Duration(500+r.Intn(1500)) * time.Microsecond)
		}
		close(p.release)
		s.waitFrames(n0+want, 2*time.Second)
	}
	base := s.nreqs()
	f0 := s.nframes()
	var frames [][]byte
	for j := 0; j < K; j++ {
		s.mu.Lock()
		// some answers come from a goroutine of the implementation's own, after the handler has returned
		s.plans[base+j] = plan{gate: r.Intn(2) == 0, honour: r.Intn(2) == 0, async: r.Intn(3) == 0}
		s.mu.Unlock()
		fid := uint32(j + 1)
		frames = append(frames, s.send(uint16(10+j), func(fc *g.Fcall) error { return g.PackTstat(fc, fid) }))
	}
	s.write(frames...)
	nfl := 0
	for j := 0; j < K; j++ {
		if r.Intn(2) == 0 {
			s.write(flushFrame(s, uint16(100+j), uint16(10+j)))
			nfl++
		}
	}
	for j := 0; j < K; j++ {
		s.release(base + j)
	}
	dl := time.Now().Add(10 * time.Second)
	for time.Now().Before(dl) {
		n := 0
		for j := 0; j < K; j++ {
			n += s.countFrames(uint16(100+j), g.Rflush, f0)
		}
		if n >= nfl {
			break
		}
		time.Sleep(time.Millisecond)
	}
	s.quiet(2 * time.Millisecond)
	c.count("flush-mix")
}

var raceLib = regexp.MustCompile(`github\.com/rminnich/go9p\.([A-Za-z0-9_().*]+)\(\)`)

// readRaceReports collects the detector's reports written so far.
func readRaceReports(dir string) []string {
	var out []string
	files, _ := filepath.Glob(filepath.Join(dir, "race.*"))
	sort.Strings(files)
	for _, f := range files {
		b, err := os.ReadFile(f)
		if err != nil {
			continue
		}
		for _, rep := range strings.Split(string(b), "==================") {
			if strings.Contains(rep, "DATA RACE") {
				out = append(out, rep)
			}
		}
	}
	return out
}

func raceSig(rep string) (string, bool) {
	// the first library frame of each of the two accesses
	var fns []string
	for _, sec := range strings.Split(rep, "\n\n") {
		if !(strings.Contains(sec, " by goroutine") && (strings.HasPrefix(strings.TrimSpace(sec), "Write") ||
			strings.HasPrefix(strings.TrimSpace(sec), "Read") || strings.HasPrefix(strings.TrimSpace(sec), "Previous") ||
			strings.Contains(sec, "WARNING: DATA RACE"))) {
			continue
		}
		for _, blk := range regexp.MustCompile(`(?m)^(Write|Read|Previous write|Previous read) at `).Split(sec, -1) {
			if m := raceLib.FindStringSubmatch(blk); m != nil && !strings.HasPrefix(m[1], "verif") && !strings.HasPrefix(m[1], "Verif") {
				fns = append(fns, m[1])
			}
		}
	}
	if len(fns) == 0 {
		return "harness", false
	}
	if len(fns) > 2 {
		fns = fns[:2]
	}
	sort.Strings(fns)
	return strings.Join(fns, "~"), true
}

func genC19(c *Ctx) {
	if !raceEnabled {
		c.emit("lifejudge C19 not-a-race-build", "*", false)
		return
	}
	i := 0
	var lines []string
	for k := 0; k < c.scale(120, 2500) && !c.stop(); k++ {
		i++
		kind := []string{"ufs-workers", "conn-churn", "flush-mix", "ufs-workers", "ufs-churn"}[k%5]
		line := fmt.Sprintf("lifejudge C19 %s seed=%d", kind, i)
		lines = append(lines, line)
		c.begin(line)
		before := len(readRaceReports(c.dir))
		switch kind {
		case "ufs-workers":
			ufsWorkers(c, i, line)
		case "conn-churn":
			connChurn(c, i, line)
		case "flush-mix":
			flushMix(c, i, line)
		case "ufs-churn":
			ufsChurn(c, i, line)
		}
		time.Sleep(2 * time.Millisecond)
		reps := readRaceReports(c.dir)
		seen := map[string]bool{}
		for _, rep := range reps[before:] {
			sig, lib := raceSig(rep)
			if seen[sig] {
				continue
			}
			seen[sig] = true
			short := rep
			if len(short) > 1800 {
				short = short[:1800]
			}
			short = strings.ReplaceAll(strings.ReplaceAll(short, "\n", " | "), " :: ", " : ")
			if lib {
				c.oracleFail("C19/race/"+sig, short, line)
			} else {
				c.oracleFail("C19/harness-race", short, line)
			}
		}
		c.emit(line, "*", true)
	}
}

var _ = net.Pipe
