package main

// C20: the ring logger. Sequential runs are compared exactly with the model after the
// queue has drained; undrained filters and concurrent producers are validated by the
// model as an acceptor (the observation is part of the case line).

import (
	"fmt"
	"strconv"
	"strings"
	"sync"
	"time"

	g "github.com/rminnich/go9p"
)

func init() {
	props["C20"] = propRunner{gen: genC20, exec: execLogger}
}

type ownerT struct{ k int }

// distinct objects, two pairs of them with equal contents: an owner is an identity, not a value
var owners = []*ownerT{{0}, {0}, {1}, {1}}

func ownerOf(s string) interface{} {
	if s == "n" {
		return nil
	}
	return owners[atou(s, 8)]
}

func showIDs(ls []*g.Log) string {
	if len(ls) == 0 {
		return "-"
	}
	p := make([]string, len(ls))
	for i, l := range ls {
		if l == nil {
			p[i] = "nil"
		} else {
			p[i] = strconv.Itoa(l.Data.(int))
		}
	}
	return strings.Join(p, "+")
}

func drain(l *g.Logger) {
	for g.VerifLoggerQueue(l) > 0 {
		time.Sleep(20 * time.Microsecond)
	}
}

// withTimeout maps a hang to the observable "hang".
func withTimeout(d time.Duration, f func() string) string {
	ch := make(chan string, 1)
	go func() { ch <- guard(f) }()
	select {
	case s := <-ch:
		return s
	case <-time.After(d):
		return "hang"
	}
}

// runLogSeq executes the ops; for lower-case f ops without an observation it fills it in.
// Returns the completed line and the observable.
func runLogSeq(n int, ops []string) (string, string) {
	l := g.NewLogger(n)
	var outs []string
	id := 0
	done := make([]string, len(ops))
	obs := withTimeout(20*time.Second, func() string {
		for i, op := range ops {
			body := op[1:]
			if k := strings.Index(body, "="); k >= 0 {
				body = body[:k]
			}
			ot := strings.Split(body, ".")
			typ := int(atou(ot[1], 31))
			switch op[0] {
			case 'L':
				l.Log(id, ownerOf(ot[0]), typ)
				id++
				done[i] = op
			case 'F':
				drain(l)
				outs = append(outs, showIDs(l.Filter(ownerOf(ot[0]), typ)))
				done[i] = op
			case 'f':
				done[i] = "f" + body + "=" + showIDs(l.Filter(ownerOf(ot[0]), typ))
			case 'C':
				// this and the C ops that follow it: concurrent callers, 300 calls each; a caller
				// reports the first answer that differs from the one it got alone
				done[i] = op
				if i > 0 && ops[i-1][0] == 'C' {
					break
				}
				drain(l)
				var grp []string
				for _, o := range ops[i:] {
					if o[0] != 'C' {
						break
					}
					grp = append(grp, o[1:])
				}
				got := make([]string, len(grp))
				for p, a := range grp {
					x := strings.Split(a, ".")
					got[p] = showIDs(l.Filter(ownerOf(x[0]), int(atou(x[1], 31))))
				}
				var wg sync.WaitGroup
				for p, a := range grp {
					wg.Add(1)
					go func(p int, a string) {
						defer wg.Done()
						x := strings.Split(a, ".")
						alone := got[p]
						for j := 0; j < 300; j++ {
							if r := showIDs(l.Filter(ownerOf(x[0]), int(atou(x[1], 31)))); r != alone {
								got[p] = r
								return
							}
						}
					}(p, a)
				}
				wg.Wait()
				outs = append(outs, got...)
			}
		}
		if len(outs) == 0 {
			return "-"
		}
		return strings.Join(outs, ";")
	})
	for i := range done {
		if done[i] == "" {
			done[i] = ops[i]
		}
	}
	return fmt.Sprintf("logseq %d %s", n, strings.Join(done, ",")), obs
}

func execLogger(line string) (string, bool) {
	t := strings.Fields(line)
	switch t[0] {
	case "logseq":
		_, obs := runLogSeq(int(atou(t[1], 31)), strings.Split(t[2], ","))
		return obs, obs != "-"
	case "logconc":
		return "accept", true // the observation is in the line; the driver is the judge
	}
	panic("harness: unknown command " + t[0])
}

func genC20(c *Ctx) {
	i := 0
	for k := 0; k < c.scale(1500, 40000) && !c.stop(); k++ {
		i++
		r := c.rng(i)
		n := 1 + r.Intn(64)
		if r.Intn(4) == 0 {
			n = 1 + r.Intn(4)
		}
		// lengths below, at and far above the capacity
		var length int
		switch r.Intn(4) {
		case 0:
			length = r.Intn(n + 1)
		case 1:
			length = n + r.Intn(3) - 1
		case 2:
			length = n*2 + r.Intn(n+1)
		default:
			length = n * (3 + r.Intn(8))
		}
		if length < 1 {
			length = 1
		}
		nown := 1 + r.Intn(3)
		var ops []string
		ow := func(allowNil bool) string {
			if allowNil && r.Intn(4) == 0 {
				return "n"
			}
			return strconv.Itoa(r.Intn(nown))
		}
		for j := 0; j < length; j++ {
			ops = append(ops, fmt.Sprintf("L%s.%d", ow(r.Intn(10) == 0), r.Intn(4)))
			if r.Intn(12) == 0 {
				ops = append(ops, fmt.Sprintf("F%s.%d", ow(true), r.Intn(4)))
			}
			if r.Intn(15) == 0 {
				ops = append(ops, fmt.Sprintf("f%s.%d", ow(true), r.Intn(4)))
			}
		}
		ops = append(ops, "Fn.0", fmt.Sprintf("F%s.%d", ow(true), r.Intn(4)))
		c.begin(fmt.Sprintf("logseq %d %s", n, strings.Join(ops, ",")))
		line, obs := runLogSeq(n, ops)
		c.count(fmt.Sprintf("cap:%s", bucket(n)))
		c.count(fmt.Sprintf("len/cap:%s", ratio(length, n)))
		c.emit(line, obs, true)
	}
	// concurrent producers
	for k := 0; k < c.scale(150, 4000) && !c.stop(); k++ {
		i++
		r := c.rng(i)
		n := 1 + r.Intn(64)
		G := 2 + r.Intn(5)
		K := 1 + r.Intn(3*n/G+2)
		l := g.NewLogger(n)
		c.begin(fmt.Sprintf("logconc %d %d %d ?", n, G, K))
		obs := withTimeout(20*time.Second, func() string {
			var wg sync.WaitGroup
			for p := 0; p < G; p++ {
				wg.Add(1)
				go func(p int) {
					defer wg.Done()
					for j := 0; j < K; j++ {
						l.Log(p*1000000+j, owners[p%4], 1+j%3)
					}
				}(p)
			}
			wg.Wait()
			drain(l)
			return showIDs(l.Filter(nil, 0))
		})
		c.count("concurrent")
		c.emit(fmt.Sprintf("logconc %d %d %d %s", n, G, K, obs), "accept", true)
	}
	// concurrent Filter callers with different arguments on a logger at rest (ops "C"): each caller
	// gets the answer to its own question, the one a sequential Filter gets
	for k := 0; k < c.scale(120, 3000) && !c.stop(); k++ {
		i++
		r := c.rng(i)
		n := 1 + r.Intn(32)
		length := 1 + r.Intn(3*n)
		var ops []string
		for j := 0; j < length; j++ {
			o := strconv.Itoa(r.Intn(3))
			if r.Intn(10) == 0 {
				o = "n"
			}
			ops = append(ops, fmt.Sprintf("L%s.%d", o, r.Intn(4)))
		}
		for p, G := 0, 2+r.Intn(4); p < G; p++ {
			o := strconv.Itoa(r.Intn(3))
			if r.Intn(3) == 0 {
				o = "n"
			}
			ops = append(ops, fmt.Sprintf("C%s.%d", o, r.Intn(4)))
		}
		c.begin(fmt.Sprintf("logseq %d %s", n, strings.Join(ops, ",")))
		line, obs := runLogSeq(n, ops)
		c.count("concurrent-filters")
		c.emit(line, obs, true)
	}
}

func bucket(n int) string {
	switch {
	case n <= 4:
		return "1-4"
	case n <= 16:
		return "5-16"
	default:
		return "17-64"
	}
}

func ratio(l, n int) string {
	switch {
	case l < n:
		return "below"
	case l <= n+1:
		return "at"
	case l <= 3*n:
		return "above"
	default:
		return "far-above"
	}
}
