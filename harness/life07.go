package main

// C07 — Tflush at every stage of its target's life, with forced orderings of the schedule
// points of flusher and target.

import (
	"fmt"
	"math/rand"
	"sync/atomic"
	"time"

	g "github.com/rminnich/go9p"
)

type flushRec struct {
	rid    int // the Tflush
	target int // rid of the request it aims at, -1 if none
	tag    uint16
}

var targetKinds = []string{"stat", "walk", "open", "clunk", "wstat", "read"}

func targetFrame(s *lifeSess, kind string, tag uint16) []byte {
	switch kind {
	case "walk":
		return s.send(tag, func(fc *g.Fcall) error { return g.PackTwalk(fc, 1, 50, []string{"a"}) })
	case "open":
		return s.send(tag, func(fc *g.Fcall) error { return g.PackTopen(fc, 2, g.OREAD) })
	case "clunk":
		return s.send(tag, func(fc *g.Fcall) error { return g.PackTclunk(fc, 3) })
	case "wstat":
		d := &g.Dir{Type: 0xFFFF, Dev: 0xFFFFFFFF, Mode: 0xFFFFFFFF, Atime: 0xFFFFFFFF, Mtime: 0xFFFFFFFF, Length: 0xFFFFFFFFFFFFFFFF}
		d.Qid = g.Qid{Type: 0xFF, Version: 0xFFFFFFFF, Path: 0xFFFFFFFFFFFFFFFF}
		return s.send(tag, func(fc *g.Fcall) error { return g.PackTwstat(fc, 1, d, false) })
	case "read":
		return s.send(tag, func(fc *g.Fcall) error { return g.PackTread(fc, 4, 0, 32) })
	}
	return s.send(tag, func(fc *g.Fcall) error { return g.PackTstat(fc, 1) })
}

func flushFrame(s *lifeSess, tag, oldtag uint16) []byte {
	return s.send(tag, func(fc *g.Fcall) error { return g.PackTflush(fc, oldtag) })
}

func releaseP(p *park) {
	if p == nil {
		return
	}
	select {
	case <-p.release:
	default:
		close(p.release)
	}
}

func reachedP(p *park, d time.Duration) bool {
	if p == nil {
		return false
	}
	return waitc(p.reached, d)
}

var tPoints = []string{"process.check", "respond.mark", "respond.post", "respond.queued", "respond.unlink", "process.end"}
var fPoints = []string{"process.check", "flush.lookup", "flush.mark", "respond.mark", "respond.queued", "respond.unlink", "process.end"}

// waitReqs waits until n requests have been received.
func (s *lifeSess) waitReqs(n int, d time.Duration) bool {
	dl := time.Now().Add(d)
	for s.nreqs() < n {
		if time.Now().After(dl) {
			return false
		}
		time.Sleep(100 * time.Microsecond)
	}
	return true
}

func genC07(c *Ctx) {
	stages := []string{"same-seg", "queued", "checked", "in-impl", "respond-point", "after-reply", "unknown",
		"flush-of-flush", "multi", "pairwise", "pairwise", "self"}
	i := 0
	for k := 0; k < c.scale(330, 9000) && !c.stop(); k++ {
		i++
		r := c.rng(i)
		stage := stages[k%len(stages)]
		kind := targetKinds[r.Intn(len(targetKinds))]
		flushOp := r.Intn(2) == 0
		honour := flushOp && r.Intn(2) == 0
		maxpend := []int{0, 1, 8}[r.Intn(3)]
		line := fmt.Sprintf("lifejudge C07 seed=%d stage=%s kind=%s flushop=%v honour=%v maxpend=%d", i, stage, kind, flushOp, honour, maxpend)
		c.begin(line)
		s := newLifeSess(8192, maxpend, flushOp)
		if r.Intn(3) == 0 {
			s.perturb = perturber(int64(i), uint64(4+r.Intn(10)))
		}
		ok := s.setup(4)
		if ok { // fid 4 is open, for reads
			f := s.rpc(1, func(fc *g.Fcall) error { return g.PackTopen(fc, 4, g.OREAD) })
			ok = f != nil && f.typ == g.Ropen
		}
		if !ok {
			c.oracleFail("C07/setup", "session set-up failed", line)
			s.end()
			continue
		}
		if (kind == "read" || kind == "stat" || kind == "wstat") && r.Intn(2) == 0 {
			// three requests of the target's kind at once, answered: the pool of reply buffers then holds
			// buffers that last carried this kind of reply
			b0, g0 := s.nreqs(), s.nframes()
			var fr [][]byte
			var rids []int
			s.mu.Lock()
			for j := 0; j < 3; j++ {
				s.plans[b0+j] = plan{gate: true}
				rids = append(rids, b0+j)
			}
			s.mu.Unlock()
			for j := 0; j < 3; j++ {
				fr = append(fr, targetFrame(s, kind, uint16(20+j)))
			}
			s.write(fr...)
			s.waitEntered(rids, g0, 5*time.Second)
			for _, x := range rids {
				s.release(x)
			}
			s.waitFrames(g0+3, 5*time.Second)
			s.quiet(time.Millisecond)
			c.count("warm-pool")
		}
		base := s.nreqs()
		f0 := s.nframes()
		var flushes []flushRec
		targets := map[int]bool{}
		tRid := base
		setPlan := func(rid int, p plan) {
			s.mu.Lock()
			s.plans[rid] = p
			s.mu.Unlock()
		}
		var parks []*park
		pk := func(point string, rid int) *park {
			p := s.parkRule(point, rid, 0)
			parks = append(parks, p)
			return p
		}
		T := targetFrame(s, kind, 7)
		switch stage {
		case "same-seg":
			gate := r.Intn(2) == 0
			setPlan(base, plan{gate: gate, honour: honour})
			s.write(T, flushFrame(s, 8, 7))
			flushes = append(flushes, flushRec{base + 1, base, 8})
			if gate {
				s.waitFrames(f0+1, time.Duration(r.Intn(20))*time.Millisecond)
				s.release(base)
			}
		case "self":
			// a Tflush that names its own tag, alone or queued behind a request under that tag
			behind := r.Intn(2) == 0
			if behind {
				setPlan(base, plan{gate: true})
				s.write(T, flushFrame(s, 7, 7))
				s.waitEntered([]int{base}, f0, 5*time.Second)
				time.Sleep(time.Duration(r.Intn(2000)) * time.Microsecond)
				s.release(base)
				flushes = append(flushes, flushRec{base + 1, -1, 7})
			} else {
				s.write(flushFrame(s, 9, 9))
				flushes = append(flushes, flushRec{base, -1, 9})
				tRid = -1
			}
		case "queued":
			// P (tag 7) parked in the implementation, T queued behind it under the same tag
			setPlan(base, plan{gate: true})
			s.write(s.send(7, func(fc *g.Fcall) error { return g.PackTstat(fc, 1) }))
			s.waitEntered([]int{base}, f0, 5*time.Second)
			tRid = base + 1
			s.write(T)
			s.waitReqs(base+2, 5*time.Second)
			s.write(flushFrame(s, 8, 7))
			flushes = append(flushes, flushRec{base + 2, tRid, 8})
			s.waitFrames(f0+1, time.Duration(5+r.Intn(20))*time.Millisecond)
			s.release(base)
		case "checked":
			pT := pk("process.check", base)
			s.write(T)
			reachedP(pT, 5*time.Second)
			pF := pk([]string{"flush.lookup", "flush.mark", "process.end"}[r.Intn(3)], base+1)
			s.write(flushFrame(s, 8, 7))
			flushes = append(flushes, flushRec{base + 1, base, 8})
			reachedP(pF, 30*time.Millisecond)
			if r.Intn(2) == 0 {
				releaseP(pT)
				time.Sleep(time.Duration(r.Intn(3)) * time.Millisecond)
				releaseP(pF)
			} else {
				releaseP(pF)
				time.Sleep(time.Duration(r.Intn(3)) * time.Millisecond)
				releaseP(pT)
			}
		case "in-impl":
			setPlan(base, plan{gate: true, honour: honour, async: r.Intn(4) == 0})
			s.write(T)
			s.waitEntered([]int{base}, f0, 5*time.Second)
			s.write(flushFrame(s, 8, 7))
			flushes = append(flushes, flushRec{base + 1, base, 8})
			// the Rflush arrives now if the flush is honoured, after the reply otherwise
			s.waitFrames(f0+1, time.Duration(5+r.Intn(20))*time.Millisecond)
			s.release(base)
		case "respond-point":
			pT := pk(tPoints[1+r.Intn(4)], base)
			s.write(T)
			reachedP(pT, 5*time.Second)
			s.write(flushFrame(s, 8, 7))
			flushes = append(flushes, flushRec{base + 1, base, 8})
			s.waitFrames(s.nframes()+1, time.Duration(5+r.Intn(20))*time.Millisecond)
			releaseP(pT)
		case "after-reply":
			s.write(T)
			s.waitFrames(f0+1, 5*time.Second)
			if r.Intn(2) == 0 {
				time.Sleep(time.Duration(r.Intn(2000)) * time.Microsecond)
			}
			s.write(flushFrame(s, 8, 7))
			flushes = append(flushes, flushRec{base + 1, -1, 8})
		case "unknown":
			s.write(flushFrame(s, 8, uint16(90+r.Intn(5))))
			flushes = append(flushes, flushRec{base, -1, 8})
			tRid = -1
		case "flush-of-flush":
			setPlan(base, plan{gate: true, honour: honour})
			s.write(T)
			s.waitEntered([]int{base}, f0, 5*time.Second)
			pF := pk("flush.mark", base+1)
			s.write(flushFrame(s, 8, 7))
			flushes = append(flushes, flushRec{base + 1, base, 8})
			reachedP(pF, time.Second)
			if r.Intn(2) == 0 {
				releaseP(pF)
				time.Sleep(time.Millisecond)
			}
			s.write(flushFrame(s, 9, 8))
			flushes = append(flushes, flushRec{base + 2, base + 1, 9})
			time.Sleep(time.Duration(r.Intn(5)) * time.Millisecond)
			releaseP(pF)
			s.waitFrames(f0+1, time.Duration(5+r.Intn(10))*time.Millisecond)
			s.release(base)
		case "multi":
			setPlan(base, plan{gate: true, honour: honour})
			s.write(T)
			s.waitEntered([]int{base}, f0, 5*time.Second)
			n := 2 + r.Intn(2)
			var fr [][]byte
			for j := 0; j < n; j++ {
				fr = append(fr, flushFrame(s, uint16(8+j), 7))
				flushes = append(flushes, flushRec{base + 1 + j, base, uint16(8 + j)})
			}
			if r.Intn(2) == 0 {
				s.write(fr...)
			} else {
				for _, f := range fr {
					s.write(f)
					time.Sleep(time.Duration(r.Intn(800)) * time.Microsecond)
				}
			}
			s.waitFrames(f0+1, time.Duration(5+r.Intn(10))*time.Millisecond)
			s.release(base)
		case "pairwise":
			// one of the two is held at a schedule point until the other has reached one of its own
			pt := tPoints[r.Intn(len(tPoints))]
			pf := fPoints[r.Intn(len(fPoints))]
			c.count("pair:" + pt + "<" + pf)
			if r.Intn(2) == 0 {
				// the target waits at pt; the flusher runs up to pf (or as far as it gets)
				pT := pk(pt, base)
				s.write(T)
				reachedP(pT, 5*time.Second)
				pF := pk(pf, base+1)
				s.write(flushFrame(s, 8, 7))
				flushes = append(flushes, flushRec{base + 1, base, 8})
				reachedP(pF, 25*time.Millisecond)
				releaseP(pT)
				time.Sleep(time.Duration(r.Intn(3000)) * time.Microsecond)
				releaseP(pF)
			} else {
				// the flusher waits at pf with the target parked in the implementation; the target then runs up to pt
				setPlan(base, plan{gate: true, honour: honour})
				s.write(T)
				s.waitEntered([]int{base}, f0, 5*time.Second)
				pF := pk(pf, base+1)
				pT := pk(pt, base)
				s.write(flushFrame(s, 8, 7))
				flushes = append(flushes, flushRec{base + 1, base, 8})
				reachedP(pF, 25*time.Millisecond)
				s.release(base)
				reachedP(pT, 25*time.Millisecond)
				releaseP(pF)
				time.Sleep(time.Duration(r.Intn(3000)) * time.Microsecond)
				releaseP(pT)
			}
		}
		if tRid >= 0 {
			targets[tRid] = true
		}
		for _, f := range flushes {
			if f.target >= 0 {
				targets[f.target] = true
			}
		}
		// settle: every flush answered, then nothing more arrives
		want := len(flushes)
		dl := time.Now().Add(10 * time.Second)
		for time.Now().Before(dl) {
			n := 0
			for _, f := range flushes {
				n += s.countFrames(f.tag, g.Rflush, f0)
			}
			if n >= want {
				break
			}
			time.Sleep(500 * time.Microsecond)
		}
		for _, p := range parks {
			releaseP(p)
		}
		s.quiet(4 * time.Millisecond)
		flushOracle(c, s, line, stage, kind, base, f0, flushes, targets, tRid)
		c.count("stage:" + stage)
		c.count("kind:" + kind)
		time.Sleep(time.Millisecond)
		s.emitLog(c)
		s.end()
		c.emit(line, "*", true)
	}
}

// flushOracle evaluates the statement of C07 on what the client saw.
func flushOracle(c *Ctx, s *lifeSess, line, stage, kind string, base, f0 int, flushes []flushRec, targets map[int]bool, tRid int) {
	// frame k of the connection was produced by take k
	s.mu.Lock()
	frameOf := map[int][]int{} // rid -> frame indices
	for k := 0; k < len(s.fr) && k < len(s.takes); k++ {
		frameOf[s.takes[k]] = append(frameOf[s.takes[k]], k)
	}
	nfr, ntk := len(s.fr), len(s.takes)
	s.mu.Unlock()
	if nfr != ntk {
		c.oracleFail("C07/frames-vs-takes", fmt.Sprintf("%d frames on the wire, %d replies taken by the writer", nfr, ntk), line)
	}
	for _, f := range flushes {
		ftag := f.tag
		n := s.countFrames(ftag, g.Rflush, f0)
		if n != 1 {
			c.oracleFail("C07/rflush-count/"+stage, fmt.Sprintf("Tflush (tag %d) answered by %d Rflush", ftag, n), line)
			continue
		}
		fi := s.frameIndex(ftag, g.Rflush, f0)
		if f.target < 0 {
			continue
		}
		ti := frameOf[f.target]
		if len(ti) > 1 {
			c.oracleFail("C07/target-replied-twice/"+stage, fmt.Sprintf("request %d answered %d times", f.target, len(ti)), line)
		}
		if len(ti) >= 1 && ti[0] > fi {
			c.oracleFail("C07/order/rflush-before-reply", fmt.Sprintf("stage %s: Rflush (frame %d) precedes the reply to the flushed request (frame %d)", stage, fi, ti[0]), line)
		}
		if len(ti) == 0 {
			// cancelled: never handed to the implementation after the Rflush
			s.mu.Lock()
			q := s.reqs[f.target]
			at := s.fr[fi].at
			s.mu.Unlock()
			if e := atomic.LoadInt64(&q.entered); e != 0 && e > at {
				c.oracleFail("C07/ran-after-rflush/"+stage, fmt.Sprintf("request %d reached the implementation after its Rflush had arrived", f.target), line)
			}
		}
	}
	// every other request answered exactly once, targets at most once, nothing unsolicited
	replyOracle(c, s, "C07", line, base, s.nreqs(), f0, targets)
	// a cancelled request leaves nothing behind
	if tRid >= 0 && len(frameOf[tRid]) == 0 {
		switch kind {
		case "walk":
			if f := s.rpc(20, func(fc *g.Fcall) error { return g.PackTstat(fc, 50) }); f == nil || f.typ != g.Rerror {
				c.oracleFail("C07/state/walk-newfid", "the cancelled Twalk left its newfid behind (Tstat on it succeeds)", line)
			}
		case "open":
			if vi := g.VerifConn(s.conn); vi.Fids[2].Opened {
				c.oracleFail("C07/state/open", "the cancelled Topen left the fid open", line)
			}
		case "clunk":
			if f := s.rpc(20, func(fc *g.Fcall) error { return g.PackTstat(fc, 3) }); f == nil || f.typ != g.Rstat {
				c.oracleFail("C07/state/clunk", "the cancelled Tclunk removed the fid", line)
			}
		}
	}
}

var _ = rand.Int
