package main

// Dispatcher for the library's schedule points (build tag verif).

import (
	"sync"

	g "github.com/rminnich/go9p"
)

type hookFn func(point string, args []interface{})

var (
	hookMu   sync.RWMutex
	hookSubs = map[int]hookFn{}
	hookNext int
)

func init() {
	g.VerifSetHook(func(point string, args ...interface{}) {
		hookMu.RLock()
		subs := make([]hookFn, 0, len(hookSubs))
		for _, f := range hookSubs {
			subs = append(subs, f)
		}
		hookMu.RUnlock()
		for _, f := range subs {
			f(point, args)
		}
	})
}

// subscribe registers f for every schedule point; the returned function removes it.
func subscribe(f hookFn) func() {
	hookMu.Lock()
	id := hookNext
	hookNext++
	hookSubs[id] = f
	hookMu.Unlock()
	return func() {
		hookMu.Lock()
		delete(hookSubs, id)
		hookMu.Unlock()
	}
}
