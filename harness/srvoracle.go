package main

// Executable oracles of C04, C05 and C12, evaluated on what the real framework did
// (replies, calls into the implementation, FidDestroy log, fid table). They are written
// from the property statements / the Lean specifications (G9Proofs/Props/C04.lean
// specValid, C05 rules, C12 negotiate_spec) and do not use the Lean mirror.

import (
	"fmt"
	"sort"
	"strings"

	g "github.com/rminnich/go9p"
)

// tfid is what the protocol history says about a fid (independent of the framework's own
// bookkeeping, which is what is being checked).
type tfid struct {
	typ    uint8
	opened bool
	mode   uint8
}

type oracleState struct {
	c     *Ctx
	valid map[uint32]int // fid -> uid, per the protocol history
	fst   map[uint32]*tfid
	line  string
}

// track updates the protocol-level picture of the fids from a request and its reply.
func (o *oracleState) track(st *seqStep) {
	if st.line != "" && !strings.HasPrefix(st.line, o.tline()) {
		o.fst = map[uint32]*tfid{}
	}
	if o.fst == nil {
		o.fst = map[uint32]*tfid{}
	}
	if st.reply == nil {
		return
	}
	u32 := func(s string) uint32 { return uint32(atou(s, 32)) }
	t, rc := st.msg[0], st.reply
	switch {
	case t == "Tattach" && rc.Type == g.Rattach:
		if _, ok := o.fst[u32(st.msg[1])]; !ok {
			o.fst[u32(st.msg[1])] = &tfid{typ: rc.Qid.Type}
		}
	case t == "Tauth" && rc.Type == g.Rauth:
		if _, ok := o.fst[u32(st.msg[1])]; !ok {
			o.fst[u32(st.msg[1])] = &tfid{typ: g.QTAUTH}
		}
	case t == "Twalk" && rc.Type == g.Rwalk:
		f, nf := u32(st.msg[1]), u32(st.msg[2])
		names := parseList(st.msg[3])
		src := o.fst[f]
		if src == nil || len(rc.Wqid) != len(names) {
			return
		}
		ty := src.typ
		if len(rc.Wqid) > 0 {
			ty = rc.Wqid[len(rc.Wqid)-1].Type
		}
		if nf == f {
			src.typ = ty
		} else if _, ok := o.fst[nf]; !ok {
			o.fst[nf] = &tfid{typ: ty}
		}
	case t == "Topen" && rc.Type == g.Ropen:
		if x := o.fst[u32(st.msg[1])]; x != nil {
			x.opened, x.mode = true, uint8(atou(st.msg[2], 8))
		}
	case t == "Tcreate" && rc.Type == g.Rcreate:
		if x := o.fst[u32(st.msg[1])]; x != nil {
			x.opened, x.mode, x.typ = true, uint8(atou(st.msg[4], 8)), rc.Qid.Type
		}
	case t == "Tclunk" && rc.Type == g.Rclunk, t == "Tremove":
		delete(o.fst, u32(st.msg[1]))
	}
}

var tlineStore = map[*oracleState]string{}

func (o *oracleState) tline() string { return tlineStore[o] }

func fidBearing(t string) bool {
	switch t {
	case "Twalk", "Topen", "Tcreate", "Tread", "Twrite", "Tclunk", "Tremove", "Tstat", "Twstat":
		return true
	}
	return false
}

// isRerr: an Rerror with this text — or, on a connection whose msize cannot carry the
// text, with as much of it as fits (the frame then fills the msize exactly).
func (st *seqStep) isRerr(text string) bool {
	fc := st.reply
	if fc == nil || fc.Type != g.Rerror {
		return false
	}
	if text == "" || fc.Error == text {
		return true
	}
	return strings.HasPrefix(text, fc.Error) && uint32(st.frame) == st.after.Msize
}

func (o *oracleState) fail(rule string, st *seqStep, desc string) {
	o.c.oracleFail(fmt.Sprintf("%s/%s/%s", o.c.prop, rule, st.msg[0]), desc, st.line)
}

// ---- C04: the set of valid fids is the one the protocol history determines ----
func (o *oracleState) c04(st *seqStep) {
	if st.line != "" && !strings.HasPrefix(st.line, o.line) {
		o.valid = map[uint32]int{} // a new history began
	}
	o.line = st.line
	defer func() {
		o.track(st)
		tlineStore[o] = st.line
		if st.reply == nil {
			return
		}
		// what the framework believes about each fid is what the history says
		for k, x := range o.fst {
			if vf, ok := st.after.Fids[k]; ok && (vf.Type != x.typ || vf.Opened != x.opened || (x.opened && vf.Omode != x.mode)) {
				o.fail("fidstate", st, fmt.Sprintf("fid %d: framework has type %d opened %v mode %d, history says type %d opened %v mode %d",
					k, vf.Type, vf.Opened, vf.Omode, x.typ, x.opened, x.mode))
			}
		}
	}()
	if st.reply == nil {
		return
	}
	t := st.msg[0]
	u32 := func(s string) uint32 { return uint32(atou(s, 32)) }
	was := map[uint32]bool{}
	for k := range o.valid {
		was[k] = true
	}
	created := map[uint32]bool{}
	if fidBearing(t) {
		f := u32(st.msg[1])
		if _, ok := o.valid[f]; !ok {
			if !st.isRerr("unknown fid") || len(st.calls) > 0 {
				o.fail("unknownfid", st, fmt.Sprintf("request on invalid fid %d got %s, calls %v", f, showFcall(st.reply), st.calls))
			}
		}
	}
	if t == "Tattach" {
		if af := u32(st.msg[2]); af != g.NOFID {
			if _, ok := o.valid[af]; !ok && u32(st.msg[1]) != af {
				if _, taken := o.valid[u32(st.msg[1])]; !taken && u32(st.msg[1]) != g.NOFID && !st.isRerr("unknown fid") && !st.isRerr("unknown user") {
					o.fail("unknownfid", st, fmt.Sprintf("Tattach with invalid afid %d got %s, calls %v", af, showFcall(st.reply), st.calls))
				}
			}
		}
	}
	switch t {
	case "Tattach", "Tauth":
		f := u32(st.msg[1])
		succ := (t == "Tattach" && st.reply.Type == g.Rattach) || (t == "Tauth" && st.reply.Type == g.Rauth)
		if _, ok := o.valid[f]; ok {
			if !st.isRerr("fid already in use") || len(st.calls) > 0 {
				o.fail("inuse", st, fmt.Sprintf("%s binding valid fid %d got %s calls %v", t, f, showFcall(st.reply), st.calls))
			}
		} else {
			created[f] = true
			if succ {
				// the user the request names: n_uname as the connection's dialect decodes it (a plain
				// 9P2000 Tattach carries none: Go's zero value); the harness's user pool knows every uid
				un := u32(st.msg[len(st.msg)-1])
				if !st.before.Dotu && t == "Tattach" {
					un = 0
				}
				uid := int(un)
				if vf, ok := st.after.Fids[f]; ok && vf.Uid != uid {
					o.fail("user-binding", st, fmt.Sprintf("%s bound fid %d to user %d, the request names user %d", t, f, vf.Uid, uid))
				}
				o.valid[f] = uid
			}
		}
	case "Twalk":
		f, nf := u32(st.msg[1]), u32(st.msg[2])
		names := parseList(st.msg[3])
		if _, ok := o.valid[nf]; ok && nf != f && st.reply.Type == g.Rwalk {
			o.fail("inuse", st, fmt.Sprintf("Twalk bound valid newfid %d: %s", nf, showFcall(st.reply)))
		}
		if st.reply.Type == g.Rwalk {
			if nf != f {
				created[nf] = true
			}
			if len(st.reply.Wqid) == len(names) {
				if uid, ok := o.valid[f]; ok && nf != f {
					o.valid[nf] = uid
				}
			}
		} else if nf != f {
			created[nf] = true // may have been created and discarded
		}
	case "Tclunk":
		if st.reply.Type == g.Rclunk {
			delete(o.valid, u32(st.msg[1]))
		}
	case "Tremove":
		delete(o.valid, u32(st.msg[1]))
	}
	// the table is exactly the valid set, each fid referenced once, bound to its user
	var diff []string
	for k, uid := range o.valid {
		vf, ok := st.after.Fids[k]
		if !ok {
			diff = append(diff, fmt.Sprintf("fid %d should be valid", k))
		} else if vf.Ref != 1 {
			diff = append(diff, fmt.Sprintf("fid %d refcount %d", k, vf.Ref))
		} else if vf.Uid != uid {
			diff = append(diff, fmt.Sprintf("fid %d user %d, was bound to %d", k, vf.Uid, uid))
		}
	}
	for k := range st.after.Fids {
		if _, ok := o.valid[k]; !ok {
			diff = append(diff, fmt.Sprintf("fid %d should be invalid", k))
		}
	}
	if len(diff) > 0 {
		sort.Strings(diff)
		o.fail("validset", st, strings.Join(diff, "; "))
	}
	// FidDestroy exactly once for every fid that stopped being valid (or was created and dropped)
	seen := map[uint32]int{}
	for _, d := range st.destroy {
		seen[d]++
	}
	for k, n := range seen {
		_, still := o.valid[k]
		if n > 1 || still || !(was[k] || created[k]) {
			o.fail("destroy", st, fmt.Sprintf("FidDestroy(%d) x%d (valid after: %v, valid before: %v)", k, n, still, was[k]))
		}
	}
	for k := range was {
		if _, still := o.valid[k]; !still && seen[k] != 1 {
			o.fail("destroy", st, fmt.Sprintf("fid %d invalidated, FidDestroy called %d times before the reply", k, seen[k]))
		}
	}
	// a fid the implementation was shown by a request that did not make it valid is reported destroyed too,
	// once, before the reply
	for _, cl := range st.calls {
		p := strings.Split(cl, ":")
		if len(p) < 5 {
			continue
		}
		nf := ""
		switch p[0] {
		case "attach", "authCheck", "authInit":
			nf = p[1]
		case "walk":
			if p[4] != p[1] {
				nf = p[4]
			}
		}
		if nf == "" || nf == "-" {
			continue
		}
		k := u32(nf)
		if _, still := o.valid[k]; !still && !was[k] && seen[k] != 1 {
			o.fail("destroy", st, fmt.Sprintf("fid %d was shown to the implementation (%s) by a request that did not make it valid, FidDestroy called %d times before the reply", k, cl, seen[k]))
		}
	}
}

// ---- C05: protocol rules are enforced before the implementation is called ----
func (o *oracleState) c05(st *seqStep) {
	defer func() { o.track(st); tlineStore[o] = st.line }()
	if st.line != "" && !strings.HasPrefix(st.line, o.tline()) {
		o.fst = map[uint32]*tfid{}
	}
	if st.reply == nil {
		return
	}
	t := st.msg[0]
	if !fidBearing(t) {
		if t == "Tattach" && st.cfg[2] == "1" {
			// no attach reaches the implementation unless AuthCheck accepted this attach
			for i, c := range st.calls {
				if strings.HasPrefix(c, "attach:") {
					ok := i > 0 && strings.HasPrefix(st.calls[i-1], "authCheck:"+strings.Split(c, ":")[1]+":")
					if !ok || (len(st.ans) > 1 && strings.HasPrefix(st.ans[1][0], "E:")) {
						o.fail("authgate", st, fmt.Sprintf("attach reached the implementation, calls %v", st.calls))
					}
				}
			}
		}
		return
	}
	u32 := func(s string) uint32 { return uint32(atou(s, 32)) }
	f := u32(st.msg[1])
	fb, ok := st.before.Fids[f]
	hx := o.fst[f]
	if !ok || f == g.NOFID || hx == nil {
		return // C04's business
	}
	// the rules are evaluated on the fid state the protocol history determines
	fb.Type, fb.Opened, fb.Omode = hx.typ, hx.opened, hx.mode
	dir := fb.Type&g.QTDIR != 0
	auth := fb.Type&g.QTAUTH != 0
	msize := st.before.Msize
	rule := ""
	switch t {
	case "Twalk":
		names := parseList(st.msg[3])
		if fb.Opened {
			rule = "walk-from-open-fid"
		} else if len(names) > 0 && !dir {
			rule = "walk-by-name-from-non-directory"
		}
	case "Topen":
		mode := uint8(atou(st.msg[2], 8))
		if fb.Opened {
			rule = "open-of-open-fid"
		} else if dir && mode != g.OREAD {
			rule = "open-directory-not-for-reading"
		}
	case "Tcreate":
		perm := u32(st.msg[3])
		if fb.Opened {
			rule = "create-through-open-fid"
		} else if !dir {
			rule = "create-through-non-directory"
		} else if perm&(g.DMNAMEDPIPE|g.DMSYMLINK|g.DMLINK|g.DMDEVICE|g.DMSOCKET) != 0 && !st.before.Dotu {
			rule = "create-special-file-without-dotu"
		}
	case "Tread":
		if u32(st.msg[3]) > msize-g.IOHDRSZ {
			rule = "read-count-exceeds-msize"
		}
	case "Twrite":
		if !auth {
			if !fb.Opened || dir || fb.Omode&3 == g.OREAD || fb.Omode&3 == g.OEXEC {
				rule = "write-through-fid-not-open-for-writing"
			} else if u32(st.msg[3]) > msize-g.IOHDRSZ {
				rule = "write-count-exceeds-msize"
			}
		}
	}
	if rule != "" {
		if st.reply.Type != g.Rerror || len(st.calls) > 0 {
			o.fail("rule:"+rule, st, fmt.Sprintf("got %s, calls %v", showFcall(st.reply), st.calls))
		}
		return
	}
	if auth {
		return
	}
	// a request that satisfies the rules is forwarded exactly once with the fid and user named
	if t == "Twalk" {
		nf := u32(st.msg[2])
		if _, taken := st.before.Fids[nf]; (taken && nf != f) || nf == g.NOFID {
			return // refused for the newfid (C04)
		}
	}
	if t == "Tcreate" {
		perm, mode := u32(st.msg[3]), uint8(atou(st.msg[4], 8))
		if perm&g.DMDIR != 0 && mode != g.OREAD {
			return // go9p refuses creating a directory opened other than for reading
		}
	}
	op := strings.ToLower(t[1:])
	want := fmt.Sprintf("%s:%d:%d:", op, f, fb.Uid)
	n := 0
	for _, c := range st.calls {
		if strings.HasPrefix(c, want) {
			n++
		}
	}
	if n != 1 || len(st.calls) != 1 {
		o.fail("forwarded-once", st, fmt.Sprintf("legal %s: calls %v, reply %s", t, st.calls, showFcall(st.reply)))
	}
}

// ---- C12: negotiation is honoured ----
func (o *oracleState) c12(st *seqStep) {
	t := st.msg[0]
	if st.reply == nil {
		// a dropped connection is right only for a frame the connection may not carry
		if uint32(st.reqlen) <= st.before.Msize {
			o.fail("dropped", st, fmt.Sprintf("%d-byte request on msize %d got no reply", st.reqlen, st.before.Msize))
		}
		return
	}
	if uint32(st.reqlen) > st.before.Msize {
		o.fail("oversize-executed", st, fmt.Sprintf("%d-byte frame on msize %d was answered: %s", st.reqlen, st.before.Msize, showFcall(st.reply)))
	}
	if uint32(st.frame) > st.after.Msize {
		o.fail("reply-exceeds-msize", st, fmt.Sprintf("%d-byte reply on msize %d: type %d", st.frame, st.after.Msize, st.reply.Type))
	}
	if t == "Tversion" {
		cm := uint32(atou(st.msg[1], 32))
		ver := string(mustHex(st.msg[2]))
		if cm < g.IOHDRSZ {
			if st.reply.Type != g.Rerror {
				o.fail("msize-too-small-accepted", st, showFcall(st.reply))
			}
			// a refused Tversion negotiates nothing: msize and dialect stay what they were
			if st.after.Msize != st.before.Msize || st.after.Dotu != st.before.Dotu {
				o.fail("refused-version-changed-connection", st, fmt.Sprintf("connection was %d/%v, after the refused Tversion %d/%v",
					st.before.Msize, st.before.Dotu, st.after.Msize, st.after.Dotu))
			}
			return
		}
		wantM := cm
		if st.before.Msize < wantM {
			wantM = st.before.Msize
		}
		wantU := ver == "9P2000.u" && st.cfg[1] == "1"
		wantV := "9P2000"
		if wantU {
			wantV = "9P2000.u"
		}
		if st.reply.Type != g.Rversion || st.reply.Msize != wantM || st.reply.Version != wantV ||
			st.after.Msize != wantM || st.after.Dotu != wantU {
			o.fail("negotiate", st, fmt.Sprintf("client msize %d ver %q, server %d/%s -> %s, conn %d/%v", cm, ver,
				st.before.Msize, st.cfg[1], showFcall(st.reply), st.after.Msize, st.after.Dotu))
		}
	}
	if t != "Tversion" && (st.after.Msize != st.before.Msize || st.after.Dotu != st.before.Dotu) {
		o.fail("msize-changed-without-version", st, fmt.Sprintf("connection was %d/%v, after %s %d/%v", st.before.Msize, st.before.Dotu, t, st.after.Msize, st.after.Dotu))
	}
	// an I/O count the negotiated msize cannot carry is refused, never executed
	if (t == "Tread" || t == "Twrite") && st.before.Msize >= g.IOHDRSZ {
		cnt := uint32(atou(st.msg[3], 32))
		if cnt > st.before.Msize-g.IOHDRSZ {
			for _, cl := range st.calls {
				if strings.HasPrefix(cl, "read:") || strings.HasPrefix(cl, "write:") {
					o.fail("count-limit-not-enforced", st, fmt.Sprintf("%s count %d on msize %d reached the implementation: %v", t, cnt, st.before.Msize, st.calls))
				}
			}
		}
	}
	if t == "Tread" && st.reply.Type == g.Rread {
		if uint32(len(st.reply.Data)) > uint32(atou(st.msg[3], 32)) {
			o.fail("read-exceeds-count", st, fmt.Sprintf("Tread count %s answered with %d bytes", st.msg[3], len(st.reply.Data)))
		}
	}
}
