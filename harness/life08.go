package main

// C08 — independent requests progress independently; shared tags run FIFO.
// C11 — a disconnect releases everything the connection held.

import (
	"fmt"
	"sort"
	"strings"
	"sync/atomic"
	"time"

	g "github.com/rminnich/go9p"
)

func genC08(c *Ctx) {
	i := 0
	// part 1: a subset parked in the implementation, everything else must complete meanwhile
	for k := 0; k < c.scale(140, 4000) && !c.stop(); k++ {
		i++
		r := c.rng(i)
		N := 2 + r.Intn(9)
		nb := 1 + r.Intn(6)
		if nb >= N {
			nb = N - 1
		}
		maxpend := []int{0, 1, 8}[r.Intn(3)]
		nconn := 1 + r.Intn(2)
		line := fmt.Sprintf("lifejudge C08 indep seed=%d N=%d blocked=%d maxpend=%d conns=%d", i, N, nb, maxpend, nconn)
		c.begin(line)
		s := newLifeSess(8192, maxpend, false)
		var s2 *lifeSess
		if nconn == 2 {
			s2 = connectLife(s.srv, s.ops, maxpend)
		}
		if r.Intn(3) == 0 {
			s.perturb = perturber(int64(i), uint64(4+r.Intn(10)))
		}
		if !s.setup(N) || (s2 != nil && !s2.setup(2)) {
			c.oracleFail("C08/setup", "session set-up failed", line)
			s.end()
			continue
		}
		base := s.nreqs()
		f0 := s.nframes()
		blocked := map[int]bool{}
		for _, j := range r.Perm(N)[:nb] {
			blocked[j] = true
			s.mu.Lock()
			s.plans[base+j] = plan{gate: true}
			s.mu.Unlock()
		}
		states := make([]fidState, N+1)
		fresh := uint32(3000)
		var frames [][]byte
		var blockedIdx []int
		for j := range blocked {
			blockedIdx = append(blockedIdx, j)
		}
		sort.Ints(blockedIdx)
		sameFid := r.Intn(2) == 0
		for j := 0; j < N; j++ {
			fidj := j
			// a request that is not parked may name the fid of one that is (another tag, same fid)
			if sameFid && !blocked[j] && r.Intn(2) == 0 {
				fidj = blockedIdx[r.Intn(len(blockedIdx))]
			}
			fr, _ := genReq(r, s, uint16(10+j), uint32(fidj+1), &states[fidj+1], &fresh)
			frames = append(frames, fr)
		}
		// the parked ones first when fids are shared, so that they are inside before the others arrive
		if sameFid {
			var first, rest [][]byte
			var firstIdx []int
			for j := 0; j < N; j++ {
				if blocked[j] {
					first = append(first, frames[j])
					firstIdx = append(firstIdx, j)
				} else {
					rest = append(rest, frames[j])
				}
			}
			// arrival order changes: re-key the plans to it
			s.mu.Lock()
			for j := 0; j < N; j++ {
				delete(s.plans, base+j)
			}
			for k := range first {
				s.plans[base+k] = plan{gate: true}
			}
			s.mu.Unlock()
			nb2 := len(first)
			s.write(first...)
			var ids []int
			for k := 0; k < nb2; k++ {
				ids = append(ids, base+k)
			}
			s.waitEntered(ids, f0, 5*time.Second)
			s.write(rest...)
			blocked = map[int]bool{}
			for k := 0; k < nb2; k++ {
				blocked[k] = true
			}
			c.count("same-fid")
		} else if r.Intn(2) == 0 {
			s.write(frames...)
		} else {
			for _, f := range frames {
				s.write(f)
			}
		}
		// everything not parked is answered while the others stay parked
		if !s.waitFrames(f0+N-nb, 8*time.Second) {
			c.oracleFail("C08/blocked-behind-parked", fmt.Sprintf("%d of %d requests parked in the implementation: only %d of the other %d were answered",
				nb, N, s.nframes()-f0, N-nb), line)
		}
		// and so is a request on another connection
		if s2 != nil {
			if f := s2.rpc(5, func(fc *g.Fcall) error { return g.PackTstat(fc, 1) }); f == nil || f.typ != g.Rstat {
				c.oracleFail("C08/other-connection-blocked", "a request on a second connection was not answered while requests of the first were parked", line)
			}
		}
		// a request issued now, with the parked ones still parked, is answered too
		lateBase := s.nreqs()
		if f := s.rpc(200, func(fc *g.Fcall) error { return g.PackTstat(fc, 0) }); f == nil || f.typ != g.Rstat {
			c.oracleFail("C08/late-request-blocked", "a request issued while others were parked was not answered", line)
		}
		_ = lateBase
		var bl []int
		for j := range blocked {
			bl = append(bl, j)
		}
		sort.Ints(bl)
		r.Shuffle(len(bl), func(a, b int) { bl[a], bl[b] = bl[b], bl[a] })
		for _, j := range bl {
			s.release(base + j)
		}
		s.waitFrames(f0+N+1, 8*time.Second)
		s.quiet(2 * time.Millisecond)
		replyOracle(c, s, "C08", line, base, s.nreqs(), f0, nil)
		c.count(fmt.Sprintf("blocked:%d", nb))
		time.Sleep(time.Millisecond)
		s.emitLog(c)
		if s2 != nil {
			s2.emitLog(c)
			s2.end()
		}
		s.end()
		c.emit(line, "*", true)
	}
	// part 2: groups under one shared tag, mixed with other tags
	for k := 0; k < c.scale(140, 4000) && !c.stop(); k++ {
		i++
		r := c.rng(i)
		G := 2 + r.Intn(7)
		others := r.Intn(4)
		maxpend := []int{0, 1, 8}[r.Intn(3)]
		gated := r.Intn(3) > 0
		line := fmt.Sprintf("lifejudge C08 shared seed=%d G=%d others=%d maxpend=%d gated=%v", i, G, others, maxpend, gated)
		c.begin(line)
		s := newLifeSess(8192, maxpend, false)
		if r.Intn(3) == 0 {
			s.perturb = perturber(int64(i), uint64(4+r.Intn(10)))
		}
		if !s.setup(G + others) {
			c.oracleFail("C08/setup", "session set-up failed", line)
			s.end()
			continue
		}
		base := s.nreqs()
		f0 := s.nframes()
		// arrival order: the group members in order, other tags sprinkled between them
		type slot struct {
			group bool
			idx   int
		}
		var order []slot
		for j := 0; j < G; j++ {
			order = append(order, slot{true, j})
		}
		for j := 0; j < others; j++ {
			p := r.Intn(len(order) + 1)
			order = append(order[:p], append([]slot{{false, j}}, order[p:]...)...)
		}
		var frames [][]byte
		var groupRids, otherRids []int
		// sometimes one member of the group (not the first) is a Tflush of a tag nobody uses: it waits its
		// turn like any other request under the shared tag
		flushMember := -1
		if G >= 2 && r.Intn(3) == 0 {
			flushMember = 1 + r.Intn(G-1)
			c.count("group-with-tflush")
		}
		flushRid := -1
		for pos, sl := range order {
			rid := base + pos
			if sl.group && sl.idx == flushMember {
				groupRids = append(groupRids, rid)
				flushRid = rid
				frames = append(frames, s.send(30, func(fc *g.Fcall) error { return g.PackTflush(fc, 9999) }))
				continue
			}
			if sl.group {
				groupRids = append(groupRids, rid)
				fid := uint32(sl.idx + 1)
				if gated {
					s.mu.Lock()
					s.plans[rid] = plan{gate: true, async: r.Intn(4) == 0}
					s.mu.Unlock()
				}
				frames = append(frames, s.send(30, func(fc *g.Fcall) error { return g.PackTstat(fc, fid) }))
			} else {
				otherRids = append(otherRids, rid)
				fid := uint32(G + sl.idx + 1)
				if r.Intn(2) == 0 {
					s.mu.Lock()
					s.plans[rid] = plan{gate: true}
					s.mu.Unlock()
				}
				frames = append(frames, s.send(uint16(40+sl.idx), func(fc *g.Fcall) error { return g.PackTstat(fc, fid) }))
			}
		}
		if r.Intn(2) == 0 {
			s.write(frames...)
		} else {
			for _, f := range frames {
				s.write(f)
				if r.Intn(3) == 0 {
					time.Sleep(time.Duration(r.Intn(500)) * time.Microsecond)
				}
			}
		}
		s.waitReqs(base+len(order), 5*time.Second)
		// release: the group strictly one after the other (only the oldest can be inside), the others at random moments
		pendingOthers := append([]int(nil), otherRids...)
		for gi, rid := range groupRids {
			if rid == flushRid {
				continue // answered by the framework when its turn comes
			}
			if gated {
				if !s.waitEntered([]int{rid}, f0, 5*time.Second) {
					c.oracleFail("C08/fifo/member-never-started", fmt.Sprintf("member %d of the tag group was never handed to the implementation", rid-base), line)
					break
				}
				// nobody younger of the group may be inside now
				s.mu.Lock()
				for _, y := range groupRids {
					if y > rid && atomic.LoadInt64(&s.reqs[y].entered) != 0 {
						s.mu.Unlock()
						c.oracleFail("C08/fifo/two-at-a-time", fmt.Sprintf("request %d of the tag group is inside the implementation while its predecessor %d has not been answered", y-base, rid-base), line)
						s.mu.Lock()
					}
				}
				s.mu.Unlock()
			}
			if len(pendingOthers) > 0 && r.Intn(2) == 0 {
				s.release(pendingOthers[0])
				pendingOthers = pendingOthers[1:]
			}
			s.release(rid)
			// one at a time: with the successor parked inside the implementation, the work for
			// this member (its handler, or its late answer) is over — it does not wait for the successor
			if gated && gi+1 < len(groupRids) && groupRids[gi+1] != flushRid {
				nx := groupRids[gi+1]
				if s.waitEntered([]int{nx}, f0, 5*time.Second) {
					dl := time.Now().Add(2 * time.Second)
					s.mu.Lock()
					q := s.reqs[rid]
					s.mu.Unlock()
					for atomic.LoadInt64(&q.exited) == 0 && time.Now().Before(dl) {
						time.Sleep(200 * time.Microsecond)
					}
					if atomic.LoadInt64(&q.exited) == 0 {
						c.oracleFail("C08/fifo/predecessor-held-by-successor", fmt.Sprintf("member %d of the tag group has been answered but its handler does not return while member %d is parked in the implementation", rid-base, nx-base), line)
					}
				}
			}
		}
		for _, o := range pendingOthers {
			s.release(o)
		}
		s.waitFrames(f0+len(order), 8*time.Second)
		s.quiet(2 * time.Millisecond)
		replyOracle(c, s, "C08", line, base, base+len(order), f0, nil)
		// executed in arrival order …
		var ent []int64
		s.mu.Lock()
		for _, rid := range groupRids {
			ent = append(ent, atomic.LoadInt64(&s.reqs[rid].entered))
		}
		// … and answered in that order: the Rstat of member k carries name n<rid>
		var names []string
		for x := f0; x < len(s.fr); x++ {
			if s.fr[x].tag == 30 {
				names = append(names, replyText(s.fr[x].raw))
			}
		}
		s.mu.Unlock()
		for j := 1; j < len(ent); j++ {
			if ent[j] != 0 && ent[j-1] != 0 && ent[j] < ent[j-1] {
				c.oracleFail("C08/fifo/executed-out-of-order", fmt.Sprintf("member %d of the tag group ran before member %d", j, j-1), line)
			}
		}
		var want []string
		for _, rid := range groupRids {
			if rid == flushRid {
				want = append(want, "Rflush")
				continue
			}
			want = append(want, fmt.Sprintf("Rstat:n%d", rid))
		}
		if strings.Join(names, ",") != strings.Join(want, ",") {
			c.oracleFail("C08/fifo/successor-answered-first", fmt.Sprintf("replies under the shared tag arrived as %v, want %v", names, want), line)
		}
		c.count(fmt.Sprintf("G:%d", G))
		time.Sleep(time.Millisecond)
		s.emitLog(c)
		s.end()
		c.emit(line, "*", true)
	}
	genC08flushIntoGroup(c)
}

// part 3: a Tflush aimed at a shared tag while a member of the group is queued behind the running one.
// The queued member is cancelled; the members that arrive afterwards must still wait for the running one.
func genC08flushIntoGroup(c *Ctx) {
	for k := 0; k < c.scale(12, 300) && !c.stop(); k++ {
		i := 900000 + k
		r := c.rng(i)
		maxpend := []int{0, 1, 8}[r.Intn(3)]
		line := fmt.Sprintf("lifejudge C08 flush-into-group seed=%d maxpend=%d", i, maxpend)
		c.begin(line)
		s := newLifeSess(8192, maxpend, false)
		if !s.setup(3) {
			c.oracleFail("C08/setup", "session set-up failed", line)
			s.end()
			continue
		}
		base := s.nreqs()
		f0 := s.nframes()
		s.mu.Lock()
		s.plans[base] = plan{gate: true}   // T1, the running member
		s.plans[base+3] = plan{gate: true} // T3, arriving after the flush
		s.mu.Unlock()
		s.write(s.send(30, func(fc *g.Fcall) error { return g.PackTstat(fc, 1) }))
		s.waitEntered([]int{base}, f0, 5*time.Second)
		s.write(s.send(30, func(fc *g.Fcall) error { return g.PackTstat(fc, 2) })) // T2: queued behind T1
		s.waitReqs(base+2, 2*time.Second)
		time.Sleep(time.Duration(r.Intn(1000)) * time.Microsecond)
		if f := s.rpc(31, func(fc *g.Fcall) error { return g.PackTflush(fc, 30) }); f == nil || f.typ != g.Rflush {
			c.oracleFail("C08/flush-into-group/no-rflush", "the Tflush aimed at the shared tag was not answered", line)
		}
		s.write(s.send(30, func(fc *g.Fcall) error { return g.PackTstat(fc, 3) })) // T3
		s.waitReqs(base+4, 2*time.Second)
		// T1 is still inside the implementation: T3 must not be
		early := false
		dl := time.Now().Add(time.Duration(20+r.Intn(30)) * time.Millisecond)
		for time.Now().Before(dl) && !early {
			s.mu.Lock()
			if base+3 < len(s.reqs) && atomic.LoadInt64(&s.reqs[base+3].entered) != 0 {
				early = true
			}
			s.mu.Unlock()
			time.Sleep(200 * time.Microsecond)
		}
		if early {
			c.oracleFail("C08/fifo/two-at-a-time-after-flush", "a request under the shared tag reached the implementation while an older one of the group is still executing (a queued member in between had been cancelled by a Tflush)", line)
		}
		s.release(base)
		s.release(base + 3)
		s.waitFrames(f0+3, 3*time.Second)
		s.quiet(2 * time.Millisecond)
		c.count("flush-into-group")
		s.emitLog(c)
		s.end()
		c.emit(line, "*", true)
	}
}

// ---------------------------------------------------------------- C11

func waitCensus(want map[string]int, d time.Duration) (map[string]int, bool) {
	dl := time.Now().Add(d)
	for {
		m := libGoroutines()
		ok := true
		for _, k := range []string{"go9p.(*Conn).recv", "go9p.(*Conn).send", "go9p.(*SrvReq).process", "go9p.(*SrvReq).Respond"} {
			if m[k] != want[k] {
				ok = false
			}
		}
		if ok || time.Now().After(dl) {
			return m, ok
		}
		time.Sleep(2 * time.Millisecond)
	}
}

func genC11(c *Ctx) {
	i := 0
	for k := 0; k < c.scale(160, 4000) && !c.stop(); k++ {
		i++
		r := c.rng(i)
		nf := 1 + r.Intn(6)
		inflight := r.Intn(5)
		maxpend := []int{0, 1, 8}[r.Intn(3)]
		midframe := r.Intn(4) == 0
		stalled := r.Intn(3) == 0
		line := fmt.Sprintf("lifejudge C11 seed=%d fids=%d inflight=%d maxpend=%d midframe=%v stalled=%v", i, nf, inflight, maxpend, midframe, stalled)
		c.begin(line)
		// nothing of an earlier scenario may still be running
		if m, ok := waitCensus(map[string]int{}, 5*time.Second); !ok {
			c.oracleFail("C11/goroutines/earlier-scenario", "goroutines of an earlier scenario never ended: "+showCensus(m), line)
		}
		s := newLifeSess(8192, maxpend, false)
		by := connectLife(s.srv, s.ops, maxpend)
		if r.Intn(3) == 0 {
			s.perturb = perturber(int64(i), uint64(4+r.Intn(10)))
		}
		if !s.setup(nf+inflight) || !by.setup(2) {
			c.oracleFail("C11/setup", "session set-up failed", line)
			s.end()
			by.end()
			continue
		}
		// fids in every state: attached (0), walked, open, created; some clunked again
		valid := map[uint32]bool{0: true}
		for j := 1; j <= nf+inflight; j++ {
			valid[uint32(j)] = true
		}
		for j := 1; j <= nf; j++ {
			fid := uint32(j)
			switch r.Intn(5) {
			case 0:
				s.rpc(1, func(fc *g.Fcall) error { return g.PackTopen(fc, fid, g.OREAD) })
			case 1:
				s.rpc(1, func(fc *g.Fcall) error { return g.PackTcreate(fc, fid, "f", 0644, g.ORDWR, "", false) })
			case 2:
				if f := s.rpc(1, func(fc *g.Fcall) error { return g.PackTclunk(fc, fid) }); f != nil && f.typ == g.Rclunk {
					delete(valid, fid)
				}
			case 3:
				if f := s.rpc(1, func(fc *g.Fcall) error { return g.PackTremove(fc, fid) }); f != nil && f.typ == g.Rremove {
					delete(valid, fid)
				}
			}
		}
		// requests parked in the implementation at the moment of the disconnect
		base := s.nreqs()
		f0 := s.nframes()
		kinds := []string{}
		var rids []int
		for j := 0; j < inflight; j++ {
			fid := uint32(nf + 1 + j)
			rid := base + j
			rids = append(rids, rid)
			s.mu.Lock()
			s.plans[rid] = plan{gate: true, async: r.Intn(4) == 0}
			s.mu.Unlock()
			kind := []string{"stat", "walk", "clunk", "open"}[r.Intn(4)]
			kinds = append(kinds, kind)
			tag := uint16(50 + j)
			switch kind {
			case "stat":
				s.write(s.send(tag, func(fc *g.Fcall) error { return g.PackTstat(fc, fid) }))
			case "walk":
				s.write(s.send(tag, func(fc *g.Fcall) error { return g.PackTwalk(fc, fid, 500+fid, nil) }))
			case "clunk":
				s.write(s.send(tag, func(fc *g.Fcall) error { return g.PackTclunk(fc, fid) }))
			case "open":
				s.write(s.send(tag, func(fc *g.Fcall) error { return g.PackTopen(fc, fid, g.OREAD) }))
			}
		}
		s.waitEntered(rids, f0, 5*time.Second)
		sort.Strings(kinds)
		inf := strings.Join(kinds, "+")
		if inf == "" {
			inf = "none"
		}
		// a client that has stopped reading: replies pile up behind the writer
		if stalled {
			atomic.StoreInt32(&s.paused, 1)
			time.Sleep(time.Millisecond)
			m := 2 + r.Intn(11)
			var fr [][]byte
			for j := 0; j < m; j++ {
				fr = append(fr, s.send(uint16(100+j), func(fc *g.Fcall) error { return g.PackTstat(fc, 0) }))
			}
			s.write(fr...)
			// wait until the implementation has answered them all (their replies are stuck in Respond or in the queue)
			dl := time.Now().Add(2 * time.Second)
			for time.Now().Before(dl) {
				done := 0
				s.mu.Lock()
				for _, q := range s.reqs {
					if q.tag >= 100 && q.tag < 200 && atomic.LoadInt64(&q.entered) != 0 {
						done++
					}
				}
				s.mu.Unlock()
				if done == m {
					break
				}
				time.Sleep(200 * time.Microsecond)
			}
			time.Sleep(time.Duration(r.Intn(3)) * time.Millisecond)
			c.count("stalled-reader")
		}
		// the disconnect
		if midframe {
			fr := s.send(60, func(fc *g.Fcall) error { return g.PackTstat(fc, 0) })
			s.c.SetWriteDeadline(time.Now().Add(time.Second))
			s.c.Write(fr[:1+r.Intn(len(fr)-1)])
		}
		s.c.Close()
		dl := time.Now().Add(5 * time.Second)
		for atomic.LoadInt32(&s.closed) == 0 && time.Now().Before(dl) {
			time.Sleep(200 * time.Microsecond)
		}
		if n := atomic.LoadInt32(&s.closed); n != 1 {
			c.oracleFail("C11/connclosed-count", fmt.Sprintf("ConnClosed reported %d times after the disconnect", n), line)
		}
		// the executing requests return, in any order
		for _, j := range r.Perm(len(rids)) {
			s.release(rids[j])
			if r.Intn(2) == 0 {
				time.Sleep(time.Duration(r.Intn(500)) * time.Microsecond)
			}
		}
		// the late answers of asynchronous requests have been given (a fid a request was using is
		// destroyed when that request lets go of it)
		s.waitExited(5 * time.Second)
		// every goroutine of the victim ends; the bystander keeps its two
		want := map[string]int{"go9p.(*Conn).recv": 1, "go9p.(*Conn).send": 1}
		if m, ok := waitCensus(want, 5*time.Second); !ok {
			if stalled {
				inf += "+stalled-reader"
			}
			c.oracleFail("C11/goroutines/in-flight="+inf, "goroutines left after the disconnect and the return of the executing requests: "+showCensus(m)+" (want only the bystander's recv and send)", line)
		}
		time.Sleep(2 * time.Millisecond)
		if n := atomic.LoadInt32(&s.closed); n != 1 {
			c.oracleFail("C11/connclosed-count", fmt.Sprintf("ConnClosed reported %d times", n), line)
		}
		// every fid that was valid is reported destroyed, once
		s.mu.Lock()
		cnt := map[uint32]int{}
		for _, f := range s.destroyed {
			cnt[f]++
		}
		s.mu.Unlock()
		// destroyed during the session (clunk/remove): discount those
		var problems []string
		for f := range valid {
			if cnt[f] != 1 {
				problems = append(problems, fmt.Sprintf("fid %d destroyed %d times", f, cnt[f]))
			}
		}
		for f, n := range cnt {
			if !valid[f] && n != 1 {
				problems = append(problems, fmt.Sprintf("fid %d (clunked earlier) destroyed %d times", f, n))
			}
		}
		sort.Strings(problems)
		if len(problems) > 0 {
			c.oracleFail("C11/destroy/in-flight="+inf, strings.Join(problems, "; "), line)
		}
		// the bystander is not disturbed
		if f := by.rpc(7, func(fc *g.Fcall) error { return g.PackTstat(fc, 1) }); f == nil || f.typ != g.Rstat {
			c.oracleFail("C11/bystander", "the other connection stopped being served", line)
		}
		by.mu.Lock()
		nd := len(by.destroyed)
		by.mu.Unlock()
		if nd != 0 || atomic.LoadInt32(&by.closed) != 0 {
			c.oracleFail("C11/bystander", "the other connection lost fids or was reported closed", line)
		}
		c.count("inflight:" + fmt.Sprint(inflight))
		s.emitLogEnded(c)
		by.end()
		s.end()
		c.emit(line, "*", true)
	}
	genC11fid(c)
}
