package main

// C01 / C02: the codec.  exec runs one line on the real code; the generators draw
// structured, mostly-valid inputs plus a malformed stream.

import (
	"fmt"
	"math/rand"
	"runtime"
	"strings"

	g "github.com/rminnich/go9p"
)

func init() {
	props["C01"] = propRunner{gen: genC01, exec: execWire}
	props["C02"] = propRunner{gen: genC02, exec: execWire}
}

func b2s(b bool) string {
	if b {
		return "1"
	}
	return "0"
}

func showUnpack(fc *g.Fcall, n int, err error) string {
	if err != nil {
		return "err " + errClass(err)
	}
	return fmt.Sprintf("ok %d %d %s", fc.Tag, n, showFcall(fc))
}

// execWire executes one codec line. The bool says whether the case reached a non-error
// branch (counted as non-trivial).
func execWire(line string) (string, bool) {
	t := strings.Fields(line)
	obs := guard(func() string {
		switch t[0] {
		case "pack":
			dotu := t[1] == "1"
			fc := &g.Fcall{Buf: filled(int(atou(t[2], 32)))}
			if err := packMsg(fc, dotu, t[3:]); err != nil {
				return "err " + errClass(err)
			}
			return "ok " + hexOr(fc.Pkt)
		case "unpack":
			buf := mustHex(t[2])
			fc, n, err := g.Unpack(buf, t[1] == "1")
			if err == nil && witnessCtx != nil {
				// the statement's shape clauses, evaluated on the implementation alone
				definedType := fc.Type >= g.Tversion && fc.Type < g.Tlast && fc.Type != g.Terror
				switch {
				case !definedType:
					witnessCtx.oracleFail("C02/undefined-type-accepted", fmt.Sprintf("Unpack succeeded on type %d", fc.Type), line)
				case n < 7 || n > len(buf):
					witnessCtx.oracleFail("C02/consumed-out-of-range", fmt.Sprintf("consumed %d of %d bytes", n, len(buf)), line)
				case len(buf) >= 4 && uint32(n) != uint32(buf[0])|uint32(buf[1])<<8|uint32(buf[2])<<16|uint32(buf[3])<<24:
					witnessCtx.oracleFail("C02/consumed-not-size-prefix", fmt.Sprintf("consumed %d, size prefix says otherwise", n), line)
				}
				if definedType {
					// re-encoding the decoded fields with the real constructors gives a packet that decodes to the same fields
					dotu := t[1] == "1"
					txt := showFcall(fc)
					witnessCtx.count("reencoded")
					fc2 := g.NewFcall(uint32(n) + 64)
					if err := packMsg(fc2, dotu, strings.Fields(txt)); err != nil {
						witnessCtx.oracleFail("C02/reencode-fails", "constructor refused the decoded fields: "+err.Error(), line)
					} else {
						g.SetTag(fc2, fc.Tag)
						fc3, n3, err := g.Unpack(fc2.Pkt, dotu)
						switch {
						case err != nil:
							witnessCtx.oracleFail("C02/reencode-undecodable", "re-encoded packet: "+err.Error(), line)
						case n3 != len(fc2.Pkt) || fc3.Tag != fc.Tag || showFcall(fc3) != txt:
							witnessCtx.oracleFail("C02/reencode-differs", fmt.Sprintf("decoded %q, re-encoded and decoded %q", txt, showFcall(fc3)), line)
						}
					}
				}
			}
			return showUnpack(fc, n, err)
		case "unpackenc":
			dotu := t[1] == "1"
			tag := uint16(atou(t[2], 16))
			junk := mustHex(t[3])
			fc := g.NewFcall(1 << 22)
			if err := packMsg(fc, dotu, t[4:]); err != nil {
				return "err " + errClass(err)
			}
			g.SetTag(fc, tag)
			buf := append(append([]byte{}, fc.Pkt...), junk...)
			fc2, n, err := g.Unpack(buf, dotu)
			return showUnpack(fc2, n, err)
		case "packdir":
			d, _ := parseStat(t[2:])
			return hexOr(g.PackDir(d, t[1] == "1"))
		case "unpackdir":
			buf := mustHex(t[2])
			d, b, amt, err := g.UnpackDir(buf, t[1] == "1")
			if err != nil {
				return "err " + errClass(err)
			}
			return fmt.Sprintf("ok %d %d %s", amt, len(b), showStat(d))
		case "dirrt":
			dotu := t[1] == "1"
			junk := mustHex(t[2])
			d, _ := parseStat(t[3:])
			buf := append(g.PackDir(d, dotu), junk...)
			d2, b, amt, err := g.UnpackDir(buf, dotu)
			if err != nil {
				return "err " + errClass(err)
			}
			return fmt.Sprintf("ok %d %d %s", amt, len(b), showStat(d2))
		case "settag":
			pkt := mustHex(t[2])
			fc := &g.Fcall{Pkt: pkt, Buf: pkt}
			g.SetTag(fc, uint16(atou(t[1], 16)))
			return "ok " + hexOr(fc.Pkt)
		case "rread":
			fc := &g.Fcall{Buf: filled(int(atou(t[1], 32)))}
			c := uint32(atou(t[2], 32))
			n := uint32(atou(t[3], 32))
			if err := g.InitRread(fc, c); err != nil {
				return "err " + errClass(err)
			}
			first := "ok " + hexOr(fc.Pkt)
			copy(fc.Data, mustHex(t[4]))
			if len(t) > 5 {
				// a tag set between the two steps: only the finished packet is compared
				g.SetTag(fc, uint16(atou(t[5], 16)))
				return guard(func() string {
					g.SetRreadCount(fc, n)
					return "ok " + hexOr(fc.Pkt)
				})
			}
			second := guard(func() string {
				g.SetRreadCount(fc, n)
				return "ok " + hexOr(fc.Pkt)
			})
			return first + " " + second
		case "allocbound":
			// bytes allocated by one Unpack of this input in each dialect (max of both,
			// minimum over three repetitions)
			buf := mustHex(t[1])
			worst := uint64(0)
			for _, dotu := range []bool{false, true} {
				best := ^uint64(0)
				for rep := 0; rep < 3; rep++ {
					var a, b runtime.MemStats
					runtime.ReadMemStats(&a)
					func() {
						defer func() { recover() }()
						g.Unpack(buf, dotu)
					}()
					runtime.ReadMemStats(&b)
					if d := b.TotalAlloc - a.TotalAlloc; d < best {
						best = d
					}
				}
				if best > worst {
					worst = best
				}
			}
			return fmt.Sprint(worst)
		}
		panic("harness: unknown command " + t[0])
	})
	return obs, strings.HasPrefix(obs, "ok")
}

func filled(n int) []byte {
	b := make([]byte, n)
	for i := range b {
		b[i] = 0xAA
	}
	return b
}

// ---------- generators ----------

var intClasses = []string{"0", "1", "max", "max-1", "rand"}

func genInt(r *rand.Rand, bits uint) uint64 {
	max := uint64(1)<<bits - 1
	if bits == 64 {
		max = ^uint64(0)
	}
	switch r.Intn(6) {
	case 0:
		return 0
	case 1:
		return 1
	case 2:
		return max
	case 3:
		return max - 1
	default:
		return r.Uint64() & max
	}
}

var strClasses = []int{0, 1, 2, 255, 256, 65534, 65535}

func genStrLen(r *rand.Rand, big bool) int {
	k := r.Intn(100)
	switch {
	case k < 20:
		return 0
	case k < 40:
		return 1
	case k < 55:
		return 2
	case k < 75:
		return 3 + r.Intn(20)
	case k < 85:
		return 255
	case k < 95:
		return 256
	case big && k < 97:
		return 65534
	case big:
		return 65535
	default:
		return r.Intn(300)
	}
}

func genBytes(r *rand.Rand, n int) []byte {
	b := make([]byte, n)
	switch r.Intn(3) {
	case 0:
		r.Read(b)
	case 1:
		for i := range b {
			b[i] = byte('a' + i%26)
		}
	default:
		for i := range b {
			b[i] = []byte{0, 0xff, '/', '.', 0x80}[r.Intn(5)]
		}
	}
	return b
}

func genStr(r *rand.Rand, big bool) string { return hexOr(genBytes(r, genStrLen(r, big))) }

func genQid(r *rand.Rand) string {
	return fmt.Sprintf("%d:%d:%d", genInt(r, 8), genInt(r, 32), genInt(r, 64))
}

func genStat(r *rand.Rand, big bool) string {
	return fmt.Sprintf("%d %d %s %d %d %d %d %s %s %s %s %s %d %d %d", genInt(r, 16), genInt(r, 32), genQid(r),
		genInt(r, 32), genInt(r, 32), genInt(r, 32), genInt(r, 64), genStr(r, big), genStr(r, false), genStr(r, false),
		genStr(r, false), genStr(r, false), genInt(r, 32), genInt(r, 32), genInt(r, 32))
}

var msgTypes = []string{"Tversion", "Rversion", "Tauth", "Rauth", "Tattach", "Rattach", "Rerror", "Tflush", "Rflush",
	"Twalk", "Rwalk", "Topen", "Ropen", "Tcreate", "Rcreate", "Tread", "Rread", "Twrite", "Rwrite", "Tclunk", "Rclunk",
	"Tremove", "Rremove", "Tstat", "Rstat", "Twstat", "Rwstat"}

// genMsg draws a message of the given type in text form.
func genMsg(r *rand.Rand, typ string, big bool) string {
	u32 := func() uint64 { return genInt(r, 32) }
	switch typ {
	case "Tversion", "Rversion":
		return fmt.Sprintf("%s %d %s", typ, u32(), genStr(r, big))
	case "Tauth":
		return fmt.Sprintf("Tauth %d %s %s %d", u32(), genStr(r, big), genStr(r, false), u32())
	case "Rauth", "Rattach":
		return typ + " " + genQid(r)
	case "Tattach":
		return fmt.Sprintf("Tattach %d %d %s %s %d", u32(), u32(), genStr(r, big), genStr(r, false), u32())
	case "Rerror":
		return fmt.Sprintf("Rerror %s %d", genStr(r, big), u32())
	case "Tflush":
		return fmt.Sprintf("Tflush %d", genInt(r, 16))
	case "Twalk":
		n := r.Intn(18)
		if big && r.Intn(40) == 0 {
			n = 65535
		}
		ns := make([]string, n)
		for i := range ns {
			if n > 100 {
				ns[i] = hexOr(genBytes(r, r.Intn(2)))
			} else {
				ns[i] = genStr(r, big && r.Intn(10) == 0)
			}
		}
		return fmt.Sprintf("Twalk %d %d %s", u32(), u32(), showList(ns))
	case "Rwalk":
		n := r.Intn(18)
		if big && r.Intn(40) == 0 {
			n = 65535
		}
		qs := make([]string, n)
		for i := range qs {
			qs[i] = genQid(r)
		}
		return "Rwalk " + showList(qs)
	case "Topen":
		return fmt.Sprintf("Topen %d %d", u32(), genInt(r, 8))
	case "Ropen", "Rcreate":
		return fmt.Sprintf("%s %s %d", typ, genQid(r), u32())
	case "Tcreate":
		return fmt.Sprintf("Tcreate %d %s %d %d %s", u32(), genStr(r, big), u32(), genInt(r, 8), genStr(r, false))
	case "Tread":
		return fmt.Sprintf("Tread %d %d %d", u32(), genInt(r, 64), u32())
	case "Rread":
		return "Rread " + hexOr(genBytes(r, genPayloadLen(r, big)))
	case "Twrite":
		d := genBytes(r, genPayloadLen(r, big))
		return fmt.Sprintf("Twrite %d %d %d %s", u32(), genInt(r, 64), len(d), hexOr(d))
	case "Rwrite":
		return fmt.Sprintf("Rwrite %d", u32())
	case "Tclunk", "Tremove", "Tstat":
		return fmt.Sprintf("%s %d", typ, u32())
	case "Rstat":
		return "Rstat " + genStat(r, false)
	case "Twstat":
		return fmt.Sprintf("Twstat %d %s", u32(), genStat(r, false))
	}
	return typ // Rflush Rclunk Rremove Rwstat
}

func genPayloadLen(r *rand.Rand, big bool) int {
	switch k := r.Intn(10); {
	case k < 2:
		return 0
	case k < 4:
		return 1
	case k < 8:
		return r.Intn(64)
	case big && k == 8:
		return 4096 + r.Intn(8192)
	default:
		return r.Intn(1024)
	}
}

// encLen is the size the real constructor produces for the message (measured, not computed).
func encLen(dotu bool, msg string) int {
	fc := g.NewFcall(1 << 22)
	if err := packMsg(fc, dotu, strings.Fields(msg)); err != nil {
		return -1
	}
	return len(fc.Pkt)
}

func (c *Ctx) run(line string) {
	c.begin(line)
	obs, nt := execWire(line)
	c.emit(line, obs, nt)
}

func genC01(c *Ctx) {
	rounds := c.scale(45, 900) // per type and dialect
	i := 0
	for _, typ := range msgTypes {
		for _, dotu := range []bool{false, true} {
			for k := 0; k < rounds && !c.stop(); k++ {
				i++
				r := c.rng(i)
				msg := genMsg(r, typ, true)
				n := encLen(dotu, msg)
				c.count("type:" + typ)
				c.count("dotu:" + b2s(dotu))
				if n < 0 {
					c.count("unencodable")
					continue
				}
				switch {
				case n < 64:
					c.count("size:<64")
				case n < 4096:
					c.count("size:<4096")
				default:
					c.count("size:big")
				}
				// constructor with buffers of exactly size-1 / size / size+1 / roomy
				for _, bl := range []int{n - 1, n, n + 1, n + 50} {
					c.count(fmt.Sprintf("buffit:%+d", bl-n))
					c.run(fmt.Sprintf("pack %s %d %s", b2s(dotu), bl, msg))
				}
				// constructor + SetTag + junk + Unpack in the same dialect
				junk := genBytes(r, []int{0, 0, 1, 7, 30}[r.Intn(5)])
				c.run(fmt.Sprintf("unpackenc %s %d %s %s", b2s(dotu), genInt(r, 16), hexOr(junk), msg))
				// SetTag on the packet the constructor built
				fc := g.NewFcall(uint32(n))
				packMsg(fc, dotu, strings.Fields(msg))
				if n < 20000 {
					c.run(fmt.Sprintf("settag %d %s", genInt(r, 16), hexOr(fc.Pkt)))
				}
			}
		}
	}
	// stat records on their own
	for k := 0; k < c.scale(400, 8000) && !c.stop(); k++ {
		i++
		r := c.rng(i)
		dotu := r.Intn(2) == 0
		st := genStat(r, r.Intn(20) == 0)
		c.count("stat")
		c.run(fmt.Sprintf("packdir %s %s", b2s(dotu), st))
		c.run(fmt.Sprintf("dirrt %s %s %s", b2s(dotu), hexOr(genBytes(r, r.Intn(9))), st))
	}
	// the two-step Rread
	for k := 0; k < c.scale(400, 8000) && !c.stop(); k++ {
		i++
		r := c.rng(i)
		cnt := []int{0, 1, 2, 100, r.Intn(5000)}[r.Intn(5)]
		n := cnt
		if cnt > 0 && r.Intn(3) > 0 {
			n = r.Intn(cnt + 1)
		}
		bl := 11 + cnt + []int{-1, 0, 1, 13}[r.Intn(4)]
		if bl < 0 {
			bl = 0
		}
		c.count("rread")
		c.run(fmt.Sprintf("rread %d %d %d %s", bl, cnt, n, hexOr(genBytes(r, cnt))))
		if r.Intn(3) == 0 {
			c.count("rread-tag-between")
			c.run(fmt.Sprintf("rread %d %d %d %s %d", bl, cnt, n, hexOr(genBytes(r, cnt)), []int{0, 1, 0x102, 0xfffe, 0xffff, r.Intn(65536)}[r.Intn(6)]))
		}
	}
}

// ---------- C02: arbitrary bytes ----------

// canonical packets of every type in both dialects
func canonical(r *rand.Rand, dotu bool, typ string) []byte {
	fc := g.NewFcall(1 << 20)
	for {
		msg := genMsg(r, typ, false)
		if err := packMsg(fc, dotu, strings.Fields(msg)); err == nil && len(fc.Pkt) < 400 {
			g.SetTag(fc, uint16(r.Intn(65536)))
			return append([]byte{}, fc.Pkt...)
		}
	}
}

func put32(b []byte, v uint32) {
	b[0], b[1], b[2], b[3] = byte(v), byte(v>>8), byte(v>>16), byte(v>>24)
}

func genC02(c *Ctx) {
	i := 0
	un := func(dotu bool, b []byte, kind string) {
		c.count(kind)
		c.run(fmt.Sprintf("unpack %s %s", b2s(dotu), hexOr(b)))
	}
	reps := c.scale(2, 30)
	for _, typ := range msgTypes {
		for _, dotu := range []bool{false, true} {
			for rep := 0; rep < reps && !c.stop(); rep++ {
				i++
				r := c.rng(i)
				pkt := canonical(r, dotu, typ)
				c.count("type:" + typ)
				un(dotu, pkt, "canonical")
				un(!dotu, pkt, "other-dialect")
				// every truncation, size field left alone and size field adjusted
				for n := 0; n <= len(pkt); n++ {
					un(dotu, pkt[:n], "truncate")
					if n >= 4 {
						q := append([]byte{}, pkt[:n]...)
						put32(q, uint32(n))
						un(dotu, q, "truncate+resize")
					}
				}
				// every declared size from 0 to len+8 and the extremes
				for s := 0; s <= len(pkt)+8; s++ {
					q := append([]byte{}, pkt...)
					put32(q, uint32(s))
					un(dotu, q, "declared-size")
				}
				for _, s := range []uint32{1 << 31, 1<<32 - 1, 1 << 16, 1<<16 - 1} {
					q := append([]byte{}, pkt...)
					put32(q, s)
					un(dotu, q, "declared-size-extreme")
				}
				// substitution at every offset with structural values
				for off := 4; off < len(pkt); off++ {
					for _, v := range []byte{0, 1, 0x7f, 0x80, 0xff} {
						if pkt[off] == v {
							continue
						}
						q := append([]byte{}, pkt...)
						q[off] = v
						un(dotu, q, "substitute")
					}
				}
				// trailing junk inside the declared size
				q := append(append([]byte{}, pkt...), 1, 2, 3)
				put32(q, uint32(len(q)))
				un(dotu, q, "junk-inside")
				c.run("allocbound " + hexOr(pkt))
			}
		}
	}
	// count fields that promise far more than the frame carries
	for _, dotu := range []bool{false, true} {
		for _, cnt := range []uint32{1 << 28, 1<<32 - 1, 65535, 1 << 20} {
			tw := []byte{0, 0, 0, 0, g.Twrite, 1, 0, 1, 0, 0, 0, 0, 0, 0, 0, 0, 0, 0, 0, 0, 0, 0, 0, 9, 9, 9}
			put32(tw, uint32(len(tw)))
			put32(tw[19:], cnt)
			un(dotu, tw, "count-lies")
			c.run("allocbound " + hexOr(tw))
			rr := []byte{0, 0, 0, 0, g.Rread, 1, 0, 0, 0, 0, 0, 5}
			put32(rr, uint32(len(rr)))
			put32(rr[7:], cnt)
			un(dotu, rr, "count-lies")
			c.run("allocbound " + hexOr(rr))
			tw2 := []byte{0, 0, 0, 0, g.Twalk, 1, 0, 1, 0, 0, 0, 2, 0, 0, 0, byte(cnt), byte(cnt >> 8), 0, 0}
			put32(tw2, uint32(len(tw2)))
			un(dotu, tw2, "count-lies")
			c.run("allocbound " + hexOr(tw2))
			rw := []byte{0, 0, 0, 0, g.Rwalk, 1, 0, byte(cnt), byte(cnt >> 8)}
			put32(rw, uint32(len(rw)))
			un(dotu, rw, "count-lies")
			c.run("allocbound " + hexOr(rw))
		}
	}
	// element counts whose byte requirement wraps around in 16 bits (13 bytes per qid, at least 2 per
	// name): the frame carries about as many bytes as the wrapped product asks for
	for _, dotu := range []bool{false, true} {
		for n := 0; n < 65536; n++ {
			need := (13 * n) % 65536
			if n < 17 || need >= 48 {
				continue
			}
			for _, bl := range []int{need, need + 1, 10, 23, 30, 47} {
				rw := append([]byte{0, 0, 0, 0, g.Rwalk, 1, 0, byte(n), byte(n >> 8)}, make([]byte, bl)...)
				put32(rw, uint32(len(rw)))
				un(dotu, rw, "count-wraps")
			}
		}
		for n := 32768; n < 32768+24; n++ {
			need := (2 * n) % 65536
			for _, bl := range []int{need, need + 2, 0, 7, 40} {
				tw := append([]byte{0, 0, 0, 0, g.Twalk, 1, 0, 1, 0, 0, 0, 2, 0, 0, 0, byte(n), byte(n >> 8)}, make([]byte, bl)...)
				put32(tw, uint32(len(tw)))
				un(dotu, tw, "count-wraps")
			}
		}
	}
	// stat records: truncations, string-length edits
	for k := 0; k < c.scale(20, 300) && !c.stop(); k++ {
		i++
		r := c.rng(i)
		dotu := r.Intn(2) == 0
		d, _ := parseStat(strings.Fields(genStat(r, false)))
		b := g.PackDir(d, dotu)
		if len(b) > 300 {
			continue
		}
		for n := 0; n <= len(b); n++ {
			c.count("stat-truncate")
			c.run(fmt.Sprintf("unpackdir %s %s", b2s(dotu), hexOr(b[:n])))
		}
		for off := 0; off < len(b); off++ {
			q := append([]byte{}, b...)
			q[off] = []byte{0, 0xff, 0x80}[r.Intn(3)]
			c.count("stat-substitute")
			c.run(fmt.Sprintf("unpackdir %s %s", b2s(dotu), hexOr(q)))
			c.run(fmt.Sprintf("unpackdir %s %s", b2s(!dotu), hexOr(q)))
		}
	}
	// random bytes and random splices of valid packets
	for k := 0; k < c.scale(3000, 150000) && !c.stop(); k++ {
		i++
		r := c.rng(i)
		dotu := r.Intn(2) == 0
		var b []byte
		switch r.Intn(3) {
		case 0:
			b = genBytes(r, r.Intn(64))
			if len(b) >= 5 && r.Intn(2) == 0 {
				put32(b, uint32(len(b)))
				b[4] = byte(100 + r.Intn(28))
			}
			c.count("random")
		case 1:
			a := canonical(r, dotu, msgTypes[r.Intn(len(msgTypes))])
			d := canonical(r, dotu, msgTypes[r.Intn(len(msgTypes))])
			b = append(append([]byte{}, a[:r.Intn(len(a)+1)]...), d[r.Intn(len(d)):]...)
			if len(b) >= 4 && r.Intn(2) == 0 {
				put32(b, uint32(len(b)))
			}
			c.count("splice")
		default:
			b = canonical(r, dotu, msgTypes[r.Intn(len(msgTypes))])
			for m := 1 + r.Intn(3); m > 0; m-- {
				b[r.Intn(len(b))] ^= byte(1 << uint(r.Intn(8)))
			}
			c.count("bitflip")
		}
		c.run(fmt.Sprintf("unpack %s %s", b2s(dotu), hexOr(b)))
	}
}
