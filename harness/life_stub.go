package main


func genC08(c *Ctx) {}
func genC11(c *Ctx) {}
