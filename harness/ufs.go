package main

// C14–C18: the Unix file server and the client helpers on scratch trees. The oracle is the
// os package (the properties' own: "the bytes of the underlying file", "the corresponding
// POSIX operation"); the Lean logic model is compared on the decisions go9p itself makes
// (directory window, Readn length, walk outcome, open-flag table, path cleaning).

import (
	"bytes"
	"fmt"
	"math/rand"
	"net"
	"os"
	"path/filepath"
	"reflect"
	"sort"
	"strings"
	"syscall"
	"time"

	g "github.com/rminnich/go9p"
)

func init() {
	props["C14"] = propRunner{gen: genC14, exec: execUfs}
	props["C15"] = propRunner{gen: genC15, exec: execUfs}
	props["C16"] = propRunner{gen: genC16, exec: execUfs}
	props["C17"] = propRunner{gen: genC17, exec: execUfs}
	props["C18"] = propRunner{gen: genC18, exec: execUfs}
}

type ufsEnv struct {
	outer, root string
	u           *g.Ufs
	c           *g.Clnt
	a, b        net.Conn
	dotu        bool
	msize       uint32
}

// newUfs exports <outer>/export over an in-memory connection and mounts it.
func newUfs(msize uint32, dotu bool) (*ufsEnv, error) {
	outer, err := os.MkdirTemp("", "verif-ufs-")
	if err != nil {
		return nil, err
	}
	e := &ufsEnv{outer: outer, root: filepath.Join(outer, "export"), dotu: dotu, msize: msize}
	os.Mkdir(e.root, 0o755)
	return e, e.connect()
}

func (e *ufsEnv) connect() error {
	u := new(g.Ufs)
	u.Root = e.root
	u.Dotu = e.dotu
	u.Msize = e.msize
	u.Log = sharedLog
	if !u.Start(u) {
		return fmt.Errorf("ufs start")
	}
	e.u = u
	e.a, e.b = net.Pipe()
	u.NewConn(pconn{e.a})
	c, err := g.Connect(pconn{e.b}, e.msize, e.dotu)
	if err != nil {
		return err
	}
	fid, err := c.Attach(nil, g.OsUsers.Uid2User(os.Getuid()), "")
	if err != nil {
		return err
	}
	c.Root = fid
	e.c = c
	return nil
}

func (e *ufsEnv) close() {
	if e.c != nil {
		e.c.Unmount()
	}
	if e.b != nil {
		e.b.Close()
		e.a.Close()
	}
	os.RemoveAll(e.outer)
}

func execUfs(line string) (string, bool) {
	t := strings.Fields(line)
	switch t[0] {
	case "omode":
		return fmt.Sprint(g.VerifOmode2uflags(uint8(atou(t[1], 8)))), true
	case "clean":
		p := "/"
		if t[1] != "-" {
			p = "/" + t[1]
		}
		return filepath.Clean(p), true
	case "ufsjudge":
		return "*", true
	case "ufswitness":
		if t[1] == "K-5" && witnessCtx != nil {
			witnessK5(witnessCtx, line)
		}
		return "*", true
	}
	// dirwin / readn / uwalk lines are produced together with the run that observed them;
	// replaying them needs the tree, which the scenario line (ufsjudge …) recreates.
	return "*", true
}

func ioOf(msize uint32) int { return int(msize) - 24 }

// ---------------- C14 ----------------

func genC14(c *Ctx) {
	i := 0
	for k := 0; k < c.scale(40, 1200) && !c.stop(); k++ {
		i++
		r := c.rng(i)
		msize := []uint32{128, 152, 256, 1024, 4096 + 24, 8192 + 24, 65536}[r.Intn(7)]
		dotu := r.Intn(2) == 0
		io := ioOf(msize)
		line := fmt.Sprintf("ufsjudge C14 seed=%d msize=%d dotu=%s", i, msize, b2s(dotu))
		c.begin(line)
		e, err := newUfs(msize, dotu)
		if err != nil {
			c.oracleFail("C14/setup", err.Error(), line)
			continue
		}
		nfiles := 1 + r.Intn(4)
		type of struct {
			f    *g.File
			data []byte
			name string
		}
		var files []of
		for n := 0; n < nfiles; n++ {
			flen := []int{0, 1, io - 1, io, io + 1, 2*io - 1, 2*io + 1, r.Intn(3*io + 1)}[r.Intn(8)]
			if flen < 0 {
				flen = 0
			}
			data := make([]byte, flen)
			r.Read(data)
			name := fmt.Sprintf("f%d", n)
			os.WriteFile(filepath.Join(e.root, name), data, 0o644)
			f, err := e.c.FOpen(name, g.ORDWR)
			if err != nil {
				c.oracleFail("C14/open", err.Error(), line)
				continue
			}
			files = append(files, of{f, data, name})
			c.count(fmt.Sprintf("filelen:%s", lenClass(flen, io)))
		}
		// a long run of reads whose results are looked at only at the end: what Clnt.Read handed out stays what
		// it was while ten receive buffers' worth of further replies arrive
		if len(files) > 0 && msize <= 8216 && r.Intn(2) == 0 {
			x := &files[r.Intn(len(files))]
			if len(x.data) > 0 {
				type held struct {
					off int
					b   []byte
				}
				var hs []held
				total, off := 0, 0
				for n := 0; n < 4000 && total < 10*8*int(msize); n++ {
					cnt := 1 + r.Intn(io)
					b, err := e.c.Read(x.f.Fid, uint64(off), uint32(cnt))
					if err != nil {
						c.oracleFail("C14/read", fmt.Sprintf("Read(off %d, cnt %d): %v", off, cnt, err), line)
						break
					}
					hs = append(hs, held{off, b})
					total += len(b) + 11
					off += len(b)
					if len(b) == 0 || off >= len(x.data) {
						off = r.Intn(len(x.data))
					}
				}
				for _, h := range hs {
					if !bytes.Equal(h.b, x.data[h.off:h.off+len(h.b)]) {
						c.oracleFail("C14/read-result-changed", fmt.Sprintf("the %d bytes Read returned for offset %d no longer equal the file's bytes after later reads (%d reads, %d reply bytes)", len(h.b), h.off, len(hs), total), line)
						break
					}
				}
				c.count("op:held-reads")
			}
		}
		for step := 0; step < 12 && len(files) > 0; step++ {
			x := &files[r.Intn(len(files))]
			off := []int{0, 1, len(x.data), len(x.data) - 1, len(x.data) + 5, r.Intn(len(x.data) + 2)}[r.Intn(6)]
			if off < 0 {
				off = 0
			}
			cnt := []int{0, 1, io - 1, io, io + 1, 3 * io, r.Intn(2*io + 1)}[r.Intn(7)]
			if cnt < 0 {
				cnt = 0
			}
			want := []byte{}
			if off < len(x.data) {
				want = x.data[off:]
			}
			switch r.Intn(7) {
			case 0: // Clnt.Read: one message, clamped to iounit
				b, err := e.c.Read(x.f.Fid, uint64(off), uint32(cnt))
				w := want
				if len(w) > cnt {
					w = w[:cnt]
				}
				if len(w) > io {
					w = w[:io]
				}
				if err != nil || !bytes.Equal(b, w) {
					c.oracleFail("C14/read", fmt.Sprintf("Read(off %d, cnt %d) of a %d-byte file, iounit %d: got %d bytes err %v, want %d", off, cnt, len(x.data), io, len(b), err, len(w)), line)
				}
				c.count("op:read")
			case 1: // Readn: exactly the range up to EOF
				buf := make([]byte, cnt)
				n, err := x.f.Readn(buf, uint64(off))
				w := want
				if len(w) > cnt {
					w = w[:cnt]
				}
				if err != nil || n != len(w) || !bytes.Equal(buf[:n], w) {
					c.oracleFail("C14/readn", fmt.Sprintf("Readn(%d bytes at %d) of a %d-byte file, iounit %d: got %d err %v, want %d", cnt, off, len(x.data), io, n, err, len(w)), line)
				}
				c.emit(fmt.Sprintf("readn %d %d %d %d", len(x.data), io, off, cnt), fmt.Sprint(n), true)
				c.count("op:readn")
			case 2: // Written at an arbitrary offset, any length
				d := make([]byte, cnt)
				r.Read(d)
				n, err := x.f.Written(d, uint64(off))
				if err != nil || n != len(d) {
					c.oracleFail("C14/written", fmt.Sprintf("Written(%d bytes at %d): %d %v", len(d), off, n, err), line)
				}
				if len(d) > 0 {
					if off+len(d) > len(x.data) {
						nd := make([]byte, off+len(d))
						copy(nd, x.data)
						x.data = nd
					}
					copy(x.data[off:], d)
				}
				got, _ := os.ReadFile(filepath.Join(e.root, x.name))
				if !bytes.Equal(got, x.data) {
					c.oracleFail("C14/file-content", fmt.Sprintf("after Written(%d bytes at %d) the file has %d bytes, want %d (first difference at %d)", len(d), off, len(got), len(x.data), firstDiff(got, x.data)), line)
					x.data = got
				}
				c.count("op:written")
			case 3: // File.Read advances by what it returns
				f2, err := e.c.FOpen(x.name, g.OREAD)
				if err != nil {
					continue
				}
				pos := 0
				for round := 0; round < 6; round++ {
					buf := make([]byte, 1+r.Intn(2*io))
					n, err := f2.Read(buf)
					if err != nil && n != 0 {
						c.oracleFail("C14/fileread", fmt.Sprintf("Read returned %d and %v", n, err), line)
					}
					if n == 0 {
						break
					}
					if pos+n > len(x.data) || !bytes.Equal(buf[:n], x.data[pos:pos+n]) {
						c.oracleFail("C14/fileread", fmt.Sprintf("File.Read at %d returned %d bytes that are not the file's", pos, n), line)
						break
					}
					pos += n
				}
				f2.Close()
				c.count("op:fileread")
			case 5: // File.Write advances by what was written: two writes in a row, buffers above iounit
				nm := fmt.Sprintf("w%d", step)
				f3, err := e.c.FCreate(nm, 0o644, g.OWRITE)
				if err != nil {
					continue
				}
				var exp []byte
				for round := 0; round < 2; round++ {
					d := make([]byte, []int{1, io - 1, io, io + 1, 3*io + 5}[r.Intn(5)])
					r.Read(d)
					n, err := f3.Write(d)
					if err != nil || n < 1 || n > len(d) || n > io {
						c.oracleFail("C14/filewrite", fmt.Sprintf("File.Write(%d bytes), iounit %d: %d %v", len(d), io, n, err), line)
						break
					}
					exp = append(exp, d[:n]...)
				}
				f3.Close()
				got, _ := os.ReadFile(filepath.Join(e.root, nm))
				if !bytes.Equal(got, exp) {
					c.oracleFail("C14/filewrite-offset", fmt.Sprintf("after two File.Write calls the file has %d bytes, the writes reported %d (first difference at %d)", len(got), len(exp), firstDiff(got, exp)), line)
				}
				c.count("op:filewrite")
			default: // Clnt.Write single message
				d := make([]byte, cnt)
				r.Read(d)
				n, err := e.c.Write(x.f.Fid, d, uint64(off))
				wn := len(d)
				if wn > io {
					wn = io
				}
				if err != nil || n != wn {
					c.oracleFail("C14/write", fmt.Sprintf("Write(%d bytes) returned %d %v, want %d", len(d), n, err, wn), line)
				}
				if n > 0 {
					if off+n > len(x.data) {
						nd := make([]byte, off+n)
						copy(nd, x.data)
						x.data = nd
					}
					copy(x.data[off:], d[:n])
				}
				got, _ := os.ReadFile(filepath.Join(e.root, x.name))
				if !bytes.Equal(got, x.data) {
					c.oracleFail("C14/file-content", fmt.Sprintf("after Write(%d bytes at %d) the file differs at %d", n, off, firstDiff(got, x.data)), line)
					x.data = got
				}
				c.count("op:write")
			}
		}
		e.close()
		c.emit(line, "*", true)
	}
}

func firstDiff(a, b []byte) int {
	for i := 0; i < len(a) && i < len(b); i++ {
		if a[i] != b[i] {
			return i
		}
	}
	if len(a) != len(b) {
		if len(a) < len(b) {
			return len(a)
		}
		return len(b)
	}
	return -1
}

func lenClass(n, io int) string {
	switch {
	case n == 0:
		return "0"
	case n < io:
		return "<iounit"
	case n == io:
		return "=iounit"
	case n <= 2*io:
		return "<=2iounit"
	default:
		return ">2iounit"
	}
}

// ---------------- C15 ----------------

// [0,1,2,5,6] -> "0-2,5-6" (as the driver prints it)
func showRuns(l []int) string {
	if len(l) == 0 {
		return "-"
	}
	var out []string
	a, b := l[0], l[0]
	for _, x := range l[1:] {
		if x == b+1 {
			b = x
			continue
		}
		out = append(out, fmt.Sprintf("%d-%d", a, b))
		a, b = x, x
	}
	out = append(out, fmt.Sprintf("%d-%d", a, b))
	return strings.Join(out, ",")
}

func mkNames(r *rand.Rand, n int) []string {
	names := map[string]bool{}
	for len(names) < n {
		l := []int{1, 2, 8, 30, 100, 200, 255}[r.Intn(7)]
		if n > 200 {
			l = 1 + r.Intn(40)
		}
		b := make([]byte, l)
		for i := range b {
			b[i] = "abcdefghijklmnopqrstuvwxyzABC0123456789 _-+é"[r.Intn(43)]
		}
		s := strings.ReplaceAll(strings.TrimSpace(string(b)), "/", "_")
		if s == "" || s == "." || s == ".." || len(s) > 255 {
			continue
		}
		names[s] = true
	}
	out := make([]string, 0, n)
	for s := range names {
		out = append(out, s)
	}
	sort.Strings(out)
	return out
}

func genC15(c *Ctx) {
	i := 0
	for k := 0; k < c.scale(25, 600) && !c.stop(); k++ {
		i++
		r := c.rng(i)
		msize := []uint32{400 + 24, 512, 1024, 4096, 8192 + 24, 65536}[r.Intn(6)]
		dotu := r.Intn(2) == 0
		n := []int{0, 1, 2, 3, 7, 50}[r.Intn(6)]
		if c.thorough() && r.Intn(15) == 0 {
			n = 1500 + r.Intn(2500)
		}
		line := fmt.Sprintf("ufsjudge C15 seed=%d msize=%d dotu=%s n=%d", i, msize, b2s(dotu), n)
		c.begin(line)
		e, err := newUfs(msize, dotu)
		if err != nil {
			c.oracleFail("C15/setup", err.Error(), line)
			continue
		}
		names := mkNames(r, n)
		dir := filepath.Join(e.root, "d")
		os.Mkdir(dir, 0o755)
		for j, nm := range names {
			if j%5 == 4 {
				os.Mkdir(filepath.Join(dir, nm), 0o755)
			} else {
				os.WriteFile(filepath.Join(dir, nm), []byte(nm), 0o644)
			}
		}
		c.count(fmt.Sprintf("entries:%d", min(n, 1000)))
		f, err := e.c.FOpen("d", g.OREAD)
		if err != nil {
			c.oracleFail("C15/open", err.Error(), line)
			e.close()
			continue
		}
		// a complete listing with the largest count gives the entry ends
		maxcnt := uint32(ioOf(msize))
		var ends []int
		var seen []string
		off := uint64(0)
		bad := false
		for rounds := 0; rounds < 100000; rounds++ {
			b, err := e.c.Read(f.Fid, off, maxcnt)
			if err != nil {
				c.oracleFail("C15/list", fmt.Sprintf("read at %d count %d: %v", off, maxcnt, err), line)
				bad = true
				break
			}
			if len(b) == 0 {
				break
			}
			if len(b) > int(maxcnt) {
				c.oracleFail("C15/count", fmt.Sprintf("%d bytes for count %d", len(b), maxcnt), line)
			}
			pos := 0
			for pos < len(b) {
				d, _, amt, perr := g.UnpackDir(b[pos:], dotu)
				if perr != nil {
					c.oracleFail("C15/whole-records", fmt.Sprintf("reply at offset %d does not end on a record boundary: %v", off, perr), line)
					bad = true
					break
				}
				seen = append(seen, d.Name)
				pos += amt
				ends = append(ends, int(off)+pos)
			}
			if bad {
				break
			}
			off += uint64(len(b))
		}
		if !bad {
			got := append([]string{}, seen...)
			sort.Strings(got)
			if strings.Join(got, "\x00") != strings.Join(names, "\x00") {
				c.oracleFail("C15/each-once", fmt.Sprintf("listing has %d entries (%d distinct), directory has %d", len(seen), distinct(seen), len(names)), line)
			}
			// Readdir(0) returns the same complete set
			f2, err := e.c.FOpen("d", g.OREAD)
			if err == nil {
				ds, err := f2.Readdir(0)
				var rn []string
				for _, d := range ds {
					rn = append(rn, d.Name)
				}
				sort.Strings(rn)
				if err != nil || strings.Join(rn, "\x00") != strings.Join(names, "\x00") {
					c.oracleFail("C15/readdir", fmt.Sprintf("Readdir(0): %d entries err %v, directory has %d", len(rn), err, len(names)), line)
				}
				f2.Close()
			}
			total := 0
			largest := 0
			prev := 0
			for _, x := range ends {
				if x-prev > largest {
					largest = x - prev
				}
				prev = x
				total = x
			}
			es := make([]string, len(ends))
			for j, x := range ends {
				es[j] = fmt.Sprint(x)
			}
			endsTxt := showList(es)
			// the client's Readdir(0) against the model of its loop: from a fresh open, and after
			// one File.Read of a random size moved the offset to an entry boundary
			if len(endsTxt) <= 60000 {
				where := map[string]int{}
				for j, nm := range seen {
					where[nm] = j
				}
				for _, first := range []int{0, 1} {
					f3, err := e.c.FOpen("d", g.OREAD)
					if err != nil {
						continue
					}
					start := 0
					if first == 1 {
						if largest == 0 {
							f3.Close()
							continue
						}
						nb, _ := f3.Read(make([]byte, largest+(i*7919)%(2*largest+1))) // not from r: the probes below keep their counts
						start = nb
					}
					cnt := int(e.c.Msize) - g.IOHDRSZ
					if int(f3.Fid.Iounit) < cnt {
						cnt = int(f3.Fid.Iounit)
					}
					ds, err := f3.Readdir(0)
					obs := "error"
					if err == nil {
						var pos []int
						for _, d := range ds {
							j, ok := where[d.Name]
							if !ok {
								j = 999999
							}
							pos = append(pos, j)
						}
						// where Readdir left the file offset: the field itself, or — should it be renamed — what
						// the next File.Read still returns from there
						off := uint64(0)
						if fv := reflect.ValueOf(f3).Elem().FieldByName("offset"); fv.IsValid() && fv.CanUint() {
							off = fv.Uint()
						} else {
							left := 0
							for {
								nb, rerr := f3.Read(make([]byte, cnt))
								if nb == 0 || rerr != nil {
									break
								}
								left += nb
							}
							off = uint64(total - left)
						}
						obs = fmt.Sprintf("ok %s off=%d", showRuns(pos), off)
					}
					c.count(fmt.Sprintf("readdir0:start=%s", map[bool]string{true: "0", false: "mid"}[start == 0]))
					c.emit(fmt.Sprintf("readdir0 %s %d %d", endsTxt, cnt, start), obs, true)
					f3.Close()
				}
			}
			probe := func(off uint64, cnt uint32, kind string) {
				if len(endsTxt) > 60000 {
					return
				}
				// restart the snapshot, then read at (off, cnt)
				if _, err := e.c.Read(f.Fid, 0, maxcnt); err != nil && total > 0 {
					return
				}
				b, err := e.c.Read(f.Fid, off, cnt)
				obs := fmt.Sprintf("ok %d", len(b))
				if err != nil {
					switch {
					case strings.Contains(err.Error(), "too small read size"):
						obs = "tooSmall"
					case strings.Contains(err.Error(), "bad offset"):
						obs = "badOffset"
					default:
						obs = "err:" + strings.ReplaceAll(err.Error(), " ", "_")
					}
				}
				c.count("probe:" + kind)
				c.emit(fmt.Sprintf("dirwin %s %d %d", endsTxt, off, cnt), obs, err == nil)
				// the statement's own oracle at offsets the rule allows
				isEnd := off == 0
				for _, x := range ends {
					if uint64(x) == off {
						isEnd = true
					}
				}
				if isEnd && err != nil && int(cnt) >= largest && largest > 0 {
					c.oracleFail("C15/error-with-sufficient-count", fmt.Sprintf("read at %d count %d (largest entry %d): %v", off, cnt, largest, err), line)
				}
				if isEnd && err == nil {
					endAt := func(v int) bool {
						for _, x := range ends {
							if x == v {
								return true
							}
						}
						return v == 0
					}
					switch {
					case len(b) == 0 && int(off) < total:
						c.oracleFail("C15/empty-reply-before-end", fmt.Sprintf("read at %d count %d of a %d-byte listing returned nothing and no error", off, cnt, total), line)
					case len(b) > int(cnt):
						c.oracleFail("C15/count", fmt.Sprintf("%d bytes for count %d", len(b), cnt), line)
					case !endAt(int(off) + len(b)):
						c.oracleFail("C15/whole-records", fmt.Sprintf("read at %d count %d returned %d bytes: not a whole number of entries", off, cnt, len(b)), line)
					}
				}
			}
			// every count from the largest entry up to three entries, at every entry boundary (small directories)
			if len(ends) <= 8 && largest > 0 {
				offs := append([]int{0}, ends...)
				for _, o := range offs {
					for cnt := largest; cnt <= 3*largest && cnt <= int(maxcnt); cnt += 1 + largest/40 {
						probe(uint64(o), uint32(cnt), "boundary")
					}
					for _, cnt := range []int{0, 1, largest - 1} {
						if cnt >= 0 && cnt <= int(maxcnt) {
							probe(uint64(o), uint32(cnt), "too-small")
						}
					}
				}
			}
			for m := 0; m < 12; m++ {
				o := 0
				if len(ends) > 0 && r.Intn(4) > 0 {
					o = ends[r.Intn(len(ends))]
				}
				probe(uint64(o), uint32(r.Intn(int(maxcnt)+1)), "random-count")
			}
			// offsets the rule does not allow: inside an entry, past the end, huge
			for _, o := range []uint64{1, uint64(total) + 1, uint64(total) + 100000, 1 << 62, ^uint64(0), uint64(r.Intn(total + 2))} {
				probe(o, maxcnt, "arbitrary-offset")
			}
			// a listing with a random count per read, restarting mid-way
			off = 0
			got2 := 0
			for rounds := 0; rounds < 200000 && largest > 0; rounds++ {
				cnt := uint32(largest + r.Intn(int(maxcnt)-largest+1))
				b, err := e.c.Read(f.Fid, off, cnt)
				if err != nil {
					c.oracleFail("C15/list-random-count", fmt.Sprintf("read at %d count %d (largest entry %d): %v", off, cnt, largest, err), line)
					break
				}
				if len(b) == 0 {
					break
				}
				off += uint64(len(b))
				got2 += len(b)
			}
			if largest > 0 && got2 != total {
				c.oracleFail("C15/list-random-count", fmt.Sprintf("listing with random counts returned %d bytes, directory serializes to %d", got2, total), line)
			}
			// the directory changes (at once: same second, same fid); rereading from offset 0 lists what is there now
			if len(endsTxt) <= 60000 {
				os.WriteFile(filepath.Join(dir, "zz-newcomer"), []byte("x"), 0o644)
				if len(names) > 0 && r.Intn(2) == 0 {
					os.RemoveAll(filepath.Join(dir, names[r.Intn(len(names))]))
				}
				var now []string
				if des, err := os.ReadDir(dir); err == nil {
					for _, de := range des {
						now = append(now, de.Name())
					}
				}
				sort.Strings(now)
				var again []string
				off = 0
				okList := true
				for rounds := 0; rounds < 100000; rounds++ {
					b, err := e.c.Read(f.Fid, off, maxcnt)
					if err != nil {
						c.oracleFail("C15/reread", fmt.Sprintf("rereading after a change, at %d: %v", off, err), line)
						okList = false
						break
					}
					if len(b) == 0 {
						break
					}
					for pos := 0; pos < len(b); {
						d, _, amt, perr := g.UnpackDir(b[pos:], dotu)
						if perr != nil {
							okList = false
							break
						}
						again = append(again, d.Name)
						pos += amt
					}
					off += uint64(len(b))
				}
				sort.Strings(again)
				if okList && strings.Join(again, "\x00") != strings.Join(now, "\x00") {
					c.oracleFail("C15/reread-stale", fmt.Sprintf("after creating/removing entries, rereading from offset 0 on the same fid lists %d entries, the directory has %d", len(again), len(now)), line)
				}
				c.count("reread-after-change")
			}
		}
		e.close()
		c.emit(line, "*", true)
	}
}

func distinct(s []string) int {
	m := map[string]bool{}
	for _, x := range s {
		m[x] = true
	}
	return len(m)
}

// ---------------- C16 ----------------

type tnode struct {
	rel  string
	kind string // file dir symlink
}

func mkTree(r *rand.Rand, root string, depth int) []tnode {
	var nodes []tnode
	var rec func(rel string, d int)
	rec = func(rel string, d int) {
		n := 1 + r.Intn(3)
		var sibDirs, sibFiles []string // what this directory already holds: targets for symbolic links
		for _, nm := range mkNames(r, n) {
			if len(nm) > 60 && d > 3 {
				nm = nm[:20]
			}
			p := filepath.Join(rel, nm)
			switch k := r.Intn(10); {
			case k < 4 && d < depth:
				if os.Mkdir(filepath.Join(root, p), 0o700+os.FileMode(r.Intn(64))) == nil {
					// shared directories: sticky, setgid, setuid bits
					if r.Intn(3) == 0 {
						if fi, err := os.Lstat(filepath.Join(root, p)); err == nil {
							os.Chmod(filepath.Join(root, p), fi.Mode().Perm()|[]os.FileMode{os.ModeSticky, os.ModeSetgid, os.ModeSetuid, os.ModeSticky | os.ModeSetgid}[r.Intn(4)])
						}
					}
					nodes = append(nodes, tnode{p, "dir"})
					sibDirs = append(sibDirs, nm)
					rec(p, d+1)
				}
			case k < 5:
				// dangling, or to a directory or a file next to it
				target := "target-" + nm
				switch x := r.Intn(3); {
				case x == 0 && len(sibDirs) > 0:
					target = sibDirs[r.Intn(len(sibDirs))]
				case x == 1 && len(sibFiles) > 0:
					target = sibFiles[r.Intn(len(sibFiles))]
				}
				if os.Symlink(target, filepath.Join(root, p)) == nil {
					nodes = append(nodes, tnode{p, "symlink"})
				}
			default:
				if os.WriteFile(filepath.Join(root, p), genBytes(r, r.Intn(300)), 0o600+os.FileMode(r.Intn(128))) == nil {
					if r.Intn(6) == 0 {
						if fi, err := os.Lstat(filepath.Join(root, p)); err == nil {
							os.Chmod(filepath.Join(root, p), fi.Mode().Perm()|[]os.FileMode{os.ModeSetuid, os.ModeSetgid, os.ModeSticky}[r.Intn(3)])
						}
					}
					nodes = append(nodes, tnode{p, "file"})
					sibFiles = append(sibFiles, nm)
				}
			}
		}
	}
	rec("", 0)
	return nodes
}

func genC16(c *Ctx) {
	// the whole table of dir2Npmode/dir2QidType: every combination of the mode bits they look at
	for _, perm := range []uint32{0, 0o400, 0o644, 0o755, 0o777} {
		for fl := 0; fl < 128; fl++ {
			for _, dotu := range []bool{false, true} {
				bits := []os.FileMode{os.ModeDir, os.ModeSymlink, os.ModeSocket, os.ModeNamedPipe, os.ModeDevice, os.ModeSetuid, os.ModeSetgid}
				m := os.FileMode(perm)
				txt := ""
				for j, b := range bits {
					if fl&(1<<j) != 0 {
						m |= b
						txt += "1"
					} else {
						txt += "0"
					}
				}
				np, qt := g.VerifDir2Npmode(m, dotu)
				c.emit(fmt.Sprintf("npmode %d %s %s", perm, txt, b2s(dotu)), fmt.Sprintf("%d %d", np, qt), true)
			}
		}
	}
	c.count("npmode-table")
	i := 0
	for k := 0; k < c.scale(30, 700) && !c.stop(); k++ {
		i++
		r := c.rng(i)
		dotu := r.Intn(2) == 0
		line := fmt.Sprintf("ufsjudge C16 seed=%d dotu=%s", i, b2s(dotu))
		c.begin(line)
		e, err := newUfs(8192+24, dotu)
		if err != nil {
			c.oracleFail("C16/setup", err.Error(), line)
			continue
		}
		depth := []int{2, 4, 20, 40}[r.Intn(4)]
		nodes := mkTree(r, e.root, depth)
		// symbolic links at the root to a directory and to a file of the tree
		for _, kind := range []string{"dir", "file"} {
			for _, nd := range nodes {
				if nd.kind == kind {
					if os.Symlink(nd.rel, filepath.Join(e.root, "zl-"+kind)) == nil {
						nodes = append(nodes, tnode{"zl-" + kind, "symlink"})
					}
					break
				}
			}
		}
		// a deep chain so that FWalk needs several Twalks
		chain := ""
		for d := 0; d < depth; d++ {
			chain = filepath.Join(chain, fmt.Sprintf("c%d", d))
			os.Mkdir(filepath.Join(e.root, chain), 0o755)
			nodes = append(nodes, tnode{chain, "dir"})
		}
		hard := filepath.Join(e.root, "hardlink")
		if len(nodes) > 0 {
			for _, nd := range nodes {
				if nd.kind == "file" {
					if os.Link(filepath.Join(e.root, nd.rel), hard) == nil {
						nodes = append(nodes, tnode{"hardlink", "file"})
					}
					break
				}
			}
		}
		c.count(fmt.Sprintf("tree-depth:%d", depth))
		qidOf := map[uint64]string{}
		for _, nd := range nodes {
			st, err := os.Lstat(filepath.Join(e.root, nd.rel))
			if err != nil {
				continue
			}
			d, err := e.c.FStat(nd.rel)
			if err != nil {
				c.oracleFail("C16/resolve", fmt.Sprintf("%q (%s) exists locally, FStat: %v", nd.rel, nd.kind, err), line)
				continue
			}
			c.count("stat:" + nd.kind)
			ino := st.Sys().(*syscall.Stat_t).Ino
			var diffs []string
			// the qid the walk reported for the object is the qid its stat reports
			if wf, werr := e.c.FWalk(nd.rel); werr == nil {
				if wf.Qid.Path != ino || wf.Qid.Type != d.Qid.Type {
					diffs = append(diffs, fmt.Sprintf("Rwalk qid %#x/%d, Rstat qid %#x/%d, inode %d", wf.Qid.Type, wf.Qid.Path, d.Qid.Type, d.Qid.Path, ino))
				}
				e.c.Clunk(wf)
			}
			if (d.Qid.Type&g.QTDIR != 0) != st.IsDir() || (d.Mode&g.DMDIR != 0) != st.IsDir() {
				diffs = append(diffs, "directory bit")
			}
			if (d.Qid.Type&g.QTSYMLINK != 0) != (st.Mode()&os.ModeSymlink != 0) {
				diffs = append(diffs, "symlink bit")
			}
			if d.Qid.Type&^(g.QTDIR|g.QTSYMLINK) != 0 {
				diffs = append(diffs, "extra qid type bits")
			}
			if d.Length != uint64(st.Size()) {
				diffs = append(diffs, fmt.Sprintf("length %d vs %d", d.Length, st.Size()))
			}
			if d.Mode&0o777 != uint32(st.Mode().Perm()) {
				diffs = append(diffs, fmt.Sprintf("perm %o vs %o", d.Mode&0o777, st.Mode().Perm()))
			}
			// the whole mode word: permission bits, DMDIR, and — in 9P2000.u only — the Unix type and set-id bits
			want := uint32(st.Mode().Perm())
			if st.IsDir() {
				want |= g.DMDIR
			}
			if dotu {
				for _, b := range []struct {
					os os.FileMode
					np uint32
				}{{os.ModeSymlink, g.DMSYMLINK}, {os.ModeSocket, g.DMSOCKET}, {os.ModeNamedPipe, g.DMNAMEDPIPE}, {os.ModeDevice, g.DMDEVICE}, {os.ModeSetuid, g.DMSETUID}, {os.ModeSetgid, g.DMSETGID}} {
					if st.Mode()&b.os != 0 {
						want |= b.np
					}
				}
			}
			if d.Mode != want {
				diffs = append(diffs, fmt.Sprintf("mode word %#x, the file and the dialect say %#x", d.Mode, want))
			}
			if d.Mtime != uint32(st.ModTime().Unix()) {
				diffs = append(diffs, "mtime")
			}
			if d.Name != filepath.Base(nd.rel) {
				diffs = append(diffs, fmt.Sprintf("name %q", d.Name))
			}
			if d.Qid.Path != ino {
				diffs = append(diffs, "qid path is not the inode")
			}
			if other, ok := qidOf[d.Qid.Path]; ok && other != fmt.Sprint(ino) {
				diffs = append(diffs, "qid path shared by different files")
			}
			qidOf[d.Qid.Path] = fmt.Sprint(ino)
			if len(diffs) > 0 {
				c.oracleFail("C16/stat", fmt.Sprintf("%q (%s): %s", nd.rel, nd.kind, strings.Join(diffs, ", ")), line)
			}
		}
		// walks of 0..16 elements of which a prefix exists, to a new fid and in place
		for m := 0; m < 14 && len(nodes) > 0; m++ {
			nd := nodes[r.Intn(len(nodes))]
			comps := strings.Split(nd.rel, string(filepath.Separator))
			if len(comps) > 16 {
				comps = comps[:16]
			}
			kExist := len(comps)
			names := append([]string{}, comps...)
			if r.Intn(2) == 0 {
				cut := r.Intn(len(comps) + 1)
				names = append(append([]string{}, comps[:cut]...), "does-not-exist")
				kExist = cut
				if r.Intn(2) == 0 && len(names) < 16 {
					names = append(names, "nor-this")
				}
			}
			// a component that is a file or symlink ends the walk below it; count what really resolves
			p := e.root
			kReal := 0
			for _, nm := range names {
				p = filepath.Join(p, nm)
				if _, err := os.Lstat(p); err != nil {
					break
				}
				kReal++
			}
			_ = kExist
			src, err := e.c.FWalk("")
			if err != nil {
				continue
			}
			inPlace := r.Intn(3) == 0
			nf := src
			if !inPlace {
				nf = e.c.FidAlloc()
			}
			before, _ := e.c.Stat(src)
			qs, werr := e.c.Walk(src, nf, names)
			obs := ""
			switch {
			case werr != nil:
				obs = "enoent"
			case len(qs) == len(names):
				obs = fmt.Sprintf("rwalk %d moved", len(qs))
			default:
				obs = fmt.Sprintf("rwalk %d stays", len(qs))
			}
			c.count(fmt.Sprintf("walk:%s", map[bool]string{true: "in-place", false: "new-fid"}[inPlace]))
			c.emit(fmt.Sprintf("uwalk %d %d", kReal, len(names)), obs, werr == nil)
			if werr == nil {
				for j, q := range qs {
					st, _ := os.Lstat(filepath.Join(append([]string{e.root}, names[:j+1]...)...))
					if st == nil || q.Path != st.Sys().(*syscall.Stat_t).Ino {
						c.oracleFail("C16/walk-qid", fmt.Sprintf("walk %v: qid %d is not element %d", names, q.Path, j), line)
					} else if (q.Type&g.QTDIR != 0) != st.IsDir() || (q.Type&g.QTSYMLINK != 0) != (st.Mode()&os.ModeSymlink != 0) {
						c.oracleFail("C16/walk-qid-type", fmt.Sprintf("walk %v: qid type %#x of element %d, the file is %v", names, q.Type, j, st.Mode()), line)
					}
				}
			}
			// where do the fids point afterwards?
			after, aerr := e.c.Stat(src)
			complete := werr == nil && len(qs) == len(names)
			if inPlace && !complete && before != nil && (aerr != nil || after.Qid.Path != before.Qid.Path) {
				c.oracleFail("C16/partial-walk-moves-fid", fmt.Sprintf("in-place walk %v resolved %d of %d: the fid moved", names, len(qs), len(names)), line)
			}
			if inPlace && !complete {
				// … and is still the directory it was: the walk that resolves walks again from it
				nf2 := e.c.FidAlloc()
				if q2, err := e.c.Walk(src, nf2, comps[:1]); err != nil || len(q2) != 1 {
					c.oracleFail("C16/partial-walk-spoils-fid", fmt.Sprintf("after the in-place walk %v resolved %d of %d, walking %q from the same fid: %v", names, len(qs), len(names), comps[0], err), line)
				} else {
					e.c.Clunk(nf2)
				}
			}
			if complete {
				tgt := nf
				d, err := e.c.Stat(tgt)
				st, _ := os.Lstat(filepath.Join(append([]string{e.root}, names...)...))
				if err != nil || st == nil || d.Qid.Path != st.Sys().(*syscall.Stat_t).Ino {
					c.oracleFail("C16/walk-target", fmt.Sprintf("after a complete walk %v the fid does not designate the target (%v)", names, err), line)
				}
			} else if !inPlace && werr == nil {
				if _, err := e.c.Stat(nf); err == nil {
					c.oracleFail("C16/partial-walk-keeps-newfid", fmt.Sprintf("partial walk %v left newfid valid", names), line)
				}
			}
			e.c.Clunk(src)
			if !inPlace && complete {
				e.c.Clunk(nf)
			}
		}
		e.close()
		c.emit(line, "*", true)
	}
}

// ---------------- C17 ----------------

// snapshot of a tree: path -> kind:perm:size:content-hash/target, mtimes to the second
func snapTree(root string) map[string]string {
	m := map[string]string{}
	filepath.Walk(root, func(p string, info os.FileInfo, err error) error {
		if err != nil || p == root {
			return nil
		}
		rel, _ := filepath.Rel(root, p)
		switch {
		case info.Mode()&os.ModeSymlink != 0:
			t, _ := os.Readlink(p)
			m[rel] = "symlink:" + t
		case info.IsDir():
			m[rel] = fmt.Sprintf("dir:%o", info.Mode().Perm())
		default:
			b, _ := os.ReadFile(p)
			m[rel] = fmt.Sprintf("file:%o:%d:%s:%d", info.Mode().Perm(), info.Size(), short(b), info.Sys().(*syscall.Stat_t).Nlink)
		}
		return nil
	})
	return m
}

func diffSnap(a, b map[string]string) string {
	var d []string
	for k, v := range a {
		if b[k] != v {
			d = append(d, fmt.Sprintf("%s: 9P %q, POSIX %q", k, v, b[k]))
		}
	}
	for k, v := range b {
		if _, ok := a[k]; !ok {
			d = append(d, fmt.Sprintf("%s: 9P <absent>, POSIX %q", k, v))
		}
	}
	sort.Strings(d)
	if len(d) > 4 {
		d = d[:4]
	}
	return strings.Join(d, "; ")
}

func errnoOf(err error) uint32 {
	var en syscall.Errno
	for e := err; e != nil; {
		if x, ok := e.(syscall.Errno); ok {
			en = x
			break
		}
		u, ok := e.(interface{ Unwrap() error })
		if !ok {
			break
		}
		e = u.Unwrap()
	}
	return uint32(en)
}

// ---- the plan of POSIX calls behind a mutating request: the harness's rendering of Ufs.Create and
// Ufs.Wstat, compared line by line with lean/G9/UfsPlan.lean and applied to a third tree that must
// stay identical to the exported one

func bitSet(v uint32, m uint32) bool { return v&m != 0 }

func planFileMode(dotu bool, perm uint32) uint32 {
	m := perm & 0o777
	if dotu && bitSet(perm, g.DMSETUID) {
		m |= syscall.S_ISUID
	}
	if dotu && bitSet(perm, g.DMSETGID) {
		m |= syscall.S_ISGID
	}
	return m
}

func goCreatePlan(dotu bool, perm uint32, omode uint8, extInRoot, extNumber, extFid bool) string {
	switch {
	case bitSet(perm, g.DMDIR):
		return fmt.Sprintf("calls mkdir:%d,open:%d", perm&0o777, omode)
	case bitSet(perm, g.DMSYMLINK):
		if !extInRoot {
			return "refuse eperm"
		}
		return fmt.Sprintf("calls symlink,open:%d", omode)
	case bitSet(perm, g.DMLINK):
		if !extNumber {
			return "refuse strconv"
		}
		if !extFid {
			return "refuse unknownfid"
		}
		return fmt.Sprintf("calls link,open:%d", omode)
	case bitSet(perm, g.DMNAMEDPIPE):
		return fmt.Sprintf("calls open:%d", omode)
	case bitSet(perm, g.DMDEVICE):
		return "refuse notimpl"
	}
	return fmt.Sprintf("calls creat:%d:%d", omode, planFileMode(dotu, perm))
}

func goWstatPlan(dotu bool, d *g.Dir, destInRoot bool) string {
	var ops []string
	if d.Mode != 0xFFFFFFFF {
		ops = append(ops, fmt.Sprintf("chmod:%d", planFileMode(dotu, d.Mode)))
	}
	uid, gid := uint32(g.NOUID), uint32(g.NOUID)
	if dotu {
		uid, gid = d.Uidnum, d.Gidnum
	} else if d.Uid != "" || d.Gid != "" {
		return "refuse lookup" // by-name lookups are not exercised: the harness never names an owner
	}
	if uid != g.NOUID || gid != g.NOUID {
		ops = append(ops, fmt.Sprintf("chown:%d:%d", uid, gid))
	}
	if d.Name != "" {
		if !destInRoot {
			return "refuse eperm"
		}
		ops = append(ops, "rename")
	}
	if d.Length != 0xFFFFFFFFFFFFFFFF {
		ops = append(ops, fmt.Sprintf("truncate:%d", d.Length))
	}
	if d.Mtime != 0xFFFFFFFF || d.Atime != 0xFFFFFFFF {
		mt := "file"
		if d.Mtime != 0xFFFFFFFF {
			mt = fmt.Sprint(d.Mtime)
		}
		ops = append(ops, fmt.Sprintf("chtimes:%d:%s", d.Atime, mt))
	}
	if len(ops) == 0 {
		return "calls ~"
	}
	return "calls " + strings.Join(ops, ",")
}

func wstatPlanLine(dotu bool, d *g.Dir, destInRoot bool) string {
	return fmt.Sprintf("wstatplan %s %d %d %d %s %s %s %s %d %d %d - -", b2s(dotu), d.Mode, d.Uidnum, d.Gidnum,
		b2s(d.Uid != ""), b2s(d.Gid != ""), b2s(d.Name != ""), b2s(destInRoot), d.Length, d.Mtime, d.Atime)
}

// applyPlan makes the calls of a plan on path (ext: symlink target; linkSrc: the file a hard link names;
// dest: rename destination); the first failing call ends it, as it ends the request in Ufs.
func applyPlan(plan, path, ext, linkSrc, dest string) error {
	f := strings.Fields(plan)
	if len(f) < 2 || f[0] != "calls" || f[1] == "~" {
		if f[0] == "refuse" {
			return fmt.Errorf("refused: %s", f[1])
		}
		return nil
	}
	for _, op := range strings.Split(f[1], ",") {
		a := strings.Split(op, ":")
		n := func(i int) uint64 { return atou(a[i], 64) }
		var err error
		switch a[0] {
		case "mkdir":
			err = os.Mkdir(path, os.FileMode(n(1)))
		case "symlink":
			err = os.Symlink(ext, path)
		case "link":
			err = os.Link(linkSrc, path)
		case "creat":
			var fl *os.File
			fl, err = os.OpenFile(path, g.VerifOmode2uflags(uint8(n(1)))|os.O_CREATE, os.FileMode(n(2)))
			if err == nil {
				fl.Close()
			}
		case "open":
			var fl *os.File
			fl, err = os.OpenFile(path, g.VerifOmode2uflags(uint8(n(1))), 0)
			if err == nil {
				fl.Close()
			}
		case "chmod":
			err = os.Chmod(path, os.FileMode(n(1)))
		case "chown":
			err = os.Chown(path, int(uint32(n(1))), int(uint32(n(2))))
		case "rename":
			err = syscall.Rename(path, dest)
			if err == nil {
				path = dest
			}
		case "truncate":
			err = os.Truncate(path, int64(n(1)))
		case "chtimes":
			mt := time.Time{}
			if a[2] == "file" {
				st, serr := os.Stat(path)
				if serr != nil {
					return serr
				}
				mt = st.ModTime()
			} else {
				mt = time.Unix(int64(n(2)), 0)
			}
			err = os.Chtimes(path, time.Unix(int64(n(1)), 0), mt)
		default:
			panic("applyPlan: " + op)
		}
		if err != nil {
			return err
		}
	}
	return nil
}

func exists(p string) bool { _, err := os.Lstat(p); return err == nil }

func noTouchDir() *g.Dir {
	d := &g.Dir{Type: 0xffff, Dev: 0xffffffff, Mode: 0xffffffff, Atime: 0xffffffff, Mtime: 0xffffffff,
		Length: 0xffffffffffffffff, Uidnum: 0xffffffff, Gidnum: 0xffffffff, Muidnum: 0xffffffff}
	d.Qid = g.Qid{Type: 0xff, Version: 0xffffffff, Path: 0xffffffffffffffff}
	return d
}

func genC17(c *Ctx) {
	for m := 0; m < 256; m++ {
		c.emit(fmt.Sprintf("omode %d", m), fmt.Sprint(g.VerifOmode2uflags(uint8(m))), true)
	}
	c.count("omode-table")
	i := 0
	for k := 0; k < c.scale(30, 800) && !c.stop(); k++ {
		i++
		r := c.rng(i)
		dotu := r.Intn(3) > 0
		line := fmt.Sprintf("ufsjudge C17 seed=%d dotu=%s", i, b2s(dotu))
		c.begin(line)
		e, err := newUfs(8192+24, dotu)
		if err != nil {
			c.oracleFail("C17/setup", err.Error(), line)
			continue
		}
		twin := filepath.Join(e.outer, "twin")
		os.Mkdir(twin, 0o755)
		ptree := filepath.Join(e.outer, "plan") // the tree the model's plan of POSIX calls is applied to
		os.Mkdir(ptree, 0o755)
		// identical starting trees
		base := []string{"a", "b", "d1", "d1/x", "d2", "d3", "d4"}
		for _, root := range []string{e.root, twin, ptree} {
			os.WriteFile(filepath.Join(root, "a"), []byte("alpha"), 0o644)
			os.WriteFile(filepath.Join(root, "b"), []byte("bravo-bravo"), 0o600)
			os.Mkdir(filepath.Join(root, "d1"), 0o755)
			os.WriteFile(filepath.Join(root, "d1", "x"), []byte("x"), 0o644)
			os.Mkdir(filepath.Join(root, "d2"), 0o755)
			// parents whose own permission bits are narrower than what is asked for the child
			os.Mkdir(filepath.Join(root, "d3"), 0o700)
			os.Mkdir(filepath.Join(root, "d4"), 0o750)
		}
		live := append([]string{}, base...)
		for step := 0; step < 10; step++ {
			var what string
			var e9, ep error
			// the plan: whether the request reaches Ufs at all, its text, and the error of applying it
			reached, plan, planLine := false, "", ""
			var epl error
			switch op := r.Intn(10); op {
			case 8: // symlink (9P2000.u only), to an existing target, onto free and occupied names
				if !dotu {
					continue
				}
				dir := []string{"", "d1"}[r.Intn(2)]
				name := []string{"ln1", "ln2", "a", "d2"}[r.Intn(4)]
				if dir == "d1" && (name == "a" || name == "d2") {
					name = "x"
				}
				target := []string{"a", "b", "d2"}[r.Intn(3)]
				if dir == "d1" {
					target = "../" + target
				}
				what = fmt.Sprintf("symlink %s/%s -> %s", dir, name, target)
				if reached = exists(filepath.Join(e.root, dir)); reached {
					plan = goCreatePlan(dotu, g.DMSYMLINK, g.OREAD, true, false, false)
					planLine = fmt.Sprintf("createplan %s %d %d 1 0 0", b2s(dotu), uint32(g.DMSYMLINK), g.OREAD)
					epl = applyPlan(plan, filepath.Join(ptree, dir, name), target, "", "")
				}
				df, werr := e.c.FWalk(dir)
				e9 = werr
				if werr == nil {
					e9 = e.c.Create(df, name, g.DMSYMLINK, g.OREAD, target)
					e.c.Clunk(df)
				}
				ep = os.Symlink(target, filepath.Join(twin, dir, name))
				if werr == nil && e9 != nil && ep != nil { // the Rerror answers the Tcreate itself, not the walk to its directory
					if ee, ok := e9.(*g.Error); ok && ee.Errornum != errnoOf(ep) {
						c.oracleFail("C17/errno", fmt.Sprintf("%s: Rerror carries %d, the POSIX operation failed with %d (%v)", what, ee.Errornum, errnoOf(ep), ep), line)
					}
				}
				live = append(live, filepath.Join(dir, name))
			case 9: // hard link (9P2000.u only): ext names the fid of the existing file
				if !dotu {
					continue
				}
				src := []string{"a", "b"}[r.Intn(2)]
				name := []string{"hl1", "hl2", "b", "d1"}[r.Intn(4)]
				what = fmt.Sprintf("link %s -> %s", name, src)
				if reached = exists(filepath.Join(e.root, src)); reached {
					plan = goCreatePlan(dotu, g.DMLINK, g.OREAD, true, true, true)
					planLine = fmt.Sprintf("createplan %s %d %d 1 1 1", b2s(dotu), uint32(g.DMLINK), g.OREAD)
					epl = applyPlan(plan, filepath.Join(ptree, name), "", filepath.Join(ptree, src), "")
				}
				sf, werr := e.c.FWalk(src)
				df, werr2 := e.c.FWalk("")
				e9 = werr
				if werr == nil && werr2 == nil {
					e9 = e.c.Create(df, name, g.DMLINK, g.OREAD, fmt.Sprint(sf.Fid))
				}
				if sf != nil {
					e.c.Clunk(sf)
				}
				if df != nil {
					e.c.Clunk(df)
				}
				ep = os.Link(filepath.Join(twin, src), filepath.Join(twin, name))
				if werr == nil && werr2 == nil && e9 != nil && ep != nil {
					if ee, ok := e9.(*g.Error); ok && ee.Errornum != errnoOf(ep) {
						c.oracleFail("C17/errno", fmt.Sprintf("%s: Rerror carries %d, the POSIX operation failed with %d (%v)", what, ee.Errornum, errnoOf(ep), ep), line)
					}
				}
				live = append(live, name)
			case 0: // create file
				dir := []string{"", "d1", "d2", "d3", "d4"}[r.Intn(5)]
				name := fmt.Sprintf("n%d", r.Intn(4))
				perm := uint32([]int{0o644, 0o600, 0o755, 0o400, 0, 0o666, 0o664, 0o777}[r.Intn(8)])
				mode := uint8([]int{g.OREAD, g.OWRITE, g.ORDWR, g.OWRITE | g.OTRUNC}[r.Intn(4)])
				what = fmt.Sprintf("create %s/%s perm %o mode %d", dir, name, perm, mode)
				if reached = exists(filepath.Join(e.root, dir)); reached {
					plan = goCreatePlan(dotu, perm, mode, true, false, false)
					planLine = fmt.Sprintf("createplan %s %d %d 1 0 0", b2s(dotu), perm, mode)
					epl = applyPlan(plan, filepath.Join(ptree, dir, name), "", "", "")
				}
				f, err := e.c.FCreate(filepath.Join(dir, name), perm, mode)
				e9 = err
				if err == nil {
					// after a successful create the fid refers to the created object
					if d, serr := e.c.Stat(f.Fid); serr != nil || d.Name != name {
						c.oracleFail("C17/fid-follows", fmt.Sprintf("%s: the fid does not designate the new file (%v)", what, serr), line)
					}
					f.Close()
				}
				pf, err := os.OpenFile(filepath.Join(twin, dir, name), os.O_CREATE|os.O_RDWR, os.FileMode(perm&0o777))
				// the 9P create fails when the file exists (O_CREATE without O_EXCL does not): mirror Ufs's POSIX call
				ep = err
				if err == nil {
					if mode&g.OTRUNC != 0 {
						pf.Truncate(0)
					}
					pf.Close()
				}
				live = append(live, filepath.Join(dir, name))
			case 1: // mkdir
				dir := []string{"", "d1", "d2", "d3", "d4"}[r.Intn(5)]
				name := fmt.Sprintf("m%d", r.Intn(3))
				if r.Intn(3) == 0 { // a name that is taken: by a directory, by a file
					dir, name = "", []string{"d1", "d2", "a", "b"}[r.Intn(4)]
				}
				dperm := uint32([]int{0o755, 0o777, 0o750, 0o700}[r.Intn(4)])
				what = fmt.Sprintf("mkdir %s/%s perm %o", dir, name, dperm)
				if reached = exists(filepath.Join(e.root, dir)); reached {
					plan = goCreatePlan(dotu, g.DMDIR|dperm, g.OREAD, true, false, false)
					planLine = fmt.Sprintf("createplan %s %d %d 1 0 0", b2s(dotu), uint32(g.DMDIR|dperm), g.OREAD)
					epl = applyPlan(plan, filepath.Join(ptree, dir, name), "", "", "")
				}
				f, err := e.c.FCreate(filepath.Join(dir, name), g.DMDIR|dperm, g.OREAD)
				e9 = err
				if err == nil {
					f.Close()
				}
				ep = os.Mkdir(filepath.Join(twin, dir, name), os.FileMode(dperm))
				live = append(live, filepath.Join(dir, name))
			case 2: // remove
				p := live[r.Intn(len(live))]
				what = "remove " + p
				there := exists(filepath.Join(e.root, p)) // else the Rerror answers the walk, not the Tremove
				e9 = e.c.FRemove(p)
				ep = os.Remove(filepath.Join(twin, p))
				os.Remove(filepath.Join(ptree, p)) // no plan to speak of: remove(3)
				if there && dotu && e9 != nil && ep != nil {
					if ee, ok := e9.(*g.Error); ok && ee.Errornum != errnoOf(ep) {
						c.oracleFail("C17/errno", fmt.Sprintf("%s: Rerror carries %d, the POSIX operation failed with %d (%v)", what, ee.Errornum, errnoOf(ep), ep), line)
					}
				}
			case 3: // write
				p := []string{"a", "b", "d1/x"}[r.Intn(3)]
				off := r.Intn(20)
				d := genBytes(r, r.Intn(30))
				what = fmt.Sprintf("write %s off %d len %d", p, off, len(d))
				f, err := e.c.FOpen(p, g.OWRITE)
				e9 = err
				if err == nil {
					_, e9 = f.Written(d, uint64(off))
					f.Close()
				}
				for _, tree := range []string{twin, ptree} {
					pf, err := os.OpenFile(filepath.Join(tree, p), os.O_WRONLY, 0)
					if tree == twin {
						ep = err
					}
					if err == nil {
						if len(d) > 0 {
							_, werr := pf.WriteAt(d, int64(off))
							if tree == twin {
								ep = werr
							}
						}
						pf.Close()
					}
				}
			case 4: // truncate through wstat
				p := []string{"a", "b", "d1/x"}[r.Intn(3)]
				l := uint64([]int{0, 3, 100}[r.Intn(3)])
				what = fmt.Sprintf("truncate %s to %d", p, l)
				if reached = exists(filepath.Join(e.root, p)); reached {
					pd := noTouchDir()
					pd.Length = l
					plan, planLine = goWstatPlan(dotu, pd, true), wstatPlanLine(dotu, pd, true)
					epl = applyPlan(plan, filepath.Join(ptree, p), "", "", "")
				}
				if r.Intn(2) == 0 {
					e9 = wstat(e.c, p, func(d *g.Dir) { d.Length = l })
				} else {
					// through a fid that is open (in any mode): still truncate(2) on the path
					mode := []uint8{g.OREAD, g.OWRITE, g.ORDWR, g.OEXEC}[r.Intn(4)]
					what = fmt.Sprintf("truncate %s to %d through a fid open with mode %d", p, l, mode)
					if f, err := e.c.FOpen(p, mode); err != nil {
						e9 = wstat(e.c, p, func(d *g.Dir) { d.Length = l })
					} else {
						d := &g.Dir{Type: 0xffff, Dev: 0xffffffff, Mode: 0xffffffff, Atime: 0xffffffff, Mtime: 0xffffffff,
							Length: l, Uidnum: 0xffffffff, Gidnum: 0xffffffff, Muidnum: 0xffffffff}
						d.Qid = g.Qid{Type: 0xff, Version: 0xffffffff, Path: 0xffffffffffffffff}
						e9 = e.c.Wstat(f.Fid, d)
						f.Close()
					}
				}
				ep = os.Truncate(filepath.Join(twin, p), int64(l))
			case 5: // chmod through wstat
				p := live[r.Intn(len(live))]
				perm := uint32([]int{0o600, 0o644, 0o755, 0o700}[r.Intn(4)])
				what = fmt.Sprintf("chmod %s %o", p, perm)
				if reached = exists(filepath.Join(e.root, p)); reached {
					pd := noTouchDir()
					pd.Mode = perm
					plan, planLine = goWstatPlan(dotu, pd, true), wstatPlanLine(dotu, pd, true)
					epl = applyPlan(plan, filepath.Join(ptree, p), "", "", "")
				}
				e9 = wstat(e.c, p, func(d *g.Dir) { d.Mode = perm })
				ep = os.Chmod(filepath.Join(twin, p), os.FileMode(perm))
			case 6: // rename through wstat, to a free or an occupied name
				p := live[r.Intn(len(live))]
				nn := []string{"renamed", "a", "b", "r2"}[r.Intn(4)]
				what = fmt.Sprintf("rename %s to %s", p, nn)
				if reached = exists(filepath.Join(e.root, p)); reached {
					pd := noTouchDir()
					pd.Name = nn
					plan, planLine = goWstatPlan(dotu, pd, true), wstatPlanLine(dotu, pd, true)
					epl = applyPlan(plan, filepath.Join(ptree, p), "", "", filepath.Join(ptree, filepath.Dir(p), nn))
				}
				e9 = wstat(e.c, p, func(d *g.Dir) { d.Name = nn })
				// rename(2) itself: os.Rename adds a check of its own for existing directories
				ep = syscall.Rename(filepath.Join(twin, p), filepath.Join(twin, filepath.Dir(p), nn))
				live = append(live, filepath.Join(filepath.Dir(p), nn))
			case 7: // set mtime
				p := []string{"a", "b"}[r.Intn(2)]
				mt := uint32(1_000_000_000 + r.Intn(1000))
				what = fmt.Sprintf("mtime %s", p)
				if reached = exists(filepath.Join(e.root, p)); reached {
					pd := noTouchDir()
					pd.Mtime = mt
					plan, planLine = goWstatPlan(dotu, pd, true), wstatPlanLine(dotu, pd, true)
					epl = applyPlan(plan, filepath.Join(ptree, p), "", "", "")
				}
				e9 = wstat(e.c, p, func(d *g.Dir) { d.Mtime = mt })
				st, serr := os.Stat(filepath.Join(twin, p))
				ep = serr
				if serr == nil {
					at := time.Unix(0, 0)
					_ = st
					ep = os.Chtimes(filepath.Join(twin, p), at, time.Unix(int64(mt), 0))
					if e9 == nil {
						if s9, err := os.Stat(filepath.Join(e.root, p)); err == nil && s9.ModTime().Unix() != int64(mt) {
							c.oracleFail("C17/mtime", fmt.Sprintf("%s: mtime is %d, asked for %d", what, s9.ModTime().Unix(), mt), line)
						}
					}
				}
			}
			c.count("op:" + strings.Fields(what)[0])
			if reached && planLine != "" {
				// the model's plan is the harness's plan (the driver answers the same line) …
				c.emit(planLine, plan, true)
				c.count("plan:" + strings.Fields(what)[0])
				// … and applied to the third tree it does what Ufs did to the exported one, failure or not
				if (e9 == nil) != (epl == nil) {
					c.oracleFail("C17/plan-differs/outcome/"+strings.Fields(what)[0], fmt.Sprintf("%s: through 9P %v, the planned calls (%s) %v", what, e9, plan, epl), line)
				} else if d := diffSnap(snapTree(e.root), snapTree(ptree)); d != "" {
					c.oracleFail("C17/plan-differs/tree/"+strings.Fields(what)[0], fmt.Sprintf("after %s (9P: %v; planned calls %s: %v): %s", what, e9, plan, epl, d), line)
				}
			}
			if (e9 == nil) != (ep == nil) {
				kind := strings.Fields(what)[0]
				if (kind == "symlink" || kind == "link") && e9 != nil && ep == nil {
					rel := strings.TrimPrefix(strings.Fields(what)[1], "/")
					if _, lerr := os.Lstat(filepath.Join(e.root, rel)); lerr == nil && strings.Contains(e9.Error(), "open ") {
						kind = "created-but-open-failed" // the object was made; only the follow-up open (through a dangling link) failed
					}
				}
				c.oracleFail("C17/outcome/"+kind, fmt.Sprintf("%s: through 9P %v, the POSIX operation %v", what, e9, ep), line)
				if kind != "created-but-open-failed" {
					break
				}
			}
			if d := diffSnap(snapTree(e.root), snapTree(twin)); d != "" {
				c.oracleFail("C17/tree/"+strings.Fields(what)[0], fmt.Sprintf("after %s (9P: %v): %s", what, e9, d), line)
				break
			}
		}
		e.close()
		c.emit(line, "*", true)
	}
}

func wstat(cl *g.Clnt, p string, f func(d *g.Dir)) error {
	fid, err := cl.FWalk(p)
	if err != nil {
		return err
	}
	defer cl.Clunk(fid)
	d := &g.Dir{Type: 0xffff, Dev: 0xffffffff, Mode: 0xffffffff, Atime: 0xffffffff, Mtime: 0xffffffff,
		Length: 0xffffffffffffffff, Uidnum: 0xffffffff, Gidnum: 0xffffffff, Muidnum: 0xffffffff}
	d.Qid = g.Qid{Type: 0xff, Version: 0xffffffff, Path: 0xffffffffffffffff}
	f(d)
	return cl.Wstat(fid, d)
}

// ---------------- C18 ----------------

var escGrammar = []string{"../export.bak", "../export.bak/inner2", "/../export.bak/inner2", "../exportX", "../export.bak/..", "..", ".", "", "/", "../..", "../../..", "../secret", "/../secret", "..//secret", "./../secret",
	"d/../../secret", "d/../..", "/etc/passwd", "../export/../secret", "..\x00", "d/..", "....", "..."}

func genC18(c *Ctx) {
	i := 0
	// the Clean mirror against Go's, on a grammar of components
	parts := []string{"a", "b", "..", ".", "", "c.d", "...", "x y"}
	for k := 0; k < c.scale(600, 20000) && !c.stop(); k++ {
		i++
		r := c.rng(i)
		n := r.Intn(7)
		comps := make([]string, n)
		for j := range comps {
			comps[j] = parts[r.Intn(len(parts))]
		}
		p := strings.Join(comps, "/")
		if strings.ContainsAny(p, " ") {
			p = strings.ReplaceAll(p, " ", "_")
		}
		if p == "" {
			p = "-"
		}
		pp := "/"
		if p != "-" {
			pp = "/" + p
		}
		c.count("clean")
		c.emit("clean "+p, filepath.Clean(pp), true)
	}
	for k := 0; k < c.scale(25, 600) && !c.stop(); k++ {
		i++
		r := c.rng(i)
		dotu := r.Intn(2) == 0
		line := fmt.Sprintf("ufsjudge C18 seed=%d dotu=%s", i, b2s(dotu))
		c.begin(line)
		e, err := newUfs(8192+24, dotu)
		if err != nil {
			c.oracleFail("C18/setup", err.Error(), line)
			continue
		}
		// canaries next to and above the root
		os.WriteFile(filepath.Join(e.outer, "secret"), []byte("TOP SECRET"), 0o644)
		os.Mkdir(filepath.Join(e.outer, "sdir"), 0o755)
		os.WriteFile(filepath.Join(e.outer, "sdir", "inner"), []byte("INNER"), 0o644)
		os.Mkdir(filepath.Join(e.outer, "export.bak"), 0o755) // a sibling whose name starts with the root's
		os.WriteFile(filepath.Join(e.outer, "export.bak", "inner2"), []byte("INNER"), 0o644)
		os.WriteFile(filepath.Join(e.outer, "exportX"), []byte("TOP SECRET"), 0o644)
		os.MkdirAll(filepath.Join(e.root, "d", "e"), 0o755)
		os.WriteFile(filepath.Join(e.root, "d", "file"), []byte("inside"), 0o644)
		os.WriteFile(filepath.Join(e.root, "top"), []byte("inside-top"), 0o644)
		outerBefore := snapOuter(e)
		secretIno := inoOf(filepath.Join(e.outer, "secret"))
		outerInos := map[uint64]bool{secretIno: true, inoOf(e.outer): true, inoOf(filepath.Join(e.outer, "sdir")): true,
			inoOf(filepath.Join(e.outer, "sdir", "inner")): true, inoOf(filepath.Join(e.outer, "export.bak")): true,
			inoOf(filepath.Join(e.outer, "export.bak", "inner2")): true, inoOf(filepath.Join(e.outer, "exportX")): true}
		check := func(what string, q []g.Qid, data []byte) {
			for _, x := range q {
				if outerInos[x.Path] {
					c.oracleFail("C18/escape/"+strings.Fields(what)[0], fmt.Sprintf("%s returned the qid of an object outside the export", what), line)
				}
			}
			if bytes.Contains(data, []byte("TOP SECRET")) || bytes.Contains(data, []byte("INNER")) {
				c.oracleFail("C18/escape/"+strings.Fields(what)[0], fmt.Sprintf("%s returned data of a file outside the export", what), line)
			}
		}
		starts := []string{"", "d", "d/e"}
		for m := 0; m < 30; m++ {
			start := starts[r.Intn(len(starts))]
			src, err := e.c.FWalk(start)
			if err != nil {
				continue
			}
			// a walk list drawn from the grammar, possibly with real names mixed in
			var names []string
			for j := 0; j < 1+r.Intn(4); j++ {
				if r.Intn(4) == 0 {
					names = append(names, []string{"d", "e", "file", "top", "secret", "sdir"}[r.Intn(6)])
				} else {
					names = append(names, escGrammar[r.Intn(len(escGrammar))])
				}
			}
			nf := e.c.FidAlloc()
			qs, werr := e.c.Walk(src, nf, names)
			c.count("walk")
			check(fmt.Sprintf("walk %q from %q", names, start), qs, nil)
			if werr == nil && len(qs) == len(names) {
				if d, err := e.c.Stat(nf); err == nil {
					check(fmt.Sprintf("stat after walk %q", names), []g.Qid{d.Qid}, nil)
				}
				if e.c.Open(nf, g.OREAD) == nil {
					b, _ := e.c.Read(nf, 0, 4096)
					check(fmt.Sprintf("read after walk %q", names), nil, b)
				}
				e.c.Clunk(nf)
			}
			// create with a name from the grammar
			cn := escGrammar[r.Intn(len(escGrammar))]
			if r.Intn(3) == 0 {
				cn = cn + "/new"
			}
			cf, _ := e.c.FWalk(start)
			if cf != nil {
				perm := uint32(0o644)
				ext := ""
				if dotu && r.Intn(3) == 0 {
					perm = g.DMSYMLINK
					ext = []string{"../../secret", "/etc/passwd", filepath.Join(e.outer, "secret"), "../secret"}[r.Intn(4)]
				} else if r.Intn(4) == 0 {
					perm = g.DMDIR | 0o755
				}
				if e.c.Create(cf, cn, perm, g.OREAD, ext) == nil && perm == g.DMSYMLINK {
					// a link that was accepted must not lead out
					if b, err := e.c.Read(cf, 0, 4096); err == nil {
						check(fmt.Sprintf("read through created symlink %q -> %q", cn, ext), nil, b)
					}
				}
				e.c.Clunk(cf)
				c.count("create")
			}
			// rename target from the grammar
			if r.Intn(2) == 0 {
				tn := escGrammar[r.Intn(len(escGrammar))]
				if r.Intn(2) == 0 {
					tn = tn + "/moved"
				}
				os.WriteFile(filepath.Join(e.root, "victim"), []byte("victim"), 0o644)
				wstat(e.c, "victim", func(d *g.Dir) { d.Name = tn })
				c.count("rename")
			}
			// attach name from the grammar on a second connection
			if r.Intn(4) == 0 {
				an := escGrammar[r.Intn(len(escGrammar))]
				if fid, err := e.c.Attach(nil, g.OsUsers.Uid2User(os.Getuid()), an); err == nil {
					if d, err := e.c.Stat(fid); err == nil {
						check(fmt.Sprintf("attach %q", an), []g.Qid{d.Qid}, nil)
					}
					if e.c.Open(fid, g.OREAD) == nil {
						b, _ := e.c.Read(fid, 0, 4096)
						check(fmt.Sprintf("read of attach %q", an), nil, b)
					}
					e.c.Clunk(fid)
				}
				c.count("attach")
			}
			e.c.Clunk(src)
		}
		// '..' at the root stays at the root
		if rootq, err := e.c.FStat(""); err == nil {
			src, _ := e.c.FWalk("")
			nf := e.c.FidAlloc()
			if qs, err := e.c.Walk(src, nf, []string{".."}); err == nil && len(qs) == 1 {
				if qs[0].Path != rootq.Qid.Path {
					c.oracleFail("C18/dotdot-at-root", "'..' from the root does not designate the root", line)
				}
				e.c.Clunk(nf)
			}
			e.c.Clunk(src)
		}
		if after := snapOuter(e); after != outerBefore {
			c.oracleFail("C18/outside-modified", fmt.Sprintf("objects outside the export changed: before %q after %q", outerBefore, after), line)
		}
		e.close()
		c.emit(line, "*", true)
	}
}

func inoOf(p string) uint64 {
	st, err := os.Lstat(p)
	if err != nil {
		return 0
	}
	return st.Sys().(*syscall.Stat_t).Ino
}

// snapOuter describes everything outside the exported root (but inside the scratch dir).
func snapOuter(e *ufsEnv) string {
	var d []string
	filepath.Walk(e.outer, func(p string, info os.FileInfo, err error) error {
		if err != nil {
			return nil
		}
		if p == e.root {
			return filepath.SkipDir
		}
		if p == filepath.Join(e.outer, "twin") {
			return filepath.SkipDir
		}
		b := []byte{}
		if info.Mode().IsRegular() {
			b, _ = os.ReadFile(p)
		}
		rel, _ := filepath.Rel(e.outer, p)
		d = append(d, fmt.Sprintf("%s:%v:%s", rel, info.Mode(), short(b)))
		return nil
	})
	return strings.Join(d, "|")
}

// witnessCtx lets corpus witnesses report through the run's oracle channel.
var witnessCtx *Ctx

// witnessK5 replays the known finding K-5: creating a symlink to a missing target.
func witnessK5(c *Ctx, line string) {
	e, err := newUfs(8192+24, true)
	if err != nil {
		return
	}
	defer e.close()
	df, err := e.c.FWalk("")
	if err != nil {
		return
	}
	e9 := e.c.Create(df, "dangling", g.DMSYMLINK, g.OREAD, "no-such-target")
	_, lerr := os.Lstat(filepath.Join(e.root, "dangling"))
	if e9 != nil && lerr == nil {
		c.oracleFail("C17/outcome/created-but-open-failed", fmt.Sprintf("symlink /dangling -> no-such-target: through 9P %v, yet the link exists", e9), line)
	}
}
