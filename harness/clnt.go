package main

// C09 / C10: the real client against a scripted peer that parses requests with its own
// frame reader and answers in a prescribed order, cuts the reply stream anywhere, sends
// garbage, or goes away. The observed schedule is also handed to the Lean client model
// (clntrun …) whose accounting must agree with the client's (verif accessor).

import (
	"bytes"
	"encoding/binary"
	"fmt"
	"math/rand"
	"net"
	"os"
	"sort"
	"strings"
	"sync"
	"time"

	g "github.com/rminnich/go9p"
)

func init() {
	props["C09"] = propRunner{gen: genC09, exec: execClnt}
	props["C10"] = propRunner{gen: genC10, exec: execClnt}
}

func execClnt(line string) (string, bool) {
	if strings.HasPrefix(line, "clntio ") {
		return "accept", true // the observation is the line; the driver is the judge
	}
	if strings.HasPrefix(line, "reqlist ") {
		_, obs := runReqList(strings.Fields(line)[1:], nil)
		return obs, true
	}
	return "*", true
}

const poolSize = 65535

type peerReq struct {
	tag    uint16
	caller int // taken from the Tread offset
}

// scriptedPeer answers Tversion and collects request frames.
type scriptedPeer struct {
	b     net.Conn
	msize uint32
	reqs  chan peerReq
}

func newPeer(b net.Conn, msize uint32) *scriptedPeer {
	p := &scriptedPeer{b: b, msize: msize, reqs: make(chan peerReq, 200000)}
	go func() {
		for {
			buf, err := readFrame(b, time.Hour)
			if err != nil {
				return
			}
			tag := binary.LittleEndian.Uint16(buf[5:])
			if buf[4] == g.Tversion {
				rv := g.NewFcall(64)
				g.PackRversion(rv, msize, "9P2000.u")
				g.SetTag(rv, tag)
				b.Write(rv.Pkt)
				continue
			}
			caller := -1
			if buf[4] == g.Tread && len(buf) >= 19 {
				caller = int(binary.LittleEndian.Uint64(buf[11:]))
			}
			p.reqs <- peerReq{tag, caller}
		}
	}()
	return p
}

func payloadOf(caller int, msize uint32) []byte {
	n := caller%int(msize-24-1) + 1
	return bytes.Repeat([]byte{byte(caller*7 + 1)}, n)
}

// reply builds the reply frame of the given kind for a request.
func reply(kind string, r peerReq, msize uint32) []byte {
	fc := g.NewFcall(msize)
	switch kind {
	case "ok":
		g.PackRread(fc, payloadOf(r.caller, msize))
	case "rerror":
		g.PackRerror(fc, fmt.Sprintf("no such thing %d", r.caller), uint32(100+r.caller%50), true)
	default: // mismatched R type
		g.PackRclunk(fc)
	}
	g.SetTag(fc, r.tag)
	return append([]byte{}, fc.Pkt...)
}

type callRes struct {
	rc  *g.Fcall
	err error
	ok  bool // returned at all
}

// startCallers launches K callers, each a Tread whose offset is its index.
func startCallers(c *g.Clnt, K int) (*sync.WaitGroup, []callRes) {
	var wg sync.WaitGroup
	res := make([]callRes, K)
	for i := 0; i < K; i++ {
		wg.Add(1)
		go func(i int) {
			defer wg.Done()
			tc := c.NewFcall()
			g.PackTread(tc, 5, uint64(i), 1000)
			rc, err := c.Rpc(tc)
			res[i] = callRes{rc, err, true}
		}(i)
	}
	return &wg, res
}

// startCallersFrom launches n more callers with indices from, from+1, …
func startCallersFrom(c *g.Clnt, from, n int) (*sync.WaitGroup, []callRes) {
	var wg sync.WaitGroup
	res := make([]callRes, n)
	for i := 0; i < n; i++ {
		wg.Add(1)
		go func(i int) {
			defer wg.Done()
			tc := c.NewFcall()
			g.PackTread(tc, 5, uint64(from+i), 1000)
			rc, err := c.Rpc(tc)
			res[i] = callRes{rc, err, true}
		}(i)
	}
	return &wg, res
}

func waitWG(wg *sync.WaitGroup, d time.Duration) bool {
	ch := make(chan bool)
	go func() { wg.Wait(); close(ch) }()
	select {
	case <-ch:
		return true
	case <-time.After(d):
		return false
	}
}

func acct(c *g.Clnt) string {
	vi := g.VerifClnt(c)
	return fmt.Sprintf("free=%d pend=%d err=%s", vi.FreeTags+vi.Cached, len(vi.Pending), b2s(vi.Err))
}

func checkResult(kind string, i int, r callRes, msize uint32) string {
	switch kind {
	case "ok":
		if r.err != nil || r.rc == nil || !bytes.Equal(r.rc.Data, payloadOf(i, msize)) {
			return fmt.Sprintf("call %d: want its own %d-byte payload, got err=%v", i, len(payloadOf(i, msize)), r.err)
		}
	case "rerror":
		e, ok := r.err.(*g.Error)
		if !ok || e.Err != fmt.Sprintf("no such thing %d", i) || e.Errornum != uint32(100+i%50) {
			return fmt.Sprintf("call %d: want Error{no such thing %d, %d}, got %v", i, i, 100+i%50, r.err)
		}
	default:
		if r.err == nil {
			return fmt.Sprintf("call %d: a reply of the wrong type was returned as success", i)
		}
	}
	return ""
}

// ---------------- C09 ----------------

func genC09(c *Ctx) {
	defer genC09list(c)
	i := 0
	for k := 0; k < c.scale(150, 4000) && !c.stop(); k++ {
		i++
		r := c.rng(i)
		msize := []uint32{128, 512, 8192}[r.Intn(3)]
		K := []int{1, 2, 3, 4, 5, 8, 17, 64}[r.Intn(8)]
		line := fmt.Sprintf("clntjudge C09 seed=%d msize=%d K=%d", i, msize, K)
		c.begin(line)
		a, b := net.Pipe()
		p := newPeer(b, msize)
		cl, err := g.Connect(pconn{a}, msize, true)
		if err != nil {
			c.oracleFail("C09/connect", err.Error(), line)
			continue
		}
		wg, res := startCallers(cl, K)
		var reqs []peerReq
		tagsSeen := map[uint16]bool{}
		for len(reqs) < K {
			select {
			case q := <-p.reqs:
				if tagsSeen[q.tag] {
					c.oracleFail("C09/duplicate-tag", fmt.Sprintf("tag %d used by two outstanding calls", q.tag), line)
				}
				tagsSeen[q.tag] = true
				reqs = append(reqs, q)
			case <-time.After(5 * time.Second):
				c.oracleFail("C09/requests-missing", fmt.Sprintf("peer saw %d of %d requests", len(reqs), K), line)
				reqs = append(reqs, make([]peerReq, K-len(reqs))...)
			}
		}
		// every permutation for up to 5 outstanding is reached over the seeds; random beyond
		order := r.Perm(K)
		// a second wave of calls is issued after the first `split` replies have been consumed,
		// while the other calls of the first wave are still outstanding
		split := r.Intn(K + 1)
		K2 := []int{0, 0, 1, 2, 5}[r.Intn(5)]
		kinds := make([]string, K+K2)
		evs := []string{}
		for _, q := range reqs {
			evs = append(evs, fmt.Sprintf("a%d", q.caller), fmt.Sprintf("q%d", q.caller))
		}
		mkStream := func(idxs []int, rq []peerReq) []byte {
			var st []byte
			for _, idx := range idxs {
				q := rq[idx]
				kinds[q.caller] = []string{"ok", "ok", "ok", "rerror", "mismatch"}[r.Intn(5)]
				st = append(st, reply(kinds[q.caller], q, msize)...)
				evs = append(evs, fmt.Sprintf("d%d:%d", q.caller, q.caller), fmt.Sprintf("r%d", q.caller))
			}
			return st
		}
		send := func(stream []byte) {
			if len(stream) == 0 {
				return
			}
			var cuts []int
			for x := 0; x < r.Intn(12); x++ {
				cuts = append(cuts, 1+r.Intn(len(stream)))
			}
			sort.Ints(cuts)
			for _, ch := range chunksOf(stream, cuts) {
				b.Write(ch)
				if r.Intn(4) == 0 {
					time.Sleep(time.Duration(r.Intn(300)) * time.Microsecond)
				}
			}
		}
		first := mkStream(order[:split], reqs)
		hung := false
		var wg2 *sync.WaitGroup
		var res2 []callRes
		if K2 > 0 {
			go send(first)
			// the first `split` callers have returned before the second wave starts
			dl := time.Now().Add(10 * time.Second)
			for {
				n := 0
				for _, idx := range order[:split] {
					if res[reqs[idx].caller].ok {
						n++
					}
				}
				if n == split || time.Now().After(dl) {
					hung = n != split
					break
				}
				time.Sleep(200 * time.Microsecond)
			}
			wg2, res2 = startCallersFrom(cl, K, K2)
			var reqs2 []peerReq
			for len(reqs2) < K2 && !hung {
				select {
				case q := <-p.reqs:
					if tagsSeen[q.tag] {
						live := false
						for _, idx := range order[split:] {
							if reqs[idx].tag == q.tag {
								live = true
							}
						}
						if live {
							c.oracleFail("C09/duplicate-tag", fmt.Sprintf("tag %d used by two outstanding calls", q.tag), line)
						}
					}
					reqs2 = append(reqs2, q)
				case <-time.After(5 * time.Second):
					c.oracleFail("C09/requests-missing", fmt.Sprintf("peer saw %d of %d requests of the second wave", len(reqs2), K2), line)
					hung = true
				}
			}
			for _, q := range reqs2 {
				evs = append(evs, fmt.Sprintf("a%d", q.caller), fmt.Sprintf("q%d", q.caller))
			}
			// the rest of the first wave and the second wave, interleaved at random
			all := append(append([]peerReq{}, reqs2...), func() []peerReq {
				var x []peerReq
				for _, idx := range order[split:] {
					x = append(x, reqs[idx])
				}
				return x
			}()...)
			go send(mkStream(r.Perm(len(all)), all))
		} else {
			rest := mkStream(order[split:], reqs)
			go send(append(first, rest...))
		}
		okAll := waitWG(wg, 10*time.Second)
		if wg2 != nil {
			okAll = waitWG(wg2, 10*time.Second) && okAll
		}
		if !okAll || hung {
			c.oracleFail("C09/hang", fmt.Sprintf("calls did not return (K=%d, second wave %d after %d replies)", K, K2, split), line)
		} else {
			for j := 0; j < K; j++ {
				if msg := checkResult(kinds[j], j, res[j], msize); msg != "" {
					c.oracleFail("C09/own-reply/"+kinds[j], msg, line)
				}
			}
			for j := 0; j < K2; j++ {
				if msg := checkResult(kinds[K+j], K+j, res2[j], msize); msg != "" {
					c.oracleFail("C09/own-reply/"+kinds[K+j], msg, line)
				}
			}
			c.count(fmt.Sprintf("K:%d", K))
			c.count(fmt.Sprintf("wave2:%d", K2))
			// the model's accounting after the same schedule
			c.emit(fmt.Sprintf("clntrun %d %s", poolSize, strings.Join(evs, " ")), modelAcct(cl), true)
		}
		cl.Unmount()
		a.Close()
		b.Close()
		c.emit(line, "*", true)
	}
	genC09tag(c, 500000)
	// an unbounded number of calls over one connection: more calls than there are tags
	for k := 0; k < c.scale(1, 3) && !c.stop(); k++ {
		i++
		line := fmt.Sprintf("clntjudge C09 consecutive seed=%d", i)
		c.begin(line)
		a, b := net.Pipe()
		p := newPeer(b, 256)
		go func() {
			for q := range p.reqs {
				b.Write(reply(conKind(q.caller), q, 256))
			}
		}()
		cl, err := g.Connect(pconn{a}, 256, true)
		if err != nil {
			continue
		}
		N := 110000 // two thirds answered with Rerror or a reply of the wrong type: more of those than there are tags
		okc := 0
		done := make(chan bool)
		go func() {
			for n := 0; n < N; n++ {
				tc := cl.NewFcall()
				g.PackTread(tc, 5, uint64(n%200), 10)
				rc, err := cl.Rpc(tc)
				if checkResult(conKind(n%200), n%200, callRes{rc, err, true}, 256) == "" {
					okc++
				}
			}
			close(done)
		}()
		select {
		case <-done:
			if okc != N {
				c.oracleFail("C09/consecutive", fmt.Sprintf("%d of %d consecutive calls returned their reply", okc, N), line)
			}
		case <-time.After(120 * time.Second):
			c.oracleFail("C09/tags-not-recycled", fmt.Sprintf("consecutive calls stopped after %d", okc), line)
		}
		vi := g.VerifClnt(cl)
		if vi.FreeTags+vi.Cached != poolSize {
			c.oracleFail("C09/tag-accounting", fmt.Sprintf("%d tags available after %d completed calls, pool is %d", vi.FreeTags+vi.Cached, N, poolSize), line)
		}
		c.count("consecutive-110000")
		cl.Unmount()
		a.Close()
		b.Close()
		close(p.reqs)
		c.emit(line, "*", true)
	}
}

// tagMix: the pipelining helper (Tag) and ordinary calls on one connection. A Tag keeps one tag
// for all its requests; ordinary calls made meanwhile — also after requests of the Tag have been
// completed and freed — must use other tags and get their own replies.
func genC09tag(c *Ctx, i0 int) {
	i := i0
	for k := 0; k < c.scale(40, 800) && !c.stop(); k++ {
		i++
		r := c.rng(i)
		msize := []uint32{512, 8192}[r.Intn(2)]
		line := fmt.Sprintf("clntjudge C09 tagmix seed=%d msize=%d", i, msize)
		c.begin(line)
		a, b := net.Pipe()
		p := newPeer(b, msize)
		cl, err := g.Connect(pconn{a}, msize, true)
		if err != nil {
			c.oracleFail("C09/connect", err.Error(), line)
			continue
		}
		done := make(chan *g.Req, 64)
		tag := cl.TagAlloc(done)
		fid := &g.Fid{Clnt: cl, Fid: 5}
		failed := false
		fail := func(sig, msg string) {
			if !failed {
				c.oracleFail(sig, msg, line)
			}
			failed = true
		}
		next := 0
		// a few pipelined reads, completed and freed one by one
		warm := 1 + r.Intn(4)
		for j := 0; j < warm && !failed; j++ {
			tag.Read(fid, uint64(next), 1000)
			select {
			case q := <-p.reqs:
				b.Write(reply("ok", q, msize))
			case <-time.After(5 * time.Second):
				fail("C09/requests-missing", "peer did not see the pipelined request")
			}
			select {
			case rq := <-done:
				if rq.Rc == nil || !bytes.Equal(rq.Rc.Data, payloadOf(next, msize)) {
					fail("C09/own-reply/tag", fmt.Sprintf("pipelined read %d got the wrong data", next))
				}
				tag.ReqFree(rq)
			case <-time.After(5 * time.Second):
				fail("C09/hang", "pipelined request never completed")
			}
			next++
		}
		// several pipelined reads outstanding at once under the one tag: the peer answers them in the order
		// they arrived, each completion is the oldest one's and carries its own data
		if M := 2 + r.Intn(4); !failed && r.Intn(2) == 0 {
			first := next
			for j := 0; j < M; j++ {
				tag.Read(fid, uint64(next), 1000)
				next++
			}
			var qs []peerReq
			for len(qs) < M && !failed {
				select {
				case q := <-p.reqs:
					qs = append(qs, q)
				case <-time.After(5 * time.Second):
					fail("C09/requests-missing", fmt.Sprintf("peer saw %d of %d pipelined requests", len(qs), M))
				}
			}
			for j := 0; j < M && !failed; j++ {
				b.Write(reply("ok", qs[j], msize))
				select {
				case rq := <-done:
					want := first + j
					if rq.Tc == nil || rq.Rc == nil || int(rq.Tc.Offset) != want || !bytes.Equal(rq.Rc.Data, payloadOf(want, msize)) {
						off := -1
						if rq.Tc != nil {
							off = int(rq.Tc.Offset)
						}
						fail("C09/own-reply/tag-order", fmt.Sprintf("completion %d of %d pipelined reads under one tag is the request for offset %d (want %d) or carries another request's data", j, M, off, want))
					}
					tag.ReqFree(rq)
				case <-time.After(5 * time.Second):
					fail("C09/hang", "pipelined request never completed")
				}
			}
			c.count("tag-pipeline")
		}
		// now one pipelined read stays outstanding while ordinary calls are made
		tag.Read(fid, uint64(next), 1000)
		pipeCaller := next
		next++
		var outstanding []peerReq
		select {
		case q := <-p.reqs:
			outstanding = append(outstanding, q)
		case <-time.After(5 * time.Second):
			fail("C09/requests-missing", "peer did not see the pipelined request")
		}
		K := 1 + r.Intn(5)
		wg, res := startCallersFrom(cl, next, K)
		for len(outstanding) < K+1 && !failed {
			select {
			case q := <-p.reqs:
				for _, o := range outstanding {
					if o.tag == q.tag {
						fail("C09/duplicate-tag", fmt.Sprintf("tag %d used by two outstanding requests (a pipelined one and an ordinary call, or two calls)", q.tag))
					}
				}
				outstanding = append(outstanding, q)
			case <-time.After(5 * time.Second):
				fail("C09/requests-missing", fmt.Sprintf("peer saw %d of %d requests", len(outstanding), K+1))
			}
		}
		if !failed {
			// answered in a random order
			for _, idx := range r.Perm(len(outstanding)) {
				b.Write(reply("ok", outstanding[idx], msize))
			}
			if !waitWG(wg, 10*time.Second) {
				fail("C09/hang", "ordinary calls made next to a pipelined request did not return")
			} else {
				for j := 0; j < K; j++ {
					if msg := checkResult("ok", next+j, res[j], msize); msg != "" {
						fail("C09/own-reply/ok", msg)
					}
				}
			}
			select {
			case rq := <-done:
				if rq.Rc == nil || !bytes.Equal(rq.Rc.Data, payloadOf(pipeCaller, msize)) {
					fail("C09/own-reply/tag", "the pipelined read got another request's data")
				}
				tag.ReqFree(rq)
			case <-time.After(5 * time.Second):
				fail("C09/hang", "pipelined request never completed")
			}
		}
		c.count("tagmix")
		cl.Unmount()
		a.Close()
		b.Close()
		c.emit(line, "*", true)
	}
}

func conKind(caller int) string { return []string{"ok", "rerror", "mismatch"}[caller%3] }

// modelAcct renders the client's bookkeeping in the vocabulary of `clntrun`.
func modelAcct(cl *g.Clnt) string {
	vi := g.VerifClnt(cl)
	return fmt.Sprintf("free=%d live=%d pend=%d woken=0 refused=0 err=%s", vi.FreeTags+vi.Cached, poolSize-vi.FreeTags-vi.Cached,
		len(vi.Pending), b2s(vi.Err))
}

// bw writes without ever blocking the harness: the client may have stopped reading.
func bw(b net.Conn, data []byte) {
	b.SetWriteDeadline(time.Now().Add(2 * time.Second))
	b.Write(data)
}

// ---------------- C10 ----------------

func genC10(c *Ctx) {
	i := 0
	for k := 0; k < c.scale(30, 600) && !c.stop(); k++ {
		i++
		r := c.rng(i)
		msize := []uint32{128, 512}[r.Intn(2)]
		K := r.Intn(5)
		// the reply stream the peer would send, and the failure injected into it
		type scen struct {
			name string
			cut  int // bytes of the stream delivered before the failure
		}
		a0, b0 := net.Pipe()
		p0 := newPeer(b0, msize)
		cl0, err := g.Connect(pconn{a0}, msize, true)
		if err != nil {
			continue
		}
		// learn the length of the stream for this K (tags do not matter for lengths)
		wg0, _ := startCallers(cl0, K)
		var streamLen int
		var frames []int
		for n := 0; n < K; n++ {
			q := <-p0.reqs
			f := reply("ok", q, msize)
			frames = append(frames, len(f))
			streamLen += len(f)
			b0.Write(f)
		}
		waitWG(wg0, 5*time.Second)
		cl0.Unmount()
		a0.Close()
		b0.Close()
		var scens []scen
		step := 1
		if streamLen > c.scale(40, 400) {
			step = streamLen/c.scale(40, 400) + 1
		}
		for cut := 0; cut <= streamLen; cut += step {
			scens = append(scens, scen{"cut", cut})
		}
		for _, nm := range []string{"garbage", "oversize", "oversize-huge", "undersize", "unknown-tag", "unmount", "enter-during-failure", "first-enters-during-failure"} {
			scens = append(scens, scen{nm, r.Intn(streamLen + 1)})
		}
		for _, sc := range scens {
			if c.stop() {
				break
			}
			line := fmt.Sprintf("clntjudge C10 seed=%d msize=%d K=%d %s@%d", i, msize, K, sc.name, sc.cut)
			c.begin(line)
			tStart := time.Now()
			a, b := net.Pipe()
			p := newPeer(b, msize)
			cl, err := g.Connect(pconn{a}, msize, true)
			if err != nil {
				c.oracleFail("C10/connect", err.Error(), line)
				continue
			}
			iow := startIOWatch(cl)
			var unpark chan bool
			var unsub func()
			if sc.name == "enter-during-failure" || sc.name == "first-enters-during-failure" {
				// one caller is held between the enqueue and the hand-off while the failure happens: the last of
				// the K (nobody behind it on the pending list) or the first (the others are behind it)
				unpark = make(chan bool)
				seen := 0
				which := K
				if sc.name == "first-enters-during-failure" {
					which = 1
				}
				var mu sync.Mutex
				unsub = subscribe(func(point string, args []interface{}) {
					if point == "rpcnb.enqueued" && args[0].(*g.Clnt) == cl {
						mu.Lock()
						seen++
						mine := seen == which // on the pending list, not yet handed to the writer
						mu.Unlock()
						if mine {
							select {
							case <-unpark:
							case <-time.After(5 * time.Second):
							}
						}
					}
				})
			}
			wg, res := startCallers(cl, K)
			var reqs []peerReq
			expectReqs := K
			if unpark != nil && K > 0 {
				expectReqs = K - 1 // the parked caller's request never reaches the peer
			}
			for len(reqs) < expectReqs {
				select {
				case q := <-p.reqs:
					reqs = append(reqs, q)
				case <-time.After(5 * time.Second):
					reqs = append(reqs, peerReq{})
				}
			}
			var stream []byte
			ends := []int{}
			for _, q := range reqs {
				stream = append(stream, reply("ok", q, msize)...)
				ends = append(ends, len(stream))
			}
			cut := sc.cut
			if cut > len(stream) {
				cut = len(stream)
			}
			if sc.name != "cut" {
				// injected frames start at a frame boundary (bytes after a partial frame would complete it)
				cut = ends0(ends, cut)
			}
			complete := 0
			for _, e := range ends {
				if e <= cut {
					complete++
				}
			}
			evs := []string{}
			for _, q := range reqs {
				evs = append(evs, fmt.Sprintf("a%d", q.caller), fmt.Sprintf("q%d", q.caller))
			}
			for j := 0; j < complete; j++ {
				evs = append(evs, fmt.Sprintf("d%d:%d", reqs[j].caller, reqs[j].caller))
			}
			if cut > 0 {
				bw(b, stream[:cut]) // never an empty write: a zero-length read is end-of-stream to the client
			}
			switch sc.name {
			case "cut":
				b.Close()
			case "garbage":
				if cut == ends0(ends, cut) {
					bw(b, []byte{9, 0, 0, 0, 250, 1, 0, 7, 7}) // a whole frame of an undefined type
				} else {
					bw(b, bytes.Repeat([]byte{0xff}, 40))
				}
			case "oversize":
				f := make([]byte, 11)
				binary.LittleEndian.PutUint32(f, msize+1)
				f[4] = g.Rread
				bw(b, f)
			case "oversize-huge":
				f := make([]byte, int(msize)*9)
				binary.LittleEndian.PutUint32(f, 1<<31)
				f[4] = g.Rread
				go bw(b, f)
			case "undersize":
				bw(b, []byte{5, 0, 0, 0, g.Rclunk, 1, 0})
			case "unknown-tag":
				fc := g.NewFcall(64)
				g.PackRclunk(fc)
				g.SetTag(fc, 54321)
				bw(b, fc.Pkt)
			case "unmount", "enter-during-failure", "first-enters-during-failure":
				cl.Unmount()
			}
			// a cut in the middle of a frame is only a failure once the stream ends
			midFrame := sc.name != "cut" && cut != ends0(ends, cut)
			if midFrame && sc.name != "unmount" && !strings.HasSuffix(sc.name, "during-failure") {
				// garbage appended to a partial frame: the loop waits for the announced size; end the stream
				time.Sleep(2 * time.Millisecond)
				b.Close()
			}
			if unpark != nil {
				time.Sleep(2 * time.Millisecond)
				close(unpark)
			}
			returned := waitWG(wg, 8*time.Second)
			if unsub != nil {
				unsub()
			}
			if !returned {
				n := 0
				for _, x := range res {
					if !x.ok {
						n++
					}
				}
				c.oracleFail("C10/hang/"+sc.name, fmt.Sprintf("%d of %d outstanding calls never returned (stream cut at %d of %d)", n, K, cut, len(stream)), line)
			} else {
				for j, q := range reqs {
					x := res[q.caller]
					wantOK := j < complete && sc.name != "unmount" && !strings.HasSuffix(sc.name, "during-failure")
					if x.err == nil && !bytes.Equal(x.rc.Data, payloadOf(q.caller, msize)) {
						c.oracleFail("C10/false-success/"+sc.name, fmt.Sprintf("call %d returned success with the wrong data", q.caller), line)
					}
					if x.err == nil && j >= complete {
						c.oracleFail("C10/false-success/"+sc.name, fmt.Sprintf("call %d returned success though only %d of its stream bytes… reply %d of %d complete", q.caller, cut, complete, K), line)
					}
					if wantOK && x.err != nil {
						c.oracleFail("C10/complete-reply-lost/"+sc.name, fmt.Sprintf("reply %d was completely received (cut %d ≥ end %d) but the call got %v", j, cut, ends[j], x.err), line)
					}
				}
				// later calls are refused, promptly, and cost no tag
				lateOK := true
				done := make(chan bool)
				go func() {
					for n := 0; n < 3; n++ {
						tc := cl.NewFcall()
						g.PackTread(tc, 5, 0, 10)
						if _, err := cl.Rpc(tc); err == nil {
							lateOK = false
						}
					}
					close(done)
				}()
				select {
				case <-done:
					if !lateOK {
						c.oracleFail("C10/later-call-succeeds/"+sc.name, "a call made after the failure returned success", line)
					}
				case <-time.After(5 * time.Second):
					c.oracleFail("C10/later-call-hangs/"+sc.name, "a call made after the failure did not return", line)
				}
				// model: the same schedule ends with the same accounting
				if sc.name != "unmount" && !strings.HasSuffix(sc.name, "during-failure") {
					evs = append(evs, "F")
					for j := complete; j < K; j++ {
						evs = append(evs, "o")
					}
					for _, q := range reqs {
						evs = append(evs, fmt.Sprintf("r%d", q.caller))
					}
					evs = append(evs, "a900", "q900", "a901", "q901", "a902", "q902")
					vi := g.VerifClnt(cl)
					c.emit(fmt.Sprintf("clntrun %d %s", poolSize, strings.Join(evs, " ")),
						fmt.Sprintf("free=%d live=%d pend=%d woken=0 refused=3 err=%s", vi.FreeTags+vi.Cached,
							poolSize-vi.FreeTags-vi.Cached, len(vi.Pending), b2s(vi.Err)), true)
				}
			}
			if l := iow.line(); returned && l != "" {
				c.count("clntio")
				c.emit(l, "accept", true)
			}
			c.count("failure:" + sc.name)
			if traceOn {
				fmt.Fprintf(os.Stderr, "%s %v\n", line, time.Since(tStart))
			}
			a.Close()
			b.Close()
			c.emit(line, "*", true)
		}
	}
}

// ends0: the largest frame end ≤ cut (0 if none)
func ends0(ends []int, cut int) int {
	e0 := 0
	for _, e := range ends {
		if e <= cut {
			e0 = e
		}
	}
	return e0
}

var _ = rand.Int
var traceOn = os.Getenv("VERIF_TRACE") != ""

// ioWatch logs the schedule points of one client's hand-off to its writer goroutine and of the shutdown
// handshake (G9.ClntIO), in the order the client passed them.
type ioWatch struct {
	mu    sync.Mutex
	toks  []string
	ids   map[*g.Req]int
	next  int
	unsub func()
}

func startIOWatch(cl *g.Clnt) *ioWatch {
	w := &ioWatch{ids: map[*g.Req]int{}}
	w.unsub = subscribe(func(point string, args []interface{}) {
		if len(args) == 0 {
			return
		}
		if c, ok := args[0].(*g.Clnt); !ok || c != cl {
			return
		}
		w.mu.Lock()
		defer w.mu.Unlock()
		switch point {
		case "rpcnb.enqueued":
			// a Req object is recycled: every call gets a number of its own
			w.next++
			w.ids[args[1].(*g.Req)] = w.next
			w.toks = append(w.toks, fmt.Sprintf("E%d", w.next))
		case "clnt.send.take":
			w.toks = append(w.toks, fmt.Sprintf("T%d", w.ids[args[1].(*g.Req)]))
		case "rpcnb.handoff":
			w.toks = append(w.toks, fmt.Sprintf("H%d", w.ids[args[1].(*g.Req)]))
		case "clnt.recv.closed":
			w.toks = append(w.toks, "C")
		case "clnt.recv.fanout":
			w.toks = append(w.toks, "O")
		}
	})
	return w
}

func (w *ioWatch) line() string {
	w.unsub()
	w.mu.Lock()
	defer w.mu.Unlock()
	if len(w.toks) == 0 {
		return ""
	}
	return "clntio " + strings.Join(w.toks, " ")
}

// runReqList drives one client through Rpcnb / reply / ReqFree from a single goroutine and, after every
// step, reads the pending list as linked (forwards from reqfirst, backwards from reqlast). Req objects
// are numbered in the order they are first seen, so a recycled one keeps its number. With ops == nil
// the steps are chosen by pick (true: one more call; false: answer the n-th outstanding call);
// otherwise the given ops (a<r>, u<r>, f<r>) are executed. Returns the ops and the observations.
func runReqList(ops []string, pick func(outstanding int) (bool, int, bool)) ([]string, string) {
	msize := uint32(512)
	a, b := net.Pipe()
	defer a.Close()
	defer b.Close()
	p := newPeer(b, msize)
	cl, err := g.Connect(pconn{a}, msize, true)
	if err != nil {
		return nil, "connect-failed"
	}
	defer cl.Unmount()
	ids := map[*g.Req]int{}
	idOf := func(q *g.Req) int {
		if v, ok := ids[q]; ok {
			return v
		}
		ids[q] = len(ids) + 1
		return ids[q]
	}
	type outst struct {
		req *g.Req
		pr  peerReq
	}
	var out []outst
	var done, obs []string
	show := func(l []*g.Req) string {
		if len(l) == 0 {
			return "-"
		}
		x := make([]string, len(l))
		for i, q := range l {
			x[i] = fmt.Sprint(idOf(q))
		}
		return strings.Join(x, ",")
	}
	snap := func(op string) {
		vi := g.VerifClnt(cl)
		done = append(done, op)
		obs = append(obs, show(vi.Forward)+"/"+show(vi.Backward))
	}
	call := func(n int) bool {
		q := cl.ReqAlloc()
		q.Tc = cl.NewFcall()
		g.PackTread(q.Tc, 5, uint64(n), 10)
		q.Done = make(chan *g.Req, 1)
		if cl.Rpcnb(q) != nil {
			return false
		}
		select {
		case pr := <-p.reqs:
			out = append(out, outst{q, pr})
		case <-time.After(2 * time.Second):
			return false
		}
		snap(fmt.Sprintf("a%d", idOf(q)))
		return true
	}
	answer := func(x int) bool {
		o := out[x]
		out = append(out[:x], out[x+1:]...)
		b.Write(reply("ok", o.pr, msize))
		select {
		case <-o.req.Done:
		case <-time.After(2 * time.Second):
			return false
		}
		snap(fmt.Sprintf("u%d", idOf(o.req)))
		cl.ReqFree(o.req)
		snap(fmt.Sprintf("f%d", idOf(o.req)))
		return true
	}
	if ops == nil {
		for n := 0; ; n++ {
			more, x, stop := pick(len(out))
			if stop {
				break
			}
			if (more && !call(n)) || (!more && !answer(x)) {
				return done, "stuck"
			}
		}
	} else {
		for n, op := range ops {
			id := int(atou(op[1:], 31))
			switch op[0] {
			case 'a':
				if !call(n) {
					return done, "stuck"
				}
			case 'u':
				x := -1
				for k, o := range out {
					if idOf(o.req) == id {
						x = k
					}
				}
				if x < 0 || !answer(x) {
					return done, "stuck"
				}
			}
			// f<r> follows its u<r>: answer() did it
		}
	}
	return done, strings.Join(obs, "|")
}

// the pending list at the pointer level against G9.ReqList: random interleavings of new calls and replies
// (in any order) with recycled requests
func genC09list(c *Ctx) {
	for k := 0; k < c.scale(60, 1500) && !c.stop(); k++ {
		r := c.rng(900000 + k)
		steps := 6 + r.Intn(50)
		maxOut := 1 + r.Intn(8)
		c.begin(fmt.Sprintf("clntjudge C09 reqlist seed=%d", 900000+k))
		n := 0
		ops, obs := runReqList(nil, func(outstanding int) (bool, int, bool) {
			n++
			if n > steps {
				return false, 0, true
			}
			if outstanding == 0 || (outstanding < maxOut && r.Intn(2) == 0) {
				return true, 0, false
			}
			return false, r.Intn(outstanding), false
		})
		if obs == "stuck" || obs == "connect-failed" {
			c.oracleFail("C09/reqlist/"+obs, fmt.Sprintf("after %s: a call was not handed to the peer, or its reply did not reach it", strings.Join(ops, " ")),
				fmt.Sprintf("clntjudge C09 reqlist seed=%d", 900000+k))
			continue
		}
		if len(ops) == 0 {
			continue
		}
		c.count("reqlist")
		c.emit("reqlist "+strings.Join(ops, " "), obs, true)
	}
}
