package main

// C13: the same byte stream cut into transport reads in different ways.
//
//   seg <msize> <dotu> <cuts> <bodyhex>        server receive loop
//   cseg <msize> <k> <cuts>                    client receive loop, k outstanding calls
//
// cuts: comma-separated offsets into the body ("~" = none: one write).
// Observable (compared with the Lean receive-loop model through the line
//   frames <msize> <dotu> 1 <chunk> …): the number of frames executed and whether the
// connection was ended. The oracle — same replies and same payloads as the unsegmented
// run — is evaluated here.

import (
	"bytes"
	"crypto/sha1"
	"encoding/binary"
	"fmt"
	"math/rand"
	"net"
	"sort"
	"strconv"
	"strings"
	"sync"
	"time"

	g "github.com/rminnich/go9p"
)

func init() {
	props["C13"] = propRunner{gen: genC13, exec: execSeg}
}

func parseCuts(s string, n int) []int {
	var cs []int
	if s != "~" {
		for _, x := range strings.Split(s, ",") {
			v, _ := strconv.Atoi(x)
			if v > 0 && v < n {
				cs = append(cs, v)
			}
		}
	}
	sort.Ints(cs)
	return cs
}

func chunksOf(body []byte, cuts []int) [][]byte {
	var out [][]byte
	prev := 0
	for _, c := range cuts {
		if c > prev {
			out = append(out, body[prev:c])
			prev = c
		}
	}
	if prev < len(body) {
		out = append(out, body[prev:]) // never an empty write: a zero-length Read is end-of-stream to go9p
	}
	return out
}

type segResult struct {
	replies map[uint16]string // tag -> reply text
	writes  map[uint16]string // tag -> hash of the payload the implementation saw
	dropped bool
	nrep    int
	nframes int // frames the receive loop decoded and executed (schedule point recv.frame)
}

func short(b []byte) string { h := sha1.Sum(b); return fmt.Sprintf("%x", h[:6]) }

// runSeg sets a session up interactively, then sends body in the given chunks.
func runSeg(msize uint32, dotu bool, body []byte, cuts []int, expect int) (res segResult) {
	s := newSession(msize, dotu, false, 0)
	defer s.close()
	res = segResult{replies: map[uint16]string{}, writes: map[uint16]string{}}
	gate := make(chan bool)
	seen := map[uint16]string{} // written by the implementation's goroutines, under wmu
	var wmu sync.Mutex
	s.sc.mu.Lock()
	s.sc.byOp = map[string][]string{
		"attach": {"Rattach", "128:0:1"}, "walk": {"Rwalk", "0:0:2"}, "open": {"Ropen", "0:0:2", "0"},
		"stat": {"Rstat", "0", "0", "0:0:2", "420", "0", "0", "5", hexOr([]byte("f")), "-", "-", "-", "-", "0", "0", "0"},
		"read": {"Rread", hexOr([]byte("0123456789"))}, "write": {"Rwrite", "="}, "clunk": {"Rclunk"},
	}
	s.sc.hook = func(op string, r *g.SrvReq) {
		if op == "write" {
			<-gate // look at the payload only after every later chunk has arrived
			wmu.Lock()
			seen[r.Tc.Tag] = short(r.Tc.Data)
			wmu.Unlock()
		}
	}
	s.sc.mu.Unlock()
	rpc := func(tag uint16, pack func(fc *g.Fcall) error) bool {
		fc := g.NewFcall(8192)
		if pack(fc) != nil {
			return false
		}
		g.SetTag(fc, tag)
		if _, err := s.c.Write(fc.Pkt); err != nil {
			return false
		}
		_, err := readFrame(s.c, 5*time.Second)
		return err == nil
	}
	ver := "9P2000"
	if dotu {
		ver = "9P2000.u"
	}
	ok := rpc(g.NOTAG, func(fc *g.Fcall) error { return g.PackTversion(fc, msize, ver) }) &&
		rpc(1, func(fc *g.Fcall) error { return g.PackTattach(fc, 1, g.NOFID, "u", "", 0, dotu) }) &&
		rpc(1, func(fc *g.Fcall) error { return g.PackTwalk(fc, 1, 2, []string{"f"}) }) &&
		rpc(1, func(fc *g.Fcall) error { return g.PackTopen(fc, 2, g.ORDWR) })
	if !ok {
		res.dropped = true
		return res
	}
	var fmu sync.Mutex
	unsub := subscribe(func(point string, args []interface{}) {
		if point == "recv.frame" && args[0].(*g.Conn) == s.conn {
			fmu.Lock()
			res.nframes++
			fmu.Unlock()
		}
	})
	defer unsub()
	done := make(chan bool)
	rdotu := dotu
	go func() { // reader
		for {
			buf, err := readFrame(s.c, 3*time.Second)
			if err != nil {
				if ne, ok := err.(net.Error); !ok || !ne.Timeout() {
					res.dropped = true
				}
				break
			}
			rc, _, err := g.Unpack(buf, rdotu)
			if err != nil {
				res.replies[uint16(60000+res.nrep)] = "undecodable"
			} else {
				res.replies[rc.Tag] = showFcall(rc)
				if rc.Type == g.Rversion { // what follows is in the dialect this reply announces
					rdotu = rc.Version == "9P2000.u"
				}
			}
			res.nrep++
			if res.nrep == expect {
				break
			}
		}
		close(done)
	}()
	for _, ch := range chunksOf(body, cuts) {
		if _, err := s.c.Write(ch); err != nil {
			break
		}
	}
	close(gate)
	<-done
	defer func() { // hand back a private copy: late workers may still be running
		wmu.Lock()
		w := map[uint16]string{}
		for k, v := range seen {
			w[k] = v
		}
		wmu.Unlock()
		res.writes = w
	}()
	unsub() // the probe below is not part of the body
	if !res.dropped {
		// find out whether the connection is still alive
		s.c.SetWriteDeadline(time.Now().Add(200 * time.Millisecond))
		fc := g.NewFcall(64)
		g.PackTflush(fc, 1)
		g.SetTag(fc, 9)
		if _, err := s.c.Write(fc.Pkt); err != nil {
			res.dropped = true
		} else if _, err := readFrame(s.c, time.Second); err != nil {
			res.dropped = true
		}
	}
	return res
}

// bodyFrames counts the frames of a body by its size prefixes (for `expect`).
func bodyFrames(body []byte, msize uint32) int {
	n := 0
	for len(body) > 4 {
		sz := binary.LittleEndian.Uint32(body)
		if sz < 7 || sz > msize || int(sz) > len(body) {
			break
		}
		t := body[4]
		if t < g.Tversion || t >= g.Tlast || t%2 == 1 {
			break
		}
		n++
		body = body[sz:]
	}
	return n
}

// bodyFramesV: as bodyFrames, for a body whose Tversions lower the msize.
func bodyFramesV(body []byte, msize uint32) int {
	n := 0
	for len(body) > 4 {
		sz := binary.LittleEndian.Uint32(body)
		if sz < 7 || sz > msize || int(sz) > len(body) {
			break
		}
		t := body[4]
		if t < g.Tversion || t >= g.Tlast || t%2 == 1 {
			break
		}
		if t == g.Tversion && sz >= 13 {
			if m := binary.LittleEndian.Uint32(body[7:]); m >= 24 && m < msize {
				msize = m
			}
		}
		n++
		body = body[sz:]
	}
	return n
}

// genBodyV: a session negotiated as 9P2000.u on a server that speaks it; the body opens with a Tversion
// that asks for plain 9P2000 (and sometimes a smaller msize), followed by requests in the plain
// dialect, some of which do not decode as 9P2000.u, sometimes one that only the old msize admits.
func genBodyV(r *rand.Rand, msize uint32) ([]byte, map[uint16]string) {
	var body []byte
	payloads := map[uint16]string{}
	fc := g.NewFcall(8192)
	m2 := []uint32{msize, msize - 8, msize - 30, 8192}[r.Intn(4)]
	g.PackTversion(fc, m2, "9P2000")
	body = append(body, fc.Pkt...)
	eff := msize
	if m2 < eff {
		eff = m2
	}
	n := 2 + r.Intn(6)
	big := -1
	if eff < msize && r.Intn(3) == 0 {
		big = r.Intn(n)
	}
	for i := 0; i < n; i++ {
		tag := uint16(10 + i)
		var err error
		switch {
		case i == big:
			// fits the msize of before the Tversion only
			d := genBytes(r, int(eff)-23+r.Intn(int(msize-eff)))
			err = g.PackTwrite(fc, 2, 0, uint32(len(d)), d)
		default:
			switch r.Intn(6) {
			case 0:
				err = g.PackTattach(fc, uint32(20+i), g.NOFID, "u", "", 0, false)
			case 1:
				err = g.PackTcreate(fc, 77, "n", 0644, 0, "", false)
			case 2:
				err = g.PackTstat(fc, 1)
			case 3:
				d := genBytes(r, r.Intn(int(eff)-23))
				err = g.PackTwrite(fc, 2, uint64(r.Intn(1000)), uint32(len(d)), d)
				payloads[tag] = short(d)
			case 4:
				err = g.PackTauth(fc, uint32(40+i), "u", "", 0, false)
			default:
				err = g.PackTread(fc, 2, 0, 10)
			}
		}
		if err != nil {
			continue
		}
		g.SetTag(fc, tag)
		body = append(body, fc.Pkt...)
	}
	return body, payloads
}

func (r segResult) obs() string { return fmt.Sprintf("frames=%d dropped=%s", r.nframes, b2s(r.dropped)) }

func execSeg(line string) (string, bool) {
	t := strings.Fields(line)
	switch t[0] {
	case "framesv":
		msize := uint32(atou(t[2], 32))
		var body []byte
		var cuts []int
		for _, h := range t[5:] {
			b := mustHex(h)
			body = append(body, b...)
			cuts = append(cuts, len(body))
		}
		r := runSeg(msize, t[3] == "1", body, cuts, bodyFramesV(body, msize))
		return segObs(r, len(body), msize), r.nrep > 0
	case "frames":
		// replayed model line: re-run the implementation on the same chunks
		msize := uint32(atou(t[1], 32))
		var body []byte
		var cuts []int
		for _, h := range t[4:] {
			b := mustHex(h)
			body = append(body, b...)
			cuts = append(cuts, len(body))
		}
		r := runSeg(msize, t[2] == "1", body, cuts, bodyFrames(body, msize))
		return segObs(r, len(body), msize), r.nrep > 0
	}
	panic("harness: unknown command " + t[0])
}

// segObs renders the implementation's behaviour in the model's vocabulary.
func segObs(r segResult, total int, msize uint32) string {
	return r.obs()
}

func genBody(r *rand.Rand, msize uint32, dotu bool, n int, bad int) ([]byte, map[uint16]string) {
	var body []byte
	payloads := map[uint16]string{}
	fc := g.NewFcall(msize)
	for i := 0; i < n; i++ {
		tag := uint16(10 + i)
		if i == bad {
			switch r.Intn(3) {
			case 0: // undersize
				body = append(body, 5, 0, 0, 0, g.Tclunk, 1, 0)
			case 1: // oversize
				b := make([]byte, 7)
				binary.LittleEndian.PutUint32(b, msize+1+uint32(r.Intn(3)))
				b[4] = g.Tstat
				body = append(body, b...)
			default: // undefined type
				body = append(body, 7, 0, 0, 0, 99, 1, 0)
			}
			continue
		}
		var err error
		switch r.Intn(6) {
		case 0:
			err = g.PackTstat(fc, 1)
		case 1:
			max := int(msize) - 24
			l := []int{0, 1, max, max - 1, r.Intn(max + 1)}[r.Intn(5)]
			if l < 0 {
				l = 0
			}
			d := genBytes(r, l)
			err = g.PackTwrite(fc, 2, uint64(r.Intn(1000)), uint32(len(d)), d)
			payloads[tag] = short(d)
		case 2:
			err = g.PackTread(fc, 2, 0, 10)
		case 3:
			err = g.PackTwalk(fc, 1, 1, nil)
			_ = 0
		case 4:
			err = g.PackTflush(fc, 5000)
		default:
			err = g.PackTclunk(fc, 77)
		}
		if err != nil {
			continue
		}
		g.SetTag(fc, tag)
		body = append(body, fc.Pkt...)
	}
	return body, payloads
}

func genC13(c *Ctx) {
	i := 0
	emitRun := func(msize uint32, dotu bool, body []byte, cuts []int, base *segResult, payloads map[uint16]string, kind string) segResult {
		expect := bodyFrames(body, msize)
		chs := chunksOf(body, cuts)
		hx := make([]string, len(chs))
		for k, ch := range chs {
			hx[k] = hexOr(ch)
		}
		line := fmt.Sprintf("frames %d %s 1 %s", msize, b2s(dotu), strings.Join(hx, " "))
		if strings.HasPrefix(kind, "v-") {
			// the body renegotiates: the model threads msize and dialect through the frames
			expect = bodyFramesV(body, msize)
			line = fmt.Sprintf("framesv %s %d %s 1 %s", b2s(dotu), msize, b2s(dotu), strings.Join(hx, " "))
		}
		c.begin(line)
		r := runSeg(msize, dotu, body, cuts, expect)
		c.count("split:" + kind)
		// canonical form of the model's answer: F… D R…  ->  frames/dropped
		c.emit(line, r.obs(), r.nrep > 0)
		// oracle: same replies and payloads as the unsegmented run
		if base != nil && !base.dropped {
			if fmt.Sprint(sortedMap(r.replies)) != fmt.Sprint(sortedMap(base.replies)) || r.dropped != base.dropped {
				c.oracleFail("C13/segmentation-changes-replies/"+kind, fmt.Sprintf("cuts %v: %v dropped=%v, unsegmented: %v dropped=%v",
					cuts, sortedMap(r.replies), r.dropped, sortedMap(base.replies), base.dropped), line)
			}
		}
		if base != nil && (r.nframes != base.nframes || r.dropped != base.dropped) {
			c.oracleFail("C13/segmentation-changes-execution/"+kind, fmt.Sprintf("cuts %v: %d frames executed dropped=%v, unsegmented: %d dropped=%v",
				cuts, r.nframes, r.dropped, base.nframes, base.dropped), line)
		}
		for tag, h := range r.writes {
			if payloads[tag] != h {
				c.oracleFail("C13/payload-disturbed/"+kind, fmt.Sprintf("Twrite tag %d: implementation saw %s, sent %s (cuts %v)", tag, h, payloads[tag], cuts), line)
			}
		}
		return r
	}
	for k := 0; k < c.scale(14, 300) && !c.stop(); k++ {
		i++
		r := c.rng(i)
		msize := []uint32{64, 70, 100, 128, 257, 1024, 4096}[r.Intn(7)]
		dotu := r.Intn(2) == 0
		n := 6 + r.Intn(20)
		bad := -1
		if r.Intn(4) == 0 {
			bad = r.Intn(n)
		}
		body, payloads := genBody(r, msize, dotu, n, bad)
		if len(body) == 0 {
			continue
		}
		base := emitRun(msize, dotu, body, nil, nil, payloads, "whole")
		// every single split point (bounded for long bodies), byte-at-a-time, random multi-way
		step := 1
		if len(body) > c.scale(60, 400) {
			step = len(body)/c.scale(60, 400) + 1
		}
		for cut := 1; cut < len(body) && !c.stop(); cut += step {
			emitRun(msize, dotu, body, []int{cut}, &base, payloads, "single")
		}
		if len(body) <= 600 {
			all := make([]int, 0, len(body))
			for x := 1; x < len(body); x++ {
				all = append(all, x)
			}
			emitRun(msize, dotu, body, all, &base, payloads, "byte-at-a-time")
		}
		for m := 0; m < 6; m++ {
			var cuts []int
			for x := 0; x < 1+r.Intn(12); x++ {
				cuts = append(cuts, 1+r.Intn(len(body)))
			}
			sort.Ints(cuts)
			emitRun(msize, dotu, body, cuts, &base, payloads, "random")
		}
	}
	// a Tversion at the head of the body changes the dialect and lowers the msize: the frames behind it —
	// in the same read or not — are checked and decoded with what it negotiated
	for k := 0; k < c.scale(10, 200) && !c.stop(); k++ {
		i++
		r := c.rng(i)
		msize := []uint32{100, 128, 257, 1024}[r.Intn(4)]
		body, payloads := genBodyV(r, msize)
		base := emitRun(msize, true, body, nil, nil, payloads, "v-whole")
		step := 1
		if len(body) > c.scale(50, 300) {
			step = len(body)/c.scale(50, 300) + 1
		}
		for cut := 1; cut < len(body) && !c.stop(); cut += step {
			emitRun(msize, true, body, []int{cut}, &base, payloads, "v-single")
		}
		for m := 0; m < 4; m++ {
			var cuts []int
			for x := 0; x < 1+r.Intn(8); x++ {
				cuts = append(cuts, 1+r.Intn(len(body)))
			}
			sort.Ints(cuts)
			emitRun(msize, true, body, cuts, &base, payloads, "v-random")
		}
	}
	// bodies longer than the 8*msize receive buffer, cut densely around its end, so that a
	// partial frame meets the end of the array and the buffer is reallocated mid-frame
	for k := 0; k < c.scale(4, 60) && !c.stop(); k++ {
		i++
		r := c.rng(i)
		msize := []uint32{64, 70, 96}[r.Intn(3)]
		dotu := r.Intn(2) == 0
		body, payloads := genBody(r, msize, dotu, 40+r.Intn(20), -1)
		win := int(8 * msize)
		if len(body) < win+int(msize) {
			continue
		}
		base := emitRun(msize, dotu, body, nil, nil, payloads, "wrap-whole")
		// the set-up requests (about 75 bytes) have already advanced the first array
		for cut := win - 2*int(msize) - 90; cut < win+int(msize) && cut < len(body) && !c.stop(); cut++ {
			if cut < 1 {
				continue
			}
			emitRun(msize, dotu, body, []int{cut}, &base, payloads, "wrap-single")
		}
		for m := 0; m < 10; m++ {
			a := 1 + r.Intn(win)
			b2 := a + 1 + r.Intn(win)
			if b2 >= len(body) {
				b2 = len(body) - 1
			}
			emitRun(msize, dotu, body, []int{a, b2}, &base, payloads, "wrap-double")
		}
	}
	genC13client(c, &i)
}

func sortedMap(m map[uint16]string) []string {
	ks := make([]int, 0, len(m))
	for k := range m {
		ks = append(ks, int(k))
	}
	sort.Ints(ks)
	out := make([]string, len(ks))
	for i, k := range ks {
		out[i] = fmt.Sprintf("%d=%s", k, m[uint16(k)])
	}
	return out
}

// ---- client receive loop ----

// genC13client: K concurrent Treads on a real Clnt; the scripted peer answers them all in
// one reply stream cut at arbitrary points. Every call must get its own data.
func genC13client(c *Ctx, i *int) {
	// wrapCuts: two-write cuts around the end of the client's 8*msize receive buffer
	var wrapCuts []int
	nwrap := 0
	for k := 0; k < c.scale(60, 1500)+c.scale(420, 3000) && !c.stop(); k++ {
		*i++
		r := c.rng(*i)
		msize := []uint32{64, 100, 128, 512}[r.Intn(4)]
		K := 1 + r.Intn(8)
		wrap := k >= c.scale(60, 1500)
		if wrap {
			msize = 128
			K = 24
			if len(wrapCuts) == 0 {
				for x := 6*128 + 64; x < 9*128; x += c.scale(2, 1) {
					wrapCuts = append(wrapCuts, x)
				}
			}
			if nwrap >= len(wrapCuts) {
				break
			}
		}
		line := fmt.Sprintf("cseg %d %d seed%d", msize, K, *i)
		c.begin(line)
		a, b := net.Pipe()
		var stream []byte
		peerErr := ""
		tags := make([]uint16, 0, K)
		go func() { // scripted peer with its own frame reader
			buf, err := readFrame(b, 5*time.Second)
			if err != nil {
				return
			}
			rv := g.NewFcall(64)
			g.PackRversion(rv, msize, "9P2000")
			g.SetTag(rv, binary.LittleEndian.Uint16(buf[5:]))
			b.Write(rv.Pkt)
			for n := 0; n < K; n++ {
				buf, err := readFrame(b, 5*time.Second)
				if err != nil {
					peerErr = "peer: " + err.Error()
					return
				}
				tag := binary.LittleEndian.Uint16(buf[5:])
				off := binary.LittleEndian.Uint64(buf[11:])
				tags = append(tags, tag)
				fc := g.NewFcall(msize)
				g.PackRread(fc, cdata(off, msize, wrap))
				g.SetTag(fc, tag)
				stream = append(stream, fc.Pkt...)
			}
			var cuts []int
			if wrap {
				cuts = []int{wrapCuts[nwrap]}
				nwrap++
				for _, ch := range chunksOf(stream, cuts) {
					b.Write(ch)
				}
				return
			}
			switch r.Intn(3) {
			case 0:
				for x := 1; x < len(stream); x++ {
					cuts = append(cuts, x)
				}
			case 1:
				for x := 0; x < 1+r.Intn(10); x++ {
					cuts = append(cuts, 1+r.Intn(len(stream)))
				}
				sort.Ints(cuts)
			}
			for _, ch := range chunksOf(stream, cuts) {
				b.Write(ch)
			}
		}()
		clnt, err := g.Connect(pconn{a}, msize, false)
		bad := ""
		if err != nil {
			bad = "connect: " + err.Error()
		} else {
			var wg sync.WaitGroup
			var mu sync.Mutex
			for n := 0; n < K; n++ {
				wg.Add(1)
				go func(n int) {
					defer wg.Done()
					off := uint64(n*37 + 1)
					tc := clnt.NewFcall()
					g.PackTread(tc, 5, off, 10)
					rc, err := clnt.Rpc(tc)
					want := cdata(off, msize, wrap)
					mu.Lock()
					if err != nil {
						bad = fmt.Sprintf("call %d: %v", n, err)
					} else if !bytes.Equal(rc.Data, want) {
						bad = fmt.Sprintf("call %d (offset %d) got %d bytes of %x, want %d of %x", n, off, len(rc.Data), rc.Data[:1], len(want), want[:1])
					}
					mu.Unlock()
				}(n)
			}
			done := make(chan bool)
			go func() { wg.Wait(); close(done) }()
			select {
			case <-done:
			case <-time.After(10 * time.Second):
				bad = "calls hang"
			}
			clnt.Unmount()
		}
		a.Close()
		b.Close()
		c.count("client")
		if bad != "" || peerErr != "" {
			c.oracleFail("C13/client-parse", bad+" "+peerErr, line)
		}
		c.emit(line, "ok", true)
	}
}

// cdata is the payload the scripted peer returns for a Tread at this offset; in the wrap
// runs replies are nearly msize long so that 24 of them run through the client's buffer.
func cdata(off uint64, msize uint32, wrap bool) []byte {
	n := int(off%uint64(msize-24)) + 1
	if wrap {
		n = int(msize) - 24 - 1 - int(off%7)
	}
	return bytes.Repeat([]byte{byte(off)}, n)
}
