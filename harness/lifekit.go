package main

// Kit for the request-lifecycle properties (C03, C07, C08, C11): a connection to a real go9p
// server whose lock-protected regions are logged from inside their locks, an implementation
// whose handlers can be parked, answer late, answer twice or honour a flush, and rules that
// park the library's goroutines at its schedule points.

import (
	"encoding/binary"
	"fmt"
	"net"
	"runtime"
	"sort"
	"strings"
	"sync"
	"sync/atomic"
	"time"

	g "github.com/rminnich/go9p"
)

var (
	lifeMu             sync.RWMutex
	connectMu          sync.Mutex       // serialises connectLife; never taken by a hook
	lifePending        *lifeSess        // the session whose connection is being created (under lifeMu)
	lifeBefore         map[*g.Conn]bool // the connections that existed before it
	lifeConns          = map[*g.Conn]*lifeSess{}
	lifeOnce           sync.Once
	bFl, bWk, bRs, bSv = g.VerifReqBits()
)

type plan struct {
	gate    bool   // the handler parks until released
	async   bool   // the handler returns without answering; the answer comes from another goroutine on release
	answers int    // calls of Respond (default 1)
	honour  bool   // FlushOp calls req.Flush() on this request
	inplace bool   // a Tread is answered the way Ufs does: InitRread, fill the data window, SetRreadCount, Respond
	overlap string // answer a second time while the first answer is parked at this point of Respond
}

type lreq struct {
	rid     int
	req     *g.SrvReq
	tag     uint16
	typ     uint8
	oldtag  int // -1 unless Tflush
	plan    plan
	gatec   chan bool
	entered int64 // clock at handler entry, 0 = never
	exited  int64 // clock when the implementation's work for it (handler, or the late answer) was over
	ftype   uint8 // type of the fid at handler entry (the framework clears req.Fid once the request is answered)
	fidno   uint32
	fidobj  *g.SrvFid // the fid object the request was handed
	answer  string
	nans    int
	mu      sync.Mutex
}

type wframe struct {
	raw  []byte
	tag  uint16
	typ  uint8
	at   int64 // clock when the harness read it
	took int   // rid of the send.take that produced it (-1 unknown)
}

type park struct {
	point   string
	rid     int
	fid     int64 // for the points of the fid table: the fid number (rid is -1)
	nth     int   // which occurrence (0 = first)
	seen    int
	reached chan bool
	release chan bool
	used    bool
}

type lifeSess struct {
	srv        *g.Srv
	c          net.Conn
	conn       *g.Conn
	ops        *lifeOps
	cap        int
	mu         sync.Mutex
	toks       []string
	rids       map[*g.SrvReq]int
	reqs       []*lreq
	plans      map[int]plan // by position in the order of arrival
	relset     map[int]bool // released before they arrived
	parks      []*park
	takes      []int
	clock      int64
	fr         []wframe
	frc        chan int
	rdone      chan bool
	closed     int32 // ConnClosed calls
	destroyed  []uint32
	fobj       map[*g.SrvFid]int // fid objects in the order FidNew created them
	ftoks      []string          // the regions of the fid table, in the order they ran
	frel       map[*g.SrvFid]int // "the next DecRef of this fid releases the table's reference"
	fnd        map[int]int       // FidDestroy calls the file server received, by object
	inUse      []string          // FidDestroy calls made while a request on that fid was still inside the implementation
	closeEnd   chan bool         // closed when Conn.close has returned
	closeEnded bool
	perturb    func(point string)
	logClosed  bool
	paused     int32 // the client has stopped reading replies
}

func (s *lifeSess) tick() int64 { return atomic.AddInt64(&s.clock, 1) }

func (s *lifeSess) tok(format string, a ...interface{}) {
	s.toks = append(s.toks, fmt.Sprintf(format, a...))
}

func (s *lifeSess) ftok(format string, a ...interface{}) {
	s.ftoks = append(s.ftoks, fmt.Sprintf(format, a...))
}

// fidOf names a fid object by its position in the order of creation ("-": nil, "?": not seen created).
func (s *lifeSess) fidOf(x interface{}) string {
	f, ok := x.(*g.SrvFid)
	if !ok || f == nil {
		return "-"
	}
	if id, ok := s.fobj[f]; ok {
		return fmt.Sprint(id)
	}
	return "?"
}

func bitsStr(st int) string {
	f := func(b int) string {
		if st&b != 0 {
			return "1"
		}
		return "0"
	}
	return f(bFl) + f(bWk) + f(bRs) + f(bSv)
}

func (s *lifeSess) ridOf(x interface{}) (int, bool) {
	r, ok := x.(*g.SrvReq)
	if !ok || r == nil {
		return -1, false
	}
	id, ok := s.rids[r]
	return id, ok
}

func optRid(id int, ok bool) string {
	if !ok {
		return "-"
	}
	return fmt.Sprint(id)
}

func lifeHook(point string, args []interface{}) {
	if len(args) == 0 {
		return
	}
	var cn *g.Conn
	switch a := args[0].(type) {
	case *g.SrvReq:
		cn = a.Conn
	case *g.Conn:
		cn = a
	default:
		return
	}
	lifeMu.RLock()
	s := lifeConns[cn]
	pend, bef := lifePending, lifeBefore
	lifeMu.RUnlock()
	if s == nil && pend != nil && cn.Srv == pend.srv && !bef[cn] {
		// the connection connectLife is creating right now: adopt it at its first logged point
		lifeMu.Lock()
		if s = lifeConns[cn]; s == nil && lifePending == pend {
			lifeConns[cn] = pend
			pend.conn = cn
			s = pend
		}
		lifeMu.Unlock()
	}
	if s == nil {
		return
	}
	if point == "close.end" {
		s.mu.Lock()
		if !s.closeEnded {
			s.closeEnded = true
			close(s.closeEnd)
		}
		s.mu.Unlock()
		return
	}
	if strings.HasPrefix(point, "@") || point == "send.take" || point == "close.begin" || point == "close.done" ||
		point == "fid.destroy.call" {
		s.mu.Lock()
		switch point {
		case "@fid.new":
			f := args[1].(*g.SrvFid)
			id := len(s.fobj)
			s.fobj[f] = id
			s.ftok("N:%d:%d", g.VerifFidNo(f), id)
		case "@fid.lookup":
			s.ftok("L:%d:%s", args[1].(uint32), s.fidOf(args[2]))
		case "@fid.get":
			s.ftok("G:%s:%s:%d", s.fidOf(args[1]), b2s(args[2].(bool)), args[3].(int))
		case "@fid.retain":
			s.ftok("R:%s:%s:%d", s.fidOf(args[1]), b2s(args[2].(bool)), args[3].(int))
		case "@fid.inc":
			s.ftok("I:%s:%d", s.fidOf(args[1]), args[2].(int))
		case "@fid.release":
			s.ftok("T:%s:%s", s.fidOf(args[1]), b2s(args[2].(bool)))
		case "@fid.dec":
			s.ftok("D:%s:%d", s.fidOf(args[1]), args[2].(int))
		case "@fid.unpool":
			s.ftok("U:%s:%s", s.fidOf(args[1]), b2s(args[2].(bool)))
		case "@fid.destroy":
			s.ftok("X:%s:%s", s.fidOf(args[1]), b2s(args[2].(bool)))
		case "fid.destroy.call":
			s.ftok("C:%s", s.fidOf(args[1]))
		case "close.done":
			s.ftok("K")
		case "@close.snapshot":
			var ids []string
			for _, f := range args[1].([]*g.SrvFid) {
				ids = append(ids, s.fidOf(f))
			}
			if len(ids) == 0 {
				ids = []string{"-"}
			}
			s.ftok("S:%s", strings.Join(ids, ","))
		case "@close.visit":
			s.ftok("V:%s:%s:%s", s.fidOf(args[1]), b2s(args[2].(bool)), b2s(args[3].(bool)))
		case "@recv":
			r := args[0].(*g.SrvReq)
			id := len(s.reqs)
			s.rids[r] = id
			q := &lreq{rid: id, req: r, tag: r.Tc.Tag, typ: r.Tc.Type, oldtag: -1, gatec: make(chan bool)}
			if p, ok := s.plans[id]; ok {
				q.plan = p
			}
			if s.relset[id] {
				close(q.gatec)
			}
			ot := "-"
			if r.Tc.Type == g.Tflush {
				q.oldtag = int(r.Tc.Oldtag)
				ot = fmt.Sprint(r.Tc.Oldtag)
			}
			s.reqs = append(s.reqs, q)
			s.tok("R:%d:%s:%s", r.Tc.Tag, ot, b2s(args[1].(bool)))
		case "@check":
			id, _ := s.ridOf(args[0])
			s.tok("C:%d:%s", id, b2s(args[1].(bool)))
		case "@mark":
			id, _ := s.ridOf(args[0])
			s.tok("M:%d:%s", id, bitsStr(args[1].(int)))
		case "@unlink":
			id, _ := s.ridOf(args[0])
			nx, nok := s.ridOf(args[1])
			fq, fok := s.ridOf(args[2])
			s.tok("U:%d:%s:%s", id, optRid(nx, nok), optRid(fq, fok))
		case "@implflush":
			id, _ := s.ridOf(args[0])
			s.tok("X:%d", id)
		case "@flush.lookup":
			id, _ := s.ridOf(args[0])
			t, tok := s.ridOf(args[1])
			s.tok("L:%d:%s", id, optRid(t, tok))
		case "@flush.mark":
			id, _ := s.ridOf(args[0])
			t, _ := s.ridOf(args[1])
			s.tok("F:%d:%d:%s", id, t, bitsStr(args[2].(int)))
		case "@end":
			id, _ := s.ridOf(args[0])
			s.tok("E:%d:%s", id, bitsStr(args[1].(int)))
		case "send.take":
			id, _ := s.ridOf(args[0])
			s.tok("T:%d", id)
			if !s.logClosed {
				s.takes = append(s.takes, id)
			}
		case "close.begin":
			s.tok("K")
			s.logClosed = true
		}
		s.mu.Unlock()
		if !strings.HasPrefix(point, "@") {
			s.parkAt(point, args)
		}
		return
	}
	s.parkAt(point, args)
}

// parkAt blocks the calling goroutine if a rule asks for it (never called with a lock of the library held).
func (s *lifeSess) parkAt(point string, args []interface{}) {
	if p := s.perturb; p != nil {
		p(point)
	}
	if _, isConn := args[0].(*g.Conn); isConn && len(args) > 1 {
		// a point of the fid table: parks are keyed by fid number
		f, ok := args[1].(*g.SrvFid)
		if !ok || f == nil {
			return
		}
		no := int64(g.VerifFidNo(f))
		s.mu.Lock()
		var hit *park
		for _, p := range s.parks {
			if !p.used && p.rid == -1 && p.point == point && p.fid == no {
				if p.seen == p.nth {
					p.used = true
					hit = p
				}
				p.seen++
				break
			}
		}
		s.mu.Unlock()
		if hit != nil {
			close(hit.reached)
			select {
			case <-hit.release:
			case <-time.After(20 * time.Second):
			}
		}
		return
	}
	r, ok := args[0].(*g.SrvReq)
	if !ok {
		return
	}
	s.mu.Lock()
	id, ok := s.rids[r]
	var hit *park
	if ok {
		for _, p := range s.parks {
			if !p.used && p.point == point && p.rid == id {
				if p.seen == p.nth {
					p.used = true
					hit = p
				}
				p.seen++
				break
			}
		}
	}
	s.mu.Unlock()
	if hit != nil {
		close(hit.reached)
		select {
		case <-hit.release:
		case <-time.After(20 * time.Second):
		}
	}
}

// parkRule parks the goroutine handling request rid (in arrival order) at its nth passage of point.
func (s *lifeSess) parkRule(point string, rid, nth int) *park {
	p := &park{point: point, rid: rid, nth: nth, reached: make(chan bool), release: make(chan bool)}
	s.mu.Lock()
	s.parks = append(s.parks, p)
	s.mu.Unlock()
	return p
}

// parkFidRule parks the goroutine that reaches a point of the fid table for fid number no, the nth time.
func (s *lifeSess) parkFidRule(point string, no uint32, nth int) *park {
	p := &park{point: point, rid: -1, fid: int64(no), nth: nth, reached: make(chan bool), release: make(chan bool)}
	s.mu.Lock()
	s.parks = append(s.parks, p)
	s.mu.Unlock()
	return p
}

func waitc(ch chan bool, d time.Duration) bool {
	select {
	case <-ch:
		return true
	case <-time.After(d):
		return false
	}
}

// ---- the implementation ----

type lifeOps struct {
	flushOp bool
}

type lifeOpsFlush struct{ *lifeOps }

func sessOf(r *g.SrvReq) *lifeSess {
	lifeMu.RLock()
	defer lifeMu.RUnlock()
	return lifeConns[r.Conn]
}

func (o lifeOpsFlush) Flush(r *g.SrvReq) {
	s := sessOf(r)
	if s == nil {
		return
	}
	s.mu.Lock()
	id, ok := s.rids[r]
	var q *lreq
	if ok {
		q = s.reqs[id]
	}
	s.mu.Unlock()
	// an implementation cancels only what it is executing
	if q != nil && q.plan.honour && atomic.LoadInt64(&q.entered) != 0 {
		r.Flush()
	}
}

func (o *lifeOps) answerText(q *lreq) string {
	switch q.typ {
	case g.Tread:
		return fmt.Sprintf("Rread:data-%d-%d", q.rid, q.tag)
	case g.Tstat:
		return fmt.Sprintf("Rstat:n%d", q.rid)
	case g.Twalk:
		return fmt.Sprintf("Rwalk:%d", len(q.req.Tc.Wname))
	case g.Topen:
		return fmt.Sprintf("Ropen:%d", q.rid)
	case g.Tcreate:
		return fmt.Sprintf("Rcreate:%d", q.rid)
	case g.Twrite:
		return fmt.Sprintf("Rwrite:%d", len(q.req.Tc.Data))
	case g.Tclunk:
		return "Rclunk"
	case g.Tremove:
		return "Rremove"
	case g.Twstat:
		return "Rwstat"
	case g.Tattach:
		return "Rattach"
	}
	return "?"
}

func (o *lifeOps) respond(s *lifeSess, q *lreq) {
	r := q.req
	s.mu.Lock()
	s.tok("A:%d", q.rid)
	s.mu.Unlock()
	q.mu.Lock()
	q.nans++
	late := q.nans > 1
	q.mu.Unlock()
	if late && q.rid%2 == 0 {
		// an extra answer that reports a failure: it must find the request answered and touch nothing
		r.RespondError(&g.Error{Err: "lifeOps: late failure", Errornum: 5})
		return
	}
	switch q.typ {
	case g.Tread:
		data := []byte(fmt.Sprintf("data-%d-%d", q.rid, q.tag))
		if q.plan.inplace && r.Rc != nil {
			// writes into the reply buffer without asking whether the request has been answered
			if g.InitRread(r.Rc, uint32(len(data))) == nil {
				copy(r.Rc.Data, data)
				g.SetRreadCount(r.Rc, uint32(len(data)))
				r.Respond()
			}
		} else {
			r.RespondRread(data)
		}
	case g.Tstat:
		r.RespondRstat(&g.Dir{Name: fmt.Sprintf("n%d", q.rid), Uid: "u", Gid: "g", Muid: "m"})
	case g.Twalk:
		qs := make([]g.Qid, len(r.Tc.Wname))
		for i := range qs {
			qs[i] = g.Qid{Type: g.QTDIR, Path: uint64(100 + i)}
		}
		r.RespondRwalk(qs)
	case g.Topen:
		r.RespondRopen(&g.Qid{Type: q.ftype, Path: uint64(q.rid)}, 0)
	case g.Tcreate:
		r.RespondRcreate(&g.Qid{Path: uint64(q.rid)}, 0)
	case g.Twrite:
		r.RespondRwrite(uint32(len(r.Tc.Data)))
	case g.Tclunk:
		r.RespondRclunk()
	case g.Tremove:
		r.RespondRremove()
	case g.Twstat:
		r.RespondRwstat()
	case g.Tattach:
		r.RespondRattach(&g.Qid{Type: g.QTDIR, Path: 1})
	default:
		r.RespondError(&g.Error{Err: "lifeOps: unexpected", Errornum: 5})
	}
}

func (o *lifeOps) do(r *g.SrvReq) {
	s := sessOf(r)
	if s == nil {
		r.RespondError(&g.Error{Err: "lifeOps: unknown connection", Errornum: 5})
		return
	}
	s.mu.Lock()
	id, ok := s.rids[r]
	if !ok {
		s.mu.Unlock()
		r.RespondError(&g.Error{Err: "lifeOps: unknown request", Errornum: 5})
		return
	}
	q := s.reqs[id]
	s.tok("I:%d", id)
	s.mu.Unlock()
	if r.Fid != nil {
		q.ftype = r.Fid.Type
		q.fidno = g.VerifFidNo(r.Fid)
		q.fidobj = r.Fid
	}
	atomic.StoreInt64(&q.entered, s.tick())
	q.mu.Lock()
	q.answer = o.answerText(q)
	q.mu.Unlock()
	n := q.plan.answers
	if n == 0 {
		n = 1
	}
	work := func() {
		if q.plan.overlap != "" {
			p := s.parkRule(q.plan.overlap, q.rid, 0)
			first := make(chan bool)
			go func() { o.respond(s, q); close(first) }()
			if waitc(p.reached, 2*time.Second) {
				o.respond(s, q) // the extra answer arrives while the first is still inside Respond
			}
			select {
			case <-p.release:
			default:
				close(p.release)
			}
			<-first
		} else {
			for i := 0; i < n; i++ {
				o.respond(s, q)
			}
		}
		atomic.StoreInt64(&q.exited, s.tick())
	}
	if q.plan.async {
		go func() {
			<-q.gatec
			work()
		}()
		return
	}
	if q.plan.gate {
		<-q.gatec
	}
	work()
}

func (o *lifeOps) Attach(r *g.SrvReq) { o.do(r) }
func (o *lifeOps) Walk(r *g.SrvReq)   { o.do(r) }
func (o *lifeOps) Open(r *g.SrvReq)   { o.do(r) }
func (o *lifeOps) Create(r *g.SrvReq) { o.do(r) }
func (o *lifeOps) Read(r *g.SrvReq)   { o.do(r) }
func (o *lifeOps) Write(r *g.SrvReq)  { o.do(r) }
func (o *lifeOps) Clunk(r *g.SrvReq)  { o.do(r) }
func (o *lifeOps) Remove(r *g.SrvReq) { o.do(r) }
func (o *lifeOps) Stat(r *g.SrvReq)   { o.do(r) }
func (o *lifeOps) Wstat(r *g.SrvReq)  { o.do(r) }
func (o *lifeOps) FidDestroy(f *g.SrvFid) {
	lifeMu.RLock()
	s := lifeConns[f.Fconn]
	lifeMu.RUnlock()
	if s == nil {
		return
	}
	s.mu.Lock()
	s.destroyed = append(s.destroyed, g.VerifFidNo(f))
	// nobody may still be working on it: a request naming this fid that the implementation was handed
	// and has not begun to answer
	for _, q := range s.reqs {
		if atomic.LoadInt64(&q.entered) == 0 || atomic.LoadInt64(&q.exited) != 0 || q.typ == g.Tattach || q.typ == g.Tauth || q.typ == g.Tflush || q.typ == g.Tversion {
			continue
		}
		q.mu.Lock()
		started := q.nans > 0
		q.mu.Unlock()
		if !started && q.fidno == g.VerifFidNo(f) && q.fidobj == f {
			s.inUse = append(s.inUse, fmt.Sprintf("fid %d reported destroyed while request %d (type %d, tag %d) is still inside the implementation", g.VerifFidNo(f), q.rid, q.typ, q.tag))
		}
	}
	if id, ok := s.fobj[f]; ok {
		s.fnd[id]++
	} else {
		s.fnd[-1]++
	}
	s.mu.Unlock()
}
func (o *lifeOps) ConnOpened(*g.Conn) {}
func (o *lifeOps) ConnClosed(cn *g.Conn) {
	lifeMu.RLock()
	s := lifeConns[cn]
	lifeMu.RUnlock()
	if s != nil {
		atomic.AddInt32(&s.closed, 1)
	}
}

// release opens the gate of request rid (parked or asynchronous).
func (s *lifeSess) release(rid int) {
	s.mu.Lock()
	defer s.mu.Unlock()
	if s.relset[rid] {
		return
	}
	s.relset[rid] = true
	if rid < len(s.reqs) {
		close(s.reqs[rid].gatec)
	}
}

// ---- the session ----

func newLifeSrv(msize uint32, maxpend int, flushOp bool) (*g.Srv, *lifeOps) {
	lifeOnce.Do(func() { subscribe(lifeHook) })
	o := &lifeOps{flushOp: flushOp}
	srv := &g.Srv{Msize: msize, Dotu: false, Maxpend: maxpend, Log: sharedLog}
	var ops interface{} = o
	if flushOp {
		ops = lifeOpsFlush{o}
	}
	if !srv.Start(ops) {
		panic("Srv.Start refused lifeOps")
	}
	return srv, o
}

// newLifeSess connects a client to srv (whose implementation must be the session's own when
// plans or parks are used; extra sessions on the same server share the implementation of the first).
func newLifeSess(msize uint32, maxpend int, flushOp bool) *lifeSess {
	srv, o := newLifeSrv(msize, maxpend, flushOp)
	return connectLife(srv, o, maxpend)
}

// connectLife opens one more connection to srv.
func connectLife(srv *g.Srv, o *lifeOps, maxpend int) *lifeSess {
	s := &lifeSess{srv: srv, ops: o, cap: maxpend, rids: map[*g.SrvReq]int{}, plans: map[int]plan{}, relset: map[int]bool{},
		fobj: map[*g.SrvFid]int{}, fnd: map[int]int{}, closeEnd: make(chan bool),
		frc: make(chan int, 4096), rdone: make(chan bool)}
	a, b := net.Pipe()
	s.c = b
	// The new connection must be known before its receive loop logs anything, but no harness lock
	// that a logging point takes may be held across a call into the library (a point is logged
	// with the connection's lock held, and Process takes the server's lock before the
	// connection's): connects are serialised by connectMu, which no hook takes, and the hook
	// itself adopts the one connection of this server that did not exist before.
	connectMu.Lock()
	before := map[*g.Conn]bool{}
	for _, cn := range g.VerifConns(srv) {
		before[cn] = true
	}
	lifeMu.Lock()
	lifePending, lifeBefore = s, before
	lifeMu.Unlock()
	srv.NewConn(pconn{a})
	conns := g.VerifConns(srv)
	lifeMu.Lock()
	for _, cn := range conns {
		if !before[cn] && lifeConns[cn] == nil {
			s.conn = cn
			lifeConns[cn] = s
		}
	}
	lifePending, lifeBefore = nil, nil
	lifeMu.Unlock()
	connectMu.Unlock()
	go s.reader()
	return s
}

func (s *lifeSess) reader() {
	defer close(s.rdone)
	for {
		for atomic.LoadInt32(&s.paused) != 0 {
			time.Sleep(200 * time.Microsecond)
		}
		buf, err := readFrame(s.c, time.Hour)
		if err != nil {
			return
		}
		f := wframe{raw: buf, typ: buf[4], tag: binary.LittleEndian.Uint16(buf[5:]), at: s.tick(), took: -1}
		s.mu.Lock()
		s.fr = append(s.fr, f)
		n := len(s.fr)
		s.mu.Unlock()
		select {
		case s.frc <- n:
		default:
		}
	}
}

func (s *lifeSess) nframes() int {
	s.mu.Lock()
	defer s.mu.Unlock()
	return len(s.fr)
}

// waitFrames waits until n frames have arrived.
func (s *lifeSess) waitFrames(n int, d time.Duration) bool {
	dl := time.Now().Add(d)
	for s.nframes() < n {
		if time.Now().After(dl) {
			return false
		}
		select {
		case <-s.frc:
		case <-time.After(2 * time.Millisecond):
		}
	}
	return true
}

// quiet waits until no frame arrived for d.
func (s *lifeSess) quiet(d time.Duration) {
	n := s.nframes()
	for {
		time.Sleep(d)
		m := s.nframes()
		if m == n {
			return
		}
		n = m
	}
}

func (s *lifeSess) send(tag uint16, pack func(fc *g.Fcall) error) []byte {
	fc := g.NewFcall(8192)
	if err := pack(fc); err != nil {
		panic(err)
	}
	g.SetTag(fc, tag)
	return append([]byte(nil), fc.Pkt...)
}

func (s *lifeSess) write(frames ...[]byte) error {
	var all []byte
	for _, f := range frames {
		all = append(all, f...)
	}
	s.c.SetWriteDeadline(time.Now().Add(10 * time.Second))
	_, err := s.c.Write(all)
	return err
}

// rpc sends one request and waits for the next frame carrying its tag.
func (s *lifeSess) rpc(tag uint16, pack func(fc *g.Fcall) error) *wframe {
	n := s.nframes()
	if err := s.write(s.send(tag, pack)); err != nil {
		return nil
	}
	dl := time.Now().Add(10 * time.Second)
	for time.Now().Before(dl) {
		s.mu.Lock()
		for i := n; i < len(s.fr); i++ {
			if s.fr[i].tag == tag {
				f := s.fr[i]
				s.mu.Unlock()
				return &f
			}
		}
		s.mu.Unlock()
		select {
		case <-s.frc:
		case <-time.After(time.Millisecond):
		}
	}
	return nil
}

func (s *lifeSess) setup(nfids int) bool {
	if f := s.rpc(g.NOTAG, func(fc *g.Fcall) error { return g.PackTversion(fc, 8192, "9P2000") }); f == nil || f.typ != g.Rversion {
		return false
	}
	if f := s.rpc(1, func(fc *g.Fcall) error { return g.PackTattach(fc, 0, g.NOFID, "u", "", 0, false) }); f == nil || f.typ != g.Rattach {
		return false
	}
	for i := 1; i <= nfids; i++ {
		fid := uint32(i)
		if f := s.rpc(1, func(fc *g.Fcall) error { return g.PackTwalk(fc, 0, fid, nil) }); f == nil || f.typ != g.Rwalk {
			return false
		}
	}
	return true
}

func (s *lifeSess) end() {
	s.c.Close()
	lifeMu.Lock()
	delete(lifeConns, s.conn)
	lifeMu.Unlock()
}

// snapshot of the log
func (s *lifeSess) logLine() string {
	s.mu.Lock()
	defer s.mu.Unlock()
	return fmt.Sprintf("life %d %s", s.cap, strings.Join(s.toks, " "))
}

// the regions of the fid table for the acceptor of G9.FidLife; ended: every goroutine of the
// connection is gone, so the model's end state must be quiescent with every fid destroyed once
func (s *lifeSess) fidLine(ended bool) string {
	s.mu.Lock()
	defer s.mu.Unlock()
	e := "-"
	if ended {
		e = "q"
	}
	return fmt.Sprintf("fidlife %s %s", e, strings.Join(s.ftoks, " "))
}

// what the file server saw: FidDestroy calls per fid object
func (s *lifeSess) fidObs() string {
	s.mu.Lock()
	defer s.mu.Unlock()
	nd := make([]string, len(s.fobj))
	for i := range nd {
		nd[i] = fmt.Sprint(s.fnd[i])
	}
	x := ""
	if s.fnd[-1] > 0 {
		x = fmt.Sprintf(" unknown=%d", s.fnd[-1])
	}
	l := "~"
	if len(nd) > 0 {
		l = strings.Join(nd, ",")
	}
	return fmt.Sprintf("ok n=%d nd=%s%s", len(s.fobj), l, x)
}

func (s *lifeSess) modelObs() string {
	s.mu.Lock()
	defer s.mu.Unlock()
	w := make([]string, 0, len(s.takes))
	for _, t := range s.takes {
		w = append(w, fmt.Sprint(t))
	}
	ws := "~"
	if len(w) > 0 {
		ws = strings.Join(w, ",")
	}
	return fmt.Sprintf("ok n=%d wire=%s", len(s.reqs), ws)
}

// goroutines of the library that belong to connections (census for C11)
func libGoroutines() map[string]int {
	buf := make([]byte, 1<<20)
	n := runtime.Stack(buf, true)
	out := map[string]int{}
	for _, gr := range strings.Split(string(buf[:n]), "\n\n") {
		for _, fn := range []string{"go9p.(*Conn).recv", "go9p.(*Conn).send", "go9p.(*SrvReq).process", "go9p.(*SrvReq).Respond"} {
			if strings.Contains(gr, fn+"(") {
				out[fn]++
				break
			}
		}
	}
	return out
}

func showCensus(m map[string]int) string {
	ks := make([]string, 0, len(m))
	for k := range m {
		ks = append(ks, k)
	}
	sort.Strings(ks)
	p := []string{}
	for _, k := range ks {
		p = append(p, fmt.Sprintf("%s=%d", strings.TrimPrefix(k, "go9p."), m[k]))
	}
	return strings.Join(p, " ")
}
