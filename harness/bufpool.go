package main

// The reply buffers the server hands its requests (G9.BufPool): every request of every connection is
// observed in the receive loop, when it has been given its reply Fcall and before it is executed;
// the observations of one connection are one `bufsess` line, which the Lean acceptor judges.

import (
	"fmt"
	"strings"
	"sync"

	g "github.com/rminnich/go9p"
)

type bufWatch struct {
	mu    sync.Mutex
	toks  map[*g.Conn][]string
	order []*g.Conn
	off   map[*g.Conn]bool
	unsub func()
}

func startBufWatch() *bufWatch {
	w := &bufWatch{toks: map[*g.Conn][]string{}, off: map[*g.Conn]bool{}}
	w.unsub = subscribe(func(point string, args []interface{}) {
		if point != "@recv" || len(args) < 2 {
			return
		}
		req, ok := args[0].(*g.SrvReq)
		if !ok || req.Rc == nil || req.Tc == nil || req.Conn == nil {
			return
		}
		v := "-"
		if req.Tc.Type == g.Tversion {
			v = fmt.Sprint(req.Tc.Msize)
		}
		tok := fmt.Sprintf("R:%d:%d:%s", len(req.Rc.Buf), req.Conn.Msize, v)
		w.mu.Lock()
		if _, seen := w.toks[req.Conn]; !seen {
			w.order = append(w.order, req.Conn)
		}
		if !w.off[req.Conn] {
			w.toks[req.Conn] = append(w.toks[req.Conn], tok)
		}
		// a Tversion under a tag that is still outstanding waits behind that request and takes effect
		// at a moment the receive loop does not see: the observations of this connection end here
		if process, ok := args[1].(bool); req.Tc.Type == g.Tversion && ok && !process {
			w.off[req.Conn] = true
		}
		w.mu.Unlock()
	})
	return w
}

// lines ends the watch and returns one `bufsess` line per connection (long sessions in pieces of 400
// requests: the first observation of a piece tells the acceptor the msize to start from).
func (w *bufWatch) lines() []string {
	w.unsub()
	w.mu.Lock()
	defer w.mu.Unlock()
	var out []string
	for _, cn := range w.order {
		t := w.toks[cn]
		for len(t) > 0 {
			n := len(t)
			if n > 400 {
				n = 400
			}
			out = append(out, "bufsess "+strings.Join(t[:n], " "))
			t = t[n:]
		}
	}
	return out
}

func (w *bufWatch) emit(c *Ctx) {
	for _, l := range w.lines() {
		c.count("bufsess")
		if strings.Count(l, ":-") < strings.Count(l, "R:") {
			c.count("bufsess:with-tversion")
		}
		c.emit(l, "accept", true)
	}
}
