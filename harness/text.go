package main

// Text forms of the line protocol (mirror of lean/G9/Driver/Text.lean).

import (
	"encoding/hex"
	"fmt"
	"strconv"
	"strings"

	g "github.com/rminnich/go9p"
)

func hexOr(b []byte) string {
	if len(b) == 0 {
		return "-"
	}
	return hex.EncodeToString(b)
}

func unhex(s string) ([]byte, error) {
	if s == "-" {
		return []byte{}, nil
	}
	return hex.DecodeString(s)
}

func mustHex(s string) []byte {
	b, err := unhex(s)
	if err != nil {
		panic("bad hex in line: " + err.Error())
	}
	return b
}

func atou(s string, bits int) uint64 {
	v, err := strconv.ParseUint(s, 10, bits)
	if err != nil {
		panic("bad integer in line: " + s)
	}
	return v
}

func showList(xs []string) string {
	if len(xs) == 0 {
		return "~"
	}
	return strings.Join(xs, ",")
}

func parseList(s string) []string {
	if s == "~" {
		return nil
	}
	return strings.Split(s, ",")
}

func showQid(q g.Qid) string { return fmt.Sprintf("%d:%d:%d", q.Type, q.Version, q.Path) }

func parseQid(s string) g.Qid {
	p := strings.Split(s, ":")
	if len(p) != 3 {
		panic("bad qid " + s)
	}
	return g.Qid{Type: uint8(atou(p[0], 8)), Version: uint32(atou(p[1], 32)), Path: atou(p[2], 64)}
}

func showStat(d *g.Dir) string {
	return fmt.Sprintf("%d %d %s %d %d %d %d %s %s %s %s %s %d %d %d", d.Type, d.Dev, showQid(d.Qid), d.Mode,
		d.Atime, d.Mtime, d.Length, hexOr([]byte(d.Name)), hexOr([]byte(d.Uid)), hexOr([]byte(d.Gid)),
		hexOr([]byte(d.Muid)), hexOr([]byte(d.Ext)), d.Uidnum, d.Gidnum, d.Muidnum)
}

func parseStat(t []string) (*g.Dir, []string) {
	if len(t) < 15 {
		panic("short stat")
	}
	d := &g.Dir{}
	d.Type = uint16(atou(t[0], 16))
	d.Dev = uint32(atou(t[1], 32))
	d.Qid = parseQid(t[2])
	d.Mode = uint32(atou(t[3], 32))
	d.Atime = uint32(atou(t[4], 32))
	d.Mtime = uint32(atou(t[5], 32))
	d.Length = atou(t[6], 64)
	d.Name = string(mustHex(t[7]))
	d.Uid = string(mustHex(t[8]))
	d.Gid = string(mustHex(t[9]))
	d.Muid = string(mustHex(t[10]))
	d.Ext = string(mustHex(t[11]))
	d.Uidnum = uint32(atou(t[12], 32))
	d.Gidnum = uint32(atou(t[13], 32))
	d.Muidnum = uint32(atou(t[14], 32))
	return d, t[15:]
}

// showFcall prints the fields of a decoded Fcall that belong to its type, in the
// positional form of Text.showMsg.
func showFcall(fc *g.Fcall) string {
	hs := func(s string) string { return hexOr([]byte(s)) }
	switch fc.Type {
	case g.Tversion:
		return fmt.Sprintf("Tversion %d %s", fc.Msize, hs(fc.Version))
	case g.Rversion:
		return fmt.Sprintf("Rversion %d %s", fc.Msize, hs(fc.Version))
	case g.Tauth:
		return fmt.Sprintf("Tauth %d %s %s %d", fc.Afid, hs(fc.Uname), hs(fc.Aname), fc.Unamenum)
	case g.Rauth:
		return "Rauth " + showQid(fc.Qid)
	case g.Tattach:
		return fmt.Sprintf("Tattach %d %d %s %s %d", fc.Fid, fc.Afid, hs(fc.Uname), hs(fc.Aname), fc.Unamenum)
	case g.Rattach:
		return "Rattach " + showQid(fc.Qid)
	case g.Rerror:
		return fmt.Sprintf("Rerror %s %d", hs(fc.Error), fc.Errornum)
	case g.Tflush:
		return fmt.Sprintf("Tflush %d", fc.Oldtag)
	case g.Rflush:
		return "Rflush"
	case g.Twalk:
		ns := make([]string, len(fc.Wname))
		for i, n := range fc.Wname {
			ns[i] = hs(n)
		}
		return fmt.Sprintf("Twalk %d %d %s", fc.Fid, fc.Newfid, showList(ns))
	case g.Rwalk:
		qs := make([]string, len(fc.Wqid))
		for i, q := range fc.Wqid {
			qs[i] = showQid(q)
		}
		return "Rwalk " + showList(qs)
	case g.Topen:
		return fmt.Sprintf("Topen %d %d", fc.Fid, fc.Mode)
	case g.Ropen:
		return fmt.Sprintf("Ropen %s %d", showQid(fc.Qid), fc.Iounit)
	case g.Tcreate:
		return fmt.Sprintf("Tcreate %d %s %d %d %s", fc.Fid, hs(fc.Name), fc.Perm, fc.Mode, hs(fc.Ext))
	case g.Rcreate:
		return fmt.Sprintf("Rcreate %s %d", showQid(fc.Qid), fc.Iounit)
	case g.Tread:
		return fmt.Sprintf("Tread %d %d %d", fc.Fid, fc.Offset, fc.Count)
	case g.Rread:
		return "Rread " + hexOr(fc.Data)
	case g.Twrite:
		return fmt.Sprintf("Twrite %d %d %d %s", fc.Fid, fc.Offset, fc.Count, hexOr(fc.Data))
	case g.Rwrite:
		return fmt.Sprintf("Rwrite %d", fc.Count)
	case g.Tclunk:
		return fmt.Sprintf("Tclunk %d", fc.Fid)
	case g.Rclunk:
		return "Rclunk"
	case g.Tremove:
		return fmt.Sprintf("Tremove %d", fc.Fid)
	case g.Rremove:
		return "Rremove"
	case g.Tstat:
		return fmt.Sprintf("Tstat %d", fc.Fid)
	case g.Rstat:
		return "Rstat " + showStat(&fc.Dir)
	case g.Twstat:
		return fmt.Sprintf("Twstat %d %s", fc.Fid, showStat(&fc.Dir))
	case g.Rwstat:
		return "Rwstat"
	}
	return fmt.Sprintf("type%d", fc.Type)
}

// packMsg calls the real constructor named by the text form on fc.
func packMsg(fc *g.Fcall, dotu bool, t []string) error {
	u32 := func(s string) uint32 { return uint32(atou(s, 32)) }
	str := func(s string) string { return string(mustHex(s)) }
	switch t[0] {
	case "Tversion":
		return g.PackTversion(fc, u32(t[1]), str(t[2]))
	case "Rversion":
		return g.PackRversion(fc, u32(t[1]), str(t[2]))
	case "Tauth":
		return g.PackTauth(fc, u32(t[1]), str(t[2]), str(t[3]), u32(t[4]), dotu)
	case "Rauth":
		q := parseQid(t[1])
		return g.PackRauth(fc, &q)
	case "Tattach":
		return g.PackTattach(fc, u32(t[1]), u32(t[2]), str(t[3]), str(t[4]), u32(t[5]), dotu)
	case "Rattach":
		q := parseQid(t[1])
		return g.PackRattach(fc, &q)
	case "Rerror":
		return g.PackRerror(fc, str(t[1]), u32(t[2]), dotu)
	case "Tflush":
		return g.PackTflush(fc, uint16(atou(t[1], 16)))
	case "Rflush":
		return g.PackRflush(fc)
	case "Twalk":
		var ns []string
		for _, n := range parseList(t[3]) {
			ns = append(ns, str(n))
		}
		return g.PackTwalk(fc, u32(t[1]), u32(t[2]), ns)
	case "Rwalk":
		var qs []g.Qid
		for _, q := range parseList(t[1]) {
			qs = append(qs, parseQid(q))
		}
		return g.PackRwalk(fc, qs)
	case "Topen":
		return g.PackTopen(fc, u32(t[1]), uint8(atou(t[2], 8)))
	case "Ropen":
		q := parseQid(t[1])
		return g.PackRopen(fc, &q, u32(t[2]))
	case "Tcreate":
		return g.PackTcreate(fc, u32(t[1]), str(t[2]), u32(t[3]), uint8(atou(t[4], 8)), str(t[5]), dotu)
	case "Rcreate":
		q := parseQid(t[1])
		return g.PackRcreate(fc, &q, u32(t[2]))
	case "Tread":
		return g.PackTread(fc, u32(t[1]), atou(t[2], 64), u32(t[3]))
	case "Rread":
		return g.PackRread(fc, mustHex(t[1]))
	case "Twrite":
		return g.PackTwrite(fc, u32(t[1]), atou(t[2], 64), u32(t[3]), mustHex(t[4]))
	case "Rwrite":
		return g.PackRwrite(fc, u32(t[1]))
	case "Tclunk":
		return g.PackTclunk(fc, u32(t[1]))
	case "Rclunk":
		return g.PackRclunk(fc)
	case "Tremove":
		return g.PackTremove(fc, u32(t[1]))
	case "Rremove":
		return g.PackRremove(fc)
	case "Tstat":
		return g.PackTstat(fc, u32(t[1]))
	case "Rstat":
		d, _ := parseStat(t[1:])
		return g.PackRstat(fc, d, dotu)
	case "Twstat":
		d, _ := parseStat(t[2:])
		return g.PackTwstat(fc, u32(t[1]), d, dotu)
	case "Rwstat":
		return g.PackRwstat(fc)
	}
	panic("unknown message " + t[0])
}

// errClass maps go9p's codec error texts to the model's enum (Go.E).
func errClass(err error) string {
	s := err.Error()
	switch {
	case s == "buffer too short":
		return "bufShort"
	case strings.HasPrefix(s, "buffer too short:"):
		return "sizeBad"
	case s == "invalid id" || s == "invalid message id":
		return "idBad"
	case s == "invalid size":
		return "szerror"
	case strings.HasPrefix(s, "Buffer too short for basic 9p") || strings.HasPrefix(s, "short buffer"):
		return "statShort"
	case strings.HasSuffix(s, " failed") && strings.HasPrefix(s, "d."):
		return "statField"
	case s == "buffer too small":
		return "packSmall"
	}
	return "other:" + strings.ReplaceAll(s, " ", "_")
}
