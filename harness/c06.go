package main

// C06 — no client behaviour can crash the server.  Hostile sessions against the real server
// running (a) a scripted implementation and (b) the bundled Unix file server on a scratch
// tree: structured adversarial request sequences, byte-level mutations of valid sessions, raw
// random bytes.  The server runs inside this process: a panic in one of its goroutines ends
// the process and the journal names the session (./check turns that into a violation whose
// replay is the session line).  After every session a bystander connection and a fresh
// connection must still be served.

import (
	"encoding/binary"
	"fmt"
	"math/rand"
	"net"
	"os"
	"path/filepath"
	"strings"
	"time"

	g "github.com/rminnich/go9p"
)

func init() {
	props["C06"] = propRunner{gen: genC06, exec: execC06}
}

type rawConn struct {
	c net.Conn
}

func (rc *rawConn) drain(stop chan bool) {
	buf := make([]byte, 1<<16)
	for {
		rc.c.SetReadDeadline(time.Now().Add(50 * time.Millisecond))
		_, err := rc.c.Read(buf)
		if err != nil {
			if ne, ok := err.(net.Error); ok && ne.Timeout() {
				select {
				case <-stop:
					return
				default:
					continue
				}
			}
			return
		}
	}
}

func rawFrame(typ uint8, tag uint16, body []byte) []byte {
	b := make([]byte, 7+len(body))
	binary.LittleEndian.PutUint32(b, uint32(len(b)))
	b[4] = typ
	binary.LittleEndian.PutUint16(b[5:], tag)
	copy(b[7:], body)
	return b
}

func le16(v uint16) []byte { b := make([]byte, 2); binary.LittleEndian.PutUint16(b, v); return b }
func le32(v uint32) []byte { b := make([]byte, 4); binary.LittleEndian.PutUint32(b, v); return b }
func le64(v uint64) []byte { b := make([]byte, 8); binary.LittleEndian.PutUint64(b, v); return b }
func lstr(s string) []byte { return append(le16(uint16(len(s))), s...) }
func cat(parts ...[]byte) []byte {
	var b []byte
	for _, p := range parts {
		b = append(b, p...)
	}
	return b
}

type c06gen struct {
	r     *rand.Rand
	msize uint32
	dotu  bool
}

func (h *c06gen) fid() uint32 {
	// mostly the fids a session has set up (0 root, 1 open directory, 2 created file, 3 open file)
	if h.r.Intn(5) < 3 {
		return uint32(h.r.Intn(4))
	}
	return []uint32{0, 1, 2, 3, 4, 5, g.NOFID, 0xFFFFFFFE, 0x80000000, h.r.Uint32()}[h.r.Intn(10)]
}
func (h *c06gen) tag() uint16 {
	return []uint16{0, 1, 2, 3, 7, g.NOTAG, 0xFFFE, uint16(h.r.Intn(65536))}[h.r.Intn(8)]
}
func (h *c06gen) count() uint32 {
	m := h.msize
	return []uint32{0, 1, 2, m - 24, m - 23, m, m + 1, 0xFFFFFFF0, 0xFFFFFFFF, 0x7FFFFFFF, 0x80000000, uint32(h.r.Intn(300))}[h.r.Intn(12)]
}
func (h *c06gen) offset() uint64 {
	return []uint64{0, 1, 2, 9, 10, 11, 12, 13, 57, 58, 59, 60, 61, 100, 1 << 31, 1 << 32, 1<<63 - 1, 1 << 63, 1<<64 - 1, uint64(h.r.Intn(4000))}[h.r.Intn(20)]
}
func (h *c06gen) name() string {
	r := h.r
	switch r.Intn(14) {
	case 0:
		return ""
	case 1:
		return "."
	case 2:
		return ".."
	case 3:
		return "a/b"
	case 4:
		return "/"
	case 5:
		return "../../etc/passwd"
	case 6:
		n := []int{255, 256, 1000, 4096, 65535}[r.Intn(5)]
		if uint32(n)+40 > h.msize {
			n = int(h.msize) / 2
		}
		return strings.Repeat("x", n)
	case 7:
		return "a\x00b"
	case 8:
		return "\xff\xfe"
	case 9:
		return "file"
	case 10:
		return "dir"
	case 11:
		return "link"
	}
	return fmt.Sprintf("n%d", r.Intn(5))
}

func (h *c06gen) stat() []byte {
	r := h.r
	body := cat(le16(uint16(r.Intn(3))), le32(r.Uint32()), []byte{byte(r.Intn(256))}, le32(r.Uint32()), le64(r.Uint64()),
		le32([]uint32{0xFFFFFFFF, 0, 0644, 0x80000000 | 0755, r.Uint32()}[r.Intn(5)]), le32(0xFFFFFFFF), le32(0xFFFFFFFF),
		le64([]uint64{1<<64 - 1, 0, 5, 1 << 40}[r.Intn(4)]), lstr(h.name()), lstr([]string{"", "root", "nobody", "u"}[r.Intn(4)]),
		lstr([]string{"", "root", "g"}[r.Intn(3)]), lstr(""))
	if h.dotu {
		body = cat(body, lstr([]string{"", "target", "c 1 2", "b 1 2"}[r.Intn(4)]), le32(r.Uint32()), le32(r.Uint32()), le32(r.Uint32()))
	}
	sz := uint16(len(body))
	if r.Intn(6) == 0 {
		sz = uint16(r.Intn(70000))
	}
	return cat(le16(sz), body)
}

// request builds one hostile (mostly well-framed) request.
func (h *c06gen) request() []byte {
	r := h.r
	tag := h.tag()
	types := []uint8{g.Tversion, g.Tauth, g.Tattach, g.Tflush, g.Twalk, g.Topen, g.Tcreate, g.Tread, g.Twrite, g.Tclunk, g.Tremove,
		g.Tstat, g.Twstat, g.Twalk, g.Tread, g.Tread, g.Tclunk, g.Topen}
	t := types[r.Intn(len(types))]
	if r.Intn(25) == 0 {
		t = []uint8{0, 99, 106, 255, g.Rversion, g.Rread, g.Rerror, g.Tlast, g.Tlast + 1}[r.Intn(9)]
	}
	var body []byte
	switch t {
	case g.Tversion:
		body = cat(le32([]uint32{0, 1, 7, 23, 24, 25, 64, 8192, 0xFFFFFFFF, h.msize}[r.Intn(10)]),
			lstr([]string{"9P2000", "9P2000.u", "9P2000.L", "", "unknown", "9P2000.uu", strings.Repeat("9", 300)}[r.Intn(7)]))
	case g.Tauth:
		body = cat(le32(h.fid()), lstr(h.name()), lstr(h.name()))
		if h.dotu {
			body = cat(body, le32(r.Uint32()))
		}
	case g.Tattach:
		body = cat(le32(h.fid()), le32([]uint32{g.NOFID, g.NOFID, h.fid()}[r.Intn(3)]), lstr([]string{"", "root", "nobody", "nosuchuser", h.name()}[r.Intn(5)]), lstr(h.name()))
		if h.dotu {
			body = cat(body, le32([]uint32{0, uint32(os.Getuid()), g.NOUID, r.Uint32()}[r.Intn(4)]))
		}
	case g.Tflush:
		body = le16(h.tag())
		if r.Intn(4) == 0 {
			body = le16(tag) // a flush of itself
		}
	case g.Twalk:
		n := []int{0, 0, 1, 1, 2, 3, 16, 17, 100}[r.Intn(9)]
		body = cat(le32(h.fid()), le32(h.fid()), le16(uint16(n)))
		for i := 0; i < n; i++ {
			body = cat(body, lstr(h.name()))
		}
		if r.Intn(10) == 0 { // a count that lies
			binary.LittleEndian.PutUint16(body[8:], uint16(r.Intn(65536)))
		}
	case g.Topen:
		body = cat(le32(h.fid()), []byte{byte(r.Intn(256))})
	case g.Tcreate:
		body = cat(le32(h.fid()), lstr(h.name()), le32([]uint32{0644, 0x80000000 | 0755, 0x02000000 | 0777, 0x00800000, 0x00200000, 0x00100000, 0x01000000, r.Uint32()}[r.Intn(8)]), []byte{byte(r.Intn(256))})
		if h.dotu {
			body = cat(body, lstr([]string{"", "target", "../../x", "c 1 2", "b x y", strings.Repeat("z", 300)}[r.Intn(6)]))
		}
	case g.Tread:
		body = cat(le32(h.fid()), le64(h.offset()), le32(h.count()))
	case g.Twrite:
		n := r.Intn(200)
		cnt := uint32(n)
		if r.Intn(5) == 0 {
			cnt = h.count()
		}
		data := make([]byte, n)
		r.Read(data)
		body = cat(le32(h.fid()), le64(h.offset()), le32(cnt), data)
	case g.Tclunk, g.Tremove, g.Tstat:
		body = le32(h.fid())
	case g.Twstat:
		body = cat(le32(h.fid()), h.stat())
	default:
		body = make([]byte, r.Intn(40))
		r.Read(body)
	}
	fr := rawFrame(t, tag, body)
	switch r.Intn(14) {
	case 0, 2: // truncated body, size fixed up: a few bytes off the end, or anywhere
		if len(fr) > 7 {
			cut := 7 + r.Intn(len(fr)-7)
			if r.Intn(2) == 0 {
				if k := 1 + r.Intn(8); len(fr)-k >= 7 {
					cut = len(fr) - k
				}
			}
			fr = fr[:cut]
			binary.LittleEndian.PutUint32(fr, uint32(len(fr)))
		}
	case 1: // trailing junk inside the frame
		j := make([]byte, 1+r.Intn(20))
		r.Read(j)
		fr = append(fr, j...)
		binary.LittleEndian.PutUint32(fr, uint32(len(fr)))
	}
	return fr
}

// validSession is a well-formed session (as frames) to be mutated.
func (h *c06gen) validSession() [][]byte {
	mk := func(tag uint16, pack func(fc *g.Fcall) error) []byte {
		fc := g.NewFcall(h.msize + 200)
		if pack(fc) != nil {
			return nil
		}
		g.SetTag(fc, tag)
		return append([]byte(nil), fc.Pkt...)
	}
	ver := "9P2000"
	if h.dotu {
		ver = "9P2000.u"
	}
	user := g.OsUsers.Uid2User(os.Getuid())
	uname := ""
	if user != nil {
		uname = user.Name()
	}
	fs := [][]byte{
		mk(g.NOTAG, func(fc *g.Fcall) error { return g.PackTversion(fc, h.msize, ver) }),
		mk(1, func(fc *g.Fcall) error { return g.PackTattach(fc, 0, g.NOFID, uname, "", uint32(os.Getuid()), h.dotu) }),
		mk(2, func(fc *g.Fcall) error { return g.PackTwalk(fc, 0, 1, []string{"dir"}) }),
		mk(3, func(fc *g.Fcall) error { return g.PackTopen(fc, 1, g.OREAD) }),
		mk(4, func(fc *g.Fcall) error { return g.PackTread(fc, 1, 0, h.msize-24) }),
		mk(5, func(fc *g.Fcall) error { return g.PackTwalk(fc, 0, 2, nil) }),
		mk(6, func(fc *g.Fcall) error { return g.PackTcreate(fc, 2, "new", 0644, g.ORDWR, "", h.dotu) }),
		mk(7, func(fc *g.Fcall) error { return g.PackTwrite(fc, 2, 0, 5, []byte("hello")) }),
		mk(8, func(fc *g.Fcall) error { return g.PackTread(fc, 2, 0, 5) }),
		mk(9, func(fc *g.Fcall) error { return g.PackTstat(fc, 2) }),
		mk(10, func(fc *g.Fcall) error { return g.PackTwalk(fc, 0, 3, []string{"file"}) }),
		mk(15, func(fc *g.Fcall) error { return g.PackTopen(fc, 3, g.ORDWR) }),
		mk(11, func(fc *g.Fcall) error { return g.PackTflush(fc, 10) }),
		mk(12, func(fc *g.Fcall) error { return g.PackTclunk(fc, 1) }),
		mk(13, func(fc *g.Fcall) error { return g.PackTremove(fc, 2) }),
		mk(14, func(fc *g.Fcall) error { return g.PackTclunk(fc, 3) }),
	}
	var out [][]byte
	for _, f := range fs {
		if f != nil {
			out = append(out, f)
		}
	}
	return out
}

func mutate(r *rand.Rand, b []byte) []byte {
	b = append([]byte(nil), b...)
	for k := 0; k < 1+r.Intn(4) && len(b) > 0; k++ {
		switch r.Intn(7) {
		case 0:
			b[r.Intn(len(b))] ^= 1 << uint(r.Intn(8))
		case 1:
			b[r.Intn(len(b))] = []byte{0, 1, 0x7f, 0x80, 0xff}[r.Intn(5)]
		case 2:
			i := r.Intn(len(b))
			b = append(b[:i], b[i+1:]...)
		case 3:
			i := r.Intn(len(b) + 1)
			b = append(b[:i], append([]byte{byte(r.Intn(256))}, b[i:]...)...)
		case 4:
			b = b[:r.Intn(len(b)+1)]
		case 5:
			i, j := r.Intn(len(b)), r.Intn(len(b))
			if i > j {
				i, j = j, i
			}
			b = append(b[:j], append(append([]byte(nil), b[i:j]...), b[j:]...)...)
		case 6: // a 32-bit field set to an extreme
			if len(b) >= 4 {
				i := r.Intn(len(b) - 3)
				binary.LittleEndian.PutUint32(b[i:], []uint32{0, 0xFFFFFFFF, 0x7FFFFFFF, 0x80000000, 0xFFFFFFF0}[r.Intn(5)])
			}
		}
	}
	return b
}

// the scripted implementation answers everything plausibly
func c06Script(sc *script, r *rand.Rand) {
	sc.main = []string{"E:6e6f:2"}
	sc.byOp = map[string][]string{
		"attach": {"Rattach", "128:0:1"},
		"walk":   {"Rwalk", "128:0:2,0:0:3"},
		"open":   {"Ropen", "0:0:3", "0"},
		"create": {"Rcreate", "0:0:4", "0"},
		"read":   {"Rread", "68656c6c6f20776f726c64"},
		"write":  {"Rwrite", "="},
		"clunk":  {"Rclunk"},
		"remove": {"Rremove"},
		"stat":   {"Rstat", "0", "0", "0:0:3", "420", "0", "0", "5", "66696c65", "75", "67", "6d", "-", "0", "0", "0"},
		"wstat":  {"Rwstat"},
	}
	if r.Intn(4) == 0 {
		sc.byOp["walk"] = []string{"Rwalk", "128:0:2"}
	}
	if r.Intn(4) == 0 {
		sc.byOp["read"] = []string{"Rread", strings.Repeat("ab", 5000)}
	}
}

type c06srv struct {
	srv    *g.Srv
	sc     *script // the scripted implementation (nil for ufs)
	outer  string
	newc   func() net.Conn
	closef func()
}

func newC06srv(target string, msize uint32, dotu bool, r *rand.Rand) (*c06srv, error) {
	e := &c06srv{}
	if target == "ufs" {
		outer, err := os.MkdirTemp("", "verif-c06-")
		if err != nil {
			return nil, err
		}
		root := filepath.Join(outer, "export")
		os.MkdirAll(filepath.Join(root, "dir", "sub"), 0o755)
		os.WriteFile(filepath.Join(root, "file"), []byte("0123456789"), 0o644)
		for i := 0; i < 7; i++ {
			os.WriteFile(filepath.Join(root, "dir", fmt.Sprintf("f%d", i)), []byte("x"), 0o644)
		}
		os.Symlink("file", filepath.Join(root, "link"))
		os.WriteFile(filepath.Join(outer, "secret"), []byte("outside"), 0o600)
		u := new(g.Ufs)
		u.Root = root
		u.Dotu = dotu
		u.Msize = msize
		u.Log = sharedLog
		if !u.Start(u) {
			return nil, fmt.Errorf("ufs start")
		}
		e.srv = &u.Srv
		e.outer = outer
		e.newc = func() net.Conn {
			a, b := net.Pipe()
			u.NewConn(pconn{a})
			return b
		}
		e.closef = func() { os.RemoveAll(outer) }
		return e, nil
	}
	sc := &script{}
	c06Script(sc, r)
	srv := &g.Srv{Msize: msize, Dotu: dotu, Maxpend: []int{0, 1, 8}[r.Intn(3)], Log: sharedLog}
	var ops interface{} = sc
	if r.Intn(3) == 0 {
		sc.check = nil
		ops = scriptAuth{sc}
	}
	if !srv.Start(ops) {
		return nil, fmt.Errorf("srv start")
	}
	e.srv = srv
	e.sc = sc
	e.newc = func() net.Conn {
		a, b := net.Pipe()
		srv.NewConn(pconn{a})
		return b
	}
	e.closef = func() {}
	return e, nil
}

// probe does a Tversion round trip on c.
func probeConn(c net.Conn, msize uint32) bool {
	fc := g.NewFcall(msize + 100)
	g.PackTversion(fc, msize, "9P2000")
	g.SetTag(fc, g.NOTAG)
	c.SetWriteDeadline(time.Now().Add(3 * time.Second))
	if _, err := c.Write(fc.Pkt); err != nil {
		return false
	}
	buf, err := readFrame(c, 3*time.Second)
	return err == nil && len(buf) >= 7 && buf[4] == g.Rversion
}

func runC06(line string, kind, target string, msize uint32, dotu bool, seed int64) string {
	r := rand.New(rand.NewSource(seed))
	e, err := newC06srv(target, msize, dotu, r)
	if err != nil {
		return "setup-failed"
	}
	defer e.closef()
	by := e.newc()
	defer by.Close()
	if !probeConn(by, msize) {
		return "bystander-not-served-at-start"
	}
	h := &c06gen{r: r, msize: msize, dotu: dotu}
	var stream []byte
	switch kind {
	case "structured":
		// sometimes: a session that negotiates a tiny msize, works a little, negotiates again with a
		// large one and then asks for more than the tiny one could carry
		if r.Intn(6) == 0 {
			small := []uint32{64, 128, 256}[r.Intn(3)]
			ver := "9P2000"
			if dotu {
				ver = "9P2000.u"
			}
			vs := h.validSession()
			stream = append(stream, rawFrame(g.Tversion, g.NOTAG, cat(le32(small), lstr(ver)))...)
			for _, f := range vs[1:4] { // attach, walk to the directory, open it
				stream = append(stream, f...)
			}
			for k := 0; k < 2+r.Intn(4); k++ {
				stream = append(stream, rawFrame(g.Tread, uint16(20+k), cat(le32(1), le64(0), le32(small-24)))...)
				stream = append(stream, rawFrame(g.Tstat, uint16(30+k), le32(0))...)
			}
			stream = append(stream, rawFrame(g.Tversion, g.NOTAG, cat(le32([]uint32{8192, msize, 65536}[r.Intn(3)]), lstr(ver)))...)
			for k := 0; k < 3+r.Intn(5); k++ {
				cnt := []uint32{small - 23, small, 300, 1000, 4096, msize - 24}[r.Intn(6)]
				stream = append(stream, rawFrame(g.Tread, uint16(40+k), cat(le32(uint32(r.Intn(2))), le64(0), le32(cnt)))...)
			}
		} else if r.Intn(6) == 0 {
			// tags reused while their requests are outstanding, and Tflushes aimed at them: requests that wait
			// behind an older one under their tag are cancelled before they start — after enough answered reads
			// (or stats, attaches) that the recycled reply buffers last carried that kind of reply
			vs := h.validSession()
			for _, f := range vs[:4] { // version, attach, walk to the directory, open it
				stream = append(stream, f...)
			}
			mkreq := func(tag uint16) []byte {
				switch r.Intn(3) {
				case 0:
					return rawFrame(g.Tread, tag, cat(le32(1), le64(0), le32(10)))
				case 1:
					return rawFrame(g.Tstat, tag, le32(0))
				default:
					return rawFrame(g.Tattach, tag, cat(le32(uint32(20+r.Intn(4))), le32(g.NOFID), lstr("u"), lstr("")))
				}
			}
			for k := 0; k < 4+r.Intn(6); k++ {
				stream = append(stream, mkreq(uint16(40+k))...)
			}
			for round := 0; round < 2+r.Intn(4); round++ {
				tag := uint16(70 + round)
				for k := 0; k < 2+r.Intn(3); k++ {
					stream = append(stream, mkreq(tag)...)
				}
				stream = append(stream, rawFrame(g.Tflush, uint16(90+round), le16(tag))...)
			}
		} else if r.Intn(5) > 0 {
			vs := h.validSession()
			stream = append(stream, vs[0]...)
			if r.Intn(4) > 0 {
				stream = append(stream, vs[1]...)
			}
			// the set-up part of the valid session (everything before its clunks), whole or in part
			whole := r.Intn(2) == 0
			for _, f := range vs[2 : len(vs)-3] {
				if whole || r.Intn(3) == 0 {
					stream = append(stream, f...)
				}
			}
		}
		for k := 0; k < 5+r.Intn(36); k++ {
			stream = append(stream, h.request()...)
		}
	case "mutated":
		for _, f := range h.validSession() {
			if r.Intn(3) == 0 {
				f = mutate(r, f)
			}
			stream = append(stream, f...)
		}
		if r.Intn(3) == 0 {
			stream = mutate(r, stream)
		}
	case "random":
		n := 1 + r.Intn(3000)
		stream = make([]byte, n)
		r.Read(stream)
		if r.Intn(2) == 0 && n >= 7 {
			binary.LittleEndian.PutUint32(stream, uint32(7+r.Intn(60)))
			stream[4] = byte(100 + r.Intn(28))
		}
	}
	c := e.newc()
	stop := make(chan bool)
	go (&rawConn{c}).drain(stop)
	// written in random segments; the server may close the connection at any point
	for len(stream) > 0 {
		n := 1 + r.Intn(len(stream))
		if r.Intn(3) == 0 && n > 40 {
			n = 1 + r.Intn(40)
		}
		c.SetWriteDeadline(time.Now().Add(2 * time.Second))
		if _, err := c.Write(stream[:n]); err != nil {
			break
		}
		stream = stream[n:]
	}
	time.Sleep(time.Duration(1+r.Intn(3)) * time.Millisecond)
	res := "ok"
	// a malformed frame ends only the connection it arrived on
	if !probeConn(by, msize) {
		res = "bystander-not-served"
	}
	fresh := e.newc()
	if !probeConn(fresh, msize) {
		res = "new-connection-not-served"
	}
	fresh.Close()
	close(stop)
	c.Close()
	return res
}

func parseC06(line string) (kind, target string, msize uint32, dotu bool, seed int64, ok bool) {
	t := strings.Fields(line)
	if len(t) < 6 || t[0] != "c06" {
		return
	}
	kind = t[1]
	for _, kv := range t[2:] {
		p := strings.SplitN(kv, "=", 2)
		if len(p) != 2 {
			continue
		}
		switch p[0] {
		case "target":
			target = p[1]
		case "msize":
			msize = uint32(atou(p[1], 32))
		case "dotu":
			dotu = p[1] == "true"
		case "seed":
			seed = int64(atou(p[1], 63))
		}
	}
	ok = target != "" && msize >= 24
	return
}

// replaySystematic re-runs one session of the systematic part from its journal line.
func replaySystematic(line string) (string, bool) {
	t := strings.Fields(line)
	kv := map[string]string{}
	for _, x := range t[2:] {
		if p := strings.SplitN(x, "=", 2); len(p) == 2 {
			kv[p[0]] = p[1]
		}
	}
	msize := uint32(atou(kv["msize"], 32))
	dotu := kv["dotu"] == "true"
	if msize < 24 || kv["target"] == "" {
		return "bad-op", false
	}
	r := rand.New(rand.NewSource(int64(msize) + 7))
	h := &c06gen{r: r, msize: msize, dotu: dotu}
	vs := h.validSession()
	e, err := newC06srv(kv["target"], msize, dotu, r)
	if err != nil {
		return "setup-failed", false
	}
	defer e.closef()
	var stream []byte
	switch t[1] {
	case "truncation":
		fi, cut := int(atou(kv["frame"], 31)), int(atou(kv["cut"], 31))
		if fi >= len(vs) || cut > len(vs[fi]) || cut < 7 {
			return "bad-op", false
		}
		for _, p := range vs[:fi] {
			stream = append(stream, p...)
		}
		fr := append([]byte(nil), vs[fi][:cut]...)
		binary.LittleEndian.PutUint32(fr, uint32(cut))
		stream = append(stream, fr...)
	case "grid":
		fid := uint32(atou(kv["fid"], 32))
		for _, p := range vs[:len(vs)-3] {
			stream = append(stream, p...)
		}
		counts := []uint32{0, 1, 2, msize - 24, msize - 23, msize, 0x7FFFFFFF, 0x80000000, 0xFFFFFFE8, 0xFFFFFFF0, 0xFFFFFFFF}
		tag := uint16(100)
		for _, off := range gridOffsets {
			for _, cnt := range counts {
				stream = append(stream, rawFrame(g.Tread, tag, cat(le32(fid), le64(off), le32(cnt)))...)
				tag++
			}
			stream = append(stream, rawFrame(g.Twrite, tag, cat(le32(fid), le64(off), le32(3), []byte("abc")))...)
			tag++
		}
	default:
		return "ok", true
	}
	cn := e.newc()
	stop := make(chan bool)
	go (&rawConn{cn}).drain(stop)
	cn.SetWriteDeadline(time.Now().Add(2 * time.Second))
	cn.Write(stream)
	time.Sleep(5 * time.Millisecond)
	close(stop)
	cn.Close()
	fresh := e.newc()
	defer fresh.Close()
	if !probeConn(fresh, msize) {
		return "new-connection-not-served", true
	}
	return "ok", true
}

func execC06(line string) (string, bool) {
	if strings.HasPrefix(line, "bufsess ") {
		return "accept", true // the observation is the line; the driver is the judge
	}
	if t := strings.Fields(line); len(t) >= 2 && (t[1] == "truncation" || t[1] == "grid" || t[1] == "systematic") {
		return replaySystematic(line)
	}
	if t := strings.Fields(line); len(t) >= 2 && t[1] == "queued-flush" {
		return "ok", true // part of the systematic sessions: re-run by the check itself
	}
	kind, target, msize, dotu, seed, ok := parseC06(line)
	if !ok {
		return "bad-op", false
	}
	return runC06(line, kind, target, msize, dotu, seed), true
}

var gridOffsets = []uint64{0, 1, 9, 10, 11, 12, 13, 100, 4096, 1 << 31, 1<<32 - 1, 1 << 32, 1<<63 - 1, 1 << 63, 1<<64 - 1}

// systematic part: (a) every request of the valid session cut at every length, size fixed up;
// (b) reads and writes on every fid the session set up, at every offset x count of a grid.
func c06Systematic(c *Ctx) {
	for _, target := range []string{"scripted", "ufs"} {
		for _, dotu := range []bool{false, true} {
			for _, msize := range []uint32{128, 8192} {
				r := rand.New(rand.NewSource(int64(msize) + 7))
				h := &c06gen{r: r, msize: msize, dotu: dotu}
				vs := h.validSession()
				e, err := newC06srv(target, msize, dotu, r)
				if err != nil {
					continue
				}
				by := e.newc()
				probeConn(by, msize)
				session := func(line string, stream []byte) {
					c.begin(line)
					cn := e.newc()
					stop := make(chan bool)
					go (&rawConn{cn}).drain(stop)
					cn.SetWriteDeadline(time.Now().Add(2 * time.Second))
					cn.Write(stream)
					time.Sleep(300 * time.Microsecond)
					close(stop)
					cn.Close()
				}
				// (a) truncations
				for fi, f := range vs {
					for cut := 7; cut < len(f); cut++ {
						fr := append([]byte(nil), f[:cut]...)
						binary.LittleEndian.PutUint32(fr, uint32(cut))
						var stream []byte
						for _, p := range vs[:fi] {
							stream = append(stream, p...)
						}
						stream = append(stream, fr...)
						session(fmt.Sprintf("c06 truncation target=%s msize=%d dotu=%v frame=%d cut=%d hex=%x", target, msize, dotu, fi, cut, fr), stream)
						c.count("systematic:truncation")
					}
				}
				// (c) a request waits behind an older one under its tag and is cancelled there, after enough
				// answered requests of its kind that its recycled reply buffer last carried such a reply
				if e.sc != nil {
					for _, kind := range []string{"read", "stat", "attach"} {
						line := fmt.Sprintf("c06 queued-flush target=%s msize=%d dotu=%v kind=%s", target, msize, dotu, kind)
						c.begin(line)
						hold := make(chan bool)
						reached := make(chan bool, 8)
						e.sc.mu.Lock()
						e.sc.hook = func(op string, r *g.SrvReq) {
							if op == kind && r.VerifTag() == 70 {
								reached <- true
								select {
								case <-hold:
								case <-time.After(5 * time.Second):
								}
							}
						}
						e.sc.mu.Unlock()
						cn := e.newc()
						mk := func(tag uint16) []byte {
							switch kind {
							case "read":
								return rawFrame(g.Tread, tag, cat(le32(1), le64(0), le32(10)))
							case "stat":
								return rawFrame(g.Tstat, tag, le32(0))
							}
							body := cat(le32(uint32(20+int(tag)%40)), le32(g.NOFID), lstr("u"), lstr(""))
							if dotu {
								body = cat(body, le32(0))
							}
							return rawFrame(g.Tattach, tag, body)
						}
						send := func(b []byte) {
							cn.SetWriteDeadline(time.Now().Add(2 * time.Second))
							cn.Write(b)
						}
						recvN := func(n int) int {
							got := 0
							for got < n {
								if _, err := readFrame(cn, 2*time.Second); err != nil {
									break
								}
								got++
							}
							return got
						}
						var pre []byte
						for _, f := range vs[:4] {
							pre = append(pre, f...)
						}
						send(pre)
						recvN(4)
						var warm []byte
						for k := 0; k < 4; k++ {
							warm = append(warm, mk(uint16(40+k))...)
						}
						send(warm)
						recvN(4)
						time.Sleep(time.Millisecond) // the buffers are back in the pool
						send(mk(70))
						select {
						case <-reached:
						case <-time.After(2 * time.Second):
						}
						send(append(mk(70), rawFrame(g.Tflush, 71, le16(70))...))
						if recvN(1) != 1 {
							c.oracleFail("C06/queued-flush-unanswered/"+kind, "a Tflush of a request waiting behind an older one under its tag was not answered", line)
						}
						close(hold)
						recvN(1)
						cn.Close()
						e.sc.mu.Lock()
						e.sc.hook = nil
						e.sc.mu.Unlock()
						c.count("systematic:queued-flush")
						c.emit(line, "ok", true)
					}
				}
				// (b) the offset x count grid on the fids of the set-up
				counts := []uint32{0, 1, 2, msize - 24, msize - 23, msize, 0x7FFFFFFF, 0x80000000, 0xFFFFFFE8, 0xFFFFFFF0, 0xFFFFFFFF}
				for fid := uint32(0); fid < 4; fid++ {
					var stream []byte
					for _, p := range vs[:len(vs)-3] {
						stream = append(stream, p...)
					}
					tag := uint16(100)
					for _, off := range gridOffsets {
						for _, cnt := range counts {
							stream = append(stream, rawFrame(g.Tread, tag, cat(le32(fid), le64(off), le32(cnt)))...)
							tag++
						}
						stream = append(stream, rawFrame(g.Twrite, tag, cat(le32(fid), le64(off), le32(3), []byte("abc")))...)
						tag++
					}
					session(fmt.Sprintf("c06 grid target=%s msize=%d dotu=%v fid=%d", target, msize, dotu, fid), stream)
					c.count("systematic:grid")
				}
				time.Sleep(2 * time.Millisecond)
				if !probeConn(by, msize) {
					c.oracleFail("C06/bystander-not-served/"+target, "after the systematic sessions", fmt.Sprintf("c06 systematic target=%s msize=%d dotu=%v", target, msize, dotu))
				}
				by.Close()
				e.closef()
			}
		}
	}
	c.emit("c06 systematic", "ok", true)
}

func genC06(c *Ctx) {
	c06Systematic(c)
	i := 0
	for k := 0; k < c.scale(2500, 60000) && !c.stop(); k++ {
		i++
		r := c.rng(i)
		kind := []string{"structured", "structured", "mutated", "random"}[r.Intn(4)]
		target := []string{"scripted", "ufs"}[r.Intn(2)]
		msize := []uint32{24, 25, 32, 64, 128, 256, 1024, 8192, 70000}[r.Intn(9)]
		dotu := r.Intn(2) == 0
		seed := c.seed*1000003 + int64(i)
		line := fmt.Sprintf("c06 %s target=%s msize=%d dotu=%v seed=%d", kind, target, msize, dotu, seed)
		c.begin(line)
		var bw *bufWatch
		if kind == "structured" {
			bw = startBufWatch()
		}
		res := runC06(line, kind, target, msize, dotu, seed)
		if bw != nil {
			bw.emit(c)
		}
		c.count("kind:" + kind)
		c.count("target:" + target)
		c.count(fmt.Sprintf("msize:%d", msize))
		if res != "ok" {
			c.oracleFail("C06/"+res+"/"+target, "after the hostile session: "+res, line)
		}
		c.emit(line, res, true)
	}
}
