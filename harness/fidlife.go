package main

import (
	"fmt"
	"sort"
	"strings"
	"time"

	g "github.com/rminnich/go9p"
)

// Schedules aimed at the fid table (C11, C04): requests parked inside retain, DecRef and destroy
// while the client disconnects or reuses the fid number. Every region of the fid table is logged
// from inside its lock and replayed on G9.FidLife by the driver; at the end of the session the
// model's state must be quiescent and the file server must have seen FidDestroy exactly once for
// every fid object.
func genC11fid(c *Ctx) {
	genFidTable(c, "C11", []string{"retain-vs-close", "dying-reuse", "mixed", "destroy-overlap"}, c.scale(120, 4000))
}

func genFidTable(c *Ctx, prop string, kinds []string, n int) {
	for k := 0; k < n && !c.stop(); k++ {
		i := 500000 + k
		r := c.rng(i)
		kind := kinds[k%len(kinds)]
		maxpend := []int{0, 1, 8}[r.Intn(3)]
		nf := 1 + r.Intn(4)
		line := fmt.Sprintf("lifejudge %s fid-table seed=%d kind=%s fids=%d maxpend=%d", prop, i, kind, nf, maxpend)
		c.begin(line)
		if m, ok := waitCensus(map[string]int{}, 5*time.Second); !ok {
			c.oracleFail("C11/goroutines/earlier-scenario", "goroutines of an earlier scenario never ended: "+showCensus(m), line)
		}
		s := newLifeSess(8192, maxpend, false)
		if r.Intn(2) == 0 {
			s.perturb = perturber(int64(i), uint64(3+r.Intn(8)))
		}
		if !s.setup(nf) {
			c.oracleFail("C11/setup", "session set-up failed", line)
			s.end()
			continue
		}
		var parks []*park
		tag := uint16(50)
		next := func() uint16 { tag++; return tag }
		switch kind {
		case "retain-vs-close":
			// requests creating fids are parked at the door of retain when the client disconnects
			m := 1 + r.Intn(3)
			for j := 0; j < m; j++ {
				nfid := uint32(50 + j)
				p := s.parkFidRule("fid.retain", nfid, 0)
				parks = append(parks, p)
				if r.Intn(4) == 0 {
					s.write(s.send(next(), func(fc *g.Fcall) error { return g.PackTattach(fc, nfid, g.NOFID, "u", "", 0, false) }))
				} else {
					src := uint32(r.Intn(nf + 1))
					s.write(s.send(next(), func(fc *g.Fcall) error { return g.PackTwalk(fc, src, nfid, nil) }))
				}
			}
			for _, p := range parks {
				waitc(p.reached, 2*time.Second)
			}
			s.c.Close()
			early := r.Intn(3) == 0
			if !early {
				waitc(s.closeEnd, 5*time.Second)
			}
			for _, j := range r.Perm(len(parks)) {
				close(parks[j].release)
				if r.Intn(2) == 0 {
					time.Sleep(time.Duration(r.Intn(300)) * time.Microsecond)
				}
			}
		case "dying-reuse":
			// a request uses a fid whose Tclunk has dropped the last reference but not yet removed
			// the table entry; the client then reuses the number
			x := uint32(1 + r.Intn(nf))
			p0 := s.parkFidRule("fid.dec.zero", x, 0)
			p1 := s.parkFidRule("fid.dec.zero", x, 0) // considered once p0 is used: the second arrival
			parks = append(parks, p0, p1)
			s.write(s.send(50, func(fc *g.Fcall) error { return g.PackTclunk(fc, x) }))
			if !waitc(p0.reached, 2*time.Second) {
				c.count("dying-reuse:clunk-not-parked")
			} else {
				switch r.Intn(3) {
				case 0:
					s.write(s.send(51, func(fc *g.Fcall) error { return g.PackTstat(fc, x) }))
				case 1:
					s.write(s.send(51, func(fc *g.Fcall) error { return g.PackTwalk(fc, x, x, nil) }))
				case 2:
					s.write(s.send(51, func(fc *g.Fcall) error { return g.PackTopen(fc, x, g.OREAD) }))
				}
				second := waitc(p1.reached, 300*time.Millisecond)
				close(p0.release)
				p0 = nil
				time.Sleep(time.Duration(200+r.Intn(2000)) * time.Microsecond)
				remade := false
				if r.Intn(4) != 0 {
					f := s.rpc(52, func(fc *g.Fcall) error { return g.PackTwalk(fc, 0, x, nil) })
					remade = f != nil && f.typ == g.Rwalk
				}
				if second {
					close(p1.release)
					p1 = nil
					time.Sleep(time.Duration(200+r.Intn(2000)) * time.Microsecond)
					c.count("dying-reuse:second-holder")
				}
				if remade {
					if f := s.rpc(53, func(fc *g.Fcall) error { return g.PackTstat(fc, x) }); f == nil || f.typ != g.Rstat {
						c.oracleFail("C04/valid-fid-refused", fmt.Sprintf("fid %d was made valid by a successful Twalk and the next request on it was refused", x), line)
					}
				}
			}
			if p0 != nil {
				close(p0.release)
			}
			if p1 != nil {
				close(p1.release)
			}
			parks = nil
			if r.Intn(2) == 0 {
				s.rpc(54, func(fc *g.Fcall) error { return g.PackTclunk(fc, x) })
			}
			s.c.Close()
		case "destroy-overlap":
			// Conn.close is between marking a fid destroyed and telling the file server when the
			// Tclunk (or Tremove) that was executing on that fid completes and destroys it too
			x := uint32(1 + r.Intn(nf))
			p := s.parkFidRule("fid.destroy.call", x, 0)
			parks = append(parks, p)
			rid := s.nreqs()
			f0 := s.nframes()
			s.mu.Lock()
			s.plans[rid] = plan{gate: true, async: r.Intn(3) == 0}
			s.mu.Unlock()
			if r.Intn(2) == 0 {
				s.write(s.send(50, func(fc *g.Fcall) error { return g.PackTclunk(fc, x) }))
			} else {
				s.write(s.send(50, func(fc *g.Fcall) error { return g.PackTremove(fc, x) }))
			}
			s.waitEntered([]int{rid}, f0, 2*time.Second)
			s.c.Close()
			if waitc(p.reached, 2*time.Second) {
				c.count("destroy-overlap:close-parked")
			}
			s.release(rid)
			time.Sleep(time.Duration(500+r.Intn(2000)) * time.Microsecond)
			close(p.release)
			parks = nil
		case "mixed":
			// a burst of pipelined walks, stats and clunks with goroutines parked all over the fid
			// table, and a disconnect in the middle of it
			points := []string{"fid.retain", "fid.dec.zero", "fid.destroy.call"}
			for j := 0; j < 1+r.Intn(4); j++ {
				no := uint32(r.Intn(nf + 1))
				if r.Intn(2) == 0 {
					no = uint32(100 + r.Intn(4))
				}
				parks = append(parks, s.parkFidRule(points[r.Intn(len(points))], no, r.Intn(2)))
			}
			clunked := map[uint32]bool{}
			var fr [][]byte
			for j := 0; j < 3+r.Intn(10); j++ {
				switch r.Intn(4) {
				case 0:
					nfid := uint32(100 + r.Intn(4))
					src := uint32(r.Intn(nf + 1))
					fr = append(fr, s.send(next(), func(fc *g.Fcall) error { return g.PackTwalk(fc, src, nfid, nil) }))
				case 1:
					fid := uint32(r.Intn(nf + 1))
					fr = append(fr, s.send(next(), func(fc *g.Fcall) error { return g.PackTstat(fc, fid) }))
				case 2:
					fid := uint32(100 + r.Intn(4))
					fr = append(fr, s.send(next(), func(fc *g.Fcall) error { return g.PackTstat(fc, fid) }))
				case 3:
					fid := uint32(1 + r.Intn(nf))
					if r.Intn(2) == 0 {
						fid = uint32(100 + r.Intn(4))
					}
					// one Tclunk per number: two racing releases of the table's reference are a
					// client error the model does not describe
					if !clunked[fid] {
						clunked[fid] = true
						fr = append(fr, s.send(next(), func(fc *g.Fcall) error { return g.PackTclunk(fc, fid) }))
					}
				}
			}
			if r.Intn(2) == 0 {
				s.write(fr...)
			} else {
				for _, f := range fr {
					s.write(f)
					if r.Intn(3) == 0 {
						time.Sleep(time.Duration(r.Intn(200)) * time.Microsecond)
					}
				}
			}
			time.Sleep(time.Duration(r.Intn(3000)) * time.Microsecond)
			s.c.Close()
			if r.Intn(2) == 0 {
				waitc(s.closeEnd, 5*time.Second)
			}
			for _, j := range r.Perm(len(parks)) {
				close(parks[j].release)
				if r.Intn(2) == 0 {
					time.Sleep(time.Duration(r.Intn(300)) * time.Microsecond)
				}
			}
		}
		waitc(s.closeEnd, 5*time.Second)
		if m, ok := waitCensus(map[string]int{}, 5*time.Second); !ok {
			c.oracleFail("C11/goroutines/fid-table/"+kind, "goroutines left after the disconnect: "+showCensus(m), line)
		}
		time.Sleep(time.Millisecond)
		// the file server's own view: FidDestroy exactly once for every fid object
		s.mu.Lock()
		var problems []string
		for f, id := range s.fobj {
			if s.fnd[id] != 1 {
				problems = append(problems, fmt.Sprintf("fid %d (object %d) reported destroyed %d times", g.VerifFidNo(f), id, s.fnd[id]))
			}
		}
		s.mu.Unlock()
		sort.Strings(problems)
		if len(problems) > 0 {
			c.oracleFail("C11/destroy/fid-table/"+kind, strings.Join(problems, "; "), line)
		}
		c.count("fid-table:" + kind)
		s.emitLogEnded(c)
		s.end()
		c.emit(line, "*", true)
	}
}
