package main

import (
	"fmt"
	"os"
	"path/filepath"
	"sort"
	"strings"
	"sync"
	"time"

	g "github.com/rminnich/go9p"
)

// Schedules aimed at the fid table (C11, C04): requests parked inside retain, DecRef and destroy
// while the client disconnects or reuses the fid number. Every region of the fid table is logged
// from inside its lock and replayed on G9.FidLife by the driver; at the end of the session the
// model's state must be quiescent and the file server must have seen FidDestroy exactly once for
// every fid object.
func genC11fid(c *Ctx) {
	genFidTable(c, "C11", []string{"retain-vs-close", "dying-reuse", "mixed", "destroy-overlap", "clunk-and-user", "newfid-twice"}, c.scale(150, 5000))
	genC11ufs(c)
}

func genFidTable(c *Ctx, prop string, kinds []string, n int) {
	for k := 0; k < n && !c.stop(); k++ {
		i := 500000 + k
		r := c.rng(i)
		kind := kinds[k%len(kinds)]
		maxpend := []int{0, 1, 8}[r.Intn(3)]
		nf := 1 + r.Intn(4)
		line := fmt.Sprintf("lifejudge %s fid-table seed=%d kind=%s fids=%d maxpend=%d", prop, i, kind, nf, maxpend)
		c.begin(line)
		if m, ok := waitCensus(map[string]int{}, 5*time.Second); !ok {
			c.oracleFail("C11/goroutines/earlier-scenario", "goroutines of an earlier scenario never ended: "+showCensus(m), line)
		}
		s := newLifeSess(8192, maxpend, false)
		if r.Intn(2) == 0 {
			s.perturb = perturber(int64(i), uint64(3+r.Intn(8)))
		}
		if !s.setup(nf) {
			c.oracleFail("C11/setup", "session set-up failed", line)
			s.end()
			continue
		}
		var parks []*park
		tag := uint16(50)
		next := func() uint16 { tag++; return tag }
		switch kind {
		case "retain-vs-close":
			// requests creating fids are parked at the door of retain when the client disconnects
			m := 1 + r.Intn(3)
			for j := 0; j < m; j++ {
				nfid := uint32(50 + j)
				p := s.parkFidRule("fid.retain", nfid, 0)
				parks = append(parks, p)
				if r.Intn(4) == 0 {
					s.write(s.send(next(), func(fc *g.Fcall) error { return g.PackTattach(fc, nfid, g.NOFID, "u", "", 0, false) }))
				} else {
					src := uint32(r.Intn(nf + 1))
					s.write(s.send(next(), func(fc *g.Fcall) error { return g.PackTwalk(fc, src, nfid, nil) }))
				}
			}
			for _, p := range parks {
				waitc(p.reached, 2*time.Second)
			}
			s.c.Close()
			early := r.Intn(3) == 0
			if !early {
				waitc(s.closeEnd, 5*time.Second)
			}
			for _, j := range r.Perm(len(parks)) {
				close(parks[j].release)
				if r.Intn(2) == 0 {
					time.Sleep(time.Duration(r.Intn(300)) * time.Microsecond)
				}
			}
		case "dying-reuse":
			// a request uses a fid whose Tclunk has dropped the last reference but not yet removed
			// the table entry; the client then reuses the number
			x := uint32(1 + r.Intn(nf))
			p0 := s.parkFidRule("fid.dec.zero", x, 0)
			p1 := s.parkFidRule("fid.dec.zero", x, 0) // considered once p0 is used: the second arrival
			parks = append(parks, p0, p1)
			s.write(s.send(50, func(fc *g.Fcall) error { return g.PackTclunk(fc, x) }))
			if !waitc(p0.reached, 2*time.Second) {
				c.count("dying-reuse:clunk-not-parked")
			} else {
				switch r.Intn(3) {
				case 0:
					s.write(s.send(51, func(fc *g.Fcall) error { return g.PackTstat(fc, x) }))
				case 1:
					s.write(s.send(51, func(fc *g.Fcall) error { return g.PackTwalk(fc, x, x, nil) }))
				case 2:
					s.write(s.send(51, func(fc *g.Fcall) error { return g.PackTopen(fc, x, g.OREAD) }))
				}
				second := waitc(p1.reached, 50*time.Millisecond)
				close(p0.release)
				p0 = nil
				time.Sleep(time.Duration(200+r.Intn(2000)) * time.Microsecond)
				remade := false
				if r.Intn(4) != 0 {
					f := s.rpc(52, func(fc *g.Fcall) error { return g.PackTwalk(fc, 0, x, nil) })
					remade = f != nil && f.typ == g.Rwalk
				}
				if second {
					close(p1.release)
					p1 = nil
					time.Sleep(time.Duration(200+r.Intn(2000)) * time.Microsecond)
					c.count("dying-reuse:second-holder")
				}
				if remade {
					if f := s.rpc(53, func(fc *g.Fcall) error { return g.PackTstat(fc, x) }); f == nil || f.typ != g.Rstat {
						c.oracleFail("C04/valid-fid-refused", fmt.Sprintf("fid %d was made valid by a successful Twalk and the next request on it was refused", x), line)
					}
				}
			}
			if p0 != nil {
				close(p0.release)
			}
			if p1 != nil {
				close(p1.release)
			}
			parks = nil
			if r.Intn(2) == 0 {
				s.rpc(54, func(fc *g.Fcall) error { return g.PackTclunk(fc, x) })
			}
			s.c.Close()
		case "destroy-overlap":
			// a Tclunk (or Tremove) is executing on a fid when the client disconnects: Conn.close takes the
			// table's reference, the request's own release is the last one and destroys the fid — parked
			// between marking it destroyed and telling the file server
			x := uint32(1 + r.Intn(nf))
			p := s.parkFidRule("fid.destroy.call", x, 0)
			parks = append(parks, p)
			rid := s.nreqs()
			f0 := s.nframes()
			s.mu.Lock()
			s.plans[rid] = plan{gate: true, async: r.Intn(3) == 0}
			s.mu.Unlock()
			if r.Intn(2) == 0 {
				s.write(s.send(50, func(fc *g.Fcall) error { return g.PackTclunk(fc, x) }))
			} else {
				s.write(s.send(50, func(fc *g.Fcall) error { return g.PackTremove(fc, x) }))
			}
			s.waitEntered([]int{rid}, f0, 2*time.Second)
			s.c.Close()
			if r.Intn(2) == 0 {
				waitc(s.closeEnd, 5*time.Second)
			}
			s.release(rid)
			if waitc(p.reached, 2*time.Second) {
				c.count("destroy-overlap:destroy-parked")
			}
			time.Sleep(time.Duration(500+r.Intn(2000)) * time.Microsecond)
			close(p.release)
			parks = nil
		case "clunk-and-user":
			// a Tclunk (or Tremove) and another request are executing on one fid when the client
			// disconnects; the clunk completes first: the fid may only be destroyed when the other
			// request has let go of it
			x := uint32(1 + r.Intn(nf))
			ridU, ridC := s.nreqs(), s.nreqs()+1
			f0 := s.nframes()
			s.mu.Lock()
			s.plans[ridU] = plan{gate: true, async: r.Intn(3) == 0}
			s.plans[ridC] = plan{gate: true}
			s.mu.Unlock()
			s.write(s.send(50, func(fc *g.Fcall) error { return g.PackTstat(fc, x) }))
			s.waitEntered([]int{ridU}, f0, 2*time.Second)
			if r.Intn(2) == 0 {
				s.write(s.send(51, func(fc *g.Fcall) error { return g.PackTclunk(fc, x) }))
			} else {
				s.write(s.send(51, func(fc *g.Fcall) error { return g.PackTremove(fc, x) }))
			}
			s.waitEntered([]int{ridC}, f0, 2*time.Second)
			s.c.Close()
			if r.Intn(3) > 0 {
				waitc(s.closeEnd, 5*time.Second)
			}
			s.release(ridC)
			time.Sleep(time.Duration(500+r.Intn(3000)) * time.Microsecond)
			s.release(ridU)
		case "newfid-twice":
			// a request creating a fid is executing when a second one names the same new number:
			// the second is refused, the number stays the first one's
			nfid := uint32(60)
			rid := s.nreqs()
			f0 := s.nframes()
			s.mu.Lock()
			s.plans[rid] = plan{gate: true, async: r.Intn(3) == 0}
			s.mu.Unlock()
			mk := func(tag uint16) []byte {
				if r.Intn(4) == 0 {
					return s.send(tag, func(fc *g.Fcall) error { return g.PackTattach(fc, nfid, g.NOFID, "u", "", 0, false) })
				}
				src := uint32(r.Intn(nf + 1))
				return s.send(tag, func(fc *g.Fcall) error { return g.PackTwalk(fc, src, nfid, nil) })
			}
			s.write(mk(50))
			s.waitEntered([]int{rid}, f0, 2*time.Second)
			s.write(mk(51))
			s.waitFrames(f0+1, 2*time.Second)
			s.mu.Lock()
			if len(s.fr) > f0 && s.fr[f0].tag == 51 && s.fr[f0].typ != g.Rerror {
				s.mu.Unlock()
				c.oracleFail("C04/newfid-in-use-accepted", fmt.Sprintf("fid %d was being created by an executing request and a second request creating it was answered with type %d", nfid, s.fr[f0].typ), line)
				s.mu.Lock()
			}
			s.mu.Unlock()
			s.release(rid)
			s.waitFrames(f0+2, 2*time.Second)
			if r.Intn(2) == 0 {
				if f := s.rpc(52, func(fc *g.Fcall) error { return g.PackTstat(fc, nfid) }); f == nil || f.typ != g.Rstat {
					c.oracleFail("C04/valid-fid-refused", fmt.Sprintf("fid %d was made valid by a successful request and the next request on it was refused", nfid), line)
				}
			}
			if r.Intn(3) == 0 {
				s.rpc(53, func(fc *g.Fcall) error { return g.PackTclunk(fc, nfid) })
			}
			s.c.Close()
		case "mixed":
			// a burst of pipelined walks, stats and clunks with goroutines parked all over the fid
			// table, and a disconnect in the middle of it
			points := []string{"fid.retain", "fid.dec.zero", "fid.destroy.call"}
			for j := 0; j < 1+r.Intn(4); j++ {
				no := uint32(r.Intn(nf + 1))
				if r.Intn(2) == 0 {
					no = uint32(100 + r.Intn(4))
				}
				parks = append(parks, s.parkFidRule(points[r.Intn(len(points))], no, r.Intn(2)))
			}
			clunked := map[uint32]bool{}
			var fr [][]byte
			for j := 0; j < 3+r.Intn(10); j++ {
				switch r.Intn(4) {
				case 0:
					nfid := uint32(100 + r.Intn(4))
					src := uint32(r.Intn(nf + 1))
					fr = append(fr, s.send(next(), func(fc *g.Fcall) error { return g.PackTwalk(fc, src, nfid, nil) }))
				case 1:
					fid := uint32(r.Intn(nf + 1))
					fr = append(fr, s.send(next(), func(fc *g.Fcall) error { return g.PackTstat(fc, fid) }))
				case 2:
					fid := uint32(100 + r.Intn(4))
					fr = append(fr, s.send(next(), func(fc *g.Fcall) error { return g.PackTstat(fc, fid) }))
				case 3:
					fid := uint32(1 + r.Intn(nf))
					if r.Intn(2) == 0 {
						fid = uint32(100 + r.Intn(4))
					}
					// one Tclunk per number: two racing releases of the table's reference are a
					// client error the model does not describe
					if !clunked[fid] {
						clunked[fid] = true
						fr = append(fr, s.send(next(), func(fc *g.Fcall) error { return g.PackTclunk(fc, fid) }))
					}
				}
			}
			if r.Intn(2) == 0 {
				s.write(fr...)
			} else {
				for _, f := range fr {
					s.write(f)
					if r.Intn(3) == 0 {
						time.Sleep(time.Duration(r.Intn(200)) * time.Microsecond)
					}
				}
			}
			time.Sleep(time.Duration(r.Intn(3000)) * time.Microsecond)
			s.c.Close()
			if r.Intn(2) == 0 {
				waitc(s.closeEnd, 5*time.Second)
			}
			for _, j := range r.Perm(len(parks)) {
				close(parks[j].release)
				if r.Intn(2) == 0 {
					time.Sleep(time.Duration(r.Intn(300)) * time.Microsecond)
				}
			}
		}
		waitc(s.closeEnd, 5*time.Second)
		s.waitExited(5 * time.Second)
		if m, ok := waitCensus(map[string]int{}, 5*time.Second); !ok {
			c.oracleFail("C11/goroutines/fid-table/"+kind, "goroutines left after the disconnect: "+showCensus(m), line)
		}
		time.Sleep(time.Millisecond)
		// the file server's own view: FidDestroy exactly once for every fid object
		s.mu.Lock()
		var problems []string
		for f, id := range s.fobj {
			if s.fnd[id] != 1 {
				problems = append(problems, fmt.Sprintf("fid %d (object %d) reported destroyed %d times", g.VerifFidNo(f), id, s.fnd[id]))
			}
		}
		s.mu.Unlock()
		sort.Strings(problems)
		if len(problems) > 0 {
			c.oracleFail("C11/destroy/fid-table/"+kind, strings.Join(problems, "; "), line)
		}
		c.count("fid-table:" + kind)
		s.emitLogEnded(c)
		s.end()
		c.emit(line, "*", true)
	}
}

// Ufs with requests that hold their fid (or are about to look it up) when the client disconnects:
// whatever the file server opens for them must be closed once they have returned — the file server
// is told last that a fid is destroyed.
func genC11ufs(c *Ctx) {
	for k := 0; k < c.scale(40, 1200) && !c.stop(); k++ {
		i := 700000 + k
		r := c.rng(i)
		dotu := r.Intn(2) == 0
		nreq := 1 + r.Intn(3)
		line := fmt.Sprintf("lifejudge C11 ufs-open-at-disconnect seed=%d dotu=%s requests=%d", i, b2s(dotu), nreq)
		c.begin(line)
		e, err := newC06srv("ufs", 8192, dotu, r)
		if err != nil {
			c.oracleFail("C11/setup", err.Error(), line)
			continue
		}
		before := map[*g.Conn]bool{}
		for _, cn := range g.VerifConns(e.srv) {
			before[cn] = true
		}
		cn := e.newc()
		var sc *g.Conn
		for _, x := range g.VerifConns(e.srv) {
			if !before[x] {
				sc = x
			}
		}
		rt := func(tag uint16, pack func(fc *g.Fcall) error) *g.Fcall {
			fc := g.NewFcall(8192)
			if pack(fc) != nil {
				return nil
			}
			g.SetTag(fc, tag)
			cn.SetWriteDeadline(time.Now().Add(3 * time.Second))
			if _, err := cn.Write(fc.Pkt); err != nil {
				return nil
			}
			buf, err := readFrame(cn, 3*time.Second)
			if err != nil {
				return nil
			}
			rc, _, err := g.Unpack(buf, dotu)
			if err != nil {
				return nil
			}
			return rc
		}
		ver := "9P2000"
		if dotu {
			ver = "9P2000.u"
		}
		uname := g.OsUsers.Uid2User(os.Getuid()).Name()
		ok := rt(g.NOTAG, func(fc *g.Fcall) error { return g.PackTversion(fc, 8192, ver) }) != nil
		if a := rt(1, func(fc *g.Fcall) error { return g.PackTattach(fc, 0, g.NOFID, uname, "", uint32(os.Getuid()), dotu) }); a == nil || a.Type != g.Rattach {
			ok = false
		}
		type victim struct {
			tag              uint16
			point            string
			reached, release chan bool
			ended            chan bool
			hit              bool
		}
		var vs []*victim
		var mu sync.Mutex
		closed := make(chan bool)
		var closedOnce sync.Once
		unsub := subscribe(func(point string, args []interface{}) {
			if len(args) == 0 {
				return
			}
			if point == "close.end" {
				if x, isc := args[0].(*g.Conn); isc && x == sc {
					closedOnce.Do(func() { close(closed) })
				}
				return
			}
			rq, isr := args[0].(*g.SrvReq)
			if !isr || rq.Conn != sc {
				return
			}
			mu.Lock()
			var v *victim
			for _, x := range vs {
				if x.tag == rq.VerifTag() {
					v = x
				}
			}
			mu.Unlock()
			if v == nil {
				return
			}
			switch {
			case point == v.point && !v.hit:
				v.hit = true
				close(v.reached)
				select {
				case <-v.release:
				case <-time.After(10 * time.Second):
				}
			case point == "process.end":
				close(v.ended)
			}
		})
		// part of the history before the disconnect: requests that fail after the file server has begun to
		// work on them — a hard link onto a taken name (its source is an open fid), a create onto a taken name,
		// an open of a file that was removed behind the fid
		if ok && r.Intn(2) == 0 {
			rt(30, func(fc *g.Fcall) error { return g.PackTwalk(fc, 0, 20, []string{"file"}) })
			rt(31, func(fc *g.Fcall) error { return g.PackTopen(fc, 20, g.OREAD) })
			rt(32, func(fc *g.Fcall) error { return g.PackTwalk(fc, 0, 21, nil) })
			if dotu {
				if l := rt(33, func(fc *g.Fcall) error { return g.PackTcreate(fc, 21, "file", g.DMLINK|0o644, g.OREAD, "20", dotu) }); l != nil && l.Type != g.Rerror {
					c.count("ufs-history:link-onto-taken-name-succeeded")
				}
			}
			rt(34, func(fc *g.Fcall) error { return g.PackTcreate(fc, 21, "dir", g.DMDIR|0o755, g.OREAD, "", dotu) })
			os.WriteFile(filepath.Join(e.outer, "export", "dir", "zz-gone"), []byte("x"), 0o644)
			rt(35, func(fc *g.Fcall) error { return g.PackTwalk(fc, 0, 22, []string{"dir", "zz-gone"}) })
			os.Remove(filepath.Join(e.outer, "export", "dir", "zz-gone"))
			rt(36, func(fc *g.Fcall) error { return g.PackTopen(fc, 22, g.OREAD) })
			c.count("ufs-history:failing-requests")
		}
		// fids 1..nreq on files of the tree, then requests that open or create through them
		for j := 1; ok && j <= nreq; j++ {
			fid := uint32(j)
			names := [][]string{{"file"}, {"dir", fmt.Sprintf("f%d", r.Intn(7))}, {"dir"}}[r.Intn(3)]
			if w := rt(uint16(10+j), func(fc *g.Fcall) error { return g.PackTwalk(fc, 0, fid, names) }); w == nil || w.Type != g.Rwalk {
				ok = false
				break
			}
			v := &victim{tag: uint16(50 + j), point: []string{"process.fid", "process.fid", "process.check"}[r.Intn(3)],
				reached: make(chan bool), release: make(chan bool), ended: make(chan bool)}
			mu.Lock()
			vs = append(vs, v)
			mu.Unlock()
			fc := g.NewFcall(8192)
			if len(names) == 1 && names[0] == "dir" && r.Intn(2) == 0 {
				g.PackTcreate(fc, fid, fmt.Sprintf("new%d", j), 0o644, g.ORDWR, "", dotu)
			} else {
				g.PackTopen(fc, fid, g.OREAD)
			}
			g.SetTag(fc, v.tag)
			cn.SetWriteDeadline(time.Now().Add(3 * time.Second))
			cn.Write(fc.Pkt)
			waitc(v.reached, 2*time.Second)
		}
		cn.Close()
		if r.Intn(3) > 0 {
			waitc(closed, 5*time.Second)
		}
		for _, j := range r.Perm(len(vs)) {
			close(vs[j].release)
			if r.Intn(2) == 0 {
				time.Sleep(time.Duration(r.Intn(300)) * time.Microsecond)
			}
		}
		for _, v := range vs {
			waitc(v.ended, 3*time.Second)
		}
		waitc(closed, 5*time.Second)
		time.Sleep(2 * time.Millisecond)
		unsub()
		if !ok {
			c.oracleFail("C11/setup", "Ufs session set-up failed", line)
		} else {
			// no descriptor on anything in the exported tree is left (directories included)
			root := filepath.Join(e.outer, "export")
			var left []string
			ents, _ := os.ReadDir("/proc/self/fd")
			for _, ent := range ents {
				if l, err := os.Readlink(filepath.Join("/proc/self/fd", ent.Name())); err == nil && strings.HasPrefix(l, root) {
					left = append(left, strings.TrimPrefix(l, root))
				}
			}
			if len(left) > 0 {
				sort.Strings(left)
				c.oracleFail("C11/ufs-file-left-open", fmt.Sprintf("after the disconnect and the return of the executing requests the file server still holds descriptors on %v", left), line)
			}
		}
		e.closef()
		c.count("ufs-open-at-disconnect")
		c.emit(line, "*", true)
	}
}
