// harness — the Go side of the correspondence check.  Built from /repo's current
// working tree with -tags verif.  For one property it writes, into -dir:
//
//	cases.txt   one operation per line: "<id> <cmd> <args…>"   (fed to the Lean driver)
//	impl.txt    "<id> <canonical observable>" from running the real code on that line
//	oracle.txt  "<id> <signature> :: <description>" for oracle failures the harness itself
//	            evaluates on the implementation's behaviour (concurrency properties)
//	stats.json  the input distribution of this run
//
// Every random choice derives from -seed; case i uses PRNG(seed, i).
package main

import (
	"bufio"
	"encoding/json"
	"flag"
	"fmt"
	"io"
	"log"
	"math/rand"
	"os"
	"path/filepath"
	"runtime"
	"runtime/debug"
	"sort"
	"strings"
	"sync"
	"sync/atomic"
	"time"
)

type Ctx struct {
	prop     string
	tier     string
	seed     int64
	dir      string
	cases    *bufio.Writer
	impl     *bufio.Writer
	orac     *bufio.Writer
	jrnl     *os.File
	deadline time.Time
	mu       sync.Mutex
	n        int
	dist     map[string]int
	samples  []string
	nontriv  map[string]bool
}

func (c *Ctx) thorough() bool { return c.tier == "thorough" }

// stop reports that the wall-clock budget of this run is used up: generators end their
// loops early (what was explored so far is still compared and reported).
func (c *Ctx) stop() bool {
	if time.Now().After(c.deadline) {
		c.mu.Lock()
		c.dist["budget-exhausted"] = 1
		c.mu.Unlock()
		return true
	}
	return false
}

// scale picks the quick or thorough volume.
func (c *Ctx) scale(quick, thorough int) int {
	if c.thorough() {
		return thorough
	}
	return quick
}

func (c *Ctx) count(key string) {
	c.mu.Lock()
	c.dist[key]++
	c.mu.Unlock()
}

// emit records one case: its line-protocol text and the implementation's observable.
func (c *Ctx) emit(line, obs string, nontrivial bool) {
	c.mu.Lock()
	defer c.mu.Unlock()
	c.n++
	id := fmt.Sprintf("%s-%d", c.prop, c.n)
	fmt.Fprintf(c.cases, "%s %s\n", id, line)
	fmt.Fprintf(c.impl, "%s %s\n", id, obs)
	if nontrivial {
		key := line
		if len(key) > 200 {
			key = key[:200] + fmt.Sprint(len(line))
		}
		c.nontriv[key] = true
	}
	if len(c.samples) < 6 && len(line) < 300 {
		c.samples = append(c.samples, line+" => "+obs)
	}
}

// begin journals the case about to run (unbuffered), so that a crash of the whole process
// — a panic in a goroutine of the library cannot be recovered — still names its input.
func (c *Ctx) begin(line string) {
	c.mu.Lock()
	defer c.mu.Unlock()
	atomic.StoreInt64(&caseStart, time.Now().UnixNano())
	if c.jrnl != nil {
		c.jrnl.Truncate(0)
		c.jrnl.WriteAt([]byte(line+"\n"), 0)
	}
}

// oracleFail records an oracle failure evaluated by the harness itself.
func (c *Ctx) oracleFail(sig, desc, replay string) {
	c.mu.Lock()
	defer c.mu.Unlock()
	fmt.Fprintf(c.orac, "%s :: %s :: %s\n", sig, desc, replay)
}

// rng returns the PRNG of case i (independent of worker count).
func (c *Ctx) rng(i int) *rand.Rand { return rand.New(rand.NewSource(c.seed*1000003 + int64(i))) }

// guard runs f and maps a Go panic to the observable "panic".
func guard(f func() string) (out string) {
	defer func() {
		if r := recover(); r != nil {
			out = "panic"
			lastPanic = fmt.Sprintf("%v\n%s", r, debug.Stack())
		}
	}()
	return f()
}

var lastPanic string

// caseStart is when the journaled case began; the watchdog ends the process when one case
// runs for more than a minute (a hang), leaving the journal to name it.
var caseStart int64

func watchdog(limit time.Duration) {
	for {
		time.Sleep(time.Second)
		st := atomic.LoadInt64(&caseStart)
		if st != 0 && time.Since(time.Unix(0, st)) > limit {
			buf := make([]byte, 1<<16)
			n := runtime.Stack(buf, true)
			fmt.Fprintf(os.Stderr, "fatal error: harness watchdog: case running for more than %v\n%s\n", limit, buf[:n])
			os.Exit(3)
		}
	}
}

type propRunner struct {
	gen  func(c *Ctx)                     // generate + execute cases
	exec func(line string) (string, bool) // execute one line (replay, corpus)
}

var props = map[string]propRunner{}

func main() {
	prop := flag.String("prop", "", "property id")
	tier := flag.String("tier", "quick", "quick|thorough")
	seed := flag.Int64("seed", 1, "seed")
	dir := flag.String("dir", "", "output directory")
	replay := flag.String("replay", "", "file of case lines to execute instead of generating")
	corpus := flag.String("corpus", "", "corpus file of case lines executed first")
	budget := flag.Duration("budget", 0, "wall-clock budget for generation (default 400s quick, 25m thorough)")
	flag.Parse()
	go watchdog(90 * time.Second)
	if os.Getenv("VERIF_LOG") == "" {
		log.SetOutput(io.Discard) // the library logs dropped connections; keep the channel to ./check clean
	}
	pr, ok := props[*prop]
	if !ok {
		fmt.Fprintln(os.Stderr, "unknown property", *prop)
		os.Exit(2)
	}
	must := func(err error) {
		if err != nil {
			fmt.Fprintln(os.Stderr, err)
			os.Exit(2)
		}
	}
	must(os.MkdirAll(*dir, 0o755))
	open := func(n string) (*os.File, *bufio.Writer) {
		f, err := os.Create(filepath.Join(*dir, n))
		must(err)
		return f, bufio.NewWriterSize(f, 1<<20)
	}
	cf, cw := open("cases.txt")
	inf, iw := open("impl.txt")
	of, ow := open("oracle.txt")
	jf, err := os.Create(filepath.Join(*dir, "journal.txt"))
	must(err)
	c := &Ctx{prop: *prop, tier: *tier, seed: *seed, dir: *dir, cases: cw, impl: iw, orac: ow, jrnl: jf,
		dist: map[string]int{}, nontriv: map[string]bool{}}
	if *budget == 0 {
		*budget = 400 * time.Second
		if *tier == "thorough" {
			*budget = 25 * time.Minute
		}
	}
	c.deadline = time.Now().Add(*budget)
	witnessCtx = c
	runFile := func(path string) {
		f, err := os.Open(path)
		if err != nil {
			return
		}
		defer f.Close()
		sc := bufio.NewScanner(f)
		sc.Buffer(make([]byte, 1<<20), 1<<28)
		for sc.Scan() {
			line := strings.TrimSpace(sc.Text())
			if line == "" || strings.HasPrefix(line, "#") {
				continue
			}
			// strip a leading id if present (replay files carry "<id> <cmd> …")
			if f := strings.SplitN(line, " ", 2); len(f) == 2 && strings.HasPrefix(f[0], *prop+"-") {
				line = f[1]
			}
			if pr.exec == nil {
				continue
			}
			c.begin(line)
			obs, nt := pr.exec(line)
			c.count("corpus")
			c.emit(line, obs, nt)
		}
	}
	if *corpus != "" {
		runFile(*corpus)
	}
	if *replay != "" {
		runFile(*replay)
	} else {
		pr.gen(c)
	}
	atomic.StoreInt64(&caseStart, 0)
	jf.Truncate(0)
	jf.Close()
	cw.Flush()
	iw.Flush()
	ow.Flush()
	cf.Close()
	inf.Close()
	of.Close()
	keys := make([]string, 0, len(c.dist))
	for k := range c.dist {
		keys = append(keys, k)
	}
	sort.Strings(keys)
	st := map[string]interface{}{"evaluations": c.n, "distinct_nontrivial": len(c.nontriv),
		"distribution": c.dist, "samples": c.samples, "seed": *seed, "tier": *tier}
	b, _ := json.MarshalIndent(st, "", " ")
	must(os.WriteFile(filepath.Join(*dir, "stats.json"), b, 0o644))
}
