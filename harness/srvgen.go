package main

// Generators of sequential histories for C04 / C05 / C12.

import (
	"fmt"
	"math/rand"
	"net"
	"strings"
	"sync/atomic"

	g "github.com/rminnich/go9p"
)

func init() {
	props["C04"] = propRunner{gen: genC04, exec: execSrvSeq}
	props["C05"] = propRunner{gen: genC05, exec: execSrvSeq}
	props["C12"] = propRunner{gen: genC12, exec: execSrvSeq}
}

type gfid struct {
	dir, opened, auth bool
	omode             int
}

// histGen tracks a rough picture of the fid table so that most requests are legal.
type histGen struct {
	r     *rand.Rand
	fids  map[uint32]*gfid
	dotu  bool
	auth  bool
	msize uint32
	steps []string
}

var fidNums = []uint32{1, 2, 3, 4}

func (h *histGen) pickFid(valid bool) uint32 {
	r := h.r
	var ks []uint32
	for _, k := range fidNums {
		if _, ok := h.fids[k]; ok == valid {
			ks = append(ks, k)
		}
	}
	if len(ks) == 0 || r.Intn(12) == 0 {
		return []uint32{1, 2, 3, 4, 77, 4294967295}[r.Intn(6)]
	}
	return ks[r.Intn(len(ks))]
}

func qidOf(dir bool, r *rand.Rand) string {
	t := 0
	if dir {
		t = 128
	}
	if r.Intn(15) == 0 {
		t |= []int{64, 2, 4, 1}[r.Intn(4)]
	}
	return fmt.Sprintf("%d:%d:%d", t, r.Intn(5), r.Intn(1000))
}

func errAns(r *rand.Rand) string {
	texts := []string{"nope", "file not found", "permission denied", "", strings.Repeat("x", 40)}
	return fmt.Sprintf("E:%s:%d", hexOr([]byte(texts[r.Intn(len(texts))])), []int{2, 5, 13, 0}[r.Intn(4)])
}

func (h *histGen) add(msg, ans string) { h.steps = append(h.steps, msg+" > "+ans) }

func (h *histGen) step() {
	r := h.r
	fail := r.Intn(6) == 0
	switch k := r.Intn(100); {
	case k < 12: // attach
		f := h.pickFid(false)
		afid := uint32(4294967295)
		if r.Intn(5) == 0 {
			afid = h.pickFid(true)
		}
		unum := []uint32{0, 7, 1000, 4294967295}[r.Intn(4)]
		uname := []string{"-", hexOr([]byte("glenda"))}[r.Intn(2)]
		dir := r.Intn(5) > 0
		ans := "Rattach " + qidOf(dir, r)
		if fail {
			ans = errAns(r)
		}
		if h.auth && r.Intn(4) == 0 {
			ans += " , " + errAns(r)
			fail = true
		}
		h.add(fmt.Sprintf("Tattach %d %d %s - %d", f, afid, uname, unum), ans)
		if !fail && (unum != 4294967295 || h.dotu) && f != 4294967295 {
			if _, ok := h.fids[f]; !ok && (afid == 4294967295 || h.fids[afid] != nil) {
				h.fids[f] = &gfid{dir: dir}
			}
		}
	case k < 17: // auth
		f := h.pickFid(false)
		ans := "Rauth " + qidOf(false, r)
		if fail {
			ans = errAns(r)
		}
		unum := []uint32{0, 7, 4294967295}[r.Intn(3)]
		h.add(fmt.Sprintf("Tauth %d %s - %d", f, hexOr([]byte("u")), unum), ans)
		if !fail && h.auth && (unum != 4294967295 || h.dotu) && f != 4294967295 {
			if _, ok := h.fids[f]; !ok {
				h.fids[f] = &gfid{auth: true}
			}
		}
	case k < 40: // walk
		f := h.pickFid(true)
		nf := h.pickFid(false)
		if r.Intn(4) == 0 {
			nf = f
		}
		n := []int{0, 0, 1, 1, 2, 3, 16}[r.Intn(7)]
		names := make([]string, n)
		for i := range names {
			names[i] = hexOr([]byte(fmt.Sprintf("n%d", i)))
		}
		got := n
		if fail && n > 0 {
			got = r.Intn(n)
		}
		lastDir := true
		qs := make([]string, got)
		for i := range qs {
			lastDir = r.Intn(3) > 0
			qs[i] = qidOf(lastDir, r)
		}
		ans := "Rwalk " + showList(qs)
		if r.Intn(10) == 0 {
			ans = errAns(r)
			got = -1
		}
		h.add(fmt.Sprintf("Twalk %d %d %s", f, nf, showList(names)), ans)
		src := h.fids[f]
		if src != nil && got == n && !src.opened && (n == 0 || src.dir) && !src.auth {
			if nf == f {
				if n > 0 {
					src.dir = lastDir
				}
			} else if _, ok := h.fids[nf]; !ok && nf != 4294967295 {
				d := src.dir
				if n > 0 {
					d = lastDir
				}
				h.fids[nf] = &gfid{dir: d}
			}
		}
	case k < 50: // open
		f := h.pickFid(true)
		mode := []int{0, 1, 2, 3, 16, 17, 18, 0x40, 0x20, 255}[r.Intn(10)]
		src := h.fids[f]
		dir := src != nil && src.dir
		ans := fmt.Sprintf("Ropen %s %d", qidOf(dir, r), []int{0, 8192}[r.Intn(2)])
		if fail {
			ans = errAns(r)
		}
		h.add(fmt.Sprintf("Topen %d %d", f, mode), ans)
		if src != nil && !fail && !src.opened && !(src.dir && mode != 0) && !src.auth {
			src.opened = true
			src.omode = mode
		}
	case k < 56: // create
		f := h.pickFid(true)
		perm := []uint32{0644, 0x80000000 | 0755, 0x02000000, 0x00200000, 0x01000000, 0x00800000, 0x00100000, 0xffffffff}[r.Intn(8)]
		mode := []int{0, 1, 2, 16}[r.Intn(4)]
		cd := perm&0x80000000 != 0
		ans := fmt.Sprintf("Rcreate %s 0", qidOf(cd, r))
		if fail {
			ans = errAns(r)
		}
		h.add(fmt.Sprintf("Tcreate %d %s %d %d -", f, hexOr([]byte("new")), perm, mode), ans)
		src := h.fids[f]
		if src != nil && !fail && !src.opened && src.dir && !(cd && mode != 0) && (h.dotu || perm&0x03a00000 == 0) {
			src.opened = true
			src.omode = mode
			src.dir = cd
		}
	case k < 68: // read
		f := h.pickFid(true)
		cnt := h.count()
		d := genBytes(r, r.Intn(20))
		if uint32(len(d)) > cnt {
			d = d[:cnt]
		}
		ans := "Rread " + hexOr(d)
		if fail {
			ans = errAns(r)
		}
		off := []uint64{0, 0, 5, 1 << 40, ^uint64(0)}[r.Intn(5)]
		h.add(fmt.Sprintf("Tread %d %d %d", f, off, cnt), ans)
	case k < 78: // write
		f := h.pickFid(true)
		cnt := h.count()
		d := genBytes(r, r.Intn(12))
		ans := fmt.Sprintf("Rwrite %d", len(d))
		if fail {
			ans = errAns(r)
		}
		h.add(fmt.Sprintf("Twrite %d %d %d %s", f, r.Intn(100), len(d), hexOr(d)), ans)
		_ = cnt
	case k < 84: // stat / wstat
		f := h.pickFid(true)
		if r.Intn(2) == 0 {
			ans := "Rstat " + genStat(r, false)
			if fail {
				ans = errAns(r)
			}
			h.add(fmt.Sprintf("Tstat %d", f), ans)
		} else {
			ans := "Rwstat"
			if fail {
				ans = errAns(r)
			}
			h.add(fmt.Sprintf("Twstat %d %s", f, genStat(r, false)), ans)
		}
	case k < 94: // clunk
		f := h.pickFid(true)
		ans := "Rclunk"
		if fail {
			ans = errAns(r)
		}
		h.add(fmt.Sprintf("Tclunk %d", f), ans)
		if src := h.fids[f]; src != nil && (!fail || src.auth) {
			if !(src.auth && !h.auth) {
				delete(h.fids, f)
			}
		}
	case k < 98: // remove
		f := h.pickFid(true)
		ans := "Rremove"
		if fail {
			ans = errAns(r)
		}
		h.add(fmt.Sprintf("Tremove %d", f), ans)
		delete(h.fids, f)
	default: // flush of a tag that is not outstanding, or an R-message as request
		if r.Intn(2) == 0 {
			old := r.Intn(100)
			if r.Intn(3) == 0 {
				old = len(h.steps) + 1 // its own tag: a Tflush naming itself finds nothing to flush
			}
			h.add(fmt.Sprintf("Tflush %d", old), "Rflush")
		} else {
			h.add("Rclunk", "Rclunk")
		}
	}
}

func (h *histGen) count() uint32 {
	m := h.msize
	if m < 24 {
		m = 24
	}
	return []uint32{0, 1, m - 25, m - 24, m - 23, 1 << 31, 1<<32 - 24, 1<<32 - 1, uint32(h.r.Intn(200))}[h.r.Intn(9)]
}

func (h *histGen) version() {
	r := h.r
	cm := []uint32{h.msize, h.msize + 1, h.msize - 1, 24, 23, 25, 8192, 1<<32 - 1, 0, 4096}[r.Intn(10)]
	ver := []string{"9P2000", "9P2000.u", "9P2000.L", "", "junk", "9P2000.u "}[r.Intn(6)]
	h.add(fmt.Sprintf("Tversion %d %s", cm, hexOr([]byte(ver))), "Rflush")
}

func genHistory(r *rand.Rand, n int) string {
	msize := []uint32{24, 25, 31, 64, 128, 4096, 8216}[r.Intn(7)]
	if r.Intn(3) > 0 {
		msize = []uint32{4096, 8216}[r.Intn(2)]
	}
	h := &histGen{r: r, fids: map[uint32]*gfid{}, dotu: r.Intn(2) == 0, auth: r.Intn(3) == 0, msize: msize}
	if r.Intn(3) > 0 {
		h.version()
	}
	for i := 0; i < n; i++ {
		h.step()
		if r.Intn(60) == 0 {
			h.version()
		}
	}
	return fmt.Sprintf("srvseq %d %s %s ; %s", msize, b2s(h.dotu), b2s(h.auth), strings.Join(h.steps, " ; "))
}

func (c *Ctx) runSeq(line string) {
	c.begin(line)
	obs, nt := execSrvSeq(line)
	c.emit(line, obs, nt)
}

func genC04(c *Ctx) {
	withOracle(c, (*oracleState).c04, genSeq)
	// concurrency on one fid number: a request using a fid while its Tclunk is completing, and the
	// number reused afterwards (the table is replayed on G9.FidLife)
	genFidTable(c, "C04", []string{"dying-reuse", "mixed", "newfid-twice"}, c.scale(45, 1500))
}

func genSeq(c *Ctx) {
	i := 0
	for k := 0; k < c.scale(2500, 60000) && !c.stop(); k++ {
		i++
		r := c.rng(i)
		n := []int{1, 2, 3, 4, 6, 10, 25}[r.Intn(7)]
		c.count(fmt.Sprintf("history-len:%d", n))
		c.runSeq(genHistory(r, n))
	}
	for k := 0; k < c.scale(20, 400) && !c.stop(); k++ {
		i++
		r := c.rng(i)
		c.count("history-len:long")
		c.runSeq(genHistory(r, 200+r.Intn(c.scale(300, 1800))))
	}
}

func withOracle(c *Ctx, f func(o *oracleState, st *seqStep), gen func(c *Ctx)) {
	o := &oracleState{c: c, valid: map[uint32]int{}}
	seqOracle = func(st *seqStep) { f(o, st) }
	gen(c)
	seqOracle = nil
}

func genC05(c *Ctx) { withOracle(c, (*oracleState).c05, genSeq) }
func genC12(c *Ctx) {
	bw := startBufWatch()
	withOracle(c, (*oracleState).c12, genSeq)
	bw.emit(c)
	genConnect(c)
}

// the client's Connect against the real framework, both dialects on both sides, msizes around each other
// and around the I/O header: what the two ends agree on is compared with G9.Version.connect
func genConnect(c *Ctx) {
	sizes := []uint32{0, 23, 24, 25, 100, 4096, 8192, 8216, 65536, 1 << 20}
	for _, cm := range sizes {
		for _, sm := range sizes {
			if sm < 24 {
				continue // a server that cannot carry an I/O header is a configuration error, not a negotiation
			}
			for _, cd := range []bool{false, true} {
				for _, sd := range []bool{false, true} {
					line := fmt.Sprintf("connect %d %s %d %s", cm, b2s(cd), sm, b2s(sd))
					c.begin(line)
					obs, ok := execConnect(line)
					c.count("connect")
					c.emit(line, obs, ok)
				}
			}
		}
	}
}

// execConnect runs one `connect <client msize> <client dotu> <server msize> <server dotu>` line.
func execConnect(line string) (string, bool) {
	t := strings.Fields(line)
	cm, cd := uint32(atou(t[1], 32)), t[2] == "1"
	sm, sd := uint32(atou(t[3], 32)), t[4] == "1"
	srv := &g.Srv{Msize: sm, Dotu: sd, Log: sharedLog}
	if !srv.Start(&script{}) {
		panic("Srv.Start refused the scripted ops")
	}
	a, b := net.Pipe()
	srv.NewConn(pconn{a})
	var sc *g.Conn
	for _, cn := range g.VerifConns(srv) {
		sc = cn
	}
	defer b.Close()
	cl, err := g.Connect(pconn{b}, cm, cd)
	if err != nil || sc == nil {
		return "refused", false
	}
	vi := g.VerifConn(sc)
	obs := fmt.Sprintf("ok %d %s %d %s", atomic.LoadUint32(&cl.Msize), b2s(cl.Dotu), vi.Msize, b2s(vi.Dotu))
	cl.Unmount()
	return obs, true
}
