#!/bin/sh
# Build the framework offline from files on disk: regenerate Generated.lean from /repo,
# compile models, proofs and the driver, and warm the Go build cache for harness and extractor.
set -e
cd "$(dirname "$0")"
export GOFLAGS=-mod=mod GOPROXY=off
mkdir -p work/bin evidence replays
cp /repo/go.sum extract/go.sum 2>/dev/null || true
cp /repo/go.sum harness/go.sum 2>/dev/null || true
(cd extract && go build -tags verif -o ../work/bin/extract .)
./work/bin/extract > lean/G9/Generated.lean
./work/bin/extract -lockfacts /repo > lean/G9/GeneratedLocks.lean
(cd lean && lake build)
(cd harness && go build -tags verif -o ../work/bin/harness .)
echo setup ok
