#!/usr/bin/env python3
"""Rewrite MANIFEST.json from checklib/claims.py (keeps it valid and in one place)."""
import json, os, sys
V = os.path.dirname(os.path.dirname(os.path.abspath(__file__)))
sys.path.insert(0, os.path.join(V, "checklib"))
from claims import CLAIMS, HOOK_COMMITS, NOT_APPLICABLE
ids = [json.loads(l)["id"] for l in open(os.path.join(V, "properties.jsonl"))]
checks = []
for pid in ids:
    if pid not in CLAIMS:
        continue
    c = CLAIMS[pid]
    checks.append({
        "property_id": pid,
        "quick_cmd": "./check %s --tier quick" % pid,
        "thorough_cmd": "./check %s --tier thorough" % pid,
        "evidence_file": "/verif/evidence/%s.json" % pid,
        "replay_cmd_template": "./check %s --replay {path}" % pid,
        "engine": "lean4-proof+correspondence",
        "level_claimed": {"category": "proof", "text": c["text"], "design_ref": "DESIGN.md section 5, " + pid},
        "level_note": c["note"],
        "technique": c["technique"],
    })
na = [{"property_id": p, "reason": NOT_APPLICABLE.get(p, "check under construction; not claimed until its proof and correspondence run green (DESIGN.md section 5)")}
      for p in ids if p not in CLAIMS]
m = {
    "version": 1,
    "setup_cmd": "./setup.sh",
    "hooks": {"guard": "verif",
              "enable": "go build -tags verif (harness and extractor are built from /repo's working tree with the tag)",
              "baseline_off_cmd": "cd /repo && go test -mod=mod -json -vet=off -count=1 -timeout 25m ./...",
              "source_commits": HOOK_COMMITS, "add_only": True},
    "engines": [{"name": "lean4-proof+correspondence", "path": "/verif/check",
                 "serves_properties": [c["property_id"] for c in checks],
                 "kind_free_text": "Lean 4 models and theorems (lean/G9, lean/G9Proofs), constants regenerated from /repo by extract/, differential correspondence between the Go harness (harness/, -tags verif) and the compiled Lean driver"}],
    "checks": checks,
    "notes": "All checks: ./check <ID> [--tier quick|thorough]; VERIF_SEED seeds every generator. See DESIGN.md.",
    "not_applicable": na,
}
json.dump(m, open(os.path.join(V, "MANIFEST.json"), "w"), indent=1)
print("manifest:", len(checks), "checks,", len(na), "not claimed")
