"""Per-property configuration of ./check (what is modelled rather than verified, how cases
are generated, what counts as non-trivial)."""

CODEC_MODELLED = [
    "modelled, not verified: Go slices/strings/copy as List UInt8 operations; integer conversions as in the Go spec",
]

PROPS = {
    "C01": {
        "rule": "27 message types x 2 dialects x field classes {0,1,max,max-1,random}, string length classes "
                "{0,1,2,3..22,255,256,65534,65535}, 0..17 and 65535 walk elements, payloads 0..12K, buffers of "
                "size-1/size/size+1/size+50; each case runs the real constructor, SetTag, Unpack(pkt++junk), "
                "PackDir/UnpackDir, InitRread/SetRreadCount. also the two-step Rread with a tag set between the steps. non-trivial = distinct case lines whose implementation "
                "observable is a success (a packet or decoded fields), counted by the harness",
        "modelled": CODEC_MODELLED + ["Fcall.String/fmt are out of scope"],
        "assumptions": ["the Lean model G9.Wire.Go mirrors p9.go/packt.go/packr.go/unpack.go (checked by the "
                        "differential run of this check, not proved)",
                        "Spec.encode is the protocol layout (read it: lean/G9/Wire/Spec.lean)"],
    },
    "C02": {
        "rule": "canonical packet of every type in both dialects: every truncation (with and without size fix-up), "
                "every declared size 0..len+8 and extremes, substitution {0,1,0x7f,0x80,0xff} at every offset, junk "
                "inside the declared size, the other dialect, count fields that lie (2^28, 2^32-1), element counts whose byte "
                "requirement wraps around in 16 bits with a body about that long, stat records "
                "truncated/substituted, random bytes, splices, bit flips; allocation measured per decode. "
                "non-trivial = distinct inputs that decode successfully",
        "modelled": CODEC_MODELLED + ["allocation: only the make() calls whose size comes from a count field are in "
                                      "the theorem; measured TotalAlloc is compared with 9*len+1024"],
        "assumptions": ["same mirror as C01", "Go allocator rounding and unrelated goroutines stay below the slack"],
    },
    "C20": {
        "rule": "capacities 1..64 (1..4 oversampled), random Log/Filter sequences with 1..3 owners + nil owner, types 0..3, "
                "lengths below/at/above/far above capacity; drained filters compared exactly with the loop mirror and the "
                "lastN specification; undrained filters and 2..6 concurrent producers validated by the model as acceptor "
                "(window of some admissible prefix; per-producer suffix order); 2..5 concurrent Filter callers with different "
                "arguments on a logger at rest, 300 calls each, every answer the sequential one. non-trivial = distinct sequences",
        "modelled": ["modelled, not verified: Go channels as FIFO lists with capacity 16; select fairness; Logger.Resize is out of scope"],
        "assumptions": ["G9.Logger mirrors log.go (checked by this check's differential run)",
                        "the logger goroutine is scheduled (no real-time bound is proved)"],
    },
    "C04": {
        "rule": "random sequential histories (1..25 requests, plus long ones of 200..2000) over fid numbers {1,2,3,4,77,NOFID}: "
                "attach/auth/walk (full, partial, failing, in place)/open/create/read/write/stat/wstat/clunk/remove/flush/"
                "R-message-as-request/Tversion, each with scripted implementation success or error, with and without AuthOps, "
                "both dialects, msize 24..8216; after every request the real framework's reply, calls into the implementation, "
                "FidDestroy log and whole fid table (number,user,type,opened,mode,diroffset,refcount via the verif accessor) are "
                "compared with the model step. Every fid shown to the implementation by a request that did not make it valid must be reported destroyed before the reply. non-trivial = distinct histories with at least one non-error reply",
        "modelled": ["modelled, not verified: one request at a time (each answered before the next is sent); the fid map as an "
                     "association list; users as uid numbers (OsUsers)"],
        "assumptions": ["G9.SrvSeq mirrors srv_srv.go/srv_fcall.go/srv_respond.go for sequential histories (checked by the differential run)",
                        "concurrent requests on one connection are the subject of C03/C07/C08/C11, not of this model"],
    },
    "C05": {
        "rule": "same sequential-history generator as C04 (fid absent/directory/file/auth x unopened/open in modes "
                "{0,1,2,3,16,17,18,0x20,0x40,255} x every request type x permission classes incl. every special-file bit x "
                "counts {0,1,m-25,m-24,m-23,2^31,2^32-24,2^32-1,random} x msize 24..8216 x dialect x AuthOps); the C05 oracle "
                "(rules of the statement) is evaluated on the real framework's reply and call log from the fid state read "
                "before the request. non-trivial = distinct histories with at least one non-error reply",
        "modelled": ["modelled, not verified: sequential histories; effects-visible ordering across goroutines is M4's (C03) subject"],
        "assumptions": ["G9.SrvSeq mirrors the guards of srv_fcall.go (checked by the differential run)"],
    },
    "C12": {
        "rule": "same generator: server msize {24,25,31,64,128,4096,8216} x client msize {equal,+-1,23,24,25,8192,2^32-1,0} x "
                "server dialect x version string {9P2000, 9P2000.u, 9P2000.L, empty, junk, '9P2000.u '}, renegotiation "
                "mid-history (so recycled reply buffers predate the msize), every reply type incl. long Rstat/Rwalk/Rerror, "
                "request frames longer than msize. Oracle: negotiated values, reply length <= msize, Rread <= count, "
                "oversize frames dropped unexecuted. non-trivial = distinct histories with a non-error reply",
        "modelled": ["modelled, not verified: client side (Connect) and the byte-level receive loop are covered by C09/C13"],
        "assumptions": ["G9.SrvSeq mirrors Srv.version and the Respond* buffer checks (checked by the differential run)"],
    },
    "C13": {
        "rule": "server: after an interactive set-up, a body of 6..25 mutually independent requests with distinct tags "
                "(7-byte to near-msize frames, msize 64..4096 so the 8*msize buffer is advanced through and reallocated), "
                "optionally one malformed frame (undersize, oversize, undefined type), delivered whole, cut at every single "
                "offset, one byte at a time, and in random multi-way cuts through a pipe whose Read returns exactly the "
                "chunk; Twrite payloads are looked at by the implementation only after all later chunks arrived. Compared "
                "with the model: frames executed / connection ended; oracle: replies and payloads identical to the "
                "unsegmented run; bodies that open with a Tversion switching a .u session to plain 9P2000 and lowering msize, "
                "followed by requests that decode only in the new dialect and frames only the old msize admits (model: "
                "G9.FrameV). client: 1..8 concurrent calls answered in one reply stream cut arbitrarily. "
                "non-trivial = distinct (body, cuts) runs that executed at least one frame",
        "modelled": ["modelled, not verified: the transport as a reliable byte stream whose Read returns 1..len bytes; "
                     "uint32 wrap of msize*8 for msize >= 2^29 is outside the model (a server cannot be configured that large in practice)"],
        "assumptions": ["G9.Frame mirrors the receive loops of srv_conn.go and clnt_clnt.go (checked by the differential run)"],
    },
    "C14": {
        "rule": 'real client <-> real Ufs on a scratch tree: 1..4 files open at once with lengths {0,1,iounit-1,iounit,iounit+1,2iounit+-1,random}, msize 128..64K, both dialects, 12 random operations each (Clnt.Read, File.Readn, File.Read, Clnt.Write, File.Written) at boundary and random (offset,count) incl. counts > iounit and offsets past EOF; oracle os.ReadFile; Readn lengths compared with the Lean loop. Results of Clnt.Read held while ten receive buffers of further replies arrive, compared at the end. non-trivial = distinct scenario lines and readn cases',
        "modelled": ['modelled, not verified: everything the operating system does (Lstat, ReadAt, WriteAt, Readdir, Mkdir, Symlink, Link, Remove, Rename, Truncate, Chmod, Chtimes), os/user, time; sort.SearchInts as first-index->= on a sorted slice'],
        "assumptions": ["G9.UfsLogic mirrors the arithmetic/decision logic of ufs.go and the client file helpers (checked by the differential run)", "runs as the current user; permission-denied outcomes are never required"],
    },
    "C15": {
        "rule": 'real directories of 0,1,2,3,7,50 (thorough: thousands of) entries with name lengths 1..255, msize 304..64K, both dialects: full listing decoded record by record and compared with the directory; Readdir(0) from a fresh open and from a moved offset compared with the Lean model of the client loop (entries, order, offset left); for small directories every count from the largest entry to three entries at every entry boundary, too-small counts, random counts, listing with a random count per read; offsets the rule does not allow (inside an entry, past the end, 2^62, 2^64-1); each probe compared with the Lean window. non-trivial = distinct probes that returned data',
        "modelled": ['modelled, not verified: everything the operating system does (Lstat, ReadAt, WriteAt, Readdir, Mkdir, Symlink, Link, Remove, Rename, Truncate, Chmod, Chtimes), os/user, time; sort.SearchInts as first-index->= on a sorted slice'],
        "assumptions": ["G9.UfsLogic mirrors the arithmetic/decision logic of ufs.go and the client file helpers (checked by the differential run)", "runs as the current user; permission-denied outcomes are never required"],
    },
    "C16": {
        "rule": "random trees (nesting 2..40, names 1..255 bytes with spaces and non-ASCII, files, directories, symlinks, a hard link, a chain deep enough for several Twalks): stat of every object in both dialects against os.Lstat (type bits, length, permission bits, mtime, name, qid path = inode, distinct for distinct files); walks of 0..16 elements of which a prefix exists, in place and to a new fid, with the fids' targets checked afterwards; walk outcome compared with the Lean model. After a partial in-place walk the fid is walked from again. non-trivial = distinct walks that resolved",
        "modelled": ['modelled, not verified: everything the operating system does (Lstat, ReadAt, WriteAt, Readdir, Mkdir, Symlink, Link, Remove, Rename, Truncate, Chmod, Chtimes), os/user, time; sort.SearchInts as first-index->= on a sorted slice'],
        "assumptions": ["G9.UfsLogic mirrors the arithmetic/decision logic of ufs.go and the client file helpers (checked by the differential run)", "runs as the current user; permission-denied outcomes are never required"],
    },
    "C17": {
        "rule": 'twin trees: random sequences of create/mkdir/remove/write/truncate/chmod/rename (free and occupied names)/set-mtime applied through 9P to one copy and with the os package to the other, compared after every step (names, kinds, contents, permission bits, link targets, link counts) together with success/failure and, in .u, the errno; the open-flag table compared for all 256 modes; for every create/mkdir/symlink/link/truncate/chmod/rename/set-mtime that reaches Ufs, the plan of POSIX calls of G9.UfsPlan (compared line by line with the rendering of the harness) is applied to a third tree, which must equal the exported tree afterwards, with the same success/failure. non-trivial = distinct scenarios + table rows',
        "modelled": ['modelled, not verified: everything the operating system does (Lstat, ReadAt, WriteAt, Readdir, Mkdir, Symlink, Link, Remove, Rename, Truncate, Chmod, Chtimes), os/user, time; sort.SearchInts as first-index->= on a sorted slice'],
        "assumptions": ["G9.UfsLogic mirrors the arithmetic/decision logic of ufs.go and the client file helpers (checked by the differential run)", "runs as the current user; permission-denied outcomes are never required"],
    },
    "C18": {
        "rule": "attach names, walk lists, create names, symlink targets and rename targets drawn from a grammar of '..', '.', '', '/', absolute paths, '../' chains and mixtures with real names at three depths, followed by stat/open/read; canary file and directory next to and above the root must stay untouched and no qid or data of an outside object may be returned; filepath.Clean mirror compared on a component grammar. non-trivial = distinct scenarios and paths",
        "modelled": ['modelled, not verified: everything the operating system does (Lstat, ReadAt, WriteAt, Readdir, Mkdir, Symlink, Link, Remove, Rename, Truncate, Chmod, Chtimes), os/user, time; sort.SearchInts as first-index->= on a sorted slice'],
        "assumptions": ["G9.UfsLogic mirrors the arithmetic/decision logic of ufs.go and the client file helpers (checked by the differential run)", "runs as the current user; permission-denied outcomes are never required"],
    },
    "C09": {
        "rule": "real Clnt on an in-memory pipe against a scripted peer with its own frame reader: 1,2,3,4,5,8,17,64 concurrent callers, "
                "a random reply order per run (all permutations of up to 5 are reached over the seeds), reply kinds {matching R, Rerror with text "
                "and number, mismatched R}, the reply stream cut at up to 12 random points with delays; every call must return its own payload / "
                "the server's error / an error; tags seen by the peer pairwise distinct; 70 000 consecutive calls on one connection; the "
                "observed schedule is replayed through the Lean client model and its tag accounting compared with the client's. "
                "Several pipelined reads under one Tag, answered in arrival order, each completion the oldest one's; the pending list walked forwards and backwards after every step of random call/reply/free interleavings (reqlist). non-trivial = distinct scenarios in which all calls returned",
        "modelled": ["modelled, not verified: Go channels as FIFO lists; the Tag (pipelined) interface is exercised by the library's own tests only"],
        "assumptions": ["G9.Clnt mirrors ReqAlloc/ReqFree/Rpc/Rpcnb/recv (checked by the differential run on the accounting)"],
    },
    "C10": {
        "rule": "0..4 outstanding calls; the peer's reply stream is cut after every byte offset (sub-sampled above 40 offsets in the quick tier) "
                "and the connection closed; garbage, oversize (msize+1 and 2^31 with 9*msize bytes following), undersize frames, a reply with an "
                "unknown tag, Unmount during calls, a caller (the last, or the first with the others behind it on the pending list) held between "
                "the enqueue and the hand-off while the failure happens; oracle: every call returns, success only for "
                "replies completely inside the delivered prefix (payload intact), complete replies are delivered, later calls are refused "
                "promptly and cost no tag; schedule replayed through the Lean model; the hand-off/shutdown schedule points of every "
                "scenario replayed on G9.ClntIO (clntio lines). non-trivial = distinct failure scenarios",
        "modelled": ["modelled, not verified: wall-clock bounds (an 8 s watchdog tells blocked from slow)"],
        "assumptions": ["as C09"],
    },
    "C03": {
        "rule": "K in {1,2,3,4,5,8,16,64} requests of 6 types on K fids, all parked in the implementation (or answering from another "
                "goroutine), released in a random permutation (every permutation of up to 5 over the seeds), 1/5 answered twice, "
                "Maxpend in {0,1,8,64}, 1..3 rounds per connection (reply buffers recycled), random yields/sleeps at the library's "
                "schedule points; rolling windows that reuse a tag the moment its reply arrives while the answered request is held "
                "between queueing and unlinking; a Tflush waiting on an executing request while the writer is held up by a "
                "slow reader (the reply precedes the Rflush). Oracle on the decoded wire: one frame per request with its tag, matching type or "
                "Rerror, content equal to what the implementation produced, no other frame. Extra answers are sometimes errors (RespondError on an answered request); an Rerror on the wire for a request the implementation answered is a failure. non-trivial = distinct scenarios",
        "modelled": ["modelled, not verified: goroutines as program counters; each event is one lock-protected region or one channel "
                     "operation of srv_conn.go/srv_srv.go/srv_fcall.go; Go mutexes, channels (FIFO) and the scheduler are trusted; "
                     "what a reply contains is M3's business (C04/C05/C12); the model allows nested Respond calls to interleave with "
                     "their caller (a superset of the code's schedules)"],
        "assumptions": ["G9.SrvLife mirrors Conn.recv/send/close, SrvReq.process/Respond/Flush and Srv.flush: every run logs the code's "
                        "lock-protected regions from inside their locks and the Lean acceptor (G9.Driver.Life) must accept the log, comparing "
                        "status bits, flush targets, nextreq/flushreqs and the take order with the model's state",
                        "the implementation answers or flushes only requests it was handed (harness implementation does)"],
    },
    "C07": {
        "rule": "Tflush against 6 target types at every stage: same segment, queued behind a same-tag predecessor, after the check, "
                "inside the implementation (with/without FlushOp, honoured or not, asynchronous answers), parked at each respond.* point, "
                "after the reply, unknown tag, flush of a flush, 2..3 flushes of one request, and pairwise orderings of 6 target x 7 "
                "flusher schedule points in both directions. Oracle: one Rflush per Tflush; a reply to the target precedes it; a target "
                "without reply never reaches the implementation afterwards and leaves no fid/open state (probes). "
                "In half of the read/stat/wstat scenarios the reply-buffer pool is first filled with buffers that carried the target's kind of reply. non-trivial = distinct scenarios",
        "modelled": ["modelled, not verified: goroutines as program counters; each event is one lock-protected region or one channel "
                     "operation of srv_conn.go/srv_srv.go/srv_fcall.go; Go mutexes, channels (FIFO) and the scheduler are trusted; "
                     "what a reply contains is M3's business (C04/C05/C12); the model allows nested Respond calls to interleave with "
                     "their caller (a superset of the code's schedules)"],
        "assumptions": ["G9.SrvLife mirrors Conn.recv/send/close, SrvReq.process/Respond/Flush and Srv.flush: every run logs the code's "
                        "lock-protected regions from inside their locks and the Lean acceptor (G9.Driver.Life) must accept the log, comparing "
                        "status bits, flush targets, nextreq/flushreqs and the take order with the model's state",
                        "the implementation answers or flushes only requests it was handed (harness implementation does)"],
    },
    "C08": {
        "rule": "2..10 requests with 1..6 of them parked in the implementation on 1..2 connections, Maxpend in {0,1,8}: the others, a "
                "late request and a request on the other connection must be answered while they stay parked; then every release "
                "order. Shared-tag groups of 2..8 mixed with 0..3 other tags (gated, asynchronous or free-running): executed one at a "
                "time in arrival order, answered in that order. A third of the shared-tag groups contain a Tflush (of an unused tag) as a member, which waits its turn. non-trivial = distinct scenarios",
        "modelled": ["modelled, not verified: goroutines as program counters; each event is one lock-protected region or one channel "
                     "operation of srv_conn.go/srv_srv.go/srv_fcall.go; Go mutexes, channels (FIFO) and the scheduler are trusted; "
                     "what a reply contains is M3's business (C04/C05/C12); the model allows nested Respond calls to interleave with "
                     "their caller (a superset of the code's schedules)"] + ["modelled, not verified: 'never delays' is enabledness in the model; on the implementation it is observed "
                     "with an 8 s limit that only tells blocked from slow"],
        "assumptions": ["G9.SrvLife mirrors Conn.recv/send/close, SrvReq.process/Respond/Flush and Srv.flush: every run logs the code's "
                        "lock-protected regions from inside their locks and the Lean acceptor (G9.Driver.Life) must accept the log, comparing "
                        "status bits, flush targets, nextreq/flushreqs and the take order with the model's state",
                        "the implementation answers or flushes only requests it was handed (harness implementation does)"],
    },
    "C11": {
        "rule": "victim + bystander connection; 1..6 fids attached/walked/opened/created/clunked/removed; 0..4 requests (stat, walk, "
                "clunk, open) parked in the implementation at the disconnect, optionally a partial frame before it; released in "
                "every order afterwards. Oracle: ConnClosed once; every valid fid reported destroyed exactly once; goroutine census "
                "(recv, send, process, Respond) back to the bystander's two; bystander still served and untouched. "
                "Fid-table schedules: requests parked at the door of retain, between DecRef's two regions and before the FidDestroy "
                "call while the client disconnects (before and after Conn.close returned), a request using a fid whose Tclunk has "
                "dropped the last reference with the number reused afterwards, a second request creating a fid number that an "
                "executing request is creating, bursts of pipelined walks/stats/clunks; every region of "
                "the fid table is logged from inside its lock and replayed on G9.FidLife; at the end the model state must be quiescent "
                "and FidDestroy seen exactly once per fid object. The Ufs scenario is preceded by requests that fail inside the file server (hard link or create onto a taken name, open of a removed file). non-trivial = distinct scenarios",
        "modelled": ["modelled, not verified: goroutines as program counters; each event is one lock-protected region or one channel "
                     "operation of srv_conn.go/srv_srv.go/srv_fcall.go; Go mutexes, channels (FIFO) and the scheduler are trusted; "
                     "what a reply contains is M3's business (C04/C05/C12); the model allows nested Respond calls to interleave with "
                     "their caller (a superset of the code's schedules)"] + ["modelled, not verified: ConnClosed and the goroutine/descriptor census are "
                     "observed on the implementation only; the fid table is G9.FidLife: one event per lock-protected region of FidNew/FidGet/"
                     "retain/IncRef/DecRef/destroy/Conn.close, requests are represented only by the references they own"],
        "assumptions": ["G9.SrvLife mirrors Conn.recv/send/close, SrvReq.process/Respond/Flush and Srv.flush: every run logs the code's "
                        "lock-protected regions from inside their locks and the Lean acceptor (G9.Driver.Life) must accept the log, comparing "
                        "status bits, flush targets, nextreq/flushreqs and the take order with the model's state",
                        "the implementation answers or flushes only requests it was handed (harness implementation does)",
                        "G9.FidLife mirrors the fid table: the acceptor G9.Driver.FidLife must accept the log of every session, comparing "
                        "reference counts, pending/destroyed flags, table lookups and Conn.close's copy with the model's state; "
                        "request discipline (a request releases what it owns, the table's reference is released once per fid) is M3's theorem, assumed here"],
    },
    "C19": {
        "race": True,
        "rule": "race-detector build of the harness: 2..8 goroutines sharing one client against Ufs on a scratch tree (each on its own files and "
                "fids, all walks from the shared root fid, a file everybody reads), flushes with live targets on distinct fids with and "
                "without FlushOp (answers from the handler and from goroutines of the implementation's own), connections opened and dropped (quiescent) while another stays busy, schedule perturbation at the "
                "library's schedule points; every detector report with a library frame is a failure (signature: the racing functions). "
                "Static half: lock sets of every field access regenerated from the syntax tree and checked against the policy in Lean. "
                "non-trivial = distinct workloads",
        "modelled": ["modelled, not verified: the happens-before order of the Go memory model is represented by lock hand-off only "
                     "(G9.LockSet); channel operations, goroutine creation and sync.Once-style initialisation order the exempted and "
                     "unlisted accesses and are argued in lean/G9/Locks.lean, not proved",
                     "the must-hold lock sets are computed syntactically per function body (extract/lockfacts.go); calls are not followed"],
        "assumptions": ["extract/lockfacts.go reports the locks really held (trusted translator; its output is also what the race workloads exercise)",
                        "fields outside the policy are confined to one goroutine at a time by C19's premise (different fids) or written before sharing"],
    },
    "C06": {
        "rule": "hostile sessions against the real server (scripted implementation and Ufs on a scratch tree with files, sub-directories and a "
                "symlink), msize in {24,25,32,64,128,256,1024,8192,70000}, both dialects: structured sequences of 5..40 requests of every "
                "type (plus unknown and R types) with boundary and random fids/tags/counts/offsets/modes/permissions, names with '/', '..', "
                "NUL, empty and up to 64 KiB, lying walk counts, stat records with lying sizes, self-flushes, pipelined dependent requests; "
                "byte-level mutations of a valid 15-request session; raw random bytes; all written in random segments. The server runs in "
                "the harness's process: a panic in one of its goroutines ends the process and the journal names the session. After every "
                "session a bystander connection and a fresh one must be served. Sessions that reuse the tags of outstanding requests and flush them (requests cancelled before they start, with recycled reply buffers). non-trivial = distinct sessions",
        "modelled": ["modelled, not verified: only the decoder, the directory window and the framework's request rules carry theorems; nil "
                     "dereferences, type assertions, the os package and concurrent use of one fid are reached by the sessions only"],
        "assumptions": ["the same mirrors as C02, C04, C05, C12, C15 (each tied by its own correspondence)"],
    },
}
