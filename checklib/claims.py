"""What MANIFEST.json claims, per property (edited as checks go green)."""
HOOK_COMMITS = ["3b06268"]
NOT_APPLICABLE = {}
TB = ("Trusted: Lean 4.33.0 kernel (thorough: + leanchecker); axioms at most propext, Classical.choice, Quot.sound "
      "(audited by #print axioms on every run); the translator extract/ and the differential harness (testing, not proof). ")
CLAIMS = {
 "C01": {
  "technique": "Lean 4 proof (round-trip and layout theorems over a mirror of the codec) + regenerated constants + differential correspondence",
  "text": "Theorems pack_eq_spec, pack_small_buffer, spec_size_prefix, unpack_encode, unpack_pack, stat_roundtrip, setTag_spec, "
          "rread_two_step hold for all 27 message shapes, both dialects and every representable field value (no bound on lengths): "
          "the constructors emit exactly the protocol layout written independently in G9.Wire.Spec and Unpack inverts it consuming "
          "exactly the packet. The Lean mirror G9.Wire.Go is tied to the source by the regenerated tables/constants (a changed "
          "table entry breaks minSize_le_body) and by running real constructor/SetTag/Unpack/PackDir/UnpackDir/InitRread on ~15k "
          "(quick) structured cases against mirror and Spec.",
  "note": TB + "Modelled not verified: Go slices/strings as lists; function bodies are mirrored by hand and tied by the correspondence only.",
 },
 "C02": {
  "technique": "Lean 4 proof (totality/panic-freedom, shape, prefix independence, guarded allocation) + differential correspondence on malformed bytes",
  "text": "unpack_total/unpackDir_total: the mirror of Unpack/UnpackDir, whose primitive reads trap exactly where Go's do, never "
          "traps on any byte string in either dialect; unpack_ok_shape (consumed = size prefix, 7<=n<=len), unpack_prefix_indep "
          "(result independent of bytes past the declared size), unpack_alloc_bound (make() behind a guard: <= 8 bytes per input "
          "byte). Correspondence: every truncation/declared size/byte substitution of canonical packets of every type, lying count "
          "fields, random bytes, with measured allocation, on the real Unpack vs the mirror (~50k quick).",
  "note": TB + "The re-encode clause is covered by C01.unpack_encode for decoded messages that are representable; a direct theorem "
          "(decoded message is representable) is listed as future work in DESIGN.md. Allocation of the Go runtime is measured, not modelled.",
 },
}
