"""What MANIFEST.json claims, per property (edited as checks go green)."""
HOOK_COMMITS = ["3b06268"]
NOT_APPLICABLE = {}
TB = ("Trusted: Lean 4.33.0 kernel (thorough: + leanchecker); axioms at most propext, Classical.choice, Quot.sound "
      "(audited by #print axioms on every run); the translator extract/ and the differential harness (testing, not proof). ")
CLAIMS = {
 "C01": {
  "technique": "Lean 4 proof (round-trip and layout theorems over a mirror of the codec) + regenerated constants + differential correspondence",
  "text": "Theorems pack_eq_spec, pack_small_buffer, spec_size_prefix, unpack_encode, unpack_pack, stat_roundtrip, setTag_spec, "
          "rread_two_step hold for all 27 message shapes, both dialects and every representable field value (no bound on lengths): "
          "the constructors emit exactly the protocol layout written independently in G9.Wire.Spec and Unpack inverts it consuming "
          "exactly the packet. The Lean mirror G9.Wire.Go is tied to the source by the regenerated tables/constants (a changed "
          "table entry breaks minSize_le_body) and by running real constructor/SetTag/Unpack/PackDir/UnpackDir/InitRread on ~15k "
          "(quick) structured cases against mirror and Spec.",
  "note": TB + "Modelled not verified: Go slices/strings as lists; function bodies are mirrored by hand and tied by the correspondence only.",
 },
 "C02": {
  "technique": "Lean 4 proof (totality/panic-freedom, shape, prefix independence, guarded allocation) + differential correspondence on malformed bytes",
  "text": "unpack_total/unpackDir_total: the mirror of Unpack/UnpackDir, whose primitive reads trap exactly where Go's do, never "
          "traps on any byte string in either dialect; unpack_ok_shape (consumed = size prefix, 7<=n<=len), unpack_prefix_indep "
          "(result independent of bytes past the declared size), unpack_alloc_bound (make() behind a guard: <= 8 bytes per input "
          "byte). Correspondence: every truncation/declared size/byte substitution of canonical packets of every type, lying count "
          "fields, random bytes, with measured allocation, on the real Unpack vs the mirror (~50k quick).",
  "note": TB + "The re-encode clause is covered by C01.unpack_encode for decoded messages that are representable; a direct theorem "
          "(decoded message is representable) is listed as future work in DESIGN.md. Allocation of the Go runtime is measured, not modelled.",
 },
 "C20": {
  "technique": "Lean 4 proof (ring refines last-N by an invariant over all histories; Filter loop termination and specification; queue system invariants) + differential correspondence",
  "text": "ring_refines_lastN and filter_spec: for every capacity n>=1 and every history of any length, the mirror of doLog holds exactly "
          "the last n logged entries and the mirrored two-pass Filter loop terminates and returns the matching ones in logged order "
          "(hence filter_sublist: only logged entries, in order, at most n). sinv_run/filter_sees_prefix/filter_converges/logger_no_deadlock: "
          "in every reachable state of the producers->queue(16)->ring system, under any interleaving, Filter sees a prefix short by at most 16 "
          "entries, converges once the queue drained, and some step is always enabled. Correspondence: real Logger vs model on random "
          "sequential sessions (exact after drain), undrained filters and concurrent producers validated by the model as acceptor.",
  "note": TB + "Modelled not verified: Go channels/select as FIFO queue with capacity 16 and fair scheduling; no real-time bound; Resize not covered.",
 },
 "C04": {
  "technique": "Lean 4 proof (reference-count invariant and refinement of the fid table to the protocol's valid-fid set, over all histories) + differential correspondence with the real framework",
  "text": "step_valid / fids_refine_spec: for every request history of any length and every implementation behaviour, the mirror of "
          "Process/handlers/PostProcess keeps every fid at exactly one reference between requests and the set of fids in the table is "
          "exactly the set the protocol history (requests and the replies sent) determines (specValid, written from the statement); "
          "unknown_fid_refused, attach_in_use_refused, auth_in_use_refused: invalid / already bound fids are refused with the stated "
          "error, nothing forwarded, table untouched; conn_private. Correspondence: ~2.5k (quick) random histories on a real Conn with a "
          "scripted implementation compare reply, calls, FidDestroy log and the whole fid table after every request; an independent Go "
          "oracle of the property runs on the same observations.",
  "note": TB + "Sequential histories only (each request answered before the next is sent); destroy-exactly-once is checked by the oracle "
          "and the differential run, its Lean statement is future work; user binding is compared, not yet a theorem.",
 },
 "C05": {
  "technique": "Lean 4 proof (guard theorems for every rule of the statement, for all states, arguments and implementations; no-wrap count rule over all 32-bit counts) + differential correspondence",
  "text": "walk_refused, open_refused, create_refused, write_refused, read_count_refused, write_count_refused (for every UInt32 count, "
          "msize>=24), read_forwarded/write_forwarded/open_forwarded (legal requests reach the implementation exactly once with fid, "
          "user and arguments unchanged), auth_gate (no attach reaches the implementation unless AuthCheck was called on exactly "
          "that attach and accepted). Correspondence as C04 plus the C05 rule oracle on the real framework.",
  "note": TB + "'effects visible to every later request' is the ordering PostProcess-before-queue, covered by the differential run here "
          "and by the lifecycle model of C03; create/walk forwarded-once are covered by the oracle, not yet theorems.",
 },
 "C12": {
  "technique": "Lean 4 proof (negotiation specification, msize monotone and >= IOHDRSZ, every reply fits msize, frame-size gate) + differential correspondence",
  "text": "negotiate_spec (refuse iff client msize < 24; else msize=min, .u iff both), rversion_fits, msize_monotone, "
          "no_reply_exceeds_msize (every reply of every request under every implementation answer is <= msize bytes on the wire, "
          "including shortened errors), frame_size_gate (a frame longer than msize ends the connection unexecuted). Correspondence: "
          "negotiation grid and renegotiation mid-history against the real server; oracle checks lengths of real reply frames.",
  "note": TB + "Client-side Connect, the dialect of Rstat/Rerror encodings and Rread<=count for Ufs are checked by the harness oracle; "
          "their theorems live with C09/C14 when built.",
 },
 "C13": {
  "technique": "Lean 4 proof (segmentation independence of the receive loop by an append lemma; loop termination; buffer-aliasing and non-empty-window invariants over all step sequences) + differential correspondence with forced segmentations",
  "text": "segmentation_independent / same_stream_same_behaviour: for every byte stream and every way of cutting it into reads (any chunk sizes, "
          "splits inside the size prefix) the mirror of the receive loop hands out the same frames, ends the connection at the same point and "
          "keeps the same remainder as for the stream in one piece (uses C02's prefix independence of Unpack); extract_fuel: the loop terminates; "
          "payload_stable: after any history of reads, frames, partial frames and reallocations no Read writes into a frame already handed out; "
          "read_window_nonempty: every Read has room. Correspondence: real server (and client) fed every single split point, byte-at-a-time, "
          "random cuts and cuts around the end of the 8*msize array; frames executed (recv.frame schedule point) and connection state vs the "
          "model; oracle: replies and payload hashes identical to the unsegmented run.",
  "note": TB + "Transport modelled as a reliable byte stream whose Read returns 1..len bytes (a zero-length read is end-of-stream to go9p). "
          "Replies sent before a malformed frame ends the connection are timing-dependent and not compared.",
 },
}
