"""What MANIFEST.json claims, per property (edited as checks go green)."""
HOOK_COMMITS = ["3b06268", "175c5a9", "8b9ca65", "bfbbd83", "c7825ef", "dbd50df", "069efd0", "b54cdaa", "7cccc24", "5bdb6c9", "dfcda43", "77d9f9f"]
NOT_APPLICABLE = {}
TB = ("Trusted: Lean 4.33.0 kernel (thorough: + leanchecker); axioms at most propext, Classical.choice, Quot.sound "
      "(audited by #print axioms on every run); the translator extract/ and the differential harness (testing, not proof). ")
CLAIMS = {
 "C01": {
  "technique": "Lean 4 proof (round-trip and layout theorems over a mirror of the codec) + regenerated constants + differential correspondence",
  "text": "Theorems pack_eq_spec, pack_small_buffer, spec_size_prefix, unpack_encode, unpack_pack, stat_roundtrip, setTag_spec, "
          "rread_two_step hold for all 27 message shapes, both dialects and every representable field value (no bound on lengths): "
          "the constructors emit exactly the protocol layout written independently in G9.Wire.Spec and Unpack inverts it consuming "
          "exactly the packet. The Lean mirror G9.Wire.Go is tied to the source by the regenerated tables/constants (a changed "
          "table entry breaks minSize_le_body) and by running real constructor/SetTag/Unpack/PackDir/UnpackDir/InitRread on ~15k "
          "(quick) structured cases against mirror and Spec.",
  "note": TB + "Modelled not verified: Go slices/strings as lists; function bodies are mirrored by hand and tied by the correspondence only.",
 },
 "C02": {
  "technique": "Lean 4 proof (totality/panic-freedom, shape, prefix independence, guarded allocation) + differential correspondence on malformed bytes",
  "text": "unpack_total/unpackDir_total: the mirror of Unpack/UnpackDir, whose primitive reads trap exactly where Go's do, never "
          "traps on any byte string in either dialect; unpack_ok_shape (consumed = size prefix, 7<=n<=len), unpack_prefix_indep "
          "(result independent of bytes past the declared size), unpack_alloc_bound (make() behind a guard: <= 8 bytes per input "
          "byte); unpack_ok_fields (the decoded type is byte 4 and a defined type, the message carries Go's defaults, and the protocol "
          "encoding of its fields is at most 4 bytes longer than the packet body, so every variable-length field lies inside it; all "
          "strings and counts fit their wire fields) and reencode_decodes_same (for every successful decode of a packet below 4GiB-4, "
          "re-encoding the decoded fields and decoding again yields the same tag and fields and consumes exactly the new packet). "
          "Correspondence: every truncation/declared size/byte substitution of canonical packets of every type, lying count "
          "fields, random bytes, with measured allocation, on the real Unpack vs the mirror (~50k quick).",
  "note": TB + "The re-encode theorem excludes packets within 4 bytes of 4 GiB (their re-encoding cannot carry its own size); the "
          "harness also re-encodes every successfully decoded packet with the real constructors and decodes it again. Allocation of the "
          "Go runtime is measured, not modelled.",
 },
 "C20": {
  "technique": "Lean 4 proof (ring refines last-N by an invariant over all histories; Filter loop termination and specification; queue system invariants) + differential correspondence",
  "text": "ring_refines_lastN and filter_spec: for every capacity n>=1 and every history of any length, the mirror of doLog holds exactly "
          "the last n logged entries and the mirrored two-pass Filter loop terminates and returns the matching ones in logged order "
          "(hence filter_sublist: only logged entries, in order, at most n). sinv_run/filter_sees_prefix/filter_converges/logger_no_deadlock: "
          "in every reachable state of the producers->queue(16)->ring system, under any interleaving, Filter sees a prefix short by at most 16 "
          "entries, converges once the queue drained, and some step is always enabled. Correspondence: real Logger vs model on random "
          "sequential sessions (exact after drain), undrained filters and concurrent producers validated by the model as acceptor.",
  "note": TB + "Modelled not verified: Go channels/select as FIFO queue with capacity 16 and fair scheduling; no real-time bound; Resize not covered.",
 },
 "C04": {
  "technique": "Lean 4 proof (reference-count invariant and refinement of the fid table to the protocol's valid-fid set, over all histories) + differential correspondence with the real framework",
  "text": "step_valid / fids_refine_spec: for every request history of any length and every implementation behaviour, the mirror of "
          "Process/handlers/PostProcess keeps every fid at exactly one reference between requests and the set of fids in the table is "
          "exactly the set the protocol history (requests and the replies sent) determines (specValid, written from the statement); "
          "unknown_fid_refused, attach_in_use_refused, auth_in_use_refused: invalid / already bound fids are refused with the stated "
          "error, nothing forwarded, table untouched; conn_private; destroyed_exactly_once (in the step of any request a fid number is "
          "reported destroyed at most once, it is reported when the request invalidates a valid fid, and whatever is reported is invalid "
          "afterwards — in the same step as the reply); user_binding_stable / user_binding_history (a fid that stays valid stays bound "
          "to the same user across any request and any history), valid_fid_found_under_concurrency / table_entry_is_its_number (over G9.FidLife, "
          "every interleaving: a valid fid is the one the table holds under its number) and new_fid_bound_by_request (a fid that becomes valid was bound by a "
          "Tauth/Tattach naming it, to the user that request names, or by a Twalk to it, to the user of the source fid). Correspondence: ~2.5k (quick) random histories on a real Conn with a "
          "scripted implementation compare reply, calls, FidDestroy log and the whole fid table after every request; an independent Go "
          "oracle of the property runs on the same observations.",
  "note": TB + "The refinement to the protocol's valid-fid set is for sequential histories (each request answered before the next is sent); "
          "under concurrency the fid table's own invariants are proved on G9.FidLife and its log is replayed by the acceptor.",
 },
 "C05": {
  "technique": "Lean 4 proof (guard theorems for every rule of the statement, for all states, arguments and implementations; no-wrap count rule over all 32-bit counts) + differential correspondence",
  "text": "walk_refused, open_refused, create_refused, write_refused, read_count_refused, write_count_refused (for every UInt32 count, "
          "msize>=24), read_forwarded/write_forwarded/open_forwarded (legal requests reach the implementation exactly once with fid, "
          "user and arguments unchanged), auth_gate (no attach reaches the implementation unless AuthCheck was called on exactly "
          "that attach and accepted). Correspondence as C04 plus the C05 rule oracle on the real framework.",
  "note": TB + "'effects visible to every later request' is the ordering PostProcess-before-queue, covered by the differential run here "
          "and by the lifecycle model of C03; create/walk forwarded-once are covered by the oracle, not yet theorems.",
 },
 "C12": {
  "technique": "Lean 4 proof (negotiation specification, msize monotone and >= IOHDRSZ, every reply fits msize, frame-size gate) + differential correspondence",
  "text": "negotiate_spec (refuse iff client msize < 24; else msize=min, .u iff both), rversion_fits, msize_monotone, "
          "no_reply_exceeds_msize (every reply of every request under every implementation answer is <= msize bytes on the wire, "
          "including shortened errors), frame_size_gate (a frame longer than msize ends the connection unexecuted), both_sides_agree (the client's "
          "Connect against the framework: both ends hold min(client, server) and 9P2000.u exactly when both asked, for every client msize "
          ">= 24). Correspondence: negotiation grid and renegotiation mid-history against the real server; the real Connect against the real "
          "server over a grid of msizes around each other and around the I/O header, both dialects on both sides (G9.Version.connect); "
          "oracle checks lengths of real reply frames.",
  "note": TB + "The dialect of Rstat/Rerror encodings and Rread<=count for Ufs are checked by the harness oracle.",
 },
 "C13": {
  "technique": "Lean 4 proof (segmentation independence of the receive loop by an append lemma; loop termination; buffer-aliasing and non-empty-window invariants over all step sequences) + differential correspondence with forced segmentations",
  "text": "segmentation_independent / same_stream_same_behaviour: for every byte stream and every way of cutting it into reads (any chunk sizes, "
          "splits inside the size prefix) the mirror of the receive loop hands out the same frames, ends the connection at the same point and "
          "keeps the same remainder as for the stream in one piece (uses C02's prefix independence of Unpack); extract_fuel: the loop terminates; "
          "payload_stable: after any history of reads, frames, partial frames and reallocations no Read writes into a frame already handed out; "
          "read_window_nonempty: every Read has room. Correspondence: real server (and client) fed every single split point, byte-at-a-time, "
          "random cuts and cuts around the end of the 8*msize array; frames executed (recv.frame schedule point) and connection state vs the "
          "model; oracle: replies and payload hashes identical to the unsegmented run.",
  "note": TB + "Transport modelled as a reliable byte stream whose Read returns 1..len bytes (a zero-length read is end-of-stream to go9p). "
          "Replies sent before a malformed frame ends the connection are timing-dependent and not compared.",
 },
 "C14": {
  "technique": "Lean 4 proof (Readn/Written loops, iounit clamping, offsets; for all file contents, lengths, offsets, counts, iounits) + OS-oracle correspondence on real files",
  "text": "read_exact, readn_exact (Readn returns exactly (file.drop off).take n for every file, offset, n and iounit>=1, also across EOF, and "
          "terminates), written_pieces (Written sends consecutive pieces of at most iounit bytes covering the data exactly once, in order), "
          "read_le_count, sequential_reads_are_consecutive (any sequence of File.Read calls returns consecutive pieces of the file, nothing skipped "
          "or repeated), chunked_writes_equal_one_write (consecutive writes leave the file as one write of the whole data would). "
          "Correspondence: real client and Ufs over files of boundary lengths, msize 128..64K, both dialects, random operation "
          "sequences; oracle os.ReadFile; Readn result lengths compared with the Lean loop.",
  "note": TB + "Partial by nature: what the operating system does (Lstat, ReadAt/WriteAt, Readdir, the mutating calls) is assumed, written down in the model and exercised by the OS-oracle correspondence; what go9p computes around those calls is proved. ",
 },
 "C15": {
  "technique": "Lean 4 proof (directory-window specification over any strictly increasing list of entry ends; exactly-once listing by induction; no-trap for arbitrary offsets) + correspondence on real directories",
  "text": "window_whole_records (at every allowed offset the reply is a maximal run of whole entries of at most count bytes, empty only at the "
          "end, else the 'too small' error), window_too_small, dirwindow_no_panic (any offset, any count: never a slice out of range), "
          "readall_from / readall_each_once (following the offset rule with a count that fits every entry returns every entry exactly once "
          "then an empty reply; restart at 0 lists again). sort.SearchInts is mirrored as first-index->= and its properties are proved. "
          "Correspondence: thousands of (offset,count) probes on real directories vs the Lean window; listing vs os.ReadDir; Readdir(0).",
  "note": TB + "Partial by nature: what the operating system does (Lstat, ReadAt/WriteAt, Readdir, the mutating calls) is assumed, written down in the model and exercised by the OS-oracle correspondence; what go9p computes around those calls is proved. ",
 },
 "C16": {
  "technique": "Lean 4 proof (walk prefix / commit-only-complete / FWalk 16-cut independence over an arbitrary tree given as a lookup function) + os.Lstat-oracle correspondence on random trees",
  "text": "walk_prefix (one qid per existing leading element, next one missing), walk_commits_only_complete (error iff the first element is "
          "missing; path committed iff all walked), fwalk_resolves (paths of any depth resolve to the same object wherever the 16-element cuts "
          "fall) hold for every tree; mode_reports_the_file and qid_type_reports_the_file (over G9.UfsMeta: low nine bits = permission bits, "
          "DMDIR iff directory, the .u type bits iff the file has them and the connection is .u, nothing else; QTDIR/QTSYMLINK). Correspondence: the "
          "whole table of dir2Npmode/dir2QidType (128 flag combinations x 5 permission words x both dialects) through a verif accessor; stat of every object of random trees against os.Lstat (type bits, length, perms, mtime, "
          "name, qid path), walks in place and to a new fid with the fids' targets checked.",
  "note": TB + "Partial by nature: what the operating system does (Lstat, ReadAt/WriteAt, Readdir, the mutating calls) is assumed, written down in the model and exercised by the OS-oracle correspondence; what go9p computes around those calls is proved.",
 },
 "C17": {
  "technique": "Lean 4 proof (open-flag table for all 256 modes, kernel-checked decide; decision logic of Ufs.Create/Ufs.Wstat: which POSIX calls, with which arguments, in which order) + twin-tree correspondence against the os package + plan-tree correspondence",
  "text": "omode_flags_table: for every mode byte the flags passed to open are the access mode of the low two bits plus O_TRUNC iff OTRUNC, "
          "nothing else (decide +kernel over the whole table, compared with the real table through a verif accessor). Over G9.UfsPlan: "
          "wstat_asks_nothing_does_nothing, wstat_only_what_was_asked (chmod, chown, rename, truncate, chtimes in this order, each exactly when "
          "the request names the field, with the request's value), wstat_rename_confined, mode_is_permission_bits (nine permission bits, "
          "setuid/setgid only in .u, nothing else), create_makes_what_was_asked (at most one object; directory / symlink / hard link / regular "
          "file according to the permission word), create_refusals_make_no_call. The plan is tied to Ufs by applying it to a third tree that "
          "must stay identical to the exported one after every request, failure or not. The rest of the property "
          "is POSIX semantics: random mutation sequences are applied through 9P to one tree and with the os package to its twin and the trees, "
          "outcomes and (in .u) errnos compared after every step.",
  "note": TB + "Partial by nature: what the operating system does (Lstat, ReadAt/WriteAt, Readdir, the mutating calls) is assumed, written down in the model and exercised by the OS-oracle correspondence; what go9p computes around those calls is proved.  By-name owner lookups (plain 9P2000 Twstat naming a uid/gid) are in the plan model but not exercised by the correspondence.",
 },
 "C18": {
  "technique": "Lean 4 proof (lexical confinement: cleaned paths cannot climb, every accepted walk/create step keeps the root as prefix, by induction over any request sequence) + canary correspondence",
  "text": "clean_no_dotdot, clean_idem, walk_confined / walks_confined (every path reachable by any sequence of walk elements from a confined "
          "path is confined), dotdot_at_root_stays, create_confined, accepted_is_below_root. Correspondence: escape grammar at attach, walk, "
          "create (incl. symlink targets) and rename against canaries next to and above the root; filepath.Clean mirror compared on a grammar.",
  "note": TB + "Premise of the property (no symlink leaves the tree) and OS path resolution of a cleaned path are assumed. Paths are modelled as component lists.",
 },
 "C09": {
  "technique": "Lean 4 proof (tag accounting as a permutation invariant over all schedules; reply delivery by tag) + differential correspondence with a scripted peer",
  "text": "tags_partition (in every reachable state of the client model - any number of callers, any interleaving of alloc/enqueue/deliver/fail/"
          "fan-out/return - free tags, cached slots and calls in progress are a permutation of the pool), outstanding_tags_nodup, tags_recycled "
          "(nothing leaks: unbounded calls), own_reply (a frame wakes exactly the pending call carrying its tag, with its payload), "
          "unknown_tag_fails. shared_tag_replies_in_issue_order (the receiver gives a reply to the oldest pending call with its tag: calls of the Tag interface, which share a tag, complete in issue order). "
          "Correspondence: real Clnt vs a scripted peer (1..64 callers, random reply orders and kinds, arbitrary reply "
          "segmentation, 70 000 consecutive calls); the observed schedule is replayed through the model and the accounting compared.",
  "note": TB + "Error mapping (Rerror / wrong type) and the Tag interface are checked by the harness oracle, not theorems. Channels modelled as FIFO lists.",
 },
 "C10": {
  "technique": "Lean 4 proof (no stuck caller in any state; fan-out terminates and wakes all; refusal after failure; no success without a delivered frame) + failure-injection correspondence",
  "text": "no_stuck_state (in every state each call in progress is either waiting for the peer on a live connection or has an enabled step of its "
          "own), fanout_wakes_all (after a failure pend.length fan-out steps wake every pending call exactly once, in order), later_calls_refused "
          "(refused in the critical section, no tag consumed), no_false_success (a success result can only come from a delivered frame with the "
          "call's tag), delivered_reply_is_kept (a reply that was completely received stays the caller's through any later failure, fan-out or "
          "other caller's activity until that caller takes it). Correspondence: stream cut after every byte offset, garbage/oversize/undersize/unknown-tag frames, Unmount, a caller "
          "parked between enqueue and hand-off during the failure; oracle: all calls return, success iff the reply was complete.",
  "note": TB + "'within bounded time' is observed (8 s watchdog), not proved; fairness of the Go scheduler assumed. The real-code race between "
          "the writer goroutine and ReqFree is outside the model (found and fixed through the correspondence, see DESIGN).",
 },
 "C03": {
  "technique": "Lean 4 proof (respond-once invariant over all schedules of an event model of recv/process/Respond/flush/send; progress) + acceptor correspondence on logs of the code's lock-protected regions + wire oracle",
  "text": "reply_at_most_once, replies_only_to_requests (invariant Ref/Once/Bd preserved by all 19 events, hence in every reachable state for "
          "any number of outstanding requests, any completion order, any interleaving), extra_answer_ignored, wire_append_only, "
          "answered_reaches_wire and respond_never_blocked (the reply path needs no step of any other request). Correspondence: forced "
          "schedules on the real server (see rule), the log of every lock-protected region replayed through the model, and the statement "
          "oracle on the decoded wire (exactly one correctly tagged reply with the implementation's content).",
  "note": TB + "'Exactly one' is proved as at-most-one in every state plus enabledness of the reply path; that the Go scheduler runs an "
          "enabled goroutine is assumed. Reply content is M3 (C04/C05/C12). The model is mirrored by hand and tied by the acceptor only.",
 },
 "C07": {
  "technique": "Lean 4 proof (flush-chain invariant over all ordinary schedules: reply before Rflush and never after; cancelled-never-runs; at-most-one Rflush; immediate Rflush when the tag is absent) + acceptor correspondence with Tflush forced at every stage + wire/state oracle",
  "text": "reply_before_rflush_partial (invariant FI — 9 clauses about the flushreq chain, the recorded lookup target and the calls of Respond — "
          "preserved by all 19 events under LS.tame: once an Rflush is queued, a reply to the request it flushes was queued before it, and "
          "if there is none there never will be, in any continuation), rflush_at_most_once, cancel_before_start_marks, cancelled_never_runs "
          "(no continuation of any schedule hands a request cancelled before process.check to the implementation), cancelled_gets_no_reply, "
          "rflush_immediate_if_absent, lookup_finds_newest, self_flush_finds_nothing (a Tflush naming its own tag is treated as a Tflush of a tag that is not outstanding). Correspondence: Tflush at every stage and in pairwise orderings of schedule "
          "points; every region log replayed through the model; order/cancel/state oracle on the wire.",
  "note": TB + "The ordering theorem is partial: it covers schedules in which no Tflush is aimed at a Tflush and no waiting flushes are handed "
          "over to a same-tag successor (LS.tame, stated in the theorem); flush of a flush and several flushes of one request are decided by "
          "the oracle and the acceptor. K-6 shapes and a Tflush flushing itself are outside the quantifier.",
 },
 "C08": {
  "technique": "Lean 4 proof (enabledness of every worker/reply step in every state = no head-of-line blocking; tag-table invariant over all Tflush-free schedules: one at a time, executed and answered in arrival order) + acceptor correspondence + blocked-subset and tag-group oracles",
  "text": "no_head_of_line_worker, no_head_of_line_reply, writer_never_blocked, parking_disables_nothing (steps outside the implementation "
          "are enabled whatever other requests do). shared_tag_fifo_partial and tag_table_exact (invariant PI — 17 clauses: the table of "
          "a tag is exactly its requests that have not left it, newest first; prev pointers name the next request of the tag; whoever "
          "is started finds all older requests of its tag gone from the table — preserved by every event of a Tflush-free schedule, "
          "together with the uniqueness invariant W3 of the winning Respond): requests under one tag are handed to the implementation "
          "in arrival order, each only after its predecessor left the table, and answered in that order. Correspondence: subsets "
          "parked in the implementation (also on a shared fid, another connection, late requests); shared-tag groups; a Tflush aimed into a "
          "shared-tag group (the cancelled member leaves the chain, later members still wait for the running one).",
  "note": TB + "The FIFO theorem is partial: sessions without Tflush (LS.plain, stated in the theorem); a Tflush aimed at a tag group cuts "
          "the chain (K-6) and is left to the correspondence. Real-time promptness is observed, not proved.",
 },
 "C11": {
  "technique": "Lean 4 proof (after close nothing blocks, nothing is accepted or written, close happens once; every fid object destroyed exactly once under every interleaving) + acceptor correspondence + disconnect oracle (ConnClosed, FidDestroy, goroutine census, bystander)",
  "text": "closed_stays_closed, respond_never_stuck_after_close, reply_after_close_dropped, worker_never_stuck_after_close over the event "
          "model. Over G9.FidLife (every interleaving of the regions of FidNew/FidGet/retain/IncRef/DecRef/destroy/Conn.close): "
          "fid_destroyed_at_most_once, disconnect_destroys_every_fid (once Conn.close and the executing requests have run to their end, "
          "every fid object — valid, being created, or created afterwards — has been reported destroyed exactly once), "
          "never_destroyed_under_a_request (from the moment destroy() marks a fid no request holds it, and FidGet hands none out: "
          "dead_fid_is_not_handed_out), no_destroy_while_being_created, valid_fid_alive_while_open, refcount_is_owners, "
          "fid_teardown_never_stuck, retain_logged_late_is_a_schedule (the acceptor's one reordering is sound: a retain that read conn.done open "
          "commutes with every event that does not concern its fid); the three repaired behaviours (F-29, F-30, F-31) are theorems about the old regions "
          "(stale_retain_leaks_a_fid, unpool_by_number_loses_a_valid_fid, close_destroys_under_a_request). Correspondence: disconnects with fids in every state and 0..4 requests executing; every log accepted by the model; "
          "oracle: ConnClosed once, every valid fid destroyed exactly once, goroutine census back to baseline, bystander untouched.",
  "note": TB + "ConnClosed accounting and goroutine/descriptor leaks are observed on the implementation, not proved (descriptors of the "
          "Unix file server are counted after disconnects with Topen/Tcreate executing).",
 },
 "C19": {
  "technique": "Lean 4 proof (lock-set soundness for all executions of an abstract mutex model; lock policy decided by kernel computation over access facts regenerated from the source) + race-detector correspondence",
  "text": "guarded_accesses_are_ordered: in every execution of the abstract model (any number of threads, locks, locations, any length) two "
          "accesses to one location by different threads made under its guard are separated by the first thread's release and the second "
          "thread's later acquisition of the guard. lock_discipline / policy_covered: every access to a guarded field "
          "in /repo's current source (lock sets regenerated from the syntax tree on every run) holds the guard the policy names or is a "
          "listed exemption; the policy names only fields that exist and are written. Correspondence: race-"
          "detector workloads (shared client against Ufs, flushes, connection churn, schedule perturbation).",
  "note": TB + "The link between the syntactic lock sets and the abstract model is the translator's soundness (trusted). Orderings by channels "
          "and goroutine creation (exempted accesses, unguarded-by-design fields) are argued in prose. The race detector only reports races "
          "an execution actually exhibits.",
 },
 "C06": {
  "technique": "Lean 4 proof (panic-freedom of the mirrored decoder and directory window on every input; every request refused or table-preserving; connection privacy) + hostile-session correspondence in-process with a crash journal",
  "text": "decode_never_traps, stat_decode_never_traps, dir_read_never_traps (the mirrors trap exactly where the Go code indexes; proved never "
          "to, for all byte strings / offsets / counts), oversize_frame_not_executed, bad_fid_refused, huge_count_refused, "
          "any_request_keeps_table_wellformed, other_connections_untouched. Correspondence: structured adversarial sequences, byte "
          "mutations of valid sessions and random bytes against a scripted implementation and Ufs; process death is attributed to the "
          "journaled session; bystander and fresh connections probed after every session.",
  "note": TB + "A theorem excludes a crash only where the model represents the trap (decoder, directory window, request rules). Crashes in "
          "unmodelled lines are found by search, not excluded: this check found and the repository now fixes a pipelined request on a fid "
          "still being created (F-26) and concurrent directory reads on one fid (F-27).",
 },
}
