#!/bin/sh
# tools/seeds.sh "<seeds>" [ids…] : quick tier of the checks under other seeds on the current tree; every non-OK line goes to /tmp/seeds.txt
cd /verif
seeds=$1; shift
: > /tmp/seeds.txt
for s in $seeds; do
  for id in ${@:-C01 C02 C03 C04 C05 C06 C07 C08 C09 C10 C11 C12 C13 C14 C15 C16 C17 C18 C19 C20}; do
    cp evidence/$id.json /tmp/evidence.$id.saved 2>/dev/null
    VERIF_SEED=$s timeout 1500 ./check $id > /tmp/seeds.$id.$s.out 2>&1; rc=$?
    line=$(tail -1 /tmp/seeds.$id.$s.out | cut -c1-200)
    case "$line" in OK*) ;; *) echo "seed=$s $id rc=$rc $line" >> /tmp/seeds.txt; cp evidence/$id.json /tmp/seeds.$id.$s.evidence.json 2>/dev/null;; esac
    cp /tmp/evidence.$id.saved evidence/$id.json 2>/dev/null
  done
  echo "seed $s done" >> /tmp/seeds.txt
done
echo DONE >> /tmp/seeds.txt
