#!/bin/sh
# tools/all_seeded.sh [ids…] : apply every kept seeded change in turn, run its property's quick check, undo; summary in /tmp/all_seeded.txt
cd /verif
: > /tmp/all_seeded.txt
for d in ${@:-$(ls seeded)}; do
  id=${d%%-*}
  git -C /repo apply /verif/seeded/$d/patch.diff || { echo "$d PATCH-FAILS" >> /tmp/all_seeded.txt; continue; }
  cp evidence/$id.json /tmp/evidence.$id.saved 2>/dev/null
  timeout 1500 ./check $id > /tmp/all_seeded.$d.out 2>&1; rc=$?
  git -C /repo checkout -- .
  cp /tmp/evidence.$id.saved evidence/$id.json 2>/dev/null
  echo "$d rc=$rc $(grep -c '^VIOLATION' /tmp/all_seeded.$d.out) $(grep '^VIOLATION' /tmp/all_seeded.$d.out | head -1 | cut -c1-160)" >> /tmp/all_seeded.txt
done
echo DONE >> /tmp/all_seeded.txt
