#!/bin/sh
# tools/try_mutant.sh <property id> <patch file> [tier] : apply a seeded change to /repo, run the check, undo it.
id=$1; patch=$2; tier=${3:-quick}
cd /verif
if ! git -C /repo apply --check "$patch" 2>/dev/null; then echo "PATCH DOES NOT APPLY: $patch"; exit 2; fi
cp evidence/$id.json /tmp/evidence.$id.saved 2>/dev/null
git -C /repo apply "$patch"
timeout 1500 ./check "$id" --tier "$tier" > /tmp/try_mutant.out 2>&1; rc=$?
git -C /repo checkout -- .
cp /tmp/evidence.$id.saved evidence/$id.json 2>/dev/null  # the evidence file stays the record of the unchanged tree
tail -3 /tmp/try_mutant.out | cut -c1-300
echo "rc=$rc"
