#!/bin/sh
# tools/all_thorough.sh [ids…] : thorough tier of every check on the current tree; summary in /tmp/all_thorough.txt
cd /verif
: > /tmp/all_thorough.txt
for id in ${@:-C01 C02 C03 C04 C05 C06 C07 C08 C09 C10 C11 C12 C13 C14 C15 C16 C17 C18 C19 C20}; do
  timeout 3000 ./check $id --tier thorough > /tmp/all_thorough.$id.out 2>&1; rc=$?
  echo "$id rc=$rc $(tail -1 /tmp/all_thorough.$id.out | cut -c1-200)" >> /tmp/all_thorough.txt
done
echo DONE >> /tmp/all_thorough.txt
