#!/usr/bin/env python3
"""tools/keep_seeded.py <prop> <n> <srcdir> <detected-by text> <needs text>: file a confirmed seeded change under /verif/seeded/"""
import sys, os, shutil, json
prop, n, src, det, needs = sys.argv[1:6]
d = "/verif/seeded/%s-%s" % (prop, n)
os.makedirs(d, exist_ok=True)
shutil.copy(os.path.join(src, "patch.diff"), d)
shutil.copy(os.path.join(src, "demo_test.go"), os.path.join(d, "demo_test.go.txt"))
notes = open(os.path.join(src, "notes.txt")).read() if os.path.exists(os.path.join(src, "notes.txt")) else ""
json.dump({"property": prop, "breaks": notes[:1500], "needs_to_manifest": needs,
           "confirmed": "tools/confirm_seeded.sh: existing suite passes with the change; the demonstration fails with it and passes without it",
           "ran": "tools/try_mutant.sh %s seeded/%s-%s/patch.diff" % (prop, prop, n), "detected": det,
           "author": "independent sub-agent given only the property text and a scratch worktree"},
          open(os.path.join(d, "meta.json"), "w"), indent=1)
print("kept", d)
