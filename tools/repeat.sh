#!/bin/sh
# tools/repeat.sh <n> <ids…> : run quick checks repeatedly on the unchanged tree, list every non-OK outcome in /tmp/repeat.txt
n=$1; shift
cd /verif
: > /tmp/repeat.txt
for i in $(seq 1 $n); do
  for id in "$@"; do
    out=$(VERIF_SEED=${VERIF_SEED:-1} ./check $id 2>&1 | tail -1)
    case "$out" in OK*) ;; *) echo "round $i $id: $out" >> /tmp/repeat.txt; cp /verif/evidence/$id.json /tmp/repeat.$id.$i.json 2>/dev/null;; esac
  done
  echo "round $i done" >> /tmp/repeat.txt
done
echo DONE >> /tmp/repeat.txt
