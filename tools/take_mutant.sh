#!/bin/sh
# tools/take_mutant.sh <worktree-suffix e.g. C04-3> : stage a sub-agent's change from /tmp/wt-<id>, confirm it, run the property's check against it
w=$1; id=${w%%-*}; d=/tmp/new-seeded/$w
mkdir -p $d
(cd /tmp/wt-$w && git diff -- . ':(exclude)zz_demo_test.go' > $d/patch.diff; cp zz_demo_test.go $d/demo_test.go 2>/dev/null)
echo "$w: $(/verif/tools/confirm_seeded.sh $d 2>&1 | tail -1 | cut -c1-160)"
echo "$w: $(/verif/tools/try_mutant.sh $id $d/patch.diff 2>&1 | tail -2 | tr '\n' ' ' | cut -c1-200)"
