#!/bin/sh
# tools/confirm_seeded.sh <out dir with patch.diff demo_test.go> : confirm in a scratch worktree that
# (a) the suite passes with the change, (b) the demo fails with it, (c) the demo passes without it.
d=$1
export GOFLAGS=-mod=mod GOPROXY=off
wt=/tmp/wt-confirm-$$
git -C /repo worktree add -q --detach $wt HEAD || exit 2
cd $wt
cp $d/demo_test.go zz_demo_test.go
c=$(go test -mod=mod -vet=off -count=1 -run 'Demo|demo' . 2>&1 | tail -1)
rm zz_demo_test.go
git apply $d/patch.diff || { echo "patch does not apply"; cd /; git -C /repo worktree remove --force $wt; exit 2; }
a=$(go build ./... && go test -mod=mod -vet=off -count=1 ./... 2>&1 | grep -c '^FAIL')
cp $d/demo_test.go zz_demo_test.go
b=$(go test -mod=mod -vet=off -count=1 -run 'Demo|demo' . 2>&1 | grep -c '^--- FAIL\|^FAIL\|panic:')
cd /
git -C /repo worktree remove --force $wt
echo "suite_failures_with_change=$a demo_failure_lines_with_change=$b demo_without_change: $c"
