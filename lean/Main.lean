/-
  g9driver — reads `<id> <cmd> <args…>` lines on stdin, answers `<id> <observable>` lines.
  A command no module understands, or arguments that do not parse, is answered `bad-op`
  and never defaulted.
-/
import G9.Driver.Wire
import G9.Driver.Logger
import G9.Driver.SrvSeq
import G9.Driver.Frame
import G9.Driver.Ufs
import G9.Driver.Clnt
import G9.Driver.Life
import G9.Driver.FidLife
import G9.Driver.BufPool
import G9.Driver.ClntIO
import G9.Driver.ReqList
open G9 G9.Driver

def handlers : List (String → List String → Option String) := [wire, logger, srvseq, frames, ufs, clnt, life, fidlife, bufsess, clntio, reqlist]

def answer (line : String) : String :=
  match (line.trimAscii.toString.splitOn " ").filter (· ≠ "") with
  | id :: cmd :: args =>
    match handlers.findSome? (fun h => h cmd args) with
    | some out => id ++ " " ++ out
    | none => id ++ " bad-op"
  | _ => "? bad-op"

partial def loop (hin hout : IO.FS.Stream) : IO Unit := do
  let line ← hin.getLine
  if line.isEmpty then return ()
  hout.putStrLn (answer line)
  loop hin hout

def main : IO Unit := do
  let hin ← IO.getStdin
  let hout ← IO.getStdout
  loop hin hout
  hout.flush
