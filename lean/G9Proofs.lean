import G9Proofs.Props.C01
import G9Proofs.Props.C02
import G9Proofs.Props.C20
import G9Proofs.Props.C04
import G9Proofs.Props.C05
import G9Proofs.Props.C12
import G9Proofs.Props.C13
