/-
  C10 — Client calls fail promptly, never hang, when the connection fails.
  Property theorems only (model: G9.Clnt). "Never hangs" is absence of stuck callers: in
  every reachable state after a failure each call in progress has an enabled step that
  moves it towards returning, and the fan-out terminates. Wall-clock bounds are observed by
  the correspondence, not proved.
-/
import G9Proofs.Props.C09
import G9.ClntIO
namespace G9.C10
open G9 G9.Clnt

/-- once the connection has failed every new call is refused in its critical section,
    never touches the writer, and gives its tag back (the accounting of C09 still holds) -/
theorem later_calls_refused (s s' : CS) (i : Nat) (he : s.err = true) (h : s.step (.enqueue i) = some s') :
    i ∈ s'.refused ∧ i ∉ s'.pend ∧ s'.pend = s.pend ∧ (C09.tags s').Perm (C09.tags s) := by
  have hp := C09.step_tags s s' (.enqueue i) h
  simp only [CS.step] at h
  split at h
  · cases h
  · rename_i t ht
    split at h
    · cases h
    · rename_i hn
      first
        | (split at h
           · skip
           · rw [he] at *; contradiction)
        | skip
      cases h
      have hnp : i ∉ s.pend := by
        intro hm
        simp at hn
        exact absurd hm hn.1
      refine ⟨by simp, ?_, ?_, hp⟩
      · show i ∉ (s.release i t).pend
        unfold CS.release; split <;> exact hnp
      · show (s.release i t).pend = s.pend
        unfold CS.release; split <;> rfl

/-- a failure never hands a result to anybody: no call returns success unless a complete
    frame with its tag was delivered (`woken` grows with `some p` only by `deliver`) -/
theorem no_false_success (s s' : CS) (e : Ev) (h : s.step e = some s') (i p : Nat)
    (hw : (i, some p) ∈ s'.woken) (hn : (i, some p) ∉ s.woken) : ∃ t, e = .deliver t p ∧ tagOf s i = some t := by
  cases e with
  | alloc j =>
    simp only [CS.step] at h
    split at h
    · cases h
    · split at h <;> first | (cases h; exact absurd hw hn) | cases h
  | enqueue j =>
    simp only [CS.step] at h
    split at h
    · cases h
    · split at h
      · cases h
      · split at h
        · cases h
          have : (i, some p) ∈ s.woken := by
            unfold CS.release at hw; split at hw <;> exact hw
          exact absurd this hn
        · cases h; exact absurd hw hn
  | deliver t q =>
    simp only [CS.step] at h
    split at h
    · cases h
    · split at h
      · cases h; exact absurd hw hn
      · rename_i j hj
        cases h
        simp at hw
        rcases hw with ⟨rfl, rfl⟩ | hw
        · have hp := List.find?_some hj
          exact ⟨t, rfl, by simpa using hp⟩
        · exact absurd hw hn
  | fail =>
    simp only [CS.step] at h
    split at h
    · cases h
    · cases h; exact absurd hw hn
  | fanout =>
    simp only [CS.step] at h
    split at h
    · cases h
    · split at h
      · cases h
      · cases h
        simp at hw
        exact absurd hw hn
  | ret j =>
    simp only [CS.step] at h
    split at h
    · rename_i w t hw' ht
      cases h
      have : (i, some p) ∈ s.woken := by
        unfold CS.release at hw
        split at hw <;> exact List.mem_of_mem_erase hw
      exact absurd this hn
    · cases h

/-- A reply that was completely received is the caller's: whatever happens afterwards — the
    connection failing, the fan-out, other callers coming and going — it stays delivered until
    that caller itself takes it. -/
theorem delivered_reply_is_kept (s s' : CS) (e : Ev) (h : s.step e = some s') (i p : Nat)
    (hw : (i, some p) ∈ s.woken) (hne : ∀ j, e = .ret j → j ≠ i) : (i, some p) ∈ s'.woken := by
  cases e with
  | alloc j =>
    simp only [CS.step] at h
    split at h
    · cases h
    · split at h <;> first | (cases h; exact hw) | cases h
  | enqueue j =>
    simp only [CS.step] at h
    split at h
    · cases h
    · split at h
      · cases h
      · split at h
        · cases h
          unfold CS.release
          split <;> exact hw
        · cases h; exact hw
  | deliver t q =>
    simp only [CS.step] at h
    split at h
    · cases h
    · split at h
      · cases h; exact hw
      · cases h; exact List.mem_cons_of_mem _ hw
  | fail =>
    simp only [CS.step] at h
    split at h
    · cases h
    · cases h; exact hw
  | fanout =>
    simp only [CS.step] at h
    split at h
    · cases h
    · split at h
      · cases h
      · cases h; exact List.mem_cons_of_mem _ hw
  | ret j =>
    have hji : j ≠ i := hne j rfl
    simp only [CS.step] at h
    split at h
    · rename_i w t hf ht
      cases h
      have hwj : w.1 = j := by
        have := List.find?_some hf
        simpa using this
      have hne' : (i, some p) ≠ w := by
        intro he; rw [← he] at hwj; exact hji hwj.symm
      unfold CS.release
      split <;> exact (List.mem_erase_of_ne hne').mpr hw
    · cases h

/-- the error fan-out terminates and wakes every pending call exactly once, in list order:
    after `pend.length` iterations the list is empty and each former member has its error -/
theorem fanout_wakes_all : ∀ (k : Nat) (s : CS), s.closed = true → s.pend.length = k →
    ∃ s', s.run (List.replicate k .fanout) = some s' ∧ s'.pend = [] ∧
      s'.woken = (s.pend.map (fun i => (i, none))).reverse ++ s.woken ∧ s'.live = s.live := by
  intro k
  induction k with
  | zero =>
    intro s _ hl
    have : s.pend = [] := List.eq_nil_of_length_eq_zero hl
    exact ⟨s, rfl, this, by simp [this], rfl⟩
  | succ k ih =>
    intro s hc hl
    cases hp : s.pend with
    | nil => rw [hp] at hl; simp at hl
    | cons i rest =>
      have hstep : s.step .fanout = some { s with pend := rest, woken := (i, none) :: s.woken } := by
        simp [CS.step, hc, hp]
      obtain ⟨s', hr, h1, h2, h3⟩ := ih { s with pend := rest, woken := (i, none) :: s.woken } hc
        (by rw [hp] at hl; simpa using hl)
      refine ⟨s', ?_, h1, ?_, h3⟩
      · simp only [List.replicate_succ, CS.run, hstep, Option.bind_some]; exact hr
      · rw [h2]; simp

/-- No call blocks forever: in every state, a call in progress that is not waiting for a
    reply on a live connection has an enabled step of its own (enqueue, fan-out of the
    list head, or return). The only thing a caller ever waits for is the peer. -/
theorem no_stuck_state (s : CS) (i t : Nat) (hl : tagOf s i = some t) :
    (s.closed = false ∧ i ∈ s.pend) ∨                            -- waiting for the peer, connection alive
    ((s.step (.enqueue i)).isSome = true) ∨                       -- about to enter Rpcnb: always enabled
    (s.closed = true ∧ s.pend ≠ [] ∧ (s.step .fanout).isSome = true) ∨   -- the fan-out is running
    ((s.step (.ret i)).isSome = true) := by                       -- result available
  by_cases hw : s.woken.any (·.1 == i) = true
  · right; right; right
    obtain ⟨w, hw1, hw2⟩ := List.any_eq_true.mp hw
    cases hf : s.woken.find? (·.1 == i) with
    | none =>
      have := List.find?_eq_none.mp hf w hw1
      exact absurd hw2 this
    | some w' => simp [CS.step, hf, hl]
  · by_cases hp : i ∈ s.pend
    · by_cases hc : s.closed = true
      · right; right; left
        cases hpp : s.pend with
        | nil => rw [hpp] at hp; cases hp
        | cons j rest => exact ⟨hc, by simp, by simp [CS.step, hc, hpp]⟩
      · left; exact ⟨by simpa using hc, hp⟩
    · right; left
      have hpc : s.pend.contains i = false := by simpa using hp
      have hw' : s.woken.any (·.1 == i) = false := by
        cases hh : s.woken.any (·.1 == i) with
        | true => exact absurd hh hw
        | false => rfl
      simp only [CS.step, hl, hpc, hw', Bool.or_self, Bool.false_eq_true, if_false]
      by_cases he : s.err = true <;> simp [he]

/-! ### non-vacuity: three calls outstanding when the connection breaks -/
example : ((CS.init 4).run [.alloc 1, .alloc 2, .alloc 3, .enqueue 1, .enqueue 2, .enqueue 3, .fail,
    .fanout, .fanout, .fanout, .ret 1, .ret 2, .ret 3]).map (fun s => (s.pend, s.live.length, s.woken.length, s.free.length + s.cache.length))
    = some ([], 0, 0, 4) := by decide

/-! ### hand-off to the writer goroutine and the shutdown handshake (G9.ClntIO) -/

section io
open G9.ClntIO

structure HSInv (s : HS) : Prop where
  gone : s.w = .gone ↔ s.r = .closed
  nodup : s.handing.Nodup

theorem ioinv_init : HSInv HS.init := ⟨by simp [HS.init], by simp [HS.init]⟩

theorem ioinv_step (s s' : HS) (e : ClntIO.Ev) (h : HSInv s) (hs : s.step e = some s') : HSInv s' := by
  cases e with
  | enq i =>
    simp only [HS.step] at hs
    split at hs
    · simp at hs
    · rename_i hn
      have := (Option.some.inj hs).symm; subst this
      refine ⟨h.gone, ?_⟩
      show (s.handing ++ [i]).Nodup
      rw [List.nodup_append]
      refine ⟨h.nodup, by simp, ?_⟩
      intro a ha b hb
      have : b = i := by simpa using hb
      subst this
      intro hab; subst hab
      exact hn (Or.inl ha)
  | handoff i =>
    simp only [HS.step] at hs
    split at hs
    · rename_i hc
      have := (Option.some.inj hs).symm; subst this
      refine ⟨?_, h.nodup.erase i⟩
      show (W.writing i = W.gone) ↔ s.r = R.closed
      have hne : s.r ≠ .closed := by
        intro hr; have := h.gone.2 hr; rw [hc.2] at this; cases this
      constructor
      · intro h1; cases h1
      · intro h1; exact absurd h1 hne
    · simp at hs
  | wrote =>
    simp only [HS.step] at hs
    split at hs
    · rename_i j hw
      have := (Option.some.inj hs).symm; subst this
      refine ⟨?_, h.nodup⟩
      show (W.idle = W.gone) ↔ s.r = R.closed
      have hne : s.r ≠ .closed := by
        intro hr; have := h.gone.2 hr; rw [hw] at this; cases this
      constructor
      · intro h1; cases h1
      · intro h1; exact absurd h1 hne
    · simp at hs
  | wfail =>
    simp only [HS.step] at hs
    split at hs
    · rename_i j hw
      have := (Option.some.inj hs).symm; subst this
      refine ⟨?_, h.nodup⟩
      show (W.idle = W.gone) ↔ s.r = R.closed
      have hne : s.r ≠ .closed := by
        intro hr; have := h.gone.2 hr; rw [hw] at this; cases this
      constructor
      · intro h1; cases h1
      · intro h1; exact absurd h1 hne
    · simp at hs
  | rfail =>
    simp only [HS.step] at hs
    split at hs
    · rename_i hr
      have := (Option.some.inj hs).symm; subst this
      refine ⟨?_, h.nodup⟩
      show s.w = W.gone ↔ R.stopping = R.closed
      constructor
      · intro h1; have := h.gone.1 h1; rw [hr] at this; cases this
      · intro h1; cases h1
    · simp at hs
  | stop =>
    simp only [HS.step] at hs
    split at hs
    · have := (Option.some.inj hs).symm; subst this
      exact ⟨by simp, h.nodup⟩
    · simp at hs
  | giveup i =>
    simp only [HS.step] at hs
    split at hs
    · have := (Option.some.inj hs).symm; subst this
      exact ⟨h.gone, h.nodup.erase i⟩
    · simp at hs

theorem ioinv_run (es : List ClntIO.Ev) (s s' : HS) (h : HSInv s) (hr : s.run es = some s') : HSInv s' := by
  induction es generalizing s with
  | nil => simp [HS.run] at hr; subst hr; exact h
  | cons e es ih =>
    simp only [HS.run] at hr
    cases hst : s.step e with
    | none => rw [hst] at hr; simp at hr
    | some s1 => rw [hst] at hr; exact ih s1 (ioinv_step s s1 e h hst) (by simpa using hr)

/-- The writer goroutine is there for as long as the receiver may want to stop it: in every
    reachable state it has returned exactly when the handshake `clnt.done <- true` is over. -/
theorem writer_outlives_receiver (es : List ClntIO.Ev) (s : HS) (h : HS.init.run es = some s) :
    s.w = .gone ↔ s.r = .closed :=
  (ioinv_run es _ s ioinv_init h).gone

/-- The receiver is never stuck at `clnt.done <- true`: whatever the writer is doing — waiting at
    its select, or inside a Write (which returns, with an error once the socket is gone) — at most
    two steps later the handshake is over and `closed` is closed, which is what lets the error
    fan-out (`fanout_wakes_all`) begin. -/
theorem shutdown_completes (es : List ClntIO.Ev) (s : HS) (h : HS.init.run es = some s) (hr : s.r = .stopping) :
    ∃ es' s', es'.length ≤ 2 ∧ s.run es' = some s' ∧ s'.r = .closed := by
  have inv := ioinv_run es _ s ioinv_init h
  cases hw : s.w with
  | idle => exact ⟨[.stop], { s with r := .closed, w := .gone }, by simp, by simp [HS.run, HS.step, hr, hw], rfl⟩
  | writing j =>
    refine ⟨[.wfail, .stop], { s with r := .closed, w := .gone }, by simp, ?_, rfl⟩
    simp [HS.run, HS.step, hr, hw]
  | gone => have := inv.gone.1 hw; rw [hr] at this; cases this

/-- A caller that has queued its request and waits to hand it to the writer never waits for
    ever: either the writer takes it (at once, or after the Write it is in) or — the connection
    having failed — `closed` lets it go; in at most two steps it has left the select. -/
theorem caller_leaves_the_select (es : List ClntIO.Ev) (s : HS) (h : HS.init.run es = some s) (i : Nat)
    (hi : i ∈ s.handing) (hnr : s.r ≠ .stopping) :
    ∃ es' s', es'.length ≤ 2 ∧ s.run es' = some s' ∧ i ∉ s'.handing := by
  have inv := ioinv_run es _ s ioinv_init h
  have hgone : i ∉ s.handing.erase i := fun hm => (List.Nodup.mem_erase_iff inv.nodup).1 hm |>.1 rfl
  cases hrr : s.r with
  | stopping => exact absurd hrr hnr
  | closed =>
    refine ⟨[.giveup i], { s with handing := s.handing.erase i, gaveup := s.gaveup ++ [i] }, by simp, ?_, hgone⟩
    simp [HS.run, HS.step, hi, hrr]
  | running =>
    cases hw : s.w with
    | idle =>
      refine ⟨[.handoff i], { s with handing := s.handing.erase i, taken := s.taken ++ [i], w := .writing i }, by simp, ?_, hgone⟩
      simp [HS.run, HS.step, hi, hw]
    | writing j =>
      refine ⟨[.wrote, .handoff i], { s with handing := s.handing.erase i, taken := s.taken ++ [i], w := .writing i }, by simp, ?_, hgone⟩
      simp [HS.run, HS.step, hi, hw]
    | gone => have := inv.gone.1 hw; rw [hrr] at this; cases this

/-- Witness that the writer's return to its select after a failed Write carries all this: with a
    writer that returns instead (seeded change C10-6), after "request taken, connection fails,
    Write fails" the receiver sits at `clnt.done <- true` for ever — no event of the system is
    enabled but new callers arriving, who then wait as well. -/
theorem failed_write_exit_deadlocks :
    let s : HS := { handing := [], taken := [1], gaveup := [], w := .gone, r := .stopping }
    ([ClntIO.Ev.enq 1, .handoff 1, .rfail, .wfail].foldl (fun o e => o.bind (fun s => HS.stepExit s e)) (some HS.init) = some s) ∧
    ∀ e, (∀ i, e ≠ .enq i) → HS.stepExit s e = none := by
  refine ⟨by decide, ?_⟩
  intro e he
  cases e with
  | enq i => exact absurd rfl (he i)
  | handoff i => simp [HS.stepExit, HS.step]
  | wrote => simp [HS.stepExit, HS.step]
  | wfail => simp [HS.stepExit]
  | rfail => simp [HS.stepExit, HS.step]
  | stop => simp [HS.stepExit, HS.step]
  | giveup i => simp [HS.stepExit, HS.step]

example : (HS.init.run [.enq 1, .enq 2, .handoff 1, .rfail, .wfail, .stop, .giveup 2]).map (fun s => (s.taken, s.gaveup, s.handing)) =
    some ([1], [2], []) := by decide

end io

end G9.C10
