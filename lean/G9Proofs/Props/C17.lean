/-
  C17 — Mutations through Ufs equal the corresponding POSIX operations.
  Property theorems only. What the POSIX calls do is the operating system's business; the
  translation go9p performs is proved here: the open-flag table for all 256 modes, and which
  POSIX calls `Ufs.Create` and `Ufs.Wstat` make for a request, with which arguments and in which
  order (model: G9.UfsPlan) — exactly the ones the request asks for and no other.
  The twin-tree correspondence applies the plan to a second tree and compares it with what the
  file server did to the first: see DESIGN.md.
-/
import G9.UfsLogic
import G9.UfsPlan
namespace G9.C17
open G9 G9.Ufs

/-- the specification of the flag translation: access mode from the low two bits
    (OREAD and OEXEC read-only, OWRITE write-only, ORDWR read-write), O_TRUNC iff OTRUNC,
    nothing else (OCEXEC, ORCLOSE and the unused bits contribute nothing) -/
def flagSpec (mode : Nat) : Nat :=
  (match mode % 4 with
   | 1 => O_WRONLY
   | 2 => O_RDWR
   | _ => O_RDONLY) + (if mode / 16 % 2 = 1 then O_TRUNC else 0)

/-- the whole finite table, checked by the kernel -/
theorem omode_flags_table_nat : ∀ n, n < 256 → omode2uflags (UInt8.ofNat n) = flagSpec n := by
  decide +kernel

/-- …for every mode byte -/
theorem omode_flags_table (mode : UInt8) : omode2uflags mode = flagSpec mode.toNat := by
  have := omode_flags_table_nat mode.toNat mode.toNat_lt
  simpa using this


/-! ### which POSIX calls a request leads to (model: G9.UfsPlan) -/
section plan
open G9.UfsPlan

/-- A Twstat whose stat record asks for nothing ("don't touch" in every field) makes no call at
    all, in either dialect. -/
theorem wstat_asks_nothing_does_nothing (dotu : Bool) (lu lg : Option Nat) :
    wstatPlan dotu WReq.nothing lu lg = .calls [] := by
  cases dotu <;> simp [wstatPlan, WReq.nothing, NO32, NO64, UfsPlan.NOUID]

/-- The calls of a Twstat are, in this order and each at most once: chmod, chown, rename,
    truncate, chtimes — and each is made exactly when the request names the corresponding field,
    with the value the request carries. -/
theorem wstat_only_what_was_asked (dotu : Bool) (w : WReq) (lu lg : Option Nat) (l : List POp)
    (h : wstatPlan dotu w lu lg = .calls l) :
    ∃ a b c d e, l = a ++ b ++ c ++ d ++ e ∧
      a = (if w.mode != NO32 then [.chmod (fileMode dotu w.mode)] else []) ∧
      (b = [] ∨ ∃ u g, b = [.chown u g] ∧ (u ≠ UfsPlan.NOUID ∨ g ≠ UfsPlan.NOUID) ∧ (dotu = true → u = w.uidnum ∧ g = w.gidnum)) ∧
      c = (if w.hasName then [.rename] else []) ∧
      d = (if w.length != NO64 then [.truncate w.length] else []) ∧
      e = (if w.mtime != NO32 || w.atime != NO32 then
             [.chtimes w.atime (if w.mtime == NO32 then none else some w.mtime)] else []) := by
  unfold wstatPlan at h
  simp only at h
  split at h
  · cases h
  · rename_i uid gid hids
    split at h
    · cases h
    · cases h
      refine ⟨_, _, _, _, _, rfl, rfl, ?_, rfl, rfl, rfl⟩
      by_cases hc : (uid != UfsPlan.NOUID || gid != UfsPlan.NOUID) = true
      · right
        refine ⟨uid, gid, by simp [hc], ?_, ?_⟩
        · simp only [Bool.or_eq_true, bne_iff_ne, ne_eq] at hc; exact hc
        · intro hd
          subst hd
          simp only [if_true, Option.some.injEq, Prod.mk.injEq] at hids
          exact ⟨hids.1.symm, hids.2.symm⟩
      · left; simp [hc]

/-- a rename whose destination is outside the exported root is refused, not attempted -/
theorem wstat_rename_confined (dotu : Bool) (w : WReq) (lu lg : Option Nat) (hn : w.hasName = true)
    (ho : w.destInRoot = false) : ∀ l, wstatPlan dotu w lu lg ≠ .calls l := by
  intro l h
  unfold wstatPlan at h
  simp only at h
  split at h
  · cases h
  · simp [hn, ho] at h

/-- The mode handed to chmod or to the creating open is the nine permission bits of the request;
    the Unix setuid/setgid bits are added only on a 9P2000.u connection, nothing else ever. -/
theorem mode_is_permission_bits (dotu : Bool) (perm : Nat) :
    fileMode false perm = perm &&& 0o777 ∧ fileMode dotu perm < 0o10000 ∧
    fileMode dotu perm % 0o1000 = perm % 0o1000 := by
  refine ⟨by simp [fileMode], ?_, ?_⟩
  · unfold fileMode
    have h1 : perm &&& 0o777 < 2 ^ 12 := Nat.lt_of_le_of_lt Nat.and_le_right (by decide)
    have h2 : (if (dotu && bit perm DMSETUID) = true then S_ISUID else 0) < 2 ^ 12 := by
      split <;> decide
    have h3 : (if (dotu && bit perm DMSETGID) = true then S_ISGID else 0) < 2 ^ 12 := by
      split <;> decide
    exact Nat.or_lt_two_pow (Nat.or_lt_two_pow h1 h2) h3
  · unfold fileMode
    have e1 : ∀ x : Nat, x % 0o1000 = x &&& 0o777 := by
      intro x
      have := Nat.and_two_pow_sub_one_eq_mod x 9
      simpa using this.symm
    rw [e1, e1, Nat.and_or_distrib_right, Nat.and_or_distrib_right, Nat.and_assoc, Nat.and_self]
    have h2 : (if (dotu && bit perm DMSETUID) = true then S_ISUID else 0) &&& 0o777 = 0 := by
      split <;> decide
    have h3 : (if (dotu && bit perm DMSETGID) = true then S_ISGID else 0) &&& 0o777 = 0 := by
      split <;> decide
    rw [h2, h3]
    simp

/-- a call that makes a new object in the tree -/
def makes : POp → Bool
  | .mkdir _ | .symlink | .link | .openCreate _ _ => true
  | _ => false

/-- Tcreate: what is made is what the permission word asks for — a directory (with the nine
    permission bits), a symbolic link, a hard link, or a regular file opened with the translated
    flags and the permission bits — and never more than one object; a follow-up open of the new
    object is the only other call. -/
theorem create_makes_what_was_asked (dotu : Bool) (perm omode : Nat) (inr num fid : Bool) (l : List POp)
    (h : createPlan dotu perm omode inr num fid = .calls l) :
    (l.filter makes).length ≤ 1 ∧
    (bit perm DMDIR = true → l = [.mkdir (perm &&& 0o777), .openPlain omode]) ∧
    (bit perm DMDIR = false → bit perm DMSYMLINK = true → l = [.symlink, .openPlain omode] ∧ inr = true) ∧
    (bit perm DMDIR = false → bit perm DMSYMLINK = false → bit perm DMLINK = true →
      l = [.link, .openPlain omode] ∧ num = true ∧ fid = true) ∧
    (bit perm DMDIR = false → bit perm DMSYMLINK = false → bit perm DMLINK = false →
      bit perm DMNAMEDPIPE = false → l = [.openCreate omode (fileMode dotu perm)]) := by
  unfold createPlan at h
  cases h1 : bit perm DMDIR <;> cases h2 : bit perm DMSYMLINK <;> cases h3 : bit perm DMLINK <;>
    cases h4 : bit perm DMNAMEDPIPE <;> cases h5 : bit perm DMDEVICE <;>
    cases inr <;> cases num <;> cases fid <;> simp [h1, h2, h3, h4, h5] at h <;>
    subst h <;> simp [makes, List.filter]

/-- a symbolic link whose target would leave the exported tree, a hard link to something that is
    not a fid, a device file: refused by the file server without any call -/
theorem create_refusals_make_no_call (dotu : Bool) (perm omode : Nat) (inr num fid : Bool)
    (hd : bit perm DMDIR = false) :
    (bit perm DMSYMLINK = true → inr = false → createPlan dotu perm omode inr num fid = .refuse "eperm") ∧
    (bit perm DMSYMLINK = false → bit perm DMLINK = true → num = true → fid = false →
      createPlan dotu perm omode inr num fid = .refuse "unknownfid") := by
  unfold createPlan
  refine ⟨fun h1 h2 => by simp [hd, h1, h2], fun h1 h2 h3 h4 => by simp [hd, h1, h2, h3, h4]⟩

/-! non-vacuity: a chmod-and-truncate Twstat on a .u connection, a plain file create -/
example : wstatPlan true { WReq.nothing with mode := 0o640, length := 3 } none none =
    .calls [.chmod 0o640, .truncate 3] := by decide
example : createPlan false 0o644 1 true false false = .calls [.openCreate 1 0o644] := by decide

end plan

end G9.C17
