/-
  C17 — Mutations through Ufs equal the corresponding POSIX operations.
  Property theorems only. What the POSIX calls do is the operating system's business; the
  translation go9p performs is proved here: the open-flag table for all 256 modes.
  (The twin-tree correspondence run carries the rest: see DESIGN.md.)
-/
import G9.UfsLogic
namespace G9.C17
open G9 G9.Ufs

/-- the specification of the flag translation: access mode from the low two bits
    (OREAD and OEXEC read-only, OWRITE write-only, ORDWR read-write), O_TRUNC iff OTRUNC,
    nothing else (OCEXEC, ORCLOSE and the unused bits contribute nothing) -/
def flagSpec (mode : Nat) : Nat :=
  (match mode % 4 with
   | 1 => O_WRONLY
   | 2 => O_RDWR
   | _ => O_RDONLY) + (if mode / 16 % 2 = 1 then O_TRUNC else 0)

/-- the whole finite table, checked by the kernel -/
theorem omode_flags_table_nat : ∀ n, n < 256 → omode2uflags (UInt8.ofNat n) = flagSpec n := by
  decide +kernel

/-- …for every mode byte -/
theorem omode_flags_table (mode : UInt8) : omode2uflags mode = flagSpec mode.toNat := by
  have := omode_flags_table_nat mode.toNat mode.toNat_lt
  simpa using this

end G9.C17
