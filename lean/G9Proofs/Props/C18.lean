/-
  C18 — Ufs confines clients to the exported root.
  Property theorems only (model: G9.UfsLogic clean / inRoot / walkStep / createPath —
  mirror of filepath.Clean on component lists and of the four places where client strings
  reach host paths). Premise of the property: the tree holds no symlink leaving it; path
  resolution by the operating system of a cleaned path (no "." / ".." / "" components)
  therefore stays below its lexical prefix.
-/
import G9.UfsLogic
namespace G9.C18
open G9 G9.Ufs

def plain (n : Name) : Prop := n ≠ "" ∧ n ≠ "." ∧ n ≠ ".."

/-- the accumulator of `Clean` only ever holds plain names -/
theorem cleanAcc_plain (acc p : List Name) (h : ∀ n ∈ acc, plain n) : ∀ n ∈ cleanAcc acc p, plain n := by
  induction p generalizing acc with
  | nil => intro n hn; simp [cleanAcc] at hn; exact h n hn
  | cons x xs ih =>
    unfold cleanAcc
    split
    · exact ih acc h
    · split
      · exact ih acc.tail (fun n hn => h n (List.mem_of_mem_tail hn))
      · rename_i h1 h2
        refine ih (x :: acc) (fun n hn => ?_)
        rcases List.mem_cons.mp hn with rfl | hn
        · exact ⟨fun e => h1 (Or.inl e), fun e => h1 (Or.inr e), h2⟩
        · exact h n hn

/-- a cleaned path has no ".", ".." or empty component: nothing in it can climb -/
theorem clean_no_dotdot (p : List Name) : ∀ n ∈ clean p, plain n :=
  cleanAcc_plain [] p (fun _ h => by cases h)

theorem cleanAcc_append (acc p q : List Name) :
    cleanAcc acc (p ++ q) = cleanAcc (cleanAcc acc p).reverse q := by
  induction p generalizing acc with
  | nil => simp [cleanAcc]
  | cons x xs ih =>
    have e1 : cleanAcc acc (x :: (xs ++ q)) =
        if x = "" ∨ x = "." then cleanAcc acc (xs ++ q)
        else if x = ".." then cleanAcc acc.tail (xs ++ q) else cleanAcc (x :: acc) (xs ++ q) := by
      rw [cleanAcc]
    have e2 : cleanAcc acc (x :: xs) =
        if x = "" ∨ x = "." then cleanAcc acc xs
        else if x = ".." then cleanAcc acc.tail xs else cleanAcc (x :: acc) xs := by
      rw [cleanAcc]
    rw [List.cons_append, e1, e2]
    by_cases h1 : x = "" ∨ x = "."
    · rw [if_pos h1, if_pos h1]; exact ih acc
    · rw [if_neg h1, if_neg h1]
      by_cases h2 : x = ".."
      · rw [if_pos h2, if_pos h2]; exact ih acc.tail
      · rw [if_neg h2, if_neg h2]; exact ih (x :: acc)

/-- cleaning a list of plain names changes nothing -/
theorem cleanAcc_of_plain (acc p : List Name) (h : ∀ n ∈ p, plain n) : cleanAcc acc p = acc.reverse ++ p := by
  induction p generalizing acc with
  | nil => simp [cleanAcc]
  | cons x xs ih =>
    have hx := h x (by simp)
    unfold cleanAcc
    have h1 : ¬ (x = "" ∨ x = ".") := fun e => e.elim hx.1 hx.2.1
    simp only [h1, if_false, hx.2.2]
    rw [ih (x :: acc) (fun n hn => h n (by simp [hn]))]
    simp

theorem clean_idem (p : List Name) : clean (clean p) = clean p := by
  have := cleanAcc_of_plain [] (clean p) (clean_no_dotdot p)
  unfold clean at this ⊢
  rw [this]; simp

/-- appending one ordinary name (not "..", no '/') to a path extends the cleaned path by at
    most that name -/
theorem clean_snoc (path : List Name) (name : Name) (hn : name ≠ "..") :
    clean (path ++ [name]) = clean path ++ (if name = "" ∨ name = "." then [] else [name]) := by
  unfold clean
  rw [cleanAcc_append]
  simp only [cleanAcc, hn, if_false]
  by_cases h : name = "" ∨ name = "."
  · simp [h]
  · simp [h]

theorem isPrefixOf_append (a b c : List Name) (h : a.isPrefixOf b = true) : a.isPrefixOf (b ++ c) = true := by
  rw [List.isPrefixOf_iff_prefix] at h ⊢
  exact h.trans (List.prefix_append b c)

/-- Every host path a walk element can produce from a confined path is confined: ".."
    moves to the parent only if that is still inside the root (otherwise stays), names
    containing '/' designate nothing, ordinary names extend the path. -/
theorem walk_confined (root path : List Name) (name : Name) (p' : List Name)
    (hin : inRoot root path = true) (hs : walkStep root path name = some p') : inRoot root p' = true := by
  simp only [walkStep] at hs
  split at hs
  · split at hs
    · rename_i h2; cases hs; exact h2
    · cases hs; exact hin
  · split at hs
    · cases hs
    · rename_i hdd hsl
      cases hs
      unfold inRoot at hin ⊢
      rw [clean_snoc path name hdd]
      exact isPrefixOf_append _ _ _ hin

/-- hence, by induction over any sequence of walk elements, every path a fid can reach by
    walking from a confined path is confined -/
theorem walks_confined (root : List Name) : ∀ (names : List Name) (path p' : List Name),
    inRoot root path = true →
    names.foldlM (fun p n => walkStep root p n) path = some p' → inRoot root p' = true := by
  intro names
  induction names with
  | nil => intro path p' hin h; simp at h; cases h; exact hin
  | cons n ns ih =>
    intro path p' hin h
    simp only [List.foldlM_cons] at h
    cases hs : walkStep root path n with
    | none => rw [hs] at h; simp at h
    | some q =>
      rw [hs] at h
      exact ih q p' (walk_confined root path n q hin hs) h

/-- ".." at the root stays at the root -/
theorem dotdot_at_root_stays (root : List Name) :
    ∃ p, walkStep root root ".." = some p ∧ clean p = clean root := by
  simp only [walkStep, if_true]
  by_cases h : inRoot root (clean root).dropLast = true
  · refine ⟨_, by rw [if_pos h], ?_⟩
    -- the parent of the root is inside the root only when the root is "/" itself
    unfold inRoot at h
    rw [List.isPrefixOf_iff_prefix] at h
    have hpl : ∀ n ∈ (clean root).dropLast, plain n := fun n hn =>
      clean_no_dotdot root n ((List.dropLast_sublist _).subset hn)
    have hcl : clean (clean root).dropLast = (clean root).dropLast := by
      have := cleanAcc_of_plain [] _ hpl
      unfold clean at this ⊢
      rw [this]; simp
    rw [hcl] at h ⊢
    have hlen := h.length_le
    rw [List.length_dropLast] at hlen
    have : (clean root).length = 0 := by omega
    have hnil : clean root = [] := List.eq_nil_of_length_eq_zero this
    rw [hnil]; rfl
  · exact ⟨root, by rw [if_neg h], rfl⟩

/-- a create name that would leave the directory ('.', '..', anything with '/') is refused;
    an accepted one yields a confined path -/
theorem create_confined (root path : List Name) (name : Name) (p' : List Name)
    (hin : inRoot root path = true) (hs : createPath path name = some p') : inRoot root p' = true := by
  unfold createPath at hs
  split at hs
  · cases hs
  · rename_i h
    cases hs
    have hdd : name ≠ ".." := fun e => h (Or.inr (Or.inl e))
    unfold inRoot at hin ⊢
    rw [clean_snoc path name hdd]
    exact isPrefixOf_append _ _ _ hin

/-- attach names and rename targets are accepted only after the `inRoot` test on the joined
    path (the model of that guard is the test itself); the cleaned, accepted path has the
    cleaned root as a prefix and contains nothing that can climb -/
theorem accepted_is_below_root (root p : List Name) (h : inRoot root p = true) :
    (clean root) <+: (clean p) ∧ ∀ n ∈ clean p, plain n := by
  unfold inRoot at h
  exact ⟨List.isPrefixOf_iff_prefix.mp h, clean_no_dotdot p⟩

/-! ### non-vacuity -/
example : clean ["export", "..", "..", "etc", ".", "", "passwd"] = ["etc", "passwd"] := by decide
example : inRoot ["srv", "export"] ["srv", "export", "..", "secret"] = false := by decide
example : walkStep ["srv", "export"] ["srv", "export", "d"] ".." = some ["srv", "export"] := by decide
example : walkStep ["srv", "export"] ["srv", "export"] ".." = some ["srv", "export"] := by decide
example : walkStep ["srv", "export"] ["srv", "export"] "../x" = none := by simp [walkStep]

end G9.C18
