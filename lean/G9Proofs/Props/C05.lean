/-
  C05 — Protocol rules are enforced before the implementation is called.
  Property theorems only (model: G9.SrvSeq).  `impl` — the file-server implementation — is
  universally quantified: "whatever the implementation".
-/
import G9Proofs.Lemmas.KindInv
namespace G9.C05
open G9 G9.Srv

/-- refused: an error reply produced by the framework, nothing forwarded -/
def Refused (o : Obs) : Prop := (∃ e, o.reply = .err e) ∧ o.calls = []

variable (cfg : Cfg) (impl : Impl) (c : Conn)

/-- walking from an open fid, or by name from a non-directory -/
theorem walk_refused (f nf : UInt32) (names : List Bytes) (r : FidRec)
    (hl : lookup c.fids f = some r) (hf : f ≠ NOFID)
    (h : r.opened = true ∨ (names ≠ [] ∧ isDir r = false)) :
    Refused (step cfg impl c (.twalk f nf names)).2 := by
  have hp : ∃ e, (pre cfg impl c (.twalk f nf names)).pre = .refuse e := by
    unfold pre; simp only [msgFid]
    simp only [beq_iff_eq, hf, if_false, hl]
    rcases h with h | ⟨h1, h2⟩
    · by_cases hd : (decide (names.length > 0) && !isDir r) = true <;> simp [hd, h]
    · have : names.length > 0 := List.length_pos_iff.mpr h1
      simp [this, h2]
  obtain ⟨e, he⟩ := hp
  exact ⟨⟨e, by simp [step, he]⟩, by simp [step, he]⟩

/-- opening an open fid, or a directory other than for reading -/
theorem open_refused (f : UInt32) (mode : UInt8) (r : FidRec)
    (hl : lookup c.fids f = some r) (hf : f ≠ NOFID)
    (h : r.opened = true ∨ (isDir r = true ∧ mode ≠ OREAD)) :
    Refused (step cfg impl c (.topen f mode)).2 := by
  have hp : ∃ e, (pre cfg impl c (.topen f mode)).pre = .refuse e := by
    unfold pre; simp only [msgFid]
    simp only [beq_iff_eq, hf, if_false, hl]
    rcases h with h | ⟨h1, h2⟩
    · simp [h]
    · by_cases ho : r.opened = true <;> simp [ho, h1, h2]
  obtain ⟨e, he⟩ := hp
  exact ⟨⟨e, by simp [step, he]⟩, by simp [step, he]⟩

/-- creating through an open fid or a non-directory, or a special file on a non-.u connection -/
theorem create_refused (f : UInt32) (name : Bytes) (perm : UInt32) (mode : UInt8) (ext : Bytes) (r : FidRec)
    (hl : lookup c.fids f = some r) (hf : f ≠ NOFID)
    (h : r.opened = true ∨ isDir r = false ∨ (perm &&& DMSPECIAL ≠ 0 ∧ c.dotu = false)) :
    Refused (step cfg impl c (.tcreate f name perm mode ext)).2 := by
  have hp : ∃ e, (pre cfg impl c (.tcreate f name perm mode ext)).pre = .refuse e := by
    unfold pre; simp only [msgFid]
    simp only [beq_iff_eq, hf, if_false, hl]
    by_cases h1 : r.opened = true
    · simp [h1]
    · by_cases h2 : isDir r = true
      · rcases h with h | h | ⟨h3, h4⟩
        · exact absurd h h1
        · simp [h2] at h
        · by_cases h5 : (perm &&& DMDIR != 0 && mode != OREAD) = true <;> simp [h1, h2, h5, h3, h4]
      · simp [h1, h2]
  obtain ⟨e, he⟩ := hp
  exact ⟨⟨e, by simp [step, he]⟩, by simp [step, he]⟩

/-- writing through a fid that is not open for writing, or is a directory -/
theorem write_refused (f : UInt32) (off : UInt64) (cnt : UInt32) (d : Bytes) (r : FidRec)
    (hl : lookup c.fids f = some r) (hf : f ≠ NOFID) (hna : isAuth r = false)
    (h : r.opened = false ∨ isDir r = true ∨ r.omode &&& 3 = OREAD ∨ r.omode &&& 3 = OEXEC) :
    Refused (step cfg impl c (.twrite f off cnt d)).2 := by
  have hp : (pre cfg impl c (.twrite f off cnt d)).pre = .refuse .baduse := by
    unfold pre; simp only [msgFid]
    simp only [beq_iff_eq, hf, if_false, hl, hna, Bool.false_eq_true]
    have : (!r.opened || isDir r || r.omode &&& 3 == OREAD || r.omode &&& 3 == OEXEC) = true := by
      rcases h with h | h | h | h <;> simp [h]
    simp [this]
  exact ⟨⟨.baduse, by simp [step, hp]⟩, by simp [step, hp]⟩

/-- any read whose count exceeds msize − IOHDRSZ — for every 32-bit count, no wrap-around -/
theorem read_count_refused (f : UInt32) (off : UInt64) (cnt : UInt32) (r : FidRec)
    (hl : lookup c.fids f = some r) (hf : f ≠ NOFID) (hm : 24 ≤ c.msize.toNat)
    (h : c.msize.toNat - 24 < cnt.toNat) :
    (step cfg impl c (.tread f off cnt)).2.reply = .err .etoolarge ∧
    (step cfg impl c (.tread f off cnt)).2.calls = [] := by
  have hgt : cnt > c.msize - IOHDRSZ := by
    show c.msize - IOHDRSZ < cnt
    rw [UInt32.lt_iff_toNat_lt, UInt32.toNat_sub_of_le _ _ (by rw [UInt32.le_iff_toNat_le]; exact hm)]
    exact h
  have hp : (pre cfg impl c (.tread f off cnt)).pre = .refuse .etoolarge := by
    unfold pre; simp only [msgFid]
    simp [hf, hl, hgt]
  exact ⟨by simp [step, hp], by simp [step, hp]⟩

/-- …and any write, through a fid that is open for writing -/
theorem write_count_refused (f : UInt32) (off : UInt64) (cnt : UInt32) (d : Bytes) (r : FidRec)
    (hl : lookup c.fids f = some r) (hf : f ≠ NOFID) (hna : isAuth r = false) (hm : 24 ≤ c.msize.toNat)
    (h : c.msize.toNat - 24 < cnt.toNat) :
    Refused (step cfg impl c (.twrite f off cnt d)).2 := by
  have hgt : cnt > c.msize - IOHDRSZ := by
    show c.msize - IOHDRSZ < cnt
    rw [UInt32.lt_iff_toNat_lt, UInt32.toNat_sub_of_le _ _ (by rw [UInt32.le_iff_toNat_le]; exact hm)]
    exact h
  have hp : ∃ e, (pre cfg impl c (.twrite f off cnt d)).pre = .refuse e := by
    unfold pre; simp only [msgFid]
    simp only [beq_iff_eq, hf, if_false, hl, hna, Bool.false_eq_true]
    by_cases hb : (!r.opened || isDir r || r.omode &&& 3 == OREAD || r.omode &&& 3 == OEXEC) = true
    · simp [hb]
    · simp [hb, hgt]
  obtain ⟨e, he⟩ := hp
  exact ⟨⟨e, by simp [step, he]⟩, by simp [step, he]⟩

/-- A write that satisfies the rules is forwarded exactly once, with the fid, the user bound
    to it and the client's own arguments. -/
theorem write_forwarded (f : UInt32) (off : UInt64) (cnt : UInt32) (d : Bytes) (r : FidRec)
    (hl : lookup c.fids f = some r) (hf : f ≠ NOFID) (hna : isAuth r = false)
    (ho : r.opened = true) (hd : isDir r = false) (h1 : r.omode &&& 3 ≠ OREAD) (h2 : r.omode &&& 3 ≠ OEXEC)
    (hc : ¬ cnt > c.msize - IOHDRSZ) :
    (step cfg impl c (.twrite f off cnt d)).2.calls =
      [{ op := .write, fid := f, user := r.user, args := .twrite f off cnt d }] := by
  have hp : (pre cfg impl c (.twrite f off cnt d)).pre =
      .answer [{ op := .write, fid := f, user := r.user, args := .twrite f off cnt d }]
        (impl { op := .write, fid := f, user := r.user, args := .twrite f off cnt d }) := by
    unfold pre; simp only [msgFid]
    simp [hf, hl, hna, ho, hd, h1, h2, hc]
  simp [step, hp]

/-- likewise a read (count within the limit, not an authentication fid) -/
theorem read_forwarded (f : UInt32) (off : UInt64) (cnt : UInt32) (r : FidRec)
    (hl : lookup c.fids f = some r) (hf : f ≠ NOFID) (hna : isAuth r = false)
    (hc : ¬ cnt > c.msize - IOHDRSZ) :
    (step cfg impl c (.tread f off cnt)).2.calls =
      [{ op := .read, fid := f, user := r.user, args := .tread f off cnt }] := by
  have hp : ∃ c2, pre cfg impl c (.tread f off cnt) = ⟨c2, [f],
      .answer [{ op := .read, fid := f, user := r.user, args := .tread f off cnt }]
        (impl { op := .read, fid := f, user := r.user, args := .tread f off cnt })⟩ := by
    unfold pre; simp only [msgFid]
    simp [hf, hl, hna, hc]
  obtain ⟨c2, he⟩ := hp
  simp [step, he]

/-- an open that satisfies the rules -/
theorem open_forwarded (f : UInt32) (mode : UInt8) (r : FidRec)
    (hl : lookup c.fids f = some r) (hf : f ≠ NOFID) (ho : r.opened = false)
    (hd : isDir r = false ∨ mode = OREAD) :
    (step cfg impl c (.topen f mode)).2.calls =
      [{ op := .open, fid := f, user := r.user, args := .topen f mode }] := by
  have hp : ∃ c2, pre cfg impl c (.topen f mode) = ⟨c2, [f],
      .answer [{ op := .open, fid := f, user := r.user, args := .topen f mode }]
        (impl { op := .open, fid := f, user := r.user, args := .topen f mode })⟩ := by
    unfold pre; simp only [msgFid]
    rcases hd with hd | hd <;> simp [hf, hl, ho, hd]
  obtain ⟨c2, he⟩ := hp
  simp [step, he]

/-- shape of what an attach forwards when the implementation provides authentication -/
theorem attach_calls_auth (fid afid : UInt32) (un an : Bytes) (n : UInt32) (ha : cfg.hasAuth = true) :
    ∀ calls a, (pre cfg impl c (.tattach fid afid un an n)).pre = .answer calls a →
      ∃ chk : Call, chk.op = .authCheck ∧ chk.fid = fid ∧ chk.args = .tattach fid afid un an n ∧
        ((∃ e k, impl chk = .e e k ∧ calls = [chk]) ∨
         (∃ m att, impl chk = .r m ∧ calls = [chk, att] ∧ att.op = .attach ∧ att.fid = fid ∧
            att.afid = chk.afid ∧ att.user = chk.user ∧ att.args = chk.args)) := by
  intro calls a
  unfold pre
  simp only [ha, if_true]
  repeat' split
  all_goals first
    | (intro h; cases h; done)
    | (intro h; cases h
       rename_i heq
       exact ⟨_, rfl, rfl, rfl, Or.inl ⟨_, _, heq, rfl⟩⟩)
    | (intro h; cases h
       rename_i heq
       exact ⟨_, rfl, rfl, rfl, Or.inr ⟨_, _, heq, rfl, rfl, rfl, rfl, rfl, rfl⟩⟩)

/-- When the implementation provides authentication, no attach reaches it unless the
    authentication check was made on exactly this attach and accepted it. -/
theorem auth_gate (fid afid : UInt32) (un an : Bytes) (n : UInt32) (ha : cfg.hasAuth = true)
    (call : Call) (hc : call ∈ (step cfg impl c (.tattach fid afid un an n)).2.calls)
    (hop : call.op = .attach) :
    ∃ chk ∈ (step cfg impl c (.tattach fid afid un an n)).2.calls,
      chk.op = .authCheck ∧ chk.fid = call.fid ∧ chk.afid = call.afid ∧ chk.args = call.args ∧
      ∃ m, impl chk = .r m := by
  have hcalls : (step cfg impl c (.tattach fid afid un an n)).2.calls =
      match (pre cfg impl c (.tattach fid afid un an n)).pre with
      | .refuse _ => []
      | .answer calls _ => calls := rfl
  rw [hcalls] at hc ⊢
  cases hp : (pre cfg impl c (.tattach fid afid un an n)).pre with
  | refuse e => rw [hp] at hc; simp at hc
  | answer calls a =>
    rw [hp] at hc
    simp only at hc ⊢
    obtain ⟨chk, h1, h2, h3, h4⟩ := attach_calls_auth cfg impl c fid afid un an n ha calls a hp
    rcases h4 with ⟨e, k, _, hcs⟩ | ⟨m, att, him, hcs, ho, hf, haf, _, hargs⟩
    · subst hcs
      simp at hc; subst hc
      rw [h1] at hop; cases hop
    · subst hcs
      simp at hc
      rcases hc with hc | hc
      · subst hc; rw [h1] at hop; cases hop
      · subst hc
        exact ⟨chk, by simp, h1, by rw [h2, hf], haf.symm, hargs.symm, m, him⟩

end G9.C05
