/-
  C12 — Version and msize negotiation is honoured in both directions.
  Property theorems only (models: G9.SrvSeq for the server side, G9.Wire.Spec for lengths).
-/
import G9Proofs.Lemmas.KindInv
import G9Proofs.Lemmas.WirePack
import G9.Version
import G9.BufPool
namespace G9.C12
open G9 G9.Srv

variable (cfg : Cfg) (impl : Impl) (c : Conn)

theorem iohdrsz_toNat : (IOHDRSZ : UInt32).toNat = 24 := rfl

/-- Tversion: refused iff the client's msize cannot carry an I/O header; otherwise the
    connection's msize becomes min(client, current), the dialect is 9P2000.u iff the client
    asked for exactly that and the server speaks it (plain 9P2000 otherwise), and the
    answer is Rversion with the negotiated values.  Nothing reaches the implementation. -/
theorem negotiate_spec (ms : UInt32) (ver : Bytes) :
    (ms.toNat < 24 →
      pre cfg impl c (.tversion ms ver) = ⟨c, [], .refuse .msizeSmall⟩) ∧
    (24 ≤ ms.toNat →
      ∃ m du, pre cfg impl c (.tversion ms ver) =
          ⟨{ c with msize := m, dotu := du }, [], .answer [] (.r (.rversion m (if du then v9P2000u else v9P2000)))⟩ ∧
        m.toNat = min ms.toNat c.msize.toNat ∧ du = (ver == v9P2000u && cfg.srvDotu)) := by
  refine ⟨fun h => ?_, fun h => ?_⟩
  · have hlt : ms < IOHDRSZ := by rw [UInt32.lt_iff_toNat_lt, iohdrsz_toNat]; exact h
    simp [pre, hlt]
  · have hlt : ¬ ms < IOHDRSZ := by rw [UInt32.lt_iff_toNat_lt, iohdrsz_toNat]; omega
    by_cases hm : ms < c.msize
    · have := UInt32.lt_iff_toNat_lt.mp hm
      exact ⟨ms, _, by simp [pre, hlt, hm], by omega, rfl⟩
    · have : ¬ ms.toNat < c.msize.toNat := fun h => hm (UInt32.lt_iff_toNat_lt.mpr h)
      exact ⟨c.msize, _, by simp [pre, hlt, hm], by omega, rfl⟩

/-- the Rversion always fits the negotiated msize -/
theorem rversion_fits (du : Bool) (m : UInt32) (h : 24 ≤ m.toNat) :
    (Spec.encode du 0 (.rversion m (if du then v9P2000u else v9P2000))).length ≤ m.toNat := by
  rw [encode_length]
  cases du <;> simp [Spec.body, Spec.str, v9P2000u, v9P2000] <;> omega

/-- every request other than Tversion leaves msize and dialect alone -/
theorem pre_keeps_msize (t : Msg) (ht : ∀ ms v, t ≠ .tversion ms v) :
    (pre cfg impl c t).c.msize = c.msize ∧ (pre cfg impl c t).c.dotu = c.dotu := by
  cases t with
  | tversion ms v => exact absurd rfl (ht ms v)
  | tattach fid afid un an n =>
    unfold pre; simp only
    repeat' split
    all_goals first | exact ⟨rfl, rfl⟩ | simp
  | _ =>
    unfold pre
    simp only [msgFid]
    repeat' split
    all_goals first | exact ⟨rfl, rfl⟩ | simp

theorem post_keeps_msize (t : Msg) (rep : Reply) :
    (post c t rep).1.msize = c.msize ∧ (post c t rep).1.dotu = c.dotu := by
  unfold post
  repeat' split
  all_goals first | exact ⟨rfl, rfl⟩ | simp

/-- msize never grows and never drops below an I/O header; the dialect changes only by
    Tversion -/
theorem msize_monotone (t : Msg) (h : 24 ≤ c.msize.toNat) :
    24 ≤ (step cfg impl c t).1.msize.toNat ∧ (step cfg impl c t).1.msize.toNat ≤ c.msize.toNat := by
  have hm : (step cfg impl c t).1.msize = (pre cfg impl c t).c.msize := by
    simp only [step]
    split
    · rfl
    · exact (post_keeps_msize _ _ _).1
  rw [hm]
  by_cases hv : ∃ ms v, t = .tversion ms v
  · obtain ⟨ms, v, rfl⟩ := hv
    obtain ⟨h1, h2⟩ := negotiate_spec cfg impl c ms v
    by_cases hlt : ms.toNat < 24
    · rw [h1 hlt]; exact ⟨h, Nat.le_refl _⟩
    · obtain ⟨m, du, he, hmin, _⟩ := h2 (by omega)
      rw [he]; simp only; omega
  · have := pre_keeps_msize cfg impl c t (fun ms v e => hv ⟨ms, v, e⟩)
    rw [this.1]; exact ⟨h, Nat.le_refl _⟩

/-- the error text is cut so that an Rerror always fits: no reply exceeds msize -/
theorem rerror_fits (ename : Bytes) (ecode : UInt32) (h : 24 ≤ c.msize.toNat) :
    (Spec.encode c.dotu 0 (rerrorMsg c ename ecode)).length ≤ c.msize.toNat := by
  rw [encode_length]
  unfold rerrorMsg
  cases hd : c.dotu <;> simp [Spec.body, Spec.str, List.length_take] <;> omega

/-- Every reply the framework sends — R-message or error, whatever the implementation
    answered — is at most the negotiated msize long. -/
theorem no_reply_exceeds_msize (t : Msg) (h : 24 ≤ c.msize.toNat) :
    let r := step cfg impl c t
    (Spec.encode r.1.dotu 0 (wireReply r.1 r.2.reply)).length ≤ r.1.msize.toNat := by
  intro r
  have h24 := (msize_monotone cfg impl c t h).1
  have hmd : r.1.msize = (pre cfg impl c t).c.msize ∧ r.1.dotu = (pre cfg impl c t).c.dotu := by
    show (step cfg impl c t).1.msize = _ ∧ (step cfg impl c t).1.dotu = _
    simp only [step]
    split
    · exact ⟨rfl, rfl⟩
    · exact post_keeps_msize _ _ _
  have hrep : r.2.reply = stepRep cfg impl c t := rfl
  rw [hrep]
  unfold stepRep
  cases hp : (pre cfg impl c t).pre with
  | refuse e =>
    simp only [wireReply]
    exact rerror_fits r.1 _ _ h24
  | answer calls a =>
    simp only
    unfold fitReply
    cases a with
    | e n k => simp only [wireReply]; exact rerror_fits r.1 _ _ h24
    | r m =>
      simp only
      split
      · rename_i hfit
        simp only [wireReply]
        rw [hmd.1, hmd.2]; exact hfit
      · simp only [wireReply]; exact rerror_fits r.1 _ _ h24

/-- the receive loop's gate: a frame is executed iff it is not longer than msize; a longer
    one ends the connection before anything is executed -/
theorem frame_size_gate (t : Msg) :
    (stepFrame cfg impl c t = none ↔ c.msize.toNat < (Spec.encode c.dotu 0 t).length) := by
  unfold stepFrame
  split <;> simp_all


/-! ### both directions: the client's `Connect` against the framework -/

theorem v_ne : (v9P2000 == v9P2000u) = false := by decide

/-- The whole exchange on a fresh connection, for every client msize that can carry an I/O header
    and every combination of what the two sides speak: client and server end up with the same
    msize, min(client, server), and the same dialect, 9P2000.u exactly when both asked for it. -/
theorem both_sides_agree (cm : UInt32) (cdotu : Bool) (h : 24 ≤ cm.toNat) (hs : 24 ≤ cfg.srvMsize.toNat) :
    ∃ m d sc, Version.connect cfg impl cm cdotu = some ((m, d), sc) ∧
      sc.msize = m ∧ sc.dotu = d ∧
      m.toNat = min cm.toNat cfg.srvMsize.toNat ∧ d = (cdotu && cfg.srvDotu) := by
  obtain ⟨_, h2⟩ := negotiate_spec cfg impl (Conn.init cfg) cm (Version.clientVersion cdotu)
  obtain ⟨m, du, hpre, hmin, hdu⟩ := h2 h
  have hm24 : 24 ≤ m.toNat := by
    have : (Conn.init cfg).msize = cfg.srvMsize := rfl
    rw [this] at hmin; omega
  have hfit := rversion_fits du m hm24
  have hstep : (step cfg impl (Conn.init cfg) (.tversion cm (Version.clientVersion cdotu))) =
      ({ (Conn.init cfg) with msize := m, dotu := du },
       { calls := [], reply := .r (.rversion m (if du then v9P2000u else v9P2000)), destroyed := [] }) := by
    unfold step
    rw [hpre]
    simp [fitReply, hfit, decRefs, Conn.init]
  have hduv : du = (cdotu && cfg.srvDotu) := by
    rw [hdu]; unfold Version.clientVersion
    cases cdotu <;> simp [v_ne]
  have hmsrv : m.toNat = min cm.toNat cfg.srvMsize.toNat := by
    have : (Conn.init cfg).msize = cfg.srvMsize := rfl
    rw [this] at hmin; exact hmin
  refine ⟨m, du, { (Conn.init cfg) with msize := m, dotu := du }, ?_, rfl, rfl, hmsrv, hduv⟩
  unfold Version.connect
  rw [hstep]
  simp only [Version.clientAfter]
  -- the client keeps the smaller of its own msize and the server's answer: that is the answer
  have hcm : (if m < cm then m else cm) = m := by
    by_cases hlt : m < cm
    · rw [if_pos hlt]
    · rw [if_neg hlt]
      apply UInt32.toNat_inj.mp
      have : ¬ m.toNat < cm.toNat := fun hh => hlt (UInt32.lt_iff_toNat_lt.mpr hh)
      omega
  rw [hcm]
  -- and the dialect: the server answers .u only if it was asked and speaks it
  have hd2 : ((if du = true then v9P2000u else v9P2000) == v9P2000u && cdotu) = du := by
    rw [hduv]
    cases cdotu <;> cases cfg.srvDotu <;> simp [v_ne]
  rw [hd2]

/-! ### the reply buffers (G9.BufPool): what the count guards rely on -/

section Buf
open G9.BufPool

/-- every reply buffer, pooled or in use, is at least as long as the connection's msize, and the
    msize can carry an I/O header -/
structure BInv (s : BS) : Prop where
  hdr : BufPool.IOHDRSZ ≤ s.msize
  pool : ∀ b ∈ s.pool, s.msize ≤ b
  out : ∀ b ∈ s.out, s.msize ≤ b

theorem binv_init (srvMsize : Nat) (h : BufPool.IOHDRSZ ≤ srvMsize) : BInv (BS.init srvMsize) :=
  ⟨h, by simp [BS.init], by simp [BS.init]⟩

theorem binv_step (s s' : BS) (e : BEv) (h : BInv s) (hs : s.step e = some s') : BInv s' := by
  cases e with
  | version m =>
    simp only [BS.step] at hs
    split at hs
    · have : s' = s := by simpa using hs.symm
      subst this; exact h
    · rename_i hm
      have : s' = { s with msize := if m < s.msize then m else s.msize } := by simpa using hs.symm
      subst this
      refine ⟨?_, ?_, ?_⟩
      · show BufPool.IOHDRSZ ≤ (if m < s.msize then m else s.msize)
        split
        · omega
        · exact h.hdr
      · intro b hb
        show (if m < s.msize then m else s.msize) ≤ b
        have := h.pool b hb
        split <;> omega
      · intro b hb
        show (if m < s.msize then m else s.msize) ≤ b
        have := h.out b hb
        split <;> omega
  | takePooled =>
    simp only [BS.step] at hs
    split at hs
    · simp at hs
    · rename_i b rest hp
      have : s' = { s with pool := rest, out := s.out ++ [cut b s.msize] } := by simpa using hs.symm
      subst this
      refine ⟨h.hdr, ?_, ?_⟩
      · intro x hx; exact h.pool x (by rw [hp]; exact List.mem_cons_of_mem _ hx)
      · intro x hx
        rcases List.mem_append.1 hx with hx | hx
        · exact h.out x hx
        · have hxe : x = cut b s.msize := by simpa using hx
          have hb := h.pool b (by rw [hp]; simp)
          show s.msize ≤ x
          rw [hxe]; unfold cut; split <;> omega
  | takeFresh =>
    simp only [BS.step] at hs
    split at hs
    · have : s' = { s with out := s.out ++ [s.msize] } := by simpa using hs.symm
      subst this
      refine ⟨h.hdr, h.pool, ?_⟩
      intro x hx
      rcases List.mem_append.1 hx with hx | hx
      · exact h.out x hx
      · have : x = s.msize := by simpa using hx
        show s.msize ≤ x
        omega
    · simp at hs
  | give i =>
    simp only [BS.step] at hs
    split at hs
    · rename_i b hb
      split at hs
      · have : s' = { s with pool := s.pool ++ [b], out := s.out.eraseIdx i } := by simpa using hs.symm
        subst this
        have hbm : b ∈ s.out := List.mem_of_getElem? hb
        refine ⟨h.hdr, ?_, ?_⟩
        · intro x hx
          rcases List.mem_append.1 hx with hx | hx
          · exact h.pool x hx
          · have : x = b := by simpa using hx
            subst this; exact h.out x hbm
        · intro x hx; exact h.out x ((List.eraseIdx_sublist _ _).subset hx)
      · simp at hs
    · simp at hs
  | drop i =>
    simp only [BS.step] at hs
    split at hs
    · have : s' = { s with out := s.out.eraseIdx i } := by simpa using hs.symm
      subst this
      exact ⟨h.hdr, h.pool, fun x hx => h.out x ((List.eraseIdx_sublist _ _).subset hx)⟩
    · simp at hs

theorem binv_run (es : List BEv) (s s' : BS) (h : BInv s) (hr : s.run es = some s') : BInv s' := by
  induction es generalizing s with
  | nil => simp [BS.run] at hr; subst hr; exact h
  | cons e es ih =>
    simp only [BS.run] at hr
    cases hst : s.step e with
    | none => rw [hst] at hr; simp at hr
    | some s1 => rw [hst] at hr; exact ih s1 (binv_step s s1 e h hst) (by simpa using hr)

/-- Whatever the history of a connection — any number of Tversions, requests, replies, in any
    order — the reply buffer a request is given is exactly msize bytes long at that moment… -/
theorem taken_buffer_is_msize (srvMsize : Nat) (h0 : BufPool.IOHDRSZ ≤ srvMsize) (es : List BEv) (s s' : BS)
    (hr : (BS.init srvMsize).run es = some s) (e : BEv) (he : e = .takePooled ∨ e = .takeFresh)
    (hs : s.step e = some s') : s'.out = s.out ++ [s.msize] := by
  have h := binv_run es _ s (binv_init srvMsize h0) hr
  rcases he with rfl | rfl
  · simp only [BS.step] at hs
    split at hs
    · simp at hs
    · rename_i b rest hp
      have : s' = { s with pool := rest, out := s.out ++ [cut b s.msize] } := by simpa using hs.symm
      subst this
      have hb := h.pool b (by rw [hp]; simp)
      show s.out ++ [cut b s.msize] = s.out ++ [s.msize]
      congr 2
      unfold cut; split <;> omega
  · simp only [BS.step] at hs
    split at hs
    · have : s' = { s with out := s.out ++ [s.msize] } := by simpa using hs.symm
      subst this; rfl
    · simp at hs

/-- …and stays at least msize long while the request is in progress, so every count the guards
    of srv_fcall.go let through (`count ≤ msize − BufPool.IOHDRSZ`) fits it together with the Rread
    header (11 bytes), the Rwrite, or any other fixed part up to BufPool.IOHDRSZ. -/
theorem admitted_count_fits (srvMsize : Nat) (h0 : BufPool.IOHDRSZ ≤ srvMsize) (es : List BEv) (s : BS)
    (hr : (BS.init srvMsize).run es = some s) (b : Nat) (hb : b ∈ s.out) (count : Nat)
    (hc : count ≤ s.msize - BufPool.IOHDRSZ) : count + BufPool.IOHDRSZ ≤ b ∧ count + 11 ≤ b := by
  have h := binv_run es _ s (binv_init srvMsize h0) hr
  have h1 := h.out b hb
  have h2 := h.hdr
  unfold BufPool.IOHDRSZ at *
  omega

/-- the connection's msize never grows -/
theorem msize_never_grows (es : List BEv) (s s' : BS) (hr : s.run es = some s') : s'.msize ≤ s.msize := by
  induction es generalizing s with
  | nil => simp [BS.run] at hr; subst hr; exact Nat.le_refl _
  | cons e es ih =>
    simp only [BS.run] at hr
    cases hst : s.step e with
    | none => rw [hst] at hr; simp at hr
    | some s1 =>
      rw [hst] at hr
      have h1 := ih s1 (by simpa using hr)
      have h2 : s1.msize ≤ s.msize := by
        cases e with
        | version m =>
          simp only [BS.step] at hst
          split at hst
          · have : s1 = s := by simpa using hst.symm
            subst this; exact Nat.le_refl _
          · have : s1 = { s with msize := if m < s.msize then m else s.msize } := by simpa using hst.symm
            subst this
            show (if m < s.msize then m else s.msize) ≤ s.msize
            split <;> omega
        | takePooled =>
          simp only [BS.step] at hst
          split at hst
          · simp at hst
          · have := (Option.some.inj hst).symm; subst this; exact Nat.le_refl _
        | takeFresh =>
          simp only [BS.step] at hst
          split at hst
          · have := (Option.some.inj hst).symm; subst this; exact Nat.le_refl _
          · simp at hst
        | give i =>
          simp only [BS.step] at hst
          split at hst
          · split at hst
            · have := (Option.some.inj hst).symm; subst this; exact Nat.le_refl _
            · simp at hst
          · simp at hst
        | drop i =>
          simp only [BS.step] at hst
          split at hst
          · have := (Option.some.inj hst).symm; subst this; exact Nat.le_refl _
          · simp at hst
      omega

/-- Witness that the rule "a Tversion never raises the msize" carries the result: with a Tversion
    that negotiates against the server's msize again (seeded change C06-7) a request gets a
    64-byte buffer on a connection whose msize is 8192, and a count of 4096 passes the guard. -/
theorem raising_version_breaks_the_fit :
    let run := fun (s : BS) (es : List BEv) => es.foldl (fun o e => o.bind (fun s => BS.stepRaising 8192 s e)) (some s)
    (run (BS.init 8192) [.version 64, .takeFresh, .give 0, .version 8192, .takePooled]).map (fun s => (s.msize, s.out)) =
      some (8192, [64]) := by decide

example : ((BS.init 8192).run [.version 64, .takeFresh, .give 0, .version 8192, .takePooled]).map (fun s => (s.msize, s.out)) =
    some (64, [64]) := by decide

end Buf

end G9.C12
