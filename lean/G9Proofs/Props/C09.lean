/-
  C09 — Client calls get their own reply, with distinct and recycled tags.
  Property theorems only (model: G9.Clnt). Every theorem is over all reachable states,
  i.e. all schedules of any number of callers, any reply order.
-/
import G9.Clnt
import G9Proofs.Lemmas.ReqList
namespace G9.C09
open G9 G9.Clnt

/-- all tags currently accounted for: free, cached with a parked Req, or held by a call -/
def tags (s : CS) : List Nat := s.free ++ s.cache ++ s.live.map (·.2)

def Inv (n : Nat) (s : CS) : Prop := (tags s).Perm (List.range n)

theorem tagOf_mem (s : CS) (i t : Nat) (h : tagOf s i = some t) : (i, t) ∈ s.live := by
  unfold tagOf at h
  cases hf : s.live.find? (·.1 == i) with
  | none => rw [hf] at h; cases h
  | some x =>
    rw [hf] at h
    have hm := List.mem_of_find?_eq_some hf
    have hp := List.find?_some hf
    simp at h hp
    obtain ⟨a, b⟩ := x
    simp at h hp
    subst h; subst hp; exact hm

theorem release_tags (s : CS) (i t : Nat) (h : (i, t) ∈ s.live) : (tags (s.release i t)).Perm (tags s) := by
  have hl : s.live.Perm ((i, t) :: s.live.erase (i, t)) := List.perm_cons_erase h
  have hm : (s.live.map (·.2)).Perm (t :: (s.live.erase (i, t)).map (·.2)) := by
    simpa using hl.map (·.2)
  unfold CS.release tags
  split
  · simp only
    -- free ++ (cache ++ [t]) ++ rest  ~  free ++ cache ++ (t :: rest)
    have : (s.free ++ (s.cache ++ [t]) ++ (s.live.erase (i, t)).map (·.2)).Perm
        (s.free ++ s.cache ++ (t :: (s.live.erase (i, t)).map (·.2))) := by
      simp only [List.append_assoc, List.singleton_append]
      exact List.Perm.refl _
    exact this.trans ((List.Perm.append_left _ hm).symm)
  · simp only
    have : (s.free ++ [t] ++ s.cache ++ (s.live.erase (i, t)).map (·.2)).Perm
        (s.free ++ s.cache ++ (t :: (s.live.erase (i, t)).map (·.2))) := by
      simp only [List.append_assoc, List.singleton_append]
      apply List.Perm.append_left
      exact (List.perm_middle).symm
    exact this.trans ((List.Perm.append_left _ hm).symm)

/-- every event preserves the tag accounting -/
theorem step_tags (s s' : CS) (e : Ev) (h : s.step e = some s') : (tags s').Perm (tags s) := by
  cases e with
  | alloc i =>
    simp only [CS.step] at h
    split at h
    · cases h
    · split at h
      · rename_i t c hc; cases h
        simp only [tags, hc, List.map_cons]
        simp only [List.append_assoc]
        apply List.Perm.append_left
        exact (List.perm_middle)
      · rename_i t f hc hf; cases h
        simp only [tags, hc, hf, List.map_cons, List.nil_append, List.append_nil]
        exact (List.perm_middle)
      · cases h
  | enqueue i =>
    simp only [CS.step] at h
    split at h
    · cases h
    · rename_i t ht
      split at h
      · cases h
      · split at h
        · cases h
          exact release_tags s i t (tagOf_mem s i t ht)
        · cases h; exact List.Perm.refl _
  | deliver t p =>
    simp only [CS.step] at h
    split at h
    · cases h
    · split at h <;> (cases h; exact List.Perm.refl _)
  | fail =>
    simp only [CS.step] at h
    split at h
    · cases h
    · cases h; exact List.Perm.refl _
  | fanout =>
    simp only [CS.step] at h
    split at h
    · cases h
    · split at h
      · cases h
      · cases h; exact List.Perm.refl _
  | ret i =>
    simp only [CS.step] at h
    split at h
    · rename_i w t hw ht
      cases h
      exact release_tags s i t (tagOf_mem s i t ht)
    · cases h

theorem run_tags (n : Nat) (es : List Ev) : ∀ (s0 s : CS), (tags s0).Perm (List.range n) → s0.run es = some s →
    (tags s).Perm (List.range n) := by
  induction es with
  | nil => intro s0 s h0 hr; simp [CS.run] at hr; subst hr; exact h0
  | cons e es ih =>
    intro s0 s h0 hr
    simp only [CS.run] at hr
    cases hs : s0.step e with
    | none => rw [hs] at hr; cases hr
    | some s1 =>
      rw [hs] at hr
      exact ih s1 s ((step_tags s0 s1 e hs).trans h0) hr

/-- In every reachable state — any number of callers, any interleaving, any reply order,
    failures included — the tags are exactly accounted for: the free tags, the tags of
    parked request slots and the tags of calls in progress together are a permutation of
    the pool. No tag is lost, none is duplicated. -/
theorem tags_partition (n : Nat) (es : List Ev) (s : CS) (h : (CS.init n).run es = some s) : Inv n s :=
  run_tags n es (CS.init n) s (by simp [tags, CS.init]) h

/-- hence the tags outstanding at any instant are pairwise distinct -/
theorem outstanding_tags_nodup (n : Nat) (es : List Ev) (s : CS) (h : (CS.init n).run es = some s) :
    (s.live.map (·.2)).Nodup := by
  have hp := tags_partition n es s h
  have hn : (tags s).Nodup := (hp.nodup_iff).2 List.nodup_range
  unfold tags at hn
  exact (List.nodup_append.1 hn).2.1

/-- and tags are recycled: the number of tags not held by a call in progress is the pool
    size minus the calls in progress — after any number of completed calls everything is
    available again, so an unbounded number of calls can be made -/
theorem tags_recycled (n : Nat) (es : List Ev) (s : CS) (h : (CS.init n).run es = some s) :
    s.free.length + s.cache.length + s.live.length = n := by
  have hp := (tags_partition n es s h).length_eq
  simp [tags] at hp
  omega

/-- A reply is delivered to the call whose tag it carries — the first (and by
    `outstanding_tags_nodup` only) pending call with that tag — with the frame's payload; no
    other call's state changes. -/
theorem own_reply (s s' : CS) (t p : Nat) (h : s.step (.deliver t p) = some s') (hc : s'.closed = false) :
    ∃ i, tagOf s i = some t ∧ i ∈ s.pend ∧ s'.woken = (i, some p) :: s.woken ∧ s'.pend = s.pend.erase i ∧
      s'.live = s.live := by
  simp only [CS.step] at h
  split at h
  · cases h
  · split at h
    · cases h; simp at hc
    · rename_i i hi
      cases h
      have hm := List.mem_of_find?_eq_some hi
      have hp := List.find?_some hi
      exact ⟨i, by simpa using hp, hm, rfl, rfl, rfl⟩

/-- a frame whose tag belongs to no pending call fails the connection (it is not handed to
    anybody) -/
theorem unknown_tag_fails (s s' : CS) (t p : Nat) (h : s.step (.deliver t p) = some s')
    (hn : ∀ i ∈ s.pend, tagOf s i ≠ some t) : s'.err = true ∧ s'.closed = true ∧ s'.woken = s.woken := by
  simp only [CS.step] at h
  split at h
  · cases h
  · split at h
    · cases h; exact ⟨rfl, rfl, rfl⟩
    · rename_i i hi
      have hm := List.mem_of_find?_eq_some hi
      have hp := List.find?_some hi
      exact absurd (by simpa using hp) (hn i hm)

/-! ### non-vacuity -/
example : ((CS.init 4).run [.alloc 7, .alloc 8, .enqueue 7, .enqueue 8, .deliver 1 99, .ret 8, .deliver 0 55, .ret 7]).map
    (fun s => (s.free, s.cache, s.live, s.pend)) = some ([2, 3], [1, 0], [], []) := by decide


/-- The pipelined Tag interface: its requests carry the Tag's own tag, so several pending calls
    share one (states `alloc` never produces). The receiver gives a reply to the *oldest* pending
    call with that tag — the list is in issue order (`enqueue` appends) — so calls sharing a tag
    are completed in the order they were issued, whatever else is pending in between. -/
theorem shared_tag_replies_in_issue_order (s : CS) (t p i : Nat) (before after : List Nat)
    (hc : s.closed = false) (hpend : s.pend = before ++ i :: after) (hi : tagOf s i = some t)
    (hb : ∀ j ∈ before, tagOf s j ≠ some t) :
    s.step (.deliver t p) = some { s with pend := s.pend.erase i, woken := (i, some p) :: s.woken } := by
  have hfind : s.pend.find? (fun j => tagOf s j == some t) = some i := by
    rw [hpend, List.find?_append]
    have h1 : before.find? (fun j => tagOf s j == some t) = none := by
      rw [List.find?_eq_none]
      intro j hj
      have := hb j hj
      simp [this]
    rw [h1]
    simp [hi]
  simp [CS.step, hc, hfind]

/-! ### the pending list as the code keeps it (G9.ReqList): pointer operations refine the list -/

section reqlist
open G9.ReqList

/-- what a `Req` object goes through: appended by Rpcnb, unlinked by recv (a reply, or the error
    fan-out), its links cleared by ReqFree before it is used again -/
inductive LOp where
  | app (r : Nat)
  | unl (r : Nat)
  | free (r : Nat)
  deriving Repr, DecidableEq

/-- concrete and abstract state side by side: the linked structure, the list it is meant to be,
    and the requests that are unlinked but not yet cleared -/
structure LSt where
  rl : RL := {}
  abs : List Nat := []
  dirty : List Nat := []

/-- the discipline of clnt_clnt.go: only a cleared request is appended, only a listed one is
    unlinked, only an unlinked one is cleared -/
def LSt.step (s : LSt) : LOp → Option LSt
  | .app r => if r ∈ s.abs ∨ r ∈ s.dirty then none else some { s with rl := s.rl.append r, abs := s.abs ++ [r] }
  | .unl r => if r ∈ s.abs then some { rl := s.rl.unlink r, abs := s.abs.erase r, dirty := r :: s.dirty } else none
  | .free r => if r ∈ s.dirty then some { s with rl := s.rl.free r, dirty := s.dirty.filter (· ≠ r) } else none

def LSt.run (s : LSt) : List LOp → Option LSt
  | [] => some s
  | o :: os => (s.step o).bind (fun s' => s'.run os)

structure LInv (s : LSt) : Prop where
  repr : Rep s.rl s.abs
  clean : ∀ r, r ∉ s.abs → r ∉ s.dirty → s.rl.next r = none
  apart : ∀ r, r ∈ s.dirty → r ∉ s.abs

theorem linv_init : LInv {} :=
  ⟨⟨by simp, rfl, rfl, trivial⟩, fun _ _ _ => rfl, by intro r hr; simp at hr⟩

theorem linv_step (s s' : LSt) (o : LOp) (h : LInv s) (hs : s.step o = some s') : LInv s' := by
  cases o with
  | app r =>
    simp only [LSt.step] at hs
    split at hs
    · simp at hs
    · rename_i hn
      have hra : r ∉ s.abs := fun hm => hn (Or.inl hm)
      have hrd : r ∉ s.dirty := fun hm => hn (Or.inr hm)
      have := (Option.some.inj hs).symm; subst this
      refine ⟨append_repr s.rl s.abs r h.repr hra (h.clean r hra hrd), ?_, ?_⟩
      · intro x hx hxd
        have hxa : x ∉ s.abs := fun hm => hx (List.mem_append_left _ hm)
        have hxr : x ≠ r := fun e => hx (by simp [e])
        show (s.rl.append r).next x = none
        have hc := h.clean x hxa hxd
        unfold RL.append
        cases hl : s.rl.last with
        | none => simpa using hc
        | some lst =>
          have hlin : lst ∈ s.abs := List.mem_of_getLast? (by rw [← h.repr.last, hl])
          have : x ≠ lst := fun e => hxa (e ▸ hlin)
          simpa [this] using hc
      · intro x hx hm
        rcases List.mem_append.1 hm with hm | hm
        · exact h.apart x hx hm
        · have : x = r := by simpa using hm
          exact hrd (this ▸ hx)
  | unl r =>
    simp only [LSt.step] at hs
    split at hs
    · rename_i hr
      have := (Option.some.inj hs).symm; subst this
      refine ⟨unlink_repr s.rl s.abs r h.repr hr, ?_, ?_⟩
      · intro x hx hxd
        have hxr : x ≠ r := fun e => hxd (by simp [e])
        have hxd' : x ∉ s.dirty := fun hm => hxd (List.mem_cons_of_mem _ hm)
        have hxa : x ∉ s.abs := fun hm => hx ((List.mem_erase_of_ne hxr).2 hm)
        have hc := h.clean x hxa hxd'
        show (s.rl.unlink r).next x = none
        -- unlink writes `next` only at the predecessor of r, a member of the list
        unfold RL.unlink
        cases hp : s.rl.prev r with
        | none => cases hn : s.rl.next r <;> simpa using hc
        | some p' =>
          obtain ⟨pre, post, hl⟩ := List.append_of_mem hr
          have hsp := (repr_split s.rl pre post r (hl ▸ h.repr)).1
          have hpin : p' ∈ s.abs := by
            rw [hl]; apply List.mem_append_left
            exact List.mem_of_getLast? (by rw [← hsp, hp])
          have : x ≠ p' := fun e => hxa (e ▸ hpin)
          cases hn : s.rl.next r <;> simpa [this] using hc
      · intro x hx hm
        have hxa : x ∈ s.abs := List.mem_of_mem_erase hm
        rcases List.mem_cons.1 hx with hx | hx
        · subst hx; exact (List.Nodup.mem_erase_iff h.repr.nodup).1 hm |>.1 rfl
        · exact h.apart x hx hxa
    · simp at hs
  | free r =>
    simp only [LSt.step] at hs
    split at hs
    · rename_i hr
      have := (Option.some.inj hs).symm; subst this
      have hra := h.apart r hr
      obtain ⟨h1, h2⟩ := free_repr s.rl s.abs r h.repr hra
      refine ⟨h1, ?_, ?_⟩
      · intro x hx hxd
        by_cases hxr : x = r
        · subst hxr; exact h2
        · have hxd' : x ∉ s.dirty := fun hm => hxd (List.mem_filter.2 ⟨hm, by simpa using hxr⟩)
          have := h.clean x hx hxd'
          simpa [RL.free, hxr] using this
      · intro x hx; exact h.apart x (List.mem_filter.1 hx).1
    · simp at hs

theorem linv_run (os : List LOp) (s s' : LSt) (h : LInv s) (hr : s.run os = some s') : LInv s' := by
  induction os generalizing s with
  | nil => simp [LSt.run] at hr; subst hr; exact h
  | cons o os ih =>
    simp only [LSt.run] at hr
    cases hst : s.step o with
    | none => rw [hst] at hr; simp at hr
    | some s1 => rw [hst] at hr; exact ih s1 (linv_step s s1 o h hst) (by simpa using hr)

/-- Whatever the history of calls — any number of them, requests recycled any number of times,
    replies in any order — the linked structure `reqfirst`/`next`/`prev`/`reqlast` is exactly the
    list G9.Clnt speaks of: walking `next` from `reqfirst` (the tag search of recv, the error
    fan-out) visits the pending requests, each once, in the order they were queued. -/
theorem pending_list_is_the_list (os : List LOp) (s : LSt) (h : ({} : LSt).run os = some s) :
    s.rl.walk (s.abs.length + 1) s.rl.first = s.abs ∧ s.abs.Nodup := by
  have inv := linv_run os _ s linv_init h
  refine ⟨?_, inv.repr.nodup⟩
  rw [inv.repr.first]
  exact walk_chain s.rl s.abs none _ inv.repr.chain (by omega)

/-- the `ReqFree` of seeded change C09-7: the links are left as they are -/
def stepStale (s : LSt) : LOp → Option LSt
  | .free r => if r ∈ s.dirty then some { s with dirty := s.dirty.filter (· ≠ r) } else none
  | o => s.step o

/-- Witness that clearing the links in `ReqFree` carries the refinement: without it, two
    overlapping calls answered in order and one more call on the recycled request leave a list
    whose walk finds a request that is no longer pending. -/
theorem stale_links_corrupt_the_list :
    ([LOp.app 1, .app 2, .unl 1, .free 1, .unl 2, .free 2, .app 1].foldl (fun o e => o.bind (fun s => stepStale s e)) (some {})).map
      (fun s => (s.abs, s.rl.walk 5 s.rl.first)) = some ([1], [1, 2]) := by decide

example : (({} : LSt).run [.app 1, .app 2, .app 3, .unl 2, .free 2, .app 2, .unl 1]).map (fun s => (s.abs, s.rl.walk 9 s.rl.first)) =
    some ([3, 2], [3, 2]) := by decide

end reqlist

/-! non-vacuity: callers 1 and 3 share tag 7 (a Tag), caller 2 has a pooled tag in between -/
def exTag : CS :=
  { free := [], cache := [], live := [(1, 7), (2, 0), (3, 7)], pend := [1, 2, 3], woken := [], refused := [],
    err := false, closed := false }

example : (exTag.step (.deliver 7 42)).map (fun s => (s.pend, s.woken)) = some ([2, 3], [(1, some 42)]) := by decide

end G9.C09
