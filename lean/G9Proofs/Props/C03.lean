/-
  C03 — Exactly one correctly tagged reply per request under any concurrency.
  Property theorems only (model: G9.SrvLife, the event model of Conn.recv, SrvReq.process,
  SrvReq.Respond, Srv.flush and Conn.send). A schedule is any list of enabled events; the
  theorems quantify over all of them, so over every number of outstanding requests, every
  completion order of the implementation and every interleaving of the goroutines.
  What a reply contains is M3's business (C04/C05/C12: `post` and `wireReply`); here a reply is
  identified with the request it answers, which fixes its tag.
-/
import G9Proofs.Lemmas.LifeReach
namespace G9.C03
open G9 G9.Life

/-- At most one reply per request, in every reachable state and however often the
    implementation (or anybody else) calls Respond on it: the request occurs at most once in
    the writer's queue and the wire together. -/
theorem reply_at_most_once (cap : Nat) (es : List Ev) (s : LS) (h : (LS.init cap).run es = some s) (r : Nat) :
    (s.reqout ++ s.wire).count r ≤ 1 := by
  have hi := inv_run es _ s (inv_init cap) h
  have := (hi.1.2 r).1
  unfold sent at this
  omega

/-- No reply without a request: whatever is queued or sent answers a request that was
    received, and that request is marked as responded. -/
theorem replies_only_to_requests (cap : Nat) (es : List Ev) (s : LS) (h : (LS.init cap).run es = some s) (r : Nat)
    (hr : r ∈ s.reqout ++ s.wire) : r < s.n ∧ (s.req r).rs = true := by
  have hi := inv_run es _ s (inv_init cap) h
  refine ⟨hi.1.1.2 r hr, (hi.1.2 r).2 ?_⟩
  have : 0 < (s.reqout ++ s.wire).count r := List.count_pos_iff.mpr hr
  unfold sent
  omega

/-- A second answer to an answered request is dropped at the test-and-set: that call of
    Respond ends there and touches neither the queue nor the wire nor the tag table. -/
theorem extra_answer_ignored (s s' : LS) (i : Nat) (it : Inst) (hit : s.insts[i]? = some it) (hpc : it.pc = .mark)
    (hrs : (s.req it.rid).rs = true) (hs : s.step (.mark i) = some s') :
    s'.reqout = s.reqout ∧ s'.wire = s.wire ∧ s'.chain = s.chain ∧ (s'.insts[i]?).map (·.pc) = some .done := by
  simp only [LS.step, hit, hpc, if_true, hrs] at hs
  cases hs
  refine ⟨rfl, rfl, rfl, ?_⟩
  show ((setInst s.insts i _)[i]?).map (·.pc) = some .done
  rw [setInst_get _ _ _ _ hit]; rfl

/-- What has been written stays written: along any schedule the wire only grows at its end. -/
theorem wire_append_only (s s' : LS) (es : List Ev) (h : s.run es = some s') : ∃ l, s'.wire = s.wire ++ l :=
  (wire_run es s s' h).1

/-- At least one: when Respond is called on a request that has not been answered or
    cancelled, on a live connection whose writer is idle, then that call and the writer alone —
    no step of any other request — put exactly that reply on the wire. -/
theorem answered_reaches_wire (s : LS) (i : Nat) (it : Inst) (hit : s.insts[i]? = some it) (hpc : it.pc = .mark)
    (hrs : (s.req it.rid).rs = false) (hfl : (s.req it.rid).fl = false) (hc : s.closed = false)
    (hq : s.reqout = []) :
    ∃ s', s.run [.mark i, .post i, .queue i, .send] = some s' ∧ s'.wire = s.wire ++ [it.rid] :=
  let ⟨s', h1, h2, _⟩ := respond_reaches_wire s i it hit hpc hrs hfl hc hq
  ⟨s', h1, h2⟩

/-- The implementation may always answer a request it was handed (now or later, from any
    goroutine): the call of Respond is enabled in every state. -/
theorem answer_always_enabled (s : LS) (r : Nat) (hr : r < s.n) (hl : r ∈ s.implLog) :
    s.step (.answer r) = some { s with insts := s.insts ++ [{ rid := r }] } := by
  simp [LS.step, hr, hl]

/-- A call of Respond never waits for another request (only, with a full queue, for the writer). -/
theorem respond_never_blocked (s : LS) (i : Nat) (it : Inst) (hit : s.insts[i]? = some it) (e : Ev)
    (he : evOf i it.pc = some e) :
    (s.step e).isSome = true ∨
    (it.pc = .queue ∧ s.closed = false ∧ s.cap < s.reqout.length ∧ (s.step .send).isSome = true) :=
  respond_progress s i it hit e he

/-! ### non-vacuity: three requests, answered in the order 2,0,1, request 0 answered twice -/
example : ((LS.init 0).run [.recv 5 none, .recv 6 none, .recv 7 none, .check 0, .check 1, .check 2,
    .dispatch 0, .dispatch 1, .dispatch 2, .answer 2, .answer 0, .answer 0, .mark 0, .mark 1, .mark 2,
    .post 0, .queue 0, .send, .post 1, .queue 1, .send, .answer 1, .mark 3, .post 3, .queue 3, .send]).map
    (fun s => (s.wire, s.reqout)) = some ([2, 0, 1], []) := by decide

end G9.C03
