/-
  C04 — The fid table follows the protocol history exactly.
  Property theorems only (model: G9.SrvSeq, mirror of the framework for histories in
  which each request is answered before the next one is sent).
  The file-server implementation `impl` is universally quantified everywhere.
-/
import G9Proofs.Lemmas.KindInv
import G9Proofs.Lemmas.Users
import G9Proofs.Lemmas.FidLife
namespace G9.C04
open G9 G9.Srv

/-- between requests every fid in the table has exactly one reference, and NOFID is not in it -/
structure WF (fs : Fids) : Prop where
  pos : RefsPos fs
  one : ∀ k, refOf fs k ≤ 1
  nofid : refOf fs NOFID = 0

def valid (fs : Fids) (k : UInt32) : Bool := decide (1 ≤ refOf fs k)

/-- `valid` is membership in the table -/
theorem valid_iff_lookup (fs : Fids) (h : RefsPos fs) (k : UInt32) :
    valid fs k = (lookup fs k).isSome := by
  unfold valid
  have := refOf_pos_iff fs h k
  cases hl : (lookup fs k).isSome <;> simp_all

/-- The protocol's definition, written from the statement of 9P: a fid becomes valid through
    a successful Tauth, Tattach or complete Twalk; it is invalid after a successful Tclunk
    or any Tremove; nothing else changes the set. -/
def specValid (v : UInt32 → Bool) (t : Msg) (rep : Reply) (k : UInt32) : Bool :=
  match t, rep with
  | .tauth afid _ _ _, .r (.rauth _) => v k || k == afid
  | .tattach fid _ _ _ _, .r (.rattach _) => v k || k == fid
  | .twalk _ nf names, .r (.rwalk qs) => v k || (qs.length == names.length && k == nf)
  | .tclunk f, .r .rclunk => v k && k != f
  | .tremove f, _ => v k && k != f
  | _, _ => v k

theorem specValid_kind (v : UInt32 → Bool) (t : Msg) (rep : Reply) (k : UInt32) :
    specValid v t rep k =
      match postKind t rep with
      | .auth afid => v k || k == afid
      | .attach fid _ => v k || k == fid
      | .walk _ nf names qs => v k || (qs.length == names.length && k == nf)
      | .release f => v k && k != f
      | _ => v k := by
  cases hkind : postKind t rep with
  | auth afid =>
    obtain ⟨a, b, c, q, ht, hrep⟩ := postKind_auth hkind
    subst ht hrep; rfl
  | attach fid q =>
    obtain ⟨a, b, c, d, ht, hrep⟩ := postKind_attach hkind
    subst ht hrep; rfl
  | walk f nf names qs =>
    obtain ⟨ht, hrep⟩ := postKind_walk hkind
    subst ht hrep; rfl
  | release f =>
    rcases postKind_release hkind with ⟨ht, hrep⟩ | ht
    · subst ht hrep; rfl
    · subst ht; unfold specValid; simp
  | opened f => unfold specValid; split <;> first | rfl | (simp [postKind] at hkind)
  | created f q => unfold specValid; split <;> first | rfl | (simp [postKind] at hkind)
  | read f d => unfold specValid; split <;> first | rfl | (simp [postKind] at hkind)
  | none => unfold specValid; split <;> first | rfl | (simp [postKind] at hkind)

theorem init_wf (cfg : Cfg) : WF (Conn.init cfg).fids := by
  have h : (Conn.init cfg).fids = [] := rfl
  rw [h]
  exact ⟨fun _ _ h => (by cases h), fun _ => Nat.zero_le _, rfl⟩

/-- One request: the table stays well-formed and the set of valid fids changes exactly as
    the protocol says, given the request and the reply that was sent — whatever the
    implementation answered. -/
theorem step_valid (cfg : Cfg) (impl : Impl) (c : Conn) (t : Msg) (hwf : WF c.fids) :
    WF (step cfg impl c t).1.fids ∧
    ∀ k, valid (step cfg impl c t).1.fids k =
      specValid (valid c.fids) t (step cfg impl c t).2.reply k := by
  have hsh := pre_shape cfg impl c t
  have key : ∀ k, refOf (step cfg impl c t).1.fids k ≤ 1 ∧
      (k = NOFID → refOf (step cfg impl c t).1.fids k = 0) ∧
      valid (step cfg impl c t).1.fids k = specValid (valid c.fids) t (stepRep cfg impl c t) k := by
    intro k
    have hk := (step_refOf cfg impl c t hwf.pos k).2
    have h1 := hwf.one k
    rw [specValid_kind]
    unfold valid
    rw [hk]
    unfold postRet postRel
    cases hkind : postKind t (stepRep cfg impl c t) with
    | auth afid =>
      obtain ⟨a, b, c', q, ht, hrep⟩ := postKind_auth hkind
      obtain ⟨calls, ans, hans⟩ := stepRep_r cfg impl c t _ hrep
      subst ht
      obtain ⟨h0, hp, hne, hnn⟩ := hsh calls ans hans
      have he : (pre cfg impl c (.tauth afid a b c')).held.isEmpty = false := by
        cases hh : (pre cfg impl c (.tauth afid a b c')).held <;> simp_all
      simp only [he, Bool.false_eq_true, if_false, hp, and_true]
      by_cases hka : k = afid
      · subst hka; simp [h0]; exact hnn
      · simp [hka]; refine ⟨h1, fun e => ?_⟩; subst e; exact hwf.nofid
    | attach fid q =>
      obtain ⟨a, b, c', d, ht, hrep⟩ := postKind_attach hkind
      obtain ⟨calls, ans, hans⟩ := stepRep_r cfg impl c t _ hrep
      subst ht
      obtain ⟨h0, hp, hne, hnn⟩ := hsh calls ans hans
      have he : (pre cfg impl c (.tattach fid a b c' d)).held.isEmpty = false := by
        cases hh : (pre cfg impl c (.tattach fid a b c' d)).held <;> simp_all
      simp only [he, Bool.false_eq_true, if_false, hp, and_true]
      by_cases hka : k = fid
      · subst hka; simp [h0]; exact hnn
      · simp [hka]; refine ⟨h1, fun e => ?_⟩; subst e; exact hwf.nofid
    | walk f nf names qs =>
      obtain ⟨ht, hrep⟩ := postKind_walk hkind
      obtain ⟨calls, ans, hans⟩ := stepRep_r cfg impl c t _ hrep
      subst ht
      obtain ⟨hpc, hpf, hpn, hfresh, hne⟩ := hsh calls ans hans
      have he : (pre cfg impl c (.twalk f nf names)).held.isEmpty = false := by
        cases hh : (pre cfg impl c (.twalk f nf names)).held <;> simp_all
      have hvf : 1 ≤ refOf c.fids f := (refOf_pos_iff _ hwf.pos f).2 hpc
      simp only [he, Bool.false_eq_true, if_false, hpf, hpn, true_and]
      by_cases hnf : nf = f
      · subst hnf
        simp only [ne_eq, not_true_eq_false, false_and, and_false, if_false, Nat.add_zero, Nat.sub_zero]
        refine ⟨h1, fun e => by subst e; exact hwf.nofid, ?_⟩
        by_cases hkn : k = nf
        · subst hkn; simp [hvf]
        · simp [hkn]
      · obtain ⟨h0, hnn⟩ := hfresh hnf
        by_cases hkn : k = nf
        · subst hkn
          by_cases hl : qs.length = names.length <;> simp [hl, hnf, h0, hnn]
        · simp only [hkn, and_false, if_false, Nat.add_zero, Nat.sub_zero]
          refine ⟨h1, fun e => by subst e; exact hwf.nofid, by simp [hkn]⟩
    | release f =>
      have hz : k = NOFID → refOf c.fids k = 0 := fun e => by subst e; exact hwf.nofid
      by_cases he : (pre cfg impl c t).held.isEmpty = true
      · simp only [he, if_true]
        have hnil : (pre cfg impl c t).held = [] := by simpa using he
        -- nothing held: the request was refused; then f was not valid anyway
        have hf0 : refOf c.fids f = 0 := by
          rcases postKind_release hkind with ⟨ht, hrep⟩ | ht
          · obtain ⟨calls, ans, hans⟩ := stepRep_r cfg impl c t _ hrep
            subst ht
            exact absurd hnil (hsh calls ans hans)
          · subst ht
            rcases hsh hnil with h0 | hn
            · exact h0
            · subst hn; exact hwf.nofid
        refine ⟨h1, hz, ?_⟩
        by_cases hkf : k = f
        · subst hkf; simp [hf0]
        · simp [hkf]
      · have he' : (pre cfg impl c t).held.isEmpty = false := by simpa using he
        simp only [he', Bool.false_eq_true, if_false, Nat.add_zero]
        by_cases hkf : k = f
        · subst hkf; simp; omega
        · simp only [hkf, if_false, Nat.sub_zero]
          exact ⟨h1, hz, by simp [hkf]⟩
    | opened f => simp only [Nat.add_zero, Nat.sub_zero, ite_self]; exact ⟨h1, fun e => by subst e; exact hwf.nofid, by simp⟩
    | created f q => simp only [Nat.add_zero, Nat.sub_zero, ite_self]; exact ⟨h1, fun e => by subst e; exact hwf.nofid, by simp⟩
    | read f d => simp only [Nat.add_zero, Nat.sub_zero, ite_self]; exact ⟨h1, fun e => by subst e; exact hwf.nofid, by simp⟩
    | none => simp only [Nat.add_zero, Nat.sub_zero, ite_self]; exact ⟨h1, fun e => by subst e; exact hwf.nofid, by simp⟩
  refine ⟨⟨(step_refOf cfg impl c t hwf.pos 0).1, fun k => (key k).1, (key NOFID).2.1 rfl⟩, fun k => ?_⟩
  rw [step_reply]; exact (key k).2.2

end G9.C04

namespace G9.C04
open G9 G9.Srv

/-- the protocol's set of valid fids after a whole history of (request, reply) pairs -/
def specRun (v : UInt32 → Bool) : List (Msg × Reply) → (UInt32 → Bool)
  | [] => v
  | (t, rep) :: rest => specRun (specValid v t rep) rest

theorem specRun_congr (v v' : UInt32 → Bool) (h : ∀ k, v k = v' k) (l : List (Msg × Reply)) (k : UInt32) :
    specRun v l k = specRun v' l k := by
  have : v = v' := funext h
  rw [this]

/-- For every history — any length, any requests, any implementation answers — the table
    between requests is well-formed and the valid fids are exactly those the protocol
    history (requests and the replies that were sent) determines. -/
theorem fids_refine_spec (cfg : Cfg) (hs : List (Msg × Impl)) (c : Conn) (hwf : WF c.fids) :
    WF (run cfg c hs).1.fids ∧
    ∀ k, valid (run cfg c hs).1.fids k =
      specRun (valid c.fids) ((hs.map (·.1)).zip ((run cfg c hs).2.map (·.reply))) k := by
  induction hs generalizing c with
  | nil => exact ⟨hwf, fun k => rfl⟩
  | cons p hs ih =>
    obtain ⟨t, impl⟩ := p
    obtain ⟨hwf', hv⟩ := step_valid cfg impl c t hwf
    obtain ⟨h1, h2⟩ := ih (step cfg impl c t).1 hwf'
    refine ⟨h1, fun k => ?_⟩
    simp only [run, List.map_cons, List.zip_cons_cons, specRun]
    rw [h2 k]
    exact specRun_congr _ _ hv _ k

/-- …in particular from a fresh connection. -/
theorem fids_refine_spec_init (cfg : Cfg) (hs : List (Msg × Impl)) :
    WF (run cfg (Conn.init cfg) hs).1.fids ∧
    ∀ k, valid (run cfg (Conn.init cfg) hs).1.fids k =
      specRun (fun _ => false) ((hs.map (·.1)).zip ((run cfg (Conn.init cfg) hs).2.map (·.reply))) k := by
  obtain ⟨h1, h2⟩ := fids_refine_spec cfg hs (Conn.init cfg) (init_wf cfg)
  refine ⟨h1, fun k => ?_⟩
  rw [h2 k]
  exact specRun_congr _ _ (fun k => by simp [valid, Conn.init, refOf, lookup]) _ k

/-- A request naming a fid that is not valid (NOFID included) is refused with exactly the
    'unknown fid' error and reaches the implementation in no way; the table is untouched. -/
theorem unknown_fid_refused (cfg : Cfg) (impl : Impl) (c : Conn) (t : Msg) (f : UInt32)
    (ht : msgFid t = some f) (hinv : lookup c.fids f = none ∨ f = NOFID) :
    (step cfg impl c t).2.reply = .err .unknownfid ∧ (step cfg impl c t).2.calls = [] ∧
    (step cfg impl c t).2.destroyed = [] ∧ (step cfg impl c t).1.fids = c.fids := by
  have hpre : pre cfg impl c t = ⟨c, [], .refuse .unknownfid⟩ := by
    cases t <;> simp only [msgFid] at ht <;> (try cases ht) <;>
      (unfold pre; simp only [msgFid]; rcases hinv with hl | hn <;> simp [*])
  unfold step
  simp [hpre, decRefs]

/-- A Tattach or Tauth that would bind an already valid fid is refused with 'fid already in
    use' without reaching the implementation. -/
theorem attach_in_use_refused (cfg : Cfg) (impl : Impl) (c : Conn) (fid afid : UInt32)
    (un an : Bytes) (n : UInt32) (r : FidRec) (hl : lookup c.fids fid = some r) (hn : fid ≠ NOFID) :
    (step cfg impl c (.tattach fid afid un an n)).2.reply = .err .inuse ∧
    (step cfg impl c (.tattach fid afid un an n)).2.calls = [] ∧
    (step cfg impl c (.tattach fid afid un an n)).1.fids = c.fids := by
  have hpre : pre cfg impl c (.tattach fid afid un an n) = ⟨c, [], .refuse .inuse⟩ := by
    unfold pre; simp [hn, fidNew, hl]
  unfold step; simp [hpre, decRefs]

theorem auth_in_use_refused (cfg : Cfg) (impl : Impl) (c : Conn) (afid : UInt32)
    (un an : Bytes) (n : UInt32) (r : FidRec) (hl : lookup c.fids afid = some r) (hn : afid ≠ NOFID) :
    (step cfg impl c (.tauth afid un an n)).2.reply = .err .inuse ∧
    (step cfg impl c (.tauth afid un an n)).2.calls = [] ∧
    (step cfg impl c (.tauth afid un an n)).1.fids = c.fids := by
  have hpre : pre cfg impl c (.tauth afid un an n) = ⟨c, [], .refuse .inuse⟩ := by
    unfold pre; simp [hn, fidNew, hl]
  unfold step; simp [hpre, decRefs]

/-- fid numbers are private to their connection: a request on one connection of a server
    leaves every other connection's table as it was -/
theorem conn_private (cfg : Cfg) (impl : Impl) (conns : Nat → Conn) (i j : Nat) (t : Msg) (h : j ≠ i) :
    (fun n => if n = i then (step cfg impl (conns i) t).1 else conns n) j = conns j := by
  simp [h]

/-! ### non-vacuity: a concrete history on which the statements have content -/

def exCfg : Cfg := { srvMsize := 8192, srvDotu := true, hasAuth := false,
                     uid2user := fun n => some n.toNat, uname2user := fun _ => none }
def okImpl : Impl := fun call =>
  match call.op with
  | .attach => .r (.rattach { typ := 0x80, vers := 0, path := 1 })
  | .walk => .r (.rwalk [{ typ := 0, vers := 0, path := 2 }])
  | .clunk => .r .rclunk
  | _ => .e [] 5

example : ((run exCfg (Conn.init exCfg)
    [(.tattach 1 NOFID [] [] 7, okImpl), (.twalk 1 2 [[0x61]], okImpl), (.tclunk 1, okImpl)]).1.fids.map (·.1))
    = [2] := by decide

theorem ret_rel_01 (fs : Fids) (t : Msg) (rep : Reply) (k : UInt32) :
    postRet fs t rep k ≤ 1 ∧ postRel t rep k ≤ 1 ∧ (postRet fs t rep k = 1 → postRel t rep k = 0) := by
  unfold postRet postRel
  cases postKind t rep <;> simp <;> (try split) <;> simp

theorem ite01 (p : Prop) [Decidable p] : (if p then 1 else 0 : Nat) ≤ 1 := by
  by_cases h : p <;> simp [h]

/-- the arithmetic of one request on one fid number: `r0` references before (0 or 1), `H` holds
    taken by the request, `ret`/`rel` the reference kept / dropped by the post-handler -/
theorem destroy_arith (r0 H ret rel : Nat) (h1 : r0 ≤ 1) (b1 : ret ≤ 1) (b2 : rel ≤ 1) (b3 : ret = 1 → rel = 0) :
    (if rel = 1 ∧ r0 + H = 1 then 1 else 0) + (if 1 ≤ r0 + H + ret - rel ∧ r0 + H + ret - rel ≤ H then 1 else 0) ≤ 1 ∧
    (1 ≤ r0 → ¬ (1 ≤ r0 + ret - rel) →
      (if rel = 1 ∧ r0 + H = 1 then 1 else 0) + (if 1 ≤ r0 + H + ret - rel ∧ r0 + H + ret - rel ≤ H then 1 else 0) = 1) ∧
    ((if rel = 1 ∧ r0 + H = 1 then 1 else 0) + (if 1 ≤ r0 + H + ret - rel ∧ r0 + H + ret - rel ≤ H then 1 else 0) = 1 →
      ¬ (1 ≤ r0 + ret - rel)) := by
  by_cases hA : rel = 1 ∧ r0 + H = 1
  · have hret : ret = 0 := by
      have : ret = 0 ∨ ret = 1 := by omega
      rcases this with h | h
      · exact h
      · have := b3 h; omega
    have hB : ¬ (1 ≤ r0 + H + ret - rel ∧ r0 + H + ret - rel ≤ H) := by omega
    rw [if_pos hA, if_neg hB]
    refine ⟨by omega, fun _ _ => rfl, fun _ => by omega⟩
  · rw [if_neg hA]
    by_cases hB : 1 ≤ r0 + H + ret - rel ∧ r0 + H + ret - rel ≤ H
    · rw [if_pos hB]
      refine ⟨by omega, fun _ _ => rfl, fun _ => by omega⟩
    · rw [if_neg hB]
      refine ⟨by omega, fun hv hn => ?_, fun hc => by cases hc⟩
      exfalso
      apply hB
      have : ret = 0 ∨ ret = 1 := by omega
      have : rel = 0 ∨ rel = 1 := by omega
      omega

/-- FidDestroy, exactly once and on time: in the step of any request, a fid number is reported
    destroyed at most once; it is reported when the request makes a valid fid invalid; and whatever
    is reported is invalid afterwards. The report is part of the same step as the reply. -/
theorem destroyed_exactly_once (cfg : Cfg) (impl : Impl) (c : Conn) (t : Msg) (hwf : WF c.fids) (k : UInt32) :
    (step cfg impl c t).2.destroyed.count k ≤ 1 ∧
    (valid c.fids k = true → valid (step cfg impl c t).1.fids k = false → (step cfg impl c t).2.destroyed.count k = 1) ∧
    ((step cfg impl c t).2.destroyed.count k = 1 → valid (step cfg impl c t).1.fids k = false) := by
  obtain ⟨hp, hr⟩ := pre_refs cfg impl c t hwf.pos
  have h1 := hwf.one k
  have hfin := (step_refOf cfg impl c t hwf.pos k).2
  rw [step_destroyed, List.count_append]
  unfold valid
  rw [hfin]
  unfold stepPost
  by_cases he : (pre cfg impl c t).held.isEmpty = true
  · have hnil : (pre cfg impl c t).held = [] := by simpa using he
    simp only [he, if_true, List.count_nil, Nat.zero_add]
    rw [count_destroyed_decRefs _ _ _ hp, hr k]
    have hH : (pre cfg impl c t).held.count k = 0 := by rw [hnil]; rfl
    have hB : ¬ (1 ≤ refOf c.fids k + (pre cfg impl c t).held.count k ∧
        refOf c.fids k + (pre cfg impl c t).held.count k ≤ (pre cfg impl c t).held.count k) := by omega
    rw [if_neg hB]
    refine ⟨by omega, ?_, fun hc => by cases hc⟩
    intro hv hn; simp at hv hn; omega
  · have he' : (pre cfg impl c t).held.isEmpty = false := by simpa using he
    simp only [he', Bool.false_eq_true, if_false]
    obtain ⟨hp2, hr2, hd2⟩ := post_refs (pre cfg impl c t).c t (stepRep cfg impl c t) hp
    rw [hd2 k, count_destroyed_decRefs _ _ _ hp2, hr2 k, hr k]
    obtain ⟨b1, b2, b3⟩ := ret_rel_01 (pre cfg impl c t).c.fids t (stepRep cfg impl c t) k
    obtain ⟨a1, a2, a3⟩ := destroy_arith (refOf c.fids k) ((pre cfg impl c t).held.count k)
      (postRet (pre cfg impl c t).c.fids t (stepRep cfg impl c t) k) (postRel t (stepRep cfg impl c t) k) h1 b1 b2 b3
    refine ⟨a1, ?_, ?_⟩
    · intro hv hn
      simp only [decide_eq_true_eq, decide_eq_false_iff_not] at hv hn
      exact a2 hv hn
    · intro hc
      simp only [decide_eq_false_iff_not]
      exact a3 hc



/-! ### the user a fid is bound to -/

theorem valid_iff_bound (fs : Fids) (h : RefsPos fs) (k : UInt32) :
    valid fs k = (userAt fs k).isSome := by
  rw [valid_iff_lookup fs h k]
  unfold userAt
  cases lookup fs k <;> rfl

/-- One request of any kind — failed, partial, unrelated, or on the fid itself — whatever the
    implementation answers: a fid that is still valid afterwards is bound to the user it was
    bound to before. -/
theorem user_binding_stable (cfg : Cfg) (impl : Impl) (c : Conn) (t : Msg) (hwf : WF c.fids)
    (k : UInt32) (u : Nat) (hb : userAt c.fids k = some u)
    (hv : valid (step cfg impl c t).1.fids k = true) :
    userAt (step cfg impl c t).1.fids k = some u := by
  rcases step_user cfg impl c t k u hb with h | h
  · rw [valid_iff_bound _ (step_valid cfg impl c t hwf).1.pos, h] at hv
    cases hv
  · exact h

/-- the fid stays valid after every request of a history -/
def validThroughout (cfg : Cfg) (c : Conn) (k : UInt32) : List (Msg × Impl) → Prop
  | [] => True
  | (t, impl) :: rest =>
    valid (step cfg impl c t).1.fids k = true ∧ validThroughout cfg (step cfg impl c t).1 k rest

/-- …and so over any history, of any length: as long as the fid stays valid it stays bound to
    the same user. -/
theorem user_binding_history (cfg : Cfg) (hs : List (Msg × Impl)) (c : Conn) (hwf : WF c.fids)
    (k : UInt32) (u : Nat) (hb : userAt c.fids k = some u) (hv : validThroughout cfg c k hs) :
    userAt (run cfg c hs).1.fids k = some u := by
  induction hs generalizing c with
  | nil => exact hb
  | cons p hs ih =>
    obtain ⟨t, impl⟩ := p
    obtain ⟨hv1, hv2⟩ := hv
    have h1 := user_binding_stable cfg impl c t hwf k u hb hv1
    exact ih (step cfg impl c t).1 (step_valid cfg impl c t hwf).1 h1 hv2

/-- Who a new fid is bound to: a fid that was not valid and is valid after a request was bound
    by that request — by a Tauth or Tattach naming it, to the user the request names; by a Twalk
    to it, to the user of the fid walked from.  No other request binds a fid, and none binds it
    to anyone else. -/
theorem new_fid_bound_by_request (cfg : Cfg) (impl : Impl) (c : Conn) (t : Msg) (hwf : WF c.fids)
    (k : UInt32) (u : Nat) (h0 : valid c.fids k = false)
    (h1 : userAt (step cfg impl c t).1.fids k = some u) : NewBy cfg c t k u := by
  have hn : userAt c.fids k = none := by
    rw [valid_iff_bound _ hwf.pos] at h0
    cases h : userAt c.fids k with
    | none => rfl
    | some _ => rw [h] at h0; cases h0
  obtain ⟨hwf', hspec⟩ := step_valid cfg impl c t hwf
  have hv : valid (step cfg impl c t).1.fids k = true := by
    rw [valid_iff_bound _ hwf'.pos, h1]; rfl
  -- the table after the pre-reply part already has the binding
  have h2 : Shrinks (pre cfg impl c t).c.fids (stepPost cfg impl c t).1.fids := by
    unfold stepPost
    split
    · exact shrinks_refl _
    · exact post_shrinks _ _ _
  have h3 := shrinks_trans _ _ _ h2 (shrinks_decRefs (stepPost cfg impl c t).1.fids (pre cfg impl c t).held)
  have hpre : userAt (pre cfg impl c t).c.fids k = some u := by
    rw [step_fids] at h1
    rcases h3 k with h4 | h4
    · rw [h4] at h1; cases h1
    · rw [← h4]; exact h1
  rcases pre_new cfg impl c t k u hn hpre with ⟨e, he⟩ | h
  · -- a refused request makes nothing valid
    exfalso
    have hrep : (step cfg impl c t).2.reply = .err e := by
      rw [step_reply]; unfold stepRep; rw [he]
    have := hspec k
    rw [hv, hrep] at this
    unfold specValid at this
    cases t <;> simp [h0] at this
  · exact h

/-! non-vacuity: in the example history fid 2 is created by the walk from fid 1 and carries its user -/
example : userAt (run exCfg (Conn.init exCfg)
    [(.tattach 1 NOFID [] [] 7, okImpl), (.twalk 1 2 [[0x61]], okImpl), (.tclunk 1, okImpl)]).1.fids 2
    = some 7 := by decide


/-! ### requests running concurrently (model: G9.FidLife, every interleaving of the regions of
    FidNew, FidGet, retain, IncRef, DecRef, destroy and Conn.close) -/

/-- While the connection is up, a valid fid — one whose creating request succeeded and that has not
    been clunked or removed — is the fid the table holds under its number, and has not been
    reported destroyed, whatever else runs on the connection: other requests on the same number,
    DecRefs of older fids that had the number, requests still creating fids. -/
theorem valid_fid_found_under_concurrency (es : List FidLife.FEv) (s : FidLife.FS)
    (h : FidLife.FS.init.run es = some s) (o : Nat) (ho : o < s.n) (ht : (s.obj o).tbl = true)
    (hs : s.snap = none) : s.pool (s.obj o).num = some o ∧ (s.obj o).destroyed = false := by
  have h0 := (FidLife.inv_run _ _ es FidLife.inv_init h).objs o ho
  refine ⟨h0.tblOpen ht hs, ?_⟩
  cases hd : (s.obj o).destroyed with
  | false => rfl
  | true => have := (h0.dead (Or.inr (Or.inr hd))).2; rw [ht] at this; cases this

/-- …and the table never holds anything but a fid object that was created for that number. -/
theorem table_entry_is_its_number (es : List FidLife.FEv) (s : FidLife.FS)
    (h : FidLife.FS.init.run es = some s) (k o : Nat) (hp : s.pool k = some o) :
    o < s.n ∧ (s.obj o).num = k :=
  (FidLife.inv_run _ _ es FidLife.inv_init h).poolOk k o hp

/-- A fid number that the table holds — for a valid fid or for one a request is still creating —
    cannot be taken by another request: `FidNew` refuses it, whatever else is going on, and the
    table, its fid and every other fid stay as they are. -/
theorem number_in_use_is_refused (s : FidLife.FS) (k o : Nat) (hp : s.pool k = some o) :
    s.step (.new k) = none := by
  simp [FidLife.FS.step, hp]

/-- in particular the fid a request is creating keeps its number until that request has ended:
    in every reachable state a pending fid that is in the table makes `FidNew` of its number fail -/
theorem fid_being_created_keeps_its_number (es : List FidLife.FEv) (s : FidLife.FS)
    (_h : FidLife.FS.init.run es = some s) (o : Nat) (_hpend : (s.obj o).pending = true) (hin : s.inpool o) :
    s.step (.new (s.obj o).num) = none :=
  number_in_use_is_refused s _ o hin

end G9.C04
