/-
  C02 — Decoding is total and bounded on arbitrary bytes.
  Property theorems only.  All of them are over every byte string and both dialects.
-/
import G9Proofs.Lemmas.WireTotal
import G9Proofs.Lemmas.WireReenc
namespace G9.C02
open G9 Go Spec

/-- `Unpack` returns an error or a message, never a trap, on every byte string. -/
theorem unpack_total (dotu : Bool) (bs : Bytes) : Go.unpack dotu bs ≠ .panic :=
  unpack_total' dotu bs

/-- …and so does `UnpackDir`. -/
theorem unpackDir_total (dotu : Bool) (bs : Bytes) : Go.unpackDir dotu bs ≠ .panic := by
  unfold Go.unpackDir
  cases dotu <;> simp only [Bool.false_eq_true, if_false, if_true] <;> split
  · intro h; cases h
  · exact Res.bind_ne_panic (gstat_total _ bs) (fun a _ => by intro h; cases h)
  · intro h; cases h
  · exact Res.bind_ne_panic (gstat_total _ bs) (fun a _ => by intro h; cases h)

/-- On success the consumed length is the size prefix, at least 7, at most the input. -/
theorem unpack_ok_shape (dotu : Bool) (bs : Bytes) (tag : UInt16) (m : Msg) (n : Nat)
    (h : Go.unpack dotu bs = .ok (tag, m, n)) :
    n = (dec32 (bs.take 4)).toNat ∧ 7 ≤ n ∧ n ≤ bs.length ∧ 7 ≤ bs.length := by
  by_cases h7 : bs.length < 7
  · unfold Go.unpack at h; rw [if_pos h7] at h; cases h
  · rw [unpack_eq dotu bs (by omega)] at h
    split at h
    · cases h
    · rename_i hs
      unfold unpackRest at h
      split at h
      · cases h
      · cases hm : minSize dotu ((bs.drop 4).headD 0) with
        | panic => rw [hm] at h; cases h
        | err e => rw [hm] at h; cases h
        | ok sz =>
          rw [hm] at h
          simp only [Res.ok_bind] at h
          split at h
          · cases h
          · cases hb : unpackBody dotu ((bs.drop 4).headD 0)
                ((bs.drop 7).take ((dec32 (bs.take 4)).toNat - 7)) with
            | panic => rw [hb] at h; cases h
            | err e => rw [hb] at h; cases h
            | ok a =>
              rw [hb] at h
              simp only [Res.ok_bind] at h
              split at h
              · cases h
              · cases h
                omega

/-- What a successful decode returns: the type is the one in byte 4 and a defined message type,
    the message already carries Go's defaults for what the dialect lacks, and all its fields —
    fixed and variable-length — fit inside the packet: the protocol encoding of the decoded
    fields is at most 4 bytes longer than the packet's body (4 only for a .u Tauth/Tattach that
    came without the numeric uid). -/
theorem unpack_ok_fields (dotu : Bool) (bs : Bytes) (tag : UInt16) (m : Msg) (n : Nat)
    (h : Go.unpack dotu bs = .ok (tag, m, n)) :
    m.code = (bs.drop 4).headD 0 ∧
    ¬ (m.code.toNat < Generated.Tversion ∨ m.code.toNat ≥ Generated.Tlast) ∧
    Go.norm dotu m = m ∧
    7 + (Spec.body dotu m).length ≤ n + 4 ∧
    (n + 4 < 4294967296 → Spec.RepW dotu m) := by
  obtain ⟨hn, h7, hle, hb7⟩ := unpack_ok_shape dotu bs tag m n h
  rw [unpack_eq dotu bs hb7] at h
  split at h
  · cases h
  unfold unpackRest at h
  split at h
  · cases h
  cases hm : minSize dotu ((bs.drop 4).headD 0) with
  | panic => rw [hm] at h; cases h
  | err e => rw [hm] at h; cases h
  | ok sz =>
    rw [hm] at h
    simp only [Res.ok_bind] at h
    split at h
    · cases h
    obtain ⟨⟨m', rest⟩, hb, h⟩ := Res.bind_ok h
    dsimp only at h
    split at h
    · cases h
    rename_i hrest
    have hr : rest = [] := by
      cases rest with
      | nil => rfl
      | cons a r => simp at hrest
    subst hr
    simp only [Res.pure_eq, Res.ok.injEq, Prod.mk.injEq] at h
    obtain ⟨-, hmm, -⟩ := h
    subst hmm
    obtain ⟨c1, c2, c3, c4⟩ := unpackBody_inv dotu _ _ m' hb
    have hl : ((bs.drop 7).take ((dec32 (bs.take 4)).toNat - 7)).length = n - 7 := by
      simp only [List.length_take, List.length_drop]; omega
    rw [hl] at c3
    exact ⟨c1, code_range m', c2, by omega, fun hbig => c4 (by omega)⟩

/-- Re-encoding the decoded fields gives a packet that decodes to the same fields (and the same
    tag), consuming exactly that packet.  The hypothesis excludes only packets within 4 bytes
    of 4 GiB, whose re-encoding (a numeric uid added to a Tauth/Tattach) could not carry its
    own size in size[4]. -/
theorem reencode_decodes_same (dotu : Bool) (bs : Bytes) (tag : UInt16) (m : Msg) (n : Nat)
    (h : Go.unpack dotu bs = .ok (tag, m, n)) (hbig : n + 4 < 4294967296) (rest : Bytes) :
    Go.unpack dotu (Spec.encode dotu tag m ++ rest) =
      .ok (tag, m, (Spec.encode dotu tag m).length) := by
  obtain ⟨_, _, hnorm, _, hrep⟩ := unpack_ok_fields dotu bs tag m n h
  have := unpack_encode' dotu tag m rest (hrep hbig)
  rw [hnorm] at this
  exact this

/-- The result — message or error — does not depend on bytes beyond the declared size. -/
theorem unpack_prefix_indep (dotu : Bool) (bs : Bytes)
    (hn7 : 7 ≤ (dec32 (bs.take 4)).toNat) (hn : (dec32 (bs.take 4)).toNat ≤ bs.length) :
    Go.unpack dotu bs = Go.unpack dotu (bs.take (dec32 (bs.take 4)).toNat) := by
  generalize hN : (dec32 (bs.take 4)).toNat = N at *
  have hl : (bs.take N).length = N := by rw [List.length_take]; omega
  rw [unpack_eq dotu bs (by omega), unpack_eq dotu (bs.take N) (by omega)]
  have h4 : (bs.take N).take 4 = bs.take 4 := by rw [List.take_take]; congr 1; omega
  have hd4 : ((bs.take N).drop 4).headD 0 = (bs.drop 4).headD 0 := by
    rw [List.drop_take]
    cases hb : bs.drop 4 with
    | nil => simp
    | cons a r =>
      have : N - 4 = (N - 5) + 1 := by omega
      rw [this]; simp
  have hd5 : ((bs.take N).drop 5).take 2 = (bs.drop 5).take 2 := by
    rw [List.drop_take, List.take_take]; congr 1; omega
  have hd7 : ((bs.take N).drop 7).take (N - 7) = (bs.drop 7).take (N - 7) := by
    rw [List.drop_take, List.take_take]; congr 1; omega
  rw [h4, hd4, hd5, hN, hl, hd7]
  have : (N > bs.length ∨ N < 7) ↔ (N > N ∨ N < 7) := by omega
  simp only [this]

/-- A declared size below 7 is an error whatever follows. -/
theorem unpack_size_lt7 (dotu : Bool) (bs : Bytes) (h : (dec32 (bs.take 4)).toNat < 7) :
    ∃ e, Go.unpack dotu bs = .err e := by
  by_cases h7 : bs.length < 7
  · exact ⟨.bufShort, by unfold Go.unpack; rw [if_pos h7]⟩
  · refine ⟨.sizeBad, ?_⟩
    rw [unpack_eq dotu bs (by omega), if_pos (Or.inr h)]

/-- No allocation is driven by a count field: the `make` calls of Twalk/Rwalk are reached
    only behind a guard, so they allocate at most 8 bytes per input byte.  (The other
    allocations are copies of sub-slices of the input and one fixed-size `Fcall`.) -/
theorem unpack_alloc_bound (t : UInt8) (p : Bytes) : Go.makeBytes t p ≤ 8 * p.length := by
  unfold Go.makeBytes
  split
  · split
    · rename_i m q hq
      split
      · omega
      · -- q is a suffix of p
        have hq' : q.length ≤ p.length := by
          by_cases h10 : 10 ≤ p.length
          · rw [gint32_ok _ (by omega)] at hq; simp only [Res.ok_bind] at hq
            rw [gint32_ok _ (by simp only [List.length_drop]; omega)] at hq; simp only [Res.ok_bind] at hq
            rw [gint16_ok _ (by simp only [List.length_drop]; omega)] at hq
            cases hq
            simp only [List.length_drop]; omega
          · exfalso
            by_cases h4 : 4 ≤ p.length
            · rw [gint32_ok _ h4] at hq; simp only [Res.ok_bind] at hq
              by_cases h8 : 8 ≤ p.length
              · rw [gint32_ok _ (by simp only [List.length_drop]; omega)] at hq
                simp only [Res.ok_bind] at hq
                unfold gint16 at hq
                rw [need_panic _ _ (by simp only [List.length_drop]; omega)] at hq
                cases hq
              · unfold gint32 at hq
                rw [need_panic _ _ (by simp only [List.length_drop]; omega)] at hq
                cases hq
            · unfold gint32 at hq
              rw [need_panic _ _ (by omega)] at hq
              cases hq
        omega
    · omega
  · split
    · split
      · rename_i m q hq
        split
        · omega
        · have hq' : q.length ≤ p.length := by
            by_cases h2 : 2 ≤ p.length
            · rw [gint16_ok _ h2] at hq; cases hq; simp only [List.length_drop]; omega
            · unfold gint16 at hq; rw [need_panic _ _ (by omega)] at hq; cases hq
          omega
      · omega
    · omega

/-! ### non-vacuity / witnesses -/

/-- a frame the pre-fix decoder trapped on (7-byte Tclunk) is now an error -/
example : Go.unpack false [7, 0, 0, 0, 120, 1, 0] = .err .szerror := by decide

/-- and a well-formed one decodes -/
example : Go.unpack false [11, 0, 0, 0, 120, 1, 0, 5, 0, 0, 0] = .ok (1, .tclunk 5, 11) := by decide

/-- a .u Tauth without the numeric uid decodes, and its re-encoding is 4 bytes longer -/
example : Go.unpack true [19, 0, 0, 0, 102, 1, 0, 9, 0, 0, 0, 4, 0, 97, 98, 99, 100, 0, 0]
    = .ok (1, .tauth 9 [97, 98, 99, 100] [] NOUID, 19) := by decide
example : (Spec.encode true 1 (.tauth 9 [97, 98, 99, 100] [] NOUID)).length = 23 := by decide

end G9.C02
