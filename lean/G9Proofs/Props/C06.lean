/-
  C06 — No client behaviour can crash the server.
  Property theorems only. A theorem can exclude a crash only where the model represents the
  trap: the mirrors of the decoder (G9.Wire.Go) and of the Unix file server's directory window
  (G9.UfsLogic) trap exactly where the Go code indexes or slices, and are proved never to trap
  on any input; for the framework (G9.SrvSeq) the statements are that every request — whatever
  its type, fids, counts and offsets — is either refused without touching the implementation
  or leaves a well-formed fid table, and that nothing it does reaches another connection.
  Everything else that can take a Go process down (nil dereferences and type assertions in
  unmodelled lines, the os package, what concurrent requests do to one fid's own fields) is found — not excluded —
  by the hostile sessions of the correspondence, which run the real server in the harness's
  own process.
-/
import G9Proofs.Props.C02
import G9Proofs.Props.C04
import G9Proofs.Props.C05
import G9Proofs.Props.C12
import G9Proofs.Props.C15
import G9Proofs.Props.C11
namespace G9.C06
open G9

/-- the decoder never traps on any byte string, in either dialect -/
theorem decode_never_traps (dotu : Bool) (bs : Bytes) : Go.unpack dotu bs ≠ Res.panic :=
  C02.unpack_total dotu bs

/-- nor does the stat-record decoder (Twstat bodies, directory entries) -/
theorem stat_decode_never_traps (dotu : Bool) (bs : Bytes) : Go.unpackDir dotu bs ≠ Res.panic :=
  C02.unpackDir_total dotu bs

/-- a directory read at any offset with any count never slices out of range -/
theorem dir_read_never_traps (ends : List Nat) (total off cnt : Nat) (h : Ufs.Snap ends total) :
    Ufs.window ends total off cnt ≠ Ufs.WRes.panic :=
  C15.dirwindow_no_panic ends total off cnt h

/-- a frame longer than the negotiated msize is never executed: it ends its connection -/
theorem oversize_frame_not_executed (cfg : Srv.Cfg) (impl : Srv.Impl) (c : Srv.Conn) (t : Msg) :
    Srv.stepFrame cfg impl c t = none ↔ c.msize.toNat < (Spec.encode c.dotu 0 t).length :=
  C12.frame_size_gate cfg impl c t

/-- a request on an unknown or stale fid, or on NOFID, is refused before the implementation
    is called and changes nothing -/
theorem bad_fid_refused (cfg : Srv.Cfg) (impl : Srv.Impl) (c : Srv.Conn) (t : Msg) (f : UInt32)
    (hf : Srv.msgFid t = some f) (hb : Srv.lookup c.fids f = none ∨ f = NOFID) :
    (Srv.step cfg impl c t).snd.reply = Srv.Reply.err Srv.FErr.unknownfid ∧
    (Srv.step cfg impl c t).snd.calls = [] ∧ (Srv.step cfg impl c t).fst.fids = c.fids :=
  let ⟨h1, h2, _, h4⟩ := C04.unknown_fid_refused cfg impl c t f hf hb
  ⟨h1, h2, h4⟩

/-- a huge read count (2^32-16 included) is refused, not forwarded -/
theorem huge_count_refused (cfg : Srv.Cfg) (impl : Srv.Impl) (c : Srv.Conn) (f : UInt32) (off : UInt64) (cnt : UInt32)
    (r : Srv.FidRec) (hl : Srv.lookup c.fids f = some r) (hn : f ≠ NOFID) (hm : 24 ≤ c.msize.toNat)
    (hc : c.msize.toNat - 24 < cnt.toNat) :
    (Srv.step cfg impl c (Msg.tread f off cnt)).snd.reply = Srv.Reply.err Srv.FErr.etoolarge ∧
    (Srv.step cfg impl c (Msg.tread f off cnt)).snd.calls = [] :=
  C05.read_count_refused cfg impl c f off cnt r hl hn hm hc

/-- whatever the request, the fid table stays well-formed: operations in any order, on fids in
    any state, never corrupt the bookkeeping later requests rely on -/
theorem any_request_keeps_table_wellformed (cfg : Srv.Cfg) (impl : Srv.Impl) (c : Srv.Conn) (t : Msg)
    (h : C04.WF c.fids) : C04.WF (Srv.step cfg impl c t).fst.fids :=
  (C04.step_valid cfg impl c t h).1

/-- what a connection does — including ending on a malformed frame — touches no other connection -/
theorem other_connections_untouched (cfg : Srv.Cfg) (impl : Srv.Impl) (conns : Nat → Srv.Conn) (i j : Nat) (t : Msg)
    (h : j ≠ i) : (fun n => if n = i then (Srv.step cfg impl (conns i) t).fst else conns n) j = conns j :=
  C04.conn_private cfg impl conns i j t h

/-- …and under concurrency (any interleaving of the regions of FidNew, FidGet, retain, IncRef,
    DecRef, destroy and Conn.close, requests overlapping at will, fid numbers reused, the client
    gone or not): the table only ever holds fid objects made for that number, every reference
    count is exactly the references that are owned, the file server is never told twice that a
    fid is destroyed, never while it is still setting the fid up, and never while a request
    holds the fid. -/
theorem any_interleaving_keeps_table_wellformed (es : List FidLife.FEv) (s : FidLife.FS)
    (h : FidLife.FS.init.run es = some s) :
    (∀ k o, s.pool k = some o → o < s.n ∧ (s.obj o).num = k) ∧
    (∀ o, o < s.n → (s.obj o).ref = ((s.obj o).holds : Int) + (if (s.obj o).tbl then 1 else 0)) ∧
    (∀ o, o < s.n → (s.obj o).nd ≤ 1) ∧
    (∀ o, o < s.n → (s.obj o).pending = true → 1 ≤ (s.obj o).holds → (s.obj o).nd = 0 ∧ (s.obj o).calls = 0) ∧
    (∀ o, o < s.n → 1 ≤ (s.obj o).nd → (s.obj o).holds = 0) :=
  ⟨fun k o hp => C04.table_entry_is_its_number es s h k o hp,
   fun o ho => C11.refcount_is_owners es s h o ho,
   fun o ho => C11.fid_destroyed_at_most_once es s h o ho,
   fun o ho hp hh => ⟨(C11.no_destroy_while_being_created es s h o ho hp hh).1,
                       (C11.no_destroy_while_being_created es s h o ho hp hh).2.1⟩,
   fun o ho hn => (C11.never_destroyed_under_a_request es s h o ho (Or.inr (Or.inr hn))).1⟩

end G9.C06
