/-
  C08 — Independent requests progress independently; shared tags run FIFO.
  Property theorems only (model: G9.SrvLife). "Never delays" is stated as enabledness: the
  next step of a worker or of a call of Respond is enabled in *every* state — whatever the
  program counters of all other requests, in particular with any set of them parked inside
  the implementation — so no schedule can make it wait for them. Wall-clock promptness is
  observed by the correspondence, not proved.
-/
import G9Proofs.Lemmas.LifeFifo
namespace G9.C08
open G9 G9.Life

/-- No head-of-line blocking among workers: a worker that is neither inside the
    implementation nor queued behind its own tag group can always take its next step. The
    hypothesis mentions no other request. -/
theorem no_head_of_line_worker (s : LS) (r : Nat) (hr : r < s.n) (e : Ev) (he : wevOf r (s.req r).wpc = some e)
    (hfl : (s.req r).wpc = .fl0 → (s.req r).oldtag ≠ none) : (s.step e).isSome = true :=
  worker_progress s r hr e he hfl

/-- No head-of-line blocking among replies: a call of Respond can always take its next step;
    with a full writer queue it waits for the writer only, and the writer can then move. -/
theorem no_head_of_line_reply (s : LS) (i : Nat) (it : Inst) (hit : s.insts[i]? = some it) (e : Ev)
    (he : evOf i it.pc = some e) :
    (s.step e).isSome = true ∨
    (it.pc = .queue ∧ s.closed = false ∧ s.cap < s.reqout.length ∧ (s.step .send).isSome = true) :=
  respond_progress s i it hit e he

/-- The writer never waits for a request: it moves whenever something is queued. -/
theorem writer_never_blocked (s : LS) (hq : s.reqout ≠ []) (hc : s.closed = false) : (s.step .send).isSome = true := by
  cases h : s.reqout with
  | nil => exact absurd h hq
  | cons r rest => simp [LS.step, h, hc]

/-- A blocked request is invisible to the others: parking request `b` inside the
    implementation changes the enabledness of no event that is not its own. Stated for
    `dispatch`, the step that parks it. -/
theorem parking_disables_nothing (s s' : LS) (b : Nat) (hs : s.step (.dispatch b) = some s')
    (hnf : (s.req b).oldtag = none) (r : Nat) (hrb : r ≠ b) (e : Ev) (he : wevOf r (s.req r).wpc = some e)
    (hr : r < s.n)
    (hfl : (s.req r).wpc = .fl0 → (s.req r).oldtag ≠ none) : (s'.step e).isSome = true := by
  simp only [LS.step] at hs
  split at hs
  · simp only [hnf] at hs
    cases hs
    refine worker_progress _ r (by exact hr) e ?_ ?_
    · show wevOf r (upd s.req b _ r).wpc = some e
      rw [upd_other _ _ _ _ hrb]; exact he
    · show (upd s.req b _ r).wpc = .fl0 → (upd s.req b _ r).oldtag ≠ none
      rw [upd_other _ _ _ _ hrb]; exact hfl
  · cases hs

/-- Shared tag, one at a time: a request received while an older request with its tag is
    still in the table is queued, and a queued request can be neither checked nor handed to
    the implementation; only the `next` step of its predecessor's Respond starts it — and that
    step comes after the predecessor's reply was queued (`queue` precedes `unlink` precedes
    `next` in program order). -/
theorem shared_tag_queued (s s' : LS) (tag : Nat) (ot : Option Nat) (hne : s.chain tag ≠ [])
    (hs : s.step (.recv tag ot) = some s') :
    (s'.req s.n).wpc = .queued ∧ s'.step (.check s.n) = none ∧ s'.step (.dispatch s.n) = none := by
  simp only [LS.step] at hs
  split at hs
  · cases hs
  · cases hs
    have he : (s.chain tag).isEmpty = false := by
      cases h : s.chain tag with
      | nil => exact absurd h hne
      | cons a l => rfl
    have hw : (upd (linkPrev s.req (s.chain tag).head? s.n) s.n
        { tag := tag, oldtag := ot, wpc := if (s.chain tag).isEmpty then .start else .queued } s.n).wpc = .queued := by
      simp [he]
    refine ⟨hw, ?_, ?_⟩
    · simp only [LS.step]
      rw [if_neg]
      intro h1
      rw [hw] at h1
      cases h1.2
    · simp only [LS.step]
      rw [if_neg]
      intro h1
      rw [hw] at h1
      cases h1.2

/-- the successor is started only after the predecessor's reply is in the writer's queue -/
theorem successor_started_after_reply_queued (s s' : LS) (i : Nat) (hs : s.step (.next i) = some s') :
    ∃ it, s.insts[i]? = some it ∧ it.pc = .next := by
  simp only [LS.step] at hs
  split at hs
  · rename_i it hit
    split at hs
    · rename_i hpc; exact ⟨it, hit, hpc⟩
    · cases hs
  · cases hs

/-! ### non-vacuity: two requests under tag 5, one under tag 6 parked in the implementation -/
example : ((LS.init 1).run [.recv 6 none, .check 0, .dispatch 0, .recv 5 none, .recv 5 none, .check 1, .dispatch 1,
    .answer 1, .mark 0, .post 0, .queue 0, .unlink 0, .next 0, .check 2, .dispatch 2, .answer 2, .mark 1, .post 1,
    .send, .queue 1, .send]).map (fun s => (s.wire, s.implLog, (s.req 0).wpc)) = some ([1, 2], [0, 1, 2], .inImpl) := by
  decide

/-- **Shared tag: one at a time, in arrival order, answered in that order** (partial: sessions
    without Tflush — `LS.plain`; with flushes in the group the tag chain is cut, K-6, and the
    correspondence decides). For requests `a < b` (arrival order) under one tag, in every state
    a plain schedule reaches:
    * if `b` has been handed to the implementation, `a` was handed over before it, and `a` has
      already left the tag table — nothing of `a` can be queued any more (one at a time);
    * if `b`'s reply is queued or written, `a`'s reply, if there is one, was queued before it. -/
theorem shared_tag_fifo_partial (cap : Nat) (es : List Ev) (s : LS) (h : (LS.init cap).runP es = some s)
    (a b : Nat) (hab : a < b) (hb : b < s.n) (htag : (s.req a).tag = (s.req b).tag) :
    (b ∈ s.implLog → BeforeL s.implLog a b ∧ a ∈ s.unl ∧ NoFuture s a) ∧
    (b ∈ out s → (a ∈ out s → Before (out s) a b)) := by
  obtain ⟨_, _, _, hP⟩ := pi_runP es _ s (inv_init cap) (fi_init cap) (w3_init cap) (pi_init cap) h
  constructor
  · intro hbl
    have hau := hP.st b hb (hP.a2 b hbl).2 a hab htag
    exact ⟨hP.ex a b hab hb htag hbl, hau, (hP.un a hau).2⟩
  · intro hbo
    exact (hP.ord a b hab hb htag hbo).2

/-- in such sessions the tag table of a tag is exactly the set of its received requests that have
    not yet left it through their own Respond, newest first -/
theorem tag_table_exact (cap : Nat) (es : List Ev) (s : LS) (h : (LS.init cap).runP es = some s) (T a : Nat) :
    (a ∈ s.chain T ↔ (a < s.n ∧ (s.req a).tag = T ∧ a ∉ s.unl)) ∧ (s.chain T).Pairwise (· > ·) := by
  obtain ⟨_, _, _, hP⟩ := pi_runP es _ s (inv_init cap) (fi_init cap) (w3_init cap) (pi_init cap) h
  exact ⟨hP.mem T a, hP.srt T⟩

/-! ### non-vacuity: three requests under tag 5 answered 0,1,2 although the implementation is ready in any order -/
example : ((LS.init 1).runP [.recv 5 none, .recv 5 none, .recv 5 none, .check 0, .dispatch 0, .answer 0, .mark 0, .post 0,
    .queue 0, .unlink 0, .next 0, .check 1, .dispatch 1, .send, .answer 1, .mark 1, .post 1, .queue 1, .unlink 1, .next 1,
    .check 2, .dispatch 2, .answer 2, .mark 2, .post 2, .send, .queue 2, .send]).map
    (fun s => (s.wire, s.implLog, s.unl)) = some ([0, 1, 2], [0, 1, 2], [1, 0]) := by decide

end G9.C08
