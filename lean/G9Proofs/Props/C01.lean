/-
  C01 — Wire-format fidelity of the message codec in both dialects.
  Property theorems only; helper lemmas live in G9Proofs/Lemmas.
  Every theorem is universally quantified: all 27 message shapes, both dialects, every
  field value, every string/array length the wire can carry.
-/
import G9Proofs.Lemmas.WirePack
import G9Proofs.Lemmas.WireRreadTag
import G9Proofs.Lemmas.WireRread
namespace G9.C01
open G9 Go Spec

/-- The packet a constructor builds is byte-for-byte the protocol's layout (tag NOTAG),
    for every message and every buffer it fits in. -/
theorem pack_eq_spec (dotu : Bool) (m : Msg) (buf : Bytes)
    (hfit : (Spec.encode dotu NOTAG m).length ≤ buf.length) :
    Go.pack dotu m buf = .ok (Spec.encode dotu NOTAG m) := by
  obtain ⟨hb, hn⟩ := packParts_spec dotu m
  have hlen := encode_length dotu NOTAG m
  unfold Go.pack
  rcases hp : packParts dotu m with ⟨bsz, body⟩
  rw [hp] at hb hn
  simp only at hb hn
  subst hb
  have h1 : ¬ buf.length < bsz + 7 := by omega
  simp only [h1, if_false]
  have hw : (p32 (UInt32.ofNat (bsz + 7)) ++ p8 m.code ++ p16 Generated.NOTAG ++ Spec.body dotu m).length
      = bsz + 7 := by simp; omega
  have h2 : ¬ (p32 (UInt32.ofNat (bsz + 7)) ++ p8 m.code ++ p16 Generated.NOTAG ++ Spec.body dotu m).length
      > buf.length := by omega
  rw [if_neg h2]
  congr 1
  rw [List.take_left' hw]
  simp [Spec.encode, hn, Nat.add_comm, NOTAG, Generated.NOTAG]

/-- …and a buffer one byte too small yields "buffer too small" and no packet. -/
theorem pack_small_buffer (dotu : Bool) (m : Msg) (buf : Bytes)
    (hsmall : buf.length < (Spec.encode dotu NOTAG m).length) :
    Go.pack dotu m buf = .err .packSmall := by
  obtain ⟨_, hn⟩ := packParts_spec dotu m
  have hlen := encode_length dotu NOTAG m
  unfold Go.pack
  rcases hp : packParts dotu m with ⟨bsz, body⟩
  rw [hp] at hn
  simp only at hn
  have h1 : buf.length < bsz + 7 := by omega
  simp [h1]

/-- The layout: size[4] is the little-endian length of the whole packet, byte 4 the type
    code, bytes 5–6 the tag. -/
theorem spec_size_prefix (dotu : Bool) (tag : UInt16) (m : Msg)
    (h : Spec.Rep dotu m) :
    ∃ b, Spec.encode dotu tag m = p32 (UInt32.ofNat (Spec.encode dotu tag m).length) ++ [m.code] ++ p16 tag ++ b ∧
      (UInt32.ofNat (Spec.encode dotu tag m).length).toNat = (Spec.encode dotu tag m).length := by
  refine ⟨Spec.body dotu m, ?_, ?_⟩
  · rw [encode_length]; simp [Spec.encode, p8]
  · rw [encode_length]; exact u32_toNat_of_lt _ h.1.1

/-- Decoding the protocol's bytes in the same dialect yields the same field values (with
    Go's defaults for fields the dialect does not carry), the tag, and consumes exactly
    the packet — whatever follows it in the buffer. -/
theorem unpack_encode (dotu : Bool) (tag : UInt16) (m : Msg) (rest : Bytes)
    (h : Spec.Rep dotu m) :
    Go.unpack dotu (Spec.encode dotu tag m ++ rest) =
      .ok (tag, Go.norm dotu m, (Spec.encode dotu tag m).length) :=
  unpack_encode' dotu tag m rest h.w

/-- Constructor then decoder: the composition the statement talks about. -/
theorem unpack_pack (dotu : Bool) (m : Msg) (buf : Bytes) (h : Spec.Rep dotu m)
    (hfit : (Spec.encode dotu NOTAG m).length ≤ buf.length) :
    (Go.pack dotu m buf >>= fun pkt => Go.unpack dotu pkt) =
      .ok (NOTAG, Go.norm dotu m, (Spec.encode dotu NOTAG m).length) := by
  rw [pack_eq_spec dotu m buf hfit]
  have := unpack_encode dotu NOTAG m [] h
  simpa using this

/-- Stat records on their own: `PackDir` is the protocol's record and `UnpackDir` inverts
    it, reporting the amount consumed and returning what follows. -/
theorem stat_roundtrip (dotu : Bool) (d : Stat) (rest : Bytes) (h : Spec.statStrOk dotu d) :
    Go.packDir dotu d = Spec.stat dotu d ∧
    Go.unpackDir dotu (Go.packDir dotu d ++ rest) =
      .ok (Go.normStat dotu d, rest, (Go.packDir dotu d).length) := by
  refine ⟨packDir_eq dotu d, ?_⟩
  rw [packDir_eq]
  have hl := stat_length_ge dotu d
  have hs : (Spec.stat dotu d).length = statsz dotu d := stat_length dotu d
  unfold Go.unpackDir
  have h63 : dotu = true → 63 ≤ statsz dotu d := by
    intro hd; subst hd; unfold statsz; simp; omega
  have h1 : ¬ (Spec.stat dotu d ++ rest).length < (if dotu = true then 49 + 14 else 49) := by
    rw [List.length_append, hs]
    cases dotu
    · simp; omega
    · have := h63 rfl
      simp; omega
  rw [if_neg h1]
  simp only [gstat_stat dotu d rest h, Res.ok_bind, Res.pure_eq, List.length_append]
  congr 3
  omega

/-- A tag set afterwards appears at bytes 5–6 and nothing else changes. -/
theorem setTag_spec (dotu : Bool) (t0 t1 : UInt16) (m : Msg) :
    Go.setTag (Spec.encode dotu t0 m) t1 = .ok (Spec.encode dotu t1 m) := by
  have hlen := encode_length dotu t0 m
  unfold Go.setTag
  have h7 : ¬ (Spec.encode dotu t0 m).length < 7 := by omega
  rw [if_neg h7]
  simp [Spec.encode, p32, p8, p16]

/-- The two-step Rread: `InitRread c`, data copied into the window, `SetRreadCount n`
    with `n ≤ c` gives exactly the protocol's Rread of the first `n` bytes. -/
theorem rread_two_step (dotu : Bool) (c n : UInt32) (buf fill : Bytes)
    (hfit : 11 + c.toNat ≤ buf.length) (hrep : 11 + c.toNat < 4294967296)
    (hn : n.toNat ≤ c.toNat) (hfill : fill.length = c.toNat) :
    Go.initRread c buf = .ok (Go.rreadBuf c buf, 11 + c.toNat) ∧
    Go.setRreadCount (Go.fillData (Go.rreadBuf c buf) c.toNat fill) n =
      .ok (Spec.encode dotu NOTAG (.rread (fill.take n.toNat))) :=
  rread_two_step' dotu c n buf fill hfit hrep hn hfill

/-- …and a tag set between the two steps stays: `InitRread c`, the data, `SetTag t`,
    `SetRreadCount n` gives the protocol's Rread of the first `n` bytes under tag `t` —
    `SetRreadCount` touches size, count and the end of the packet, nothing else. -/
theorem rread_two_step_tagged (dotu : Bool) (c n : UInt32) (buf fill : Bytes) (t : UInt16)
    (hfit : 11 + c.toNat ≤ buf.length) (hrep : 11 + c.toNat < 4294967296)
    (hn : n.toNat ≤ c.toNat) (hfill : fill.length = c.toNat) :
    Go.setRreadCount (Go.tagBuf (Go.fillData (Go.rreadBuf c buf) c.toNat fill) t) n =
      .ok (Spec.encode dotu t (.rread (fill.take n.toNat))) := by
  have h2 := (rread_two_step dotu c n buf fill hfit hrep hn hfill).2
  have hnlt := n.toNat_lt
  have hc := c.toNat_lt
  have hsz : (4 + 1 + 2 + 4 + n : UInt32).toNat = 11 + n.toNat := by
    have : (4 + 1 + 2 + 4 + n : UInt32) = 11 + n := by
      apply UInt32.toNat_inj.mp; simp
    rw [this, UInt32.toNat_add]; simp; omega
  have hlen : 11 ≤ (Go.fillData (Go.rreadBuf c buf) c.toNat fill).length := by
    unfold Go.fillData Go.rreadBuf
    simp only [List.length_append, List.length_take, List.length_drop, p32_length, p16_length, p8, List.length_cons, List.length_nil]
    omega
  rw [setRreadCount_tagBuf _ t n hlen hsz, h2]
  exact setTag_spec dotu NOTAG t _

/-! ### non-vacuity: concrete, non-trivial messages satisfy `Rep` -/

example : Spec.Rep false (.twalk 1 2 [[], [0x61], List.replicate 65535 0xff]) := by
  refine ⟨⟨?_, ?_, ?_⟩, trivial⟩
  · simp only [Spec.body, Spec.strs, Spec.str, List.length_append, p32_length, p16_length,
      List.length_replicate, List.length_cons, List.length_nil]
    omega
  · simp only [List.length_cons, List.length_nil]; omega
  · intro n hn
    simp only [List.mem_cons, List.not_mem_nil, or_false] at hn
    rcases hn with rfl | rfl | rfl <;>
      simp only [Spec.strOk, List.length_replicate, List.length_cons, List.length_nil] <;> omega

example : Spec.Rep true (.tread 0xFFFFFFFF 0xFFFFFFFFFFFFFFFF 0xFFFFFFFF) := by
  simp [Spec.Rep, Spec.RepW, Spec.body]

def exStat : Stat :=
  { typ := 1, dev := 2, qid := { typ := 0x80, vers := 3, path := 4 }, mode := 0x800001ed,
    atime := 5, mtime := 6, length := 7, name := [0x61], uid := [0x62], gid := [0x63],
    muid := [0x64], ext := [0x65], uidnum := 8, gidnum := 9, muidnum := 10 }

example : Spec.Rep true (.rstat exStat) := by
  simp [exStat, Spec.Rep, Spec.RepW, Spec.statStrOk, Spec.body, Spec.stat, Spec.statBody, Spec.str, Spec.qid, Spec.statOk, Spec.strOk]

end G9.C01
