/-
  C20 — The message logger keeps the most recent entries in order.
  Property theorems only (model: G9.Logger, mirror of log.go).
-/
import G9Proofs.Lemmas.LoggerScan
namespace G9.C20
open G9 G9.Logger

/-- the ring after logging `hist` (oldest first) into a fresh logger of capacity `n` -/
def logged (n : Nat) (hist : List Entry) : Ring := hist.foldl Ring.log (Ring.new n)

theorem logged_inv (n : Nat) (hn : 1 ≤ n) (hist : List Entry) : RInv n hist (logged n hist) := by
  unfold logged
  suffices ∀ (r : Ring) (pre : List Entry), RInv n pre r → RInv n (pre ++ hist) (hist.foldl Ring.log r) by
    simpa using this (Ring.new n) [] (RInv_new n hn)
  induction hist with
  | nil => intro r pre h; simpa using h
  | cons e hist ih =>
    intro r pre h
    have := ih (r.log e) (pre ++ [e]) (RInv_log n hn pre r e h)
    simpa using this

/-- For every capacity `n ≥ 1` and every history, of any length, the ring holds exactly
    the `n` most recently logged entries, oldest first. -/
theorem ring_refines_lastN (n : Nat) (hn : 1 ≤ n) (hist : List Entry) :
    (logged n hist).contents = lastN n hist :=
  RInv_contents n hist _ (logged_inv n hn hist)

/-- `Filter` terminates (the fuel of the mirrored loop is never exhausted) and returns
    exactly the matching entries among the last `n` logged, in logged order. -/
theorem filter_spec (n : Nat) (hn : 1 ≤ n) (hist : List Entry) (fo : Option Nat) (ft : Nat) :
    (logged n hist).filter fo ft = some ((lastN n hist).filter (sel fo ft)) := by
  have hinv := logged_inv n hn hist
  have hlen := RInv_len n hist _ hinv
  rw [filter_eq _ fo ft (by omega), ring_refines_lastN n hn hist]

/-- Hence: only logged entries, in the order logged, no entry twice unless logged twice,
    nothing matching skipped inside the window, never more than `n`. -/
theorem filter_sublist (n : Nat) (hist : List Entry) (fo : Option Nat) (ft : Nat) :
    List.Sublist ((lastN n hist).filter (sel fo ft)) hist ∧
    ((lastN n hist).filter (sel fo ft)).length ≤ n ∧
    ∀ e ∈ (lastN n hist).filter (sel fo ft), sel fo ft e = true := by
  refine ⟨?_, ?_, ?_⟩
  · exact (List.filter_sublist).trans (by unfold lastN; exact List.drop_sublist _ _)
  · have h1 : ((lastN n hist).filter (sel fo ft)).length ≤ (lastN n hist).length :=
      List.length_filter_le _ _
    rw [lastN_length] at h1; omega
  · intro e he; exact (List.mem_filter.mp he).2

/-- nil owner and type 0 match everything -/
theorem filter_all (e : Entry) : sel none 0 e = true := by simp [sel]

/-! ### the asynchronous system -/

structure SInv (n : Nat) (s : Sys) : Prop where
  split : s.processed ++ s.queue = s.enqueued
  ring : RInv n s.processed s.ring
  cap : s.queue.length ≤ qcap

theorem sinv_init (n : Nat) (hn : 1 ≤ n) : SInv n (Sys.init n) :=
  ⟨rfl, RInv_new n hn, by simp [Sys.init]⟩

theorem sinv_step (n : Nat) (hn : 1 ≤ n) (s : Sys) (ev : Ev) (h : SInv n s) (hen : s.enabled ev = true) :
    SInv n (s.step ev) := by
  cases ev with
  | enqueue e =>
    simp [Sys.enabled] at hen
    exact ⟨by simp [Sys.step, ← h.split], h.ring, by simp [Sys.step]; omega⟩
  | dequeue =>
    cases hq : s.queue with
    | nil => simp [Sys.enabled, hq] at hen
    | cons e q =>
      have hs := h.split
      have hc := h.cap
      rw [hq] at hs hc
      refine ⟨?_, ?_, ?_⟩
      · simp [Sys.step, hq, ← hs]
      · simp only [Sys.step, hq]; exact RInv_log n hn _ _ e h.ring
      · simp only [Sys.step, hq]; simp at hc; omega

/-- the invariant holds in every reachable state: any interleaving of producers and the
    logger goroutine, any number of entries -/
theorem sinv_run (n : Nat) (hn : 1 ≤ n) (evs : List Ev) (s s' : Sys) (h : SInv n s)
    (hr : s.run evs = some s') : SInv n s' := by
  induction evs generalizing s with
  | nil => simp [Sys.run] at hr; subst hr; exact h
  | cons ev evs ih =>
    simp only [Sys.run] at hr
    split at hr
    · rename_i hen
      exact ih _ (sinv_step n hn s ev h hen) hr
    · cases hr

/-- `Filter` at any moment sees the entries stored so far — a prefix of what was handed to
    `Log`, short by at most the 16 queued entries — and returns the matching ones among the
    last `n` of that prefix. -/
theorem filter_sees_prefix (n : Nat) (hn : 1 ≤ n) (evs : List Ev) (s : Sys)
    (hr : (Sys.init n).run evs = some s) (fo : Option Nat) (ft : Nat) :
    s.ring.filter fo ft = some ((lastN n s.processed).filter (sel fo ft)) ∧
    s.processed <+: s.enqueued ∧ s.enqueued.length ≤ s.processed.length + qcap := by
  have h := sinv_run n hn evs _ s (sinv_init n hn) hr
  have hlen := RInv_len n _ _ h.ring
  refine ⟨?_, ⟨s.queue, h.split⟩, ?_⟩
  · rw [filter_eq _ fo ft (by omega), RInv_contents n _ _ h.ring]
  · have := congrArg List.length h.split
    have := h.cap
    simp at *; omega

/-- once logging has stopped and the queue has drained, `Filter` is exactly the matching
    entries among the `n` most recently logged -/
theorem filter_converges (n : Nat) (hn : 1 ≤ n) (evs : List Ev) (s : Sys)
    (hr : (Sys.init n).run evs = some s) (hq : s.queue = []) (fo : Option Nat) (ft : Nat) :
    s.ring.filter fo ft = some ((lastN n s.enqueued).filter (sel fo ft)) := by
  have h := sinv_run n hn evs _ s (sinv_init n hn) hr
  have := (filter_sees_prefix n hn evs s hr fo ft).1
  have hs := h.split
  rw [hq, List.append_nil] at hs
  rw [← hs]; exact this

/-- the queue drains: `dequeue` is enabled while it is non-empty and each one shortens it -/
theorem queue_drains (s : Sys) (h : s.queue ≠ []) :
    s.enabled .dequeue = true ∧ (s.step .dequeue).queue.length + 1 = s.queue.length := by
  cases hq : s.queue with
  | nil => exact absurd hq h
  | cons e q => simp [Sys.enabled, Sys.step, hq]

/-- no deadlock: in every state either `Log` can hand over its entry or the logger
    goroutine can take one (`Log` is blocked only while the queue is full, and then
    `dequeue` is enabled); `Filter` is a rendez-vous with the same goroutine. -/
theorem logger_no_deadlock (s : Sys) :
    (∀ e, s.enabled (.enqueue e) = true) ∨ s.enabled .dequeue = true := by
  by_cases h : s.queue.length < qcap
  · left; intro e; simp [Sys.enabled, h]
  · right
    cases hq : s.queue with
    | nil => simp [hq, qcap] at h
    | cons e q => simp [Sys.enabled, hq]

/-! ### non-vacuity -/

def ex (i : Nat) : Entry := { id := i, owner := some (i % 2), typ := 1 + i % 3 }

example : (logged 3 [ex 0, ex 1, ex 2, ex 3, ex 4]).contents = [ex 2, ex 3, ex 4] := by decide
example : (logged 3 [ex 0, ex 1, ex 2, ex 3, ex 4]).filter (some 0) 0 = some [ex 2, ex 4] := by decide
example : ((Sys.init 2).run [.enqueue (ex 0), .enqueue (ex 1), .dequeue, .enqueue (ex 2)]).isSome = true := by
  decide

end G9.C20
