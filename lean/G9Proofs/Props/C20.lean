/-
  C20 — The message logger keeps the most recent entries in order.
  Property theorems only (model: G9.Logger, mirror of log.go).
-/
import G9Proofs.Lemmas.LoggerScan
namespace G9.C20
open G9 G9.Logger

/-- the ring after logging `hist` (oldest first) into a fresh logger of capacity `n` -/
def logged (n : Nat) (hist : List Entry) : Ring := hist.foldl Ring.log (Ring.new n)

theorem logged_inv (n : Nat) (hn : 1 ≤ n) (hist : List Entry) : RInv n hist (logged n hist) := by
  unfold logged
  suffices ∀ (r : Ring) (pre : List Entry), RInv n pre r → RInv n (pre ++ hist) (hist.foldl Ring.log r) by
    simpa using this (Ring.new n) [] (RInv_new n hn)
  induction hist with
  | nil => intro r pre h; simpa using h
  | cons e hist ih =>
    intro r pre h
    have := ih (r.log e) (pre ++ [e]) (RInv_log n hn pre r e h)
    simpa using this

/-- For every capacity `n ≥ 1` and every history, of any length, the ring holds exactly
    the `n` most recently logged entries, oldest first. -/
theorem ring_refines_lastN (n : Nat) (hn : 1 ≤ n) (hist : List Entry) :
    (logged n hist).contents = lastN n hist :=
  RInv_contents n hist _ (logged_inv n hn hist)

/-- `Filter` terminates (the fuel of the mirrored loop is never exhausted) and returns
    exactly the matching entries among the last `n` logged, in logged order. -/
theorem filter_spec (n : Nat) (hn : 1 ≤ n) (hist : List Entry) (fo : Option Nat) (ft : Nat) :
    (logged n hist).filter fo ft = some ((lastN n hist).filter (sel fo ft)) := by
  have hinv := logged_inv n hn hist
  have hlen := RInv_len n hist _ hinv
  rw [filter_eq _ fo ft (by omega), ring_refines_lastN n hn hist]

/-- Hence: only logged entries, in the order logged, no entry twice unless logged twice,
    nothing matching skipped inside the window, never more than `n`. -/
theorem filter_sublist (n : Nat) (hist : List Entry) (fo : Option Nat) (ft : Nat) :
    List.Sublist ((lastN n hist).filter (sel fo ft)) hist ∧
    ((lastN n hist).filter (sel fo ft)).length ≤ n ∧
    ∀ e ∈ (lastN n hist).filter (sel fo ft), sel fo ft e = true := by
  refine ⟨?_, ?_, ?_⟩
  · exact (List.filter_sublist).trans (by unfold lastN; exact List.drop_sublist _ _)
  · have h1 : ((lastN n hist).filter (sel fo ft)).length ≤ (lastN n hist).length :=
      List.length_filter_le _ _
    rw [lastN_length] at h1; omega
  · intro e he; exact (List.mem_filter.mp he).2

/-- nil owner and type 0 match everything -/
theorem filter_all (e : Entry) : sel none 0 e = true := by simp [sel]

/-! ### the asynchronous system -/

structure SInv (n : Nat) (s : Sys) : Prop where
  split : s.processed ++ s.queue = s.enqueued
  ring : RInv n s.processed s.ring
  cap : s.queue.length ≤ qcap

theorem sinv_init (n : Nat) (hn : 1 ≤ n) : SInv n (Sys.init n) :=
  ⟨rfl, RInv_new n hn, by simp [Sys.init]⟩

theorem sinv_step (n : Nat) (hn : 1 ≤ n) (s : Sys) (ev : Ev) (h : SInv n s) (hen : s.enabled ev = true) :
    SInv n (s.step ev) := by
  cases ev with
  | enqueue e =>
    simp [Sys.enabled] at hen
    exact ⟨by simp [Sys.step, ← h.split], h.ring, by simp [Sys.step]; omega⟩
  | dequeue =>
    cases hq : s.queue with
    | nil => simp [Sys.enabled, hq] at hen
    | cons e q =>
      have hs := h.split
      have hc := h.cap
      rw [hq] at hs hc
      refine ⟨?_, ?_, ?_⟩
      · simp [Sys.step, hq, ← hs]
      · simp only [Sys.step, hq]; exact RInv_log n hn _ _ e h.ring
      · simp only [Sys.step, hq]; simp at hc; omega

/-- the invariant holds in every reachable state: any interleaving of producers and the
    logger goroutine, any number of entries -/
theorem sinv_run (n : Nat) (hn : 1 ≤ n) (evs : List Ev) (s s' : Sys) (h : SInv n s)
    (hr : s.run evs = some s') : SInv n s' := by
  induction evs generalizing s with
  | nil => simp [Sys.run] at hr; subst hr; exact h
  | cons ev evs ih =>
    simp only [Sys.run] at hr
    split at hr
    · rename_i hen
      exact ih _ (sinv_step n hn s ev h hen) hr
    · cases hr

/-- `Filter` at any moment sees the entries stored so far — a prefix of what was handed to
    `Log`, short by at most the 16 queued entries — and returns the matching ones among the
    last `n` of that prefix. -/
theorem filter_sees_prefix (n : Nat) (hn : 1 ≤ n) (evs : List Ev) (s : Sys)
    (hr : (Sys.init n).run evs = some s) (fo : Option Nat) (ft : Nat) :
    s.ring.filter fo ft = some ((lastN n s.processed).filter (sel fo ft)) ∧
    s.processed <+: s.enqueued ∧ s.enqueued.length ≤ s.processed.length + qcap := by
  have h := sinv_run n hn evs _ s (sinv_init n hn) hr
  have hlen := RInv_len n _ _ h.ring
  refine ⟨?_, ⟨s.queue, h.split⟩, ?_⟩
  · rw [filter_eq _ fo ft (by omega), RInv_contents n _ _ h.ring]
  · have := congrArg List.length h.split
    have := h.cap
    simp at *; omega

/-- once logging has stopped and the queue has drained, `Filter` is exactly the matching
    entries among the `n` most recently logged -/
theorem filter_converges (n : Nat) (hn : 1 ≤ n) (evs : List Ev) (s : Sys)
    (hr : (Sys.init n).run evs = some s) (hq : s.queue = []) (fo : Option Nat) (ft : Nat) :
    s.ring.filter fo ft = some ((lastN n s.enqueued).filter (sel fo ft)) := by
  have h := sinv_run n hn evs _ s (sinv_init n hn) hr
  have := (filter_sees_prefix n hn evs s hr fo ft).1
  have hs := h.split
  rw [hq, List.append_nil] at hs
  rw [← hs]; exact this

/-- the queue drains: `dequeue` is enabled while it is non-empty and each one shortens it -/
theorem queue_drains (s : Sys) (h : s.queue ≠ []) :
    s.enabled .dequeue = true ∧ (s.step .dequeue).queue.length + 1 = s.queue.length := by
  cases hq : s.queue with
  | nil => exact absurd hq h
  | cons e q => simp [Sys.enabled, Sys.step, hq]

/-- no deadlock: in every state either `Log` can hand over its entry or the logger
    goroutine can take one (`Log` is blocked only while the queue is full, and then
    `dequeue` is enabled); `Filter` is a rendez-vous with the same goroutine. -/
theorem logger_no_deadlock (s : Sys) :
    (∀ e, s.enabled (.enqueue e) = true) ∨ s.enabled .dequeue = true := by
  by_cases h : s.queue.length < qcap
  · left; intro e; simp [Sys.enabled, h]
  · right
    cases hq : s.queue with
    | nil => simp [hq, qcap] at h
    | cons e q => simp [Sys.enabled, hq]

/-! ### concurrent `Filter` callers -/

structure FInv (n : Nat) (s : FSys) : Prop where
  sys : SInv n s.sys
  answers : ∀ x, (x ∈ s.delivered ∨ s.serving = some x) →
    x.ans = some ((lastN n x.seen).filter (sel x.ask.fo x.ask.ft)) ∧ x.seen <+: s.sys.processed
  mono : (s.delivered ++ s.serving.toList).Pairwise (fun x y => x.seen <+: y.seen)

theorem finv_init (n : Nat) (hn : 1 ≤ n) : FInv n (FSys.init n) :=
  ⟨sinv_init n hn, by intro x hx; simp [FSys.init] at hx, by simp [FSys.init]⟩

private theorem sinv_filter (n : Nat) (s : Sys) (h : SInv n s) (hn : 1 ≤ n) (fo : Option Nat) (ft : Nat) :
    s.ring.filter fo ft = some ((lastN n s.processed).filter (sel fo ft)) := by
  have hlen := RInv_len n _ _ h.ring
  rw [filter_eq _ fo ft (by omega), RInv_contents n _ _ h.ring]

private theorem processed_grows (s : Sys) (ev : Ev) : s.processed <+: (s.step ev).processed := by
  cases ev with
  | enqueue e => simp [Sys.step]
  | dequeue =>
    unfold Sys.step
    cases s.queue with
    | nil => simp
    | cons e q => simp

theorem finv_step (n : Nat) (hn : 1 ≤ n) (s s' : FSys) (ev : FEv) (h : FInv n s) (hs : s.step ev = some s') :
    FInv n s' := by
  cases ev with
  | log e =>
    have key : ∀ (hen : s.sys.enabled e = true), s' = { s with sys := s.sys.step e } → FInv n s' := by
      intro hen he; subst he
      refine ⟨sinv_step n hn _ _ h.sys hen, ?_, h.mono⟩
      intro x hx
      obtain ⟨h1, h2⟩ := h.answers x hx
      exact ⟨h1, h2.trans (processed_grows _ _)⟩
    cases e with
    | enqueue e =>
      simp only [FSys.step] at hs
      split at hs
      · rename_i hen; exact key hen (by simpa using hs.symm)
      · simp at hs
    | dequeue =>
      simp only [FSys.step] at hs
      split at hs
      · rename_i hen; exact key hen.2 (by simpa using hs.symm)
      · simp at hs
  | ask a =>
    simp only [FSys.step] at hs
    split at hs
    · rename_i hnone
      have hsv : s.serving = none := by simpa using hnone
      have : s' = { s with serving := some { ask := a, ans := s.sys.ring.filter a.fo a.ft, seen := s.sys.processed } } := by
        simpa using hs.symm
      subst this
      refine ⟨h.sys, ?_, ?_⟩
      · intro x hx
        rcases hx with hx | hx
        · exact h.answers x (Or.inl hx)
        · have : x = { ask := a, ans := s.sys.ring.filter a.fo a.ft, seen := s.sys.processed } := by
            simpa using hx.symm
          subst this
          exact ⟨sinv_filter n _ h.sys hn _ _, List.prefix_refl _⟩
      · have hm := h.mono
        rw [hsv] at hm
        simp only [Option.toList_none, List.append_nil] at hm
        simp only [Option.toList_some]
        rw [List.pairwise_append]
        refine ⟨hm, by simp, ?_⟩
        intro x hx y hy
        have : y = { ask := a, ans := s.sys.ring.filter a.fo a.ft, seen := s.sys.processed } := by simpa using hy
        subst this
        exact (h.answers x (Or.inl hx)).2
    · simp at hs
  | deliver =>
    simp only [FSys.step] at hs
    split at hs
    · rename_i x hx
      have : s' = { s with serving := none, delivered := s.delivered ++ [x] } := by simpa using hs.symm
      subst this
      refine ⟨h.sys, ?_, ?_⟩
      · intro y hy
        rcases hy with hy | hy
        · rcases List.mem_append.1 hy with hy | hy
          · exact h.answers y (Or.inl hy)
          · have : y = x := by simpa using hy
            subst this; exact h.answers y (Or.inr hx)
        · simp at hy
      · have hm := h.mono
        rw [hx] at hm
        simpa using hm
    · simp at hs

theorem finv_run (n : Nat) (hn : 1 ≤ n) (evs : List FEv) (s s' : FSys) (h : FInv n s)
    (hr : s.run evs = some s') : FInv n s' := by
  induction evs generalizing s with
  | nil => simp [FSys.run] at hr; subst hr; exact h
  | cons ev evs ih =>
    simp only [FSys.run] at hr
    cases hst : s.step ev with
    | none => rw [hst] at hr; simp at hr
    | some s1 => rw [hst] at hr; exact ih s1 (finv_step n hn s s1 ev h hst) (by simpa using hr)

/-- Any number of goroutines call `Filter` while any number of others call `Log`, interleaved
    in any way: every answer a caller receives is the answer to its own question — the entries
    matching *its* owner and type among the last `n` of a prefix of what was handed to `Log` —
    and the answers are computed one after the other: a later answer never sees less than an
    earlier one. -/
theorem concurrent_filters (n : Nat) (hn : 1 ≤ n) (evs : List FEv) (s : FSys)
    (hr : (FSys.init n).run evs = some s) :
    (∀ x ∈ s.delivered, x.ans = some ((lastN n x.seen).filter (sel x.ask.fo x.ask.ft)) ∧
        x.seen <+: s.sys.enqueued) ∧
    s.delivered.Pairwise (fun x y => x.seen <+: y.seen) := by
  have h := finv_run n hn evs _ s (finv_init n hn) hr
  refine ⟨?_, ?_⟩
  · intro x hx
    obtain ⟨h1, h2⟩ := h.answers x (Or.inl hx)
    exact ⟨h1, h2.trans ⟨s.sys.queue, h.sys.split⟩⟩
  · exact (List.pairwise_append.1 h.mono).1

/-- the answer handed over is the one computed for the question taken last: no caller receives
    another caller's answer -/
theorem reply_goes_to_its_asker (s s' : FSys) (h : s.step .deliver = some s') :
    ∃ x, s.serving = some x ∧ s'.delivered = s.delivered ++ [x] ∧ s'.serving = none := by
  simp only [FSys.step] at h
  split at h
  · rename_i x hx
    have : s' = { s with serving := none, delivered := s.delivered ++ [x] } := by simpa using h.symm
    subst this
    exact ⟨x, hx, rfl, rfl⟩
  · simp at h

/-- no caller waits forever and no producer is shut out: a question is taken whenever the logger
    goroutine is idle, an answer computed is handed over (its caller is waiting for nothing else),
    and meanwhile `Log` only ever waits for a full queue -/
theorem filter_callers_never_stuck (s : FSys) :
    (s.serving = none → ∀ a, (s.step (.ask a)).isSome = true) ∧
    (s.serving ≠ none → (s.step .deliver).isSome = true) := by
  refine ⟨?_, ?_⟩
  · intro h a; simp [FSys.step, h]
  · intro h
    cases hs : s.serving with
    | none => exact absurd hs h
    | some x => simp [FSys.step, hs]

/-! ### non-vacuity -/

def ex (i : Nat) : Entry := { id := i, owner := some (i % 2), typ := 1 + i % 3 }

example : (logged 3 [ex 0, ex 1, ex 2, ex 3, ex 4]).contents = [ex 2, ex 3, ex 4] := by decide
example : (logged 3 [ex 0, ex 1, ex 2, ex 3, ex 4]).filter (some 0) 0 = some [ex 2, ex 4] := by decide
example : ((Sys.init 2).run [.enqueue (ex 0), .enqueue (ex 1), .dequeue, .enqueue (ex 2)]).isSome = true := by
  decide

example : (((FSys.init 2).run [.log (.enqueue (ex 0)), .log .dequeue, .ask ⟨7, some 0, 0⟩, .log (.enqueue (ex 1)),
    .deliver, .log .dequeue, .ask ⟨8, none, 0⟩, .deliver]).map (fun s => s.delivered.map (fun x => (x.ask.caller, x.ans)))) =
    some [(7, some [ex 0]), (8, some [ex 0, ex 1])] := by decide

end G9.C20
