/-
  C07 — Tflush is always answered and truly cancels.
  Property theorems only (model: G9.SrvLife). A Tflush is itself a request (its worker goes
  through `fl0 → fl1 → fl2 → tail`), so what C03 proves of requests holds of it too.
-/
import G9Proofs.Lemmas.LifeFlush
namespace G9.C07
open G9 G9.Life

/-- at most one Rflush per Tflush (and at most one reply to the flushed request), always -/
theorem rflush_at_most_once (cap : Nat) (es : List Ev) (s : LS) (h : (LS.init cap).run es = some s) (f : Nat) :
    (s.reqout ++ s.wire).count f ≤ 1 := by
  have hi := inv_run es _ s (inv_init cap) h
  have := (hi.1.2 f).1
  unfold sent at this
  omega

/-- The cancel decision is atomic with the start of the work: `flush.mark` on a target that has
    not passed `process.check` (neither work nor saved set, worker still queued or just started)
    marks it flushed and — ghost — as never-to-run. -/
theorem cancel_before_start_marks (s s' : LS) (f t : Nat) (hf : f < s.n) (hw : (s.req f).wpc = .fl1 (some t))
    (hne : f ≠ t) (hwk : (s.req t).wk = false) (hsv : (s.req t).sv = false)
    (hq : (s.req t).wpc = .queued ∨ (s.req t).wpc = .start) (hs : s.step (.flushMark f) = some s') :
    (s'.req t).fl = true ∧ (s'.req t).noRun = true ∧ (s'.req f).wpc = .fl2 t true := by
  simp only [LS.step, hf, if_true, hw, hwk, hsv] at hs
  cases hs
  have hne' : t ≠ f := fun h => hne h.symm
  refine ⟨?_, ?_, ?_⟩
  · show (upd _ f _ t).fl = true
    rw [upd_other _ _ _ _ hne']; simp
  · show (upd _ f _ t).noRun = true
    rw [upd_other _ _ _ _ hne']
    rcases hq with hq | hq <;> simp [hq]
  · show (upd _ f _ f).wpc = _
    simp

/-- A request cancelled before it started is never handed to the implementation afterwards:
    in no continuation of any schedule does it appear (again) in the implementation's log, and
    its `dispatch` is never enabled. -/
theorem cancelled_never_runs (cap : Nat) (es es' : List Ev) (s s' : LS) (h : (LS.init cap).run es = some s)
    (r : Nat) (hr : r < s.n) (hn : (s.req r).noRun = true) (h' : s.run es' = some s') :
    s'.implLog.count r = s.implLog.count r ∧ s'.step (.dispatch r) = none := by
  have hnr : NR s := nr_run es _ s (nr_init cap) h
  clear h
  induction es' generalizing s with
  | nil =>
    simp [LS.run] at h'; subst h'
    refine ⟨rfl, ?_⟩
    have := (hnr r hn).2
    simp only [LS.step]
    split
    · rename_i hg; rw [hg.2] at this; exact absurd this (by simp [okw])
    · rfl
  | cons e es' ih =>
    simp only [LS.run] at h'
    cases hs : s.step e with
    | none => rw [hs] at h'; cases h'
    | some s1 =>
      rw [hs] at h'
      have hnr1 := nr_step s s1 e hnr hs
      have keep : s1.implLog.count r = s.implLog.count r ∧ (s1.req r).noRun = true ∧ r < s1.n := by
        have hn1 := (wire_step s s1 e hs).2
        cases e with
        | dispatch x =>
          simp only [LS.step] at hs
          split at hs
          · rename_i hg
            have hx : x ≠ r := by
              intro hx; subst hx
              have := (hnr x hn).2; rw [hg.2] at this; exact this
            have hx' : r ≠ x := fun h => hx h.symm
            split at hs <;> cases hs
            · refine ⟨?_, ?_, hr⟩
              · show (s.implLog ++ [x]).count r = _
                simp [List.count_append, List.count_cons, hx]
              · show (upd _ x _ r).noRun = true
                rw [upd_other _ _ _ _ hx']; exact hn
            · refine ⟨rfl, ?_, hr⟩
              show (upd _ x _ r).noRun = true
              rw [upd_other _ _ _ _ hx']; exact hn
          · cases hs
        | recv tag ot =>
          simp only [LS.step] at hs
          split at hs
          · cases hs
          · cases hs
            refine ⟨rfl, ?_, Nat.lt_succ_of_lt hr⟩
            show (upd _ s.n _ r).noRun = true
            rw [upd_other _ _ _ _ (Nat.ne_of_lt hr), (linkPrev_same _ _ _ _).2.2.2.2.1]; exact hn
        | flushMark f =>
          simp only [LS.step] at hs
          split at hs
          · split at hs
            · rename_i t hw
              cases hs
              refine ⟨rfl, ?_, hr⟩
              show (upd (upd s.req t _) f _ r).noRun = true
              by_cases hrf : r = f
              · subst hrf
                have := (hnr r hn).2; rw [hw] at this; exact absurd this (by simp [okw])
              · rw [upd_other _ _ _ _ hrf]
                by_cases hrt : r = t
                · subst hrt; simp [hn]
                · rw [upd_other _ _ _ _ hrt]; exact hn
            · cases hs
          · cases hs
        | flushLookup f =>
          simp only [LS.step] at hs
          split at hs
          · rename_i hg
            have hrf : r ≠ f := by
              intro h1; subst h1
              have := (hnr r hn).2; rw [hg.2] at this; exact this
            split at hs
            · cases hs
            · split at hs
              · cases hs
                refine ⟨rfl, ?_, hr⟩
                show (upd _ f _ r).noRun = true
                rw [upd_other _ _ _ _ hrf]; exact hn
              · rename_i t _
                cases hs
                refine ⟨rfl, ?_, hr⟩
                show (upd (upd (upd s.req f _) t _) f _ r).noRun = true
                rw [upd_other _ _ _ _ hrf]
                by_cases hrt : r = t
                · subst hrt
                  simp only [upd_same]
                  rw [upd_other _ _ _ _ hrf]; exact hn
                · rw [upd_other _ _ _ _ hrt, upd_other _ _ _ _ hrf]; exact hn
          · cases hs
        | _ =>
          simp only [LS.step] at hs
          (repeat' split at hs) <;> first | cases hs | skip
          all_goals
            refine ⟨rfl, ?_, hr⟩
            first
              | exact hn
              | exact noRun_upd_keep _ _ _ (by intro h; exact h) r hn
      obtain ⟨h1, h2⟩ := ih s1 keep.2.2 keep.2.1 h' hnr1
      exact ⟨by rw [h1, keep.1], h2⟩

/-- A cancelled request gets no reply: the call of Respond that found the flush bit set at its
    test-and-set skips the writer's queue. -/
theorem cancelled_gets_no_reply (s : LS) (i : Nat) (it : Inst) (hit : s.insts[i]? = some it) (hpc : it.pc = .queue)
    (hfl : it.oldFl = true) :
    s.step (.queue i) = some { s with insts := setInst s.insts i { it with pc := .unlink } } := by
  simp [LS.step, hit, hpc, hfl]

/-- Immediately, if the old tag is not outstanding: when the lookup finds no request with the
    old tag, the flush worker and the writer alone — no step of any other request — put the
    Rflush on the wire. -/
theorem rflush_immediate_if_absent (s : LS) (f ot : Nat) (hf : f < s.n) (hw : (s.req f).wpc = .fl0)
    (hot : (s.req f).oldtag = some ot) (hch : s.chain ot = []) (hrs : (s.req f).rs = false)
    (hfl : (s.req f).fl = false) (hc : s.closed = false) (hq : s.reqout = []) :
    ∃ s', s.run [.flushLookup f, .flushAct f, .mark s.insts.length, .post s.insts.length,
                 .queue s.insts.length, .send] = some s' ∧ s'.wire = s.wire ++ [f] := by
  let s1 : LS := { s with req := upd s.req f { s.req f with wpc := .fl1 none } }
  have h1 : s.step (.flushLookup f) = some s1 := by
    simp only [LS.step, hf, hw, and_self, if_true, hot, lookupTarget, hch, List.head?_nil, s1]
  let s2 : LS := { s1 with req := upd s1.req f { s1.req f with wpc := .tail }, insts := s1.insts ++ [{ rid := f }] }
  have h2 : s1.step (.flushAct f) = some s2 := by
    have e1 : f < s1.n := hf
    have e2 : (s1.req f).wpc = .fl1 none := by show (upd s.req f _ f).wpc = _; simp
    simp only [LS.step, e1, if_true, e2, s2]
  have hit : s2.insts[s.insts.length]? = some ({ rid := f } : Inst) := by
    show (s.insts ++ [({ rid := f } : Inst)])[s.insts.length]? = _
    simp
  have hrs2 : (s2.req f).rs = false := by
    show (upd (upd s.req f _) f _ f).rs = false
    simp only [upd_same]
    show (upd s.req f _ f).rs = false
    simp only [upd_same]; exact hrs
  have hfl2 : (s2.req f).fl = false := by
    show (upd (upd s.req f _) f _ f).fl = false
    simp only [upd_same]
    show (upd s.req f _ f).fl = false
    simp only [upd_same]; exact hfl
  obtain ⟨s', hr, hwire, _⟩ := respond_reaches_wire s2 s.insts.length { rid := f } hit rfl hrs2 hfl2 hc hq
  refine ⟨s', ?_, hwire⟩
  show s.run ([.flushLookup f, .flushAct f] ++ [.mark s.insts.length, .post s.insts.length, .queue s.insts.length, .send]) = _
  rw [run_append]
  simp only [LS.run, h1, h2, Option.bind_some]
  exact hr

/-! ### non-vacuity: request 0 (tag 5) queued behind nothing but not yet checked, flushed by request 1 -/
example : ((LS.init 4).run [.recv 5 none, .recv 9 (some 5), .check 1, .dispatch 1, .flushLookup 1, .flushMark 1,
    .flushAct 1, .check 0, .selfRespond 0, .mark 0, .post 0, .queue 0, .unlink 0, .next 0, .flushes 0,
    .mark 2, .post 2, .queue 2, .send, .procEnd 1]).map
    (fun s => (s.wire, s.implLog, (s.req 0).noRun, (s.req 0).rs)) = some ([1], [], true, true) := by decide

/-- **Reply before Rflush** (partial: schedules of an ordinary session, `LS.tame` — no Tflush aimed
    at a Tflush, no hand-over of waiting flushes to a successor under the same tag, `next` starts a
    queued request; flush of a flush and K-6 shapes are decided by the correspondence only).
    In every state reached by such a schedule, for a Tflush `f` whose lookup found request `t`:
    once the Rflush is queued (or written), a reply to `t` — if there is one at all — was queued
    before it; and if there is none, there never will be, in any continuation whatsoever. -/
theorem reply_before_rflush_partial (cap : Nat) (es : List Ev) (s : LS) (h : (LS.init cap).runT es = some s)
    (f t : Nat) (hl : (s.req f).looked = some t) (hf : f ∈ out s) :
    (t ∈ out s → Before (out s) t f) ∧
    (t ∉ out s → ∀ (es' : List Ev) (s' : LS), s.run es' = some s' → t ∉ out s') := by
  obtain ⟨hI, hF⟩ := fi_runT es _ s (inv_init cap) (fi_init cap) h
  have hrs := rs_of_out s hI.1.2 f hf
  have hnf := hF.z f t hl (Or.inl hrs)
  have htn := (hF.lkw f t hl).2.2.1
  refine ⟨hF.ord f t hl hf, ?_⟩
  intro hno es'
  clear h hF hl hf hrs
  induction es' generalizing s with
  | nil => intro s' hr; simp [LS.run] at hr; subst hr; exact hno
  | cons e es' ih =>
    intro s' hr
    simp only [LS.run] at hr
    cases hs : s.step e with
    | none => rw [hs] at hr; cases hr
    | some s1 =>
      rw [hs] at hr
      have hn1 := (wire_step s s1 e hs).2
      exact ih s1 (inv_step s s1 e hI hs) (nf_step s s1 e hs t htn hnf) (Nat.lt_of_lt_of_le htn hn1)
        (fun hm => hno (out_step_nf s s1 e hI.1.2 hs t hnf hm)) s' hr

/-- the lookup records its target exactly when the table holds another request under the old tag -/
theorem lookup_finds_newest (s s' : LS) (f ot t : Nat) (hf : f < s.n) (hw : (s.req f).wpc = .fl0)
    (hot : (s.req f).oldtag = some ot) (hhd : (s.chain ot).head? = some t) (hne : t ≠ f)
    (hs : s.step (.flushLookup f) = some s') :
    (s'.req f).looked = some t ∧ (s'.req f).wpc = .fl1 (some t) := by
  simp only [LS.step, hf, hw, and_self, if_true, hot, lookupTarget, hhd, if_neg hne] at hs
  cases hs
  constructor <;> simp

/-- A Tflush that names its own tag finds nothing to flush (what it could have flushed ran
    before it): it is treated as a Tflush of a tag that is not outstanding, and answered at once. -/
theorem self_flush_finds_nothing (s : LS) (f ot : Nat) (hf : f < s.n) (hw : (s.req f).wpc = .fl0)
    (hot : (s.req f).oldtag = some ot) (hhd : (s.chain ot).head? = some f) :
    s.step (.flushLookup f) = some { s with req := upd s.req f { s.req f with wpc := .fl1 none } } := by
  simp only [LS.step, hf, hw, and_self, if_true, hot, lookupTarget, hhd]

/-! ### non-vacuity of the tame hypothesis: request 0 (tag 5) in the implementation, flushed by request 1 -/
example : ((LS.init 4).runT [.recv 5 none, .check 0, .dispatch 0, .recv 9 (some 5), .check 1, .dispatch 1,
    .flushLookup 1, .flushMark 1, .flushAct 1, .procEnd 1, .answer 0, .mark 0, .post 0, .queue 0, .send, .unlink 0,
    .next 0, .flushes 0, .mark 1, .post 1, .queue 1, .send, .flushes 0, .flushes 0]).map
    (fun s => (s.wire, (s.req 1).looked)) = some ([0, 1], some 0) := by decide

end G9.C07
