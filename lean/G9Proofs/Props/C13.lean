/-
  C13 — Behaviour depends on the byte stream, not on how it is segmented.
  Property theorems only (model: G9.Frame, mirror of Conn.recv / Clnt.recv).
-/
import G9Proofs.Lemmas.Frame
import G9Proofs.Lemmas.FrameV
namespace G9.C13
open G9 G9.Frame

/-- feeding `a ++ b` in one read is feeding `a` and then `b` -/
theorem feed_append (cfg : Cfg) (s : RS) (a b : Bytes) :
    feed cfg s (a ++ b) =
      ((feed cfg (feed cfg s a).1 b).1, (feed cfg s a).2 ++ (feed cfg (feed cfg s a).1 b).2) := by
  unfold feed
  by_cases hd : s.dead = true
  · simp [hd]
  · simp only [hd, Bool.false_eq_true, if_false]
    have e1 : ∀ u : Bytes, extract cfg (u.length + 1) u = ex cfg u := fun u => rfl
    simp only [e1]
    rw [← List.append_assoc, ex_append cfg _ (s.unread ++ a) b (Nat.le_refl _)]
    by_cases hdead : (ex cfg (s.unread ++ a)).2.2 = true
    · have := ex_dead_rest cfg _ _ (Nat.le_refl _) hdead
      simp [hdead, this]
    · simp [hdead]

/-- For every stream and every way of cutting it into reads — chunks of any sizes, splits
    inside the size prefix included — the frames handed out, the point at which the
    connection is ended (if it is) and the unconsumed remainder are those of the stream
    delivered in one piece. -/
theorem segmentation_independent (cfg : Cfg) (s : RS) (chunks : List Bytes) :
    feedAll cfg s chunks = feed cfg s chunks.flatten ∨ (chunks = [] ∧ feedAll cfg s chunks = (s, [])) := by
  induction chunks generalizing s with
  | nil => right; exact ⟨rfl, rfl⟩
  | cons ch chs ih =>
    left
    simp only [feedAll, List.flatten_cons]
    rw [feed_append]
    rcases ih (feed cfg s ch).1 with h | ⟨hnil, h⟩
    · rw [h]
    · subst hnil
      simp only [feedAll, List.flatten_nil]
      -- feeding nothing more changes nothing
      have : feed cfg (feed cfg s ch).1 [] = ((feed cfg s ch).1, []) := by
        have h0 := feed_append cfg s ch []
        rw [List.append_nil] at h0
        -- feed s ch = (x, o ++ o') with o' the output of feeding []: hence o' = []
        have hlen := congrArg (fun p => p.2.length) h0
        simp only [List.length_append] at hlen
        have ho : (feed cfg (feed cfg s ch).1 []).2 = [] := List.eq_nil_of_length_eq_zero (by omega)
        have hs := congrArg (fun p => p.1) h0
        simp only at hs
        exact Prod.ext hs.symm ho
      rw [this]

/-! ### requests that change the connection's parameters (Tversion inside the stream) -/

/-- feeding `a ++ b` in one read is feeding `a` and then `b`, also when frames in `a` change the
    msize and the dialect the later ones are checked and decoded with -/
theorem feedV_append (upd : Cfg → Bytes → Cfg) (s : VS) (a b : Bytes) :
    feedV upd s (a ++ b) =
      ((feedV upd (feedV upd s a).1 b).1, (feedV upd s a).2 ++ (feedV upd (feedV upd s a).1 b).2) := by
  unfold feedV
  by_cases hd : s.dead = true
  · simp [hd]
  · simp only [hd, Bool.false_eq_true, if_false]
    have e1 : ∀ (c : Cfg) (u : Bytes), extractV upd (u.length + 1) c u = exV upd c u := fun _ _ => rfl
    simp only [e1]
    rw [← List.append_assoc, exV_append upd _ s.cfg (s.unread ++ a) b (Nat.le_refl _)]
    by_cases hdead : (exV upd s.cfg (s.unread ++ a)).2.2.1 = true
    · have := exV_dead_rest upd _ _ _ (Nat.le_refl _) hdead
      simp [hdead, this]
    · simp [hdead]

/-- For every stream — Tversions that change msize and dialect anywhere in it — and every way of
    cutting it into reads, the frames handed out, the point at which the connection is ended, the
    unconsumed remainder and the parameters in force at the end are those of the stream delivered
    in one piece: a frame is checked and decoded with what the frames before it negotiated, not
    with what was in force when its `Read` began. -/
theorem segmentation_independent_renegotiating (upd : Cfg → Bytes → Cfg) (s : VS) (chunks : List Bytes) :
    feedAllV upd s chunks = feedV upd s chunks.flatten ∨ (chunks = [] ∧ feedAllV upd s chunks = (s, [])) := by
  induction chunks generalizing s with
  | nil => right; exact ⟨rfl, rfl⟩
  | cons ch chs ih =>
    left
    simp only [feedAllV, List.flatten_cons]
    rw [feedV_append]
    rcases ih (feedV upd s ch).1 with h | ⟨hnil, h⟩
    · rw [h]
    · subst hnil
      simp only [feedAllV, List.flatten_nil]
      have : feedV upd (feedV upd s ch).1 [] = ((feedV upd s ch).1, []) := by
        have h0 := feedV_append upd s ch []
        rw [List.append_nil] at h0
        have hlen := congrArg (fun p => p.2.length) h0
        simp only [List.length_append] at hlen
        have ho : (feedV upd (feedV upd s ch).1 []).2 = [] := List.eq_nil_of_length_eq_zero (by omega)
        have hs := congrArg (fun p => p.1) h0
        simp only at hs
        exact Prod.ext hs.symm ho
      rw [this]

/-- what `Srv.version` does to the loop's parameters: the msize only ever shrinks, the gate stays -/
theorem version_lowers_only (srvDotu : Bool) (cfg : Cfg) (fr : Bytes) :
    (afterFrame srvDotu cfg fr).msize ≤ cfg.msize ∧ (afterFrame srvDotu cfg fr).gate = cfg.gate := by
  unfold afterFrame
  split
  · split
    · exact ⟨Nat.le_refl _, rfl⟩
    · refine ⟨?_, rfl⟩
      show (if _ then _ else _) ≤ _
      split <;> omega
  · exact ⟨Nat.le_refl _, rfl⟩

/-- two segmentations of the same stream are indistinguishable -/
theorem same_stream_same_behaviour (cfg : Cfg) (cs₁ cs₂ : List Bytes) (h : cs₁.flatten = cs₂.flatten)
    (h1 : cs₁ ≠ []) (h2 : cs₂ ≠ []) :
    feedAll cfg {} cs₁ = feedAll cfg {} cs₂ := by
  rcases segmentation_independent cfg {} cs₁ with e1 | ⟨e1, _⟩
  · rcases segmentation_independent cfg {} cs₂ with e2 | ⟨e2, _⟩
    · rw [e1, e2, h]
    · exact absurd e2 h2
  · exact absurd e1 h1

/-! ### the buffer: frames handed out are never written again; every Read has room -/

/-- loop invariant of the buffer bookkeeping -/
structure BInv (msize : Nat) (s : LS) : Prop where
  fits : s.b.base + s.b.pos ≤ s.b.cap
  handed : ∀ a off len, BEv.hand a off len ∈ s.log → a < s.b.arr ∨ (a = s.b.arr ∧ off + len ≤ s.b.base)
  room : match s.mode with
    | .outer 0 => s.b.pos ≤ 4
    | .outer sz => s.b.pos < sz ∧ sz ≤ msize ∧ sz ≤ s.b.len
    | .inner => True

theorem binv_init (msize : Nat) : BInv msize (LS.init msize) :=
  ⟨by simp [LS.init], by simp [LS.init], by simp [LS.init]⟩

/-- the invariant is preserved by every step the loop can take -/
theorem binv_step (msize : Nat) (hm : 5 ≤ msize) (s s' : LS) (st : Step) (h : BInv msize s)
    (hs : s.step msize st = some s') : BInv msize s' := by
  cases st with
  | read n =>
    simp only [LS.step] at hs
    split at hs
    · rename_i pend hmode
      split at hs
      · rename_i hn
        cases hs
        have hf := h.fits
        unfold Buf.top Buf.len at hn ⊢
        by_cases hl : s.b.cap - s.b.base < msize
        · simp only [hl, if_true, Buf.realloc, Buf.read] at hn ⊢
          refine ⟨by simp; omega, ?_, trivial⟩
          intro a off len hmem
          simp at hmem
          rcases h.handed a off len hmem with h1 | ⟨h1, _⟩ <;> left <;> simp <;> omega
        · simp only [hl, if_false, Buf.read] at hn ⊢
          refine ⟨by simp; omega, ?_, trivial⟩
          intro a off len hmem
          simp at hmem
          exact h.handed a off len hmem
      · cases hs
    · cases hs
  | take sz =>
    simp only [LS.step] at hs
    split at hs
    · split at hs
      · rename_i hg
        cases hs
        simp only [Buf.consume]
        refine ⟨by have := h.fits; simp; omega, ?_, trivial⟩
        intro a off len hmem
        simp at hmem
        rcases hmem with ⟨rfl, rfl, rfl⟩ | hmem
        · right; exact ⟨rfl, by simp⟩
        · rcases h.handed a off len hmem with h1 | ⟨h1, h2⟩
          · left; exact h1
          · right; exact ⟨h1, by simp; omega⟩
      · cases hs
    · cases hs
  | park sz =>
    simp only [LS.step] at hs
    split at hs
    · split at hs
      · rename_i hg
        cases hs
        have hf := h.fits
        unfold Buf.wait Buf.len
        by_cases hl : s.b.cap - s.b.base < sz
        · simp only [hl, if_true, Buf.realloc]
          refine ⟨by simp; omega, ?_, ?_⟩
          · intro a off len hmem
            rcases h.handed a off len hmem with h1 | ⟨h1, _⟩ <;> left <;> simp <;> omega
          · have : sz ≠ 0 := by omega
            cases sz with
            | zero => exact absurd rfl this
            | succ k => simp [Buf.len]; omega
        · simp only [hl, if_false]
          refine ⟨hf, h.handed, ?_⟩
          have : sz ≠ 0 := by omega
          cases sz with
          | zero => exact absurd rfl this
          | succ k => simp [Buf.len]; omega
      · cases hs
    · cases hs
  | idle =>
    simp only [LS.step] at hs
    split at hs
    · split at hs
      · rename_i hg
        cases hs
        exact ⟨h.fits, h.handed, by simpa using hg⟩
      · cases hs
    · cases hs

theorem binv_run (msize : Nat) (hm : 5 ≤ msize) (steps : List Step) (s s' : LS) (h : BInv msize s)
    (hr : s.run msize steps = some s') : BInv msize s' := by
  induction steps generalizing s with
  | nil => simp [LS.run] at hr; subst hr; exact h
  | cons st rest ih =>
    simp only [LS.run] at hr
    cases hs : s.step msize st with
    | none => rw [hs] at hr; cases hr
    | some s1 => rw [hs] at hr; exact ih s1 (binv_step msize hm s s1 st h hs) hr

/-- Every `Read` has a non-empty window: whenever the loop is about to read — after any
    history of reads, complete frames, partial frames and reallocations — `pos < len(buf)`
    once the top-of-loop check has run (so `Read` is never called on an empty slice). -/
theorem read_window_nonempty (msize : Nat) (hm : 5 ≤ msize) (steps : List Step) (s : LS) (pend : Nat)
    (hr : (LS.init msize).run msize steps = some s) (hmode : s.mode = .outer pend) :
    (s.b.top msize).pos < (s.b.top msize).len := by
  have h := binv_run msize hm steps _ s (binv_init msize) hr
  have hroom := h.room
  have hf := h.fits
  rw [hmode] at hroom
  unfold Buf.top Buf.len
  unfold Buf.len at hroom
  by_cases hl : s.b.cap - s.b.base < msize
  · simp only [hl, if_true, Buf.realloc]
    cases pend with
    | zero => simp at hroom; omega
    | succ k => simp at hroom; omega
  · simp only [hl, if_false]
    cases pend with
    | zero => simp at hroom; omega
    | succ k => simp at hroom; omega

/-- Request payloads are not disturbed by bytes that arrive later: after a frame has been
    handed out, no `Read` ever writes into the bytes it aliases. -/
theorem payload_stable (msize : Nat) (hm : 5 ≤ msize) (steps : List Step) (s s' : LS) (n : Nat)
    (hr : (LS.init msize).run msize steps = some s) (hs : s.step msize (.read n) = some s')
    (a off len : Nat) (hh : BEv.hand a off len ∈ s.log) :
    ∃ wa woff wlen, s'.log.head? = some (.write wa woff wlen) ∧ (wa ≠ a ∨ off + len ≤ woff) := by
  have h := binv_run msize hm steps _ s (binv_init msize) hr
  simp only [LS.step] at hs
  split at hs
  · split at hs
    · cases hs
      unfold Buf.top
      by_cases hl : s.b.len < msize
      · simp only [hl, if_true, Buf.realloc, Buf.read]
        refine ⟨_, _, _, rfl, ?_⟩
        rcases h.handed a off len hh with h1 | ⟨h1, _⟩ <;> left <;> omega
      · simp only [hl, if_false, Buf.read]
        refine ⟨_, _, _, rfl, ?_⟩
        rcases h.handed a off len hh with h1 | ⟨h1, h2⟩
        · left; omega
        · right; omega
    · cases hs
  · cases hs

end G9.C13
