/-
  C19 — No data races when concurrent requests operate on different fids.
  Property theorems only. Two halves:
  (1) `lock_discipline`: every access to a guarded field that the translator found in /repo's
      current source (G9.GeneratedLocks, regenerated on every run) is made under the guard the
      policy (G9.Locks) names, or is one of the listed exemptions; the policy still covers
      fields that exist and are written. These are facts about a
      finite regenerated table, decided by kernel computation.
  (2) `guarded_accesses_are_ordered`: for the abstract model of executions (G9.LockSet), with
      no bound on threads, locks, locations or length — under the discipline, conflicting
      accesses by different threads are always separated by a release/acquire pair on the
      guard, so no execution has a data race on a guarded location.
  What ties (1) to (2) — that the syntactic must-hold lock sets are the locks really held — is
  the translator's soundness (trusted, see DESIGN); the race detector runs on the
  implementation in the correspondence.
-/
import G9.Locks
import G9Proofs.Lemmas.LockSet
import G9Proofs.Lemmas.OwnSet
namespace G9.C19
open G9 G9.Locks G9.LockSet

/-- every access in the current source meets the lock policy -/
theorem lock_discipline : Locks.violations = [] := by decide +kernel

/-- the policy is about fields that exist and are written somewhere -/
theorem policy_covered : Locks.policyCovered = true := by decide +kernel

-- (A stale exemption — `Locks.exemptUsed = false` after a function was renamed, say — is harmless
-- for the property and therefore not a proof obligation; the check prints it as a note.)

/-- Under mutex semantics and the discipline, two accesses to the same location by different
    threads are ordered: between them the first thread releases the location's guard and,
    later, the second thread acquires it. -/
theorem guarded_accesses_are_ordered (guard : Nat → Nat) (h0 hend : Holders) (pre mid post : List Ev)
    (t u x : Nat) (w1 w2 : Bool) (htu : t ≠ u)
    (hr : run guard h0 (pre ++ (⟨t, .acc x w1⟩ :: (mid ++ (⟨u, .acc x w2⟩ :: post)))) = some hend) :
    ∃ a b c, mid = a ++ (⟨t, .rel (guard x)⟩ :: (b ++ (⟨u, .acq (guard x)⟩ :: c))) := by
  rw [run_append] at hr
  cases h1e : run guard h0 pre with
  | none => rw [h1e] at hr; cases hr
  | some h1 =>
    rw [h1e] at hr
    simp only [Option.bind_some, run] at hr
    cases hs1 : step guard h1 ⟨t, .acc x w1⟩ with
    | none => rw [hs1] at hr; cases hr
    | some h1' =>
      rw [hs1] at hr
      simp only [Option.bind_some] at hr
      simp only [step] at hs1
      split at hs1
      · rename_i hg1
        cases hs1
        rw [run_append] at hr
        cases h2e : run guard h1 mid with
        | none => rw [h2e] at hr; cases hr
        | some h2 =>
          rw [h2e] at hr
          simp only [Option.bind_some, run] at hr
          cases hs2 : step guard h2 ⟨u, .acc x w2⟩ with
          | none => rw [hs2] at hr; cases hr
          | some h2' =>
            simp only [step] at hs2
            split at hs2
            · rename_i hg2
              have hne : h2 (guard x) ≠ some t := by
                rw [hg2]; intro h; cases h; exact htu rfl
              obtain ⟨a, b', hm, he, _, hmn, hrb⟩ := released_by_holder guard (guard x) t mid h1 h2 h2e hg1 hne
              have hmu : hm (guard x) ≠ some u := by rw [hmn]; intro h; cases h
              obtain ⟨b, c, hb⟩ := acquired_by_holder guard (guard x) u b' hm h2 hrb hmu hg2
              exact ⟨a, b, c, by rw [he, hb]⟩
            · cases hs2
      · cases hs1

/-- in particular an access outside the guard is not an execution of the model at all: the
    discipline is what `step` enforces -/
theorem unguarded_access_rejected (guard : Nat → Nat) (h : Holders) (t x : Nat) (w : Bool)
    (hn : h (guard x) ≠ some t) : step guard h ⟨t, .acc x w⟩ = none := by
  simp [step, hn]

/-! ### objects handed over through channels (G9.OwnSet) -/

/-- Under channel semantics and the ownership discipline (an object is accessed only by the
    goroutine that made it or last received it), two accesses to the same object by different
    goroutines are ordered: between them the first sends the object and, later, the second
    receives it — for any number of goroutines, channels, objects and any length of execution.
    This is the argument for the accesses the lock policy lists as exempt because the object is
    private to one goroutine at a time (requests on their way to the writer goroutines, reply
    buffers on their way back to the pool, log entries). -/
theorem handed_over_accesses_are_ordered (s0 send : OwnSet.St) (hwf : OwnSet.WF s0) (pre mid post : List OwnSet.Ev)
    (t u x : Nat) (w1 w2 : Bool) (htu : t ≠ u)
    (hr : OwnSet.run s0 (pre ++ (⟨t, .acc x w1⟩ :: (mid ++ (⟨u, .acc x w2⟩ :: post)))) = some send) :
    ∃ a b c ch1 ch2, mid = a ++ (⟨t, .send ch1 x⟩ :: (b ++ (⟨u, .recv ch2 x⟩ :: c))) := by
  rw [OwnSet.run_append] at hr
  cases h1e : OwnSet.run s0 pre with
  | none => rw [h1e] at hr; cases hr
  | some s1 =>
    rw [h1e] at hr
    simp only [Option.bind_some, OwnSet.run] at hr
    have hwf1 := OwnSet.wf_run pre s0 s1 hwf h1e
    cases hs1 : OwnSet.step s1 ⟨t, .acc x w1⟩ with
    | none => rw [hs1] at hr; cases hr
    | some s1' =>
      rw [hs1] at hr
      simp only [Option.bind_some] at hr
      simp only [OwnSet.step] at hs1
      split at hs1
      · rename_i ho1
        cases hs1
        rw [OwnSet.run_append] at hr
        cases h2e : OwnSet.run s1 mid with
        | none => rw [h2e] at hr; cases hr
        | some s2 =>
          rw [h2e] at hr
          simp only [Option.bind_some, OwnSet.run] at hr
          cases hs2 : OwnSet.step s2 ⟨u, .acc x w2⟩ with
          | none => rw [hs2] at hr; cases hr
          | some s2' =>
            simp only [OwnSet.step] at hs2
            split at hs2
            · rename_i ho2
              have hne : s2.owner x ≠ some t := by
                rw [ho2]; intro h; cases h; exact htu rfl
              obtain ⟨a, b', ch1, sm, he, _, hmn, _, hrb⟩ :=
                OwnSet.given_up_by_owner x t mid s1 s2 hwf1 h2e ho1 hne
              have hmu : sm.owner x ≠ some u := by rw [hmn]; intro h; cases h
              obtain ⟨b, c, ch2, hb⟩ := OwnSet.taken_by_owner x u b' sm s2 hrb hmu ho2
              exact ⟨a, b, c, ch1, ch2, by rw [he, hb]⟩
            · cases hs2
      · cases hs1

/-- an access by anybody but the owner is not an execution of the model -/
theorem foreign_access_rejected (s : OwnSet.St) (t x : Nat) (w : Bool) (hn : s.owner x ≠ some t) :
    OwnSet.step s ⟨t, .acc x w⟩ = none := by
  simp [OwnSet.step, hn]

example : (OwnSet.run { owner := fun k => if k = 7 then some 1 else none }
    [⟨1, .acc 7 true⟩, ⟨1, .send 0 7⟩, ⟨2, .recv 0 7⟩, ⟨2, .acc 7 false⟩, ⟨2, .send 1 7⟩, ⟨1, .recv 1 7⟩, ⟨1, .acc 7 true⟩]).isSome = true := by
  decide

/-! ### non-vacuity: two threads hand a guarded location over -/
example : (run (fun _ => 0) (fun _ => none)
    [⟨1, .acq 0⟩, ⟨1, .acc 7 true⟩, ⟨1, .rel 0⟩, ⟨2, .acq 0⟩, ⟨2, .acc 7 false⟩, ⟨2, .rel 0⟩]).isSome = true := by decide

end G9.C19
