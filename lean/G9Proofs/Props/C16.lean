/-
  C16 — Ufs names and metadata mirror the exported tree.
  Property theorems only (model: G9.UfsLogic walked / ufsWalk / fwalk). What exists in the
  tree is a parameter (`step p name` = what `Lstat(p + "/" + name)` finds): the theorems
  hold for every tree.
-/
import G9.UfsLogic
import G9.UfsMeta
namespace G9.C16
open G9 G9.Ufs

variable {P N : Type} (step : P → N → Option P)

/-- resolving a whole name list -/
def resolve : P → List N → Option P
  | p, [] => some p
  | p, n :: ns => (step p n).bind (fun q => resolve q ns)

/-- Rwalk carries one qid per existing leading element: `k` elements resolve, and if fewer
    than all, the next one does not exist. -/
theorem walk_prefix (p : P) (names : List N) :
    (walked step p names).1 ≤ names.length ∧
    resolve step p (names.take (walked step p names).1) = some (walked step p names).2 ∧
    ((walked step p names).1 < names.length →
      ∃ n, names[(walked step p names).1]? = some n ∧ step (walked step p names).2 n = none) := by
  induction names generalizing p with
  | nil => simp [walked, resolve]
  | cons n ns ih =>
    cases hs : step p n with
    | none => simp [walked, hs, resolve]
    | some q =>
      obtain ⟨h1, h2, h3⟩ := ih q
      simp only [walked, hs]
      refine ⟨by simp; omega, ?_, ?_⟩
      · simp [resolve, hs, h2]
      · intro hlt
        obtain ⟨m, hm1, hm2⟩ := h3 (by simpa using hlt)
        exact ⟨m, by simpa using hm1, hm2⟩

/-- an error iff the first element of a non-empty list is missing; the new fid designates
    the target only when every element was walked, otherwise nothing is committed (both
    fids stay where they were — also when newfid is the fid itself) -/
theorem walk_commits_only_complete (p : P) (names : List N) :
    (ufsWalk step p names = .enoent ↔ ∃ n ns, names = n :: ns ∧ step p n = none) ∧
    (∀ k q, ufsWalk step p names = .rwalk k (some q) → k = names.length ∧ resolve step p names = some q) ∧
    (∀ k, ufsWalk step p names = .rwalk k none → k < names.length) := by
  obtain ⟨h1, h2, h3⟩ := walk_prefix step p names
  unfold ufsWalk
  cases hw : walked step p names with
  | mk k q =>
    rw [hw] at h1 h2 h3
    simp only at h1 h2 h3 ⊢
    refine ⟨?_, ?_, ?_⟩
    · constructor
      · intro h
        split at h
        · rename_i hc
          cases names with
          | nil => exact absurd rfl hc.2
          | cons n ns =>
            refine ⟨n, ns, rfl, ?_⟩
            have := h3 (by rw [hc.1]; simp)
            rw [hc.1] at this h2
            simp [resolve] at h2
            obtain ⟨m, hm1, hm2⟩ := this
            simp at hm1
            rw [h2, hm1]; exact hm2
        · cases h
      · rintro ⟨n, ns, rfl, hn⟩
        simp [walked, hn] at hw
        obtain ⟨rfl, rfl⟩ := hw
        simp
    · intro k' q' h
      by_cases hc : k = 0 ∧ names ≠ []
      · rw [if_pos hc] at h; cases h
      · rw [if_neg hc] at h
        by_cases hk : k = names.length
        · rw [if_pos hk] at h
          cases h
          refine ⟨hk, ?_⟩
          rw [hk, List.take_length] at h2
          exact h2
        · rw [if_neg hk] at h; cases h
    · intro k' h
      by_cases hc : k = 0 ∧ names ≠ []
      · rw [if_pos hc] at h; cases h
      · rw [if_neg hc] at h
        by_cases hk : k = names.length
        · rw [if_pos hk] at h; cases h
        · rw [if_neg hk] at h; cases h; omega

/-- `FWalk` resolves paths of any depth: cutting the names into Twalks of 16 and continuing
    in place yields a fid on exactly the object the whole path designates, or fails — and
    it does not matter where the cuts fall. -/
theorem fwalk_resolves : ∀ (fuel : Nat) (p : P) (names : List N), names.length < 16 * fuel →
    fwalk step fuel p names = resolve step p names := by
  intro fuel
  induction fuel with
  | zero => intro p names h; omega
  | succ fuel ih =>
    intro p names hlen
    have hres : ∀ (a b : List N) (p : P), resolve step p (a ++ b) = (resolve step p a).bind (fun q => resolve step q b) := by
      intro a
      induction a with
      | nil => intro b p; simp [resolve]
      | cons x a iha =>
        intro b p
        simp only [List.cons_append, resolve]
        cases step p x with
        | none => simp
        | some q => simp [iha]
    have hsplit : names = names.take 16 ++ names.drop 16 := (List.take_append_drop 16 names).symm
    obtain ⟨h1, h2, h3⟩ := walk_prefix step p (names.take 16)
    rw [fwalk]
    simp only [ufsWalk]
    cases hw : walked step p (names.take 16) with
    | mk k q =>
      rw [hw] at h1 h2 h3
      simp only at h1 h2 h3 ⊢
      conv => rhs; rw [hsplit, hres]
      by_cases hk : k = (names.take 16).length
      · -- the chunk resolved completely
        rw [hk, List.take_length] at h2
        rw [h2]
        have hne : ¬ (k = 0 ∧ names.take 16 ≠ []) := by
          rintro ⟨hk0, hne⟩
          rw [hk0] at hk
          exact hne (List.eq_nil_of_length_eq_zero hk.symm)
        rw [if_neg hne]
        simp only [hk, ne_eq, not_true_eq_false, if_false, if_true]
        by_cases hd : (names.drop 16).isEmpty = true
        · have : names.drop 16 = [] := by simpa using hd
          simp [this, resolve]
        · have hd' : (names.drop 16).isEmpty = false := by simpa using hd
          have hlong : 16 < names.length := by
            cases hdl : names.drop 16 with
            | nil => rw [hdl] at hd'; simp at hd'
            | cons x xs =>
              have := congrArg List.length hdl
              rw [List.length_drop] at this; simp at this; omega
          simp only [hd', Bool.false_eq_true, if_false]
          rw [ih q (names.drop 16) (by rw [List.length_drop]; omega)]
          simp
      · -- a missing element inside the chunk: both fail
        have hklt : k < (names.take 16).length := by omega
        obtain ⟨n, hn1, hn2⟩ := h3 hklt
        have hfail : resolve step p (names.take 16) = none := by
          have hs2 : names.take 16 = (names.take 16).take k ++ (names.take 16).drop k :=
            (List.take_append_drop k _).symm
          rw [hs2, hres, h2]
          simp only [Option.bind_some]
          have : (names.take 16).drop k = n :: (names.take 16).drop (k + 1) := by
            rw [List.drop_eq_getElem_cons hklt]
            congr 1
            have := List.getElem?_eq_getElem hklt
            rw [this] at hn1; exact Option.some.inj hn1
          rw [this]; simp [resolve, hn2]
        rw [hfail]
        simp only [Option.bind_none]
        by_cases hc : k = 0 ∧ names.take 16 ≠ []
        · rw [if_pos hc]
        · rw [if_neg hc, if_neg hk]

/-! ### non-vacuity: a three-level tree -/
def tstep : Nat → String → Option Nat
  | 0, "a" => some 1
  | 1, "b" => some 2
  | 2, "c" => some 3
  | _, _ => none

example : ufsWalk tstep 0 ["a", "b", "x"] = .rwalk 2 none := rfl
example : ufsWalk tstep 0 ["x"] = .enoent := rfl
example : fwalk tstep 2 0 ["a", "b", "c"] = some 3 := by decide


/-! ### type and permission bits of the reported stat and qid (model: G9.UfsMeta) -/
section filemeta
open G9.UfsMeta

theorem perm_high (p : Nat) (hp : p < 512) (k : Nat) (hk : 9 ≤ k) : p.testBit k = false := by
  apply Nat.testBit_lt_two_pow
  exact Nat.lt_of_lt_of_le hp (by
    have : 2 ^ 9 ≤ 2 ^ k := Nat.pow_le_pow_right (by decide) hk
    simpa using this)

/-- The mode word reported for a file: its low nine bits are the file's permission bits, the
    directory bit is set exactly for directories, and — on a 9P2000.u connection only — the
    symlink, device, named-pipe, socket, setuid and setgid bits exactly when the file has them;
    nothing else is ever set. -/
theorem mode_reports_the_file (m : FMode) (dotu : Bool) (hp : m.perm < 512) :
    npmode m dotu % 512 = m.perm ∧
    (npmode m dotu).testBit 31 = m.dir ∧
    (npmode m dotu).testBit 25 = (dotu && m.symlink) ∧
    (npmode m dotu).testBit 23 = (dotu && m.device) ∧
    (npmode m dotu).testBit 21 = (dotu && m.pipe) ∧
    (npmode m dotu).testBit 20 = (dotu && m.socket) ∧
    (npmode m dotu).testBit 19 = (dotu && m.setuid) ∧
    (npmode m dotu).testBit 18 = (dotu && m.setgid) := by
  obtain ⟨perm, dir, sl, so, pi, de, su, sg⟩ := m
  dsimp only at hp
  have e1 : ∀ x : Nat, x % 512 = x &&& 511 := by
    intro x
    have := Nat.and_two_pow_sub_one_eq_mod x 9
    simpa using this.symm
  have hperm : perm &&& 511 = perm := by
    rw [← e1]; exact Nat.mod_eq_of_lt hp
  have b31 := perm_high perm hp 31 (by decide)
  have b25 := perm_high perm hp 25 (by decide)
  have b23 := perm_high perm hp 23 (by decide)
  have b21 := perm_high perm hp 21 (by decide)
  have b20 := perm_high perm hp 20 (by decide)
  have b19 := perm_high perm hp 19 (by decide)
  have b18 := perm_high perm hp 18 (by decide)
  refine ⟨?_, ?_, ?_, ?_, ?_, ?_, ?_, ?_⟩
  · rw [e1]
    cases dir <;> cases dotu <;> cases sl <;> cases so <;> cases pi <;> cases de <;> cases su <;> cases sg <;>
      simp [npmode, flag, DMDIR, DMSYMLINK, DMSOCKET, DMNAMEDPIPE, DMDEVICE, DMSETUID, DMSETGID,
        Nat.and_or_distrib_right, hperm]
  all_goals
    cases dir <;> cases dotu <;> cases sl <;> cases so <;> cases pi <;> cases de <;> cases su <;> cases sg <;>
      simp [npmode, flag, DMDIR, DMSYMLINK, DMSOCKET, DMNAMEDPIPE, DMDEVICE, DMSETUID, DMSETGID,
        Nat.testBit_or, b31, b25, b23, b21, b20, b19, b18] <;> decide

/-- the qid type: the directory bit exactly for directories, the symlink bit exactly for symbolic
    links, nothing else -/
theorem qid_type_reports_the_file (m : FMode) :
    (qidType m).testBit 7 = m.dir ∧ (qidType m).testBit 1 = m.symlink ∧
    qidType m = (if m.dir then 0x80 else 0) + (if m.symlink then 0x02 else 0) := by
  obtain ⟨perm, dir, sl, so, pi, de, su, sg⟩ := m
  cases dir <;> cases sl <;> simp [qidType, flag, QTDIR, QTSYMLINK] <;> decide

example : npmode { perm := 0o755, dir := true, symlink := false, socket := false, pipe := false, device := false, setuid := false, setgid := false } false = 0x800001ed := by decide

end filemeta

end G9.C16
