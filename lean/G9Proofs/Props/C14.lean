/-
  C14 — File data read and written through client and Ufs is exact.
  Property theorems only (model: G9.UfsLogic readAt / clntRead / readn / written).
  What `os.File.ReadAt/WriteAt` do is the assumption written in the model (`readAt`,
  `writeAt`); what go9p adds — clamping to iounit, the Readn/Written loops, the offset
  bookkeeping — is proved.
-/
import G9.UfsLogic
namespace G9.C14
open G9 G9.Ufs

/-- one read: exactly the requested range of the file, cut at iounit and at end of file;
    at or beyond end of file nothing -/
theorem read_exact (file : Bytes) (io off cnt : Nat) :
    clntRead file io off cnt = (file.drop off).take (min cnt io) ∧
    (file.length ≤ off → clntRead file io off cnt = []) := by
  refine ⟨rfl, fun h => ?_⟩
  unfold clntRead readAt
  rw [List.drop_eq_nil_of_le h]; simp

theorem take_split {α} (l : List α) (a b : Nat) : l.take (a + b) = l.take a ++ (l.drop a).take b := by
  rw [List.take_add]

theorem readn_step (file : Bytes) (io fuel off n m : Nat) (hm : m = min (n + 1) io) :
    readn file io (fuel + 1) off (n + 1) =
      if ((file.drop off).take m).length = 0 then []
      else (file.drop off).take m ++
        readn file io fuel (off + ((file.drop off).take m).length) (n + 1 - ((file.drop off).take m).length) := by
  subst hm; rw [readn]; rfl

/-- `Readn` returns exactly the requested range up to end of file — also when the range
    crosses the end — whatever the iounit; the loop terminates within `n + 1` rounds. -/
theorem readn_exact (file : Bytes) (io : Nat) (hio : 1 ≤ io) :
    ∀ (n off fuel : Nat), n < fuel → readn file io fuel off n = (file.drop off).take n := by
  intro n
  induction n using Nat.strongRecOn with
  | _ n ih =>
    intro off fuel hf
    cases fuel with
    | zero => omega
    | succ fuel =>
      cases n with
      | zero => simp [readn]
      | succ n =>
        obtain ⟨m, hm⟩ : ∃ m, m = min (n + 1) io := ⟨_, rfl⟩
        rw [readn_step file io fuel off n m hm]
        have hm1 : 1 ≤ m ∧ m ≤ n + 1 := by omega
        have hlen : ((file.drop off).take m).length = min m (file.drop off).length := List.length_take
        by_cases hb : ((file.drop off).take m).length = 0
        · rw [if_pos hb]
          have : file.drop off = [] := by
            have : (file.drop off).length = 0 := by omega
            exact List.eq_nil_of_length_eq_zero this
          rw [this]; simp
        · rw [if_neg hb]
          obtain ⟨k, hk⟩ : ∃ k, k = ((file.drop off).take m).length := ⟨_, rfl⟩
          rw [← hk]
          have hk1 : 1 ≤ k ∧ k ≤ m := by omega
          rw [ih (n + 1 - k) (by omega) (off + k) fuel (by omega)]
          have hsplit : n + 1 = k + (n + 1 - k) := by omega
          conv => rhs; rw [hsplit, take_split]
          rw [List.drop_drop]
          congr 1
          by_cases hle : m ≤ (file.drop off).length
          · have : k = m := by omega
            rw [this]
          · have : k = (file.drop off).length := by omega
            rw [this, List.take_length]
            rw [List.take_of_length_le (by omega)]

/-- pieces a `Written` call sends: offsets and payloads of the successive Twrites -/
def pieces (io : Nat) : Nat → Nat → Bytes → List (Nat × Bytes)
  | 0, _, _ => []
  | _ + 1, _, [] => []
  | fuel + 1, off, d =>
    if (d.take io).length = 0 then []
    else (off, d.take io) :: pieces io fuel (off + (d.take io).length) (d.drop (d.take io).length)

/-- `Written` cuts the data into consecutive pieces of at most iounit bytes, each sent at the
    offset where the previous one ended, covering the data exactly once, in order. -/
theorem written_pieces (io : Nat) (hio : 1 ≤ io) :
    ∀ (n : Nat) (d : Bytes) (off fuel : Nat), d.length = n → n < fuel →
      ((pieces io fuel off d).map (·.2)).flatten = d ∧
      (∀ p ∈ pieces io fuel off d, p.2.length ≤ io ∧ 1 ≤ p.2.length) := by
  intro n
  induction n using Nat.strongRecOn with
  | _ n ih =>
    intro d off fuel hd hf
    cases fuel with
    | zero => omega
    | succ fuel =>
      cases d with
      | nil => simp [pieces]
      | cons x xs =>
        have hl : ((x :: xs).take io).length = min io (xs.length + 1) := by simp [List.length_take]
        have hpos : ¬ ((x :: xs).take io).length = 0 := by rw [hl]; omega
        rw [pieces, if_neg hpos]
        case x_3 => intro e; cases e
        have hrest : ((x :: xs).drop ((x :: xs).take io).length).length < n := by
          rw [List.length_drop, hl]; simp at hd; simp; omega
        obtain ⟨h1, h2⟩ := ih _ hrest ((x :: xs).drop ((x :: xs).take io).length)
          (off + ((x :: xs).take io).length) fuel rfl (by omega)
        refine ⟨?_, ?_⟩
        · simp only [List.map_cons, List.flatten_cons, h1]
          rw [hl]
          have : min io (xs.length + 1) ≤ (x :: xs).length := by simp; omega
          rw [show (x :: xs).take io = (x :: xs).take (min io (xs.length + 1)) by
            rw [List.take_eq_take_iff]; simp]
          exact List.take_append_drop _ _
        · intro p hp
          rcases List.mem_cons.mp hp with rfl | hp
          · show ((x :: xs).take io).length ≤ io ∧ 1 ≤ ((x :: xs).take io).length
            rw [hl]; omega
          · exact h2 p hp

/-- `File.Read`/`File.Write` advance the offset by exactly the count returned (and a
    single read never returns more than asked) -/
theorem read_le_count (file : Bytes) (io off cnt : Nat) : (clntRead file io off cnt).length ≤ cnt := by
  unfold clntRead readAt; rw [List.length_take]; omega

/-- `File.Read` called repeatedly with any sequence of counts: each call returns the bytes at the
    file's current offset and advances the offset by what it returned -/
def fileReads (file : Bytes) (io : Nat) : Nat → List Nat → List Bytes
  | _, [] => []
  | off, c :: cs =>
    let b := clntRead file io off c
    b :: fileReads file io (off + b.length) cs

/-- …so the pieces are consecutive: joined, they are exactly the bytes of the file from the
    starting offset on, as many as were returned — nothing skipped, nothing repeated, nothing
    from elsewhere. -/
theorem sequential_reads_are_consecutive (file : Bytes) (io : Nat) (cs : List Nat) (off : Nat) :
    (fileReads file io off cs).flatten =
      readAt file off ((fileReads file io off cs).flatten).length := by
  induction cs generalizing off with
  | nil => simp [fileReads, readAt]
  | cons c cs ih =>
    simp only [fileReads, List.flatten_cons, List.length_append]
    rw [ih]
    generalize hk : ((fileReads file io (off + (clntRead file io off c).length) cs).flatten).length = k
    have hb : clntRead file io off c = readAt file off (clntRead file io off c).length := by
      unfold clntRead readAt
      rw [List.length_take, List.take_eq_take_iff]
      simp only [List.length_drop]
      omega
    generalize hm : (clntRead file io off c).length = m at hb ⊢
    rw [hb]
    unfold readAt
    simp only [List.length_take]
    generalize hm' : min m (List.drop off file).length = m'
    have hmm : m' = m := by
      -- the first read returned m bytes, so m bytes were there
      have : (clntRead file io off c).length ≤ (List.drop off file).length := by
        unfold clntRead readAt; rw [List.length_take]; omega
      omega
    subst hmm
    rw [take_split, List.drop_drop]
    congr 1
    rw [List.take_eq_take_iff]
    omega

/-- Writing consecutive pieces one after the other leaves the file exactly as one write of the
    whole data at the first offset would (any chunking, any iounit). -/
theorem chunked_writes_equal_one_write (file : Bytes) (off : Nat) (d1 d2 : Bytes) :
    writeAt (writeAt file off d1) (off + d1.length) d2 = writeAt file off (d1 ++ d2) := by
  unfold writeAt
  have hlen : ((file ++ List.replicate (off - file.length) 0).take off).length = off := by
    rw [List.length_take, List.length_append, List.length_replicate]; omega
  generalize hA : (file ++ List.replicate (off - file.length) 0).take off = A at hlen
  have hL : (A ++ d1 ++ List.drop (off + d1.length) file).length ≥ off + d1.length := by
    simp only [List.length_append]; omega
  have e1 : off + d1.length - (A ++ d1 ++ List.drop (off + d1.length) file).length = 0 := by omega
  rw [e1]
  simp only [List.replicate_zero, List.append_nil]
  have e2 : (A ++ d1 ++ List.drop (off + d1.length) file).take (off + d1.length) = A ++ d1 := by
    rw [List.take_append_of_le_length (by simp only [List.length_append]; omega)]
    rw [List.take_of_length_le (by simp only [List.length_append]; omega)]
  rw [e2]
  have e3 : (A ++ d1 ++ List.drop (off + d1.length) file).drop (off + d1.length + d2.length)
      = file.drop (off + (d1 ++ d2).length) := by
    have : off + d1.length + d2.length = (A ++ d1).length + d2.length := by
      simp only [List.length_append]; omega
    rw [this, List.drop_append]
    rw [List.drop_of_length_le (by omega)]
    simp only [List.length_append, List.nil_append, List.drop_drop]
    congr 1
    omega
  rw [e3]
  simp [List.append_assoc]

/-! ### non-vacuity -/
example : readn [1, 2, 3, 4, 5, 6, 7] 3 101 2 100 = [3, 4, 5, 6, 7] := by decide
example : (pieces 3 8 10 [1, 2, 3, 4, 5, 6, 7]).map (·.1) = [10, 13, 16] := by decide

end G9.C14
