/-
  C11 — A disconnect releases everything the connection held.
  Property theorems only (model: G9.SrvLife for goroutines and queues). What the model can
  carry: after `close` nothing on the connection can block — every call of Respond runs to
  its end without the writer — and nothing new is accepted or written. That ConnClosed is
  reported once, that every remaining fid is reported destroyed and that no goroutine or
  descriptor outlives the connection are observed on the implementation by the
  correspondence (goroutine and descriptor census, FidDestroy log).
-/
import G9Proofs.Lemmas.LifeReach
namespace G9.C11
open G9 G9.Life

/-- the connection is closed once: `close` is refused afterwards, in every later state -/
theorem closed_stays_closed (s s' : LS) (es : List Ev) (hc : s.closed = true) (h : s.run es = some s') :
    s'.closed = true ∧ s'.step .close = none ∧ s'.wire = s.wire ∧ s'.n = s.n := by
  induction es generalizing s with
  | nil =>
    simp [LS.run] at h; subst h
    exact ⟨hc, by simp [LS.step, hc], rfl, rfl⟩
  | cons e es ih =>
    simp only [LS.run] at h
    cases hs : s.step e with
    | none => rw [hs] at h; cases h
    | some s1 =>
      rw [hs] at h
      have keep : s1.closed = true ∧ s1.wire = s.wire ∧ s1.n = s.n := by
        cases e with
        | recv tag ot => simp [LS.step, hc] at hs
        | send =>
          simp only [LS.step] at hs
          split at hs
          · cases hs
          · simp [hc] at hs
        | close => simp [LS.step, hc] at hs
        | _ =>
          simp only [LS.step] at hs
          (repeat' split at hs) <;> first | cases hs | skip
          all_goals exact ⟨hc, rfl, rfl⟩
      obtain ⟨h1, h2, h3, h4⟩ := ih s1 keep.1 h
      exact ⟨h1, h2, by rw [h3, keep.2.1], by rw [h4, keep.2.2]⟩

/-- After the disconnect no call of Respond can get stuck: each of its steps is enabled
    without the writer, so every goroutine still replying ends. -/
theorem respond_never_stuck_after_close (s : LS) (hc : s.closed = true) (i : Nat) (it : Inst)
    (hit : s.insts[i]? = some it) (e : Ev) (he : evOf i it.pc = some e) : (s.step e).isSome = true := by
  rcases respond_progress s i it hit e he with h | ⟨_, h, _⟩
  · exact h
  · rw [hc] at h; cases h

/-- a reply finished after the disconnect is dropped, not queued -/
theorem reply_after_close_dropped (s : LS) (hc : s.closed = true) (i : Nat) (it : Inst)
    (hit : s.insts[i]? = some it) (hpc : it.pc = .queue) :
    s.step (.queue i) = some { s with insts := setInst s.insts i { it with pc := .unlink } } := by
  simp [LS.step, hit, hpc, hc]

/-- workers still executing at the disconnect run to their end as before -/
theorem worker_never_stuck_after_close (s : LS) (r : Nat) (hr : r < s.n) (e : Ev)
    (he : wevOf r (s.req r).wpc = some e) (hfl : (s.req r).wpc = .fl0 → (s.req r).oldtag ≠ none) :
    (s.step e).isSome = true :=
  worker_progress s r hr e he hfl

/-! ### non-vacuity: disconnect with one request in the implementation, answered afterwards -/
example : ((LS.init 0).run [.recv 5 none, .check 0, .dispatch 0, .close, .answer 0, .mark 0, .post 0, .queue 0,
    .unlink 0, .next 0, .flushes 0, .implReturn 0, .procEnd 0]).map
    (fun s => (s.wire, s.reqout, (s.req 0).wpc, s.closed)) = some ([], [], .ended, true) := by decide

end G9.C11
