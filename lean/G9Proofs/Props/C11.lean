/-
  C11 — A disconnect releases everything the connection held.
  Property theorems only (model: G9.SrvLife for goroutines and queues). What the model can
  carry: after `close` nothing on the connection can block — every call of Respond runs to
  its end without the writer — and nothing new is accepted or written. That ConnClosed is
  reported once and that no goroutine or descriptor outlives the connection are observed on the
  implementation by the correspondence (goroutine and descriptor census).
  The fids are M6 (G9.FidLife): under every interleaving of requests still executing, DecRef,
  destroy() and Conn.close, every fid object is reported destroyed exactly once.
-/
import G9Proofs.Lemmas.LifeReach
import G9Proofs.Lemmas.FidLife
import G9Proofs.Lemmas.FidCommute
namespace G9.C11
open G9 G9.Life

/-- the connection is closed once: `close` is refused afterwards, in every later state -/
theorem closed_stays_closed (s s' : LS) (es : List Ev) (hc : s.closed = true) (h : s.run es = some s') :
    s'.closed = true ∧ s'.step .close = none ∧ s'.wire = s.wire ∧ s'.n = s.n := by
  induction es generalizing s with
  | nil =>
    simp [LS.run] at h; subst h
    exact ⟨hc, by simp [LS.step, hc], rfl, rfl⟩
  | cons e es ih =>
    simp only [LS.run] at h
    cases hs : s.step e with
    | none => rw [hs] at h; cases h
    | some s1 =>
      rw [hs] at h
      have keep : s1.closed = true ∧ s1.wire = s.wire ∧ s1.n = s.n := by
        cases e with
        | recv tag ot => simp [LS.step, hc] at hs
        | send =>
          simp only [LS.step] at hs
          split at hs
          · cases hs
          · simp [hc] at hs
        | close => simp [LS.step, hc] at hs
        | _ =>
          simp only [LS.step] at hs
          (repeat' split at hs) <;> first | cases hs | skip
          all_goals exact ⟨hc, rfl, rfl⟩
      obtain ⟨h1, h2, h3, h4⟩ := ih s1 keep.1 h
      exact ⟨h1, h2, by rw [h3, keep.2.1], by rw [h4, keep.2.2]⟩

/-- After the disconnect no call of Respond can get stuck: each of its steps is enabled
    without the writer, so every goroutine still replying ends. -/
theorem respond_never_stuck_after_close (s : LS) (hc : s.closed = true) (i : Nat) (it : Inst)
    (hit : s.insts[i]? = some it) (e : Ev) (he : evOf i it.pc = some e) : (s.step e).isSome = true := by
  rcases respond_progress s i it hit e he with h | ⟨_, h, _⟩
  · exact h
  · rw [hc] at h; cases h

/-- a reply finished after the disconnect is dropped, not queued -/
theorem reply_after_close_dropped (s : LS) (hc : s.closed = true) (i : Nat) (it : Inst)
    (hit : s.insts[i]? = some it) (hpc : it.pc = .queue) :
    s.step (.queue i) = some { s with insts := setInst s.insts i { it with pc := .unlink } } := by
  simp [LS.step, hit, hpc, hc]

/-- workers still executing at the disconnect run to their end as before -/
theorem worker_never_stuck_after_close (s : LS) (r : Nat) (hr : r < s.n) (e : Ev)
    (he : wevOf r (s.req r).wpc = some e) (hfl : (s.req r).wpc = .fl0 → (s.req r).oldtag ≠ none) :
    (s.step e).isSome = true :=
  worker_progress s r hr e he hfl

/-! ### non-vacuity: disconnect with one request in the implementation, answered afterwards -/
example : ((LS.init 0).run [.recv 5 none, .check 0, .dispatch 0, .close, .answer 0, .mark 0, .post 0, .queue 0,
    .unlink 0, .next 0, .flushes 0, .implReturn 0, .procEnd 0]).map
    (fun s => (s.wire, s.reqout, (s.req 0).wpc, s.closed)) = some ([], [], .ended, true) := by decide


/-! ### the fids of the connection (model: G9.FidLife) -/
section fids
open G9.FidLife

/-- At every point of every schedule, the file server has been told at most once that a fid
    object is destroyed. -/
theorem fid_destroyed_at_most_once (es : List FEv) (s : FS) (h : FS.init.run es = some s) (o : Nat)
    (ho : o < s.n) : (s.obj o).nd ≤ 1 := by
  have h0 := (inv_run _ _ es inv_init h).objs o ho
  have := h0.once
  split at this <;> omega

/-- Once the disconnect has run to its end — Conn.close has visited its copy of the table, every
    request that was executing has released what it held, every DecRef and destroy() has
    returned — every fid object ever created on the connection, valid at the disconnect, being
    created at the disconnect or created afterwards by a request still running, has been reported
    destroyed exactly once. -/
theorem disconnect_destroys_every_fid (es : List FEv) (s : FS) (h : FS.init.run es = some s)
    (hq : s.quiescent) (o : Nat) (ho : o < s.n) : (s.obj o).nd = 1 := by
  have h0 := (inv_run _ _ es inv_init h).objs o ho
  obtain ⟨hsnap, hall⟩ := hq
  obtain ⟨q1, q2, q3, q4⟩ := hall o ho
  have ht : (s.obj o).tbl = false := by
    cases hc : (s.obj o).tbl with
    | false => rfl
    | true => have := h0.tblSnap hc [] hsnap; cases this
  have hd : (s.obj o).destroyed = true := by
    rcases h0.alive q1 ht with c | c | c
    · omega
    · omega
    · exact c
  have := h0.once
  rw [hd] at this
  simp only [if_true] at this
  omega

/-- The file server is never told that a fid is destroyed while a request holds it: from the
    moment destroy() has marked it (and ever after — every later state is reachable too) no
    request owns a reference to it, and `FidGet` gives none out (`dead_fid_is_not_handed_out`).
    In particular a file the Unix file server opens for a request is never opened on a fid whose
    FidDestroy has already run. -/
theorem never_destroyed_under_a_request (es : List FEv) (s : FS) (h : FS.init.run es = some s) (o : Nat)
    (ho : o < s.n) (hd : (s.obj o).destroyed = true ∨ 1 ≤ (s.obj o).calls ∨ 1 ≤ (s.obj o).nd) :
    (s.obj o).holds = 0 ∧ (s.obj o).tbl = false ∧ (s.obj o).ref = 0 := by
  have h0 := (inv_run _ _ es inv_init h).objs o ho
  have hdes : (s.obj o).destroyed = true := by
    rcases hd with c | c | c
    · exact c
    · have := h0.once; split at this
      · assumption
      · omega
    · have := h0.once; split at this
      · assumption
      · omega
  obtain ⟨a, b⟩ := h0.dead (Or.inr (Or.inr hdes))
  refine ⟨a, b, ?_⟩
  have := h0.refEq
  rw [a, b] at this
  simpa using this

/-- a fid whose last reference is gone is not handed out again: `FidGet` leaves it alone -/
theorem dead_fid_is_not_handed_out (s : FS) (o : Nat) (ho : o < s.n) (hr : (s.obj o).ref ≤ 0) :
    s.step (.get o) = some s := by
  simp [FS.step, ho, hr]

/-- A fid that is still being created (its Tattach, Tauth or Twalk has not finished) is never
    reported destroyed under the implementation's feet, disconnect or not, and stays in the table. -/
theorem no_destroy_while_being_created (es : List FEv) (s : FS) (h : FS.init.run es = some s) (o : Nat)
    (ho : o < s.n) (hp : (s.obj o).pending = true) (hh : 1 ≤ (s.obj o).holds) :
    (s.obj o).nd = 0 ∧ (s.obj o).calls = 0 ∧ (s.obj o).destroyed = false ∧ s.inpool o := by
  have h0 := (inv_run _ _ es inv_init h).objs o ho
  obtain ⟨_, _, c, d⟩ := h0.pendClean hp hh
  have := h0.once
  rw [c] at this
  simp only [Bool.false_eq_true, if_false] at this
  exact ⟨by omega, by omega, c, d⟩

/-- A valid fid (the table holds its reference) has not been reported destroyed, and is in the
    table as long as the connection has not been torn down. -/
theorem valid_fid_alive_while_open (es : List FEv) (s : FS) (h : FS.init.run es = some s) (o : Nat)
    (ho : o < s.n) (ht : (s.obj o).tbl = true) :
    (s.obj o).nd = 0 ∧ (s.obj o).destroyed = false ∧ (s.snap = none → s.inpool o) := by
  have h0 := (inv_run _ _ es inv_init h).objs o ho
  have c : (s.obj o).destroyed = false := by
    cases hd : (s.obj o).destroyed with
    | false => rfl
    | true => have := (h0.dead (Or.inr (Or.inr hd))).2; rw [ht] at this; cases this
  have := h0.once
  rw [c] at this
  simp only [Bool.false_eq_true, if_false] at this
  exact ⟨by omega, c, fun hs => h0.tblOpen ht hs⟩

/-- the reference count is what the owners account for: requests' references plus the table's -/
theorem refcount_is_owners (es : List FEv) (s : FS) (h : FS.init.run es = some s) (o : Nat) (ho : o < s.n) :
    (s.obj o).ref = ((s.obj o).holds : Int) + (if (s.obj o).tbl then 1 else 0) :=
  ((inv_run _ _ es inv_init h).objs o ho).refEq

/-- After the disconnect the tear-down of the fids cannot get stuck: in every state in which
    `conn.done` is closed and something is still in flight, some region is enabled — Conn.close
    can copy the table or visit the next fid, a request can release what it holds, a DecRef or a
    destroy() can take its next step.  (With `disconnect_destroys_every_fid`: the only state in
    which nothing remains to be done is the one in which every fid has been reported destroyed.) -/
theorem fid_teardown_never_stuck (s : FS) (hc : s.closed = true) (hnq : ¬ s.quiescent) :
    ∃ e s', s.step e = some s' := by
  cases hs : s.snap with
  | none =>
    refine ⟨.snapshot ((List.range s.n).filter (fun o => decide (s.inpool o))),
      { s with snap := some ((List.range s.n).filter (fun o => decide (s.inpool o))) }, ?_⟩
    simp only [FS.step]
    rw [if_pos]
    refine ⟨hc, hs, ?_, ?_, ?_⟩
    · exact List.Pairwise.filter _ List.nodup_range
    · intro o ho
      simp only [List.mem_filter, List.mem_range, decide_eq_true_eq] at ho
      exact ho
    · intro o ho hin
      simp only [List.mem_filter, List.mem_range, decide_eq_true_eq]
      exact ⟨ho, hin⟩
  | some l =>
    cases l with
    | cons o rest =>
      refine ⟨.visit, ?_⟩
      simp only [FS.step, hs]
      split
      · exact ⟨_, rfl⟩
      · exact ⟨_, rfl⟩
    | nil =>
      have hex : ∃ o, o < s.n ∧ ¬ ((s.obj o).holds = 0 ∧ (s.obj o).dyA = 0 ∧ (s.obj o).dyB = 0 ∧ (s.obj o).calls = 0) := by
        apply Classical.byContradiction
        intro hne
        apply hnq
        refine ⟨hs, fun o ho => ?_⟩
        apply Classical.byContradiction
        intro hn
        exact hne ⟨o, ho, hn⟩
      obtain ⟨o, ho, hne⟩ := hex
      by_cases h1 : 1 ≤ (s.obj o).holds
      · exact ⟨.dec o, by simp [FS.step, ho, h1]⟩
      by_cases h2 : 1 ≤ (s.obj o).dyA
      · refine ⟨.unpool o, ?_⟩
        simp only [FS.step]
        rw [if_pos ⟨ho, h2⟩]
        split
        · exact ⟨_, rfl⟩
        · exact ⟨_, rfl⟩
      by_cases h3 : 1 ≤ (s.obj o).dyB
      · refine ⟨.dstr o, ?_⟩
        simp only [FS.step]
        rw [if_pos ⟨ho, h3⟩]
        split
        · exact ⟨_, rfl⟩
        · exact ⟨_, rfl⟩
      by_cases h4 : 1 ≤ (s.obj o).calls
      · exact ⟨.call o, by simp [FS.step, ho, h4]⟩
      exfalso
      apply hne
      omega

/-- What lets the acceptor replay a log in which a `retain` that read `conn.done` open appears
    *after* regions that ran later (retain runs under the fid's lock, Conn.close's copy of the
    table under the connection's; the log order between them means nothing): if none of the events
    logged in between concerns the fid — in particular Conn.close has not visited it — the state
    reached by replaying the retain late is the state of the schedule in which it ran first. -/
theorem retain_logged_late_is_a_schedule (s s' : FS) (es : List FEv) (o : Nat)
    (hopen : s.closed = false) (ho : o < s.n) (hp : (s.obj o).pending = true) (hh : 1 ≤ (s.obj o).holds)
    (hind : ∀ (pre : List FEv) (e : FEv) (post : List FEv) (t : FS), es = pre ++ e :: post → s.run pre = some t →
      target t e ≠ some o)
    (hs : s.run es = some s') : s.run (.retain o :: es) = some (retainOpen s' o) := by
  have h1 : s.step (.retain o) = some (retainOpen s o) := by
    simp [FS.step, ho, hp, hh, hopen, retainOpen]
  simp only [FS.run, h1, Option.bind_some]
  exact retainOpen_commutes_run es s s' o ho hind hs

/-! non-vacuity: a fid is created and retained; a request is using it when the client disconnects;
    Conn.close takes the table's reference away, the request's release afterwards is the last one
    and destroys the fid; the end state is quiescent. -/
def exSched : List FEv :=
  [.new 5, .retain 0, .dec 0, .look 5 (some 0), .get 0, .closeDone, .snapshot [0], .visit, .dec 0,
   .dec 0, .unpool 0, .dstr 0, .call 0]

example : (FS.init.run exSched).map (fun s => ((s.obj 0).nd, (s.obj 0).ref, (s.obj 0).holds, s.snap, s.n)) =
    some (1, 0, 0, some [], 1) := by decide

instance (s : FS) : Decidable s.quiescent := by unfold FS.quiescent; infer_instance

example : (FS.init.run exSched).all (fun s => decide s.quiescent) = true := by decide

/-! ### what the code did before three repairs, and why the theorems above could not be proved of it

    F-29: `retain` tested `conn.done` before it took the fid lock (`retainStale`: the increment
    made on the strength of a test that is out of date).  F-30: `DecRef` deleted the table entry
    by number (`unpoolByNumber`), and `FidGet` handed out a fid whose last reference was gone
    (`getDying`).  F-31: `Conn.close` called destroy() on every fid of its copy whether or not a
    request was using it (`visitDestroy`).  With the first two a schedule ends quiescent with a fid
    that was never reported destroyed (the second also makes a valid fid unknown); with the third
    the file server is told that a fid is destroyed while a request holds it.  All three schedules
    were replayed on the real code (witness/) before it was repaired. -/

inductive OldEv where
  | ev (e : FEv)
  | retainStale (o : Nat)
  | getDying (o : Nat)
  | unpoolByNumber (o : Nat)
  | visitDestroy

def stepOld (s : FS) : OldEv → Option FS
  | .ev e => s.step e
  | .retainStale o =>
    let x := s.obj o
    if o < s.n ∧ x.pending = true ∧ 1 ≤ x.holds then
      some (setO s o { x with ref := x.ref + 1, tbl := true, pending := false })
    else none
  | .getDying o =>
    let x := s.obj o
    if o < s.n ∧ x.pending = false then some (setO s o { x with ref := x.ref + 1, holds := x.holds + 1 }) else none
  | .unpoolByNumber o =>
    let x := s.obj o
    if o < s.n ∧ 1 ≤ x.dyA then
      some { (setO s o { x with dyA := x.dyA - 1, dyB := x.dyB + 1 }) with pool := updP s.pool x.num none }
    else none
  | .visitDestroy =>
    match s.snap with
    | some (o :: rest) =>
      let x := s.obj o
      if x.pending then some { s with snap := some rest }
      else some { (setO s o { x with dyB := x.dyB + 1 }) with snap := some rest }
    | _ => none

def runOld (s : FS) : List OldEv → Option FS
  | [] => some s
  | e :: es => (stepOld s e).bind (fun s' => runOld s' es)

/-- F-29: the client disconnects between retain's test and its increment -/
theorem stale_retain_leaks_a_fid :
    (runOld FS.init [.ev (.new 5), .ev .closeDone, .ev (.snapshot [0]), .ev .visit, .retainStale 0,
      .ev (.dec 0)]).map (fun s => (decide s.quiescent, (s.obj 0).nd, (s.obj 0).destroyed)) =
    some (true, 0, false) := by decide

/-- F-30: a request takes a reference on a fid whose Tclunk has dropped the last one; its own
    release then deletes the fid the client has made under the number since (object 1): the
    lookup of number 5 finds nothing although fid 5 is valid, and at the end of the disconnect
    object 1 has never been reported destroyed -/
theorem unpool_by_number_loses_a_valid_fid :
    (runOld FS.init [.ev (.new 5), .ev (.retain 0), .ev (.dec 0),
      .ev (.look 5 (some 0)), .ev (.get 0), .ev (.release 0), .ev (.dec 0), .ev (.dec 0),
      .ev (.look 5 (some 0)), .getDying 0, .ev (.dec 0),
      .unpoolByNumber 0, .ev (.dstr 0), .ev (.call 0),
      .ev (.new 5), .ev (.retain 1), .ev (.dec 1),
      .unpoolByNumber 0, .ev (.dstr 0),
      .ev (.look 5 none),
      .ev .closeDone, .ev (.snapshot []), ]).map
      (fun s => (decide s.quiescent, (s.obj 1).tbl, s.pool 5, (s.obj 1).nd, (s.obj 0).nd)) =
    some (true, true, none, 0, 1) := by decide

/-- F-31: a request is using a fid when the client disconnects: Conn.close tells the file server
    that the fid is destroyed while the request still holds it (and whatever the request makes
    the file server open afterwards is opened on a destroyed fid) -/
theorem close_destroys_under_a_request :
    (runOld FS.init [.ev (.new 5), .ev (.retain 0), .ev (.dec 0), .ev (.look 5 (some 0)), .ev (.get 0),
      .ev .closeDone, .ev (.snapshot [0]), .visitDestroy, .ev (.dstr 0), .ev (.call 0)]).map
      (fun s => ((s.obj 0).nd, (s.obj 0).holds)) = some (1, 1) := by decide

end fids

end G9.C11
