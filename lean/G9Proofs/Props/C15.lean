/-
  C15 — Directory reads return whole entries, each exactly once.
  Property theorems only (model: G9.UfsLogic.window, mirror of the directory branch of
  Ufs.Read; the snapshot of entry ends is a parameter: any directory, any entry sizes).
-/
import G9Proofs.Lemmas.Window
namespace G9.C15
open G9 G9.Ufs

/-- At an offset the protocol allows (0, or the end of an entry) the reply is a run of whole
    entries starting there, at most `cnt` bytes, as many entries as fit, and it is empty
    only at the end of the directory; otherwise the request is refused because the next
    entry alone is longer than `cnt`.  Never a truncated entry, never a trap. -/
theorem window_whole_records (ends : List Nat) (total off cnt : Nat) (h : Snap ends total)
    (hoff : off = 0 ∨ off ∈ ends) :
    (∃ c, window ends total off cnt = .ok c ∧ GoodWin ends total off cnt c) ∨
    (window ends total off cnt = .tooSmall ∧ SmallWin ends total off cnt) :=
  window_spec ends total off cnt h hoff

/-- a count too small for the next entry yields the error, not an empty or cut reply -/
theorem window_too_small (ends : List Nat) (total off cnt : Nat) (h : Snap ends total)
    (hoff : off = 0 ∨ off ∈ ends) (hmore : off < total)
    (hbig : ∀ e ∈ ends, off < e → off + cnt < e) :
    window ends total off cnt = .tooSmall := by
  rcases window_spec ends total off cnt h hoff with ⟨c, hc, hg⟩ | ⟨ht, _⟩
  · exfalso
    obtain ⟨h1, h2, h3, h4, h5⟩ := hg
    rcases h3 with hz | hm
    · have := h5 hz; omega
    · by_cases hc0 : c = 0
      · have := h5 hc0; omega
      · have := hbig _ hm (by omega); omega
  · exact ht

/-- any other offset (inside an entry, past the end, ≥ 2^63 …) is refused; in no case is a
    slice expression out of range -/
theorem dirwindow_no_panic (ends : List Nat) (total off cnt : Nat) (h : Snap ends total) :
    window ends total off cnt ≠ .panic := by
  by_cases hoff : off = 0 ∨ off ∈ ends
  · rcases window_spec ends total off cnt h hoff with ⟨c, hc, _⟩ | ⟨ht, _⟩
    · rw [hc]; intro e; cases e
    · rw [ht]; intro e; cases e
  · have hne : off ≠ 0 := fun e => hoff (Or.inl e)
    have hbad : off ≠ 0 ∧ (off > total ∨ searchInts ends off ≥ ends.length ∨
        ends.getD (searchInts ends off) 0 ≠ off) := by
      refine ⟨hne, ?_⟩
      by_cases h1 : searchInts ends off ≥ ends.length
      · exact Or.inr (Or.inl h1)
      · right; right
        intro he
        exact hoff (Or.inr ((mem_iff_getD ends off).2 ⟨_, by omega, he⟩))
    have : window ends total off cnt = .badOffset := by
      unfold window
      rw [if_pos hbad]
    rw [this]; intro e; cases e

/-- every entry fits the count the client reads with -/
def Fits (ends : List Nat) (cnt : Nat) : Prop :=
  ∀ o, (o = 0 ∨ o ∈ ends) → ∀ e ∈ ends, o < e → ∃ e' ∈ ends, o < e' ∧ e' ≤ o + cnt

/-- Following the offset rule from any allowed offset with a count that fits every entry,
    the replies are whole entries that tile the rest of the directory exactly — every entry
    once, none twice — and the listing ends with an empty reply. -/
theorem readall_from (ends : List Nat) (total cnt : Nat) (h : Snap ends total) (hfit : Fits ends cnt) :
    ∀ (fuel off : Nat), (off = 0 ∨ off ∈ ends) → (ends.filter (off < ·)).length < fuel →
      ∃ cs, readAll ends total cnt fuel off = (cs, true) ∧ off + cs.sum = total ∧ ∀ c ∈ cs, 0 < c ∧ c ≤ cnt := by
  intro fuel
  induction fuel with
  | zero => intro off _ hlt; omega
  | succ fuel ih =>
    intro off hoff hlt
    rcases window_spec ends total off cnt h hoff with ⟨c, hc, hg⟩ | ⟨ht, hsm⟩
    · obtain ⟨h1, h2, h3, h4, h5⟩ := hg
      by_cases hc0 : c = 0
      · subst hc0
        exact ⟨[], by simp [readAll, hc], by simpa using (h5 rfl), by simp⟩
      · have hmem : off + c ∈ ends := by rcases h3 with hz | hm; exact absurd hz hc0; exact hm
        -- fewer entries lie beyond the new offset
        have hfewer : (ends.filter (off + c < ·)).length < (ends.filter (off < ·)).length := by
          have hsub : ∀ e, (decide (off + c < e) = true) → (decide (off < e) = true) := by
            intro e he; simp at he ⊢; omega
          have h1 : (ends.filter (off + c < ·)).length ≤ ((ends.filter (off < ·)).filter (off + c < ·)).length := by
            rw [List.filter_filter]
            apply Nat.le_of_eq; congr 1
            apply List.filter_congr
            intro e _
            by_cases hh : off + c < e <;> simp [hh]; omega
          have h2 : ((ends.filter (off < ·)).filter (off + c < ·)).length < (ends.filter (off < ·)).length := by
            apply List.length_filter_lt_length_iff_exists.mpr
            exact ⟨off + c, List.mem_filter.mpr ⟨hmem, by simp; omega⟩, by simp⟩
          omega
        obtain ⟨cs, hcs, hsum, hall⟩ := ih (off + c) (Or.inr hmem) (by omega)
        refine ⟨c :: cs, ?_, by simp; omega, ?_⟩
        · have : c = (c - 1) + 1 := by omega
          rw [readAll, hc]
          rw [this] at hcs ⊢
          simp only [hcs]
        · intro x hx
          simp at hx
          rcases hx with rfl | hx
          · omega
          · exact hall x hx
    · -- "too small" cannot happen when every entry fits
      exfalso
      obtain ⟨hlt2, hbig⟩ := hsm
      have hne : ends ≠ [] := by
        intro e; have := h.tot; rw [e] at this; simp at this; omega
      have htm : total ∈ ends := by
        rw [← h.total_mem hne]
        exact (mem_iff_getD ends _).2 ⟨ends.length - 1, by
          have : 0 < ends.length := List.length_pos_iff.mpr hne
          omega, rfl⟩
      obtain ⟨e', he', h1, h2⟩ := hfit off hoff total htm hlt2
      have := hbig e' he' h1
      omega

/-- from offset 0: the whole directory, each entry exactly once, then an empty reply;
    starting again at 0 lists it again (the statement does not depend on earlier reads) -/
theorem readall_each_once (ends : List Nat) (total cnt : Nat) (h : Snap ends total) (hfit : Fits ends cnt) :
    ∃ cs, readAll ends total cnt (ends.length + 1) 0 = (cs, true) ∧ cs.sum = total ∧ ∀ c ∈ cs, 0 < c ∧ c ≤ cnt := by
  obtain ⟨cs, h1, h2, h3⟩ := readall_from ends total cnt h hfit (ends.length + 1) 0 (Or.inl rfl)
    (by have := List.length_filter_le (fun x => decide (0 < x)) ends; omega)
  exact ⟨cs, h1, by simpa using h2, h3⟩

/-! ### non-vacuity -/

example : Snap [60, 130, 200] 200 := ⟨by decide, by decide, rfl⟩
example : window [60, 130, 200] 200 60 100 = .ok 70 := by decide
example : window [60, 130, 200] 200 60 69 = .tooSmall := by decide
example : window [60, 130, 200] 200 70 100 = .badOffset := by decide
example : window [60, 130, 200] 200 100000 100 = .badOffset := by decide
example : readAll [60, 130, 200] 200 140 4 0 = ([130, 70], true) := by decide

end G9.C15
