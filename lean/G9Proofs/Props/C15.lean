/-
  C15 — Directory reads return whole entries, each exactly once.
  Property theorems only (model: G9.UfsLogic.window, mirror of the directory branch of
  Ufs.Read; the snapshot of entry ends is a parameter: any directory, any entry sizes).
-/
import G9Proofs.Lemmas.Window
namespace G9.C15
open G9 G9.Ufs

/-- At an offset the protocol allows (0, or the end of an entry) the reply is a run of whole
    entries starting there, at most `cnt` bytes, as many entries as fit, and it is empty
    only at the end of the directory; otherwise the request is refused because the next
    entry alone is longer than `cnt`.  Never a truncated entry, never a trap. -/
theorem window_whole_records (ends : List Nat) (total off cnt : Nat) (h : Snap ends total)
    (hoff : off = 0 ∨ off ∈ ends) :
    (∃ c, window ends total off cnt = .ok c ∧ GoodWin ends total off cnt c) ∨
    (window ends total off cnt = .tooSmall ∧ SmallWin ends total off cnt) :=
  window_spec ends total off cnt h hoff

/-- a count too small for the next entry yields the error, not an empty or cut reply -/
theorem window_too_small (ends : List Nat) (total off cnt : Nat) (h : Snap ends total)
    (hoff : off = 0 ∨ off ∈ ends) (hmore : off < total)
    (hbig : ∀ e ∈ ends, off < e → off + cnt < e) :
    window ends total off cnt = .tooSmall := by
  rcases window_spec ends total off cnt h hoff with ⟨c, hc, hg⟩ | ⟨ht, _⟩
  · exfalso
    obtain ⟨h1, h2, h3, h4, h5⟩ := hg
    rcases h3 with hz | hm
    · have := h5 hz; omega
    · by_cases hc0 : c = 0
      · have := h5 hc0; omega
      · have := hbig _ hm (by omega); omega
  · exact ht

/-- any other offset (inside an entry, past the end, ≥ 2^63 …) is refused; in no case is a
    slice expression out of range -/
theorem dirwindow_no_panic (ends : List Nat) (total off cnt : Nat) (h : Snap ends total) :
    window ends total off cnt ≠ .panic := by
  by_cases hoff : off = 0 ∨ off ∈ ends
  · rcases window_spec ends total off cnt h hoff with ⟨c, hc, _⟩ | ⟨ht, _⟩
    · rw [hc]; intro e; cases e
    · rw [ht]; intro e; cases e
  · have hne : off ≠ 0 := fun e => hoff (Or.inl e)
    have hbad : off ≠ 0 ∧ (off > total ∨ searchInts ends off ≥ ends.length ∨
        ends.getD (searchInts ends off) 0 ≠ off) := by
      refine ⟨hne, ?_⟩
      by_cases h1 : searchInts ends off ≥ ends.length
      · exact Or.inr (Or.inl h1)
      · right; right
        intro he
        exact hoff (Or.inr ((mem_iff_getD ends off).2 ⟨_, by omega, he⟩))
    have : window ends total off cnt = .badOffset := by
      unfold window
      rw [if_pos hbad]
    rw [this]; intro e; cases e

/-- every entry fits the count the client reads with -/
def Fits (ends : List Nat) (cnt : Nat) : Prop :=
  ∀ o, (o = 0 ∨ o ∈ ends) → ∀ e ∈ ends, o < e → ∃ e' ∈ ends, o < e' ∧ e' ≤ o + cnt

/-- Following the offset rule from any allowed offset with a count that fits every entry,
    the replies are whole entries that tile the rest of the directory exactly — every entry
    once, none twice — and the listing ends with an empty reply. -/
theorem readall_from (ends : List Nat) (total cnt : Nat) (h : Snap ends total) (hfit : Fits ends cnt) :
    ∀ (fuel off : Nat), (off = 0 ∨ off ∈ ends) → (ends.filter (off < ·)).length < fuel →
      ∃ cs, readAll ends total cnt fuel off = (cs, true) ∧ off + cs.sum = total ∧ ∀ c ∈ cs, 0 < c ∧ c ≤ cnt := by
  intro fuel
  induction fuel with
  | zero => intro off _ hlt; omega
  | succ fuel ih =>
    intro off hoff hlt
    rcases window_spec ends total off cnt h hoff with ⟨c, hc, hg⟩ | ⟨ht, hsm⟩
    · obtain ⟨h1, h2, h3, h4, h5⟩ := hg
      by_cases hc0 : c = 0
      · subst hc0
        exact ⟨[], by simp [readAll, hc], by simpa using (h5 rfl), by simp⟩
      · have hmem : off + c ∈ ends := by rcases h3 with hz | hm; exact absurd hz hc0; exact hm
        -- fewer entries lie beyond the new offset
        have hfewer : (ends.filter (off + c < ·)).length < (ends.filter (off < ·)).length := by
          have hsub : ∀ e, (decide (off + c < e) = true) → (decide (off < e) = true) := by
            intro e he; simp at he ⊢; omega
          have h1 : (ends.filter (off + c < ·)).length ≤ ((ends.filter (off < ·)).filter (off + c < ·)).length := by
            rw [List.filter_filter]
            apply Nat.le_of_eq; congr 1
            apply List.filter_congr
            intro e _
            by_cases hh : off + c < e <;> simp [hh]; omega
          have h2 : ((ends.filter (off < ·)).filter (off + c < ·)).length < (ends.filter (off < ·)).length := by
            apply List.length_filter_lt_length_iff_exists.mpr
            exact ⟨off + c, List.mem_filter.mpr ⟨hmem, by simp; omega⟩, by simp⟩
          omega
        obtain ⟨cs, hcs, hsum, hall⟩ := ih (off + c) (Or.inr hmem) (by omega)
        refine ⟨c :: cs, ?_, by simp; omega, ?_⟩
        · have : c = (c - 1) + 1 := by omega
          rw [readAll, hc]
          rw [this] at hcs ⊢
          simp only [hcs]
        · intro x hx
          simp at hx
          rcases hx with rfl | hx
          · omega
          · exact hall x hx
    · -- "too small" cannot happen when every entry fits
      exfalso
      obtain ⟨hlt2, hbig⟩ := hsm
      have hne : ends ≠ [] := by
        intro e; have := h.tot; rw [e] at this; simp at this; omega
      have htm : total ∈ ends := by
        rw [← h.total_mem hne]
        exact (mem_iff_getD ends _).2 ⟨ends.length - 1, by
          have : 0 < ends.length := List.length_pos_iff.mpr hne
          omega, rfl⟩
      obtain ⟨e', he', h1, h2⟩ := hfit off hoff total htm hlt2
      have := hbig e' he' h1
      omega

/-- from offset 0: the whole directory, each entry exactly once, then an empty reply;
    starting again at 0 lists it again (the statement does not depend on earlier reads) -/
theorem readall_each_once (ends : List Nat) (total cnt : Nat) (h : Snap ends total) (hfit : Fits ends cnt) :
    ∃ cs, readAll ends total cnt (ends.length + 1) 0 = (cs, true) ∧ cs.sum = total ∧ ∀ c ∈ cs, 0 < c ∧ c ≤ cnt := by
  obtain ⟨cs, h1, h2, h3⟩ := readall_from ends total cnt h hfit (ends.length + 1) 0 (Or.inl rfl)
    (by have := List.length_filter_le (fun x => decide (0 < x)) ends; omega)
  exact ⟨cs, h1, by simpa using h2, h3⟩

/-! ### the client's `File.Readdir(0)` -/

private theorem sorted_split (b : Nat) : ∀ (l : List Nat), l.Pairwise (· < ·) →
    l.filter (· ≤ b) ++ l.filter (b < ·) = l
  | [], _ => rfl
  | x :: l, hs => by
    have hs' := (List.pairwise_cons.1 hs)
    by_cases hx : x ≤ b
    · have hnb : ¬ b < x := by omega
      simp only [List.filter_cons, hx, hnb, decide_true, decide_false, if_true, List.cons_append]
      simp only [Bool.false_eq_true, if_false]
      rw [sorted_split b l hs'.2]
    · have h1 : l.filter (· ≤ b) = [] := by
        apply List.filter_eq_nil_iff.2
        intro y hy; have := hs'.1 y hy; simp; omega
      have h2 : l.filter (b < ·) = l := by
        apply List.filter_eq_self.2
        intro y hy; have := hs'.1 y hy; simp; omega
      have hbx : b < x := by omega
      simp only [List.filter_cons, hx, hbx, decide_true, decide_false, if_true]
      simp only [Bool.false_eq_true, if_false, h1, h2, List.nil_append]

/-- the records of a reply and what lies beyond it are what lies beyond its start -/
private theorem records_then_rest (ends : List Nat) (hs : ends.Pairwise (· < ·)) (off c : Nat) :
    recordsIn ends off c ++ ends.filter (off + c < ·) = ends.filter (off < ·) := by
  have hsp := sorted_split (off + c) (ends.filter (off < ·)) (hs.sublist List.filter_sublist)
  rw [List.filter_filter, List.filter_filter] at hsp
  rw [← hsp]
  unfold recordsIn
  congr 1
  · apply List.filter_congr; intro e _; by_cases h1 : off < e <;> by_cases h2 : e ≤ off + c <;> simp [h1, h2]
  · apply List.filter_congr; intro e _; by_cases h1 : off + c < e <;> simp [h1]; omega

private theorem last_is_max (m : Nat) : ∀ (l : List Nat) (d : Nat), l.Pairwise (· < ·) → m ∈ l →
    (∀ e ∈ l, e ≤ m) → l.getLastD d = m
  | [], _, _, hm, _ => by simp at hm
  | x :: l, d, hs, hm, hle => by
    have hs' := List.pairwise_cons.1 hs
    rw [List.getLastD_cons]
    by_cases hml : m ∈ l
    · exact last_is_max m l x hs'.2 hml (fun e he => hle e (List.mem_cons_of_mem _ he))
    · have hmx : m = x := by simpa [hml] using hm
      have : l = [] := by
        cases l with
        | nil => rfl
        | cons y l' =>
          have h1 := hs'.1 y (by simp)
          have h2 := hle y (by simp)
          omega
      subst this; simp [hmx]

private theorem fewer_beyond (ends : List Nat) (off c : Nat) (hc : 0 < c) (hmem : off + c ∈ ends) :
    (ends.filter (off + c < ·)).length < (ends.filter (off < ·)).length := by
  have h1 : (ends.filter (off + c < ·)).length ≤ ((ends.filter (off < ·)).filter (off + c < ·)).length := by
    rw [List.filter_filter]
    apply Nat.le_of_eq; congr 1
    apply List.filter_congr
    intro e _
    by_cases hh : off + c < e <;> simp [hh]; omega
  have h2 : ((ends.filter (off < ·)).filter (off + c < ·)).length < (ends.filter (off < ·)).length := by
    apply List.length_filter_lt_length_iff_exists.mpr
    exact ⟨off + c, List.mem_filter.mpr ⟨hmem, by simp; omega⟩, by simp⟩
  omega

/-- `Readdir(0)` started at an offset the protocol allows returns, after what it already had,
    every entry beyond that offset — each once, in listing order — and leaves the file offset
    at the end of the directory. -/
theorem client_readdir_from (ends : List Nat) (total cnt : Nat) (h : Snap ends total) (hfit : Fits ends cnt) :
    ∀ (fuel off : Nat) (acc : List Nat), (off = 0 ∨ off ∈ ends) → (ends.filter (off < ·)).length < fuel →
      readdir0 ends total cnt fuel off off acc = some (acc ++ ends.filter (off < ·), total) := by
  intro fuel
  induction fuel with
  | zero => intro off _ _ hlt; omega
  | succ fuel ih =>
    intro off acc hoff hlt
    rcases window_spec ends total off cnt h hoff with ⟨c, hc, hg⟩ | ⟨ht, hsm⟩
    · obtain ⟨h1, h2, h3, h4, h5⟩ := hg
      by_cases hc0 : c = 0
      · subst hc0
        have hot := h5 rfl
        have hnone : ends.filter (off < ·) = [] := by
          apply List.filter_eq_nil_iff.2
          intro e he
          obtain ⟨j, hj, hje⟩ := (mem_iff_getD ends e).1 he
          have := h.le_total j hj
          simp; omega
        rw [readdir0, hc, hnone]; simp [hot]
      · have hmem : off + c ∈ ends := by rcases h3 with hz | hm; exact absurd hz hc0; exact hm
        have hlast : (recordsIn ends off c).getLastD off = off + c := by
          apply last_is_max
          · exact h.sorted.sublist List.filter_sublist
          · unfold recordsIn; exact List.mem_filter.mpr ⟨hmem, by simp; omega⟩
          · intro e he; unfold recordsIn at he; have := (List.mem_filter.1 he).2; simp at this; omega
        have hrec := ih (off + c) (acc ++ recordsIn ends off c) (Or.inr hmem)
          (by have := fewer_beyond ends off c (by omega) hmem; omega)
        have : c = (c - 1) + 1 := by omega
        rw [readdir0, hc]
        rw [this] at hrec hlast ⊢
        simp only [hlast, hrec, List.append_assoc]
        rw [records_then_rest ends h.sorted]
    · exfalso
      obtain ⟨hlt2, hbig⟩ := hsm
      have hne : ends ≠ [] := by
        intro e; have := h.tot; rw [e] at this; simp at this; omega
      have htm : total ∈ ends := by
        rw [← h.total_mem hne]
        exact (mem_iff_getD ends _).2 ⟨ends.length - 1, by
          have : 0 < ends.length := List.length_pos_iff.mpr hne
          omega, rfl⟩
      obtain ⟨e', he', h1, h2⟩ := hfit off hoff total htm hlt2
      have := hbig e' he' h1
      omega

/-- `Readdir(0)` on a freshly opened directory returns the complete listing — every entry
    exactly once, in order, for any directory size — and a second call returns nothing more. -/
theorem client_readdir_complete (ends : List Nat) (total cnt : Nat) (h : Snap ends total) (hfit : Fits ends cnt) :
    readdir0 ends total cnt (ends.length + 1) 0 0 [] = some (ends, total) ∧ ends.Nodup ∧
    ((total = 0 ∨ total ∈ ends) → readdir0 ends total cnt (ends.length + 1) total total [] = some ([], total)) := by
  have hall : ends.filter (0 < ·) = ends := List.filter_eq_self.2 (fun e he => by simpa using h.pos e he)
  refine ⟨?_, ?_, ?_⟩
  · have := client_readdir_from ends total cnt h hfit (ends.length + 1) 0 [] (Or.inl rfl) (by rw [hall]; omega)
    simpa [hall] using this
  · exact h.sorted.imp (fun hab => Nat.ne_of_lt hab)
  · intro ht
    have hnone : ends.filter (total < ·) = [] := by
      apply List.filter_eq_nil_iff.2
      intro e he
      obtain ⟨j, hj, hje⟩ := (mem_iff_getD ends e).1 he
      have := h.le_total j hj
      simp; omega
    have := client_readdir_from ends total cnt h hfit (ends.length + 1) total [] ht (by rw [hnone]; simp)
    simpa [hnone] using this

/-! ### non-vacuity -/

example : Snap [60, 130, 200] 200 := ⟨by decide, by decide, rfl⟩
example : window [60, 130, 200] 200 60 100 = .ok 70 := by decide
example : window [60, 130, 200] 200 60 69 = .tooSmall := by decide
example : window [60, 130, 200] 200 70 100 = .badOffset := by decide
example : window [60, 130, 200] 200 100000 100 = .badOffset := by decide
example : readAll [60, 130, 200] 200 140 4 0 = ([130, 70], true) := by decide
example : readdir0 [60, 130, 200] 200 140 4 0 0 [] = some ([60, 130, 200], 200) := by decide
example : Fits [60, 130, 200] 140 := by
  intro o ho e he hlt
  simp at ho he
  rcases ho with rfl | rfl | rfl | rfl <;> rcases he with rfl | rfl | rfl <;> simp_all <;> omega

end G9.C15
