import G9Proofs.Lemmas.Logger
namespace G9.Logger

/-- matching entries of a stretch of the ring, in order -/
def ms (fo : Option Nat) (ft : Nat) (l : List (Option Entry)) : List Entry :=
  (l.filterMap id).filter (sel fo ft)

theorem ms_nil (fo ft) : ms fo ft [] = [] := rfl
theorem ms_append (fo ft) (a b : List (Option Entry)) : ms fo ft (a ++ b) = ms fo ft a ++ ms fo ft b := by
  simp [ms, List.filterMap_append]
theorem ms_cons_none (fo ft) (l) : ms fo ft (none :: l) = ms fo ft l := by simp [ms]
theorem ms_cons_some (fo ft) (e : Entry) (l) :
    ms fo ft (some e :: l) = if sel fo ft e then e :: ms fo ft l else ms fo ft l := by
  simp [ms, List.filter_cons]

theorem scan_zero (r : Ring) (fo ft fuel i) : r.scan fo ft fuel 0 i = some [] := by
  cases fuel <;> rfl

theorem scan_at (r : Ring) (fo ft fuel need i) (x : Option Entry) (hi : i < r.items.length)
    (hx : r.items[i]? = some x) :
    r.scan fo ft (fuel + 1) (need + 1) i =
      match x with
      | some e =>
        if sel fo ft e then (r.scan fo ft fuel need (i + 1)).map (e :: ·)
        else r.scan fo ft fuel (need + 1) (i + 1)
      | none => r.scan fo ft fuel (need + 1) (i + 1) := by
  rw [Ring.scan]
  simp only [if_neg (show ¬ i ≥ r.items.length by omega), hx]
  cases x <;> rfl

theorem scan_wrap (r : Ring) (fo ft fuel need) :
    r.scan fo ft fuel need r.items.length = r.scan fo ft fuel need 0 := by
  cases need with
  | zero => rw [scan_zero, scan_zero]
  | succ need =>
    cases fuel with
    | zero => rfl
    | succ fuel =>
      rw [Ring.scan, Ring.scan]
      simp

theorem getElem_mid {α} (pre suf : List α) (x : α) : (pre ++ x :: suf)[pre.length]? = some x := by
  simp

/-- scanning a stretch that holds enough matches returns the first `need` of them -/
theorem scan_suffix (r : Ring) (fo ft) (suf : List (Option Entry)) :
    ∀ (pre : List (Option Entry)) (need fuel : Nat), r.items = pre ++ suf →
      need ≤ (ms fo ft suf).length → suf.length ≤ fuel →
      r.scan fo ft fuel need pre.length = some ((ms fo ft suf).take need) := by
  induction suf with
  | nil =>
    intro pre need fuel _ hn _
    simp [ms_nil] at hn
    subst hn
    rw [scan_zero]; rfl
  | cons x suf ih =>
    intro pre need fuel h hn hf
    cases need with
    | zero => rw [scan_zero]; rfl
    | succ need =>
      cases fuel with
      | zero => simp at hf
      | succ fuel =>
        have hi : pre.length < r.items.length := by rw [h]; simp
        have hx : r.items[pre.length]? = some x := by rw [h]; exact getElem_mid pre suf x
        have h' : r.items = (pre ++ [x]) ++ suf := by rw [h]; simp
        have hlen : (pre ++ [x]).length = pre.length + 1 := by simp
        rw [scan_at r fo ft fuel need pre.length x hi hx]
        cases x with
        | none =>
          rw [ms_cons_none] at hn ⊢
          have := ih (pre ++ [none]) (need + 1) fuel h' hn (by simpa using hf)
          rw [hlen] at this
          exact this
        | some e =>
          rw [ms_cons_some] at hn ⊢
          by_cases hs : sel fo ft e = true
          · simp only [hs, if_true] at hn ⊢
            have := ih (pre ++ [some e]) need fuel h' (by simpa using hn) (by simpa using hf)
            rw [hlen] at this
            simp [this]
          · simp only [hs] at hn ⊢
            have := ih (pre ++ [some e]) (need + 1) fuel h' hn (by simpa using hf)
            rw [hlen] at this
            simpa using this

/-- scanning a stretch with too few matches collects all of them and carries on at its end -/
theorem scan_exhaust (r : Ring) (fo ft) (suf : List (Option Entry)) :
    ∀ (pre : List (Option Entry)) (need fuel : Nat), r.items = pre ++ suf →
      (ms fo ft suf).length < need → suf.length ≤ fuel →
      r.scan fo ft fuel need pre.length =
        (r.scan fo ft (fuel - suf.length) (need - (ms fo ft suf).length) r.items.length).map
          (ms fo ft suf ++ ·) := by
  induction suf with
  | nil =>
    intro pre need fuel h _ _
    have : pre.length = r.items.length := by rw [h]; simp
    simp [ms_nil, this]
  | cons x suf ih =>
    intro pre need fuel h hn hf
    cases need with
    | zero => simp at hn
    | succ need =>
      cases fuel with
      | zero => simp at hf
      | succ fuel =>
        have hi : pre.length < r.items.length := by rw [h]; simp
        have hx : r.items[pre.length]? = some x := by rw [h]; exact getElem_mid pre suf x
        have h' : r.items = (pre ++ [x]) ++ suf := by rw [h]; simp
        have hlen : (pre ++ [x]).length = pre.length + 1 := by simp
        have hfl : fuel + 1 - (x :: suf).length = fuel - suf.length := by simp
        rw [scan_at r fo ft fuel need pre.length x hi hx, hfl]
        cases x with
        | none =>
          rw [ms_cons_none] at hn ⊢
          have := ih (pre ++ [none]) (need + 1) fuel h' hn (by simpa using hf)
          rw [hlen] at this
          exact this
        | some e =>
          rw [ms_cons_some] at hn ⊢
          by_cases hs : sel fo ft e = true
          · simp only [hs, if_true] at hn ⊢
            have := ih (pre ++ [some e]) need fuel h' (by simpa using hn) (by simpa using hf)
            rw [hlen] at this
            rw [this]
            have : need + 1 - (e :: ms fo ft suf).length = need - (ms fo ft suf).length := by simp
            rw [this]
            cases r.scan fo ft (fuel - suf.length) (need - (ms fo ft suf).length) r.items.length <;> simp
          · simp only [hs] at hn ⊢
            have := ih (pre ++ [some e]) (need + 1) fuel h' hn (by simpa using hf)
            rw [hlen] at this
            simpa using this

theorem count_eq_ms (r : Ring) (fo ft) : r.count fo ft = (ms fo ft r.items).length := by
  simp [Ring.count, ms, List.countP_eq_length_filter]

/-- The second pass of `Filter` terminates and returns the matching entries in the
    circular order that starts at `idx`. -/
theorem filter_eq (r : Ring) (fo ft) (hidx : r.idx ≤ r.items.length) :
    r.filter fo ft = some (r.contents.filter (sel fo ft)) := by
  unfold Ring.filter
  rw [count_eq_ms]
  have hsplit : r.items = r.items.take r.idx ++ r.items.drop r.idx := (List.take_append_drop _ _).symm
  have hpre : (r.items.take r.idx).length = r.idx := by simp; omega
  have hms : ms fo ft r.items = ms fo ft (r.items.take r.idx) ++ ms fo ft (r.items.drop r.idx) := by
    rw [← ms_append, List.take_append_drop]
  by_cases hw : r.idx ≥ r.items.length
  · -- idx = len: one linear scan from 0 after the wrap
    have hidx' : r.idx = r.items.length := by omega
    rw [hidx', scan_wrap]
    have := scan_suffix r fo ft r.items [] (ms fo ft r.items).length (2 * r.items.length + 1)
      (by simp) (Nat.le_refl _) (by omega)
    simp only [List.length_nil] at this
    rw [this, List.take_length, contents_wrap r hw]
    rfl
  · rw [contents_nowrap r (by omega)]
    have hcont : ((r.items.drop r.idx ++ r.items.take r.idx).filterMap id).filter (sel fo ft)
        = ms fo ft (r.items.drop r.idx) ++ ms fo ft (r.items.take r.idx) := by
      rw [← ms_append]; rfl
    rw [hcont]
    by_cases hz : (ms fo ft (r.items.take r.idx)).length = 0
    · -- nothing matching before idx: the stretch after idx holds everything
      have hnil : ms fo ft (r.items.take r.idx) = [] := List.eq_nil_of_length_eq_zero hz
      have := scan_suffix r fo ft (r.items.drop r.idx) (r.items.take r.idx)
        (ms fo ft r.items).length (2 * r.items.length + 1) hsplit
        (by rw [hms, hnil]; simp) (by simp; omega)
      rw [hpre] at this
      rw [this, hms, hnil]
      simp
    · have h1 := scan_exhaust r fo ft (r.items.drop r.idx) (r.items.take r.idx)
        (ms fo ft r.items).length (2 * r.items.length + 1) hsplit
        (by rw [hms]; simp; omega) (by simp; omega)
      rw [hpre] at h1
      rw [h1, scan_wrap]
      have hneed : (ms fo ft r.items).length - (ms fo ft (r.items.drop r.idx)).length
          = (ms fo ft (r.items.take r.idx)).length := by rw [hms]; simp
      rw [hneed]
      have h2 := scan_suffix r fo ft r.items [] (ms fo ft (r.items.take r.idx)).length
        (2 * r.items.length + 1 - (r.items.drop r.idx).length) (by simp)
        (by rw [hms]; simp) (by simp; omega)
      simp only [List.length_nil] at h2
      rw [h2]
      have : (ms fo ft r.items).take (ms fo ft (r.items.take r.idx)).length
          = ms fo ft (r.items.take r.idx) := by
        rw [hms]; exact List.take_left' rfl
      rw [this]
      rfl

end G9.Logger
