import G9Proofs.Lemmas.LifeStep
import G9Proofs.Lemmas.LifeRun
namespace G9.Life

/-- the event a call of Respond performs next -/
def evOf (i : Nat) : IPC → Option Ev
  | .mark => some (.mark i)
  | .post => some (.post i)
  | .queue => some (.queue i)
  | .unlink => some (.unlink i)
  | .next => some (.next i)
  | .flushes => some (.flushes i)
  | .done => none

/-- A call of Respond never waits for another request: its next step is enabled in every
    state, except that a full reply queue makes it wait for the writer — which is then enabled. -/
theorem respond_progress (s : LS) (i : Nat) (it : Inst) (hit : s.insts[i]? = some it) (e : Ev)
    (he : evOf i it.pc = some e) :
    (s.step e).isSome = true ∨
    (it.pc = .queue ∧ s.closed = false ∧ s.cap < s.reqout.length ∧ (s.step .send).isSome = true) := by
  cases hpc : it.pc <;> rw [hpc] at he <;> simp only [evOf, Option.some.injEq] at he
  · subst he; left
    simp only [LS.step, hit, hpc, if_true]
    split <;> rfl
  · subst he; left
    simp [LS.step, hit, hpc]
  · subst he
    by_cases hq : (it.oldFl || s.closed) = true
    · left; simp only [LS.step, hit, hpc, if_true, hq]; rfl
    · by_cases hl : s.reqout.length ≤ s.cap
      · left; simp only [LS.step, hit, hpc, if_true, hq, hl]; rfl
      · right
        have hc : s.closed = false := by
          cases h : s.closed with
          | false => rfl
          | true => simp [h] at hq
        refine ⟨rfl, hc, by omega, ?_⟩
        cases hro : s.reqout with
        | nil => rw [hro] at hl; simp at hl
        | cons r rest => simp [LS.step, hro, hc]
  · subst he; left
    simp only [LS.step, hit, hpc, if_true]
    split
    · rfl
    · split
      · rfl
      · split
        · rfl
        · split <;> rfl
  · subst he; left
    simp only [LS.step, hit, hpc, if_true]
    split <;> rfl
  · subst he; left
    simp only [LS.step, hit, hpc, if_true]
    split
    · rfl
    · split <;> rfl
  · cases he

/-- the event a worker goroutine performs next, when that does not depend on anybody else -/
def wevOf (r : Nat) : WPC → Option Ev
  | .start => some (.check r)
  | .checked false => some (.dispatch r)
  | .checked true => some (.selfRespond r)
  | .fl0 => some (.flushLookup r)
  | .fl1 (some _) => some (.flushMark r)
  | .fl1 none => some (.flushAct r)
  | .fl2 _ _ => some (.flushAct r)
  | .tail => some (.procEnd r)
  | .queued => none      -- waits for its predecessor in the tag group
  | .inImpl => none      -- inside the implementation
  | .ended => none

/-- A worker outside the implementation and not queued behind its own tag group can always
    take its next step, whatever every other request is doing. -/
theorem worker_progress (s : LS) (r : Nat) (hr : r < s.n) (e : Ev) (he : wevOf r (s.req r).wpc = some e)
    (hfl : (s.req r).wpc = .fl0 → (s.req r).oldtag ≠ none) : (s.step e).isSome = true := by
  cases hw : (s.req r).wpc with
  | queued => rw [hw] at he; cases he
  | inImpl => rw [hw] at he; cases he
  | ended => rw [hw] at he; cases he
  | start => rw [hw] at he; cases he; simp [LS.step, hr, hw]
  | checked b =>
    rw [hw] at he
    cases b with
    | false => cases he; simp only [LS.step, hr, hw, and_self, if_true]; split <;> rfl
    | true => cases he; simp [LS.step, hr, hw]
  | fl0 =>
    rw [hw] at he; cases he
    have := hfl hw
    simp only [LS.step, hr, hw, and_self, if_true]
    split
    · rename_i h1; exact absurd h1 this
    · split <;> rfl
  | fl1 t =>
    rw [hw] at he
    cases t with
    | none => cases he; simp [LS.step, hr, hw]
    | some t => cases he; simp [LS.step, hr, hw]
  | fl2 t c =>
    rw [hw] at he; cases he
    cases c <;> simp [LS.step, hr, hw]
  | tail => rw [hw] at he; cases he; simp [LS.step, hr, hw]

end G9.Life

namespace G9.Life

theorem setInst_get (l : List Inst) (i : Nat) (it v : Inst) (h : l[i]? = some it) : (setInst l i v)[i]? = some v := by
  unfold setInst
  have hl : i < l.length := (List.getElem?_eq_some_iff.mp h).1
  simp [hl]

/-- The path of one reply needs nobody else: from a call of Respond that has just begun on a
    request not yet answered and not cancelled, on a live connection with the writer idle, four
    steps of that call and of the writer put exactly that reply on the wire. -/
theorem respond_reaches_wire (s : LS) (i : Nat) (it : Inst) (hit : s.insts[i]? = some it) (hpc : it.pc = .mark)
    (hrs : (s.req it.rid).rs = false) (hfl : (s.req it.rid).fl = false) (hc : s.closed = false)
    (hq : s.reqout = []) :
    ∃ s', s.run [.mark i, .post i, .queue i, .send] = some s' ∧ s'.wire = s.wire ++ [it.rid] ∧
      (s'.req it.rid).rs = true := by
  -- mark
  let it1 : Inst := { it with pc := .post, oldFl := (s.req it.rid).fl }
  let s1 : LS := { s with req := upd s.req it.rid { s.req it.rid with rs := true, wk := false },
                          insts := setInst s.insts i it1 }
  have h1 : s.step (.mark i) = some s1 := by
    simp only [LS.step, hit, hpc, if_true, hrs, Bool.false_eq_true, if_false]; rfl
  have hit1 : s1.insts[i]? = some it1 := setInst_get _ _ _ _ hit
  -- post
  let it2 : Inst := { it1 with pc := .queue }
  let s2 : LS := { s1 with insts := setInst s1.insts i it2 }
  have h2 : s1.step (.post i) = some s2 := by
    simp only [LS.step, hit1]; rfl
  have hit2 : s2.insts[i]? = some it2 := setInst_get _ _ _ _ hit1
  -- queue
  let it3 : Inst := { it2 with pc := .unlink }
  let s3 : LS := { s2 with reqout := s2.reqout ++ [it2.rid], insts := setInst s2.insts i it3 }
  have h3 : s2.step (.queue i) = some s3 := by
    have e1 : it2.oldFl = false := hfl
    have e2 : s2.closed = false := hc
    have e3 : s2.reqout.length ≤ s2.cap := by show s.reqout.length ≤ s.cap; rw [hq]; simp
    simp only [LS.step, hit2]
    have : it2.pc = .queue := rfl
    simp only [this, if_true, e1, e2, Bool.or_self, Bool.false_eq_true, if_false, e3, s3, it3]
  -- send
  have hro : s3.reqout = [it.rid] := by show s.reqout ++ [it.rid] = [it.rid]; rw [hq]; rfl
  let s4 : LS := { s3 with reqout := [], wire := s3.wire ++ [it.rid] }
  have h4 : s3.step .send = some s4 := by
    have e2 : s3.closed = false := hc
    simp only [LS.step, hro, e2, Bool.false_eq_true, if_false, s4]
  refine ⟨s4, ?_, rfl, ?_⟩
  · simp only [LS.run, h1, h2, h3, h4, Option.bind_some]
  · show (upd s.req it.rid _ it.rid).rs = true
    simp

end G9.Life
