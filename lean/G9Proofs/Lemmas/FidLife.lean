/-
  Invariants of M6 (G9.FidLife): reference accounting, destroy-once, and "every object is on its
  way to being destroyed", preserved by every event.
-/
import G9.FidLife
namespace G9.FidLife

/-- what is known of one object, given whether the table has it (`ip`) and where Conn.close is -/
structure OIx (x : FObj) (ip : Prop) (snap : Option (List Nat)) (o : Nat) : Prop where
  refEq : x.ref = (x.holds : Int) + (if x.tbl then 1 else 0)
  once : x.nd + x.calls = (if x.destroyed then 1 else 0)
  pendTbl : x.pending = true → x.tbl = false
  pendClean : x.pending = true → 1 ≤ x.holds → x.dyA = 0 ∧ x.dyB = 0 ∧ x.destroyed = false ∧ ip
  dead : (1 ≤ x.dyA ∨ 1 ≤ x.dyB ∨ x.destroyed = true) → x.holds = 0 ∧ x.tbl = false
  one : x.dyA + x.dyB + (if x.destroyed then 1 else 0) ≤ 1
  alive : x.holds = 0 → x.tbl = false → (1 ≤ x.dyA ∨ 1 ≤ x.dyB ∨ x.destroyed = true)
  tblOpen : x.tbl = true → snap = none → ip
  tblSnap : x.tbl = true → ∀ l, snap = some l → o ∈ l

def OI (s : FS) (o : Nat) : Prop := OIx (s.obj o) (s.inpool o) s.snap o

structure Inv (s : FS) : Prop where
  snapClosed : s.snap ≠ none → s.closed = true
  poolOk : ∀ k o, s.pool k = some o → o < s.n ∧ (s.obj o).num = k
  objs : ∀ o, o < s.n → OI s o

theorem OIx.congr_ip {x : FObj} {ip ip' : Prop} {snap : Option (List Nat)} {o : Nat}
    (hiff : ip ↔ ip') (h : OIx x ip snap o) : OIx x ip' snap o :=
  ⟨h.refEq, h.once, h.pendTbl,
   fun a b => ⟨(h.pendClean a b).1, (h.pendClean a b).2.1, (h.pendClean a b).2.2.1, hiff.mp (h.pendClean a b).2.2.2⟩,
   h.dead, h.one, h.alive, fun a b => hiff.mp (h.tblOpen a b), h.tblSnap⟩

theorem inv_init : Inv FS.init :=
  ⟨fun h => absurd rfl h, fun _ _ h => (by cases h), fun o h => (by cases h)⟩

/-- an event on object `o` that leaves the table and the snapshot alone: only `o` changes -/
theorem inv_setO (s : FS) (o : Nat) (v : FObj) (hi : Inv s) (hnum : v.num = (s.obj o).num)
    (hv : o < s.n → OIx v (s.inpool o) s.snap o) : Inv (setO s o v) := by
  refine ⟨hi.snapClosed, ?_, ?_⟩
  · intro k o' hp
    obtain ⟨h1, h2⟩ := hi.poolOk k o' hp
    refine ⟨h1, ?_⟩
    show (updO s.obj o v o').num = k
    by_cases he : o' = o
    · subst he; rw [updO_same, hnum]; exact h2
    · rw [updO_other _ _ _ _ he]; exact h2
  · intro o' ho'
    show OIx (updO s.obj o v o') ((setO s o v).inpool o') s.snap o'
    by_cases he : o' = o
    · subst he
      have hiff : s.inpool o' ↔ (setO s o' v).inpool o' := by
        show _ ↔ s.pool (updO s.obj o' v o').num = some o'
        rw [updO_same, hnum]; exact Iff.rfl
      rw [updO_same]
      exact (hv ho').congr_ip hiff
    · have hiff : s.inpool o' ↔ (setO s o v).inpool o' := by
        show _ ↔ s.pool (updO s.obj o v o').num = some o'
        rw [updO_other _ _ _ _ he]; exact Iff.rfl
      rw [updO_other _ _ _ _ he]
      exact (hi.objs o' ho').congr_ip hiff

/-- rebuild the object invariant for a changed record from the invariant of the old one -/
macro "oix" h0:ident x:term : tactic => `(tactic| (
  have r1 := ($h0).refEq; have r2 := ($h0).once; have r3 := ($h0).pendTbl; have r4 := ($h0).pendClean
  have r5 := ($h0).dead; have r6 := ($h0).one; have r7 := ($h0).alive; have r8 := ($h0).tblOpen; have r9 := ($h0).tblSnap
  clear $h0
  refine ⟨?_, ?_, ?_, ?_, ?_, ?_, ?_, ?_, ?_⟩ <;> dsimp only <;>
    (generalize $x = y at *
     obtain ⟨num, ref, pending, destroyed, nd, calls, holds, tbl, dyA, dyB⟩ := y
     dsimp only at *
     try subst_vars
     (first | cases tbl | skip) <;> (first | cases destroyed | skip) <;> (first | cases pending | skip) <;>
       simp_all <;> (first | omega | (intro hh; simp_all <;> omega)))))

theorem inv_look (s s' : FS) (k : Nat) (r : Option Nat) (hi : Inv s) (h : s.step (.look k r) = some s') : Inv s' := by
  simp only [FS.step] at h
  split at h
  · cases h; exact hi
  · cases h

theorem inv_get (s s' : FS) (o : Nat) (hi : Inv s) (h : s.step (.get o) = some s') : Inv s' := by
  simp only [FS.step] at h
  split at h
  · rename_i ho
    split at h
    · cases h; exact hi
    · cases h
      refine inv_setO s o _ hi (by rfl) ?_
      intro _
      have h0 := hi.objs o ho
      unfold OI at h0
      oix h0 (s.obj o)
  · cases h

theorem inv_retain (s s' : FS) (o : Nat) (hi : Inv s) (h : s.step (.retain o) = some s') : Inv s' := by
  simp only [FS.step] at h
  split at h
  · rename_i hc
    obtain ⟨ho, hpe, hho⟩ := hc
    have h0 := hi.objs o ho
    unfold OI at h0
    split at h
    · cases h
      refine inv_setO s o _ hi (by rfl) ?_
      intro _
      oix h0 (s.obj o)
    · rename_i hcl
      cases h
      have hsn : s.snap = none := by
        cases hs : s.snap with
        | none => rfl
        | some l => exact absurd (hi.snapClosed (by rw [hs]; intro hh; cases hh)) hcl
      refine inv_setO s o _ hi (by rfl) ?_
      intro _
      oix h0 (s.obj o)
  · cases h

theorem inv_inc (s s' : FS) (o : Nat) (hi : Inv s) (h : s.step (.inc o) = some s') : Inv s' := by
  simp only [FS.step] at h
  split at h
  · rename_i hc
    obtain ⟨ho, hho⟩ := hc
    have h0 := hi.objs o ho
    unfold OI at h0
    cases h
    refine inv_setO s o _ hi (by rfl) ?_
    intro _
    oix h0 (s.obj o)
  · cases h

theorem inv_release (s s' : FS) (o : Nat) (hi : Inv s) (h : s.step (.release o) = some s') : Inv s' := by
  simp only [FS.step] at h
  split at h
  · rename_i ho
    have h0 := hi.objs o ho
    unfold OI at h0
    split at h
    · rename_i ht
      cases h
      refine inv_setO s o _ hi (by rfl) ?_
      intro _
      oix h0 (s.obj o)
    · cases h; exact hi
  · cases h

theorem inv_dec (s s' : FS) (o : Nat) (hi : Inv s) (h : s.step (.dec o) = some s') : Inv s' := by
  simp only [FS.step] at h
  split at h
  · rename_i hc
    obtain ⟨ho, hpre⟩ := hc
    have h0 := hi.objs o ho
    unfold OI at h0
    cases h
    split
    · rename_i hle
      refine inv_setO s o _ hi (by rfl) ?_
      intro _
      oix h0 (s.obj o)
    · rename_i hle
      refine inv_setO s o _ hi (by rfl) ?_
      intro _
      oix h0 (s.obj o)
  · cases h

theorem inv_dstr (s s' : FS) (o : Nat) (hi : Inv s) (h : s.step (.dstr o) = some s') : Inv s' := by
  simp only [FS.step] at h
  split at h
  · rename_i hc
    obtain ⟨ho, hpre⟩ := hc
    have h0 := hi.objs o ho
    unfold OI at h0
    split at h
    · rename_i hd
      cases h
      refine inv_setO s o _ hi (by rfl) ?_
      intro _
      oix h0 (s.obj o)
    · rename_i hd
      cases h
      refine inv_setO s o _ hi (by rfl) ?_
      intro _
      oix h0 (s.obj o)
  · cases h

theorem inv_call (s s' : FS) (o : Nat) (hi : Inv s) (h : s.step (.call o) = some s') : Inv s' := by
  simp only [FS.step] at h
  split at h
  · rename_i hc
    obtain ⟨ho, hpre⟩ := hc
    have h0 := hi.objs o ho
    unfold OI at h0
    cases h
    refine inv_setO s o _ hi (by rfl) ?_
    intro _
    oix h0 (s.obj o)
  · cases h

theorem inv_closeDone (s s' : FS) (hi : Inv s) (h : s.step .closeDone = some s') : Inv s' := by
  simp only [FS.step] at h
  split at h
  · cases h
  · cases h
    exact ⟨fun _ => rfl, hi.poolOk, hi.objs⟩

theorem inv_new (s s' : FS) (k : Nat) (hi : Inv s) (h : s.step (.new k) = some s') : Inv s' := by
  simp only [FS.step] at h
  split at h
  · cases h
  · rename_i hfree
    cases h
    refine ⟨hi.snapClosed, ?_, ?_⟩
    · intro k' o hp
      dsimp only at hp ⊢
      by_cases hk : k' = k
      · subst hk; rw [updP_same] at hp; cases hp
        exact ⟨Nat.lt_succ_self _, by rw [updO_same]⟩
      · rw [updP_other _ _ _ _ hk] at hp
        obtain ⟨h1, h2⟩ := hi.poolOk k' o hp
        refine ⟨Nat.lt_succ_of_lt h1, ?_⟩
        rw [updO_other _ _ _ _ (Nat.ne_of_lt h1)]; exact h2
    · intro o ho
      dsimp only at ho
      unfold OI FS.inpool
      dsimp only
      by_cases he : o = s.n
      · subst he
        rw [updO_same]
        dsimp only
        rw [updP_same]
        refine ⟨by simp, by simp, by simp, by simp, by simp, by simp, by simp, by simp, by simp⟩
      · have ho' : o < s.n := by omega
        rw [updO_other _ _ _ _ he]
        have h0 := hi.objs o ho'
        have hiff : s.inpool o ↔ updP s.pool k (some s.n) (s.obj o).num = some o := by
          unfold FS.inpool
          by_cases hk : (s.obj o).num = k
          · rw [hk, updP_same, hfree]
            constructor
            · intro hh; cases hh
            · intro hh; cases hh; omega
          · rw [updP_other _ _ _ _ hk]
        exact h0.congr_ip hiff

theorem inv_snapshot (s s' : FS) (l : List Nat) (hi : Inv s) (h : s.step (.snapshot l) = some s') : Inv s' := by
  simp only [FS.step] at h
  split at h
  · rename_i hc
    obtain ⟨hcl, hsn, hnd, hsound, hcompl⟩ := hc
    cases h
    refine ⟨fun _ => hcl, hi.poolOk, ?_⟩
    intro o ho
    have h0 := hi.objs o ho
    unfold OI at h0 ⊢
    exact ⟨h0.refEq, h0.once, h0.pendTbl, h0.pendClean, h0.dead, h0.one, h0.alive, fun _ hh => (by cases hh),
      fun ht l' hl => (by cases hl; exact hcompl o ho (h0.tblOpen ht hsn))⟩
  · cases h

theorem inv_visit (s s' : FS) (hi : Inv s) (h : s.step .visit = some s') : Inv s' := by
  simp only [FS.step] at h
  split at h
  · rename_i o rest hs
    have hcl : s.closed = true := hi.snapClosed (by rw [hs]; intro hh; cases hh)
    split at h
    · rename_i hc
      obtain ⟨hnp, htb⟩ := hc
      cases h
      refine ⟨fun _ => hcl, ?_, ?_⟩
      · intro k o' hp
        obtain ⟨h1, h2⟩ := hi.poolOk k o' hp
        refine ⟨h1, ?_⟩
        show (updO s.obj o _ o').num = k
        by_cases he : o' = o
        · subst he; rw [updO_same]; exact h2
        · rw [updO_other _ _ _ _ he]; exact h2
      · intro o' ho'
        have h0 := hi.objs o' ho'
        unfold OI at h0
        show OIx (updO s.obj o _ o') (s.pool (updO s.obj o _ o').num = some o') (some rest) o'
        by_cases he : o' = o
        · subst he
          rw [updO_same]
          have h1 : OIx { (s.obj o') with tbl := false, holds := (s.obj o').holds + 1 } (s.inpool o') (some rest) o' := by
            have hsn : s.snap = some (o' :: rest) := hs
            oix h0 (s.obj o')
          exact h1
        · rw [updO_other _ _ _ _ he]
          refine ⟨h0.refEq, h0.once, h0.pendTbl, h0.pendClean, h0.dead, h0.one, h0.alive, fun _ hh => (by cases hh), ?_⟩
          intro ht l' hl
          cases hl
          have hm := h0.tblSnap ht _ hs
          simp only [List.mem_cons] at hm
          rcases hm with hm | hm
          · exact absurd hm he
          · exact hm
    · rename_i hc
      cases h
      refine ⟨fun _ => hcl, hi.poolOk, ?_⟩
      intro o' ho'
      have h0 := hi.objs o' ho'
      unfold OI at h0 ⊢
      refine ⟨h0.refEq, h0.once, h0.pendTbl, h0.pendClean, h0.dead, h0.one, h0.alive, fun _ hh => (by cases hh), ?_⟩
      intro ht l' hl
      cases hl
      have hm := h0.tblSnap ht _ hs
      simp only [List.mem_cons] at hm
      rcases hm with rfl | hm
      · -- the fid popped was kept: then it was not pending and the first branch was taken
        exfalso
        apply hc
        refine ⟨?_, ht⟩
        cases hp : (s.obj o').pending with
        | false => rfl
        | true => have := h0.pendTbl hp; rw [this] at ht; cases ht
      · exact hm
  · cases h

theorem inv_unpool (s s' : FS) (o : Nat) (hi : Inv s) (h : s.step (.unpool o) = some s') : Inv s' := by
  simp only [FS.step] at h
  split at h
  · rename_i hc
    obtain ⟨ho, hpre⟩ := hc
    have h0 := hi.objs o ho
    unfold OI at h0
    split at h
    · rename_i hin
      cases h
      refine ⟨hi.snapClosed, ?_, ?_⟩
      · intro k o' hp
        dsimp only [setO] at hp ⊢
        by_cases hk : k = (s.obj o).num
        · subst hk; rw [updP_same] at hp; cases hp
        · rw [updP_other _ _ _ _ hk] at hp
          obtain ⟨h1, h2⟩ := hi.poolOk k o' hp
          refine ⟨h1, ?_⟩
          by_cases he : o' = o
          · subst he; rw [updO_same]; exact h2
          · rw [updO_other _ _ _ _ he]; exact h2
      · intro o' ho'
        unfold OI FS.inpool
        dsimp only [setO]
        by_cases he : o' = o
        · subst he
          rw [updO_same]
          dsimp only
          rw [updP_same]
          have h1 : OIx { (s.obj o') with dyA := (s.obj o').dyA - 1, dyB := (s.obj o').dyB + 1 } False s.snap o' := by
            oix h0 (s.obj o')
          exact h1.congr_ip ⟨fun hh => hh.elim, fun hh => (by cases hh)⟩
        · rw [updO_other _ _ _ _ he]
          have h1 := hi.objs o' ho'
          have hiff : s.inpool o' ↔ updP s.pool (s.obj o).num none (s.obj o').num = some o' := by
            unfold FS.inpool
            by_cases hk : (s.obj o').num = (s.obj o).num
            · rw [hk, updP_same, hin]
              constructor
              · intro hh; cases hh; exact absurd rfl he
              · intro hh; cases hh
            · rw [updP_other _ _ _ _ hk]
          exact h1.congr_ip hiff
    · rename_i hin
      cases h
      refine inv_setO s o _ hi (by rfl) ?_
      intro _
      oix h0 (s.obj o)
  · cases h

theorem inv_step (s s' : FS) (e : FEv) (hi : Inv s) (h : s.step e = some s') : Inv s' := by
  cases e with
  | new k => exact inv_new s s' k hi h
  | look k r => exact inv_look s s' k r hi h
  | get o => exact inv_get s s' o hi h
  | retain o => exact inv_retain s s' o hi h
  | inc o => exact inv_inc s s' o hi h
  | release o => exact inv_release s s' o hi h
  | dec o => exact inv_dec s s' o hi h
  | unpool o => exact inv_unpool s s' o hi h
  | dstr o => exact inv_dstr s s' o hi h
  | call o => exact inv_call s s' o hi h
  | closeDone => exact inv_closeDone s s' hi h
  | snapshot l => exact inv_snapshot s s' l hi h
  | visit => exact inv_visit s s' hi h

theorem inv_run (s s' : FS) (es : List FEv) (hi : Inv s) (h : s.run es = some s') : Inv s' := by
  induction es generalizing s with
  | nil => simp only [FS.run] at h; cases h; exact hi
  | cons e es ih =>
    simp only [FS.run] at h
    cases hs : s.step e with
    | none => rw [hs] at h; cases h
    | some s1 => rw [hs] at h; exact ih s1 (inv_step s s1 e hi hs) h

end G9.FidLife
