import G9Proofs.Lemmas.LifeBd
namespace G9.Life

theorem fresh_zero (s : LS) (h : Ref s) (r : Nat) (hr : s.n ≤ r) : winners s r = 0 ∧ sent s r = 0 := by
  constructor
  · unfold winners
    rw [List.countP_eq_zero]
    intro it hit hw
    have := h.1 it hit
    simp [win] at hw
    omega
  · unfold sent
    rw [List.count_eq_zero]
    intro hm
    have := h.2 r hm
    omega

theorem mem_of_get {α} (l : List α) (i : Nat) (x : α) (h : l[i]? = some x) : x ∈ l := List.mem_of_getElem? h

/-- one call of Respond moves on: the general bookkeeping lemma -/
theorem once_of_set (s s' : LS) (h : Once s) (l : List Inst) (hl : ∀ r, l.countP (win r) = winners s r)
    (i : Nat) (it v : Inst) (hit : l[i]? = some it) (hi : s'.insts = setInst l i v)
    (hrs : ∀ r, (s.req r).rs = true → (s'.req r).rs = true)
    (hq : ∀ r, (sent s' r + (if win r v then 1 else 0) ≤ sent s r + (if win r it then 1 else 0)) ∨
               ((s.req r).rs = false ∧ (s'.req r).rs = true ∧ sent s' r = sent s r)) : Once s' := by
  intro r
  have hw : winners s' r + (if win r it then 1 else 0) = winners s r + (if win r v then 1 else 0) := by
    unfold winners at *; rw [hi, ← hl r]; unfold setInst; exact countP_set _ _ _ _ _ hit
  have ho := h r
  have hv1 : (if win r v then 1 else 0) ≤ 1 := by split <;> omega
  rcases hq r with h1 | ⟨h1, h2, h3⟩
  · generalize (if win r v then 1 else 0) = a at *
    generalize (if win r it then 1 else 0) = b at *
    refine ⟨by omega, fun h4 => hrs r (ho.2 (by omega))⟩
  · have h0 : winners s r + sent s r = 0 := by
      by_cases h5 : 1 ≤ winners s r + sent s r
      · have := ho.2 h5; rw [h1] at this; cases this
      · omega
    generalize (if win r v then 1 else 0) = a at *
    generalize (if win r it then 1 else 0) = b at *
    exact ⟨by omega, fun _ => h2⟩

theorem sent_push (ro w : List Nat) (x r : Nat) :
    (ro ++ [x] ++ w).count r = (ro ++ w).count r + (if x = r then 1 else 0) := by
  simp only [List.count_append, List.count_cons, List.count_nil, beq_iff_eq]
  split <;> omega

theorem sent_move (rest w : List Nat) (x r : Nat) :
    (rest ++ (w ++ [x])).count r = (x :: rest ++ w).count r := by
  simp only [List.count_append, List.count_cons, List.count_nil, List.cons_append, beq_iff_eq]
  split <;> omega

end G9.Life

namespace G9.Life

def Inv (s : LS) : Prop := (Ref s ∧ Once s) ∧ Bd s

theorem inv_init (cap : Nat) : Inv (LS.init cap) := ⟨⟨ref_init cap, once_init cap⟩, bd_init cap⟩

theorem win_mark (r : Nat) (it : Inst) (h : it.pc = .mark) : win r it = false := by simp [win, h]

macro "rs_tac" : tactic =>
  `(tactic| (intro r h1
             repeat (first | exact h1 | refine rs_upd_keep _ _ _ (by intro h; exact h) r ?_)))

theorem inv_step (s s' : LS) (e : Ev) (hI : Inv s) (hs : s.step e = some s') : Inv s' := by
  refine ⟨?_, bd_step s s' e hI.2 hs⟩
  obtain ⟨⟨hr, h⟩, hb⟩ := hI
  cases e with
  | recv tag oldtag =>
    simp only [LS.step] at hs
    split at hs
    · cases hs
    · cases hs
      refine ⟨ref_of_same s _ hr (Nat.le_succ _) rfl rfl rfl, ?_⟩
      intro r
      have ho := h r
      by_cases hrn : r = s.n
      · subst hrn
        have hz := fresh_zero s hr s.n (Nat.le_refl _)
        refine ⟨?_, fun h1 => ?_⟩
        · show winners s s.n + sent s s.n ≤ 1
          omega
        · have : 1 ≤ winners s s.n + sent s s.n := h1
          omega
      · refine ⟨ho.1, fun h1 => ?_⟩
        show (upd _ s.n _ r).rs = true
        rw [upd_other _ _ _ _ hrn, (linkPrev_same _ _ _ _).2.2.1]
        exact ho.2 h1
  | check r =>
    simp only [LS.step] at hs
    split at hs
    · cases hs
      exact ⟨ref_of_same s _ hr (Nat.le_refl _) rfl rfl rfl,
             once_of_same s _ h rfl rfl rfl (rs_upd_keep _ _ _ (fun h => h))⟩
    · cases hs
  | dispatch r =>
    simp only [LS.step] at hs
    split at hs
    · split at hs <;> cases hs <;>
        exact ⟨ref_of_same s _ hr (Nat.le_refl _) rfl rfl rfl,
               once_of_same s _ h rfl rfl rfl (rs_upd_keep _ _ _ (fun h => h))⟩
    · cases hs
  | selfRespond r =>
    simp only [LS.step] at hs
    split at hs
    · rename_i hg
      cases hs
      exact ⟨ref_of_new s _ hr rfl r hg.1 rfl rfl rfl,
             once_of_new s _ h r rfl rfl rfl (rs_upd_keep _ _ _ (fun h => h))⟩
    · cases hs
  | answer r =>
    simp only [LS.step] at hs
    split at hs
    · rename_i hg
      cases hs
      exact ⟨ref_of_new s _ hr rfl r hg.1 rfl rfl rfl, once_of_new s _ h r rfl rfl rfl (fun _ h => h)⟩
    · cases hs
  | implFlush r =>
    simp only [LS.step] at hs
    split at hs
    · rename_i hg
      cases hs
      exact ⟨ref_of_new s _ hr rfl r hg.1 rfl rfl rfl,
             once_of_new s _ h r rfl rfl rfl (rs_upd_keep _ _ _ (fun h => h))⟩
    · cases hs
  | implReturn r =>
    simp only [LS.step] at hs
    split at hs
    · cases hs
      exact ⟨ref_of_same s _ hr (Nat.le_refl _) rfl rfl rfl,
             once_of_same s _ h rfl rfl rfl (rs_upd_keep _ _ _ (fun h => h))⟩
    · cases hs
  | procEnd r =>
    simp only [LS.step] at hs
    split at hs
    · cases hs
      exact ⟨ref_of_same s _ hr (Nat.le_refl _) rfl rfl rfl,
             once_of_same s _ h rfl rfl rfl (rs_upd_keep _ _ _ (fun h => h))⟩
    · cases hs
  | flushLookup f =>
    simp only [LS.step] at hs
    split at hs
    · split at hs
      · cases hs
      · split at hs
        · cases hs
          exact ⟨ref_of_same s _ hr (Nat.le_refl _) rfl rfl rfl,
                 once_of_same s _ h rfl rfl rfl (rs_upd_keep _ _ _ (fun h => h))⟩
        · rename_i t _
          cases hs
          refine ⟨ref_of_same s _ hr (Nat.le_refl _) rfl rfl rfl, once_of_same s _ h rfl rfl rfl ?_⟩
          rs_tac
    · cases hs
  | flushMark f =>
    simp only [LS.step] at hs
    split at hs
    · split at hs
      · rename_i t _
        cases hs
        refine ⟨ref_of_same s _ hr (Nat.le_refl _) rfl rfl rfl, once_of_same s _ h rfl rfl rfl ?_⟩
        rs_tac
      · cases hs
    · cases hs
  | flushAct f =>
    simp only [LS.step] at hs
    split at hs
    · rename_i hg
      split at hs
      · cases hs
        exact ⟨ref_of_new s _ hr rfl f hg rfl rfl rfl,
               once_of_new s _ h f rfl rfl rfl (rs_upd_keep _ _ _ (fun h => h))⟩
      · rename_i t hw
        have ht : t < s.n := hb.tgt f t (by rw [hw]; rfl)
        cases hs
        exact ⟨ref_of_new s _ hr rfl t ht rfl rfl rfl,
               once_of_new s _ h t rfl rfl rfl (rs_upd_keep _ _ _ (fun h => h))⟩
      · cases hs
        exact ⟨ref_of_same s _ hr (Nat.le_refl _) rfl rfl rfl,
               once_of_same s _ h rfl rfl rfl (rs_upd_keep _ _ _ (fun h => h))⟩
      · cases hs
    · cases hs
  | mark i =>
    simp only [LS.step] at hs
    split at hs
    · rename_i it hit
      have hlt : it.rid < s.n := hr.1 it (mem_of_get _ _ _ hit)
      split at hs
      · rename_i hpc
        split at hs
        · rename_i hrs
          cases hs
          refine ⟨ref_of_set s _ hr rfl i _ (by exact hlt) rfl (fun r h => hr.2 r h), ?_⟩
          refine once_of_set s _ h s.insts (fun _ => rfl) i it _ hit rfl ?_ ?_
          · exact rs_upd_keep _ _ _ (by intro _; rfl)
          · intro r; left
            simp [sent, win, hpc]
        · rename_i hrs
          cases hs
          refine ⟨ref_of_set s _ hr rfl i _ (by exact hlt) rfl (fun r h => hr.2 r h), ?_⟩
          refine once_of_set s _ h s.insts (fun _ => rfl) i it _ hit rfl ?_ ?_
          · exact rs_upd_keep _ _ _ (by intro _; rfl)
          · intro r
            by_cases hri : r = it.rid
            · right
              subst hri
              exact ⟨by simpa using hrs, by simp, rfl⟩
            · left
              have : (it.rid == r) = false := by simp; exact fun h => hri h.symm
              simp [sent, win, hpc, this]
      · cases hs
    · cases hs
  | unlink i =>
    simp only [LS.step] at hs
    split at hs
    · rename_i it hit
      have hlt : it.rid < s.n := hr.1 it (mem_of_get _ _ _ hit)
      split at hs
      · rename_i hpc
        split at hs
        · cases hs
          refine ⟨ref_of_set s _ hr rfl i _ (by exact hlt) rfl (fun r h => hr.2 r h), ?_⟩
          refine once_of_set s _ h s.insts (fun _ => rfl) i it _ hit rfl ?_ ?_
          · exact rs_upd_keep _ _ _ (by intro h; exact h)
          · intro r; left; simp [sent, win, hpc]
        · split at hs
          · cases hs
            refine ⟨ref_of_set s _ hr rfl i _ (by exact hlt) rfl (fun r h => hr.2 r h), ?_⟩
            refine once_of_set s _ h s.insts (fun _ => rfl) i it _ hit rfl (fun _ h => h) ?_
            intro r; left; simp [sent, win, hpc]
          · split at hs
            · cases hs
              refine ⟨ref_of_set s _ hr rfl i _ (by exact hlt) rfl (fun r h => hr.2 r h), ?_⟩
              refine once_of_set s _ h s.insts (fun _ => rfl) i it _ hit rfl (fun _ h => h) ?_
              intro r; left; simp [sent, win, hpc]
            · split at hs
              · cases hs
                refine ⟨ref_of_set s _ hr rfl i _ (by exact hlt) rfl (fun r h => hr.2 r h), ?_⟩
                refine once_of_set s _ h s.insts (fun _ => rfl) i it _ hit rfl ?_ ?_
                · exact rs_upd_keep _ _ _ (by intro h; exact h)
                · intro r; left; simp [sent, win, hpc]
              · cases hs
                refine ⟨ref_of_set s _ hr rfl i _ (by exact hlt) rfl (fun r h => hr.2 r h), ?_⟩
                refine once_of_set s _ h s.insts (fun _ => rfl) i it _ hit rfl (fun _ h => h) ?_
                intro r; left; simp [sent, win, hpc]
      · cases hs
    · cases hs
  | post i =>
    simp only [LS.step] at hs
    split at hs
    · rename_i it hit
      have hlt : it.rid < s.n := hr.1 it (mem_of_get _ _ _ hit)
      split at hs
      · rename_i hpc
        cases hs
        refine ⟨ref_of_set s _ hr rfl i _ (by exact hlt) rfl (fun r h => hr.2 r h), ?_⟩
        refine once_of_set s _ h s.insts (fun _ => rfl) i it _ hit rfl (fun _ h => h) ?_
        intro r; left; simp [sent, win, hpc]
      · cases hs
    · cases hs
  | queue i =>
    simp only [LS.step] at hs
    split at hs
    · rename_i it hit
      have hlt : it.rid < s.n := hr.1 it (mem_of_get _ _ _ hit)
      split at hs
      · rename_i hpc
        split at hs
        · cases hs
          refine ⟨ref_of_set s _ hr rfl i _ (by exact hlt) rfl (fun r h => hr.2 r h), ?_⟩
          refine once_of_set s _ h s.insts (fun _ => rfl) i it _ hit rfl (fun _ h => h) ?_
          intro r; left; simp [sent, win, hpc]
        · split at hs
          · cases hs
            constructor
            · refine ref_of_set s _ hr rfl i _ (by exact hlt) rfl ?_
              intro r hm
              simp only [List.mem_append, List.mem_singleton] at hm
              rcases hm with (h1 | h1) | h1
              · exact hr.2 r (List.mem_append.mpr (Or.inl h1))
              · rw [h1]; exact hlt
              · exact hr.2 r (List.mem_append.mpr (Or.inr h1))
            · refine once_of_set s _ h s.insts (fun _ => rfl) i it _ hit rfl (fun _ h => h) ?_
              intro r; left
              have e : sent { s with reqout := s.reqout ++ [it.rid], insts := setInst s.insts i { it with pc := .unlink } } r
                  = sent s r + (if it.rid = r then 1 else 0) := sent_push _ _ _ _
              rw [e]
              simp [win, hpc]
          · cases hs
      · cases hs
    · cases hs
  | next i =>
    simp only [LS.step] at hs
    split at hs
    · rename_i it hit
      have hlt : it.rid < s.n := hr.1 it (mem_of_get _ _ _ hit)
      split at hs
      · rename_i hpc
        split at hs
        · cases hs
          refine ⟨ref_of_set s _ hr rfl i _ (by exact hlt) rfl (fun r h => hr.2 r h), ?_⟩
          refine once_of_set s _ h s.insts (fun _ => rfl) i it _ hit rfl (fun _ h => h) ?_
          intro r; left; simp [sent, win, hpc]
        · cases hs
          refine ⟨ref_of_set s _ hr rfl i _ (by exact hlt) rfl (fun r h => hr.2 r h), ?_⟩
          refine once_of_set s _ h s.insts (fun _ => rfl) i it _ hit rfl ?_ ?_
          · exact rs_upd_keep _ _ _ (by intro h; exact h)
          · intro r; left; simp [sent, win, hpc]
      · cases hs
    · cases hs
  | flushes i =>
    simp only [LS.step] at hs
    split at hs
    · rename_i it hit
      have hlt : it.rid < s.n := hr.1 it (mem_of_get _ _ _ hit)
      split at hs
      · rename_i hpc
        split at hs
        · cases hs
          refine ⟨ref_of_set s _ hr rfl i _ (by exact hlt) rfl (fun r h => hr.2 r h), ?_⟩
          refine once_of_set s _ h s.insts (fun _ => rfl) i it _ hit rfl (fun _ h => h) ?_
          intro r; left; simp [sent, win, hpc]
        · rename_i f hcur
          have hf : f < s.n := hb.fls it (mem_of_get _ _ _ hit) f hcur
          split at hs
          · cases hs
            refine ⟨ref_of_set s _ hr rfl i _ (by exact hlt) rfl (fun r h => hr.2 r h), ?_⟩
            refine once_of_set s _ h s.insts (fun _ => rfl) i it _ hit rfl (fun _ h => h) ?_
            intro r; left; simp [sent, win, hpc]
          · cases hs
            constructor
            · refine ⟨fun x hx => ?_, fun r h => hr.2 r h⟩
              rcases mem_setInst _ _ _ _ hx with rfl | h1
              · exact hlt
              · rcases List.mem_append.mp h1 with h2 | h2
                · exact hr.1 x h2
                · simp at h2; subst h2; exact hf
            · refine once_of_set s _ h (s.insts ++ [{ rid := f }]) ?_ i it _ ?_ rfl (fun _ h => h) ?_
              · intro r; unfold winners; rw [countP_append_single]; simp [win]
              · rw [List.getElem?_append_left]; exact hit
                exact (List.getElem?_eq_some_iff.mp hit).1
              · intro r; left; simp [sent, win, hpc]
      · cases hs
    · cases hs
  | send =>
    simp only [LS.step] at hs
    split at hs
    · cases hs
    · rename_i r0 rest hro
      split at hs
      · cases hs
      · cases hs
        constructor
        · refine ⟨hr.1, fun r hm => ?_⟩
          apply hr.2 r
          rw [hro]
          simp only [List.mem_append, List.mem_cons, List.mem_singleton, List.not_mem_nil, or_false] at hm ⊢
          rcases hm with h1 | h1 | h1
          · exact Or.inl (Or.inr h1)
          · exact Or.inr h1
          · exact Or.inl (Or.inl h1)
        · intro r
          have ho := h r
          have : sent { s with reqout := rest, wire := s.wire ++ [r0] } r = sent s r := by
            unfold sent; rw [hro]; exact sent_move _ _ _ _
          unfold winners at *
          rw [this]
          exact ho
  | close =>
    simp only [LS.step] at hs
    split at hs
    · cases hs
    · cases hs
      exact ⟨ref_of_same s _ hr (Nat.le_refl _) rfl rfl rfl, once_of_same s _ h rfl rfl rfl (fun _ h => h)⟩

end G9.Life
