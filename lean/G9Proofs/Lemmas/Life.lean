import G9.SrvLife
namespace G9.Life

/-- a call of Respond that won the test-and-set and has not yet queued its reply -/
def win (r : Nat) (it : Inst) : Bool :=
  it.rid == r && (it.pc == .post || it.pc == .queue)

def winners (s : LS) (r : Nat) : Nat := s.insts.countP (win r)
def sent (s : LS) (r : Nat) : Nat := (s.reqout ++ s.wire).count r

theorem countP_set {α} (p : α → Bool) (l : List α) (i : Nat) (old v : α) (h : l[i]? = some old) :
    (l.set i v).countP p + (if p old then 1 else 0) = l.countP p + (if p v then 1 else 0) := by
  induction l generalizing i with
  | nil => simp at h
  | cons x xs ih =>
    cases i with
    | zero =>
      simp at h; subst h
      simp only [List.set_cons_zero, List.countP_cons]
      omega
    | succ i =>
      simp at h
      simp only [List.set_cons_succ, List.countP_cons]
      have := ih i h
      omega

theorem countP_append_single {α} (p : α → Bool) (l : List α) (v : α) :
    (l ++ [v]).countP p = l.countP p + (if p v then 1 else 0) := by
  simp [List.countP_append]

/-- the respond-once invariant -/
def Once (s : LS) : Prop :=
  ∀ r, winners s r + sent s r ≤ 1 ∧ (1 ≤ winners s r + sent s r → (s.req r).rs = true)

theorem once_init (cap : Nat) : Once (LS.init cap) := by
  intro r; simp [winners, sent, LS.init]

/-- steps that leave instances, queue, wire and every `rs` bit alone -/
theorem once_of_same (s s' : LS) (h : Once s) (hi : s'.insts = s.insts) (ho : s'.reqout = s.reqout)
    (hw : s'.wire = s.wire) (hr : ∀ r, (s.req r).rs = true → (s'.req r).rs = true) : Once s' := by
  intro r
  have := h r
  simp only [winners, sent, hi, ho, hw] at this ⊢
  exact ⟨this.1, fun h1 => hr r (this.2 h1)⟩

/-- steps that only add a fresh call of Respond (at its mark) -/
theorem once_of_new (s s' : LS) (h : Once s) (x : Nat) (hi : s'.insts = s.insts ++ [{ rid := x }])
    (ho : s'.reqout = s.reqout) (hw : s'.wire = s.wire) (hr : ∀ r, (s.req r).rs = true → (s'.req r).rs = true) :
    Once s' := by
  intro r
  have := h r
  simp only [winners, sent, hi, ho, hw, countP_append_single] at this ⊢
  have hwin : win r ({ rid := x } : Inst) = false := by simp [win]
  simp only [hwin, Bool.false_eq_true, if_false, Nat.add_zero]
  exact ⟨this.1, fun h1 => hr r (this.2 h1)⟩

theorem linkPrev_same (f : Nat → Req) (hd : Option Nat) (r x : Nat) :
    (linkPrev f hd r x).flushreq = (f x).flushreq ∧ (linkPrev f hd r x).wpc = (f x).wpc ∧
    (linkPrev f hd r x).rs = (f x).rs ∧ (linkPrev f hd r x).fl = (f x).fl ∧
    (linkPrev f hd r x).noRun = (f x).noRun ∧ (linkPrev f hd r x).oldtag = (f x).oldtag ∧
    (linkPrev f hd r x).tag = (f x).tag := by
  unfold linkPrev
  cases hd with
  | none => simp
  | some h =>
    by_cases hx : x = h
    · subst hx; simp
    · simp [upd, hx]

theorem noRun_upd_keep (f : Nat → Req) (i : Nat) (v : Req) (hv : (f i).noRun = true → v.noRun = true) :
    ∀ r, (f r).noRun = true → (upd f i v r).noRun = true := by
  intro r h
  by_cases hri : r = i
  · subst hri; simp; exact hv h
  · simp [upd, hri]; exact h

theorem rs_upd_keep (f : Nat → Req) (i : Nat) (v : Req) (hv : (f i).rs = true → v.rs = true) :
    ∀ r, (f r).rs = true → (upd f i v r).rs = true := by
  intro r h
  by_cases hri : r = i
  · subst hri; simp; exact hv h
  · simp [upd, hri]; exact h

end G9.Life

namespace G9.Life

/-- every call of Respond and every queued or sent reply belongs to a received request -/
def Ref (s : LS) : Prop := (∀ it ∈ s.insts, it.rid < s.n) ∧ (∀ r ∈ s.reqout ++ s.wire, r < s.n)

theorem ref_init (cap : Nat) : Ref (LS.init cap) := by simp [Ref, LS.init]

theorem ref_of_same (s s' : LS) (h : Ref s) (hn : s.n ≤ s'.n) (hi : s'.insts = s.insts) (ho : s'.reqout = s.reqout)
    (hw : s'.wire = s.wire) : Ref s' := by
  refine ⟨fun it hit => ?_, fun r hr => ?_⟩
  · rw [hi] at hit; have := h.1 it hit; omega
  · rw [ho, hw] at hr; have := h.2 r hr; omega

theorem ref_of_new (s s' : LS) (h : Ref s) (hn : s'.n = s.n) (x : Nat) (hx : x < s.n)
    (hi : s'.insts = s.insts ++ [{ rid := x }]) (ho : s'.reqout = s.reqout) (hw : s'.wire = s.wire) : Ref s' := by
  refine ⟨fun it hit => ?_, fun r hr => ?_⟩
  · rw [hi] at hit; rw [hn]
    rcases List.mem_append.mp hit with h1 | h1
    · exact h.1 it h1
    · simp at h1; subst h1; exact hx
  · rw [ho, hw] at hr; rw [hn]; exact h.2 r hr

theorem mem_setInst (l : List Inst) (i : Nat) (v x : Inst) (h : x ∈ setInst l i v) : x = v ∨ x ∈ l := by
  unfold setInst at h
  rcases List.mem_or_eq_of_mem_set h with h1 | h1
  · exact Or.inr h1
  · exact Or.inl h1

theorem ref_of_set (s s' : LS) (h : Ref s) (hn : s'.n = s.n) (i : Nat) (v : Inst) (hv : v.rid < s.n)
    (hi : s'.insts = setInst s.insts i v) (ho : ∀ r ∈ s'.reqout ++ s'.wire, r < s.n) : Ref s' := by
  refine ⟨fun it hit => ?_, fun r hr => ?_⟩
  · rw [hi] at hit; rw [hn]
    rcases mem_setInst _ _ _ _ hit with rfl | h1
    · exact hv
    · exact h.1 it h1
  · rw [hn]; exact ho r hr

end G9.Life
