import G9Proofs.Lemmas.Search
namespace G9.Ufs

/-- what a directory snapshot looks like: strictly increasing entry ends, all positive, the
    last one being the total length -/
structure Snap (ends : List Nat) (total : Nat) : Prop where
  sorted : ends.Pairwise (· < ·)
  pos : ∀ e ∈ ends, 0 < e
  tot : total = ends.getLastD 0

theorem Snap.le_total {ends : List Nat} {total : Nat} (h : Snap ends total) (j : Nat) (hj : j < ends.length) :
    ends.getD j 0 ≤ total := by
  have hne : ends ≠ [] := by intro e; rw [e] at hj; simp at hj
  have hl : total = ends.getD (ends.length - 1) 0 := by
    rw [h.tot, List.getLastD_eq_getLast?, List.getLast?_eq_getElem?]
    simp [List.getD_eq_getElem?_getD]
  rw [hl]
  by_cases hjl : j = ends.length - 1
  · rw [hjl]; exact Nat.le_refl _
  · exact Nat.le_of_lt (sorted_getD_lt ends h.sorted j _ (by omega) (by omega))

theorem Snap.total_mem {ends : List Nat} {total : Nat} (h : Snap ends total) (hne : ends ≠ []) :
    ends.getD (ends.length - 1) 0 = total := by
  rw [h.tot, List.getLastD_eq_getLast?, List.getLast?_eq_getElem?]
  simp [List.getD_eq_getElem?_getD]

/-- the successful outcome: a stretch of whole entries starting at `off`, as many as fit -/
def GoodWin (ends : List Nat) (total off cnt c : Nat) : Prop :=
  off + c ≤ total ∧ c ≤ cnt ∧ (c = 0 ∨ off + c ∈ ends) ∧
  (∀ e ∈ ends, off + c < e → off + cnt < e) ∧ (c = 0 → off = total)

/-- the refusal: the entry at `off` alone is longer than `cnt` -/
def SmallWin (ends : List Nat) (total off cnt : Nat) : Prop :=
  off < total ∧ ∀ e ∈ ends, off < e → off + cnt < e

theorem window_spec (ends : List Nat) (total off cnt : Nat) (h : Snap ends total)
    (hoff : off = 0 ∨ off ∈ ends) :
    (∃ c, window ends total off cnt = .ok c ∧ GoodWin ends total off cnt c) ∨
    (window ends total off cnt = .tooSmall ∧ SmallWin ends total off cnt) := by
  -- the offset test passes
  have hofft : off ≤ total := by
    rcases hoff with h0 | hm
    · omega
    · obtain ⟨j, hj, he⟩ := (mem_iff_getD ends off).1 hm
      rw [← he]; exact h.le_total j hj
  have hbad : ¬ (off ≠ 0 ∧ (off > total ∨ searchInts ends off ≥ ends.length ∨
      ends.getD (searchInts ends off) 0 ≠ off)) := by
    rintro ⟨hne, hc⟩
    rcases hoff with h0 | hm
    · exact hne h0
    · obtain ⟨j, hj, he⟩ := (mem_iff_getD ends off).1 hm
      have hs := searchInts_self ends h.sorted j hj
      rw [he] at hs
      rw [hs] at hc
      omega
  unfold window
  simp only [hbad, if_false]
  have hngt : ¬ off > total := by omega
  simp only [hngt, if_false]
  -- abbreviations
  generalize hc0 : (if total - off > cnt then cnt else total - off) = c0
  have hc0le : c0 ≤ cnt ∧ off + c0 ≤ total ∧ (c0 < cnt → off + c0 = total) := by
    by_cases hh : total - off > cnt
    · simp only [hh, if_true] at hc0; omega
    · simp only [hh, if_false] at hc0; omega
  generalize hm : searchInts ends (off + c0) = m
  have hmle : m ≤ ends.length := by rw [← hm]; exact searchInts_le _ _
  by_cases hcut : m < ends.length ∧ ends.getD m 0 > off + c0
  · -- the window ends inside an entry: cut back to the previous end
    simp only [hcut, and_self, if_true]
    have hbefore : ∀ e ∈ ends, e < off + c0 ∨ ends.getD m 0 ≤ e := by
      intro e he
      obtain ⟨j, hj, hje⟩ := (mem_iff_getD ends e).1 he
      by_cases hjm : j < m
      · left; rw [← hje]; rw [← hm] at hjm; exact searchInts_lt ends _ j hjm
      · right; rw [← hje]
        by_cases hjm2 : j = m
        · rw [hjm2]; exact Nat.le_refl _
        · exact Nat.le_of_lt (sorted_getD_lt ends h.sorted m j (by omega) hj)
    by_cases hm0 : m > 0
    · simp only [hm0, if_true]
      have hprev : ends.getD (m - 1) 0 < off + c0 := by
        rw [← hm]; apply searchInts_lt; rw [hm]; omega
      have hprevmem : ends.getD (m - 1) 0 ∈ ends := (mem_iff_getD ends _).2 ⟨m - 1, by omega, rfl⟩
      -- the previous end is not before off
      have hge : off ≤ ends.getD (m - 1) 0 := by
        rcases hoff with h0 | hmem
        · omega
        · obtain ⟨j, hj, he⟩ := (mem_iff_getD ends off).1 hmem
          by_cases hjm : j ≤ m - 1
          · by_cases hje : j = m - 1
            · rw [← hje, he]; exact Nat.le_refl _
            · rw [← he]; exact Nat.le_of_lt (sorted_getD_lt ends h.sorted j (m - 1) (by omega) (by omega))
          · -- off is at or after position m, hence ≥ ends[m] > off + c0: impossible
            exfalso
            have : ends.getD m 0 ≤ off := by
              by_cases hjm2 : j = m
              · rw [← hjm2, he]; exact Nat.le_refl _
              · rw [← he]; exact Nat.le_of_lt (sorted_getD_lt ends h.sorted m j (by omega) hj)
            omega
      generalize hp : ends.getD (m - 1) 0 = p at *
      by_cases hz : p = off
      · -- nothing whole fits
        subst hz
        right
        have hlt : p < total := by
          have := h.le_total m hcut.1
          omega
        have e0 : ((p : Int) - (p : Int)) = 0 := by omega
        simp only [e0, true_and]
        have : p < total ∧ total > 0 := by omega
        simp only [this, and_self, if_true]
        refine ⟨by first | rfl | trivial, hlt, fun e he hoe => ?_⟩
        rcases hbefore e he with h1 | h2
        · -- an end strictly between p and p + c0 would sit before m, i.e. at most p
          exfalso
          obtain ⟨j, hj, hje⟩ := (mem_iff_getD ends e).1 he
          have hjm : j < m := by
            rw [← hm]; exact searchInts_mem_lt ends h.sorted _ j hj (by rw [hje]; exact h1)
          by_cases hjl : j = m - 1
          · rw [hjl, hp] at hje; omega
          · have := sorted_getD_lt ends h.sorted j (m - 1) (by omega) (by omega)
            rw [hje, hp] at this; omega
        · have hgt := hcut.2
          have : c0 = cnt := by
            by_cases hcc : c0 < cnt
            · have := hc0le.2.2 hcc
              have := h.le_total m hcut.1
              omega
            · omega
          omega
      · left
        have hpos : off < p := by omega
        refine ⟨p - off, ?_, ?_⟩
        · have e1 : ((p : Int) - (off : Int)) = ((p - off : Nat) : Int) := by omega
          rw [e1]
          have hne0 : ¬ (((p - off : Nat) : Int) = 0 ∧ off < total ∧ total > 0) := by omega
          have hnp : ¬ (((p - off : Nat) : Int) < 0 ∨ False ∨ off + (((p - off : Nat) : Int)).toNat > total) := by
            have hpt := h.le_total (m - 1) (by omega)
            rw [hp] at hpt
            have hsum : off + (p - off) = p := by omega
            simp only [Int.toNat_natCast, hsum]
            rintro (h1 | h2 | h3)
            · exact absurd h1 (Int.not_lt.mpr (Int.natCast_nonneg _))
            · exact h2
            · omega
          rw [if_neg hne0, if_neg hnp]; simp
        · refine ⟨?_, by omega, Or.inr ?_, ?_, by omega⟩
          · have := h.le_total (m - 1) (by omega); rw [hp] at this; omega
          · have : off + (p - off) = p := by omega
            rw [this]; exact hprevmem
          · intro e he hoe
            have : off + (p - off) = p := by omega
            rw [this] at hoe
            rcases hbefore e he with h1 | h2
            · exfalso
              obtain ⟨j, hj, hje⟩ := (mem_iff_getD ends e).1 he
              have hjm : j < m := by
                rw [← hm]; exact searchInts_mem_lt ends h.sorted _ j hj (by rw [hje]; exact h1)
              by_cases hjl : j = m - 1
              · rw [hjl, hp] at hje; omega
              · have := sorted_getD_lt ends h.sorted j (m - 1) (by omega) (by omega)
                rw [hje, hp] at this; omega
            · have hgt := hcut.2
              have : c0 = cnt := by
                by_cases hcc : c0 < cnt
                · have := hc0le.2.2 hcc
                  have := h.le_total m hcut.1
                  omega
                · omega
              omega
    · -- m = 0: no end before off + c0 at all, so off = 0 and the first entry does not fit
      have hm0' : m = 0 := by omega
      simp only [hm0, if_false]
      have hoff0 : off = 0 := by
        rcases hoff with h0 | hmem
        · exact h0
        · exfalso
          obtain ⟨j, hj, he⟩ := (mem_iff_getD ends off).1 hmem
          have h0le : ends.getD 0 0 ≤ off := by
            by_cases hj0 : j = 0
            · subst hj0; rw [he]; exact Nat.le_refl _
            · rw [← he]; exact Nat.le_of_lt (sorted_getD_lt ends h.sorted 0 j (by omega) hj)
          have := hcut.2
          rw [hm0'] at this
          omega
      subst hoff0
      right
      have hlt : 0 < total := by
        have := h.le_total m hcut.1
        have := hcut.2
        omega
      simp only [hlt, and_self, true_and, if_true]
      refine ⟨hlt, fun e he _ => ?_⟩
      rcases hbefore e he with h1 | h2
      · exfalso
        obtain ⟨j, hj, hje⟩ := (mem_iff_getD ends e).1 he
        have : j < m := by rw [← hm]; exact searchInts_mem_lt ends h.sorted _ j hj (by rw [hje]; exact h1)
        omega
      · have hgt := hcut.2
        have : c0 = cnt := by
          by_cases hcc : c0 < cnt
          · have := hc0le.2.2 hcc
            have := h.le_total m hcut.1
            omega
          · omega
        omega
  · -- no cut: the window ends exactly at an entry end (or at the end of the directory)
    simp only [hcut, if_false]
    by_cases hz : c0 = 0
    · subst hz
      by_cases hlt : off < total
      · -- cnt = 0 with entries left: too small
        right
        have hcnt : cnt = 0 := by
          by_cases hcc : 0 < cnt
          · have := hc0le.2.2 hcc; omega
          · omega
        have : ((0 : Nat) : Int) = 0 := rfl
        simp only [this, true_and]
        have : off < total ∧ total > 0 := by omega
        simp only [this, and_self, if_true]
        refine ⟨trivial, hlt, fun e he hoe => by omega⟩
      · left
        refine ⟨0, ?_, ?_⟩
        · have hn : ¬ (((0 : Nat) : Int) = 0 ∧ off < total ∧ total > 0) := by omega
          have hnp : ¬ (((0 : Nat) : Int) < 0 ∨ False ∨ off + (((0 : Nat) : Int)).toNat > total) := by
            rintro (h1 | h2 | h3)
            · exact absurd h1 (by decide)
            · exact h2
            · simp at h3; omega
          rw [if_neg hn, if_neg hnp]; rfl
        · refine ⟨by omega, by omega, Or.inl rfl, fun e he hoe => ?_, fun _ => by omega⟩
          obtain ⟨j, hj, hje⟩ := (mem_iff_getD ends e).1 he
          have := h.le_total j hj
          omega
    · left
      refine ⟨c0, ?_, ?_⟩
      · have hn : ¬ (((c0 : Nat) : Int) = 0 ∧ off < total ∧ total > 0) := by omega
        have hnp : ¬ (((c0 : Nat) : Int) < 0 ∨ False ∨ off + (((c0 : Nat) : Int)).toNat > total) := by
          simp only [Int.toNat_natCast]
          rintro (h1 | h2 | h3)
          · exact absurd h1 (Int.not_lt.mpr (Int.natCast_nonneg _))
          · exact h2
          · omega
        rw [if_neg hn, if_neg hnp]; simp
      · -- off + c0 is an end: either it is the total, or ends[m] = off + c0
        have hend : off + c0 ∈ ends := by
          by_cases htt : off + c0 = total
          · have hne : ends ≠ [] := by
              intro e
              have := h.tot; rw [e] at this; simp at this; omega
            rw [htt, ← h.total_mem hne]
            exact (mem_iff_getD ends _).2 ⟨ends.length - 1, by
              have : 0 < ends.length := List.length_pos_iff.mpr hne
              omega, rfl⟩
          · -- then c0 = cnt < total - off, m < length (total is an end ≥ off + c0) and ends[m] = off + c0
            have hne : ends ≠ [] := by
              intro e
              have := h.tot; rw [e] at this; simp at this; omega
            have hlen : 0 < ends.length := List.length_pos_iff.mpr hne
            have hml : m < ends.length := by
              by_cases hml : m < ends.length
              · exact hml
              · exfalso
                have hmeq : m = ends.length := by omega
                have := searchInts_lt ends (off + c0) (ends.length - 1) (by rw [hm]; omega)
                rw [h.total_mem hne] at this
                omega
            have hge := searchInts_ge ends (off + c0) (by rw [hm]; exact hml)
            rw [hm] at hge
            have : ends.getD m 0 = off + c0 := by
              have := fun hh => hcut ⟨hml, hh⟩
              omega
            rw [← this]
            exact (mem_iff_getD ends _).2 ⟨m, hml, rfl⟩
        refine ⟨by omega, by omega, Or.inr hend, fun e he hoe => ?_, fun hh => absurd hh hz⟩
        by_cases hcc : c0 < cnt
        · have := hc0le.2.2 hcc
          obtain ⟨j, hj, hje⟩ := (mem_iff_getD ends e).1 he
          have := h.le_total j hj
          omega
        · have : c0 = cnt := by omega
          omega

end G9.Ufs
