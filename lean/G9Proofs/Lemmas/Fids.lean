import G9.SrvSeq
namespace G9.Srv

theorem lookup_nil (k : UInt32) : lookup [] k = none := rfl

theorem lookup_cons (p : UInt32 × FidRec) (fs : Fids) (k : UInt32) :
    lookup (p :: fs) k = if p.1 = k then some p.2 else lookup fs k := by
  unfold lookup
  by_cases h : p.1 = k <;> simp [List.find?_cons, h]

theorem lookup_modFid (fs : Fids) (k k' : UInt32) (g : FidRec → FidRec) :
    lookup (modFid fs k g) k' = if k' = k then (lookup fs k').map g else lookup fs k' := by
  induction fs with
  | nil => simp [modFid, lookup_nil]
  | cons p fs ih =>
    unfold modFid at ih ⊢
    rw [List.map_cons, lookup_cons, lookup_cons, ih]
    by_cases h1 : p.1 = k <;> by_cases h2 : k' = k <;> by_cases h3 : p.1 = k' <;> simp_all

theorem lookup_incRef (fs : Fids) (k k' : UInt32) :
    lookup (incRef fs k) k' =
      if k' = k then (lookup fs k').map (fun r => { r with ref := r.ref + 1 }) else lookup fs k' :=
  lookup_modFid fs k k' _

theorem lookup_erase (fs : Fids) (k k' : UInt32) :
    lookup (erase fs k) k' = if k' = k then none else lookup fs k' := by
  induction fs with
  | nil => simp [erase, lookup_nil]
  | cons p fs ih =>
    unfold erase at ih ⊢
    by_cases h1 : p.1 = k
    · have : (p.1 != k) = false := by simp [h1]
      rw [List.filter_cons, this]
      simp only [Bool.false_eq_true, if_false]
      rw [ih, lookup_cons]
      by_cases h2 : k' = k <;> by_cases h3 : p.1 = k' <;> simp_all
    · have : (p.1 != k) = true := by simp [h1]
      rw [List.filter_cons, this]
      simp only [if_true]
      rw [lookup_cons, lookup_cons, ih]
      by_cases h2 : k' = k <;> by_cases h3 : p.1 = k' <;> simp_all

theorem fidNew_some (fs fs' : Fids) (k : UInt32) (u : Nat) (h : fidNew fs k u = some fs') :
    lookup fs k = none ∧ ∀ k', lookup fs' k' = if k' = k then some { user := u } else lookup fs k' := by
  unfold fidNew at h
  split at h
  · cases h
  · rename_i hn
    cases h
    refine ⟨hn, fun k' => ?_⟩
    rw [lookup_cons]
    by_cases h2 : k' = k
    · subst h2; simp
    · have : ¬ k = k' := fun h => h2 h.symm
      simp [h2, this]

theorem fidNew_none (fs : Fids) (k : UInt32) (u : Nat) : fidNew fs k u = none ↔ (lookup fs k).isSome := by
  unfold fidNew
  cases lookup fs k <;> simp

theorem decRef_lookup (fs : Fids) (k k' : UInt32) :
    lookup (decRef fs k).1 k' =
      match lookup fs k with
      | none => lookup fs k'
      | some r =>
        if r.ref ≤ 1 then (if k' = k then none else lookup fs k')
        else (if k' = k then some { r with ref := r.ref - 1 } else lookup fs k') := by
  unfold decRef
  cases h : lookup fs k with
  | none => simp
  | some r =>
    simp only
    split
    · simp [lookup_erase]
    · simp only [lookup_modFid]
      by_cases h2 : k' = k
      · subst h2; simp [h]
      · simp [h2]

theorem decRef_destroyed (fs : Fids) (k : UInt32) :
    (decRef fs k).2 = match lookup fs k with
      | none => []
      | some r => if r.ref ≤ 1 then [k] else [] := by
  unfold decRef
  cases h : lookup fs k with
  | none => rfl
  | some r => simp only; split <;> rfl

end G9.Srv
