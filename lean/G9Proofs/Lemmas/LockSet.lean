import G9.LockSet
namespace G9.LockSet

theorem run_append (guard : Nat → Nat) (h : Holders) (a b : List Ev) :
    run guard h (a ++ b) = (run guard h a).bind (fun h' => run guard h' b) := by
  induction a generalizing h with
  | nil => simp [run]
  | cons e a ih =>
    simp only [List.cons_append, run]
    cases step guard h e with
    | none => rfl
    | some h1 => simp only [Option.bind_some]; exact ih h1

/-- a mutex held by `t` stops being held by `t` only through `t`'s own release -/
theorem released_by_holder (guard : Nat → Nat) (g t : Nat) :
    ∀ (es : List Ev) (h h' : Holders), run guard h es = some h' → h g = some t → h' g ≠ some t →
      ∃ a b hm, es = a ++ ⟨t, .rel g⟩ :: b ∧ run guard h (a ++ [⟨t, .rel g⟩]) = some hm ∧ hm g = none ∧
        run guard hm b = some h' := by
  intro es
  induction es with
  | nil =>
    intro h h' hr hg hn
    simp [run] at hr; subst hr; exact absurd hg hn
  | cons e es ih =>
    intro h h' hr hg hn
    simp only [run] at hr
    cases hs : step guard h e with
    | none => rw [hs] at hr; cases hr
    | some h1 =>
      rw [hs] at hr
      simp only [Option.bind_some] at hr
      by_cases hrel : e = ⟨t, .rel g⟩
      · subst hrel
        refine ⟨[], es, h1, rfl, ?_, ?_, hr⟩
        · simp [run, hs]
        · simp only [step, hg, if_true] at hs
          cases hs; simp [setH]
      · -- the holder of g is unchanged by e
        have hk : h1 g = some t := by
          cases e with
          | mk u op =>
            cases op with
            | acq l =>
              simp only [step] at hs
              split at hs
              · rename_i hl
                cases hs
                by_cases hlg : g = l
                · subst hlg; rw [hg] at hl; cases hl
                · simp [setH, hlg, hg]
              · cases hs
            | rel l =>
              simp only [step] at hs
              split at hs
              · rename_i hl
                cases hs
                by_cases hlg : g = l
                · subst hlg
                  rw [hg] at hl
                  have : t = u := by cases hl; rfl
                  subst this
                  exact absurd rfl hrel
                · simp [setH, hlg, hg]
              · cases hs
            | acc x w =>
              simp only [step] at hs
              split at hs
              · cases hs; exact hg
              · cases hs
        obtain ⟨a, b, hm, he, h1r, h2, h3⟩ := ih h1 h' hr hk hn
        refine ⟨e :: a, b, hm, by rw [he]; rfl, ?_, h2, h3⟩
        simp only [List.cons_append, run, hs, Option.bind_some]
        exact h1r

/-- a mutex comes to be held by `u` only through `u`'s own acquisition -/
theorem acquired_by_holder (guard : Nat → Nat) (g u : Nat) :
    ∀ (es : List Ev) (h h' : Holders), run guard h es = some h' → h g ≠ some u → h' g = some u →
      ∃ a b, es = a ++ ⟨u, .acq g⟩ :: b := by
  intro es
  induction es with
  | nil =>
    intro h h' hr hn hg
    simp [run] at hr; subst hr; exact absurd hg hn
  | cons e es ih =>
    intro h h' hr hn hg
    simp only [run] at hr
    cases hs : step guard h e with
    | none => rw [hs] at hr; cases hr
    | some h1 =>
      rw [hs] at hr
      simp only [Option.bind_some] at hr
      by_cases hacq : e = ⟨u, .acq g⟩
      · exact ⟨[], es, by rw [hacq]; rfl⟩
      · have hk : h1 g ≠ some u := by
          cases e with
          | mk v op =>
            cases op with
            | acq l =>
              simp only [step] at hs
              split at hs
              · cases hs
                by_cases hlg : g = l
                · subst hlg
                  simp only [setH, if_true]
                  intro hv
                  have : v = u := by cases hv; rfl
                  subst this
                  exact hacq rfl
                · simp [setH, hlg]; exact hn
              · cases hs
            | rel l =>
              simp only [step] at hs
              split at hs
              · cases hs
                by_cases hlg : g = l
                · subst hlg; simp [setH]
                · simp [setH, hlg]; exact hn
              · cases hs
            | acc x w =>
              simp only [step] at hs
              split at hs
              · cases hs; exact hn
              · cases hs
        obtain ⟨a, b, he⟩ := ih h1 h' hr hk hg
        exact ⟨e :: a, b, by rw [he]; rfl⟩

end G9.LockSet
