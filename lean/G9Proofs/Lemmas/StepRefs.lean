import G9Proofs.Lemmas.PreShape
namespace G9.Srv

/-- the reply of a step, spelled out -/
def stepRep (cfg : Cfg) (impl : Impl) (c : Conn) (t : Msg) : Reply :=
  match (pre cfg impl c t).pre with
  | .refuse e => .err e
  | .answer _ a => fitReply (pre cfg impl c t).c a

theorem step_reply (cfg : Cfg) (impl : Impl) (c : Conn) (t : Msg) :
    (step cfg impl c t).2.reply = stepRep cfg impl c t := by
  rfl

/-- the table after the post-handler, before the request's own references are released -/
def stepPost (cfg : Cfg) (impl : Impl) (c : Conn) (t : Msg) : Conn × List UInt32 :=
  if (pre cfg impl c t).held.isEmpty then ((pre cfg impl c t).c, [])
  else post (pre cfg impl c t).c t (stepRep cfg impl c t)

theorem step_fids (cfg : Cfg) (impl : Impl) (c : Conn) (t : Msg) :
    (step cfg impl c t).1.fids =
      (decRefs (stepPost cfg impl c t).1.fids (pre cfg impl c t).held).1 := by
  rfl

theorem step_destroyed (cfg : Cfg) (impl : Impl) (c : Conn) (t : Msg) :
    (step cfg impl c t).2.destroyed =
      (stepPost cfg impl c t).2 ++ (decRefs (stepPost cfg impl c t).1.fids (pre cfg impl c t).held).2 := by
  rfl

theorem step_msize (cfg : Cfg) (impl : Impl) (c : Conn) (t : Msg) :
    (step cfg impl c t).1.msize = (stepPost cfg impl c t).1.msize ∧
    (step cfg impl c t).1.dotu = (stepPost cfg impl c t).1.dotu := by
  exact ⟨rfl, rfl⟩

/-- net effect of one request on the reference count of every fid number -/
theorem step_refOf (cfg : Cfg) (impl : Impl) (c : Conn) (t : Msg) (h : RefsPos c.fids) (k : UInt32) :
    RefsPos (step cfg impl c t).1.fids ∧
    refOf (step cfg impl c t).1.fids k =
      if (pre cfg impl c t).held.isEmpty then refOf c.fids k
      else (refOf c.fids k + postRet (pre cfg impl c t).c.fids t (stepRep cfg impl c t) k)
            - postRel t (stepRep cfg impl c t) k := by
  obtain ⟨hp, hr⟩ := pre_refs cfg impl c t h
  rw [step_fids]
  unfold stepPost
  by_cases he : (pre cfg impl c t).held.isEmpty = true
  · simp only [he, if_true]
    refine ⟨RefsPos_decRefs _ _ hp, ?_⟩
    rw [refOf_decRefs, hr]
    have : (pre cfg impl c t).held = [] := by simpa using he
    simp [this]
  · have he' : (pre cfg impl c t).held.isEmpty = false := by simpa using he
    simp only [he', Bool.false_eq_true, if_false]
    obtain ⟨hp2, hr2, _⟩ := post_refs (pre cfg impl c t).c t (stepRep cfg impl c t) hp
    refine ⟨RefsPos_decRefs _ _ hp2, ?_⟩
    rw [refOf_decRefs, hr2, hr]
    omega

end G9.Srv
