import G9Proofs.Lemmas.LifeProgress
namespace G9.Life

theorem inv_run : ∀ (es : List Ev) (s s' : LS), Inv s → s.run es = some s' → Inv s'
  | [], s, s', h, hr => by simp [LS.run] at hr; subst hr; exact h
  | e :: es, s, s', h, hr => by
    simp only [LS.run] at hr
    cases hs : s.step e with
    | none => rw [hs] at hr; cases hr
    | some s1 => rw [hs] at hr; exact inv_run es s1 s' (inv_step s s1 e h hs) hr

theorem nr_run : ∀ (es : List Ev) (s s' : LS), NR s → s.run es = some s' → NR s'
  | [], s, s', h, hr => by simp [LS.run] at hr; subst hr; exact h
  | e :: es, s, s', h, hr => by
    simp only [LS.run] at hr
    cases hs : s.step e with
    | none => rw [hs] at hr; cases hr
    | some s1 => rw [hs] at hr; exact nr_run es s1 s' (nr_step s s1 e h hs) hr

theorem run_append (s : LS) (a b : List Ev) : s.run (a ++ b) = (s.run a).bind (fun s' => s'.run b) := by
  induction a generalizing s with
  | nil => simp [LS.run]
  | cons e a ih =>
    simp only [List.cons_append, LS.run]
    cases s.step e with
    | none => rfl
    | some s1 => simp only [Option.bind_some]; exact ih s1

/-- the wire only ever grows at its end, and the request counter never decreases -/
theorem wire_step (s s' : LS) (e : Ev) (hs : s.step e = some s') :
    (∃ l, s'.wire = s.wire ++ l) ∧ s.n ≤ s'.n := by
  cases e with
  | send =>
    simp only [LS.step] at hs
    split at hs
    · cases hs
    · split at hs
      · cases hs
      · cases hs; exact ⟨⟨_, rfl⟩, Nat.le_refl _⟩
  | recv tag oldtag =>
    simp only [LS.step] at hs
    split at hs
    · cases hs
    · cases hs; exact ⟨⟨[], by simp⟩, Nat.le_succ _⟩
  | _ =>
    simp only [LS.step] at hs
    (repeat' split at hs) <;> first | cases hs | skip
    all_goals exact ⟨⟨[], by simp⟩, Nat.le_refl _⟩

theorem wire_run : ∀ (es : List Ev) (s s' : LS), s.run es = some s' → (∃ l, s'.wire = s.wire ++ l) ∧ s.n ≤ s'.n
  | [], s, s', hr => by simp [LS.run] at hr; subst hr; exact ⟨⟨[], by simp⟩, Nat.le_refl _⟩
  | e :: es, s, s', hr => by
    simp only [LS.run] at hr
    cases hs : s.step e with
    | none => rw [hs] at hr; cases hr
    | some s1 =>
      rw [hs] at hr
      obtain ⟨⟨l1, h1⟩, n1⟩ := wire_step s s1 e hs
      obtain ⟨⟨l2, h2⟩, n2⟩ := wire_run es s1 s' hr
      exact ⟨⟨l1 ++ l2, by rw [h2, h1, List.append_assoc]⟩, Nat.le_trans n1 n2⟩

end G9.Life
