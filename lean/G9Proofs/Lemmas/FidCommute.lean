/-
  Why the fid-table acceptor may replay a `retain` that read `conn.done` open *after* regions that
  were logged before it: the open variant of retain on object `o` commutes with every event that
  does not concern `o`.
-/
import G9.FidLife
namespace G9.FidLife

/-- the effect of `retain o` on a connection that is still open -/
def retainOpen (s : FS) (o : Nat) : FS :=
  setO s o { (s.obj o) with ref := (s.obj o).ref + 1, tbl := true, pending := false }

/-- the object an event works on, if any (`visit`: the head of Conn.close's copy) -/
def target (s : FS) : FEv → Option Nat
  | .get o | .retain o | .inc o | .release o | .dec o | .unpool o | .dstr o | .call o => some o
  | .visit => s.snap.bind List.head?
  | _ => none

theorem obj_retainOpen_other (s : FS) (o o' : Nat) (h : o' ≠ o) : (retainOpen s o).obj o' = s.obj o' := by
  simp [retainOpen, setO, updO, h]

theorem num_retainOpen (s : FS) (o o' : Nat) : ((retainOpen s o).obj o').num = (s.obj o').num := by
  by_cases h : o' = o
  · subst h; simp [retainOpen, setO]
  · rw [obj_retainOpen_other s o o' h]

theorem FS.ext' (a b : FS) (h1 : a.n = b.n) (h2 : ∀ i, a.obj i = b.obj i) (h3 : a.pool = b.pool)
    (h4 : a.closed = b.closed) (h5 : a.snap = b.snap) : a = b := by
  obtain ⟨an, ao, ap, ac, asn⟩ := a
  obtain ⟨bn, bo, bp, bc, bsn⟩ := b
  simp only at h1 h2 h3 h4 h5
  have h2' : ao = bo := funext h2
  subst h1 h2' h3 h4 h5
  rfl

/-- an update of another object commutes with `retainOpen` -/
theorem setO_retainOpen (s : FS) (o o' : Nat) (v : FObj) (h : o' ≠ o) :
    setO (retainOpen s o) o' v = retainOpen (setO s o' v) o := by
  apply FS.ext' <;> try rfl
  intro i
  have hne : o ≠ o' := Ne.symm h
  by_cases h1 : i = o'
  · subst h1
    simp [retainOpen, setO, updO, h]
  · by_cases h2 : i = o
    · subst h2
      simp [retainOpen, setO, updO, h1, hne]
    · simp [retainOpen, setO, updO, h1, h2]

theorem inpool_retainOpen (s : FS) (o x : Nat) : (retainOpen s o).inpool x ↔ s.inpool x := by
  unfold FS.inpool
  rw [num_retainOpen]
  exact Iff.rfl

/-- `retainOpen o` commutes with every event that does not concern `o` -/
theorem retainOpen_commutes (s s' : FS) (o : Nat) (e : FEv) (ho : o < s.n) (ht : target s e ≠ some o)
    (hs : s.step e = some s') : (retainOpen s o).step e = some (retainOpen s' o) := by
  have hn : (retainOpen s o).n = s.n := rfl
  have hp : (retainOpen s o).pool = s.pool := rfl
  have hc : (retainOpen s o).closed = s.closed := rfl
  have hsn : (retainOpen s o).snap = s.snap := rfl
  cases e with
  | get o' =>
    have hne : o' ≠ o := fun h => ht (by simp [target, h])
    simp only [FS.step, hn, obj_retainOpen_other s o o' hne] at hs ⊢
    split at hs
    · rename_i h1
      rw [if_pos h1]
      split at hs
      · rename_i h2; cases hs; rw [if_pos h2]
      · rename_i h2; cases hs; rw [if_neg h2, setO_retainOpen _ _ _ _ hne]
    · cases hs
  | look k r =>
    simp only [FS.step, hn, hp] at hs ⊢
    split at hs
    · rename_i h1; cases hs; rw [if_pos h1]
    · cases hs
  | retain o' =>
    have hne : o' ≠ o := fun h => ht (by simp [target, h])
    simp only [FS.step, hn, hc, obj_retainOpen_other s o o' hne] at hs ⊢
    split at hs
    · rename_i h1
      rw [if_pos h1]
      split at hs
      · rename_i h2; cases hs; rw [if_pos h2, setO_retainOpen _ _ _ _ hne]
      · rename_i h2; cases hs; rw [if_neg h2, setO_retainOpen _ _ _ _ hne]
    · cases hs
  | inc o' =>
    have hne : o' ≠ o := fun h => ht (by simp [target, h])
    simp only [FS.step, hn, obj_retainOpen_other s o o' hne] at hs ⊢
    split at hs
    · rename_i h1; cases hs; rw [if_pos h1, setO_retainOpen _ _ _ _ hne]
    · cases hs
  | release o' =>
    have hne : o' ≠ o := fun h => ht (by simp [target, h])
    simp only [FS.step, hn, obj_retainOpen_other s o o' hne] at hs ⊢
    split at hs
    · rename_i h1
      rw [if_pos h1]
      split at hs
      · rename_i h2; cases hs; rw [if_pos h2, setO_retainOpen _ _ _ _ hne]
      · rename_i h2; cases hs; rw [if_neg h2]
    · cases hs
  | dec o' =>
    have hne : o' ≠ o := fun h => ht (by simp [target, h])
    simp only [FS.step, hn, obj_retainOpen_other s o o' hne] at hs ⊢
    split at hs
    · rename_i h1; cases hs; rw [if_pos h1, setO_retainOpen _ _ _ _ hne]
    · cases hs
  | dstr o' =>
    have hne : o' ≠ o := fun h => ht (by simp [target, h])
    simp only [FS.step, hn, obj_retainOpen_other s o o' hne] at hs ⊢
    split at hs
    · rename_i h1
      rw [if_pos h1]
      split at hs
      · rename_i h2; cases hs; rw [if_pos h2, setO_retainOpen _ _ _ _ hne]
      · rename_i h2; cases hs; rw [if_neg h2, setO_retainOpen _ _ _ _ hne]
    · cases hs
  | call o' =>
    have hne : o' ≠ o := fun h => ht (by simp [target, h])
    simp only [FS.step, hn, obj_retainOpen_other s o o' hne] at hs ⊢
    split at hs
    · rename_i h1; cases hs; rw [if_pos h1, setO_retainOpen _ _ _ _ hne]
    · cases hs
  | closeDone =>
    simp only [FS.step, hc] at hs ⊢
    split at hs
    · cases hs
    · rename_i h1; cases hs; rw [if_neg h1]; rfl
  | unpool o' =>
    have hne : o' ≠ o := fun h => ht (by simp [target, h])
    simp only [FS.step, hn, hp, obj_retainOpen_other s o o' hne] at hs ⊢
    split at hs
    · rename_i h1
      rw [if_pos h1]
      split at hs
      · rename_i h2; cases hs; rw [if_pos h2, setO_retainOpen _ _ _ _ hne]; rfl
      · rename_i h2; cases hs; rw [if_neg h2, setO_retainOpen _ _ _ _ hne]
    · cases hs
  | snapshot l =>
    simp only [FS.step, hn, hc, hsn, inpool_retainOpen] at hs ⊢
    split at hs
    · rename_i h1; cases hs; rw [if_pos h1]; rfl
    · cases hs
  | visit =>
    simp only [FS.step, hsn] at hs ⊢
    split at hs
    · rename_i o' rest hsnap
      have hne : o' ≠ o := fun h => ht (by simp [target, hsnap, h])
      simp only [obj_retainOpen_other s o o' hne]
      split at hs
      · rename_i h2; cases hs; rw [if_pos h2, setO_retainOpen _ _ _ _ hne]; rfl
      · rename_i h2; cases hs; rw [if_neg h2]; rfl
    · cases hs
  | new k =>
    simp only [FS.step, hn, hp] at hs ⊢
    split at hs
    · cases hs
    · rename_i hfree
      cases hs
      congr 1
      apply FS.ext' <;> try rfl
      intro i
      have hne : s.n ≠ o := Nat.ne_of_gt ho
      simp only [retainOpen, setO, updO]
      by_cases h1 : i = s.n
      · subst h1; simp [hne]
      · by_cases h2 : i = o
        · subst h2; simp [h1, Ne.symm hne]
        · simp [h1, h2]

/-- …and so with any sequence of them: replaying a `retain` that read `conn.done` open at the place
    where it is *logged* gives the state of the schedule in which it ran where it *read*. -/
theorem retainOpen_commutes_run (es : List FEv) (s s' : FS) (o : Nat) (ho : o < s.n)
    (ht : ∀ (pre : List FEv) (e : FEv) (post : List FEv) (t : FS), es = pre ++ e :: post → s.run pre = some t →
      target t e ≠ some o)
    (hs : s.run es = some s') : (retainOpen s o).run es = some (retainOpen s' o) := by
  induction es generalizing s with
  | nil => simp only [FS.run] at hs ⊢; cases hs; rfl
  | cons e es ih =>
    simp only [FS.run] at hs ⊢
    cases h1 : s.step e with
    | none => rw [h1] at hs; cases hs
    | some s1 =>
      rw [h1] at hs
      have hc := retainOpen_commutes s s1 o e ho (ht [] e es s rfl rfl) h1
      rw [hc]
      simp only [Option.bind_some] at hs ⊢
      have ho1 : o < s1.n := by
        have : s.n ≤ s1.n := by
          cases e <;> simp only [FS.step] at h1 <;> (repeat' split at h1) <;>
            first | (cases h1; first | exact Nat.le_refl _ | exact Nat.le_succ _) | cases h1
        omega
      exact ih s1 ho1 (fun pre e' post t hes hrun => ht (e :: pre) e' post t (by rw [hes]; rfl)
        (by simp only [FS.run, h1, Option.bind_some]; exact hrun)) hs

end G9.FidLife
