/-
  Which user a fid is bound to, and how one request can change that (C04: "stays valid and
  bound to the same user across any number of failed, partial or unrelated operations").
-/
import G9Proofs.Lemmas.StepRefs
namespace G9.Srv

/-- the user a fid number is bound to, if it is in the table -/
def userAt (fs : Fids) (k : UInt32) : Option Nat := (lookup fs k).map (·.user)

/-- nothing that was bound is lost or rebound -/
def Keeps (fs fs' : Fids) : Prop := ∀ k u, userAt fs k = some u → userAt fs' k = some u

/-- entries only disappear; what remains is bound as before -/
def Shrinks (fs fs' : Fids) : Prop := ∀ k, userAt fs' k = none ∨ userAt fs' k = userAt fs k

theorem userAt_modFid (fs : Fids) (k k' : UInt32) (g : FidRec → FidRec) :
    userAt (modFid fs k g) k' =
      if k' = k then (lookup fs k').map (fun r => (g r).user) else userAt fs k' := by
  unfold userAt
  rw [lookup_modFid]
  by_cases h : k' = k
  · simp only [h, if_true]; cases lookup fs k <;> rfl
  · simp only [h, if_false]

theorem userAt_modFid_keep (fs : Fids) (k k' : UInt32) (g : FidRec → FidRec)
    (hg : ∀ r, (g r).user = r.user) : userAt (modFid fs k g) k' = userAt fs k' := by
  rw [userAt_modFid]
  by_cases h : k' = k
  · simp only [h, if_true]; unfold userAt; cases lookup fs k <;> simp [hg]
  · simp only [h, if_false]

theorem userAt_incRef (fs : Fids) (k k' : UInt32) : userAt (incRef fs k) k' = userAt fs k' :=
  userAt_modFid_keep fs k k' _ (fun _ => rfl)

theorem userAt_new (fs fs' : Fids) (k k' : UInt32) (u : Nat) (h : fidNew fs k u = some fs') :
    userAt fs k = none ∧ userAt fs' k' = if k' = k then some u else userAt fs k' := by
  obtain ⟨h0, h1⟩ := fidNew_some fs fs' k u h
  unfold userAt
  rw [h0, h1]
  by_cases hk : k' = k <;> simp [hk]

theorem keeps_refl (fs : Fids) : Keeps fs fs := fun _ _ h => h

theorem keeps_step_mod (fs0 fs : Fids) (k : UInt32) (g : FidRec → FidRec)
    (hg : ∀ r, (g r).user = r.user) (h : Keeps fs0 fs) : Keeps fs0 (modFid fs k g) := by
  intro k' u hu
  rw [userAt_modFid_keep _ _ _ _ hg]
  exact h k' u hu

theorem keeps_step_inc (fs0 fs : Fids) (k : UInt32) (h : Keeps fs0 fs) : Keeps fs0 (incRef fs k) :=
  keeps_step_mod fs0 fs k _ (fun _ => rfl) h

theorem keeps_step_new (fs0 fs fs' : Fids) (k : UInt32) (u : Nat) (hn : fidNew fs k u = some fs')
    (h : Keeps fs0 fs) : Keeps fs0 fs' := by
  intro k' u' hu
  have h1 := h k' u' hu
  obtain ⟨h0, h2⟩ := userAt_new fs fs' k k' u hn
  rw [h2]
  by_cases hk : k' = k
  · subst hk; rw [h0] at h1; cases h1
  · simp only [hk, if_false]; exact h1

/-- a record may be changed at will at a number that was not bound -/
theorem keeps_mod_fresh (fs0 fs : Fids) (k : UInt32) (g : FidRec → FidRec)
    (hf : userAt fs0 k = none) (h : Keeps fs0 fs) : Keeps fs0 (modFid fs k g) := by
  intro k' u hu
  rw [userAt_modFid]
  by_cases hk : k' = k
  · subst hk; rw [hf] at hu; cases hu
  · simp only [hk, if_false]; exact h k' u hu

theorem shrinks_refl (fs : Fids) : Shrinks fs fs := fun _ => Or.inr rfl

theorem shrinks_trans (a b c : Fids) (h1 : Shrinks a b) (h2 : Shrinks b c) : Shrinks a c := by
  intro k
  rcases h2 k with h | h
  · exact Or.inl h
  · rcases h1 k with h' | h'
    · left; rw [h, h']
    · right; rw [h, h']

theorem shrinks_of_same (fs fs' : Fids) (h : ∀ k, userAt fs' k = userAt fs k) : Shrinks fs fs' :=
  fun k => Or.inr (h k)

theorem shrinks_decRef (fs : Fids) (k : UInt32) : Shrinks fs (decRef fs k).1 := by
  intro k'
  unfold userAt
  rw [decRef_lookup]
  cases h : lookup fs k with
  | none => right; rfl
  | some r =>
    simp only
    split
    · by_cases hk : k' = k
      · left; simp [hk]
      · right; simp [hk]
    · by_cases hk : k' = k
      · right; subst hk; simp [h]
      · right; simp [hk]

theorem shrinks_decRefs (fs : Fids) (ks : List UInt32) : Shrinks fs (decRefs fs ks).1 := by
  induction ks generalizing fs with
  | nil => exact shrinks_refl fs
  | cons k ks ih =>
    simp only [decRefs]
    exact shrinks_trans _ _ _ (shrinks_decRef fs k) (ih _)

theorem userAt_new_none (fs fs' : Fids) (k : UInt32) (u : Nat) (h : fidNew fs k u = some fs') :
    userAt fs k = none := (userAt_new fs fs' k k u h).1

/-- closes `Keeps c.fids X` for the tables the pre-reply part of a handler builds -/
macro "keeps_tac" : tactic => `(tactic| (
  repeat (first
    | exact keeps_refl _
    | apply keeps_step_inc
    | refine keeps_step_mod _ _ _ _ (by intro _; rfl) ?_
    | refine keeps_step_new _ _ _ _ _ (by assumption) ?_
    | refine keeps_mod_fresh _ _ _ _ (userAt_new_none _ _ _ _ (by assumption)) ?_)))

/-- the pre-reply part of any request leaves every bound fid bound to its user -/
theorem pre_keeps (cfg : Cfg) (impl : Impl) (c : Conn) (t : Msg) :
    Keeps c.fids (pre cfg impl c t).c.fids := by
  unfold pre
  cases t <;> simp only [msgFid] <;> (repeat' split) <;> (try dsimp only) <;> keeps_tac

/-- the same bindings -/
def Same (fs fs' : Fids) : Prop := ∀ k, userAt fs' k = userAt fs k

theorem same_refl (fs : Fids) : Same fs fs := fun _ => rfl

theorem same_step_mod (fs0 fs : Fids) (k : UInt32) (g : FidRec → FidRec)
    (hg : ∀ r, (g r).user = r.user) (h : Same fs0 fs) : Same fs0 (modFid fs k g) := by
  intro k'
  rw [userAt_modFid_keep _ _ _ _ hg]
  exact h k'

theorem same_step_inc (fs0 fs : Fids) (k : UInt32) (h : Same fs0 fs) : Same fs0 (incRef fs k) :=
  same_step_mod fs0 fs k _ (fun _ => rfl) h

macro "same_tac" : tactic => `(tactic| (
  repeat (first
    | exact same_refl _
    | apply same_step_inc
    | refine same_step_mod _ _ _ _ (by intro x; first | rfl | (split <;> rfl)) ?_);
  done))

/-- the post-handler of any request only removes entries -/
theorem post_shrinks (c : Conn) (t : Msg) (rep : Reply) : Shrinks c.fids (post c t rep).1.fids := by
  unfold post
  cases postKind t rep <;> simp only <;> (repeat' split) <;> (try dsimp only) <;>
    first
    | (apply shrinks_of_same; same_tac)
    | exact shrinks_decRef _ _

/-- One request, whatever it is and whatever the implementation answers: a fid that is in the
    table before and after is bound to the same user. -/
theorem step_user (cfg : Cfg) (impl : Impl) (c : Conn) (t : Msg) (k : UInt32) (u : Nat)
    (h : userAt c.fids k = some u) :
    userAt (step cfg impl c t).1.fids k = none ∨ userAt (step cfg impl c t).1.fids k = some u := by
  have h1 := pre_keeps cfg impl c t k u h
  have h2 : Shrinks (pre cfg impl c t).c.fids (stepPost cfg impl c t).1.fids := by
    unfold stepPost
    split
    · exact shrinks_refl _
    · exact post_shrinks _ _ _
  have h3 := shrinks_trans _ _ _ h2 (shrinks_decRefs (stepPost cfg impl c t).1.fids (pre cfg impl c t).held)
  rw [step_fids]
  rcases h3 k with h4 | h4
  · exact Or.inl h4
  · right; rw [h4, h1]

/-- who a request binds a new fid to: Tauth/Tattach the user the request names, Twalk the user
    of the fid walked from; no other request binds anything -/
def NewBy (cfg : Cfg) (c : Conn) (t : Msg) (k : UInt32) (u : Nat) : Prop :=
  match t with
  | .tauth afid un _ n => k = afid ∧ userOf cfg c un n = some u
  | .tattach fid _ un _ n => k = fid ∧ userOf cfg c un n = some u
  | .twalk f nf _ => k = nf ∧ userAt c.fids f = some u
  | _ => False

def refused (m : Mid) : Prop := ∃ e, m.pre = .refuse e

theorem lookup_user {fs : Fids} {k : UInt32} {r : FidRec} (h : lookup fs k = some r) :
    userAt fs k = some r.user := by unfold userAt; rw [h]; rfl

theorem same_contra {fs fs' : Fids} {k : UInt32} {u : Nat} {P : Prop} (hs : Same fs fs')
    (h0 : userAt fs k = none) (h1 : userAt fs' k = some u) : P := by
  rw [hs k, h0] at h1; cases h1

/-- a fresh fid whose record is then given user `u'` -/
theorem new_set_user (fs0 fs' X : Fids) (k0 k : UInt32) (u0 u' u : Nat) (g : FidRec → FidRec)
    (hg : ∀ r, (g r).user = u') (hn : fidNew fs0 k0 u0 = some fs') (hs : Same fs' X)
    (h0 : userAt fs0 k = none) (h1 : userAt (modFid X k0 g) k = some u) : k = k0 ∧ u' = u := by
  rw [userAt_modFid] at h1
  obtain ⟨_, h2⟩ := userAt_new fs0 fs' k0 k u0 hn
  by_cases hk : k = k0
  · subst hk
    simp only [if_true] at h1 h2
    have h3 := hs k
    rw [h2] at h3
    unfold userAt at h3
    cases hl : lookup X k with
    | none => rw [hl] at h3; cases h3
    | some r => rw [hl] at h1; simp only [Option.map_some, hg, Option.some.injEq] at h1; exact ⟨rfl, h1⟩
  · simp only [hk, if_false] at h1 h2
    rw [hs k, h2, h0] at h1; cases h1

/-- a fresh fid created with user `u0` whose record then keeps its user -/
theorem new_keep_user (fs0 X0 fs' X : Fids) (k0 k : UInt32) (u0 u : Nat)
    (hn : fidNew X0 k0 u0 = some fs') (hs0 : Same fs0 X0) (hs : Same fs' X)
    (h0 : userAt fs0 k = none) (h1 : userAt X k = some u) : k = k0 ∧ u0 = u := by
  obtain ⟨_, h2⟩ := userAt_new X0 fs' k0 k u0 hn
  rw [hs k, h2] at h1
  by_cases hk : k = k0
  · simp only [hk, if_true, Option.some.injEq] at h1; exact ⟨hk, h1⟩
  · simp only [hk, if_false] at h1; rw [hs0 k, h0] at h1; cases h1

theorem pre_new (cfg : Cfg) (impl : Impl) (c : Conn) (t : Msg) (k : UInt32) (u : Nat)
    (h0 : userAt c.fids k = none) :
    userAt (pre cfg impl c t).c.fids k = some u → refused (pre cfg impl c t) ∨ NewBy cfg c t k u := by
  unfold pre
  cases t with
  | tauth afid un an n =>
    simp only
    repeat' split
    all_goals (try dsimp only)
    all_goals (intro h1)
    all_goals first
      | (left; exact ⟨_, rfl⟩)
      | skip
    all_goals first
      | (refine same_contra ?_ h0 h1; same_tac)
      | (obtain ⟨e1, e2⟩ := new_set_user _ _ _ _ _ _ _ _ _ (by intro _; rfl) (by assumption) (by same_tac) h0 h1
         right; exact ⟨e1, by rw [← e2]; assumption⟩)
  | tattach fid afid un an n =>
    simp only
    repeat' split
    all_goals (try dsimp only)
    all_goals (intro h1)
    all_goals first
      | (left; exact ⟨_, rfl⟩)
      | skip
    all_goals first
      | (refine same_contra ?_ h0 h1; same_tac)
      | (obtain ⟨e1, e2⟩ := new_set_user _ _ _ _ _ _ _ _ _ (by intro _; rfl) (by assumption) (by same_tac) h0 h1
         right; exact ⟨e1, by rw [← e2]; assumption⟩)
  | twalk f nf names =>
    simp only [msgFid]
    repeat' split
    all_goals (try dsimp only)
    all_goals (intro h1)
    all_goals first
      | (left; exact ⟨_, rfl⟩)
      | skip
    all_goals first
      | (refine same_contra ?_ h0 h1; same_tac)
      | (obtain ⟨e1, e2⟩ := new_keep_user c.fids _ _ _ _ _ _ _ (by assumption) (by same_tac) (by same_tac) h0 h1
         right; exact ⟨e1, by rw [← e2]; exact lookup_user (by assumption)⟩)
  | _ =>
    simp only [msgFid]
    repeat' split
    all_goals (try dsimp only)
    all_goals (intro h1)
    all_goals first
      | (left; exact ⟨_, rfl⟩)
      | (refine same_contra ?_ h0 h1; same_tac)

end G9.Srv
