import G9.FrameV
import G9Proofs.Lemmas.Frame
namespace G9.Frame
open G9 Go

/-- the inner loop with its canonical fuel -/
def exV (upd : Cfg → Bytes → Cfg) (cfg : Cfg) (u : Bytes) : List Out × Bytes × Bool × Cfg :=
  extractV upd (u.length + 1) cfg u

theorem extractV_fuel (upd : Cfg → Bytes → Cfg) : ∀ (n : Nat) (cfg : Cfg) (u : Bytes) (f : Nat), u.length ≤ n → u.length < f →
    extractV upd f cfg u = exV upd cfg u := by
  intro n
  induction n with
  | zero =>
    intro cfg u f hn hf
    have : u.length = 0 := by omega
    cases f with
    | zero => omega
    | succ f => unfold exV; rw [this]; simp [extractV, this]
  | succ n ih =>
    intro cfg u f hn hf
    cases f with
    | zero => omega
    | succ f =>
      unfold exV
      rw [extractV, extractV]
      by_cases h4 : u.length ≤ 4
      · simp [h4]
      · simp only [h4, if_false]
        split
        · rfl
        · split
          · rfl
          · split
            · rfl
            · rename_i hg hw hacc
              have hacc' : accepts cfg.dotu (u.take (dec32 (u.take 4)).toNat) = true := by simpa using hacc
              have h7 := accepts_len _ _ hacc'
              rw [List.length_take] at h7
              have hsz : 7 ≤ (dec32 (u.take 4)).toNat := by omega
              have hd : (u.drop (dec32 (u.take 4)).toNat).length ≤ n := by
                rw [List.length_drop]; omega
              rw [ih _ _ f hd (by rw [List.length_drop]; omega), ih _ _ u.length hd (by rw [List.length_drop]; omega)]

theorem exV_unfold (upd : Cfg → Bytes → Cfg) (cfg : Cfg) (u : Bytes) :
    exV upd cfg u =
      if u.length ≤ 4 then ([], u, false, cfg)
      else
        let sz := (dec32 (u.take 4)).toNat
        if cfg.gate && sz > cfg.msize then ([.drop], [], true, cfg)
        else if u.length < sz then ([], u, false, cfg)
        else if !accepts cfg.dotu (u.take sz) then ([.drop], [], true, cfg)
        else
          let r := exV upd (upd cfg (u.take sz)) (u.drop sz)
          (.frame (u.take sz) :: r.1, r.2.1, r.2.2.1, r.2.2.2) := by
  conv => lhs; unfold exV
  rw [extractV]
  by_cases h4 : u.length ≤ 4
  · simp [h4]
  · simp only [h4, if_false]
    split
    · rfl
    · split
      · rfl
      · split
        · rfl
        · rename_i hg hw hacc
          have hacc' : accepts cfg.dotu (u.take (dec32 (u.take 4)).toNat) = true := by simpa using hacc
          have h7 := accepts_len _ _ hacc'
          rw [List.length_take] at h7
          rw [extractV_fuel upd (u.drop (dec32 (u.take 4)).toNat).length _ _ _ (Nat.le_refl _)
            (by rw [List.length_drop]; omega)]

/-- Bytes that arrive later do not change what was already extracted — nor the configuration the
    frames already seen left behind. -/
theorem exV_append (upd : Cfg → Bytes → Cfg) : ∀ (n : Nat) (cfg : Cfg) (u b : Bytes), u.length ≤ n →
    exV upd cfg (u ++ b) =
      if (exV upd cfg u).2.2.1 then ((exV upd cfg u).1, [], true, (exV upd cfg u).2.2.2)
      else
        let r := exV upd (exV upd cfg u).2.2.2 ((exV upd cfg u).2.1 ++ b)
        ((exV upd cfg u).1 ++ r.1, r.2.1, r.2.2.1, r.2.2.2) := by
  intro n
  induction n with
  | zero =>
    intro cfg u b hn
    have : u = [] := List.eq_nil_of_length_eq_zero (by omega)
    subst this
    rw [exV_unfold upd cfg []]
    simp
  | succ n ih =>
    intro cfg u b hn
    rw [exV_unfold upd cfg u]
    by_cases h4 : u.length ≤ 4
    · simp [h4]
    · simp only [h4, if_false]
      have hlen : ¬ (u ++ b).length ≤ 4 := by rw [List.length_append]; omega
      have ht4 : (u ++ b).take 4 = u.take 4 := List.take_append_of_le_length (by omega)
      rw [exV_unfold upd cfg (u ++ b)]
      simp only [hlen, if_false, ht4]
      by_cases hg : (cfg.gate && decide ((dec32 (u.take 4)).toNat > cfg.msize)) = true
      · simp [hg]
      · simp only [hg, Bool.false_eq_true, if_false]
        by_cases hw : u.length < (dec32 (u.take 4)).toNat
        · simp only [hw, if_true, Bool.false_eq_true, if_false]
          rw [exV_unfold upd cfg (u ++ b)]
          simp only [hlen, if_false, ht4, hg, Bool.false_eq_true]
          simp
        · have hle : (dec32 (u.take 4)).toNat ≤ u.length := by omega
          have htk : (u ++ b).take (dec32 (u.take 4)).toNat = u.take (dec32 (u.take 4)).toNat :=
            List.take_append_of_le_length hle
          have hdr : (u ++ b).drop (dec32 (u.take 4)).toNat = u.drop (dec32 (u.take 4)).toNat ++ b :=
            List.drop_append_of_le_length hle
          have hw2 : ¬ (u ++ b).length < (dec32 (u.take 4)).toNat := by rw [List.length_append]; omega
          simp only [hw, hw2, if_false, htk, hdr]
          by_cases hacc : accepts cfg.dotu (u.take (dec32 (u.take 4)).toNat) = true
          · have h7 := accepts_len _ _ hacc
            rw [List.length_take] at h7
            have hd : (u.drop (dec32 (u.take 4)).toNat).length ≤ n := by rw [List.length_drop]; omega
            simp only [hacc, Bool.not_true, Bool.false_eq_true, if_false]
            rw [ih _ _ b hd]
            by_cases hdead : (exV upd (upd cfg (u.take (dec32 (u.take 4)).toNat)) (u.drop (dec32 (u.take 4)).toNat)).2.2.1 = true
            · simp [hdead]
            · simp [hdead]
          · simp [hacc]

theorem exV_dead_rest (upd : Cfg → Bytes → Cfg) : ∀ (n : Nat) (cfg : Cfg) (u : Bytes), u.length ≤ n →
    (exV upd cfg u).2.2.1 = true → (exV upd cfg u).2.1 = [] := by
  intro n
  induction n with
  | zero =>
    intro cfg u hn
    have : u = [] := List.eq_nil_of_length_eq_zero (by omega)
    subst this
    rw [exV_unfold]; simp
  | succ n ih =>
    intro cfg u hn
    rw [exV_unfold]
    by_cases h4 : u.length ≤ 4
    · simp [h4]
    · simp only [h4, if_false]
      split
      · intro _; rfl
      · split
        · intro h; cases h
        · split
          · intro _; rfl
          · rename_i hg hw hacc
            have hacc' : accepts cfg.dotu (u.take (dec32 (u.take 4)).toNat) = true := by simpa using hacc
            have h7 := accepts_len _ _ hacc'
            rw [List.length_take] at h7
            exact ih _ _ (by rw [List.length_drop]; omega)

end G9.Frame
