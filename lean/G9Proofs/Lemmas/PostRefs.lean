import G9Proofs.Lemmas.PreRefs
namespace G9.Srv

def present (fs : Fids) (k : UInt32) : Prop := (lookup fs k).isSome = true

instance (fs : Fids) (k : UInt32) : Decidable (present fs k) := by unfold present; infer_instance

/-- the reference a successful reply retains (attachPost / authPost / walkPost) -/
def postRet (fs : Fids) (t : Msg) (rep : Reply) (k : UInt32) : Nat :=
  match postKind t rep with
  | .auth afid => if k = afid ∧ present fs afid then 1 else 0
  | .attach fid _ => if k = fid ∧ present fs fid then 1 else 0
  | .walk f nf names qs =>
      if qs.length = names.length ∧ present fs f ∧ present fs nf ∧ nf ≠ f ∧ k = nf then 1 else 0
  | _ => 0

/-- the reference a reply releases (clunkPost / removePost) -/
def postRel (t : Msg) (rep : Reply) (k : UInt32) : Nat :=
  match postKind t rep with
  | .release f => if k = f then 1 else 0
  | _ => 0

theorem refOf_incRef' (fs : Fids) (k k' : UInt32) :
    refOf (incRef fs k) k' = refOf fs k' + (if k' = k ∧ present fs k then 1 else 0) := by
  rw [refOf_incRef]
  unfold present
  by_cases h : k' = k ∧ (lookup fs k).isSome = true <;> simp [h]

theorem present_modFid (fs : Fids) (k k' : UInt32) (g : FidRec → FidRec) :
    present (modFid fs k g) k' ↔ present fs k' := by
  unfold present; rw [lookup_modFid]
  by_cases h : k' = k
  · simp only [h, if_true]; cases lookup fs k <;> simp
  · simp [h]

macro "refspos_mod " h:term : tactic =>
  `(tactic| ((try dsimp only); apply RefsPos_modFid'
             · intro r; first | rfl | (split <;> rfl)
             · exact $h))

theorem post_refs (c : Conn) (t : Msg) (rep : Reply) (h : RefsPos c.fids) :
    RefsPos (post c t rep).1.fids ∧
    (∀ k, refOf (post c t rep).1.fids k = refOf c.fids k + postRet c.fids t rep k - postRel t rep k) ∧
    (∀ k, (post c t rep).2.count k = if postRel t rep k = 1 ∧ refOf c.fids k = 1 then 1 else 0) := by
  unfold post postRet postRel
  cases hk : postKind t rep with
  | auth afid =>
    refine ⟨RefsPos_incRef _ _ h, fun k => ?_, fun k => by simp⟩
    (try dsimp only)
    rw [refOf_incRef']; simp
  | attach fid q =>
    refine ⟨?_, fun k => ?_, fun k => by simp⟩
    · (try dsimp only); apply RefsPos_incRef; refspos_mod h
    · (try dsimp only)
      rw [refOf_incRef', refOf_modFid_keep]
      · simp only [present_modFid]; omega
      · intro _; rfl
  | walk f nf names qs =>
    (try dsimp only)
    split
    · rename_i hne
      refine ⟨h, fun k => ?_, fun k => by simp⟩
      have : ¬ qs.length = names.length := by simpa using hne
      simp [this]
    · rename_i hne
      have hlen : qs.length = names.length := by simpa using hne
      split
      · rename_i fr nr hlf hln
        have hpf : present c.fids f := by unfold present; rw [hlf]; rfl
        have hpn : present c.fids nf := by unfold present; rw [hln]; rfl
        by_cases hnf : nf = f
        · have : (nf != f) = false := by simp [hnf]
          simp only [this, Bool.false_eq_true, if_false]
          refine ⟨?_, fun k => ?_, fun k => by simp⟩
          · refspos_mod h
          · (try dsimp only)
            rw [refOf_modFid_keep]
            · simp [hnf]
            · intro _; rfl
        · have : (nf != f) = true := by simp [hnf]
          simp only [this, if_true]
          refine ⟨?_, fun k => ?_, fun k => by simp⟩
          · (try dsimp only); apply RefsPos_incRef; refspos_mod h
          · (try dsimp only)
            rw [refOf_incRef', refOf_modFid_keep]
            · simp only [present_modFid, hlen, hpf, hpn, hnf, true_and, ne_eq, not_false_eq_true]
              by_cases hk : k = nf <;> simp [hk, hpn]
            · intro _; rfl
      · rename_i hnone
        refine ⟨h, fun k => ?_, fun k => by simp⟩
        have : ¬ (present c.fids f ∧ present c.fids nf) := by
          intro ⟨h1, h2⟩
          unfold present at h1 h2
          cases hlf : lookup c.fids f with
          | none => rw [hlf] at h1; cases h1
          | some a =>
            cases hln : lookup c.fids nf with
            | none => rw [hln] at h2; cases h2
            | some b => exact hnone a b hlf hln
        have h2 : ¬ (qs.length = names.length ∧ present c.fids f ∧ present c.fids nf ∧ nf ≠ f ∧ k = nf) :=
          fun ⟨_, a, b, _⟩ => this ⟨a, b⟩
        simp [h2]
  | opened f =>
    refine ⟨?_, fun k => ?_, fun k => by simp⟩
    · refspos_mod h
    · (try dsimp only)
      rw [refOf_modFid_keep]
      · simp
      · intro _; rfl
  | created f q =>
    refine ⟨?_, fun k => ?_, fun k => by simp⟩
    · refspos_mod h
    · (try dsimp only)
      rw [refOf_modFid_keep]
      · simp
      · intro _; rfl
  | read f d =>
    refine ⟨?_, fun k => ?_, fun k => by simp⟩
    · refspos_mod h
    · (try dsimp only)
      rw [refOf_modFid_keep]
      · simp
      · intro r; split <;> rfl
  | release f =>
    refine ⟨RefsPos_decRef _ _ h, fun k => ?_, fun k => ?_⟩
    · (try dsimp only)
      rw [refOf_decRef]
      by_cases hk : k = f <;> simp [hk]
    · (try dsimp only)
      rw [count_destroyed_decRef _ _ _ h]
      by_cases hk : k = f
      · subst hk; simp
      · simp [hk]
  | none => exact ⟨h, fun k => by simp, fun k => by simp⟩

end G9.Srv
