import G9Proofs.Lemmas.Life
namespace G9.Life

/-- where a request that was cancelled before it started can be -/
def okw : WPC → Prop
  | .queued | .start | .checked true | .ended => True
  | _ => False

def NRf (g : Nat → Req) : Prop := ∀ r, (g r).noRun = true → (g r).fl = true ∧ okw (g r).wpc

/-- a request marked as cancelled-before-start keeps its flush bit and never passes the check -/
def NR (s : LS) : Prop := NRf s.req

theorem nr_init (cap : Nat) : NR (LS.init cap) := by intro r h; simp [LS.init] at h

theorem nr_upd (g : Nat → Req) (hg : NRf g) (i : Nat) (v : Req)
    (hv : v.noRun = true → v.fl = true ∧ okw v.wpc) : NRf (upd g i v) := by
  intro r h
  by_cases hri : r = i
  · subst hri; rw [upd_same] at h ⊢; exact hv h
  · rw [upd_other _ _ _ _ hri] at h ⊢; exact hg r h

theorem nr_link (g : Nat → Req) (hg : NRf g) (hd : Option Nat) (r : Nat) : NRf (linkPrev g hd r) := by
  intro x h
  have e := linkPrev_same g hd r x
  rw [e.2.2.2.2.1] at h
  rw [e.2.2.2.1, e.2.1]
  exact hg x h

theorem nr_step (s s' : LS) (e : Ev) (h : NR s) (hs : s.step e = some s') : NR s' := by
  cases e with
  | recv tag oldtag =>
    simp only [LS.step] at hs
    split at hs
    · cases hs
    · cases hs
      exact nr_upd _ (nr_link _ h _ _) _ _ (by intro h1; cases h1)
  | check r =>
    simp only [LS.step] at hs
    split at hs
    · cases hs
      refine nr_upd _ h _ _ ?_
      intro h1
      have h2 := h r h1
      refine ⟨h2.1, ?_⟩
      show okw (.checked (s.req r).fl)
      rw [h2.1]; trivial
    · cases hs
  | dispatch r =>
    simp only [LS.step] at hs
    split at hs
    · rename_i hg
      have hno : (s.req r).noRun = true → False := by
        intro h1; have := (h r h1).2; rw [hg.2] at this; exact this
      split at hs <;> cases hs <;> exact nr_upd _ h _ _ (by intro h1; exact absurd h1 (by simpa using hno))
    · cases hs
  | selfRespond r =>
    simp only [LS.step] at hs
    split at hs
    · cases hs
      exact nr_upd _ h _ _ (by intro h1; exact ⟨(h r h1).1, trivial⟩)
    · cases hs
  | answer r =>
    simp only [LS.step] at hs
    split at hs
    · cases hs; exact h
    · cases hs
  | implFlush r =>
    simp only [LS.step] at hs
    split at hs
    · cases hs
      exact nr_upd _ h _ _ (by intro h1; exact ⟨rfl, (h r h1).2⟩)
    · cases hs
  | implReturn r =>
    simp only [LS.step] at hs
    split at hs
    · rename_i hg
      cases hs
      refine nr_upd _ h _ _ ?_
      intro h1; have := (h r h1).2; rw [hg.2] at this; exact absurd this (by simp [okw])
    · cases hs
  | procEnd r =>
    simp only [LS.step] at hs
    split at hs
    · rename_i hg
      cases hs
      refine nr_upd _ h _ _ ?_
      intro h1; have := (h r h1).2; rw [hg.2] at this; exact absurd this (by simp [okw])
    · cases hs
  | flushLookup f =>
    simp only [LS.step] at hs
    split at hs
    · rename_i hg
      have hno : (s.req f).noRun = true → False := by
        intro h1; have := (h f h1).2; rw [hg.2] at this; exact this
      split at hs
      · cases hs
      · split at hs
        · cases hs
          exact nr_upd _ h _ _ (by intro h1; exact absurd h1 (by simpa using hno))
        · rename_i t _
          cases hs
          have h1 : NRf (upd s.req f { s.req f with flushreq := (s.req t).flushreq }) :=
            nr_upd _ h _ _ (by intro h2; exact h f h2)
          have h2 : NRf (upd (upd s.req f { s.req f with flushreq := (s.req t).flushreq }) t
              { upd s.req f { s.req f with flushreq := (s.req t).flushreq } t with flushreq := some f }) :=
            nr_upd _ h1 _ _ (by intro h3; exact h1 t h3)
          refine nr_upd _ h2 _ _ ?_
          intro h3
          exfalso
          have e : ∀ (g : Nat → Req), (g f).noRun = (s.req f).noRun →
              (upd g t { g t with flushreq := some f } f).noRun = (s.req f).noRun := by
            intro g hgf
            by_cases hft : f = t
            · subst hft; simp [hgf]
            · rw [upd_other _ _ _ _ hft]; exact hgf
          have := e (upd s.req f { s.req f with flushreq := (s.req t).flushreq }) (by simp)
          exact hno (this ▸ h3)
    · cases hs
  | flushMark f =>
    simp only [LS.step] at hs
    split at hs
    · split at hs
      · rename_i t hw
        have hno : (s.req f).noRun = true → False := by
          intro h1; have := (h f h1).2; rw [hw] at this; exact this
        cases hs
        have h1 : NRf (upd s.req t { s.req t with
            fl := if (!((s.req t).wk || (s.req t).sv)) = true then true else (s.req t).fl,
            noRun := (s.req t).noRun || (!((s.req t).wk || (s.req t).sv) &&
              (decide ((s.req t).wpc = .queued) || decide ((s.req t).wpc = .start))) }) := by
          refine nr_upd _ h t _ ?_
          intro h2
          simp only [Bool.or_eq_true, Bool.and_eq_true, decide_eq_true_eq] at h2
          rcases h2 with h2 | ⟨hc, hq⟩
          · have h3 := h t h2
            refine ⟨?_, h3.2⟩
            show (if _ then true else (s.req t).fl) = true
            rw [h3.1]; split <;> rfl
          · refine ⟨?_, ?_⟩
            · show (if _ then true else (s.req t).fl) = true
              rw [if_pos hc]
            · show okw (s.req t).wpc
              rcases hq with hq | hq <;> rw [hq] <;> trivial
        refine nr_upd _ h1 f _ ?_
        intro h2
        exfalso
        by_cases hft : f = t
        · subst hft
          simp only [upd_same, Bool.or_eq_true, Bool.and_eq_true, decide_eq_true_eq] at h2
          rcases h2 with h2 | ⟨_, hq⟩
          · exact hno h2
          · rw [hw] at hq; rcases hq with hq | hq <;> cases hq
        · rw [upd_other _ _ _ _ hft] at h2; exact hno h2
      · cases hs
    · cases hs
  | flushAct f =>
    simp only [LS.step] at hs
    split at hs
    · split at hs
      · rename_i hw
        cases hs
        refine nr_upd _ h _ _ ?_
        intro h1; have := (h f h1).2; rw [hw] at this; exact absurd this (by simp [okw])
      · rename_i t hw
        cases hs
        refine nr_upd _ h _ _ ?_
        intro h1; have := (h f h1).2; rw [hw] at this; exact absurd this (by simp [okw])
      · rename_i t hw
        cases hs
        refine nr_upd _ h _ _ ?_
        intro h1; have := (h f h1).2; rw [hw] at this; exact absurd this (by simp [okw])
      · cases hs
    · cases hs
  | mark i =>
    simp only [LS.step] at hs
    split at hs
    · rename_i it hit
      split at hs
      · split at hs <;> cases hs <;> exact nr_upd _ h _ _ (by intro h1; exact h it.rid h1)
      · cases hs
    · cases hs
  | post i =>
    simp only [LS.step] at hs
    split at hs
    · split at hs
      · cases hs; exact h
      · cases hs
    · cases hs
  | queue i =>
    simp only [LS.step] at hs
    split at hs
    · split at hs
      · split at hs
        · cases hs; exact h
        · split at hs
          · cases hs; exact h
          · cases hs
      · cases hs
    · cases hs
  | unlink i =>
    simp only [LS.step] at hs
    split at hs
    · split at hs
      · split at hs
        · rename_i od _
          cases hs; exact nr_upd _ h _ _ (by intro h1; exact h od h1)
        · split at hs
          · cases hs; exact h
          · rename_i m _
            split at hs
            · cases hs; exact h
            · split at hs
              · cases hs; exact nr_upd _ h _ _ (by intro h1; exact h m h1)
              · cases hs; exact h
      · cases hs
    · cases hs
  | next i =>
    simp only [LS.step] at hs
    split at hs
    · split at hs
      · split at hs
        · cases hs; exact h
        · rename_i m _
          cases hs; exact nr_upd _ h _ _ (by intro h1; exact ⟨(h m h1).1, trivial⟩)
      · cases hs
    · cases hs
  | flushes i =>
    simp only [LS.step] at hs
    split at hs
    · split at hs
      · split at hs
        · cases hs; exact h
        · split at hs <;> cases hs <;> exact h
      · cases hs
    · cases hs
  | send =>
    simp only [LS.step] at hs
    split at hs
    · cases hs
    · split at hs
      · cases hs
      · cases hs; exact h
  | close =>
    simp only [LS.step] at hs
    split at hs
    · cases hs
    · cases hs; exact h

end G9.Life
