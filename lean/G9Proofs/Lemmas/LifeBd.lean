import G9Proofs.Lemmas.Life
namespace G9.Life

/-- the request a flush worker is aiming at, once it has looked it up -/
def tgtOf : WPC → Option Nat
  | .fl1 (some t) => some t
  | .fl2 t _ => some t
  | _ => none

/-- every request id stored anywhere belongs to a received request -/
structure Bd (s : LS) : Prop where
  fq : ∀ r f, (s.req r).flushreq = some f → f < s.n
  fls : ∀ it ∈ s.insts, ∀ f, it.cur = some f → f < s.n
  ch : ∀ tag, ∀ r ∈ s.chain tag, r < s.n
  tgt : ∀ f t, tgtOf (s.req f).wpc = some t → t < s.n

theorem bd_init (cap : Nat) : Bd (LS.init cap) := by
  constructor <;> simp [LS.init, tgtOf]

/-- steps that keep the chains and only touch request fields other than the flush chain -/
theorem bd_of_req (s s' : LS) (h : Bd s) (hn : s'.n = s.n) (hch : s'.chain = s.chain)
    (hfls : ∀ it ∈ s'.insts, ∀ f, it.cur = some f → f < s.n)
    (hreq : ∀ r, (s'.req r).flushreq = (s.req r).flushreq ∧
       (tgtOf (s'.req r).wpc = none ∨ tgtOf (s'.req r).wpc = tgtOf (s.req r).wpc)) : Bd s' := by
  constructor
  · intro r f hf; rw [hn]; rw [(hreq r).1] at hf; exact h.fq r f hf
  · intro it hit f hf; rw [hn]; exact hfls it hit f hf
  · intro tag r hr; rw [hn]; rw [hch] at hr; exact h.ch tag r hr
  · intro f t ht; rw [hn]
    rcases (hreq f).2 with h1 | h1
    · rw [h1] at ht; cases ht
    · rw [h1] at ht; exact h.tgt f t ht

theorem fls_same (s : LS) (h : Bd s) : ∀ it ∈ s.insts, ∀ f, it.cur = some f → f < s.n := h.fls

theorem fls_new (s : LS) (h : Bd s) (x : Nat) : ∀ it ∈ s.insts ++ [({ rid := x } : Inst)], ∀ f, it.cur = some f → f < s.n := by
  intro it hit f hf
  rcases List.mem_append.mp hit with h1 | h1
  · exact h.fls it h1 f hf
  · simp at h1; subst h1; simp at hf

theorem fls_set (s : LS) (l : List Inst) (hl : ∀ it ∈ l, ∀ f, it.cur = some f → f < s.n) (i : Nat) (v : Inst)
    (hv : ∀ f, v.cur = some f → f < s.n) : ∀ it ∈ setInst l i v, ∀ f, it.cur = some f → f < s.n := by
  intro it hit f hf
  rcases mem_setInst _ _ _ _ hit with rfl | h1
  · exact hv f hf
  · exact hl it h1 f hf

end G9.Life

namespace G9.Life

theorem req_upd (g : Nat → Req) (i : Nat) (v : Req) (hq : v.flushreq = (g i).flushreq)
    (ht : tgtOf v.wpc = none ∨ tgtOf v.wpc = tgtOf (g i).wpc) :
    ∀ r, (upd g i v r).flushreq = (g r).flushreq ∧
      (tgtOf (upd g i v r).wpc = none ∨ tgtOf (upd g i v r).wpc = tgtOf (g r).wpc) := by
  intro r
  by_cases hri : r = i
  · subst hri; simp only [upd_same]; exact ⟨hq, ht⟩
  · rw [upd_other _ _ _ _ hri]; exact ⟨rfl, Or.inr rfl⟩

theorem req_id (g : Nat → Req) : ∀ r, (g r).flushreq = (g r).flushreq ∧
    (tgtOf (g r).wpc = none ∨ tgtOf (g r).wpc = tgtOf (g r).wpc) := fun _ => ⟨rfl, Or.inr rfl⟩

theorem bd_mk (s s' : LS) (hn : s'.n = s.n)
    (h1 : ∀ r f, (s'.req r).flushreq = some f → f < s.n) (h2 : ∀ it ∈ s'.insts, ∀ f, it.cur = some f → f < s.n)
    (h3 : ∀ tag, ∀ r ∈ s'.chain tag, r < s.n) (h4 : ∀ f t, tgtOf (s'.req f).wpc = some t → t < s.n) : Bd s' := by
  constructor <;> rw [hn] <;> assumption

theorem cutAfter_subset (m : Nat) (l : List Nat) : ∀ r ∈ cutAfter m l, r ∈ l := by
  intro r hr
  unfold cutAfter at hr
  split at hr
  · rename_i hm
    rcases List.mem_append.mp hr with h1 | h1
    · exact (List.takeWhile_sublist _).subset h1
    · simp at h1; subst h1; exact hm
  · exact hr

theorem chain_unlink (s : LS) (h : Bd s) (tg : Nat) (l : List Nat) (hl : ∀ r ∈ l, r ∈ s.chain tg) :
    ∀ tag, ∀ r ∈ updL s.chain tg l tag, r < s.n := by
  intro tag r hr
  by_cases ht : tag = tg
  · subst ht
    simp only [updL, if_true] at hr
    exact h.ch tag r (hl r hr)
  · simp only [updL, ht, if_false] at hr
    exact h.ch tag r hr

theorem fq_upd (N : Nat) (g : Nat → Req) (hg : ∀ r f, (g r).flushreq = some f → f < N) (i : Nat) (v : Req)
    (hv : ∀ f, v.flushreq = some f → f < N) : ∀ r f, (upd g i v r).flushreq = some f → f < N := by
  intro r f hf
  by_cases hri : r = i
  · subst hri; rw [upd_same] at hf; exact hv f hf
  · rw [upd_other _ _ _ _ hri] at hf; exact hg r f hf

theorem tgt_upd (N : Nat) (g : Nat → Req) (hg : ∀ f t, tgtOf (g f).wpc = some t → t < N) (i : Nat) (v : Req)
    (hv : ∀ t, tgtOf v.wpc = some t → t < N) : ∀ f t, tgtOf (upd g i v f).wpc = some t → t < N := by
  intro f t ht
  by_cases hri : f = i
  · subst hri; rw [upd_same] at ht; exact hv t ht
  · rw [upd_other _ _ _ _ hri] at ht; exact hg f t ht

macro "bd_req" : tactic =>
  `(tactic| exact req_upd _ _ _ (by rfl) (by first | exact Or.inl rfl | exact Or.inr rfl))

theorem bd_step (s s' : LS) (e : Ev) (h : Bd s) (hs : s.step e = some s') : Bd s' := by
  cases e with
  | recv tag oldtag =>
    simp only [LS.step] at hs
    split at hs
    · cases hs
    · cases hs
      have hfq : ∀ r f, (s.req r).flushreq = some f → f < s.n + 1 := fun r f hf => Nat.lt_succ_of_lt (h.fq r f hf)
      have htg : ∀ f t, tgtOf (s.req f).wpc = some t → t < s.n + 1 := fun f t ht => Nat.lt_succ_of_lt (h.tgt f t ht)
      constructor
      · show ∀ r f, (upd _ s.n _ r).flushreq = some f → f < s.n + 1
        refine fq_upd (s.n + 1) _ ?_ s.n _ (by intro f hf; cases hf)
        intro r f hf
        rw [(linkPrev_same _ _ _ _).1] at hf
        exact hfq r f hf
      · intro it hit f hf
        have := h.fls it hit f hf
        show f < s.n + 1
        omega
      · intro t r hr
        show r < s.n + 1
        by_cases ht : t = tag
        · subst ht
          simp [updL] at hr
          rcases hr with rfl | h1
          · omega
          · have := h.ch t r h1; omega
        · simp [updL, ht] at hr
          have := h.ch t r hr; omega
      · show ∀ f t, tgtOf (upd _ s.n _ f).wpc = some t → t < s.n + 1
        refine tgt_upd (s.n + 1) _ ?_ s.n _ (by intro t ht; split at ht <;> simp [tgtOf] at ht)
        intro f t ht
        rw [(linkPrev_same _ _ _ _).2.1] at ht
        exact htg f t ht
  | check r =>
    simp only [LS.step] at hs
    split at hs
    · cases hs; exact bd_of_req s _ h rfl rfl h.fls (by bd_req)
    · cases hs
  | dispatch r =>
    simp only [LS.step] at hs
    split at hs
    · split at hs <;> cases hs <;> exact bd_of_req s _ h rfl rfl h.fls (by bd_req)
    · cases hs
  | selfRespond r =>
    simp only [LS.step] at hs
    split at hs
    · cases hs; exact bd_of_req s _ h rfl rfl (fls_new s h r) (by bd_req)
    · cases hs
  | answer r =>
    simp only [LS.step] at hs
    split at hs
    · cases hs; exact bd_of_req s _ h rfl rfl (fls_new s h r) (req_id _)
    · cases hs
  | implFlush r =>
    simp only [LS.step] at hs
    split at hs
    · cases hs; exact bd_of_req s _ h rfl rfl (fls_new s h r) (by bd_req)
    · cases hs
  | implReturn r =>
    simp only [LS.step] at hs
    split at hs
    · cases hs; exact bd_of_req s _ h rfl rfl h.fls (by bd_req)
    · cases hs
  | procEnd r =>
    simp only [LS.step] at hs
    split at hs
    · cases hs; exact bd_of_req s _ h rfl rfl h.fls (by bd_req)
    · cases hs
  | flushLookup f =>
    simp only [LS.step] at hs
    split at hs
    · rename_i hg
      split at hs
      · cases hs
      · rename_i ot _
        split at hs
        · cases hs; exact bd_of_req s _ h rfl rfl h.fls (by bd_req)
        · rename_i t hhd0
          have hhd := (lookupTarget_some hhd0).1
          have ht : t < s.n := h.ch ot t (List.mem_of_mem_head? hhd)
          cases hs
          have q1 := fq_upd s.n _ h.fq f { s.req f with flushreq := (s.req t).flushreq } (by exact h.fq t)
          have q2 := fq_upd s.n _ q1 t
            { upd s.req f { s.req f with flushreq := (s.req t).flushreq } t with flushreq := some f }
            (by intro x hx; cases hx; exact hg.1)
          have t1 := tgt_upd s.n _ h.tgt f { s.req f with flushreq := (s.req t).flushreq } (by exact h.tgt f)
          have t2 := tgt_upd s.n _ t1 t
            { upd s.req f { s.req f with flushreq := (s.req t).flushreq } t with flushreq := some f }
            (by exact t1 t)
          refine bd_mk s _ rfl ?_ h.fls h.ch ?_
          · exact fq_upd s.n _ q2 f _ (by exact q2 f)
          · refine tgt_upd s.n _ t2 f _ ?_
            intro t' ht'
            simp [tgtOf] at ht'
            omega
    · cases hs
  | flushMark f =>
    simp only [LS.step] at hs
    split at hs
    · split at hs
      · rename_i t hw
        have ht : t < s.n := h.tgt f t (by rw [hw]; rfl)
        cases hs
        refine bd_mk s _ rfl ?_ h.fls h.ch ?_
        · refine fq_upd s.n _ (fq_upd s.n _ h.fq t _ (by exact h.fq t)) f _ ?_
          exact fq_upd s.n _ h.fq t _ (by exact h.fq t) f
        · refine tgt_upd s.n _ (tgt_upd s.n _ h.tgt t _ (by exact h.tgt t)) f _ ?_
          intro t' ht'
          simp [tgtOf] at ht'
          omega
      · cases hs
    · cases hs
  | flushAct f =>
    simp only [LS.step] at hs
    split at hs
    · split at hs
      · cases hs; exact bd_of_req s _ h rfl rfl (fls_new s h f) (by bd_req)
      · rename_i t _
        cases hs; exact bd_of_req s _ h rfl rfl (fls_new s h t) (by bd_req)
      · cases hs; exact bd_of_req s _ h rfl rfl h.fls (by bd_req)
      · cases hs
    · cases hs
  | mark i =>
    simp only [LS.step] at hs
    split at hs
    · rename_i it hit
      have hit' := h.fls it (List.mem_of_getElem? hit)
      split at hs
      · split at hs <;> cases hs <;>
          exact bd_of_req s _ h rfl rfl (fls_set s _ h.fls i _ (by exact hit')) (by bd_req)
      · cases hs
    · cases hs
  | post i =>
    simp only [LS.step] at hs
    split at hs
    · rename_i it hit
      have hit' := h.fls it (List.mem_of_getElem? hit)
      split at hs
      · cases hs; exact bd_of_req s _ h rfl rfl (fls_set s _ h.fls i _ (by exact hit')) (req_id _)
      · cases hs
    · cases hs
  | queue i =>
    simp only [LS.step] at hs
    split at hs
    · rename_i it hit
      have hit' := h.fls it (List.mem_of_getElem? hit)
      split at hs
      · split at hs
        · cases hs; exact bd_of_req s _ h rfl rfl (fls_set s _ h.fls i _ (by exact hit')) (req_id _)
        · split at hs
          · cases hs; exact bd_of_req s _ h rfl rfl (fls_set s _ h.fls i _ (by exact hit')) (req_id _)
          · cases hs
      · cases hs
    · cases hs
  | unlink i =>
    simp only [LS.step] at hs
    split at hs
    · rename_i it hit
      have hit' := h.fls it (List.mem_of_getElem? hit)
      split at hs
      · split at hs
        · rename_i od _
          cases hs
          refine bd_mk s _ rfl (fq_upd s.n _ h.fq od _ (by exact h.fq od))
            (fls_set s _ h.fls i _ (by exact h.fq it.rid))
            (chain_unlink s h _ _ (fun r hr => List.mem_of_mem_erase hr)) ?_
          exact tgt_upd s.n _ h.tgt od _ (by exact h.tgt od)
        · split at hs
          · cases hs
            exact bd_mk s _ rfl h.fq (fls_set s _ h.fls i _ (by exact h.fq it.rid))
              (chain_unlink s h _ _ (by intro r hr; cases hr)) h.tgt
          · rename_i m _
            split at hs
            · cases hs
              exact bd_mk s _ rfl h.fq (fls_set s _ h.fls i _ (by intro x hx; cases hx))
                (chain_unlink s h _ _ (cutAfter_subset _ _)) h.tgt
            · rename_i fr hfr
              have hfrn : fr < s.n := h.fq it.rid fr hfr
              split at hs
              · cases hs
                refine bd_mk s _ rfl (fq_upd s.n _ h.fq m _ (by intro x hx; cases hx; exact hfrn))
                  (fls_set s _ h.fls i _ (by intro x hx; cases hx)) (chain_unlink s h _ _ (cutAfter_subset _ _)) ?_
                exact tgt_upd s.n _ h.tgt m _ (by exact h.tgt m)
              · cases hs
                exact bd_mk s _ rfl h.fq (fls_set s _ h.fls i _ (by intro x hx; cases hx))
                  (chain_unlink s h _ _ (cutAfter_subset _ _)) h.tgt
      · cases hs
    · cases hs
  | next i =>
    simp only [LS.step] at hs
    split at hs
    · rename_i it hit
      have hit' := h.fls it (List.mem_of_getElem? hit)
      split at hs
      · split at hs
        · cases hs; exact bd_of_req s _ h rfl rfl (fls_set s _ h.fls i _ (by exact hit')) (req_id _)
        · cases hs; exact bd_of_req s _ h rfl rfl (fls_set s _ h.fls i _ (by exact hit')) (by bd_req)
      · cases hs
    · cases hs
  | flushes i =>
    simp only [LS.step] at hs
    split at hs
    · rename_i it hit
      have hit' := h.fls it (List.mem_of_getElem? hit)
      split at hs
      · split at hs
        · cases hs; exact bd_of_req s _ h rfl rfl (fls_set s _ h.fls i _ (by exact hit')) (req_id _)
        · rename_i f hcur
          have hf : f < s.n := hit' f hcur
          split at hs
          · cases hs
            exact bd_of_req s _ h rfl rfl (fls_set s _ h.fls i _ (by exact h.fq f)) (req_id _)
          · cases hs
            exact bd_of_req s _ h rfl rfl (fls_set s _ (fls_new s h f) i _ (by exact hit')) (req_id _)
      · cases hs
    · cases hs
  | send =>
    simp only [LS.step] at hs
    split at hs
    · cases hs
    · split at hs
      · cases hs
      · cases hs; exact bd_of_req s _ h rfl rfl h.fls (req_id _)
  | close =>
    simp only [LS.step] at hs
    split at hs
    · cases hs
    · cases hs; exact bd_of_req s _ h rfl rfl h.fls (req_id _)

end G9.Life
