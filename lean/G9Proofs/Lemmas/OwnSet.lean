import G9.OwnSet
namespace G9.OwnSet

theorem run_append (s : St) (a b : List Ev) :
    run s (a ++ b) = (run s a).bind (fun s' => run s' b) := by
  induction a generalizing s with
  | nil => simp [run]
  | cons e a ih =>
    simp only [List.cons_append, run]
    cases step s e with
    | none => rfl
    | some s1 => simp only [Option.bind_some]; exact ih s1

theorem wf_step (s s' : St) (e : Ev) (h : WF s) (hs : step s e = some s') : WF s' := by
  cases e with
  | mk u op =>
    cases op with
    | send c x =>
      simp only [step] at hs
      split at hs
      · cases hs
        intro y d hv
        by_cases hy : y = x
        · subst hy; simp [set]
        · simp only [set, hy, if_false] at hv ⊢; exact h y d hv
      · cases hs
    | recv c x =>
      simp only [step] at hs
      split at hs
      · cases hs
        intro y d hv
        by_cases hy : y = x
        · subst hy; simp [set] at hv
        · simp only [set, hy, if_false] at hv ⊢; exact h y d hv
      · cases hs
    | acc x w =>
      simp only [step] at hs
      split at hs
      · cases hs; exact h
      · cases hs

theorem wf_run (es : List Ev) (s s' : St) (h : WF s) (hr : run s es = some s') : WF s' := by
  induction es generalizing s with
  | nil => simp [run] at hr; subst hr; exact h
  | cons e es ih =>
    simp only [run] at hr
    cases hs : step s e with
    | none => rw [hs] at hr; cases hr
    | some s1 => rw [hs] at hr; exact ih s1 (wf_step s s1 e h hs) (by simpa using hr)

/-- an object owned by `t` stops being owned by `t` only through `t`'s own send of it -/
theorem given_up_by_owner (x t : Nat) :
    ∀ (es : List Ev) (s s' : St), WF s → run s es = some s' → s.owner x = some t → s'.owner x ≠ some t →
      ∃ a b c sm, es = a ++ ⟨t, .send c x⟩ :: b ∧ run s (a ++ [⟨t, .send c x⟩]) = some sm ∧ sm.owner x = none ∧
        WF sm ∧ run sm b = some s' := by
  intro es
  induction es with
  | nil =>
    intro s s' _ hr ho hn
    simp [run] at hr; subst hr; exact absurd ho hn
  | cons e es ih =>
    intro s s' hwf hr ho hn
    simp only [run] at hr
    cases hs : step s e with
    | none => rw [hs] at hr; cases hr
    | some s1 =>
      rw [hs] at hr
      simp only [Option.bind_some] at hr
      have hwf1 := wf_step s s1 e hwf hs
      by_cases hsend : ∃ c, e = ⟨t, .send c x⟩
      · obtain ⟨c, he⟩ := hsend
        subst he
        refine ⟨[], es, c, s1, rfl, ?_, ?_, hwf1, hr⟩
        · simp [run, hs]
        · simp only [step, ho, if_true] at hs
          cases hs; simp [set]
      · have hk : s1.owner x = some t := by
          cases e with
          | mk u op =>
            cases op with
            | send c y =>
              simp only [step] at hs
              split at hs
              · rename_i hy
                cases hs
                by_cases hxy : x = y
                · subst hxy
                  rw [ho] at hy
                  have : t = u := by cases hy; rfl
                  subst this
                  exact absurd ⟨c, rfl⟩ hsend
                · simp [set, hxy, ho]
              · cases hs
            | recv c y =>
              simp only [step] at hs
              split at hs
              · rename_i hv
                cases hs
                by_cases hxy : x = y
                · subst hxy
                  have := hwf x c hv
                  rw [ho] at this; cases this
                · simp [set, hxy, ho]
              · cases hs
            | acc y w =>
              simp only [step] at hs
              split at hs
              · cases hs; exact ho
              · cases hs
        obtain ⟨a, b, c, sm, he, h1r, h2, h3, h4⟩ := ih s1 s' hwf1 hr hk hn
        refine ⟨e :: a, b, c, sm, by rw [he]; rfl, ?_, h2, h3, h4⟩
        simp only [List.cons_append, run, hs, Option.bind_some]
        exact h1r

/-- an object comes to be owned by `u` only through `u`'s own receive of it -/
theorem taken_by_owner (x u : Nat) :
    ∀ (es : List Ev) (s s' : St), run s es = some s' → s.owner x ≠ some u → s'.owner x = some u →
      ∃ a b c, es = a ++ ⟨u, .recv c x⟩ :: b := by
  intro es
  induction es with
  | nil =>
    intro s s' hr hn ho
    simp [run] at hr; subst hr; exact absurd ho hn
  | cons e es ih =>
    intro s s' hr hn ho
    simp only [run] at hr
    cases hs : step s e with
    | none => rw [hs] at hr; cases hr
    | some s1 =>
      rw [hs] at hr
      simp only [Option.bind_some] at hr
      by_cases hrecv : ∃ c, e = ⟨u, .recv c x⟩
      · obtain ⟨c, he⟩ := hrecv
        exact ⟨[], es, c, by rw [he]; rfl⟩
      · have hk : s1.owner x ≠ some u := by
          cases e with
          | mk v op =>
            cases op with
            | send c y =>
              simp only [step] at hs
              split at hs
              · cases hs
                by_cases hxy : x = y
                · subst hxy; simp [set]
                · simpa [set, hxy] using hn
              · cases hs
            | recv c y =>
              simp only [step] at hs
              split at hs
              · cases hs
                by_cases hxy : x = y
                · subst hxy
                  simp only [set, if_true]
                  intro h
                  have : v = u := by cases h; rfl
                  subst this
                  exact hrecv ⟨c, rfl⟩
                · simpa [set, hxy] using hn
              · cases hs
            | acc y w =>
              simp only [step] at hs
              split at hs
              · cases hs; exact hn
              · cases hs
        obtain ⟨a, b, c, he⟩ := ih s1 s' hr hk ho
        exact ⟨e :: a, b, c, by rw [he]; rfl⟩

end G9.OwnSet
