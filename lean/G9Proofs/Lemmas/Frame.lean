import G9.Frame
import G9Proofs.Lemmas.WireTotal
namespace G9.Frame
open G9 Go

/-- an accepted frame is at least a header long -/
theorem accepts_len (dotu : Bool) (bs : Bytes) (h : accepts dotu bs = true) : 7 ≤ bs.length := by
  unfold accepts at h
  split at h
  · rename_i x hx
    by_cases h7 : bs.length < 7
    · unfold Go.unpack at hx; rw [if_pos h7] at hx; cases hx
    · omega
  · cases h

/-- the inner loop with its canonical fuel -/
def ex (cfg : Cfg) (u : Bytes) : List Out × Bytes × Bool := extract cfg (u.length + 1) u

/-- more fuel than bytes changes nothing: the loop terminates -/
theorem extract_fuel (cfg : Cfg) : ∀ (n : Nat) (u : Bytes) (f : Nat), u.length ≤ n → u.length < f →
    extract cfg f u = ex cfg u := by
  intro n
  induction n with
  | zero =>
    intro u f hn hf
    have : u.length = 0 := by omega
    cases f with
    | zero => omega
    | succ f => unfold ex; rw [this]; simp [extract, this]
  | succ n ih =>
    intro u f hn hf
    cases f with
    | zero => omega
    | succ f =>
      unfold ex
      rw [extract, extract]
      by_cases h4 : u.length ≤ 4
      · simp [h4]
      · simp only [h4, if_false]
        split
        · rfl
        · split
          · rfl
          · split
            · rfl
            · rename_i hg hw hacc
              have hacc' : accepts cfg.dotu (u.take (dec32 (u.take 4)).toNat) = true := by simpa using hacc
              have h7 := accepts_len _ _ hacc'
              rw [List.length_take] at h7
              have hsz : 7 ≤ (dec32 (u.take 4)).toNat := by omega
              have hd : (u.drop (dec32 (u.take 4)).toNat).length ≤ n := by
                rw [List.length_drop]; omega
              rw [ih _ f hd (by rw [List.length_drop]; omega), ih _ u.length hd (by rw [List.length_drop]; omega)]

theorem ex_unfold (cfg : Cfg) (u : Bytes) :
    ex cfg u =
      if u.length ≤ 4 then ([], u, false)
      else
        let sz := (dec32 (u.take 4)).toNat
        if cfg.gate && sz > cfg.msize then ([.drop], [], true)
        else if u.length < sz then ([], u, false)
        else if !accepts cfg.dotu (u.take sz) then ([.drop], [], true)
        else ((.frame (u.take sz) :: (ex cfg (u.drop sz)).1, (ex cfg (u.drop sz)).2.1, (ex cfg (u.drop sz)).2.2)) := by
  conv => lhs; unfold ex
  rw [extract]
  by_cases h4 : u.length ≤ 4
  · simp [h4]
  · simp only [h4, if_false]
    split
    · rfl
    · split
      · rfl
      · split
        · rfl
        · rename_i hg hw hacc
          have hacc' : accepts cfg.dotu (u.take (dec32 (u.take 4)).toNat) = true := by simpa using hacc
          have h7 := accepts_len _ _ hacc'
          rw [List.length_take] at h7
          rw [extract_fuel cfg (u.drop (dec32 (u.take 4)).toNat).length _ _ (Nat.le_refl _)
            (by rw [List.length_drop]; omega)]

/-- Bytes that arrive later do not change what was already extracted: running the loop on
    `u ++ b` is running it on `u` and then, unless the connection was ended, on what was
    left followed by `b`. -/
theorem ex_append (cfg : Cfg) : ∀ (n : Nat) (u b : Bytes), u.length ≤ n →
    ex cfg (u ++ b) =
      if (ex cfg u).2.2 then ((ex cfg u).1, [], true)
      else ((ex cfg u).1 ++ (ex cfg ((ex cfg u).2.1 ++ b)).1,
            (ex cfg ((ex cfg u).2.1 ++ b)).2.1, (ex cfg ((ex cfg u).2.1 ++ b)).2.2) := by
  intro n
  induction n with
  | zero =>
    intro u b hn
    have : u = [] := List.eq_nil_of_length_eq_zero (by omega)
    subst this
    rw [ex_unfold cfg []]
    simp
  | succ n ih =>
    intro u b hn
    rw [ex_unfold cfg u]
    by_cases h4 : u.length ≤ 4
    · simp [h4]
    · simp only [h4, if_false]
      have hlen : ¬ (u ++ b).length ≤ 4 := by rw [List.length_append]; omega
      have ht4 : (u ++ b).take 4 = u.take 4 := List.take_append_of_le_length (by omega)
      rw [ex_unfold cfg (u ++ b)]
      simp only [hlen, if_false, ht4]
      by_cases hg : (cfg.gate && decide ((dec32 (u.take 4)).toNat > cfg.msize)) = true
      · simp [hg]
      · simp only [hg, Bool.false_eq_true, if_false]
        by_cases hw : u.length < (dec32 (u.take 4)).toNat
        · -- still waiting: everything is decided on u ++ b
          simp only [hw, if_true, Bool.false_eq_true, if_false]
          rw [ex_unfold cfg (u ++ b)]
          simp only [hlen, if_false, ht4, hg, Bool.false_eq_true]
          simp
        · have hle : (dec32 (u.take 4)).toNat ≤ u.length := by omega
          have htk : (u ++ b).take (dec32 (u.take 4)).toNat = u.take (dec32 (u.take 4)).toNat :=
            List.take_append_of_le_length hle
          have hdr : (u ++ b).drop (dec32 (u.take 4)).toNat = u.drop (dec32 (u.take 4)).toNat ++ b :=
            List.drop_append_of_le_length hle
          have hw2 : ¬ (u ++ b).length < (dec32 (u.take 4)).toNat := by rw [List.length_append]; omega
          simp only [hw, hw2, if_false, htk, hdr]
          by_cases hacc : accepts cfg.dotu (u.take (dec32 (u.take 4)).toNat) = true
          · have h7 := accepts_len _ _ hacc
            rw [List.length_take] at h7
            have hd : (u.drop (dec32 (u.take 4)).toNat).length ≤ n := by rw [List.length_drop]; omega
            simp only [hacc, Bool.not_true, Bool.false_eq_true, if_false]
            rw [ih _ b hd]
            by_cases hdead : (ex cfg (u.drop (dec32 (u.take 4)).toNat)).2.2 = true
            · simp [hdead]
            · simp [hdead]
          · simp [hacc]

/-- once the connection is ended nothing is left to consume -/
theorem ex_dead_rest (cfg : Cfg) : ∀ (n : Nat) (u : Bytes), u.length ≤ n → (ex cfg u).2.2 = true → (ex cfg u).2.1 = [] := by
  intro n
  induction n with
  | zero =>
    intro u hn
    have : u = [] := List.eq_nil_of_length_eq_zero (by omega)
    subst this
    rw [ex_unfold]; simp
  | succ n ih =>
    intro u hn
    rw [ex_unfold]
    by_cases h4 : u.length ≤ 4
    · simp [h4]
    · simp only [h4, if_false]
      split
      · intro _; rfl
      · split
        · intro h; cases h
        · split
          · intro _; rfl
          · rename_i hg hw hacc
            have hacc' : accepts cfg.dotu (u.take (dec32 (u.take 4)).toNat) = true := by simpa using hacc
            have h7 := accepts_len _ _ hacc'
            rw [List.length_take] at h7
            exact ih _ (by rw [List.length_drop]; omega)

end G9.Frame
