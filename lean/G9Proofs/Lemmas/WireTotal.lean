import G9Proofs.Lemmas.WireMsg
namespace G9
open Go Spec

theorem need_ok (n : Nat) (p : Bytes) (h : n ≤ p.length) : need n p = .ok (p.take n, p.drop n) := by
  unfold need; simp only [List.length_take]; rw [if_neg (by omega)]

theorem gint8_ok (p : Bytes) (h : 1 ≤ p.length) : gint8 p = .ok (p.headD 0, p.drop 1) := by
  cases p with
  | nil => simp at h
  | cons a r => simp [gint8]

theorem gint16_ok (p : Bytes) (h : 2 ≤ p.length) : gint16 p = .ok (dec16 (p.take 2), p.drop 2) := by
  unfold gint16; rw [need_ok _ _ h]; rfl
theorem gint32_ok (p : Bytes) (h : 4 ≤ p.length) : gint32 p = .ok (dec32 (p.take 4), p.drop 4) := by
  unfold gint32; rw [need_ok _ _ h]; rfl
theorem gint64_ok (p : Bytes) (h : 8 ≤ p.length) : gint64 p = .ok (dec64 (p.take 8), p.drop 8) := by
  unfold gint64; rw [need_ok _ _ h]; rfl

theorem gqid_ok' (p : Bytes) (h : 13 ≤ p.length) :
    gqid p = .ok ({ typ := p.headD 0, vers := dec32 ((p.drop 1).take 4),
                    path := dec64 ((p.drop 4 |>.drop 1).take 8) }, p.drop 13) := by
  unfold gqid
  rw [gint8_ok p (by omega)]
  simp only [Res.ok_bind]
  rw [gint32_ok _ (by simp only [List.length_drop]; omega)]
  simp only [Res.ok_bind]
  rw [gint64_ok _ (by simp only [List.length_drop]; omega)]
  simp [List.drop_drop]

theorem gqid_ok (p : Bytes) (h : 13 ≤ p.length) : ∃ q, gqid p = .ok (q, p.drop 13) := by
  unfold gqid
  rw [gint8_ok p (by omega)]
  simp only [Res.ok_bind]
  rw [gint32_ok _ (by simp only [List.length_drop]; omega)]
  simp only [Res.ok_bind]
  rw [gint64_ok _ (by simp only [List.length_drop]; omega)]
  simp [List.drop_drop]

theorem need_panic (n : Nat) (p : Bytes) (h : p.length < n) : need n p = .panic := by
  unfold need; simp only [List.length_take]; rw [if_pos (by omega)]

theorem gstr_len (p s r : Bytes) (h : gstr p = some (s, r)) : r.length + s.length + 2 = p.length := by
  unfold gstr at h
  split at h
  · simp only at h
    split at h
    · cases h
    · cases h
      simp only [List.length_drop, List.length_take, List.length_cons] at *; omega
  · cases h

theorem gqids_ok (m : Nat) (p : Bytes) (h : 13 * m ≤ p.length) : ∃ qs, gqids m p = .ok (qs, p.drop (13 * m)) := by
  induction m generalizing p with
  | zero => exact ⟨[], by simp [gqids]⟩
  | succ m ih =>
    obtain ⟨q, hq⟩ := gqid_ok p (by omega)
    obtain ⟨qs, hqs⟩ := ih (p.drop 13) (by simp only [List.length_drop]; omega)
    refine ⟨q :: qs, ?_⟩
    simp [gqids, hq, hqs, List.drop_drop, Nat.mul_succ, Nat.add_comm]

/-- `gstat` never traps, whatever the bytes. -/
theorem gstat_total (dotu : Bool) (buf : Bytes) : gstat dotu buf ≠ .panic := by
  unfold gstat
  split
  · intro h; cases h
  · rename_i h41
    have h41 : 41 ≤ buf.length := by omega
    rw [gint16_ok _ (by omega)]; simp only [Res.ok_bind]
    rw [gint16_ok _ (by simp only [List.length_drop]; omega)]; simp only [Res.ok_bind]
    rw [gint32_ok _ (by simp only [List.length_drop]; omega)]; simp only [Res.ok_bind]
    obtain ⟨q, hq⟩ := gqid_ok (List.drop 4 (List.drop 2 (List.drop 2 buf))) (by simp only [List.length_drop]; omega)
    rw [hq]; simp only [Res.ok_bind]
    rw [gint32_ok _ (by simp only [List.length_drop]; omega)]; simp only [Res.ok_bind]
    rw [gint32_ok _ (by simp only [List.length_drop]; omega)]; simp only [Res.ok_bind]
    rw [gint32_ok _ (by simp only [List.length_drop]; omega)]; simp only [Res.ok_bind]
    rw [gint64_ok _ (by simp only [List.length_drop]; omega)]; simp only [Res.ok_bind]
    repeat' split
    all_goals first
      | (intro h; cases h; done)
      | skip
    all_goals
      rename_i hge
      rw [gint32_ok _ (by omega)]; simp only [Res.ok_bind]
      rw [gint32_ok _ (by simp only [List.length_drop]; omega)]; simp only [Res.ok_bind]
      rw [gint32_ok _ (by simp only [List.length_drop]; omega)]; simp only [Res.ok_bind]
      intro h; cases h

end G9

namespace G9
open Go Spec

macro "rd16" : tactic => `(tactic| (rw [gint16_ok _ (by (try simp only [List.length_drop]); omega)]; simp only [Res.ok_bind]))
macro "rd32" : tactic => `(tactic| (rw [gint32_ok _ (by (try simp only [List.length_drop]); omega)]; simp only [Res.ok_bind]))
macro "rd64" : tactic => `(tactic| (rw [gint64_ok _ (by (try simp only [List.length_drop]); omega)]; simp only [Res.ok_bind]))
macro "rd8" : tactic => `(tactic| (rw [gint8_ok _ (by (try simp only [List.length_drop]); omega)]; simp only [Res.ok_bind]))
macro "rdq" : tactic => `(tactic| (rw [gqid_ok' _ (by (try simp only [List.length_drop]); omega)]; simp only [Res.ok_bind]))
macro "nopanic" : tactic => `(tactic| (intro h; cases h; done))
macro "fin" : tactic => `(tactic| ((try simp only [Res.pure_eq]); repeat' split) <;>
  (first | nopanic | (rd32; (try simp only [Res.pure_eq]); nopanic)))
macro "tb" : tactic => `(tactic| (cases ‹Bool› <;>
  simp [Generated.minFcsize, Generated.minFcusize, Generated.Tversion] at * <;> omega))

theorem minSize_val (dotu : Bool) (t : UInt8) (sz : Nat) (h : minSize dotu t = .ok sz) :
    (if dotu then Generated.minFcusize else Generated.minFcsize)[t.toNat - Generated.Tversion]? = some sz := by
  unfold minSize at h
  simp only at h
  split at h
  · cases h; assumption
  · cases h

theorem gstat_bind_total {β} (dotu : Bool) (p : Bytes) (f : Stat × Bytes → R β)
    (hf : ∀ x, f x ≠ .panic) : (gstat dotu p >>= f) ≠ .panic :=
  Res.bind_ne_panic (gstat_total dotu p) (fun a _ => hf a)

theorem unpackBody_total (dotu : Bool) (t : UInt8) (p : Bytes) (sz : Nat)
    (hmin : minSize dotu t = .ok sz) (h : sz ≤ p.length) : unpackBody dotu t p ≠ .panic := by
  have hv := minSize_val dotu t sz hmin
  clear hmin
  unfold unpackBody
  by_cases h1 : t = 100 ∨ t = 101
  · rw [if_pos h1]
    have : 6 ≤ sz := by rcases h1 with rfl | rfl <;> tb
    rd32; fin
  rw [if_neg h1]
  by_cases h2 : t = 102
  · rw [if_pos h2]; subst h2
    have : 8 ≤ sz := by tb
    rd32; fin
  rw [if_neg h2]
  by_cases h3 : t = 103 ∨ t = 105
  · rw [if_pos h3]
    have : 13 ≤ sz := by rcases h3 with rfl | rfl <;> tb
    rdq; fin
  rw [if_neg h3]
  by_cases h4 : t = 108
  · rw [if_pos h4]; subst h4
    have : 2 ≤ sz := by tb
    rd16; fin
  rw [if_neg h4]
  by_cases h5 : t = 104
  · rw [if_pos h5]; subst h5
    have : 12 ≤ sz := by tb
    rd32; rd32; fin
  rw [if_neg h5]
  by_cases h6 : t = 107
  · rw [if_pos h6]; fin
  rw [if_neg h6]
  by_cases h7 : t = 110
  · rw [if_pos h7]; subst h7
    have : 10 ≤ sz := by tb
    rd32; rd32; rd16; fin
  rw [if_neg h7]
  by_cases h8 : t = 111
  · rw [if_pos h8]; subst h8
    have : 2 ≤ sz := by tb
    rd16
    split
    · nopanic
    · rename_i hm
      obtain ⟨qs, hqs⟩ := gqids_ok (dec16 (List.take 2 p)).toNat (List.drop 2 p) (by omega)
      rw [hqs]; simp only [Res.ok_bind]; fin
  rw [if_neg h8]
  by_cases h9 : t = 112
  · rw [if_pos h9]; subst h9
    have : 5 ≤ sz := by tb
    rd32; rd8; fin
  rw [if_neg h9]
  by_cases h10 : t = 113 ∨ t = 115
  · rw [if_pos h10]
    have : 17 ≤ sz := by rcases h10 with rfl | rfl <;> tb
    rdq; rd32; fin
  rw [if_neg h10]
  by_cases h11 : t = 114
  · rw [if_pos h11]; subst h11
    have : 11 ≤ sz := by tb
    rd32
    split
    · nopanic
    · split
      · nopanic
      · rd32; rd8; fin
  rw [if_neg h11]
  by_cases h12 : t = 116
  · rw [if_pos h12]; subst h12
    have : 16 ≤ sz := by tb
    rd32; rd64; rd32; fin
  rw [if_neg h12]
  by_cases h13 : t = 117
  · rw [if_pos h13]; subst h13
    have : 4 ≤ sz := by tb
    rd32
    split
    · nopanic
    · rw [need_ok _ _ (by omega)]; simp only [Res.ok_bind]; fin
  rw [if_neg h13]
  by_cases h14 : t = 118
  · rw [if_pos h14]; subst h14
    have : 16 ≤ sz := by tb
    rd32; rd64; rd32
    split
    · nopanic
    · rw [need_ok _ _ (by omega)]; simp only [Res.ok_bind]; fin
  rw [if_neg h14]
  by_cases h15 : t = 119
  · rw [if_pos h15]; subst h15
    have : 4 ≤ sz := by tb
    rd32; fin
  rw [if_neg h15]
  by_cases h16 : t = 120 ∨ t = 122 ∨ t = 124
  · rw [if_pos h16]
    have : 4 ≤ sz := by rcases h16 with rfl | rfl | rfl <;> tb
    rd32; fin
  rw [if_neg h16]
  by_cases h17 : t = 125
  · rw [if_pos h17]; subst h17
    have : 4 ≤ sz := by tb
    rd16
    exact gstat_bind_total _ _ _ (fun x => by fin)
  rw [if_neg h17]
  by_cases h18 : t = 126
  · rw [if_pos h18]; subst h18
    have : 8 ≤ sz := by tb
    rd32; rd16
    exact gstat_bind_total _ _ _ (fun x => by fin)
  rw [if_neg h18]
  fin

theorem unpackRest_total (dotu : Bool) (size : Nat) (t : UInt8) (tag : UInt16) (p : Bytes) :
    unpackRest dotu size t tag p ≠ .panic := by
  unfold unpackRest
  split
  · nopanic
  · rename_i ht
    cases hm : minSize dotu t with
    | panic =>
      exfalso
      unfold minSize at hm
      simp only at hm
      split at hm
      · cases hm
      · rename_i hnone
        cases dotu <;>
          simp [Generated.minFcsize, Generated.minFcusize, Generated.Tversion, Generated.Tlast] at hnone ht <;>
          omega
    | err e => simp only [Res.err_bind]; nopanic
    | ok sz =>
      simp only [Res.ok_bind]
      split
      · nopanic
      · rename_i hsz
        apply Res.bind_ne_panic (unpackBody_total dotu _ _ sz hm (by omega))
        intro a _
        fin

/-- the header of `Unpack`, spelled out for buffers of at least 7 bytes -/
theorem unpack_eq (dotu : Bool) (buf : Bytes) (h7 : 7 ≤ buf.length) :
    unpack dotu buf =
      (if (dec32 (buf.take 4)).toNat > buf.length ∨ (dec32 (buf.take 4)).toNat < 7 then .err .sizeBad
       else unpackRest dotu (dec32 (buf.take 4)).toNat ((buf.drop 4).headD 0)
              (dec16 ((buf.drop 5).take 2)) ((buf.drop 7).take ((dec32 (buf.take 4)).toNat - 7))) := by
  unfold unpack
  rw [if_neg (by omega)]
  rd32; rd8; rd16
  simp only [List.drop_drop]
  split
  · rfl
  · rename_i hs
    rw [need_ok _ _ (by simp only [List.length_drop]; omega)]
    rfl

/-- `Unpack` never traps: for every byte string and either dialect it returns a message
    or an error. -/
theorem unpack_total' (dotu : Bool) (buf : Bytes) : unpack dotu buf ≠ .panic := by
  by_cases h7 : buf.length < 7
  · unfold unpack; rw [if_pos h7]; nopanic
  · rw [unpack_eq dotu buf (by omega)]
    split
    · nopanic
    · exact unpackRest_total _ _ _ _ _

end G9
