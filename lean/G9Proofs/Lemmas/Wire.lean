import G9.Wire.Go
namespace G9
open Go Spec

@[simp] theorem need_append (a r : Bytes) (n : Nat) (h : a.length = n) :
    need n (a ++ r) = .ok (a, r) := by
  subst h
  simp [need]

theorem gint8_p8 (v : UInt8) (r : Bytes) : gint8 (p8 v ++ r) = .ok (v, r) := by
  simp [gint8, p8]

theorem gint16_p16 (v : UInt16) (r : Bytes) : gint16 (p16 v ++ r) = .ok (v, r) := by
  unfold gint16; rw [need_append _ _ 2 (p16_length v)]; simp [p16, dec16, le16_p16]

theorem gint32_p32 (v : UInt32) (r : Bytes) : gint32 (p32 v ++ r) = .ok (v, r) := by
  unfold gint32; rw [need_append _ _ 4 (p32_length v)]; simp [p32, dec32, le32_p32]

theorem gint64_p64 (v : UInt64) (r : Bytes) : gint64 (p64 v ++ r) = .ok (v, r) := by
  unfold gint64; rw [need_append _ _ 8 (p64_length v)]; simp [p64, dec64, le64_p64]

theorem u16_ofNat_toNat (n : Nat) (h : n < 65536) : (UInt16.ofNat n).toNat = n := by
  simp [UInt16.toNat_ofNat']; omega

@[simp] theorem dec16_p16 (v : UInt16) : dec16 (p16 v) = v := by simp [p16, dec16, le16_p16]
@[simp] theorem dec32_p32 (v : UInt32) : dec32 (p32 v) = v := by simp [p32, dec32, le32_p32]
@[simp] theorem dec64_p64 (v : UInt64) : dec64 (p64 v) = v := by simp [p64, dec64, le64_p64]

theorem gstr_str (s r : Bytes) (h : s.length < 65536) : gstr (Spec.str s ++ r) = some (s, r) := by
  have h2 := u16_ofNat_toNat s.length h
  have := le16_p16 (UInt16.ofNat s.length)
  rw [h2] at this
  simp only [Spec.str, p16, List.cons_append, List.nil_append, gstr, h2, this]
  simp

theorem gqid_qid (q : Qid) (r : Bytes) : gqid (Spec.qid q ++ r) = .ok (q, r) := by
  simp [gqid, Spec.qid, List.append_assoc, gint8_p8, gint32_p32, gint64_p64]

theorem stat_length_ge (dotu : Bool) (d : Stat) : 49 ≤ (Spec.stat dotu d).length := by
  cases dotu <;> simp [Spec.stat, Spec.statBody, Spec.str, Spec.qid] <;> omega

theorem gstat_stat (dotu : Bool) (d : Stat) (r : Bytes) (h : Spec.statStrOk dotu d) :
    gstat dotu (Spec.stat dotu d ++ r) = .ok (normStat dotu d, r) := by
  obtain ⟨hn, hu, hg, hm, he⟩ := h
  have hl : ¬ (Spec.stat dotu d ++ r).length < 41 := by
    have := stat_length_ge dotu d
    simp only [List.length_append]; omega
  unfold gstat
  rw [if_neg hl]
  simp only [Spec.strOk] at hn hu hg hm he
  cases dotu
  · simp [Spec.stat, Spec.statBody, List.append_assoc, gint16_p16, gint32_p32, gint64_p64,
      gqid_qid, gstr_str _ _ hn, gstr_str _ _ hu, gstr_str _ _ hg, gstr_str _ _ hm, normStat]
  · have he' := he rfl
    simp [Spec.stat, Spec.statBody, List.append_assoc, gint16_p16, gint32_p32, gint64_p64,
      gqid_qid, gstr_str _ _ hn, gstr_str _ _ hu, gstr_str _ _ hg, gstr_str _ _ hm,
      gstr_str _ _ he', normStat]
    omega

theorem gstrs_strs (ns : List Bytes) (r : Bytes) (h : ∀ n ∈ ns, Spec.strOk n) :
    gstrs ns.length (Spec.strs ns ++ r) = some (ns, r) := by
  induction ns with
  | nil => simp [gstrs, Spec.strs]
  | cons n ns ih =>
    have hn : n.length < 65536 := h n (by simp)
    have ih' := ih (fun m hm => h m (by simp [hm]))
    simp [gstrs, Spec.strs, List.append_assoc, gstr_str _ _ hn, ih']

theorem gqids_qids (qs : List Qid) (r : Bytes) :
    gqids qs.length (Spec.qids qs ++ r) = .ok (qs, r) := by
  induction qs with
  | nil => simp [gqids, Spec.qids]
  | cons q qs ih => simp [gqids, Spec.qids, List.append_assoc, gqid_qid, ih]

theorem strs_length_ge (ns : List Bytes) : 2 * ns.length ≤ (Spec.strs ns).length := by
  induction ns with
  | nil => simp [Spec.strs]
  | cons n ns ih => simp [Spec.strs, Spec.str]; omega

theorem qids_length (qs : List Qid) : (Spec.qids qs).length = 13 * qs.length := by
  induction qs with
  | nil => simp [Spec.qids]
  | cons q qs ih => simp [Spec.qids, Spec.qid, ih]; omega

end G9
