import G9Proofs.Lemmas.WireMsg
namespace G9
open Go Spec

theorem pstr_eq (s : Bytes) : pstr s = Spec.str s := rfl
theorem pqid_eq (q : Qid) : pqid q = Spec.qid q := rfl

theorem pstrs_eq (ns : List Bytes) : pstrs ns = Spec.strs ns := by
  induction ns with
  | nil => rfl
  | cons n ns ih => simp [pstrs, Spec.strs, pstr_eq, ih]

theorem pqids_eq (qs : List Qid) : pqids qs = Spec.qids qs := by
  induction qs with
  | nil => rfl
  | cons q qs ih => simp [pqids, Spec.qids, pqid_eq, ih]

theorem strs_length (ns : List Bytes) : (Spec.strs ns).length = ns.length * 2 + namesLen ns := by
  induction ns with
  | nil => rfl
  | cons n ns ih =>
    show (Spec.str n ++ Spec.strs ns).length = _
    rw [List.length_append, ih]
    show (p16 _ ++ n).length + _ = (ns.length + 1) * 2 + (n.length + namesLen ns)
    rw [List.length_append, p16_length]
    omega

theorem statBody_length (dotu : Bool) (d : Stat) :
    (Spec.statBody dotu d).length = statsz dotu d - 2 := by
  cases dotu <;>
  simp only [Spec.statBody, statsz, List.length_append, p16_length, p32_length, p64_length, p8_length,
    Spec.str, Spec.qid, Bool.false_eq_true, ↓reduceIte, List.length_nil] <;> omega

theorem stat_length (dotu : Bool) (d : Stat) : (Spec.stat dotu d).length = statsz dotu d := by
  have := statBody_length dotu d
  have h2 : 2 ≤ statsz dotu d := by unfold statsz; omega
  simp [Spec.stat, this]; omega

theorem pstat_eq (dotu : Bool) (d : Stat) : pstat dotu d = Spec.stat dotu d := by
  have := statBody_length dotu d
  cases dotu <;> simp_all [pstat, Spec.stat, Spec.statBody, pstr_eq, pqid_eq, List.append_assoc]

/-- `PackDir` is the protocol's stat record. -/
theorem packDir_eq (dotu : Bool) (d : Stat) : packDir dotu d = Spec.stat dotu d := by
  unfold packDir
  rw [pstat_eq, ← stat_length dotu d, List.take_length]

/-- what every constructor writes is the protocol's body, and the size it computes
    beforehand is the length of what it writes. -/
theorem packParts_spec (dotu : Bool) (m : Msg) :
    (packParts dotu m).2 = Spec.body dotu m ∧ (packParts dotu m).1 = (Spec.body dotu m).length := by
  cases m <;> cases dotu <;>
    simp [packParts, Spec.body, pstr_eq, pqid_eq, pstrs_eq, pqids_eq, pstat_eq, stat_length,
      Spec.str, Spec.qid, strs_length, qids_length] <;> omega

end G9
