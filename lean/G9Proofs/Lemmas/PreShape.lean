import G9Proofs.Lemmas.PostRefs
namespace G9.Srv

/-- facts about the pre-reply part that the bookkeeping argument needs, per request type -/
def Shape (c : Conn) (t : Msg) (m : Mid) : Prop :=
  match t with
  | .tauth afid _ _ _ =>
      (∀ calls a, m.pre = .answer calls a → refOf c.fids afid = 0 ∧ present m.c.fids afid ∧ m.held ≠ [] ∧ afid ≠ NOFID)
  | .tattach fid _ _ _ _ =>
      (∀ calls a, m.pre = .answer calls a → refOf c.fids fid = 0 ∧ present m.c.fids fid ∧ m.held ≠ [] ∧ fid ≠ NOFID)
  | .twalk f nf _ =>
      (∀ calls a, m.pre = .answer calls a →
        present c.fids f ∧ present m.c.fids f ∧ present m.c.fids nf ∧ (nf ≠ f → refOf c.fids nf = 0 ∧ nf ≠ NOFID) ∧
          m.held ≠ [])
  | .tclunk _ => (∀ calls a, m.pre = .answer calls a → m.held ≠ [])
  | .tremove f => (m.held = [] → refOf c.fids f = 0 ∨ f = NOFID)
  | _ => True

theorem present_incRef (fs : Fids) (k k' : UInt32) : present (incRef fs k) k' ↔ present fs k' :=
  present_modFid fs k k' _

theorem present_of_lookup (fs : Fids) (k : UInt32) (r : FidRec) (h : lookup fs k = some r) : present fs k := by
  unfold present; rw [h]; rfl

theorem present_new (fs fs' : Fids) (k k' : UInt32) (u : Nat) (h : fidNew fs k u = some fs') :
    present fs' k' ↔ (k' = k ∨ present fs k') := by
  unfold present
  rw [(fidNew_some fs fs' k u h).2]
  by_cases hk : k' = k <;> simp [hk]

theorem refOf_zero_of_none (fs : Fids) (k : UInt32) (h : lookup fs k = none) : refOf fs k = 0 := by
  unfold refOf; rw [h]

theorem pre_shape (cfg : Cfg) (impl : Impl) (c : Conn) (t : Msg) : Shape c t (pre cfg impl c t) := by
  unfold pre Shape
  cases t with
  | tauth afid un an n =>
    simp only
    intro calls a
    split
    · intro h; cases h
    · split
      · intro h; cases h
      · rename_i fs hnew
        have h0 := (refOf_fidNew _ _ _ afid _ hnew).1
        have hp : present fs afid := (present_new _ _ _ _ _ hnew).2 (Or.inl rfl)
        split
        · intro h; cases h
        · repeat' split
          all_goals first
            | (intro h; cases h; done)
            | (intro _; refine ⟨h0, ?_, by simp, by simp_all⟩; dsimp only; simp only [present_modFid, present_incRef]; exact hp)
  | tattach fid afid un an n =>
    simp only
    intro calls a
    split
    · intro h; cases h
    · split
      · intro h; cases h
      · rename_i fs hnew
        have h0 := (refOf_fidNew _ _ _ fid _ hnew).1
        have hp : present fs fid := (present_new _ _ _ _ _ hnew).2 (Or.inl rfl)
        split
        · intro h; cases h
        · repeat' split
          all_goals first
            | (intro h; cases h; done)
            | (intro _; refine ⟨h0, ?_, by simp, by simp_all⟩; dsimp only; simp only [present_modFid, present_incRef]; exact hp)
  | twalk f nf names =>
    simp only [msgFid]
    intro calls a
    split
    · intro h; cases h
    · split
      · intro h; cases h
      · rename_i r hl
        have hpf := present_of_lookup _ _ _ hl
        repeat' split
        all_goals first
          | (intro h; cases h; done)
          | skip
        · -- new fid created
          rename_i hne hnn fs' hnew
          have hfn : ¬ nf = f := by
            intro e; subst e; simp_all
          intro _
          refine ⟨hpf, ?_, ?_, ?_, by simp⟩ <;> (try dsimp only)
          · rw [present_modFid, present_new _ _ _ _ _ hnew, present_incRef]; exact Or.inr hpf
          · rw [present_modFid, present_new _ _ _ _ _ hnew]; exact Or.inl rfl
          · intro _
            have h0 := (refOf_fidNew _ _ _ nf _ hnew).1
            rw [refOf_incRef] at h0
            simp only [hfn, false_and, if_false] at h0
            exact ⟨h0, by simp_all⟩
        · -- in place
          rename_i hne
          have hfn : nf = f := by
            simp_all
          intro _
          subst hfn
          refine ⟨hpf, ?_, ?_, fun h => absurd rfl h, by simp⟩ <;> (try dsimp only)
          · rw [present_incRef, present_incRef]; exact hpf
          · rw [present_incRef, present_incRef]; exact hpf
  | tclunk f =>
    simp only [msgFid]
    intro calls a
    repeat' split
    all_goals first
      | (intro h; cases h; done)
      | (intro _; simp)
  | tremove f =>
    simp only [msgFid]
    split
    · rename_i hn
      intro _
      right; simpa using hn
    · split
      · rename_i hl; intro _; exact Or.inl (refOf_zero_of_none _ _ hl)
      · intro h; simp at h
  | _ => trivial

end G9.Srv
