/-
  Inversion of the decoder: what a successful `Unpack` says about the message it returns.
  Used by C02 (`decoded_is_representable`, `reencode_decodes_same`).
-/
import G9Proofs.Lemmas.WireTotal
namespace G9
open Go Spec

theorem Res.bind_ok {ε α β : Type} {x : Res ε α} {f : α → Res ε β} {b : β}
    (h : (x >>= f) = .ok b) : ∃ a, x = .ok a ∧ f a = .ok b := by
  cases x with
  | ok a => exact ⟨a, rfl, h⟩
  | err e => cases h
  | panic => cases h

theorem need_inv {n : Nat} {p h r : Bytes} (hn : need n p = .ok (h, r)) :
    r.length + n = p.length ∧ h.length = n := by
  by_cases hl : n ≤ p.length
  · rw [need_ok _ _ hl] at hn; cases hn
    simp only [List.length_drop, List.length_take]; omega
  · rw [need_panic _ _ (by omega)] at hn; cases hn

theorem gint8_inv {p r : Bytes} {v : UInt8} (h : gint8 p = .ok (v, r)) : r.length + 1 = p.length := by
  cases p with
  | nil => cases h
  | cons a t => simp only [gint8] at h; cases h; simp

theorem gint16_inv {p r : Bytes} {v : UInt16} (h : gint16 p = .ok (v, r)) : r.length + 2 = p.length := by
  unfold gint16 at h
  obtain ⟨⟨a, b⟩, h1, h2⟩ := Res.bind_ok h
  cases h2
  exact (need_inv h1).1

theorem gint32_inv {p r : Bytes} {v : UInt32} (h : gint32 p = .ok (v, r)) : r.length + 4 = p.length := by
  unfold gint32 at h
  obtain ⟨⟨a, b⟩, h1, h2⟩ := Res.bind_ok h
  cases h2
  exact (need_inv h1).1

theorem gint64_inv {p r : Bytes} {v : UInt64} (h : gint64 p = .ok (v, r)) : r.length + 8 = p.length := by
  unfold gint64 at h
  obtain ⟨⟨a, b⟩, h1, h2⟩ := Res.bind_ok h
  cases h2
  exact (need_inv h1).1

theorem gqid_inv {p r : Bytes} {q : Qid} (h : gqid p = .ok (q, r)) : r.length + 13 = p.length := by
  unfold gqid at h
  obtain ⟨⟨a, p1⟩, h1, h⟩ := Res.bind_ok h
  obtain ⟨⟨b, p2⟩, h2, h⟩ := Res.bind_ok h
  obtain ⟨⟨c, p3⟩, h3, h⟩ := Res.bind_ok h
  cases h
  have := gint8_inv h1; have := gint32_inv h2; have := gint64_inv h3
  omega

theorem le16_lt (a b : UInt8) : (le16 a b).toNat < 65536 := (le16 a b).toNat_lt

/-- a decoded string fits its length field -/
theorem gstr_inv {p s r : Bytes} (h : gstr p = some (s, r)) :
    Spec.strOk s ∧ r.length + s.length + 2 = p.length := by
  refine ⟨?_, gstr_len p s r h⟩
  unfold gstr at h
  split at h
  · rename_i a b t
    simp only at h
    split at h
    · cases h
    · cases h
      have := le16_lt a b
      simp only [Spec.strOk, List.length_take]
      omega
  · cases h

theorem str_length (s : Bytes) : (Spec.str s).length = 2 + s.length := by
  simp [Spec.str, Nat.add_comm]

theorem gstrs_inv {n : Nat} {p r : Bytes} {ns : List Bytes} (h : gstrs n p = some (ns, r)) :
    ns.length = n ∧ (∀ s ∈ ns, Spec.strOk s) ∧ (Spec.strs ns).length + r.length = p.length := by
  induction n generalizing p ns with
  | zero =>
    simp only [gstrs, Option.some.injEq, Prod.mk.injEq] at h
    obtain ⟨rfl, rfl⟩ := h
    simp [Spec.strs]
  | succ n ih =>
    simp only [gstrs] at h
    split at h
    · cases h
    · rename_i s p1 hs
      split at h
      · cases h
      · rename_i ss p2 hss
        cases h
        obtain ⟨h1, h2, h3⟩ := ih hss
        obtain ⟨g1, g2⟩ := gstr_inv hs
        refine ⟨by simp [h1], ?_, ?_⟩
        · intro x hx
          simp only [List.mem_cons] at hx
          rcases hx with rfl | hx
          · exact g1
          · exact h2 x hx
        · simp only [Spec.strs, List.length_append, str_length]; omega

theorem gqids_inv {n : Nat} {p r : Bytes} {qs : List Qid} (h : gqids n p = .ok (qs, r)) :
    qs.length = n ∧ 13 * n + r.length = p.length := by
  induction n generalizing p qs with
  | zero => simp only [gqids] at h; cases h; simp
  | succ n ih =>
    simp only [gqids] at h
    obtain ⟨⟨q, p1⟩, h1, h⟩ := Res.bind_ok h
    dsimp only at h
    obtain ⟨⟨qs', p2⟩, h2, h⟩ := Res.bind_ok h
    cases h
    obtain ⟨i1, i2⟩ := ih h2
    have := gqid_inv h1
    refine ⟨by simp [i1], by omega⟩

/-- a decoded stat record: its strings fit, it carries Go's defaults for what the dialect
    does not have, and it is as long on the wire as what was consumed -/
theorem gstat_inv {dotu : Bool} {p r : Bytes} {d : Stat} (h : gstat dotu p = .ok (d, r)) :
    Spec.statStrOk dotu d ∧ normStat dotu d = d ∧ (Spec.stat dotu d).length + r.length = p.length := by
  unfold gstat at h
  split at h
  · cases h
  obtain ⟨⟨x0, p0⟩, e0, h⟩ := Res.bind_ok h
  obtain ⟨⟨x1, p1⟩, e1, h⟩ := Res.bind_ok h
  obtain ⟨⟨x2, p2⟩, e2, h⟩ := Res.bind_ok h
  obtain ⟨⟨x3, p3⟩, e3, h⟩ := Res.bind_ok h
  obtain ⟨⟨x4, p4⟩, e4, h⟩ := Res.bind_ok h
  obtain ⟨⟨x5, p5⟩, e5, h⟩ := Res.bind_ok h
  obtain ⟨⟨x6, p6⟩, e6, h⟩ := Res.bind_ok h
  obtain ⟨⟨x7, p7⟩, e7, h⟩ := Res.bind_ok h
  have l0 := gint16_inv e0; have l1 := gint16_inv e1; have l2 := gint32_inv e2
  have l3 := gqid_inv e3; have l4 := gint32_inv e4; have l5 := gint32_inv e5
  have l6 := gint32_inv e6; have l7 := gint64_inv e7
  simp only at h
  split at h
  · cases h
  rename_i name q1 s1
  split at h
  · cases h
  rename_i uid q2 s2
  split at h
  · cases h
  rename_i gid q3 s3
  split at h
  · cases h
  rename_i muid q4 s4
  obtain ⟨k1, m1⟩ := gstr_inv s1
  obtain ⟨k2, m2⟩ := gstr_inv s2
  obtain ⟨k3, m3⟩ := gstr_inv s3
  obtain ⟨k4, m4⟩ := gstr_inv s4
  cases dotu
  · simp only [Bool.false_eq_true, if_false, Res.pure_eq] at h
    cases h
    refine ⟨⟨k1, k2, k3, k4, by intro hh; cases hh⟩, by simp [normStat], ?_⟩
    simp only [Spec.stat, Spec.statBody, Spec.qid, List.length_append, p16_length, p32_length,
      p64_length, p8_length, str_length, Bool.false_eq_true, if_false, List.length_nil]
    omega
  · simp only [if_true] at h
    split at h
    · cases h
    rename_i ext q5 s5
    obtain ⟨k5, m5⟩ := gstr_inv s5
    split at h
    · cases h
    obtain ⟨⟨y0, r0⟩, f0, h⟩ := Res.bind_ok h
    dsimp only at h
    obtain ⟨⟨y1, r1⟩, f1, h⟩ := Res.bind_ok h
    dsimp only at h
    obtain ⟨⟨y2, r2⟩, f2, h⟩ := Res.bind_ok h
    have n0 := gint32_inv f0; have n1 := gint32_inv f1; have n2 := gint32_inv f2
    cases h
    refine ⟨⟨k1, k2, k3, k4, fun _ => k5⟩, by simp [normStat], ?_⟩
    simp only [Spec.stat, Spec.statBody, Spec.qid, List.length_append, p16_length, p32_length,
      p64_length, p8_length, str_length, if_true]
    omega

end G9

namespace G9
open Go Spec

macro "peel" h:ident x:ident p:ident e:ident : tactic =>
  `(tactic| (obtain ⟨⟨$x:ident, $p:ident⟩, $e:ident, $h:ident⟩ := Res.bind_ok $h; dsimp only at $h:ident))

macro "lens" : tactic =>
  `(tactic| ((try simp only [List.length_nil] at *); simp only [Spec.body, Spec.qid, List.length_append, p8_length, p16_length, p32_length, p64_length, str_length, List.length_nil, if_true, Bool.false_eq_true, if_false, qids_length]; omega))

/-- What a successful decode of a message body says about the message: its type code is the
    one decoded, it already carries Go's defaults (`norm`), every string and count fits its
    wire field, and its protocol encoding is at most four bytes longer than what was read
    (a .u Tauth/Tattach without the numeric uid is re-encoded with one). -/
theorem unpackBody_inv (dotu : Bool) (t : UInt8) (p : Bytes) (m : Msg)
    (h : unpackBody dotu t p = .ok (m, [])) :
    m.code = t ∧ norm dotu m = m ∧ (Spec.body dotu m).length ≤ p.length + 4 ∧
    (7 + (Spec.body dotu m).length < 4294967296 → Spec.RepW dotu m) := by
  unfold unpackBody at h
  by_cases h1 : t = 100 ∨ t = 101
  · rw [if_pos h1] at h
    peel h ms p1 e1
    split at h
    · cases h
    rename_i v p2 s2
    have := gint32_inv e1; obtain ⟨k, l⟩ := gstr_inv s2
    rcases h1 with rfl | rfl <;> simp at h <;> obtain ⟨rfl, rfl⟩ := h <;>
      exact ⟨rfl, rfl, by lens, fun hsz => ⟨hsz, k⟩⟩
  rw [if_neg h1] at h
  by_cases h2 : t = 102
  · rw [if_pos h2] at h; subst h2
    peel h afid p1 e1
    split at h
    · cases h
    rename_i un p2 s2
    split at h
    · cases h
    rename_i an p3 s3
    have := gint32_inv e1; obtain ⟨k2, l2⟩ := gstr_inv s2; obtain ⟨k3, l3⟩ := gstr_inv s3
    cases dotu
    · simp at h; obtain ⟨rfl, rfl⟩ := h
      exact ⟨rfl, rfl, by lens, fun hsz => ⟨hsz, k2, k3⟩⟩
    · simp only [if_true] at h
      split at h
      · peel h n p4 e4
        simp at h; obtain ⟨rfl, rfl⟩ := h
        have := gint32_inv e4
        exact ⟨rfl, rfl, by lens, fun hsz => ⟨hsz, k2, k3⟩⟩
      · simp at h; obtain ⟨rfl, rfl⟩ := h
        exact ⟨rfl, rfl, by lens, fun hsz => ⟨hsz, k2, k3⟩⟩
  rw [if_neg h2] at h
  by_cases h3 : t = 103 ∨ t = 105
  · rw [if_pos h3] at h
    peel h q p1 e1
    have := gqid_inv e1
    rcases h3 with rfl | rfl <;> simp at h <;> obtain ⟨rfl, rfl⟩ := h <;>
      exact ⟨rfl, rfl, by lens, fun hsz => ⟨hsz, trivial⟩⟩
  rw [if_neg h3] at h
  by_cases h4 : t = 108
  · rw [if_pos h4] at h; subst h4
    peel h ot p1 e1
    have := gint16_inv e1
    simp at h; obtain ⟨rfl, rfl⟩ := h
    exact ⟨rfl, rfl, by lens, fun hsz => ⟨hsz, trivial⟩⟩
  rw [if_neg h4] at h
  by_cases h5 : t = 104
  · rw [if_pos h5] at h; subst h5
    peel h fid p0 e0
    peel h afid p1 e1
    split at h
    · cases h
    rename_i un p2 s2
    split at h
    · cases h
    rename_i an p3 s3
    have := gint32_inv e0
    have := gint32_inv e1; obtain ⟨k2, l2⟩ := gstr_inv s2; obtain ⟨k3, l3⟩ := gstr_inv s3
    cases dotu
    · simp at h; obtain ⟨rfl, rfl⟩ := h
      exact ⟨rfl, rfl, by lens, fun hsz => ⟨hsz, k2, k3⟩⟩
    · simp only [if_true] at h
      split at h
      · peel h n p4 e4
        simp at h; obtain ⟨rfl, rfl⟩ := h
        have := gint32_inv e4
        exact ⟨rfl, rfl, by lens, fun hsz => ⟨hsz, k2, k3⟩⟩
      · simp at h; obtain ⟨rfl, rfl⟩ := h
        exact ⟨rfl, rfl, by lens, fun hsz => ⟨hsz, k2, k3⟩⟩
  rw [if_neg h5] at h
  by_cases h6 : t = 107
  · rw [if_pos h6] at h; subst h6
    split at h
    · cases h
    rename_i e p1 s1
    obtain ⟨k, l⟩ := gstr_inv s1
    cases dotu
    · simp at h; obtain ⟨rfl, rfl⟩ := h
      exact ⟨rfl, rfl, by lens, fun hsz => ⟨hsz, k⟩⟩
    · simp only [if_true] at h
      split at h
      · cases h
      peel h c p2 e2
      have := gint32_inv e2
      simp at h; obtain ⟨rfl, rfl⟩ := h
      exact ⟨rfl, rfl, by lens, fun hsz => ⟨hsz, k⟩⟩
  rw [if_neg h6] at h
  by_cases h7 : t = 110
  · rw [if_pos h7] at h; subst h7
    peel h fid p1 e1
    peel h nf p2 e2
    peel h cnt p3 e3
    split at h
    · cases h
    split at h
    · cases h
    rename_i ns p4 s4
    simp at h; obtain ⟨rfl, rfl⟩ := h
    obtain ⟨g1, g2, g3⟩ := gstrs_inv s4
    have := gint32_inv e1; have := gint32_inv e2; have := gint16_inv e3
    have hc := cnt.toNat_lt
    exact ⟨rfl, rfl, by lens, fun hsz => ⟨hsz, by rw [g1]; omega, g2⟩⟩
  rw [if_neg h7] at h
  by_cases h8 : t = 111
  · rw [if_pos h8] at h; subst h8
    peel h cnt p1 e1
    split at h
    · cases h
    peel h qs p2 e2
    simp at h; obtain ⟨rfl, rfl⟩ := h
    obtain ⟨g1, g2⟩ := gqids_inv e2
    have := gint16_inv e1
    have hc := cnt.toNat_lt
    exact ⟨rfl, rfl, by lens, fun hsz => ⟨hsz, by show qs.length < 65536; omega⟩⟩
  rw [if_neg h8] at h
  by_cases h9 : t = 112
  · rw [if_pos h9] at h; subst h9
    peel h fid p1 e1
    peel h mode p2 e2
    have := gint32_inv e1; have := gint8_inv e2
    simp at h; obtain ⟨rfl, rfl⟩ := h
    exact ⟨rfl, rfl, by lens, fun hsz => ⟨hsz, trivial⟩⟩
  rw [if_neg h9] at h
  by_cases h10 : t = 113 ∨ t = 115
  · rw [if_pos h10] at h
    peel h q p1 e1
    peel h io p2 e2
    have := gqid_inv e1; have := gint32_inv e2
    rcases h10 with rfl | rfl <;> simp at h <;> obtain ⟨rfl, rfl⟩ := h <;>
      exact ⟨rfl, rfl, by lens, fun hsz => ⟨hsz, trivial⟩⟩
  rw [if_neg h10] at h
  by_cases h11 : t = 114
  · rw [if_pos h11] at h; subst h11
    peel h fid p1 e1
    split at h
    · cases h
    rename_i name p2 s2
    split at h
    · cases h
    peel h perm p3 e3
    peel h mode p4 e4
    have := gint32_inv e1; obtain ⟨k2, l2⟩ := gstr_inv s2
    have := gint32_inv e3; have := gint8_inv e4
    cases dotu
    · simp at h; obtain ⟨rfl, rfl⟩ := h
      exact ⟨rfl, rfl, by lens, fun hsz => ⟨hsz, k2, by intro hh; cases hh⟩⟩
    · simp only [if_true] at h
      split at h
      · cases h
      rename_i ext p5 s5
      obtain ⟨k5, l5⟩ := gstr_inv s5
      simp at h; obtain ⟨rfl, rfl⟩ := h
      exact ⟨rfl, rfl, by lens, fun hsz => ⟨hsz, k2, fun _ => k5⟩⟩
  rw [if_neg h11] at h
  by_cases h12 : t = 116
  · rw [if_pos h12] at h; subst h12
    peel h fid p1 e1
    peel h off p2 e2
    peel h cnt p3 e3
    have := gint32_inv e1; have := gint64_inv e2; have := gint32_inv e3
    simp at h; obtain ⟨rfl, rfl⟩ := h
    exact ⟨rfl, rfl, by lens, fun hsz => ⟨hsz, trivial⟩⟩
  rw [if_neg h12] at h
  by_cases h13 : t = 117
  · rw [if_pos h13] at h; subst h13
    peel h cnt p1 e1
    split at h
    · cases h
    peel h x0 r e2
    have := gint32_inv e1; have := need_inv e2
    simp at h; obtain ⟨rfl, rfl⟩ := h
    exact ⟨rfl, rfl, by lens, fun hsz => ⟨hsz, trivial⟩⟩
  rw [if_neg h13] at h
  by_cases h14 : t = 118
  · rw [if_pos h14] at h; subst h14
    peel h fid p1 e1
    peel h off p2 e2
    peel h cnt p3 e3
    split at h
    · cases h
    rename_i hcnt
    peel h x0 r e4
    have := gint32_inv e1; have := gint64_inv e2; have := gint32_inv e3; have := need_inv e4
    simp at h; obtain ⟨rfl, rfl⟩ := h
    exact ⟨rfl, rfl, by lens, fun hsz => ⟨hsz, by show cnt.toNat = p3.length; omega⟩⟩
  rw [if_neg h14] at h
  by_cases h15 : t = 119
  · rw [if_pos h15] at h; subst h15
    peel h cnt p1 e1
    have := gint32_inv e1
    simp at h; obtain ⟨rfl, rfl⟩ := h
    exact ⟨rfl, rfl, by lens, fun hsz => ⟨hsz, trivial⟩⟩
  rw [if_neg h15] at h
  by_cases h16 : t = 120 ∨ t = 122 ∨ t = 124
  · rw [if_pos h16] at h
    peel h fid p1 e1
    have := gint32_inv e1
    rcases h16 with rfl | rfl | rfl <;> simp at h <;> obtain ⟨rfl, rfl⟩ := h <;>
      exact ⟨rfl, rfl, by lens, fun hsz => ⟨hsz, trivial⟩⟩
  rw [if_neg h16] at h
  by_cases h17 : t = 125
  · rw [if_pos h17] at h; subst h17
    peel h x0 p1 e1
    peel h d p2 e2
    have := gint16_inv e1
    obtain ⟨g1, g2, g3⟩ := gstat_inv e2
    simp at h; obtain ⟨rfl, rfl⟩ := h
    exact ⟨rfl, by simp [norm, g2], by lens, fun hsz => ⟨hsz, g1⟩⟩
  rw [if_neg h17] at h
  by_cases h18 : t = 126
  · rw [if_pos h18] at h; subst h18
    peel h fid p0 e0
    peel h x0 p1 e1
    peel h d p2 e2
    have := gint32_inv e0
    have := gint16_inv e1
    obtain ⟨g1, g2, g3⟩ := gstat_inv e2
    simp at h; obtain ⟨rfl, rfl⟩ := h
    exact ⟨rfl, by simp [norm, g2], by lens, fun hsz => ⟨hsz, g1⟩⟩
  rw [if_neg h18] at h
  by_cases h19 : t = 109
  · rw [if_pos h19] at h; subst h19
    simp at h; obtain ⟨rfl, rfl⟩ := h
    exact ⟨rfl, rfl, by lens, fun hsz => ⟨hsz, trivial⟩⟩
  rw [if_neg h19] at h
  by_cases h20 : t = 121
  · rw [if_pos h20] at h; subst h20
    simp at h; obtain ⟨rfl, rfl⟩ := h
    exact ⟨rfl, rfl, by lens, fun hsz => ⟨hsz, trivial⟩⟩
  rw [if_neg h20] at h
  by_cases h21 : t = 123
  · rw [if_pos h21] at h; subst h21
    simp at h; obtain ⟨rfl, rfl⟩ := h
    exact ⟨rfl, rfl, by lens, fun hsz => ⟨hsz, trivial⟩⟩
  rw [if_neg h21] at h
  by_cases h22 : t = 127
  · rw [if_pos h22] at h; subst h22
    simp at h; obtain ⟨rfl, rfl⟩ := h
    exact ⟨rfl, rfl, by lens, fun hsz => ⟨hsz, trivial⟩⟩
  rw [if_neg h22] at h
  cases h

end G9
