import G9Proofs.Lemmas.StepRefs
namespace G9.Srv

theorem postKind_auth {t : Msg} {rep : Reply} {afid : UInt32} (h : postKind t rep = .auth afid) :
    ∃ a b c q, t = .tauth afid a b c ∧ rep = .r (.rauth q) := by
  unfold postKind at h
  split at h <;> first | (cases h; exact ⟨_, _, _, _, rfl, rfl⟩) | cases h

theorem postKind_attach {t : Msg} {rep : Reply} {fid : UInt32} {q : Qid} (h : postKind t rep = .attach fid q) :
    ∃ a b c d, t = .tattach fid a b c d ∧ rep = .r (.rattach q) := by
  unfold postKind at h
  split at h <;> first | (cases h; exact ⟨_, _, _, _, rfl, rfl⟩) | cases h

theorem postKind_walk {t : Msg} {rep : Reply} {f nf : UInt32} {names : List Bytes} {qs : List Qid}
    (h : postKind t rep = .walk f nf names qs) : t = .twalk f nf names ∧ rep = .r (.rwalk qs) := by
  unfold postKind at h
  split at h <;> first | (cases h; exact ⟨rfl, rfl⟩) | cases h

theorem postKind_release {t : Msg} {rep : Reply} {f : UInt32} (h : postKind t rep = .release f) :
    (t = .tclunk f ∧ rep = .r .rclunk) ∨ t = .tremove f := by
  unfold postKind at h
  split at h <;> first | (cases h; exact Or.inl ⟨rfl, rfl⟩) | (cases h; exact Or.inr rfl) | cases h

/-- a reply that is an R-message was produced by an answer, never by a refusal -/
theorem stepRep_r (cfg : Cfg) (impl : Impl) (c : Conn) (t : Msg) (m : Msg)
    (h : stepRep cfg impl c t = .r m) : ∃ calls a, (pre cfg impl c t).pre = .answer calls a := by
  unfold stepRep at h
  cases hp : (pre cfg impl c t).pre with
  | refuse e => rw [hp] at h; cases h
  | answer calls a => exact ⟨calls, a, rfl⟩

end G9.Srv
