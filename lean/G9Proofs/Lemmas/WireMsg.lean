import G9Proofs.Lemmas.Wire
namespace G9
open Go Spec

theorem u16_toNat_of_lt (n : Nat) (h : n < 65536) : (UInt16.ofNat n).toNat = n :=
  u16_ofNat_toNat n h

/-- decoding the body of an encoded message gives the message back (with Go's defaults
    for what the dialect does not carry) and leaves exactly what followed it. -/
def isData : Msg → Bool
  | .rread _ => true
  | .twrite .. => true
  | _ => false

theorem u32_toNat_of_lt (n : Nat) (h : n < 4294967296) : (UInt32.ofNat n).toNat = n := by
  simp [UInt32.toNat_ofNat']; omega

theorem unpackBody_body (dotu : Bool) (m : Msg) (r : Bytes) (h : Spec.RepW dotu m)
    (hr : isData m = true → r = []) :
    unpackBody dotu m.code (Spec.body dotu m ++ r) = .ok (norm dotu m, r) := by
  obtain ⟨hsz, h⟩ := h
  cases m with
  | tversion ms v =>
    simp only [Spec.strOk] at h
    simp [unpackBody, Msg.code, Spec.body, norm, List.append_assoc, gint32_p32, gstr_str _ _ h]
  | rversion ms v =>
    simp only [Spec.strOk] at h
    simp [unpackBody, Msg.code, Spec.body, norm, List.append_assoc, gint32_p32, gstr_str _ _ h]
  | tauth afid un an n =>
    simp only [Spec.strOk] at h
    cases dotu <;>
    simp [unpackBody, Msg.code, Spec.body, norm, List.append_assoc, gint32_p32,
      gstr_str _ _ h.1, gstr_str _ _ h.2]
  | rauth q => simp [unpackBody, Msg.code, Spec.body, norm, gqid_qid]
  | tattach f af un an n =>
    simp only [Spec.strOk] at h
    cases dotu <;>
    simp [unpackBody, Msg.code, Spec.body, norm, List.append_assoc, gint32_p32,
      gstr_str _ _ h.1, gstr_str _ _ h.2]
  | rattach q => simp [unpackBody, Msg.code, Spec.body, norm, gqid_qid]
  | rerror e c =>
    simp only [Spec.strOk] at h
    cases dotu <;>
    simp [unpackBody, Msg.code, Spec.body, norm, List.append_assoc, gint32_p32, gstr_str _ _ h]
  | tflush t => simp [unpackBody, Msg.code, Spec.body, norm, gint16_p16]
  | rflush => simp [unpackBody, Msg.code, Spec.body, norm]
  | twalk f nf ns =>
    obtain ⟨hl, hs⟩ := h
    have := strs_length_ge ns
    simp [unpackBody, Msg.code, Spec.body, norm, List.append_assoc, gint32_p32, gint16_p16,
      u16_toNat_of_lt _ hl, gstrs_strs ns r hs]
    omega
  | rwalk qs =>
    have hl : qs.length < 65536 := h
    have := qids_length qs
    simp [unpackBody, Msg.code, Spec.body, norm, List.append_assoc, gint16_p16,
      u16_toNat_of_lt _ hl, gqids_qids, this]
  | topen f mo => simp [unpackBody, Msg.code, Spec.body, norm, List.append_assoc, gint32_p32, gint8_p8]
  | ropen q io => simp [unpackBody, Msg.code, Spec.body, norm, List.append_assoc, gint32_p32, gqid_qid]
  | tcreate f n p mo e =>
    simp only [Spec.strOk] at h
    cases dotu
    · simp [unpackBody, Msg.code, Spec.body, norm, List.append_assoc, gint32_p32, gint8_p8,
        gstr_str _ _ h.1]
      omega
    · have he := h.2 rfl
      simp [unpackBody, Msg.code, Spec.body, norm, List.append_assoc, gint32_p32, gint8_p8,
        gstr_str _ _ h.1, gstr_str _ _ he]
      omega
  | rcreate q io => simp [unpackBody, Msg.code, Spec.body, norm, List.append_assoc, gint32_p32, gqid_qid]
  | tread f o c => simp [unpackBody, Msg.code, Spec.body, norm, List.append_assoc, gint32_p32, gint64_p64]
  | rread d =>
    have hr' : r = [] := hr rfl
    subst hr'
    have hl : d.length < 4294967296 := by
      simp [Spec.body] at hsz; omega
    simp [unpackBody, Msg.code, Spec.body, norm, gint32_p32, u32_toNat_of_lt _ hl, need]
  | twrite f o c d =>
    have hr' : r = [] := hr rfl
    subst hr'
    have hc : c.toNat = d.length := h
    simp [unpackBody, Msg.code, Spec.body, norm, List.append_assoc, gint32_p32, gint64_p64, hc, need]
  | rwrite c => simp [unpackBody, Msg.code, Spec.body, norm, gint32_p32]
  | tclunk f => simp [unpackBody, Msg.code, Spec.body, norm, gint32_p32]
  | rclunk => simp [unpackBody, Msg.code, Spec.body, norm]
  | tremove f => simp [unpackBody, Msg.code, Spec.body, norm, gint32_p32]
  | rremove => simp [unpackBody, Msg.code, Spec.body, norm]
  | tstat f => simp [unpackBody, Msg.code, Spec.body, norm, gint32_p32]
  | rstat d =>
    simp [unpackBody, Msg.code, Spec.body, norm, List.append_assoc, gint16_p16, gstat_stat _ _ _ h]
  | twstat f d =>
    simp [unpackBody, Msg.code, Spec.body, norm, List.append_assoc, gint16_p16, gint32_p32,
      gstat_stat _ _ _ h]
  | rwstat => simp [unpackBody, Msg.code, Spec.body, norm]

end G9

namespace G9
open Go Spec

theorem code_range (m : Msg) : ¬ (m.code.toNat < Generated.Tversion ∨ m.code.toNat ≥ Generated.Tlast) := by
  cases m <;> simp [Msg.code, Generated.Tversion, Generated.Tlast]

/-- the table entry for a message's type never exceeds the body of any encoding of it. -/
theorem minSize_le_body (dotu : Bool) (m : Msg) :
    ∃ v, minSize dotu m.code = .ok v ∧ v ≤ (Spec.body dotu m).length := by
  cases m <;> cases dotu <;>
    simp [minSize, Generated.minFcsize, Generated.minFcusize, Generated.Tversion, Msg.code,
      Spec.body, Spec.str, Spec.qid, Spec.stat, Spec.statBody] <;> omega

theorem encode_length (dotu : Bool) (tag : UInt16) (m : Msg) :
    (Spec.encode dotu tag m).length = 7 + (Spec.body dotu m).length := by
  simp [Spec.encode]; omega

theorem unpack_encode' (dotu : Bool) (tag : UInt16) (m : Msg) (rest : Bytes) (h : Spec.RepW dotu m) :
    unpack dotu (Spec.encode dotu tag m ++ rest) =
      .ok (tag, norm dotu m, (Spec.encode dotu tag m).length) := by
  have hsz : 7 + (Spec.body dotu m).length < 4294967296 := h.1
  have hlen := encode_length dotu tag m
  have h7 : ¬ (Spec.encode dotu tag m ++ rest).length < 7 := by
    simp only [List.length_append]; omega
  obtain ⟨v, hv, hvle⟩ := minSize_le_body dotu m
  have hb := unpackBody_body dotu m [] h (fun _ => rfl)
  rw [List.append_nil] at hb
  unfold unpack
  rw [if_neg h7]
  have hs : (UInt32.ofNat (7 + (Spec.body dotu m).length)).toNat = 7 + (Spec.body dotu m).length :=
    u32_toNat_of_lt _ hsz
  simp only [Spec.encode, List.append_assoc, gint32_p32, gint8_p8, gint16_p16, Res.ok_bind, hs]
  have hnb : ¬ (7 + (Spec.body dotu m).length >
      (p32 (UInt32.ofNat (7 + (Spec.body dotu m).length)) ++ (p8 m.code ++ (p16 tag ++ (Spec.body dotu m ++ rest)))).length
      ∨ 7 + (Spec.body dotu m).length < 7) := by
    simp; omega
  rw [if_neg hnb]
  have hn : need (7 + (Spec.body dotu m).length - 7) (Spec.body dotu m ++ rest) = .ok (Spec.body dotu m, rest) :=
    need_append _ _ _ (by omega)
  simp only [hn, Res.ok_bind, unpackRest, if_neg (code_range m), hv]
  have : ¬ (Spec.body dotu m).length < v := by omega
  simp [this, hb]
  omega

end G9
