import G9.Logger
namespace G9.Logger

theorem lastN_of_le {α} (n : Nat) (l : List α) (h : l.length ≤ n) : lastN n l = l := by
  unfold lastN; rw [Nat.sub_eq_zero_of_le h]; rfl

theorem lastN_length {α} (n : Nat) (l : List α) : (lastN n l).length = min n l.length := by
  unfold lastN; rw [List.length_drop]; omega

theorem lastN_snoc {α} (n : Nat) (l : List α) (e : α) (hn : 1 ≤ n) (h : n ≤ l.length) :
    lastN n (l ++ [e]) = (lastN n l).drop 1 ++ [e] := by
  unfold lastN
  rw [List.drop_drop, List.length_append, List.length_singleton]
  have h1 : l.length + 1 - n = (l.length - n) + 1 := by omega
  rw [h1, List.drop_append_of_le_length (by omega)]

/-- the representation invariant of the ring after logging `hist` (oldest first) -/
def RInv (n : Nat) (hist : List Entry) (r : Ring) : Prop :=
  (hist.length < n ∧ r.items = hist.map some ++ List.replicate (n - hist.length) none ∧
      r.idx = hist.length) ∨
  (n ≤ hist.length ∧ ∃ as bs : List Entry, r.items = as.map some ++ bs.map some ∧
      r.idx = as.length ∧ bs ++ as = lastN n hist)

theorem RInv_new (n : Nat) (hn : 1 ≤ n) : RInv n [] (Ring.new n) := by
  left; refine ⟨by simp; omega, ?_, rfl⟩; simp [Ring.new]

theorem log_nowrap (r : Ring) (e : Entry) (h : r.idx < r.items.length) :
    r.log e = { items := r.items.set r.idx (some e), idx := r.idx + 1 } := by
  unfold Ring.log; rw [if_neg (by omega)]

theorem log_wrap (r : Ring) (e : Entry) (h : r.idx ≥ r.items.length) :
    r.log e = { items := r.items.set 0 (some e), idx := 1 } := by
  unfold Ring.log; rw [if_pos h]

theorem RInv_len (n : Nat) (hist : List Entry) (r : Ring) (h : RInv n hist r) :
    r.items.length = n ∧ r.idx ≤ n := by
  rcases h with ⟨hl, hi, hx⟩ | ⟨hl, as, bs, hi, hx, hb⟩
  · rw [hi, hx]; simp; omega
  · have := congrArg List.length hb
    rw [lastN_length] at this
    simp at this
    rw [hi, hx]; simp; omega

theorem RInv_log (n : Nat) (hn : 1 ≤ n) (hist : List Entry) (r : Ring) (e : Entry)
    (h : RInv n hist r) : RInv n (hist ++ [e]) (r.log e) := by
  rcases h with ⟨hl, hi, hx⟩ | ⟨hl, as, bs, hi, hx, hb⟩
  · -- not yet full
    have hlen : r.items.length = n := by rw [hi]; simp; omega
    have hset : r.items.set r.idx (some e) =
        (hist ++ [e]).map some ++ List.replicate (n - hist.length - 1) none := by
      rw [hi, hx]
      have : n - hist.length = (n - hist.length - 1) + 1 := by omega
      rw [this, List.replicate_succ]
      rw [List.set_append_right _ _ (by simp)]
      simp
    rw [log_nowrap r e (by omega)]
    by_cases hfull : hist.length + 1 < n
    · left
      refine ⟨by simp; omega, ?_, ?_⟩
      · show r.items.set r.idx (some e) = _
        rw [hset]; simp; omega
      · show r.idx + 1 = _
        simp [hx]
    · right
      have hN : n - hist.length - 1 = 0 := by omega
      refine ⟨by simp; omega, hist ++ [e], [], ?_, ?_, ?_⟩
      · show r.items.set r.idx (some e) = _
        rw [hset, hN]; simp
      · show r.idx + 1 = _
        simp [hx]
      · rw [lastN_of_le _ _ (by simp; omega)]; simp
  · -- full: overwrite the oldest
    have hblen : bs.length + as.length = n := by
      have := congrArg List.length hb
      rw [lastN_length] at this; simp at this; omega
    have hlen : r.items.length = n := by rw [hi]; simp; omega
    right
    refine ⟨by simp; omega, ?_⟩
    by_cases hwrap : r.idx ≥ r.items.length
    · -- idx = len: bs = [], start again at 0
      have hbs : bs = [] := List.eq_nil_of_length_eq_zero (by omega)
      subst hbs
      have has : as.length = n := by omega
      rw [log_wrap r e hwrap]
      cases as with
      | nil => simp at has; omega
      | cons a as' =>
        refine ⟨[e], as', ?_, ?_, ?_⟩
        · show r.items.set 0 (some e) = _
          rw [hi]; simp
        · rfl
        · rw [lastN_snoc n hist e hn hl, ← hb]; simp
    · have hidxlt : as.length < n := by omega
      rw [log_nowrap r e (by omega)]
      cases bs with
      | nil => simp at hblen; omega
      | cons b bs' =>
        refine ⟨as ++ [e], bs', ?_, ?_, ?_⟩
        · show r.items.set r.idx (some e) = _
          rw [hi, hx, List.set_append_right _ _ (by simp)]
          simp
        · show r.idx + 1 = _
          simp [hx]
        · rw [lastN_snoc n hist e hn hl, ← hb]; simp

theorem contents_nowrap (r : Ring) (h : r.idx < r.items.length) :
    r.contents = (r.items.drop r.idx ++ r.items.take r.idx).filterMap id := by
  unfold Ring.contents; rw [if_neg (by omega)]

theorem contents_wrap (r : Ring) (h : r.idx ≥ r.items.length) :
    r.contents = r.items.filterMap id := by
  unfold Ring.contents; rw [if_pos h]; simp

theorem filterMap_some {α} (l : List α) : (l.map some).filterMap id = l := by
  induction l with
  | nil => rfl
  | cons a l ih => simp [ih]

theorem filterMap_none {α} (k : Nat) : (List.replicate k (none : Option α)).filterMap id = [] := by
  induction k with
  | zero => rfl
  | succ k ih => simp [List.replicate_succ, ih]

/-- the ring holds exactly the last `n` logged entries, oldest first -/
theorem RInv_contents (n : Nat) (hist : List Entry) (r : Ring) (h : RInv n hist r) :
    r.contents = lastN n hist := by
  rcases h with ⟨hl, hi, hx⟩ | ⟨hl, as, bs, hi, hx, hb⟩
  · have hlen : r.items.length = n := by rw [hi]; simp; omega
    rw [contents_nowrap r (by omega), hx, hi]
    rw [List.drop_left' (by simp), List.take_left' (by simp)]
    rw [lastN_of_le _ _ (by omega), List.filterMap_append, filterMap_some, filterMap_none]
    rfl
  · have hblen : bs.length + as.length = n := by
      have := congrArg List.length hb
      rw [lastN_length] at this; simp at this; omega
    have hlen : r.items.length = n := by rw [hi]; simp; omega
    by_cases hwrap : r.idx ≥ r.items.length
    · have hbs : bs = [] := List.eq_nil_of_length_eq_zero (by omega)
      subst hbs
      rw [contents_wrap r hwrap, hi, ← hb]
      simp [filterMap_some]
    · rw [contents_nowrap r (by omega), hx, hi]
      rw [List.drop_left' (by simp), List.take_left' (by simp), ← hb]
      rw [List.filterMap_append, filterMap_some, filterMap_some]

end G9.Logger
