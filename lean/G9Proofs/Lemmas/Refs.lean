import G9Proofs.Lemmas.Fids
namespace G9.Srv

/-- reference count of a fid number, 0 when it is not in the table -/
def refOf (fs : Fids) (k : UInt32) : Nat :=
  match lookup fs k with
  | some r => r.ref
  | none => 0

/-- every fid in the table is referenced -/
def RefsPos (fs : Fids) : Prop := ∀ k r, lookup fs k = some r → 1 ≤ r.ref

theorem refOf_pos_iff (fs : Fids) (h : RefsPos fs) (k : UInt32) :
    1 ≤ refOf fs k ↔ (lookup fs k).isSome = true := by
  unfold refOf
  cases hl : lookup fs k with
  | none => simp
  | some r => simp; exact h k r hl

theorem refOf_modFid_keep (fs : Fids) (k k' : UInt32) (g : FidRec → FidRec) (hg : ∀ r, (g r).ref = r.ref) :
    refOf (modFid fs k g) k' = refOf fs k' := by
  unfold refOf; rw [lookup_modFid]
  by_cases h : k' = k
  · simp only [h, if_true]; cases lookup fs k <;> simp [hg]
  · simp [h]

theorem refOf_incRef (fs : Fids) (k k' : UInt32) :
    refOf (incRef fs k) k' = if k' = k ∧ (lookup fs k).isSome then refOf fs k' + 1 else refOf fs k' := by
  unfold refOf; rw [lookup_incRef]
  by_cases h : k' = k
  · subst h; cases lookup fs k' <;> simp
  · simp [h]

theorem refOf_fidNew (fs fs' : Fids) (k k' : UInt32) (u : Nat) (h : fidNew fs k u = some fs') :
    refOf fs k = 0 ∧ refOf fs' k' = if k' = k then 1 else refOf fs k' := by
  obtain ⟨h1, h2⟩ := fidNew_some fs fs' k u h
  unfold refOf
  rw [h1, h2]
  by_cases hk : k' = k <;> simp [hk]

theorem refOf_decRef (fs : Fids) (k k' : UInt32) :
    refOf (decRef fs k).1 k' = if k' = k then refOf fs k' - 1 else refOf fs k' := by
  unfold refOf
  rw [decRef_lookup]
  cases hl : lookup fs k with
  | none =>
    by_cases h : k' = k
    · subst h; simp [hl]
    · simp [h]
  | some r =>
    by_cases h : k' = k
    · subst h
      simp only [hl, if_true]
      by_cases h1 : r.ref ≤ 1
      · simp only [h1, if_true]; omega
      · simp only [h1, if_false]
    · simp only [h, if_false]
      by_cases h1 : r.ref ≤ 1 <;> simp only [h1, if_true, if_false]

theorem RefsPos_decRef (fs : Fids) (k : UInt32) (h : RefsPos fs) : RefsPos (decRef fs k).1 := by
  intro k' r hr
  rw [decRef_lookup] at hr
  cases hl : lookup fs k with
  | none => rw [hl] at hr; exact h k' r hr
  | some r0 =>
    rw [hl] at hr
    simp only at hr
    split at hr
    · split at hr
      · cases hr
      · exact h k' r hr
    · split at hr
      · cases hr; simp; omega
      · exact h k' r hr

/-- releasing a list of references: each count goes down by the number of occurrences
    (never below zero: at zero the fid has left the table) -/
theorem refOf_decRefs (fs : Fids) (ks : List UInt32) (k' : UInt32) :
    refOf (decRefs fs ks).1 k' = refOf fs k' - ks.count k' := by
  induction ks generalizing fs with
  | nil => simp [decRefs]
  | cons k ks ih =>
    simp only [decRefs]
    rw [ih, refOf_decRef, List.count_cons]
    by_cases h : k' = k
    · subst h; simp; omega
    · have : (k == k') = false := by simp; exact fun e => h e.symm
      simp [h, this]

theorem RefsPos_decRefs (fs : Fids) (ks : List UInt32) (h : RefsPos fs) : RefsPos (decRefs fs ks).1 := by
  induction ks generalizing fs with
  | nil => simpa [decRefs] using h
  | cons k ks ih => simp only [decRefs]; exact ih _ (RefsPos_decRef fs k h)

/-- `FidDestroy` is called for a fid exactly when this release takes its last reference -/
theorem count_destroyed_decRef (fs : Fids) (k k' : UInt32) (h : RefsPos fs) :
    (decRef fs k).2.count k' = if k' = k ∧ refOf fs k = 1 then 1 else 0 := by
  rw [decRef_destroyed]
  unfold refOf
  cases hl : lookup fs k with
  | none => simp
  | some r =>
    have := h k r hl
    simp only
    by_cases h1 : r.ref ≤ 1
    · have : r.ref = 1 := by omega
      simp only [h1, if_true, this, and_true]
      by_cases hk : k' = k
      · subst hk; simp
      · have : ¬ k = k' := fun e => hk e.symm
        simp [hk, this]
    · have : ¬ r.ref = 1 := by omega
      simp [h1, this]

theorem count_destroyed_decRefs (fs : Fids) (ks : List UInt32) (k' : UInt32) (h : RefsPos fs) :
    (decRefs fs ks).2.count k' =
      if 1 ≤ refOf fs k' ∧ refOf fs k' ≤ ks.count k' then 1 else 0 := by
  induction ks generalizing fs with
  | nil => simp [decRefs]; omega
  | cons k ks ih =>
    simp only [decRefs, List.count_append]
    rw [ih _ (RefsPos_decRef fs k h), count_destroyed_decRef fs k k' h, refOf_decRef, List.count_cons]
    by_cases hk : k' = k
    · subst hk
      simp only [true_and, if_true, beq_self_eq_true]
      by_cases h1 : refOf fs k' = 1
      · simp [h1]
      · simp only [h1, if_false]
        by_cases h0 : refOf fs k' = 0
        · simp [h0]
        · have e1 : (1 ≤ refOf fs k' - 1 ∧ refOf fs k' - 1 ≤ List.count k' ks) ↔
              (1 ≤ refOf fs k' ∧ refOf fs k' ≤ List.count k' ks + 1) := by omega
          simp only [e1]; simp
    · have : (k == k') = false := by simp; exact fun e => hk e.symm
      simp [hk, this]

end G9.Srv
