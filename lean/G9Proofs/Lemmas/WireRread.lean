import G9Proofs.Lemmas.WirePack
namespace G9
open Go Spec

theorem take_app_take {α} (a b : List α) (n : Nat) :
    (a ++ b).take (a.length + n) = a ++ b.take n := by
  induction a with
  | nil => simp
  | cons x a ih => simp [Nat.add_right_comm, ih]

theorem rread_two_step' (dotu : Bool) (c n : UInt32) (buf fill : Bytes)
    (hfit : 11 + c.toNat ≤ buf.length) (hrep : 11 + c.toNat < 4294967296)
    (hn : n.toNat ≤ c.toNat) (hfill : fill.length = c.toNat) :
    Go.initRread c buf = .ok (Go.rreadBuf c buf, 11 + c.toNat) ∧
    Go.setRreadCount (Go.fillData (Go.rreadBuf c buf) c.toNat fill) n =
      .ok (Spec.encode dotu NOTAG (.rread (fill.take n.toNat))) := by
  have hc := c.toNat_lt
  have hnlt := n.toNat_lt
  constructor
  · unfold Go.initRread
    have : ¬ buf.length < 11 + c.toNat := by omega
    simp only [this, if_false]
  · -- the buffer after InitRread and the copy: header(7) ++ count(4) ++ fill ++ tail
    let hdr : Bytes := p32 (UInt32.ofNat (11 + c.toNat)) ++ p8 117 ++ p16 Generated.NOTAG
    have hhdr : hdr.length = 7 := by simp [hdr]
    have hA : Go.rreadBuf c buf = (hdr ++ p32 c) ++ buf.drop 11 := by
      simp [Go.rreadBuf, hdr, List.append_assoc]
    have hA11 : (hdr ++ p32 c).length = 11 := by simp [hhdr]
    have htk : fill.take c.toNat = fill := by rw [← hfill]; exact List.take_length
    have hX : Go.fillData (Go.rreadBuf c buf) c.toNat fill
        = (hdr ++ p32 c) ++ (fill ++ buf.drop (11 + c.toNat)) := by
      unfold Go.fillData
      simp only [htk, hA]
      rw [List.take_left' hA11, hfill]
      have : List.drop (11 + c.toNat) ((hdr ++ p32 c) ++ List.drop 11 buf) = buf.drop (11 + c.toNat) := by
        rw [List.drop_append, hA11]
        have : List.drop (11 + c.toNat) (hdr ++ p32 c) = [] := by
          apply List.drop_eq_nil_of_le; omega
        simp [this, List.drop_drop]
      rw [this, List.append_assoc]
    have hXlen : ((hdr ++ p32 c) ++ (fill ++ buf.drop (11 + c.toNat))).length = buf.length := by
      simp only [List.length_append, hA11, hfill, List.length_drop]; omega
    have hsz : (4 + 1 + 2 + 4 + n : UInt32).toNat = 11 + n.toNat := by
      have : (4 + 1 + 2 + 4 + n : UInt32) = 11 + n := by
        apply UInt32.toNat_inj.mp; simp
      rw [this, UInt32.toNat_add]; simp; omega
    rw [hX]
    unfold Go.setRreadCount
    simp only [hsz, hXlen]
    have h1 : ¬ buf.length < 11 := by omega
    have h2 : ¬ 11 + n.toNat > buf.length := by omega
    have h3 : ¬ n.toNat > buf.length - 11 := by omega
    simp only [h1, h2, h3, if_false]
    congr 1
    -- pieces of X
    have hd4 : (List.drop 4 ((hdr ++ p32 c) ++ (fill ++ buf.drop (11 + c.toNat)))).take 3
        = p8 117 ++ p16 Generated.NOTAG := by
      simp [hdr, p32, p8, p16]
    have hd11 : List.drop 11 ((hdr ++ p32 c) ++ (fill ++ buf.drop (11 + c.toNat)))
        = fill ++ buf.drop (11 + c.toNat) := List.drop_left' hA11
    rw [hd4, hd11]
    have hnl : (UInt32.ofNat (List.take n.toNat fill).length) = n := by
      apply UInt32.toNat_inj.mp
      rw [List.length_take, hfill, Nat.min_eq_left hn]
      simp
    have hbody : (Spec.body dotu (.rread (fill.take n.toNat))) = p32 n ++ fill.take n.toNat := by
      simp only [Spec.body, hnl]
    have hbl : (p32 n ++ fill.take n.toNat).length = 4 + n.toNat := by
      rw [List.length_append, p32_length, List.length_take, hfill, Nat.min_eq_left hn]
    have hsz2 : (4 + 1 + 2 + 4 + n : UInt32) = UInt32.ofNat (7 + (p32 n ++ fill.take n.toNat).length) := by
      apply UInt32.toNat_inj.mp
      rw [hsz, hbl]; simp; omega
    simp only [Spec.encode, hbody, Msg.code, hsz2]
    have hpre : (p32 (UInt32.ofNat (7 + (p32 n ++ List.take n.toNat fill).length)) ++
        (p8 117 ++ p16 Generated.NOTAG) ++ p32 n).length = 11 := by simp
    have : 11 + n.toNat = (p32 (UInt32.ofNat (7 + (p32 n ++ List.take n.toNat fill).length)) ++
        (p8 117 ++ p16 Generated.NOTAG) ++ p32 n).length + n.toNat := by rw [hpre]
    rw [this, take_app_take]
    have hft : (fill ++ List.drop (11 + c.toNat) buf).take n.toNat = fill.take n.toNat := by
      rw [List.take_append_of_le_length (by omega)]
    rw [hft]
    simp [NOTAG, Generated.NOTAG, List.append_assoc]

end G9
