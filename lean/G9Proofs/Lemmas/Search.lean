import G9.UfsLogic
namespace G9.Ufs

theorem searchInts_le (a : List Nat) (x : Nat) : searchInts a x ≤ a.length := by
  unfold searchInts
  exact (List.takeWhile_sublist _).length_le

theorem getD_eq (a : List Nat) (j : Nat) (h : j < a.length) : a.getD j 0 = a[j] := by
  simp [List.getD_eq_getElem?_getD, h]

theorem searchInts_cons (b : Nat) (a : List Nat) (x : Nat) :
    searchInts (b :: a) x = if b < x then searchInts a x + 1 else 0 := by
  unfold searchInts
  rw [List.takeWhile_cons]
  by_cases h : b < x <;> simp [h]

/-- every element before the returned index is smaller than `x` -/
theorem searchInts_lt (a : List Nat) (x j : Nat) (hj : j < searchInts a x) : a.getD j 0 < x := by
  induction a generalizing j with
  | nil => simp [searchInts] at hj
  | cons b a ih =>
    rw [searchInts_cons] at hj
    by_cases hb : b < x
    · simp only [hb, if_true] at hj
      cases j with
      | zero => simpa using hb
      | succ j => simpa using ih j (by omega)
    · simp [hb] at hj

/-- the element at the returned index, if any, is at least `x` -/
theorem searchInts_ge (a : List Nat) (x : Nat) (h : searchInts a x < a.length) :
    x ≤ a.getD (searchInts a x) 0 := by
  induction a with
  | nil => simp at h
  | cons b a ih =>
    rw [searchInts_cons] at h ⊢
    by_cases hb : b < x
    · simp only [hb, if_true] at h ⊢
      have := ih (by simpa using h)
      simpa using this
    · simp only [hb, if_false]; simp; omega

/-- strictly increasing lists: position and value order agree -/
theorem sorted_getD_lt (a : List Nat) (hs : a.Pairwise (· < ·)) (i j : Nat) (hij : i < j) (hj : j < a.length) :
    a.getD i 0 < a.getD j 0 := by
  induction a generalizing i j with
  | nil => simp at hj
  | cons b a ih =>
    rw [List.pairwise_cons] at hs
    cases j with
    | zero => omega
    | succ j =>
      cases i with
      | zero =>
        simp only [List.getD_cons_zero, List.getD_cons_succ]
        have hmem : a.getD j 0 ∈ a := by
          have : j < a.length := by simpa using hj
          rw [getD_eq _ _ this]; exact List.getElem_mem this
        exact hs.1 _ hmem
      | succ i =>
        simp only [List.getD_cons_succ]
        exact ih hs.2 i j (by omega) (by simpa using hj)

/-- in a strictly increasing list, an element smaller than `x` sits before the returned index -/
theorem searchInts_mem_lt (a : List Nat) (hs : a.Pairwise (· < ·)) (x j : Nat) (hj : j < a.length)
    (hlt : a.getD j 0 < x) : j < searchInts a x := by
  by_cases h : j < searchInts a x
  · exact h
  · exfalso
    have hi : searchInts a x < a.length := by omega
    have hge := searchInts_ge a x hi
    by_cases he : searchInts a x = j
    · rw [he] at hge; omega
    · have := sorted_getD_lt a hs (searchInts a x) j (by omega) hj
      omega

/-- the index of an element of a strictly increasing list -/
theorem searchInts_self (a : List Nat) (hs : a.Pairwise (· < ·)) (j : Nat) (hj : j < a.length) :
    searchInts a (a.getD j 0) = j := by
  have h1 : ¬ j < searchInts a (a.getD j 0) := fun h => by
    have := searchInts_lt a _ j h; omega
  have h2 : ¬ searchInts a (a.getD j 0) < j := fun h => by
    have hi : searchInts a (a.getD j 0) < a.length := by omega
    have hge := searchInts_ge a _ hi
    have := sorted_getD_lt a hs _ j h hj
    omega
  omega

theorem mem_iff_getD (a : List Nat) (e : Nat) : e ∈ a ↔ ∃ j, j < a.length ∧ a.getD j 0 = e := by
  constructor
  · intro h
    obtain ⟨j, hj, he⟩ := List.getElem_of_mem h
    exact ⟨j, hj, by rw [getD_eq _ _ hj]; exact he⟩
  · rintro ⟨j, hj, he⟩
    rw [getD_eq _ _ hj] at he
    rw [← he]; exact List.getElem_mem hj

end G9.Ufs
