import G9Proofs.Lemmas.Refs
namespace G9.Srv

theorem RefsPos_modFid (fs : Fids) (k : UInt32) (g : FidRec → FidRec) (hg : ∀ r, 1 ≤ r.ref → 1 ≤ (g r).ref)
    (h : RefsPos fs) : RefsPos (modFid fs k g) := by
  intro k' r hr
  rw [lookup_modFid] at hr
  by_cases hk : k' = k
  · simp only [hk, if_true] at hr
    cases hl : lookup fs k with
    | none => rw [hl] at hr; cases hr
    | some r0 => rw [hl] at hr; cases hr; exact hg r0 (h k r0 hl)
  · simp only [hk, if_false] at hr; exact h k' r hr

theorem RefsPos_incRef (fs : Fids) (k : UInt32) (h : RefsPos fs) : RefsPos (incRef fs k) :=
  RefsPos_modFid fs k _ (fun r hr => by simp) h

theorem RefsPos_fidNew (fs fs' : Fids) (k : UInt32) (u : Nat) (hn : fidNew fs k u = some fs') (h : RefsPos fs) :
    RefsPos fs' := by
  intro k' r hr
  rw [(fidNew_some fs fs' k u hn).2] at hr
  by_cases hk : k' = k
  · simp only [hk, if_true] at hr; cases hr; simp
  · simp only [hk, if_false] at hr; exact h k' r hr

/-- what the pre-reply part of a request does to the reference counts: every fid the
    request holds has one more reference per hold, nothing else changes -/
def PreOK (c : Conn) (m : Mid) : Prop :=
  RefsPos m.c.fids ∧ ∀ k, refOf m.c.fids k = refOf c.fids k + m.held.count k

theorem preOK_same (c : Conn) (c' : Conn) (p : Pre) (h : RefsPos c.fids) (hc : c'.fids = c.fids) :
    PreOK c ⟨c', [], p⟩ := by
  refine ⟨by rw [hc]; exact h, fun k => by simp [hc]⟩

/-- FidGet of an existing fid -/
theorem preOK_get (c c' : Conn) (f : UInt32) (r : FidRec) (p : Pre) (h : RefsPos c.fids)
    (hl : lookup c.fids f = some r) (g : FidRec → FidRec)
    (hc : c'.fids = modFid (incRef c.fids f) f g) (hg : ∀ r, (g r).ref = r.ref) : PreOK c ⟨c', [f], p⟩ := by
  refine ⟨?_, fun k => ?_⟩
  · rw [hc]; exact RefsPos_modFid _ _ _ (fun r hr => by rw [hg]; exact hr) (RefsPos_incRef _ _ h)
  · simp only [hc, refOf_modFid_keep _ _ _ _ hg, refOf_incRef, hl, Option.isSome_some, and_true, List.count_cons,
      List.count_nil]
    by_cases hk : k = f
    · subst hk; simp
    · have : (f == k) = false := by simp; exact fun e => hk e.symm
      simp [hk, this]

theorem modFid_id (fs : Fids) (k : UInt32) : modFid fs k (fun r => r) = fs := by
  unfold modFid
  induction fs with
  | nil => rfl
  | cons p fs ih =>
    rw [List.map_cons, ih]
    by_cases h : p.1 = k
    · have : (p.1 == k) = true := by simp [h]
      simp only [this, if_true]; rw [← h]
    · have : (p.1 == k) = false := by simp [h]
      simp [this]

theorem preOK_get' (c c' : Conn) (f : UInt32) (r : FidRec) (p : Pre) (h : RefsPos c.fids)
    (hl : lookup c.fids f = some r) (hc : c'.fids = incRef c.fids f) : PreOK c ⟨c', [f], p⟩ :=
  preOK_get c c' f r p h hl (fun r => r) (by rw [hc, modFid_id]) (fun _ => rfl)

end G9.Srv

namespace G9.Srv

theorem preOK_getm (c : Conn) (ms : UInt32) (du : Bool) (f : UInt32) (r : FidRec) (p : Pre) (h : RefsPos c.fids)
    (hl : lookup c.fids f = some r) (g : FidRec → FidRec) (hg : ∀ r, (g r).ref = r.ref) :
    PreOK c ⟨{ fids := modFid (incRef c.fids f) f g, msize := ms, dotu := du }, [f], p⟩ :=
  preOK_get c _ f r p h hl g rfl hg

theorem refOf_new (fs fs' : Fids) (k k' : UInt32) (u : Nat) (h : fidNew fs k u = some fs') :
    refOf fs' k' = refOf fs k' + (if k' = k then 1 else 0) := by
  obtain ⟨h0, h1⟩ := refOf_fidNew fs fs' k k' u h
  rw [h1]
  by_cases hk : k' = k
  · subst hk; simp [h0]
  · simp [hk]

theorem refOf_inc (fs : Fids) (k k' : UInt32) (r : FidRec) (hl : lookup fs k = some r) :
    refOf (incRef fs k) k' = refOf fs k' + (if k' = k then 1 else 0) := by
  rw [refOf_incRef, hl]
  by_cases hk : k' = k <;> simp [hk]

theorem count1 (k a : UInt32) : List.count k [a] = (if k = a then 1 else 0) := by
  rw [List.count_cons, List.count_nil]
  by_cases h1 : k = a
  · subst h1; simp
  · have : (a == k) = false := by simp; exact fun e => h1 e.symm
    simp [h1, this]

theorem count2 (k a b : UInt32) : List.count k [a, b] = (if k = a then 1 else 0) + (if k = b then 1 else 0) := by
  rw [List.count_cons, count1]
  by_cases h1 : k = a
  · subst h1; simp; omega
  · have : (a == k) = false := by simp; exact fun e => h1 e.symm
    simp [h1, this]

theorem RefsPos_modFid' (fs : Fids) (k : UInt32) (g : FidRec → FidRec) (hg : ∀ r, (g r).ref = r.ref)
    (h : RefsPos fs) : RefsPos (modFid fs k g) :=
  RefsPos_modFid fs k g (fun r hr => by rw [hg]; exact hr) h

/-- the common prologue of the fid-bearing messages: NOFID and unknown fids are refused
    with the table untouched; otherwise `k` continues with the fid's record -/
theorem preOK_fid (c : Conn) (f : UInt32) (h : RefsPos c.fids) (body : FidRec → Mid)
    (hb : ∀ r, lookup c.fids f = some r → PreOK c (body r)) :
    PreOK c (if (f == NOFID) = true then ⟨c, [], .refuse .unknownfid⟩ else
      match lookup c.fids f with
      | none => ⟨c, [], .refuse .unknownfid⟩
      | some r => body r) := by
  split
  · exact preOK_same c c _ h rfl
  · split
    · exact preOK_same c c _ h rfl
    · rename_i r hl; exact hb r hl

theorem pre_refs (cfg : Cfg) (impl : Impl) (c : Conn) (t : Msg) (h : RefsPos c.fids) :
    PreOK c (pre cfg impl c t) := by
  unfold pre
  cases t with
  | tversion ms v =>
    simp only
    split
    · exact preOK_same c c _ h rfl
    · exact preOK_same c _ _ h rfl
  | tflush o => exact preOK_same c c _ h rfl
  | tstat f =>
    simp only [msgFid]
    exact preOK_fid c f h _ (fun r hl => preOK_get' c _ f r _ h hl rfl)
  | twstat f d =>
    simp only [msgFid]
    exact preOK_fid c f h _ (fun r hl => preOK_get' c _ f r _ h hl rfl)
  | tremove f =>
    simp only [msgFid]
    exact preOK_fid c f h _ (fun r hl => preOK_get' c _ f r _ h hl rfl)
  | tclunk f =>
    simp only [msgFid]
    refine preOK_fid c f h _ (fun r hl => ?_)
    split
    · split
      · exact preOK_get' c _ f r _ h hl rfl
      · exact preOK_get' c _ f r _ h hl rfl
    · exact preOK_get' c _ f r _ h hl rfl
  | twrite f o cnt d =>
    simp only [msgFid]
    refine preOK_fid c f h _ (fun r hl => ?_)
    repeat' split
    all_goals exact preOK_get' c _ f r _ h hl rfl
  | tread f o cnt =>
    simp only [msgFid]
    refine preOK_fid c f h _ (fun r hl => ?_)
    split
    · exact preOK_get' c _ f r _ h hl rfl
    · split
      · split
        · exact preOK_get' c _ f r _ h hl rfl
        · exact preOK_get' c _ f r _ h hl rfl
      · by_cases hd : isDir r = true
        · simp only [hd, if_true]
          exact preOK_getm c _ _ f r _ h hl _ (fun _ => rfl)
        · simp only [hd]
          exact preOK_get' c _ f r _ h hl rfl
  | topen f mode =>
    simp only [msgFid]
    refine preOK_fid c f h _ (fun r hl => ?_)
    split
    · exact preOK_get' c _ f r _ h hl rfl
    · split
      · exact preOK_get' c _ f r _ h hl rfl
      · exact preOK_getm c _ _ f r _ h hl _ (fun _ => rfl)
  | tcreate f n p mode e =>
    simp only [msgFid]
    refine preOK_fid c f h _ (fun r hl => ?_)
    repeat' split
    all_goals first
      | exact preOK_get' c _ f r _ h hl rfl
      | exact preOK_getm c _ _ f r _ h hl _ (fun _ => rfl)
  | twalk f nf names =>
    simp only [msgFid]
    refine preOK_fid c f h _ (fun r hl => ?_)
    split
    · exact preOK_get' c _ f r _ h hl rfl
    · split
      · exact preOK_get' c _ f r _ h hl rfl
      · split
        · -- a new fid
          split
          · exact preOK_get' c _ f r _ h hl rfl
          split
          · exact preOK_get' c _ f r _ h hl rfl
          · rename_i fs' hnew
            refine ⟨?_, fun k => ?_⟩ <;> dsimp only
            · apply RefsPos_modFid'
              · intro _; rfl
              · exact RefsPos_fidNew _ _ _ _ hnew (RefsPos_incRef _ _ h)
            · rw [refOf_modFid_keep, refOf_new _ _ _ _ _ hnew, refOf_inc _ _ _ r hl, count2]
              · omega
              · intro _; rfl
        · -- in place
          have hl2 : lookup (incRef c.fids f) f = some { r with ref := r.ref + 1 } := by
            rw [lookup_incRef]; simp [hl]
          refine ⟨?_, fun k => ?_⟩ <;> dsimp only
          · exact RefsPos_incRef _ _ (RefsPos_incRef _ _ h)
          · rw [refOf_inc _ _ _ _ hl2, refOf_inc _ _ _ r hl, count2]
            omega
  | tauth afid un an n =>
    simp only
    split
    · exact preOK_same c c _ h rfl
    · split
      · exact preOK_same c c _ h rfl
      · rename_i fs hnew
        have hfs : RefsPos fs := RefsPos_fidNew _ _ _ _ hnew h
        split
        · refine ⟨hfs, fun k => ?_⟩
          dsimp only
          rw [refOf_new _ _ _ _ _ hnew, count1]
        · repeat' split
          all_goals
            refine ⟨?_, fun k => ?_⟩ <;> dsimp only
            · apply RefsPos_modFid'
              · intro _; rfl
              · exact hfs
            · rw [refOf_modFid_keep, refOf_new _ _ _ _ _ hnew, count1]
              intro _; rfl
  | tattach fid afid un an n =>
    simp only
    split
    · exact preOK_same c c _ h rfl
    · split
      · exact preOK_same c c _ h rfl
      · rename_i fs hnew
        have hfs : RefsPos fs := RefsPos_fidNew _ _ _ _ hnew h
        split
        · refine ⟨hfs, fun k => ?_⟩
          dsimp only
          rw [refOf_new _ _ _ _ _ hnew, count1]
        · split
          · split
            · refine ⟨hfs, fun k => ?_⟩
              dsimp only
              rw [refOf_new _ _ _ _ _ hnew, count1]
            · rename_i ar hla0
              have hla : Srv.lookup fs afid = some ar := by
                split at hla0
                · cases hla0
                · exact hla0
              repeat' split
              all_goals
                refine ⟨?_, fun k => ?_⟩ <;> dsimp only
                · apply RefsPos_modFid'
                  · intro _; rfl
                  · exact RefsPos_incRef _ _ hfs
                · rw [refOf_modFid_keep, refOf_inc _ _ _ ar hla, refOf_new _ _ _ _ _ hnew, count2]
                  · omega
                  · intro _; rfl
          · repeat' split
            all_goals
              refine ⟨?_, fun k => ?_⟩ <;> dsimp only
              · apply RefsPos_modFid'
                · intro _; rfl
                · exact hfs
              · rw [refOf_modFid_keep, refOf_new _ _ _ _ _ hnew, count1]
                intro _; rfl
  | _ => exact preOK_same c c _ h rfl

end G9.Srv
