import G9.ReqList
namespace G9.ReqList

/-- every node's `prev` is its predecessor (`p` for the head) and its `next` its successor (`e`
    for the last) -/
def Chain (s : RL) : Option Nat → List Nat → Option Nat → Prop
  | _, [], _ => True
  | p, a :: t, e => s.prev a = p ∧ s.next a = (t.head?.or e) ∧ Chain s (some a) t e

/-- the linked structure is exactly the list `l` -/
structure Rep (s : RL) (l : List Nat) : Prop where
  nodup : l.Nodup
  first : s.first = l.head?
  last : s.last = l.getLast?
  chain : Chain s none l none

theorem chain_congr (s s' : RL) : ∀ (l : List Nat) (p e : Option Nat),
    (∀ a ∈ l, s'.next a = s.next a ∧ s'.prev a = s.prev a) → Chain s p l e → Chain s' p l e
  | [], _, _, _, _ => trivial
  | a :: t, p, e, h, hc => by
    obtain ⟨h1, h2, h3⟩ := hc
    have ha := h a (by simp)
    exact ⟨by rw [ha.2]; exact h1, by rw [ha.1]; exact h2,
      chain_congr s s' t (some a) e (fun b hb => h b (List.mem_cons_of_mem _ hb)) h3⟩

private theorem head_or (t l2 : List Nat) (e : Option Nat) :
    (t ++ l2).head?.or e = t.head?.or (l2.head?.or e) := by
  cases t <;> simp

private theorem getLast_or (a : Nat) (t : List Nat) (p : Option Nat) :
    (a :: t).getLast?.or p = t.getLast?.or (some a) := by
  cases t with
  | nil => simp
  | cons b t' =>
    have : (b :: t').getLast? = some ((b :: t').getLast (by simp)) := List.getLast?_eq_some_getLast (by simp)
    rw [List.getLast?_cons_cons, this]; simp

theorem chain_append (s : RL) : ∀ (l1 l2 : List Nat) (p e : Option Nat),
    Chain s p (l1 ++ l2) e ↔ Chain s p l1 (l2.head?.or e) ∧ Chain s (l1.getLast?.or p) l2 e
  | [], l2, p, e => by simp [Chain]
  | a :: t, l2, p, e => by
    have ih := chain_append s t l2 (some a) e
    simp only [List.cons_append, Chain]
    rw [ih, head_or, getLast_or a t p]
    constructor
    · rintro ⟨h1, h2, h3, h4⟩; exact ⟨⟨h1, h2, h3⟩, h4⟩
    · rintro ⟨⟨h1, h2, h3⟩, h4⟩; exact ⟨h1, h2, h3, h4⟩

/-- redirecting the `next` of the last node -/
theorem chain_set_last (s s' : RL) (e' : Option Nat) : ∀ (l : List Nat) (p e : Option Nat) (x : Nat),
    l.Nodup → l.getLast? = some x →
    (∀ a ∈ l, s'.prev a = s.prev a) → (∀ a ∈ l, a ≠ x → s'.next a = s.next a) → s'.next x = e' →
    Chain s p l e → Chain s' p l e'
  | [], _, _, _, _, hl, _, _, _, _ => by simp at hl
  | [a], p, e, x, _, hl, hp, _, hx, hc => by
    have : a = x := by simpa using hl
    subst this
    obtain ⟨h1, _, _⟩ := hc
    exact ⟨by rw [hp a (by simp)]; exact h1, by simpa using hx, trivial⟩
  | a :: b :: t, p, e, x, hnd, hl, hp, hn, hx, hc => by
    obtain ⟨h1, h2, h3⟩ := hc
    have hnd' := (List.nodup_cons.1 hnd)
    have hl' : (b :: t).getLast? = some x := by rw [List.getLast?_cons_cons] at hl; exact hl
    have hxin : x ∈ b :: t := List.mem_of_getLast? hl'
    have hax : a ≠ x := fun h => hnd'.1 (h ▸ hxin)
    refine ⟨by rw [hp a (by simp)]; exact h1, ?_, ?_⟩
    · rw [hn a (by simp) hax]; simpa using h2
    · exact chain_set_last s s' e' (b :: t) (some a) e x hnd'.2 hl'
        (fun c hc => hp c (List.mem_cons_of_mem _ hc)) (fun c hc => hn c (List.mem_cons_of_mem _ hc)) hx h3

/-- redirecting the `prev` of the head node -/
theorem chain_set_head (s s' : RL) (p' : Option Nat) (a : Nat) (t : List Nat) (p e : Option Nat)
    (ha : a ∉ t) (hn : ∀ c ∈ a :: t, s'.next c = s.next c) (hp : ∀ c ∈ t, s'.prev c = s.prev c)
    (hx : s'.prev a = p') (hc : Chain s p (a :: t) e) : Chain s' p' (a :: t) e := by
  obtain ⟨_, h2, h3⟩ := hc
  refine ⟨hx, by rw [hn a (by simp)]; exact h2, ?_⟩
  exact chain_congr s s' t (some a) e (fun c hc => ⟨hn c (List.mem_cons_of_mem _ hc), hp c hc⟩) h3

end G9.ReqList

namespace G9.ReqList

theorem append_repr (s : RL) (l : List Nat) (r : Nat) (h : Rep s l) (hr : r ∉ l) (hn : s.next r = none) :
    Rep (s.append r) (l ++ [r]) := by
  have hnd : (l ++ [r]).Nodup := by
    rw [List.nodup_append]; exact ⟨h.nodup, by simp, by intro a ha b hb; simp at hb; subst hb; intro e; subst e; exact hr ha⟩
  cases hl : l.getLast? with
  | none =>
    have hnil : l = [] := List.getLast?_eq_none_iff.1 hl
    subst hnil
    have hlast : s.last = none := by simpa using h.last
    refine ⟨hnd, ?_, ?_, ?_⟩
    · simp [RL.append, hlast]
    · simp [RL.append, hlast]
    · simp [RL.append, hlast, Chain, hn]
  | some x =>
    have hlast : s.last = some x := by rw [h.last, hl]
    have hxin : x ∈ l := List.mem_of_getLast? hl
    have hxr : x ≠ r := fun e => hr (e ▸ hxin)
    have hne : l ≠ [] := by intro e; subst e; simp at hl
    refine ⟨hnd, ?_, ?_, ?_⟩
    · simp only [RL.append, hlast]
      rw [h.first]; cases l with
      | nil => exact absurd rfl hne
      | cons a t => simp
    · simp [RL.append, hlast]
    · simp only [RL.append, hlast]
      rw [chain_append]
      refine ⟨?_, ?_⟩
      · -- the old list, its last node now pointing at r
        apply chain_set_last s _ (some r) l none none x h.nodup hl
        · intro a ha; have : a ≠ r := fun e => hr (e ▸ ha); simp [this]
        · intro a ha hax; simp [hax]
        · simp
        · exact h.chain
      · simp only [hl, Chain]
        refine ⟨by simp, ?_, trivial⟩
        simp [Ne.symm hxr, hn]

theorem repr_split (s : RL) (pre post : List Nat) (r : Nat) (h : Rep s (pre ++ r :: post)) :
    s.prev r = pre.getLast? ∧ s.next r = post.head? ∧ Chain s none pre (some r) ∧ Chain s (some r) post none := by
  have hc := (chain_append s pre (r :: post) none none).1 h.chain
  obtain ⟨h1, h2⟩ := hc
  obtain ⟨h3, h4, h5⟩ := h2
  exact ⟨by simpa using h3, by simpa using h4, by simpa using h1, h5⟩

theorem unlink_repr (s : RL) (l : List Nat) (r : Nat) (h : Rep s l) (hr : r ∈ l) :
    Rep (s.unlink r) (l.erase r) := by
  obtain ⟨pre, post, hl⟩ := List.append_of_mem hr
  subst hl
  have hnd := h.nodup
  rw [List.nodup_append] at hnd
  obtain ⟨hndpre, hndrp, hdis⟩ := hnd
  have hndpost := (List.nodup_cons.1 hndrp).2
  have hrpost : r ∉ post := (List.nodup_cons.1 hndrp).1
  have hrpre : r ∉ pre := fun hm => hdis r hm r (by simp) rfl
  have hpp : ∀ a ∈ pre, ∀ b ∈ post, a ≠ b := fun a ha b hb => hdis a ha b (List.mem_cons_of_mem _ hb)
  have her : (pre ++ r :: post).erase r = pre ++ post := by
    rw [List.erase_append_right _ hrpre]; simp
  rw [her]
  obtain ⟨hprev, hnext, hcpre, hcpost⟩ := repr_split s pre post r h
  have hnd' : (pre ++ post).Nodup := by
    rw [List.nodup_append]; exact ⟨hndpre, hndpost, hpp⟩
  -- the two ends of the gap
  cases hp : pre.getLast? with
  | none =>
    have hpre : pre = [] := List.getLast?_eq_none_iff.1 hp
    subst hpre
    cases hn : post.head? with
    | none =>
      have hpost : post = [] := List.head?_eq_none_iff.1 hn
      subst hpost
      refine ⟨hnd', ?_, ?_, ?_⟩ <;> simp [RL.unlink, hprev, hnext, Chain]
    | some n' =>
      obtain ⟨t, ht⟩ : ∃ t, post = n' :: t := by
        cases post with
        | nil => simp at hn
        | cons b t => exact ⟨t, by simp at hn; rw [hn]⟩
      subst ht
      have hn't : n' ∉ t := (List.nodup_cons.1 hndpost).1
      refine ⟨hnd', ?_, ?_, ?_⟩
      · simp [RL.unlink, hprev, hnext]
      · have hl := h.last
        simp only [List.nil_append] at hl
        simp only [RL.unlink, hprev, hnext, List.getLast?_nil, List.head?_cons, List.nil_append]
        rw [hl, List.getLast?_cons_cons]
      · simp only [RL.unlink, hprev, hnext, List.nil_append]
        apply chain_set_head s _ none n' t (some r) none hn't
        · intro c _; rfl
        · intro c hc; have : c ≠ n' := fun e => hn't (e ▸ hc); simp [this]
        · simp
        · exact hcpost
  | some p' =>
    have hp'in : p' ∈ pre := List.mem_of_getLast? hp
    have hp'r : p' ≠ r := fun e => hrpre (e ▸ hp'in)
    have hprene : pre ≠ [] := by intro e; subst e; simp at hp
    cases hn : post.head? with
    | none =>
      have hpost : post = [] := List.head?_eq_none_iff.1 hn
      subst hpost
      refine ⟨hnd', ?_, ?_, ?_⟩
      · simp only [RL.unlink, hprev, hnext, hp, List.append_nil]
        have := h.first
        rw [this]; cases pre with
        | nil => exact absurd rfl hprene
        | cons a t => simp
      · simp [RL.unlink, hprev, hnext, hp]
      · simp only [RL.unlink, hprev, hnext, hp, List.append_nil]
        apply chain_set_last s _ none pre none (some r) p' hndpre hp
        · intro a _; rfl
        · intro a _ hax; simp [hax]
        · simp
        · exact hcpre
    | some n' =>
      obtain ⟨t, ht⟩ : ∃ t, post = n' :: t := by
        cases post with
        | nil => simp at hn
        | cons b t => exact ⟨t, by simp at hn; rw [hn]⟩
      subst ht
      have hn't : n' ∉ t := (List.nodup_cons.1 hndpost).1
      have hn'pre : n' ∉ pre := fun hm => hpp n' hm n' (by simp) rfl
      refine ⟨hnd', ?_, ?_, ?_⟩
      · simp only [RL.unlink, hprev, hnext, hp]
        have := h.first
        rw [this]; cases pre with
        | nil => exact absurd rfl hprene
        | cons a t' => simp
      · simp only [RL.unlink, hprev, hnext, hp]
        have := h.last
        rw [this]
        rw [List.getLast?_append, List.getLast?_append]
        simp [List.getLast?_cons_cons]
      · simp only [RL.unlink, hprev, hnext, hp]
        rw [chain_append]
        refine ⟨?_, ?_⟩
        · apply chain_set_last s _ (some n') pre none (some r) p' hndpre hp
          · intro a ha; have : a ≠ n' := fun e => hn'pre (e ▸ ha); simp [this]
          · intro a _ hax; simp [hax]
          · simp
          · exact hcpre
        · simp only [hp, Option.or_some]
          apply chain_set_head s _ (some p') n' t (some r) none hn't
          · intro c hc
            have : c ≠ p' := fun e => hpp p' hp'in c hc e.symm
            simp [this]
          · intro c hc; have : c ≠ n' := fun e => hn't (e ▸ hc); simp [this]
          · simp
          · exact hcpost

/-- `ReqFree` of a request that is not on the list leaves the list alone and makes the request
    fit to be appended again -/
theorem free_repr (s : RL) (l : List Nat) (r : Nat) (h : Rep s l) (hr : r ∉ l) :
    Rep (s.free r) l ∧ (s.free r).next r = none := by
  refine ⟨⟨h.nodup, h.first, h.last, ?_⟩, by simp [RL.free]⟩
  apply chain_congr s _ l none none _ h.chain
  intro a ha
  have : a ≠ r := fun e => hr (e ▸ ha)
  simp [RL.free, this]

/-- following `next` from `reqfirst` visits exactly the list, in order -/
theorem walk_chain (s : RL) : ∀ (l : List Nat) (p : Option Nat) (fuel : Nat), Chain s p l none → l.length < fuel →
    s.walk fuel l.head? = l
  | [], _, fuel, _, hf => by cases fuel <;> simp [RL.walk]
  | a :: t, p, fuel, hc, hf => by
    obtain ⟨_, h2, h3⟩ := hc
    cases fuel with
    | zero => simp at hf
    | succ fuel =>
      simp only [List.head?_cons, RL.walk]
      rw [h2]
      simp only [Option.or_none]
      rw [walk_chain s t (some a) fuel h3 (by simp at hf; omega)]

end G9.ReqList
