import G9Proofs.Lemmas.LifeReach
namespace G9.Life

/-- replies in the order in which they were queued: what is on the wire, then what waits for the writer -/
def out (s : LS) : List Nat := s.wire ++ s.reqout

/-- nothing of `t` can be queued any more: it is marked answered and no call of Respond on it
    stands between its test-and-set and the queue -/
def NoFuture (s : LS) (t : Nat) : Prop := (s.req t).rs = true ∧ winners s t = 0

def Before (l : List Nat) (a b : Nat) : Prop := ∃ x y z, l = x ++ (a :: (y ++ (b :: z)))

def isFl (s : LS) (r : Nat) : Prop := (s.req r).oldtag ≠ none

/-- the states of a flush worker from its lookup on -/
def afterLookup (t : Nat) : WPC → Prop
  | .fl1 (some t') => t' = t
  | .fl2 t' _ => t' = t
  | .tail => True
  | .ended => True
  | _ => False

structure FI (s : LS) : Prop where
  lkw : ∀ f t, (s.req f).looked = some t → isFl s f ∧ ¬ isFl s t ∧ t < s.n ∧ afterLookup t (s.req f).wpc
  wlk : ∀ f t, tgtOf (s.req f).wpc = some t → (s.req f).looked = some t
  il : ∀ r ∈ s.implLog, r < s.n ∧ ¬ isFl s r
  e3 : ∀ f, isFl s f → (s.req f).looked = none → (s.req f).wpc ≠ .tail → (s.req f).wpc ≠ .ended →
         (s.req f).rs = false ∧ ∀ it ∈ s.insts, it.rid ≠ f
  w1 : ∀ it ∈ s.insts, (it.pc = .unlink ∨ it.pc = .next ∨ it.pc = .flushes) → NoFuture s it.rid
  z : ∀ f t, (s.req f).looked = some t → ((s.req f).rs = true ∨ ∃ it ∈ s.insts, it.rid = f) → NoFuture s t
  q2 : ∀ it ∈ s.insts, ∀ f, it.cur = some f → ∃ t, (s.req f).looked = some t ∧ NoFuture s t
  q3 : ∀ x f, (s.req x).flushreq = some f → ∃ t, (s.req f).looked = some t ∧ (x = t ∨ (s.req x).looked = some t)
  ord : ∀ f t, (s.req f).looked = some t → f ∈ out s → t ∈ out s → Before (out s) t f

theorem fi_init (cap : Nat) : FI (LS.init cap) := by
  constructor <;> simp [LS.init, out, tgtOf, isFl]

end G9.Life

namespace G9.Life

theorem winners_same (s s' : LS) (h : s'.insts = s.insts) (t : Nat) : winners s' t = winners s t := by
  unfold winners; rw [h]

theorem winners_new (s s' : LS) (x : Nat) (h : s'.insts = s.insts ++ [{ rid := x }]) (t : Nat) :
    winners s' t = winners s t := by
  unfold winners; rw [h, countP_append_single]; simp [win]

theorem winners_set (s s' : LS) (l : List Inst) (hl : ∀ r, l.countP (win r) = winners s r) (i : Nat) (it v : Inst)
    (hit : l[i]? = some it) (hi : s'.insts = setInst l i v) (t : Nat) :
    winners s' t + (if win t it then 1 else 0) = winners s t + (if win t v then 1 else 0) := by
  unfold winners at *; rw [hi, ← hl t]; unfold setInst; exact countP_set _ _ _ _ _ hit

/-- keeping `rs` and not adding a winner keeps NoFuture -/
theorem nf_of (s s' : LS) (t : Nat) (h : NoFuture s t) (hrs : (s.req t).rs = true → (s'.req t).rs = true)
    (hw : winners s' t ≤ winners s t) : NoFuture s' t := by
  refine ⟨hrs h.1, ?_⟩
  have := h.2
  omega

theorem rs_upd1 (g : Nat → Req) (i : Nat) (v : Req) (hv : (g i).rs = true → v.rs = true) (t : Nat) :
    (g t).rs = true → (upd g i v t).rs = true := rs_upd_keep g i v hv t

end G9.Life

namespace G9.Life

macro "nf_req" h:ident : tactic =>
  `(tactic| (refine nf_of _ _ _ $h ?_ (Nat.le_of_eq (winners_same _ _ rfl _))
             intro h1
             repeat (first | exact h1 | refine rs_upd_keep _ _ _ (by intro h; exact h) _ ?_)))

macro "nf_req_new" h:ident : tactic =>
  `(tactic| (refine nf_of _ _ _ $h ?_ (Nat.le_of_eq (winners_new _ _ _ rfl _))
             intro h1
             repeat (first | exact h1 | refine rs_upd_keep _ _ _ (by intro h; exact h) _ ?_)))

/-- an instance step that neither wins nor touches `rs` -/
theorem nf_set (s s' : LS) (t : Nat) (h : NoFuture s t) (l : List Inst) (hl : ∀ r, l.countP (win r) = winners s r)
    (i : Nat) (it v : Inst) (hit : l[i]? = some it) (hi : s'.insts = setInst l i v)
    (hwv : win t v = true → win t it = true) (hrs : (s.req t).rs = true → (s'.req t).rs = true) : NoFuture s' t := by
  refine nf_of s s' t h hrs ?_
  have := winners_set s s' l hl i it v hit hi t
  by_cases h1 : win t v = true
  · rw [if_pos h1, if_pos (hwv h1)] at this; omega
  · rw [if_neg h1] at this; omega

theorem nf_step (s s' : LS) (e : Ev) (hs : s.step e = some s') (t : Nat) (ht : t < s.n) (h : NoFuture s t) :
    NoFuture s' t := by
  cases e with
  | recv tag oldtag =>
    simp only [LS.step] at hs
    split at hs
    · cases hs
    · cases hs
      refine nf_of s _ t h ?_ (Nat.le_of_eq (winners_same s _ rfl t))
      intro h1
      show (upd _ s.n _ t).rs = true
      rw [upd_other _ _ _ _ (Nat.ne_of_lt ht), (linkPrev_same _ _ _ _).2.2.1]; exact h1
  | check r =>
    simp only [LS.step] at hs
    split at hs
    · cases hs; nf_req h
    · cases hs
  | dispatch r =>
    simp only [LS.step] at hs
    split at hs
    · split at hs <;> cases hs <;> nf_req h
    · cases hs
  | selfRespond r =>
    simp only [LS.step] at hs
    split at hs
    · cases hs; nf_req_new h
    · cases hs
  | answer r =>
    simp only [LS.step] at hs
    split at hs
    · cases hs; nf_req_new h
    · cases hs
  | implFlush r =>
    simp only [LS.step] at hs
    split at hs
    · cases hs; nf_req_new h
    · cases hs
  | implReturn r =>
    simp only [LS.step] at hs
    split at hs
    · cases hs; nf_req h
    · cases hs
  | procEnd r =>
    simp only [LS.step] at hs
    split at hs
    · cases hs; nf_req h
    · cases hs
  | flushLookup f =>
    simp only [LS.step] at hs
    split at hs
    · split at hs
      · cases hs
      · split at hs <;> cases hs <;> nf_req h
    · cases hs
  | flushMark f =>
    simp only [LS.step] at hs
    split at hs
    · split at hs
      · cases hs; nf_req h
      · cases hs
    · cases hs
  | flushAct f =>
    simp only [LS.step] at hs
    split at hs
    · split at hs
      · cases hs; nf_req_new h
      · cases hs; nf_req_new h
      · cases hs; nf_req h
      · cases hs
    · cases hs
  | mark i =>
    simp only [LS.step] at hs
    split at hs
    · rename_i it hit
      split at hs
      · rename_i hpc
        split at hs
        · cases hs
          refine nf_set s _ t h s.insts (fun _ => rfl) i it _ hit rfl (by simp [win]) ?_
          exact rs_upd_keep _ _ _ (by intro _; rfl) t
        · rename_i hrs
          cases hs
          refine nf_set s _ t h s.insts (fun _ => rfl) i it _ hit rfl ?_ ?_
          · intro hw
            simp [win] at hw
            have : (s.req t).rs = true := h.1
            rw [← hw] at this
            exact absurd this hrs
          · exact rs_upd_keep _ _ _ (by intro _; rfl) t
      · cases hs
    · cases hs
  | post i =>
    simp only [LS.step] at hs
    split at hs
    · rename_i it hit
      split at hs
      · rename_i hpc
        cases hs
        exact nf_set s _ t h s.insts (fun _ => rfl) i it _ hit rfl (by simp [win, hpc]) (fun h => h)
      · cases hs
    · cases hs
  | queue i =>
    simp only [LS.step] at hs
    split at hs
    · rename_i it hit
      split at hs
      · rename_i hpc
        split at hs
        · cases hs
          exact nf_set s _ t h s.insts (fun _ => rfl) i it _ hit rfl (by simp [win]) (fun h => h)
        · split at hs
          · cases hs
            exact nf_set s _ t h s.insts (fun _ => rfl) i it _ hit rfl (by simp [win]) (fun h => h)
          · cases hs
      · cases hs
    · cases hs
  | unlink i =>
    simp only [LS.step] at hs
    split at hs
    · rename_i it hit
      split at hs
      · rename_i hpc
        split at hs
        · cases hs
          exact nf_set s _ t h s.insts (fun _ => rfl) i it _ hit rfl (by simp [win])
            (rs_upd_keep _ _ _ (by intro h; exact h) t)
        · split at hs
          · cases hs
            exact nf_set s _ t h s.insts (fun _ => rfl) i it _ hit rfl (by simp [win]) (fun h => h)
          · split at hs
            · cases hs
              exact nf_set s _ t h s.insts (fun _ => rfl) i it _ hit rfl (by simp [win]) (fun h => h)
            · split at hs
              · cases hs
                exact nf_set s _ t h s.insts (fun _ => rfl) i it _ hit rfl (by simp [win])
                  (rs_upd_keep _ _ _ (by intro h; exact h) t)
              · cases hs
                exact nf_set s _ t h s.insts (fun _ => rfl) i it _ hit rfl (by simp [win]) (fun h => h)
      · cases hs
    · cases hs
  | next i =>
    simp only [LS.step] at hs
    split at hs
    · rename_i it hit
      split at hs
      · rename_i hpc
        split at hs
        · cases hs
          exact nf_set s _ t h s.insts (fun _ => rfl) i it _ hit rfl (by simp [win]) (fun h => h)
        · cases hs
          exact nf_set s _ t h s.insts (fun _ => rfl) i it _ hit rfl (by simp [win])
            (rs_upd_keep _ _ _ (by intro h; exact h) t)
      · cases hs
    · cases hs
  | flushes i =>
    simp only [LS.step] at hs
    split at hs
    · rename_i it hit
      split at hs
      · rename_i hpc
        split at hs
        · cases hs
          exact nf_set s _ t h s.insts (fun _ => rfl) i it _ hit rfl (by simp [win]) (fun h => h)
        · rename_i f hcur
          split at hs
          · cases hs
            exact nf_set s _ t h s.insts (fun _ => rfl) i it _ hit rfl (by simp [win, hpc]) (fun h => h)
          · cases hs
            refine nf_set s _ t h (s.insts ++ [{ rid := f }]) ?_ i it _ ?_ rfl (by simp [win, hpc]) (fun h => h)
            · intro r; unfold winners; rw [countP_append_single]; simp [win]
            · rw [List.getElem?_append_left]; exact hit
              exact (List.getElem?_eq_some_iff.mp hit).1
      · cases hs
    · cases hs
  | send =>
    simp only [LS.step] at hs
    split at hs
    · cases hs
    · split at hs
      · cases hs
      · cases hs; exact nf_of s _ t h (fun h => h) (Nat.le_of_eq (winners_same s _ rfl t))
  | close =>
    simp only [LS.step] at hs
    split at hs
    · cases hs
    · cases hs; exact nf_of s _ t h (fun h => h) (Nat.le_of_eq (winners_same s _ rfl t))

end G9.Life

namespace G9.Life

theorem nf_congr (s s' : LS) (hi : s'.insts = s.insts) (hr : ∀ x, (s'.req x).rs = (s.req x).rs) (x : Nat) :
    NoFuture s' x ↔ NoFuture s x := by
  unfold NoFuture winners; rw [hi, hr x]

theorem out_congr (s s' : LS) (h1 : s'.wire = s.wire) (h2 : s'.reqout = s.reqout) : out s' = out s := by
  unfold out; rw [h1, h2]

/-- a worker moves on: only the program counter of request `r` (and fields the flush
    bookkeeping does not read) changes -/
theorem fi_wpc (s : LS) (h : FI s) (r : Nat) (v : Req)
    (ho : v.oldtag = (s.req r).oldtag) (hl : v.looked = (s.req r).looked) (hf : v.flushreq = (s.req r).flushreq)
    (hr : v.rs = (s.req r).rs)
    (c1 : ∀ t, (s.req r).looked = some t → afterLookup t v.wpc)
    (c2 : ∀ t, tgtOf v.wpc = some t → (s.req r).looked = some t)
    (c3 : (s.req r).wpc = .tail ∨ (s.req r).wpc = .ended → v.wpc = .tail ∨ v.wpc = .ended) :
    FI { s with req := upd s.req r v } := by
  have eo : ∀ x, (upd s.req r v x).oldtag = (s.req x).oldtag := by
    intro x; by_cases hx : x = r
    · subst hx; simp [ho]
    · simp [upd, hx]
  have el : ∀ x, (upd s.req r v x).looked = (s.req x).looked := by
    intro x; by_cases hx : x = r
    · subst hx; simp [hl]
    · simp [upd, hx]
  have ef : ∀ x, (upd s.req r v x).flushreq = (s.req x).flushreq := by
    intro x; by_cases hx : x = r
    · subst hx; simp [hf]
    · simp [upd, hx]
  have er : ∀ x, (upd s.req r v x).rs = (s.req x).rs := by
    intro x; by_cases hx : x = r
    · subst hx; simp [hr]
    · simp [upd, hx]
  have enf : ∀ x, NoFuture { s with req := upd s.req r v } x ↔ NoFuture s x := nf_congr s _ rfl er
  have efl : ∀ x, isFl { s with req := upd s.req r v } x ↔ isFl s x := by
    intro x; unfold isFl; show (upd s.req r v x).oldtag ≠ none ↔ _; rw [eo x]
  constructor
  · intro f t hlk
    have hlk' : (s.req f).looked = some t := by rw [← el f]; exact hlk
    obtain ⟨h1, h2, h3, h4⟩ := h.lkw f t hlk'
    refine ⟨(efl f).mpr h1, fun hh => h2 ((efl t).mp hh), h3, ?_⟩
    show afterLookup t (upd s.req r v f).wpc
    by_cases hx : f = r
    · subst hx; rw [upd_same]; exact c1 t hlk'
    · rw [upd_other _ _ _ _ hx]; exact h4
  · intro f t ht
    have ht : tgtOf (upd s.req r v f).wpc = some t := ht
    show (upd s.req r v f).looked = some t
    rw [el f]
    by_cases hx : f = r
    · subst hx; rw [upd_same] at ht; exact c2 t ht
    · rw [upd_other _ _ _ _ hx] at ht; exact h.wlk f t ht
  · intro x hx; exact ⟨(h.il x hx).1, fun hh => (h.il x hx).2 ((efl x).mp hh)⟩
  · intro f hfl hlk hw1 hw2
    have hw1 : (upd s.req r v f).wpc ≠ .tail := hw1
    have hw2 : (upd s.req r v f).wpc ≠ .ended := hw2
    have hlk' : (s.req f).looked = none := by rw [← el f]; exact hlk
    have hold : (s.req f).wpc ≠ .tail ∧ (s.req f).wpc ≠ .ended := by
      by_cases hx : f = r
      · subst hx
        rw [upd_same] at hw1 hw2
        constructor
        · intro h1; rcases c3 (Or.inl h1) with h2 | h2
          · exact hw1 h2
          · exact hw2 h2
        · intro h1; rcases c3 (Or.inr h1) with h2 | h2
          · exact hw1 h2
          · exact hw2 h2
      · rw [upd_other _ _ _ _ hx] at hw1 hw2; exact ⟨hw1, hw2⟩
    have := h.e3 f ((efl f).mp hfl) hlk' hold.1 hold.2
    exact ⟨by show (upd s.req r v f).rs = false; rw [er f]; exact this.1, this.2⟩
  · intro it hit hpc; exact (enf _).mpr (h.w1 it hit hpc)
  · intro f t hlk hc
    have hlk' : (s.req f).looked = some t := by rw [← el f]; exact hlk
    refine (enf t).mpr (h.z f t hlk' ?_)
    rcases hc with hc | hc
    · left; rw [← er f]; exact hc
    · right; exact hc
  · intro it hit f hc
    obtain ⟨t, h1, h2⟩ := h.q2 it hit f hc
    exact ⟨t, by show (upd s.req r v f).looked = some t; rw [el f]; exact h1, (enf t).mpr h2⟩
  · intro x f hx
    have hx' : (s.req x).flushreq = some f := by rw [← ef x]; exact hx
    obtain ⟨t, h1, h2⟩ := h.q3 x f hx'
    refine ⟨t, by show (upd s.req r v f).looked = some t; rw [el f]; exact h1, ?_⟩
    rcases h2 with h2 | h2
    · exact Or.inl h2
    · right; show (upd s.req r v x).looked = some t; rw [el x]; exact h2
  · intro f t hlk hfo hto
    have hlk' : (s.req f).looked = some t := by rw [← el f]; exact hlk
    exact h.ord f t hlk' hfo hto

end G9.Life

namespace G9.Life

def late (p : IPC) : Prop := p = .unlink ∨ p = .next ∨ p = .flushes

/-- what has to be known of every call of Respond after a step that only touches calls -/
def InstOK (s s' : LS) (it' : Inst) : Prop :=
  (late it'.pc → NoFuture s' it'.rid) ∧
  (∀ f, it'.cur = some f → ∃ t, (s.req f).looked = some t ∧ NoFuture s' t) ∧
  ((∃ it ∈ s.insts, it.rid = it'.rid) ∨
   ((∀ t, (s.req it'.rid).looked = some t → NoFuture s' t) ∧
    (isFl s it'.rid → (s.req it'.rid).looked = none → (s.req it'.rid).wpc = .tail ∨ (s.req it'.rid).wpc = .ended)))

theorem instOK_old (s s' : LS) (h : FI s) (hR : Ref s) (hnf : ∀ x, x < s.n → NoFuture s x → NoFuture s' x)
    (it : Inst) (hit : it ∈ s.insts) : InstOK s s' it := by
  refine ⟨fun hl => hnf _ (hR.1 it hit) (h.w1 it hit hl), fun f hf => ?_, Or.inl ⟨it, hit, rfl⟩⟩
  obtain ⟨t, h1, h2⟩ := h.q2 it hit f hf
  exact ⟨t, h1, hnf t (h.lkw f t h1).2.2.1 h2⟩

/-- steps that only touch calls of Respond -/
theorem fi_insts (s s' : LS) (h : FI s) (hreq : s'.req = s.req) (hn : s'.n = s.n)
    (hil : ∀ r ∈ s'.implLog, r ∈ s.implLog ∨ (r < s.n ∧ ¬ isFl s r))
    (hout : out s' = out s) (hnf : ∀ x, x < s.n → NoFuture s x → NoFuture s' x)
    (hinst : ∀ it' ∈ s'.insts, InstOK s s' it') : FI s' := by
  have efl : ∀ x, isFl s' x ↔ isFl s x := by intro x; unfold isFl; rw [hreq]
  constructor
  · intro f t hlk
    rw [hreq] at hlk
    obtain ⟨h1, h2, h3, h4⟩ := h.lkw f t hlk
    exact ⟨(efl f).mpr h1, fun hh => h2 ((efl t).mp hh), by rw [hn]; exact h3, by rw [hreq]; exact h4⟩
  · intro f t ht; rw [hreq] at ht ⊢; exact h.wlk f t ht
  · intro x hx
    rcases hil x hx with h1 | h1
    · exact ⟨by rw [hn]; exact (h.il x h1).1, fun hh => (h.il x h1).2 ((efl x).mp hh)⟩
    · exact ⟨by rw [hn]; exact h1.1, fun hh => h1.2 ((efl x).mp hh)⟩
  · intro f hfl hlk hw1 hw2
    rw [hreq] at hlk hw1 hw2
    have := h.e3 f ((efl f).mp hfl) hlk hw1 hw2
    refine ⟨by rw [hreq]; exact this.1, fun it' hit' hrid => ?_⟩
    rcases (hinst it' hit').2.2 with ⟨it, hit, he⟩ | ⟨_, hb⟩
    · exact this.2 it hit (by rw [he, hrid])
    · rw [hrid] at hb
      rcases hb ((efl f).mp hfl) hlk with hb | hb
      · exact hw1 hb
      · exact hw2 hb
  · intro it' hit' hpc; exact (hinst it' hit').1 hpc
  · intro f t hlk hc
    rw [hreq] at hlk
    have ht := (h.lkw f t hlk).2.2.1
    rcases hc with hc | ⟨it', hit', hrid⟩
    · rw [hreq] at hc; exact hnf t ht (h.z f t hlk (Or.inl hc))
    · rcases (hinst it' hit').2.2 with ⟨it, hit, he⟩ | ⟨ha, _⟩
      · exact hnf t ht (h.z f t hlk (Or.inr ⟨it, hit, by rw [he, hrid]⟩))
      · rw [hrid] at ha; exact ha t hlk
  · intro it' hit' f hc
    obtain ⟨t, h1, h2⟩ := (hinst it' hit').2.1 f hc
    exact ⟨t, by rw [hreq]; exact h1, h2⟩
  · intro x f hx
    rw [hreq] at hx ⊢
    exact h.q3 x f hx
  · intro f t hlk hfo hto
    rw [hreq] at hlk; rw [hout] at hfo hto ⊢
    exact h.ord f t hlk hfo hto

end G9.Life

namespace G9.Life

/-- the test-and-set of Respond on a request that has a call standing at it -/
theorem fi_rs (s : LS) (h : FI s) (r : Nat) (v : Req) (hinst : ∃ it ∈ s.insts, it.rid = r)
    (ho : v.oldtag = (s.req r).oldtag) (hl : v.looked = (s.req r).looked) (hf : v.flushreq = (s.req r).flushreq)
    (hw : v.wpc = (s.req r).wpc) (hr : v.rs = true) :
    FI { s with req := upd s.req r v } ∧ ∀ x, NoFuture s x → NoFuture { s with req := upd s.req r v } x := by
  have eo : ∀ x, (upd s.req r v x).oldtag = (s.req x).oldtag := by
    intro x; by_cases hx : x = r
    · subst hx; simp [ho]
    · simp [upd, hx]
  have el : ∀ x, (upd s.req r v x).looked = (s.req x).looked := by
    intro x; by_cases hx : x = r
    · subst hx; simp [hl]
    · simp [upd, hx]
  have ef : ∀ x, (upd s.req r v x).flushreq = (s.req x).flushreq := by
    intro x; by_cases hx : x = r
    · subst hx; simp [hf]
    · simp [upd, hx]
  have ew : ∀ x, (upd s.req r v x).wpc = (s.req x).wpc := by
    intro x; by_cases hx : x = r
    · subst hx; simp [hw]
    · simp [upd, hx]
  have er : ∀ x, (s.req x).rs = true → (upd s.req r v x).rs = true := by
    intro x hx; by_cases hxr : x = r
    · subst hxr; simp [hr]
    · simp [upd, hxr]; exact hx
  have er' : ∀ x, x ≠ r → (upd s.req r v x).rs = (s.req x).rs := by
    intro x hx; simp [upd, hx]
  have enf : ∀ x, NoFuture s x → NoFuture { s with req := upd s.req r v } x := by
    intro x hx; exact ⟨er x hx.1, hx.2⟩
  have efl : ∀ x, isFl { s with req := upd s.req r v } x ↔ isFl s x := by
    intro x; unfold isFl; show (upd s.req r v x).oldtag ≠ none ↔ _; rw [eo x]
  refine ⟨?_, enf⟩
  constructor
  · intro f t hlk
    have hlk' : (s.req f).looked = some t := by rw [← el f]; exact hlk
    obtain ⟨h1, h2, h3, h4⟩ := h.lkw f t hlk'
    exact ⟨(efl f).mpr h1, fun hh => h2 ((efl t).mp hh), h3, by show afterLookup t (upd s.req r v f).wpc; rw [ew f]; exact h4⟩
  · intro f t ht
    have ht : tgtOf (upd s.req r v f).wpc = some t := ht
    rw [ew f] at ht
    show (upd s.req r v f).looked = some t
    rw [el f]; exact h.wlk f t ht
  · intro x hx; exact ⟨(h.il x hx).1, fun hh => (h.il x hx).2 ((efl x).mp hh)⟩
  · intro f hfl hlk hw1 hw2
    have hw1 : (upd s.req r v f).wpc ≠ .tail := hw1
    have hw2 : (upd s.req r v f).wpc ≠ .ended := hw2
    rw [ew f] at hw1 hw2
    have hlk' : (s.req f).looked = none := by rw [← el f]; exact hlk
    have := h.e3 f ((efl f).mp hfl) hlk' hw1 hw2
    by_cases hfr : f = r
    · subst hfr
      obtain ⟨it, hit, he⟩ := hinst
      exact absurd he (this.2 it hit)
    · exact ⟨by show (upd s.req r v f).rs = false; rw [er' f hfr]; exact this.1, this.2⟩
  · intro it hit hpc; exact enf _ (h.w1 it hit hpc)
  · intro f t hlk hc
    have hlk' : (s.req f).looked = some t := by rw [← el f]; exact hlk
    refine enf t (h.z f t hlk' ?_)
    rcases hc with hc | hc
    · by_cases hfr : f = r
      · subst hfr; exact Or.inr hinst
      · left
        have hc : (upd s.req r v f).rs = true := hc
        rw [er' f hfr] at hc; exact hc
    · exact Or.inr hc
  · intro it hit f hc
    obtain ⟨t, h1, h2⟩ := h.q2 it hit f hc
    exact ⟨t, by show (upd s.req r v f).looked = some t; rw [el f]; exact h1, enf t h2⟩
  · intro x f hx
    have hx' : (s.req x).flushreq = some f := by rw [← ef x]; exact hx
    obtain ⟨t, h1, h2⟩ := h.q3 x f hx'
    refine ⟨t, by show (upd s.req r v f).looked = some t; rw [el f]; exact h1, ?_⟩
    rcases h2 with h2 | h2
    · exact Or.inl h2
    · right; show (upd s.req r v x).looked = some t; rw [el x]; exact h2
  · intro f t hlk hfo hto
    have hlk' : (s.req f).looked = some t := by rw [← el f]; exact hlk
    exact h.ord f t hlk' hfo hto

theorem before_append (l : List Nat) (a b x : Nat) (h : Before l a b) : Before (l ++ [x]) a b := by
  obtain ⟨p, q, r, hl⟩ := h
  exact ⟨p, q, r ++ [x], by rw [hl]; simp⟩

theorem before_last (l : List Nat) (a x : Nat) (h : a ∈ l) : Before (l ++ [x]) a x := by
  obtain ⟨p, q, hl⟩ := List.append_of_mem h
  exact ⟨p, q, [], by rw [hl]; simp⟩

/-- a reply is handed to the writer's queue by the call that won the test-and-set -/
theorem fi_push (s : LS) (h : FI s) (hO : Once s) (x : Nat) (hwin : 1 ≤ winners s x) :
    FI { s with reqout := s.reqout ++ [x] } := by
  have hout : out { s with reqout := s.reqout ++ [x] } = out s ++ [x] := by
    unfold out; simp
  have enf : ∀ y, NoFuture { s with reqout := s.reqout ++ [x] } y ↔ NoFuture s y := fun y => Iff.rfl
  have hx0 : x ∉ out s := by
    intro hm
    have := (hO x).1
    have hs : 0 < sent s x := by
      unfold sent
      apply List.count_pos_iff.mpr
      unfold out at hm
      simp only [List.mem_append] at hm ⊢
      rcases hm with h1 | h1
      · exact Or.inr h1
      · exact Or.inl h1
    omega
  constructor
  · exact h.lkw
  · exact h.wlk
  · exact h.il
  · exact h.e3
  · exact h.w1
  · exact h.z
  · exact h.q2
  · exact h.q3
  · intro f t hlk hfo hto
    rw [hout] at hfo hto ⊢
    have hft : f ≠ t := by
      intro he; subst he
      have := h.lkw f f hlk
      exact this.2.1 this.1
    rcases List.mem_append.mp hfo with hf1 | hf1
    · -- f was already queued: then t cannot be queued now
      have hrsf : (s.req f).rs = true := by
        apply (hO f).2
        have : 0 < sent s f := by
          unfold sent
          apply List.count_pos_iff.mpr
          unfold out at hf1
          simp only [List.mem_append] at hf1 ⊢
          rcases hf1 with h1 | h1
          · exact Or.inr h1
          · exact Or.inl h1
        omega
      have hnf := h.z f t hlk (Or.inl hrsf)
      rcases List.mem_append.mp hto with ht1 | ht1
      · exact before_append _ _ _ _ (h.ord f t hlk hf1 ht1)
      · simp at ht1; subst ht1
        have := hnf.2
        omega
    · simp at hf1; subst hf1
      rcases List.mem_append.mp hto with ht1 | ht1
      · exact before_last _ _ _ ht1
      · simp at ht1; exact absurd ht1.symm hft

end G9.Life

namespace G9.Life

theorem lk_none_of_wpc (s : LS) (h : FI s) (f : Nat) (hw : ∀ t, ¬ afterLookup t (s.req f).wpc) : (s.req f).looked = none := by
  cases hl : (s.req f).looked with
  | none => rfl
  | some t => exact absurd (h.lkw f t hl).2.2.2 (hw t)

theorem lk_none_of_notfl (s : LS) (h : FI s) (r : Nat) (hn : ¬ isFl s r) : (s.req r).looked = none := by
  cases hl : (s.req r).looked with
  | none => rfl
  | some t => exact absurd (h.lkw r t hl).1 hn

theorem rs_of_out (s : LS) (hO : Once s) (f : Nat) (hf : f ∈ out s) : (s.req f).rs = true := by
  apply (hO f).2
  have : 0 < sent s f := by
    unfold sent
    apply List.count_pos_iff.mpr
    unfold out at hf
    simp only [List.mem_append] at hf ⊢
    rcases hf with h1 | h1
    · exact Or.inr h1
    · exact Or.inl h1
  omega

/-- the request table after `f.flushreq = t.flushreq; t.flushreq = f` and the worker's move -/
def lookupReq (req : Nat → Req) (f t : Nat) : Nat → Req :=
  let req1 := upd req f { req f with flushreq := (req t).flushreq }
  let req2 := upd req1 t { req1 t with flushreq := some f }
  upd req2 f { req2 f with wpc := .fl1 (some t), looked := some t }

/-- the lookup of a Tflush that finds a request (not itself a Tflush) under its old tag -/
theorem fi_lookup (s : LS) (h : FI s) (hO : Once s) (f t : Nat) (hw : (s.req f).wpc = .fl0) (hff : isFl s f)
    (htn : t < s.n) (htf : ¬ isFl s t) :
    FI { s with req := lookupReq s.req f t } := by
  have hft : f ≠ t := by intro he; subst he; exact htf hff
  have htf' : t ≠ f := fun he => hft he.symm
  have hlf : (s.req f).looked = none := lk_none_of_wpc s h f (by intro u; rw [hw]; exact fun hh => hh)
  have hlt : (s.req t).looked = none := lk_none_of_notfl s h t htf
  have he3 := h.e3 f hff hlf (by rw [hw]; intro hh; cases hh) (by rw [hw]; intro hh; cases hh)
  -- the new request table, field by field
  generalize hR : lookupReq s.req f t = R
  have rf : R f = { s.req f with flushreq := (s.req t).flushreq, wpc := .fl1 (some t), looked := some t } := by
    rw [← hR]; simp [lookupReq, upd, hft]
  have rt : R t = { s.req t with flushreq := some f } := by
    rw [← hR]; simp [lookupReq, upd, htf']
  have rx : ∀ x, x ≠ f → x ≠ t → R x = s.req x := by
    intro x h1 h2; rw [← hR]; simp [lookupReq, upd, h1, h2]
  have eo : ∀ x, (R x).oldtag = (s.req x).oldtag := by
    intro x
    by_cases h1 : x = f
    · subst h1; rw [rf]
    · by_cases h2 : x = t
      · subst h2; rw [rt]
      · rw [rx x h1 h2]
  have er : ∀ x, (R x).rs = (s.req x).rs := by
    intro x
    by_cases h1 : x = f
    · subst h1; rw [rf]
    · by_cases h2 : x = t
      · subst h2; rw [rt]
      · rw [rx x h1 h2]
  have el : ∀ x, x ≠ f → (R x).looked = (s.req x).looked := by
    intro x h1
    by_cases h2 : x = t
    · subst h2; rw [rt]
    · rw [rx x h1 h2]
  have ew : ∀ x, x ≠ f → (R x).wpc = (s.req x).wpc := by
    intro x h1
    by_cases h2 : x = t
    · subst h2; rw [rt]
    · rw [rx x h1 h2]
  have enf : ∀ x, NoFuture { s with req := R } x ↔ NoFuture s x := nf_congr s _ rfl er
  have efl : ∀ x, isFl { s with req := R } x ↔ isFl s x := by
    intro x; unfold isFl; show (R x).oldtag ≠ none ↔ _; rw [eo x]
  constructor
  · intro g u hlk
    have hlk : (R g).looked = some u := hlk
    by_cases hg : g = f
    · subst hg
      rw [rf] at hlk
      have : u = t := by cases hlk; rfl
      subst this
      refine ⟨(efl g).mpr hff, fun hh => htf ((efl u).mp hh), htn, ?_⟩
      show afterLookup u (R g).wpc
      rw [rf]; exact rfl
    · rw [el g hg] at hlk
      obtain ⟨h1, h2, h3, h4⟩ := h.lkw g u hlk
      exact ⟨(efl g).mpr h1, fun hh => h2 ((efl u).mp hh), h3, by show afterLookup u (R g).wpc; rw [ew g hg]; exact h4⟩
  · intro g u ht
    have ht : tgtOf (R g).wpc = some u := ht
    show (R g).looked = some u
    by_cases hg : g = f
    · subst hg
      rw [rf] at ht ⊢
      simp [tgtOf] at ht
      subst ht; rfl
    · rw [ew g hg] at ht; rw [el g hg]; exact h.wlk g u ht
  · intro x hx; exact ⟨(h.il x hx).1, fun hh => (h.il x hx).2 ((efl x).mp hh)⟩
  · intro g hfl hlk hw1 hw2
    have hlk : (R g).looked = none := hlk
    have hw1 : (R g).wpc ≠ .tail := hw1
    have hw2 : (R g).wpc ≠ .ended := hw2
    by_cases hg : g = f
    · subst hg; rw [rf] at hlk; cases hlk
    · rw [el g hg] at hlk; rw [ew g hg] at hw1 hw2
      have := h.e3 g ((efl g).mp hfl) hlk hw1 hw2
      exact ⟨by show (R g).rs = false; rw [er g]; exact this.1, this.2⟩
  · intro it hit hpc; exact (enf _).mpr (h.w1 it hit hpc)
  · intro g u hlk hc
    have hlk : (R g).looked = some u := hlk
    by_cases hg : g = f
    · subst hg
      exfalso
      rcases hc with hc | ⟨it, hit, hrid⟩
      · have hc : (R g).rs = true := hc
        rw [er g, he3.1] at hc; cases hc
      · exact he3.2 it hit hrid
    · rw [el g hg] at hlk
      refine (enf u).mpr (h.z g u hlk ?_)
      rcases hc with hc | hc
      · left; have hc : (R g).rs = true := hc; rw [er g] at hc; exact hc
      · exact Or.inr hc
  · intro it hit g hc
    obtain ⟨u, h1, h2⟩ := h.q2 it hit g hc
    have hg : g ≠ f := by intro he; subst he; rw [hlf] at h1; cases h1
    exact ⟨u, by show (R g).looked = some u; rw [el g hg]; exact h1, (enf u).mpr h2⟩
  · intro x g hx
    have hx : (R x).flushreq = some g := hx
    by_cases h1 : x = f
    · subst h1
      rw [rf] at hx
      have hx : (s.req t).flushreq = some g := hx
      obtain ⟨u, k1, k2⟩ := h.q3 t g hx
      have hg : g ≠ x := by intro he; subst he; rw [hlf] at k1; cases k1
      have hut : t = u := by
        rcases k2 with k2 | k2
        · exact k2
        · rw [hlt] at k2; cases k2
      subst hut
      refine ⟨t, by show (R g).looked = some t; rw [el g hg]; exact k1, Or.inr ?_⟩
      show (R x).looked = some t
      rw [rf]
    · by_cases h2 : x = t
      · subst h2
        rw [rt] at hx
        have : g = f := by cases hx; rfl
        subst this
        exact ⟨x, by show (R g).looked = some x; rw [rf], Or.inl rfl⟩
      · rw [rx x h1 h2] at hx
        obtain ⟨u, k1, k2⟩ := h.q3 x g hx
        have hg : g ≠ f := by intro he; subst he; rw [hlf] at k1; cases k1
        refine ⟨u, by show (R g).looked = some u; rw [el g hg]; exact k1, ?_⟩
        rcases k2 with k2 | k2
        · exact Or.inl k2
        · right; show (R x).looked = some u; rw [el x h1]; exact k2
  · intro g u hlk hfo hto
    have hlk : (R g).looked = some u := hlk
    have hfo : g ∈ out s := hfo
    have hto : u ∈ out s := hto
    show Before (out s) u g
    by_cases hg : g = f
    · subst hg
      have := rs_of_out s hO g hfo
      rw [he3.1] at this; cases this
    · rw [el g hg] at hlk
      exact h.ord g u hlk hfo hto

end G9.Life

namespace G9.Life

theorem linkPrev_looked (g : Nat → Req) (hd : Option Nat) (r x : Nat) : (linkPrev g hd r x).looked = (g x).looked := by
  unfold linkPrev
  cases hd with
  | none => rfl
  | some h =>
    by_cases hx : x = h
    · subst hx; simp
    · simp [upd, hx]

/-- a request is received -/
theorem fi_recv (s : LS) (h : FI s) (hR : Ref s) (hB : Bd s) (hd : Option Nat) (vnew : Req) (c' : Nat → List Nat)
    (hl : vnew.looked = none) (hf : vnew.flushreq = none) (hr : vnew.rs = false)
    (hw : vnew.wpc = .start ∨ vnew.wpc = .queued) :
    FI { s with n := s.n + 1, req := upd (linkPrev s.req hd s.n) s.n vnew, chain := c' } := by
  generalize hRq : upd (linkPrev s.req hd s.n) s.n vnew = R
  have rn : R s.n = vnew := by rw [← hRq]; simp
  have rx : ∀ x, x ≠ s.n → (R x).oldtag = (s.req x).oldtag ∧ (R x).looked = (s.req x).looked ∧
      (R x).flushreq = (s.req x).flushreq ∧ (R x).rs = (s.req x).rs ∧ (R x).wpc = (s.req x).wpc := by
    intro x hx
    rw [← hRq, upd_other _ _ _ _ hx]
    have := linkPrev_same s.req hd s.n x
    exact ⟨this.2.2.2.2.2.1, linkPrev_looked _ _ _ _, this.1, this.2.2.1, this.2.1⟩
  have enf : ∀ x, x < s.n → (NoFuture { s with n := s.n + 1, req := R, chain := c' } x ↔ NoFuture s x) := by
    intro x hx
    unfold NoFuture winners
    show (R x).rs = true ∧ _ ↔ _
    rw [(rx x (Nat.ne_of_lt hx)).2.2.2.1]
  have efl : ∀ x, x ≠ s.n → (isFl { s with n := s.n + 1, req := R, chain := c' } x ↔ isFl s x) := by
    intro x hx; unfold isFl; show (R x).oldtag ≠ none ↔ _; rw [(rx x hx).1]
  constructor
  · intro f t hlk
    have hlk : (R f).looked = some t := hlk
    have hfn : f ≠ s.n := by intro he; subst he; rw [rn, hl] at hlk; cases hlk
    rw [(rx f hfn).2.1] at hlk
    obtain ⟨h1, h2, h3, h4⟩ := h.lkw f t hlk
    have htn : t ≠ s.n := Nat.ne_of_lt h3
    exact ⟨(efl f hfn).mpr h1, fun hh => h2 ((efl t htn).mp hh), Nat.lt_succ_of_lt h3,
      by show afterLookup t (R f).wpc; rw [(rx f hfn).2.2.2.2]; exact h4⟩
  · intro f t ht
    have ht : tgtOf (R f).wpc = some t := ht
    show (R f).looked = some t
    by_cases hfn : f = s.n
    · subst hfn
      rw [rn] at ht
      rcases hw with hw | hw <;> rw [hw] at ht <;> simp [tgtOf] at ht
    · rw [(rx f hfn).2.2.2.2] at ht; rw [(rx f hfn).2.1]; exact h.wlk f t ht
  · intro x hx
    have hx : x ∈ s.implLog := hx
    have hxn := (h.il x hx).1
    exact ⟨Nat.lt_succ_of_lt hxn, fun hh => (h.il x hx).2 ((efl x (Nat.ne_of_lt hxn)).mp hh)⟩
  · intro f hfl hlk hw1 hw2
    by_cases hfn : f = s.n
    · subst hfn
      refine ⟨by show (R s.n).rs = false; rw [rn]; exact hr, fun it hit he => ?_⟩
      have := hR.1 it hit
      omega
    · have hlk : (R f).looked = none := hlk
      have hw1 : (R f).wpc ≠ .tail := hw1
      have hw2 : (R f).wpc ≠ .ended := hw2
      rw [(rx f hfn).2.1] at hlk; rw [(rx f hfn).2.2.2.2] at hw1 hw2
      have := h.e3 f ((efl f hfn).mp hfl) hlk hw1 hw2
      exact ⟨by show (R f).rs = false; rw [(rx f hfn).2.2.2.1]; exact this.1, this.2⟩
  · intro it hit hpc
    exact (enf _ (hR.1 it hit)).mpr (h.w1 it hit hpc)
  · intro f t hlk hc
    have hlk : (R f).looked = some t := hlk
    have hfn : f ≠ s.n := by intro he; subst he; rw [rn, hl] at hlk; cases hlk
    rw [(rx f hfn).2.1] at hlk
    have htn := (h.lkw f t hlk).2.2.1
    refine (enf t htn).mpr (h.z f t hlk ?_)
    rcases hc with hc | hc
    · left; have hc : (R f).rs = true := hc; rw [(rx f hfn).2.2.2.1] at hc; exact hc
    · exact Or.inr hc
  · intro it hit f hc
    obtain ⟨t, h1, h2⟩ := h.q2 it hit f hc
    have hfn : f ≠ s.n := Nat.ne_of_lt (hB.fls it hit f hc)
    exact ⟨t, by show (R f).looked = some t; rw [(rx f hfn).2.1]; exact h1, (enf t (h.lkw f t h1).2.2.1).mpr h2⟩
  · intro x f hx
    have hx : (R x).flushreq = some f := hx
    have hxn : x ≠ s.n := by intro he; subst he; rw [rn, hf] at hx; cases hx
    rw [(rx x hxn).2.2.1] at hx
    obtain ⟨t, h1, h2⟩ := h.q3 x f hx
    have hfn : f ≠ s.n := Nat.ne_of_lt (hB.fq x f hx)
    refine ⟨t, by show (R f).looked = some t; rw [(rx f hfn).2.1]; exact h1, ?_⟩
    rcases h2 with h2 | h2
    · exact Or.inl h2
    · right; show (R x).looked = some t; rw [(rx x hxn).2.1]; exact h2
  · intro f t hlk hfo hto
    have hlk : (R f).looked = some t := hlk
    have hfn : f ≠ s.n := by intro he; subst he; rw [rn, hl] at hlk; cases hlk
    rw [(rx f hfn).2.1] at hlk
    exact h.ord f t hlk hfo hto

end G9.Life

namespace G9.Life

theorem fi_il (s : LS) (h : FI s) (r : Nat) (hr : r < s.n) (hn : ¬ isFl s r) :
    FI { s with implLog := s.implLog ++ [r] } := by
  constructor
  · exact h.lkw
  · exact h.wlk
  · intro x hx
    rcases List.mem_append.mp hx with h1 | h1
    · exact h.il x h1
    · simp at h1; subst h1; exact ⟨hr, hn⟩
  · exact h.e3
  · exact h.w1
  · exact h.z
  · exact h.q2
  · exact h.q3
  · exact h.ord

theorem ref_req (s : LS) (hR : Ref s) (R : Nat → Req) : Ref { s with req := R } := hR

/-- a call of Respond is started on `x`, which is not a Tflush that has found a target -/
theorem fi_add (s : LS) (h : FI s) (hR : Ref s) (x : Nat) (hl : (s.req x).looked = none)
    (hw : isFl s x → (s.req x).wpc = .tail ∨ (s.req x).wpc = .ended) :
    FI { s with insts := s.insts ++ [{ rid := x }] } := by
  have hnf : ∀ y, y < s.n → NoFuture s y → NoFuture { s with insts := s.insts ++ [{ rid := x }] } y := by
    intro y _ hy
    exact ⟨hy.1, by rw [winners_new s _ x rfl y]; exact hy.2⟩
  refine fi_insts s _ h rfl rfl (fun r hr => Or.inl hr) rfl hnf ?_
  intro it' hit'
  rcases List.mem_append.mp hit' with h1 | h1
  · exact instOK_old s _ h hR hnf it' h1
  · simp at h1; subst h1
    refine ⟨fun hl' => ?_, ?_, Or.inr ⟨fun t ht => ?_, fun hf _ => hw hf⟩⟩
    · rcases hl' with h2 | h2 | h2 <;> cases h2
    · intro f hf; cases hf
    · have ht : (s.req x).looked = some t := ht
      rw [hl] at ht; cases ht

/-- one call of Respond moves on -/
theorem fi_setI (s s' : LS) (h : FI s) (hR : Ref s) (l : List Inst) (i : Nat) (it v : Inst)
    (hreq : s'.req = s.req) (hn : s'.n = s.n) (hil : s'.implLog = s.implLog) (hout : out s' = out s)
    (hi : s'.insts = setInst l i v) (hit : it ∈ s.insts) (hrid : v.rid = it.rid)
    (hl : ∀ x ∈ l, x ∈ s.insts ∨ InstOK s s' x)
    (hnf : ∀ x, x < s.n → NoFuture s x → NoFuture s' x)
    (hlate : late v.pc → NoFuture s' it.rid)
    (hcur : ∀ f, v.cur = some f → ∃ t, (s.req f).looked = some t ∧ NoFuture s' t) : FI s' := by
  refine fi_insts s s' h hreq hn (fun r hr => Or.inl (by rw [hil] at hr; exact hr)) hout hnf ?_
  intro it' hit'
  rw [hi] at hit'
  rcases mem_setInst _ _ _ _ hit' with rfl | h1
  · exact ⟨fun hh => by rw [hrid]; exact hlate hh, hcur, Or.inl ⟨it, hit, hrid.symm⟩⟩
  · rcases hl it' h1 with h2 | h2
    · exact instOK_old s s' h hR hnf it' h2
    · exact h2

end G9.Life

namespace G9.Life

theorem notAfter_start (t : Nat) : ¬ afterLookup t .start := fun h => h
theorem notAfter_queued (t : Nat) : ¬ afterLookup t .queued := fun h => h
theorem notAfter_checked (t : Nat) (b : Bool) : ¬ afterLookup t (.checked b) := fun h => h
theorem notAfter_fl0 (t : Nat) : ¬ afterLookup t .fl0 := fun h => h
theorem notAfter_inImpl (t : Nat) : ¬ afterLookup t .inImpl := fun h => h
theorem notAfter_fl1none (t : Nat) : ¬ afterLookup t (.fl1 none) := fun h => h

theorem fi_step_worker (s s' : LS) (e : Ev) (hI : Inv s) (h : FI s) (ht : s.tame e = true) (hs : s.step e = some s')
    (he : match e with
      | .mark _ | .post _ | .queue _ | .unlink _ | .next _ | .flushes _ => False
      | _ => True) : FI s' := by
  obtain ⟨⟨hR, hO⟩, hB⟩ := hI
  cases e with
  | recv tag oldtag =>
    simp only [LS.step] at hs
    split at hs
    · cases hs
    · cases hs
      exact fi_recv s h hR hB _ _ _ rfl rfl rfl (by split <;> simp)
  | check r =>
    simp only [LS.step] at hs
    split at hs
    · rename_i hg
      cases hs
      have hl := lk_none_of_wpc s h r (by intro t; rw [hg.2]; exact notAfter_start t)
      exact fi_wpc s h r _ rfl rfl rfl rfl (by intro t h1; rw [hl] at h1; cases h1) (by intro t h1; cases h1)
        (by rw [hg.2]; intro h1; rcases h1 with h1 | h1 <;> cases h1)
    · cases hs
  | dispatch r =>
    simp only [LS.step] at hs
    split at hs
    · rename_i hg
      have hl := lk_none_of_wpc s h r (by intro t; rw [hg.2]; exact notAfter_checked t false)
      split at hs
      · rename_i hot
        cases hs
        have h1 := fi_wpc s h r { s.req r with wpc := .inImpl } rfl rfl rfl rfl
          (by intro t h1; rw [hl] at h1; cases h1) (by intro t h1; cases h1)
          (by rw [hg.2]; intro h1; rcases h1 with h1 | h1 <;> cases h1)
        refine fi_il _ h1 r hg.1 ?_
        intro hh
        have hh : (upd s.req r { s.req r with wpc := .inImpl } r).oldtag ≠ none := hh
        simp [hot] at hh
      · cases hs
        exact fi_wpc s h r _ rfl rfl rfl rfl (by intro t h1; rw [hl] at h1; cases h1) (by intro t h1; cases h1)
          (by rw [hg.2]; intro h1; rcases h1 with h1 | h1 <;> cases h1)
    · cases hs
  | implReturn r =>
    simp only [LS.step] at hs
    split at hs
    · rename_i hg
      cases hs
      have hl := lk_none_of_wpc s h r (by intro t; rw [hg.2]; exact notAfter_inImpl t)
      exact fi_wpc s h r _ rfl rfl rfl rfl (by intro t h1; rw [hl] at h1; cases h1) (by intro t h1; cases h1)
        (by intro _; exact Or.inl rfl)
    · cases hs
  | procEnd r =>
    simp only [LS.step] at hs
    split at hs
    · cases hs
      exact fi_wpc s h r _ rfl rfl rfl rfl (by intro t _; trivial) (by intro t h1; cases h1)
        (by intro _; exact Or.inr rfl)
    · cases hs
  | answer r =>
    simp only [LS.step] at hs
    split at hs
    · rename_i hg
      cases hs
      have hn := (h.il r hg.2).2
      exact fi_add s h hR r (lk_none_of_notfl s h r hn) (fun hh => absurd hh hn)
    · cases hs
  | implFlush r =>
    simp only [LS.step] at hs
    split at hs
    · rename_i hg
      cases hs
      have hn := (h.il r hg.2).2
      have hl := lk_none_of_notfl s h r hn
      have h1 := fi_wpc s h r { s.req r with fl := true } rfl rfl rfl rfl
        (by intro t h1; rw [hl] at h1; cases h1) (by intro t h1; exact h.wlk r t h1) (by intro h1; exact h1)
      refine fi_add _ h1 (ref_req s hR _) r ?_ ?_
      · show (upd s.req r { s.req r with fl := true } r).looked = none
        simp [hl]
      · intro hh
        have hh : (upd s.req r { s.req r with fl := true } r).oldtag ≠ none := hh
        simp at hh
        exact absurd hh hn
    · cases hs
  | selfRespond r =>
    simp only [LS.step] at hs
    split at hs
    · rename_i hg
      cases hs
      have hl := lk_none_of_wpc s h r (by intro t; rw [hg.2]; exact notAfter_checked t true)
      have h1 := fi_wpc s h r { s.req r with wpc := .ended } rfl rfl rfl rfl
        (by intro t _; trivial) (by intro t h1; cases h1) (by intro _; exact Or.inr rfl)
      refine fi_add _ h1 (ref_req s hR _) r ?_ ?_
      · show (upd s.req r { s.req r with wpc := .ended } r).looked = none
        simp [hl]
      · intro _
        right
        show (upd s.req r { s.req r with wpc := .ended } r).wpc = .ended
        simp
    · cases hs
  | send =>
    simp only [LS.step] at hs
    split at hs
    · cases hs
    · rename_i r0 rest hro
      split at hs
      · cases hs
      · cases hs
        refine fi_insts s _ h rfl rfl (fun r hr => Or.inl hr) ?_ (fun x _ hx => hx) ?_
        · unfold out; rw [hro]; simp
        · intro it' hit'
          exact instOK_old s _ h hR (fun x _ hx => hx) it' hit'
  | close =>
    simp only [LS.step] at hs
    split at hs
    · cases hs
    · cases hs
      refine fi_insts s _ h rfl rfl (fun r hr => Or.inl hr) rfl (fun x _ hx => hx) ?_
      intro it' hit'
      exact instOK_old s _ h hR (fun x _ hx => hx) it' hit'
  | flushLookup f =>
    simp only [LS.step] at hs
    split at hs
    · rename_i hg
      have hl := lk_none_of_wpc s h f (by intro t; rw [hg.2]; exact notAfter_fl0 t)
      split at hs
      · cases hs
      · rename_i ot hot
        have hff : isFl s f := by unfold isFl; rw [hot]; intro h1; cases h1
        split at hs
        · cases hs
          exact fi_wpc s h f _ rfl rfl rfl rfl (by intro t h1; rw [hl] at h1; cases h1) (by intro t h1; cases h1)
            (by rw [hg.2]; intro h1; rcases h1 with h1 | h1 <;> cases h1)
        · rename_i t hhd0
          have hhd := (lookupTarget_some hhd0).1
          cases hs
          have htn : t < s.n := hB.ch ot t (List.mem_of_mem_head? hhd)
          have htf : ¬ isFl s t := by
            simp only [LS.tame, hot, hhd0] at ht
            unfold isFl
            intro h1
            cases hq : (s.req t).oldtag with
            | none => exact h1 hq
            | some x => rw [hq] at ht; cases ht
          exact fi_lookup s h hO f t hg.2 hff htn htf
    · cases hs
  | flushMark f =>
    simp only [LS.step] at hs
    split at hs
    · split at hs
      · rename_i t hw
        cases hs
        have hlf : (s.req f).looked = some t := h.wlk f t (by rw [hw]; rfl)
        have hk := h.lkw f t hlf
        have hft : f ≠ t := by intro he; subst he; exact hk.2.1 hk.1
        -- the target's flush bit (and ghost) change: nothing the bookkeeping reads
        have h1 := fi_wpc s h t
          { s.req t with fl := if (!((s.req t).wk || (s.req t).sv)) = true then true else (s.req t).fl,
                         noRun := (s.req t).noRun || (!((s.req t).wk || (s.req t).sv) &&
                            (decide ((s.req t).wpc = .queued) || decide ((s.req t).wpc = .start))) }
          rfl rfl rfl rfl (by intro u h2; exact (h.lkw t u h2).2.2.2) (by intro u h2; exact h.wlk t u h2) (by intro h2; exact h2)
        refine fi_wpc _ h1 f _ rfl rfl rfl rfl ?_ ?_ ?_
        · intro u h2
          have h2 : (upd s.req t _ f).looked = some u := h2
          rw [upd_other _ _ _ _ hft, hlf] at h2
          cases h2
          exact rfl
        · intro u h2
          have h2 : u = t := by simp [tgtOf] at h2; exact h2.symm
          subst h2
          show (upd s.req u _ f).looked = some u
          rw [upd_other _ _ _ _ hft]; exact hlf
        · intro h2
          have h2 : (upd s.req t _ f).wpc = .tail ∨ (upd s.req t _ f).wpc = .ended := h2
          rw [upd_other _ _ _ _ hft, hw] at h2
          rcases h2 with h2 | h2 <;> cases h2
      · cases hs
    · cases hs
  | flushAct f =>
    simp only [LS.step] at hs
    split at hs
    · rename_i hg
      split at hs
      · rename_i hw
        cases hs
        have hl := lk_none_of_wpc s h f (by intro t; rw [hw]; exact notAfter_fl1none t)
        have h1 := fi_wpc s h f { s.req f with wpc := .tail } rfl rfl rfl rfl
          (by intro t _; trivial) (by intro t h1; cases h1) (by intro _; exact Or.inl rfl)
        refine fi_add _ h1 (ref_req s hR _) f ?_ ?_
        · show (upd s.req f { s.req f with wpc := .tail } f).looked = none
          simp [hl]
        · intro _
          left
          show (upd s.req f { s.req f with wpc := .tail } f).wpc = .tail
          simp
      · rename_i t hw
        cases hs
        have hlf : (s.req f).looked = some t := h.wlk f t (by rw [hw]; rfl)
        have hk := h.lkw f t hlf
        have hft : f ≠ t := by intro he; subst he; exact hk.2.1 hk.1
        have h1 := fi_wpc s h f { s.req f with wpc := .tail } rfl rfl rfl rfl
          (by intro t _; trivial) (by intro t h1; cases h1) (by intro _; exact Or.inl rfl)
        refine fi_add _ h1 (ref_req s hR _) t ?_ ?_
        · show (upd s.req f { s.req f with wpc := .tail } t).looked = none
          rw [upd_other _ _ _ _ (fun he => hft he.symm)]
          exact lk_none_of_notfl s h t hk.2.1
        · intro hh
          have hh : (upd s.req f { s.req f with wpc := .tail } t).oldtag ≠ none := hh
          rw [upd_other _ _ _ _ (fun he => hft he.symm)] at hh
          exact absurd hh hk.2.1
      · cases hs
        exact fi_wpc s h f _ rfl rfl rfl rfl (by intro t _; trivial) (by intro t h1; cases h1) (by intro _; exact Or.inl rfl)
      · cases hs
    · cases hs
  | mark i => exact absurd he (by simp)
  | post i => exact absurd he (by simp)
  | queue i => exact absurd he (by simp)
  | unlink i => exact absurd he (by simp)
  | next i => exact absurd he (by simp)
  | flushes i => exact absurd he (by simp)

end G9.Life

namespace G9.Life

theorem mem_setInst_self (l : List Inst) (i : Nat) (it v : Inst) (h : l[i]? = some it) : v ∈ setInst l i v := by
  unfold setInst
  have hl : i < l.length := (List.getElem?_eq_some_iff.mp h).1
  exact List.mem_iff_getElem?.mpr ⟨i, by simp [hl]⟩

theorem winner_pos (l : List Inst) (i : Nat) (it : Inst) (r : Nat) (h : l[i]? = some it) (hw : win r it = true) :
    1 ≤ l.countP (win r) := by
  have : it ∈ l := List.mem_of_getElem? h
  exact List.countP_pos_iff.mpr ⟨it, this, hw⟩

theorem fi_step_inst (s s' : LS) (e : Ev) (hI : Inv s) (h : FI s) (ht : s.tame e = true) (hs : s.step e = some s')
    (he : match e with
      | .mark _ | .post _ | .queue _ | .unlink _ | .next _ | .flushes _ => True
      | _ => False) : FI s' := by
  have hI' := inv_step s s' e hI hs
  have hnf : ∀ x, x < s.n → NoFuture s x → NoFuture s' x := fun x hx hh => nf_step s s' e hs x hx hh
  obtain ⟨⟨hR, hO⟩, hB⟩ := hI
  cases e with
  | post i =>
    simp only [LS.step] at hs
    split at hs
    · rename_i it hit
      split at hs
      · rename_i hpc
        cases hs
        refine fi_setI s _ h hR s.insts i it _ rfl rfl rfl rfl rfl (List.mem_of_getElem? hit) rfl
          (fun x hx => Or.inl hx) hnf ?_ ?_
        · intro hl; rcases hl with h1 | h1 | h1 <;> cases h1
        · intro f hf
          obtain ⟨t, h1, h2⟩ := h.q2 it (List.mem_of_getElem? hit) f hf
          exact ⟨t, h1, hnf t (h.lkw f t h1).2.2.1 h2⟩
      · cases hs
    · cases hs
  | mark i =>
    simp only [LS.step] at hs
    split at hs
    · rename_i it hit
      have hmem := List.mem_of_getElem? hit
      have hcur : ∀ (s1 : LS), (∀ x, x < s.n → NoFuture s x → NoFuture s1 x) → ∀ f, it.cur = some f →
          ∃ t, (s.req f).looked = some t ∧ NoFuture s1 t := by
        intro s1 hn1 f hf
        obtain ⟨t, h1, h2⟩ := h.q2 it hmem f hf
        exact ⟨t, h1, hn1 t (h.lkw f t h1).2.2.1 h2⟩
      split at hs
      · rename_i hpc
        split at hs
        · -- the request was answered before: this call ends here
          cases hs
          have hn1 : ∀ x, x < s.n → NoFuture s x →
              NoFuture { s with insts := setInst s.insts i { it with pc := .done } } x := by
            intro x _ hx
            exact nf_set s _ x hx s.insts (fun _ => rfl) i it _ hit rfl (by simp [win]) (fun h => h)
          have h1 : FI { s with insts := setInst s.insts i { it with pc := .done } } :=
            fi_setI s _ h hR s.insts i it _ rfl rfl rfl rfl rfl hmem rfl (fun x hx => Or.inl hx) hn1
              (by intro hl; rcases hl with h1 | h1 | h1 <;> cases h1) (hcur _ hn1)
          exact (fi_rs _ h1 it.rid { s.req it.rid with rs := true, wk := false }
            ⟨_, mem_setInst_self _ _ _ _ hit, rfl⟩ rfl rfl rfl rfl rfl).1
        · rename_i hrs
          cases hs
          have hn1 : ∀ x, x < s.n → NoFuture s x →
              NoFuture { s with insts := setInst s.insts i { it with pc := .post, oldFl := (s.req it.rid).fl } } x := by
            intro x _ hx
            have hne : it.rid ≠ x := by intro he; subst he; exact hrs hx.1
            exact nf_set s _ x hx s.insts (fun _ => rfl) i it _ hit rfl (by simp [win, hne]) (fun h => h)
          have h1 : FI { s with insts := setInst s.insts i { it with pc := .post, oldFl := (s.req it.rid).fl } } :=
            fi_setI s _ h hR s.insts i it _ rfl rfl rfl rfl rfl hmem rfl (fun x hx => Or.inl hx) hn1
              (by intro hl; rcases hl with h1 | h1 | h1 <;> cases h1) (hcur _ hn1)
          exact (fi_rs _ h1 it.rid { s.req it.rid with rs := true, wk := false }
            ⟨_, mem_setInst_self _ _ _ _ hit, rfl⟩ rfl rfl rfl rfl rfl).1
      · cases hs
    · cases hs
  | queue i =>
    simp only [LS.step] at hs
    split at hs
    · rename_i it hit
      have hmem := List.mem_of_getElem? hit
      have hlt : it.rid < s.n := hR.1 it hmem
      split at hs
      · rename_i hpc
        have hwin : 1 ≤ winners s it.rid := winner_pos s.insts i it it.rid hit (by simp [win, hpc])
        have hrs : (s.req it.rid).rs = true := (hO it.rid).2 (by omega)
        have hcur : ∀ f, it.cur = some f → ∃ t, (s.req f).looked = some t ∧ NoFuture s' t := by
          intro f hf
          obtain ⟨t, h1, h2⟩ := h.q2 it hmem f hf
          exact ⟨t, h1, hnf t (h.lkw f t h1).2.2.1 h2⟩
        split at hs
        · -- cancelled or disconnected: nothing is queued
          cases hs
          refine fi_setI s _ h hR s.insts i it _ rfl rfl rfl rfl rfl hmem rfl (fun x hx => Or.inl hx) hnf ?_ hcur
          intro _
          refine ⟨hrs, ?_⟩
          have hw := winners_set s { s with insts := setInst s.insts i { it with pc := .unlink } } s.insts (fun _ => rfl)
            i it { it with pc := .unlink } hit rfl it.rid
          have h1 : win it.rid it = true := by simp [win, hpc]
          have h2 : win it.rid { it with pc := .unlink } = false := by simp [win]
          rw [if_pos h1, h2] at hw
          have := (hO it.rid).1
          simp at hw
          omega
        · split at hs
          · cases hs
            have h1 : FI { s with reqout := s.reqout ++ [it.rid] } := fi_push s h hO it.rid hwin
            have hR1 : Ref { s with reqout := s.reqout ++ [it.rid] } := by
              refine ⟨hR.1, fun r hr => ?_⟩
              have hr : r ∈ (s.reqout ++ [it.rid]) ++ s.wire := hr
              simp only [List.mem_append, List.mem_singleton] at hr
              rcases hr with (h2 | h2) | h2
              · exact hR.2 r (List.mem_append.mpr (Or.inl h2))
              · rw [h2]; exact hlt
              · exact hR.2 r (List.mem_append.mpr (Or.inr h2))
            refine fi_setI _ _ h1 hR1 s.insts i it _ rfl rfl rfl rfl rfl hmem rfl (fun x hx => Or.inl hx)
              (fun x hx hh => hnf x hx hh) ?_ hcur
            intro _
            refine ⟨hrs, ?_⟩
            have := (hI'.1.2 it.rid).1
            have hs1 : 1 ≤ sent { s with reqout := s.reqout ++ [it.rid], insts := setInst s.insts i { it with pc := .unlink } } it.rid := by
              unfold sent
              apply List.count_pos_iff.mpr
              simp
            omega
          · cases hs
      · cases hs
    · cases hs
  | unlink i =>
    simp only [LS.step] at hs
    split at hs
    · rename_i it hit
      have hmem := List.mem_of_getElem? hit
      split at hs
      · rename_i hpc
        have hlate : NoFuture s' it.rid := hnf _ (hR.1 it hmem) (h.w1 it hmem (Or.inl hpc))
        split at hs
        · rename_i od hod
          exfalso
          simp [LS.tame, hit, hod] at ht
        · rename_i hod
          split at hs
          · cases hs
            refine fi_setI s _ h hR s.insts i it _ rfl rfl rfl rfl rfl hmem rfl (fun x hx => Or.inl hx) hnf
              (fun _ => hlate) ?_
            intro f hf
            have hf : (s.req it.rid).flushreq = some f := hf
            obtain ⟨t, h1, h2⟩ := h.q3 it.rid f hf
            refine ⟨t, h1, hnf t (h.lkw f t h1).2.2.1 ?_⟩
            rcases h2 with h2 | h2
            · rw [← h2]; exact h.w1 it hmem (Or.inl hpc)
            · exact h.z it.rid t h2 (Or.inr ⟨it, hmem, rfl⟩)
          · rename_i m hprev
            split at hs
            · cases hs
              refine fi_setI s _ h hR s.insts i it _ rfl rfl rfl rfl rfl hmem rfl (fun x hx => Or.inl hx) hnf
                (fun _ => hlate) ?_
              intro f hf; cases hf
            · rename_i fr hfr
              exfalso
              simp [LS.tame, hit, hprev, hfr, hod] at ht
      · cases hs
    · cases hs
  | next i =>
    simp only [LS.step] at hs
    split at hs
    · rename_i it hit
      have hmem := List.mem_of_getElem? hit
      split at hs
      · rename_i hpc
        have hn1 : ∀ x, x < s.n → NoFuture s x →
            NoFuture { s with insts := setInst s.insts i { it with pc := .flushes } } x := by
          intro x _ hx
          exact nf_set s _ x hx s.insts (fun _ => rfl) i it _ hit rfl (by simp [win]) (fun h => h)
        have h1 : FI { s with insts := setInst s.insts i { it with pc := .flushes } } := by
          refine fi_setI s _ h hR s.insts i it _ rfl rfl rfl rfl rfl hmem rfl (fun x hx => Or.inl hx) hn1 ?_ ?_
          · intro _; exact hn1 _ (hR.1 it hmem) (h.w1 it hmem (Or.inr (Or.inl hpc)))
          · intro f hf
            obtain ⟨t, k1, k2⟩ := h.q2 it hmem f hf
            exact ⟨t, k1, hn1 t (h.lkw f t k1).2.2.1 k2⟩
        split at hs
        · cases hs; exact h1
        · rename_i m hnxt
          cases hs
          have hq : (s.req m).wpc = .queued := by
            simp only [LS.tame, hit, hnxt] at ht
            cases hw : (s.req m).wpc <;> rw [hw] at ht <;> first | rfl | cases ht
          have hl := lk_none_of_wpc s h m (by intro t; rw [hq]; exact notAfter_queued t)
          exact fi_wpc _ h1 m { s.req m with wpc := .start } rfl rfl rfl rfl
            (by intro t k1; have k1 : (s.req m).looked = some t := k1; rw [hl] at k1; cases k1)
            (by intro t k1; cases k1)
            (by intro k1; have k1 : (s.req m).wpc = .tail ∨ (s.req m).wpc = .ended := k1
                rw [hq] at k1; rcases k1 with k1 | k1 <;> cases k1)
      · cases hs
    · cases hs
  | flushes i =>
    simp only [LS.step] at hs
    split at hs
    · rename_i it hit
      have hmem := List.mem_of_getElem? hit
      split at hs
      · rename_i hpc
        have hlate : NoFuture s' it.rid := hnf _ (hR.1 it hmem) (h.w1 it hmem (Or.inr (Or.inr hpc)))
        split at hs
        · cases hs
          refine fi_setI s _ h hR s.insts i it _ rfl rfl rfl rfl rfl hmem rfl (fun x hx => Or.inl hx) hnf
            (fun _ => hlate) ?_
          intro f hf
          obtain ⟨t, k1, k2⟩ := h.q2 it hmem f hf
          exact ⟨t, k1, hnf t (h.lkw f t k1).2.2.1 k2⟩
        · rename_i f hcur
          obtain ⟨t, k1, k2⟩ := h.q2 it hmem f hcur
          have kf := h.lkw f t k1
          split at hs
          · -- freq = freq.flushreq
            cases hs
            refine fi_setI s _ h hR s.insts i it _ rfl rfl rfl rfl rfl hmem rfl (fun x hx => Or.inl hx) hnf
              (fun _ => hlate) ?_
            intro f' hf'
            have hf' : (s.req f).flushreq = some f' := hf'
            obtain ⟨t', j1, j2⟩ := h.q3 f f' hf'
            refine ⟨t', j1, ?_⟩
            rcases j2 with j2 | j2
            · exfalso
              have := (h.lkw f' t' j1).2.1
              rw [← j2] at this
              exact this kf.1
            · rw [k1] at j2
              have : t = t' := by cases j2; rfl
              subst this
              exact hnf t kf.2.2.1 k2
          · -- freq.Respond()
            cases hs
            refine fi_setI s _ h hR (s.insts ++ [{ rid := f }]) i it { it with sp := true } rfl rfl rfl rfl rfl hmem rfl ?_ hnf
              (fun _ => hlate) ?_
            · intro x hx
              rcases List.mem_append.mp hx with h1 | h1
              · exact Or.inl h1
              · right
                simp at h1; subst h1
                refine ⟨fun hl' => ?_, ?_, Or.inr ⟨fun u hu => ?_, fun _ hl' => ?_⟩⟩
                · rcases hl' with h2 | h2 | h2 <;> cases h2
                · intro g hg; cases hg
                · have hu : (s.req f).looked = some u := hu
                  rw [k1] at hu
                  have : t = u := by cases hu; rfl
                  subst this
                  exact hnf t kf.2.2.1 k2
                · have hl' : (s.req f).looked = none := hl'
                  rw [k1] at hl'; cases hl'
            · intro g hg
              have hg : it.cur = some g := hg
              obtain ⟨u, j1, j2⟩ := h.q2 it hmem g hg
              exact ⟨u, j1, hnf u (h.lkw g u j1).2.2.1 j2⟩
      · cases hs
    · cases hs
  | _ => exact absurd he (by simp)

end G9.Life

namespace G9.Life

theorem fi_step (s s' : LS) (e : Ev) (hI : Inv s) (h : FI s) (ht : s.tame e = true) (hs : s.step e = some s') : FI s' := by
  cases e with
  | mark i => exact fi_step_inst s s' _ hI h ht hs trivial
  | post i => exact fi_step_inst s s' _ hI h ht hs trivial
  | queue i => exact fi_step_inst s s' _ hI h ht hs trivial
  | unlink i => exact fi_step_inst s s' _ hI h ht hs trivial
  | next i => exact fi_step_inst s s' _ hI h ht hs trivial
  | flushes i => exact fi_step_inst s s' _ hI h ht hs trivial
  | recv a b => exact fi_step_worker s s' _ hI h ht hs trivial
  | check r => exact fi_step_worker s s' _ hI h ht hs trivial
  | dispatch r => exact fi_step_worker s s' _ hI h ht hs trivial
  | selfRespond r => exact fi_step_worker s s' _ hI h ht hs trivial
  | answer r => exact fi_step_worker s s' _ hI h ht hs trivial
  | implFlush r => exact fi_step_worker s s' _ hI h ht hs trivial
  | implReturn r => exact fi_step_worker s s' _ hI h ht hs trivial
  | procEnd r => exact fi_step_worker s s' _ hI h ht hs trivial
  | flushLookup f => exact fi_step_worker s s' _ hI h ht hs trivial
  | flushMark f => exact fi_step_worker s s' _ hI h ht hs trivial
  | flushAct f => exact fi_step_worker s s' _ hI h ht hs trivial
  | send => exact fi_step_worker s s' _ hI h ht hs trivial
  | close => exact fi_step_worker s s' _ hI h ht hs trivial

theorem fi_runT : ∀ (es : List Ev) (s s' : LS), Inv s → FI s → s.runT es = some s' → Inv s' ∧ FI s'
  | [], s, s', hI, h, hr => by simp [LS.runT] at hr; subst hr; exact ⟨hI, h⟩
  | e :: es, s, s', hI, h, hr => by
    simp only [LS.runT] at hr
    split at hr
    · rename_i ht
      cases hs : s.step e with
      | none => rw [hs] at hr; cases hr
      | some s1 =>
        rw [hs] at hr
        exact fi_runT es s1 s' (inv_step s s1 e hI hs) (fi_step s s1 e hI h ht hs) hr
    · cases hr

/-- a tame schedule is a schedule -/
theorem runT_run : ∀ (es : List Ev) (s s' : LS), s.runT es = some s' → s.run es = some s'
  | [], s, s', hr => by simpa [LS.runT, LS.run] using hr
  | e :: es, s, s', hr => by
    simp only [LS.runT] at hr
    split at hr
    · cases hs : s.step e with
      | none => rw [hs] at hr; cases hr
      | some s1 =>
        rw [hs] at hr
        simp only [LS.run, hs, Option.bind_some]
        exact runT_run es s1 s' hr
    · cases hr

/-- once nothing of `t` can be queued any more, no step queues it -/
theorem out_step_nf (s s' : LS) (e : Ev) (hO : Once s) (hs : s.step e = some s') (t : Nat) (h : NoFuture s t)
    (hm : t ∈ out s') : t ∈ out s := by
  cases e with
  | queue i =>
    simp only [LS.step] at hs
    split at hs
    · rename_i it hit
      split at hs
      · rename_i hpc
        split at hs
        · cases hs; exact hm
        · split at hs
          · cases hs
            have hm : t ∈ s.wire ++ (s.reqout ++ [it.rid]) := hm
            simp only [List.mem_append, List.mem_singleton] at hm
            rcases hm with h1 | h1 | h1
            · exact List.mem_append.mpr (Or.inl h1)
            · exact List.mem_append.mpr (Or.inr h1)
            · exfalso
              subst h1
              have := winner_pos s.insts i it it.rid hit (by simp [win, hpc])
              have h0 : winners s it.rid = 0 := h.2
              unfold winners at h0
              omega
          · cases hs
      · cases hs
    · cases hs
  | send =>
    simp only [LS.step] at hs
    split at hs
    · cases hs
    · rename_i r0 rest hro
      split at hs
      · cases hs
      · cases hs
        have hm : t ∈ (s.wire ++ [r0]) ++ rest := hm
        unfold out; rw [hro]
        simp only [List.mem_append, List.mem_cons, List.not_mem_nil, or_false] at hm ⊢
        rcases hm with (h1 | h1) | h1
        · exact Or.inl h1
        · exact Or.inr (Or.inl h1)
        · exact Or.inr (Or.inr h1)
  | _ =>
    simp only [LS.step] at hs
    (repeat' split at hs) <;> first | cases hs | skip
    all_goals exact hm

end G9.Life
