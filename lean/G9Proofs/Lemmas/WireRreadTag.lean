import G9Proofs.Lemmas.WireRread
namespace G9
open Go

theorem setRreadCount_tagBuf (b : Bytes) (tag : UInt16) (n : UInt32) (hb : 11 ≤ b.length)
    (hsz : (4 + 1 + 2 + 4 + n : UInt32).toNat = 11 + n.toNat) :
    Go.setRreadCount (Go.tagBuf b tag) n =
      match Go.setRreadCount b n with
      | .ok p => Go.setTag p tag
      | .err e => .err e
      | .panic => .panic := by
  rcases b with _ | ⟨a0, b⟩; · simp at hb
  rcases b with _ | ⟨a1, b⟩; · simp at hb
  rcases b with _ | ⟨a2, b⟩; · simp at hb
  rcases b with _ | ⟨a3, b⟩; · simp at hb
  rcases b with _ | ⟨a4, b⟩; · simp at hb
  rcases b with _ | ⟨a5, b⟩; · simp at hb
  rcases b with _ | ⟨a6, b⟩; · simp at hb
  rcases b with _ | ⟨a7, b⟩; · simp at hb
  rcases b with _ | ⟨a8, b⟩; · simp at hb
  rcases b with _ | ⟨a9, b⟩; · simp at hb
  rcases b with _ | ⟨a10, b⟩; · simp at hb
  have hlen : (Go.tagBuf (a0 :: a1 :: a2 :: a3 :: a4 :: a5 :: a6 :: a7 :: a8 :: a9 :: a10 :: b) tag).length = b.length + 11 := by
    simp [Go.tagBuf, p16]
  unfold Go.setRreadCount
  simp only [hlen, List.length_cons]
  generalize (4 + 1 + 2 + 4 + n : UInt32) = S at hsz ⊢
  rw [hsz]
  have hl : b.length + 1 + 1 + 1 + 1 + 1 + 1 + 1 + 1 + 1 + 1 + 1 = b.length + 11 := by omega
  simp only [hl]
  by_cases h2 : 11 + n.toNat > b.length + 11
  · simp [h2]
  · have h1 : ¬ b.length + 11 < 11 := by omega
    have h3 : ¬ n.toNat > b.length + 11 - 11 := by omega
    simp only [h1, h2, h3, if_false]
    have e : 11 + n.toNat = n.toNat + 1 + 1 + 1 + 1 + 1 + 1 + 1 + 1 + 1 + 1 + 1 := by omega
    rw [e]
    simp [Go.tagBuf, Go.setTag, p32, p16, List.take_succ_cons]

end G9
