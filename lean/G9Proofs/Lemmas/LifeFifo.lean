import G9Proofs.Lemmas.LifeFlush
namespace G9.Life

/-- a call of Respond that won the test-and-set and has not yet taken its request out of the tag table -/
def won (r : Nat) (it : Inst) : Bool :=
  it.rid == r && (it.pc == .post || it.pc == .queue || it.pc == .unlink)

/-- at most one call of Respond per request ever gets past the test-and-set -/
def W3 (s : LS) : Prop :=
  ∀ r, s.insts.countP (won r) ≤ 1 ∧ (1 ≤ s.insts.countP (won r) → (s.req r).rs = true)

theorem w3_init (cap : Nat) : W3 (LS.init cap) := by intro r; simp [LS.init]

theorem w3_same (s s' : LS) (h : W3 s) (hi : s'.insts = s.insts) (hr : ∀ r, (s.req r).rs = true → (s'.req r).rs = true) :
    W3 s' := by
  intro r; rw [hi]; exact ⟨(h r).1, fun h1 => hr r ((h r).2 h1)⟩

theorem w3_new (s s' : LS) (h : W3 s) (x : Nat) (hi : s'.insts = s.insts ++ [{ rid := x }])
    (hr : ∀ r, (s.req r).rs = true → (s'.req r).rs = true) : W3 s' := by
  intro r
  rw [hi, countP_append_single]
  have : won r ({ rid := x } : Inst) = false := by simp [won]
  simp only [this, Bool.false_eq_true, if_false, Nat.add_zero]
  exact ⟨(h r).1, fun h1 => hr r ((h r).2 h1)⟩

theorem w3_set (s s' : LS) (h : W3 s) (l : List Inst) (hl : ∀ r, l.countP (won r) = s.insts.countP (won r))
    (i : Nat) (it v : Inst) (hit : l[i]? = some it) (hi : s'.insts = setInst l i v)
    (hrs : ∀ r, (s.req r).rs = true → (s'.req r).rs = true)
    (hq : ∀ r, (won r v = true → won r it = true) ∨ ((s.req r).rs = false ∧ (s'.req r).rs = true)) : W3 s' := by
  intro r
  have hw : s'.insts.countP (won r) + (if won r it then 1 else 0) = s.insts.countP (won r) + (if won r v then 1 else 0) := by
    rw [hi, ← hl r]; unfold setInst; exact countP_set _ _ _ _ _ hit
  have ho := h r
  rcases hq r with h1 | ⟨h1, h2⟩
  · by_cases hv : won r v = true
    · rw [if_pos hv, if_pos (h1 hv)] at hw
      exact ⟨by omega, fun h4 => hrs r (ho.2 (by omega))⟩
    · rw [if_neg hv] at hw
      exact ⟨by omega, fun h4 => hrs r (ho.2 (by omega))⟩
  · have h0 : s.insts.countP (won r) = 0 := by
      by_cases h5 : 1 ≤ s.insts.countP (won r)
      · have := ho.2 h5; rw [h1] at this; cases this
      · omega
    have hv1 : (if won r v then 1 else 0) ≤ 1 := by split <;> omega
    exact ⟨by omega, fun _ => h2⟩

theorem won_zero (s : LS) (hR : Ref s) (r : Nat) (hr : s.n ≤ r) : s.insts.countP (won r) = 0 := by
  rw [List.countP_eq_zero]
  intro it hit hw
  have := hR.1 it hit
  simp [won] at hw
  omega

macro "w3_req" h:ident : tactic =>
  `(tactic| (refine w3_same _ _ $h rfl ?_
             intro r h1
             repeat (first | exact h1 | refine rs_upd_keep _ _ _ (by intro h; exact h) r ?_)))

macro "w3_req_new" h:ident : tactic =>
  `(tactic| (refine w3_new _ _ $h _ rfl ?_
             intro r h1
             repeat (first | exact h1 | refine rs_upd_keep _ _ _ (by intro h; exact h) r ?_)))

theorem w3_step (s s' : LS) (e : Ev) (hR : Ref s) (h : W3 s) (hs : s.step e = some s') : W3 s' := by
  cases e with
  | recv tag oldtag =>
    simp only [LS.step] at hs
    split at hs
    · cases hs
    · cases hs
      intro r
      have ho := h r
      refine ⟨ho.1, fun h1 => ?_⟩
      have h1 : 1 ≤ s.insts.countP (won r) := h1
      show (upd _ s.n _ r).rs = true
      by_cases hrn : r = s.n
      · subst hrn
        have := won_zero s hR s.n (Nat.le_refl _)
        omega
      · rw [upd_other _ _ _ _ hrn, (linkPrev_same _ _ _ _).2.2.1]; exact ho.2 h1
  | check r =>
    simp only [LS.step] at hs
    split at hs
    · cases hs; w3_req h
    · cases hs
  | dispatch r =>
    simp only [LS.step] at hs
    split at hs
    · split at hs <;> cases hs <;> w3_req h
    · cases hs
  | selfRespond r =>
    simp only [LS.step] at hs
    split at hs
    · cases hs; w3_req_new h
    · cases hs
  | answer r =>
    simp only [LS.step] at hs
    split at hs
    · cases hs; w3_req_new h
    · cases hs
  | implFlush r =>
    simp only [LS.step] at hs
    split at hs
    · cases hs; w3_req_new h
    · cases hs
  | implReturn r =>
    simp only [LS.step] at hs
    split at hs
    · cases hs; w3_req h
    · cases hs
  | procEnd r =>
    simp only [LS.step] at hs
    split at hs
    · cases hs; w3_req h
    · cases hs
  | flushLookup f =>
    simp only [LS.step] at hs
    split at hs
    · split at hs
      · cases hs
      · split at hs <;> cases hs <;> w3_req h
    · cases hs
  | flushMark f =>
    simp only [LS.step] at hs
    split at hs
    · split at hs
      · cases hs; w3_req h
      · cases hs
    · cases hs
  | flushAct f =>
    simp only [LS.step] at hs
    split at hs
    · split at hs
      · cases hs; w3_req_new h
      · cases hs; w3_req_new h
      · cases hs; w3_req h
      · cases hs
    · cases hs
  | mark i =>
    simp only [LS.step] at hs
    split at hs
    · rename_i it hit
      split at hs
      · rename_i hpc
        split at hs
        · cases hs
          refine w3_set s _ h s.insts (fun _ => rfl) i it _ hit rfl (rs_upd_keep _ _ _ (by intro _; rfl)) ?_
          intro r; left; simp [won]
        · rename_i hrs
          cases hs
          refine w3_set s _ h s.insts (fun _ => rfl) i it _ hit rfl (rs_upd_keep _ _ _ (by intro _; rfl)) ?_
          intro r
          by_cases hri : r = it.rid
          · right; subst hri
            exact ⟨by simpa using hrs, by simp⟩
          · left
            have : (it.rid == r) = false := by simp; exact fun hh => hri hh.symm
            simp [won, this]
      · cases hs
    · cases hs
  | post i =>
    simp only [LS.step] at hs
    split at hs
    · rename_i it hit
      split at hs
      · rename_i hpc
        cases hs
        refine w3_set s _ h s.insts (fun _ => rfl) i it _ hit rfl (fun _ h => h) ?_
        intro r; left; simp [won, hpc]
      · cases hs
    · cases hs
  | queue i =>
    simp only [LS.step] at hs
    split at hs
    · rename_i it hit
      split at hs
      · rename_i hpc
        split at hs
        · cases hs
          refine w3_set s _ h s.insts (fun _ => rfl) i it _ hit rfl (fun _ h => h) ?_
          intro r; left; simp [won, hpc]
        · split at hs
          · cases hs
            refine w3_set s _ h s.insts (fun _ => rfl) i it _ hit rfl (fun _ h => h) ?_
            intro r; left; simp [won, hpc]
          · cases hs
      · cases hs
    · cases hs
  | unlink i =>
    simp only [LS.step] at hs
    split at hs
    · rename_i it hit
      split at hs
      · rename_i hpc
        split at hs
        · cases hs
          refine w3_set s _ h s.insts (fun _ => rfl) i it _ hit rfl (rs_upd_keep _ _ _ (by intro h; exact h)) ?_
          intro r; left; simp [won]
        · split at hs
          · cases hs
            refine w3_set s _ h s.insts (fun _ => rfl) i it _ hit rfl (fun _ h => h) ?_
            intro r; left; simp [won]
          · split at hs
            · cases hs
              refine w3_set s _ h s.insts (fun _ => rfl) i it _ hit rfl (fun _ h => h) ?_
              intro r; left; simp [won]
            · split at hs
              · cases hs
                refine w3_set s _ h s.insts (fun _ => rfl) i it _ hit rfl (rs_upd_keep _ _ _ (by intro h; exact h)) ?_
                intro r; left; simp [won]
              · cases hs
                refine w3_set s _ h s.insts (fun _ => rfl) i it _ hit rfl (fun _ h => h) ?_
                intro r; left; simp [won]
      · cases hs
    · cases hs
  | next i =>
    simp only [LS.step] at hs
    split at hs
    · rename_i it hit
      split at hs
      · rename_i hpc
        split at hs
        · cases hs
          refine w3_set s _ h s.insts (fun _ => rfl) i it _ hit rfl (fun _ h => h) ?_
          intro r; left; simp [won]
        · cases hs
          refine w3_set s _ h s.insts (fun _ => rfl) i it _ hit rfl (rs_upd_keep _ _ _ (by intro h; exact h)) ?_
          intro r; left; simp [won]
      · cases hs
    · cases hs
  | flushes i =>
    simp only [LS.step] at hs
    split at hs
    · rename_i it hit
      split at hs
      · rename_i hpc
        split at hs
        · cases hs
          refine w3_set s _ h s.insts (fun _ => rfl) i it _ hit rfl (fun _ h => h) ?_
          intro r; left; simp [won]
        · rename_i f hcur
          split at hs
          · cases hs
            refine w3_set s _ h s.insts (fun _ => rfl) i it _ hit rfl (fun _ h => h) ?_
            intro r; left; simp [won, hpc]
          · cases hs
            refine w3_set s _ h (s.insts ++ [{ rid := f }]) ?_ i it _ ?_ rfl (fun _ h => h) ?_
            · intro r; rw [countP_append_single]; simp [won]
            · rw [List.getElem?_append_left]; exact hit
              exact (List.getElem?_eq_some_iff.mp hit).1
            · intro r; left; simp [won, hpc]
      · cases hs
    · cases hs
  | send =>
    simp only [LS.step] at hs
    split at hs
    · cases hs
    · split at hs
      · cases hs
      · cases hs; exact w3_same s _ h rfl (fun _ h => h)
  | close =>
    simp only [LS.step] at hs
    split at hs
    · cases hs
    · cases hs; exact w3_same s _ h rfl (fun _ h => h)

end G9.Life

namespace G9.Life

def BeforeL (l : List Nat) (a b : Nat) : Prop := ∃ x y z, l = x ++ (a :: (y ++ (b :: z)))

/-- worker states that occur when no Tflush is ever received -/
def okp : WPC → Prop
  | .queued | .start | .checked false | .inImpl | .tail | .ended => True
  | _ => False

/-- the invariant of sessions without Tflush: the table of a tag holds exactly its requests that
    have not left it, newest first; whoever is started finds every older request of its tag gone
    from the table (so its reply, if any, already queued) -/
structure PI (s : LS) : Prop where
  a0 : ∀ r, (s.req r).oldtag = none ∧ (s.req r).fl = false ∧ (s.req r).flushreq = none
  wok : ∀ r, okp (s.req r).wpc
  a1 : ∀ it ∈ s.insts, it.rid ∈ s.implLog ∧ it.cur = none
  a2 : ∀ r ∈ s.implLog, r < s.n ∧ (s.req r).wpc ≠ .queued
  rsi : ∀ r, (s.req r).rs = true → ∃ it ∈ s.insts, it.rid = r
  srt : ∀ T, (s.chain T).Pairwise (· > ·)
  mem : ∀ T a, a ∈ s.chain T ↔ (a < s.n ∧ (s.req a).tag = T ∧ a ∉ s.unl)
  un : ∀ a ∈ s.unl, a < s.n ∧ NoFuture s a
  iq : ∀ it ∈ s.insts, won it.rid it = true → it.rid ∉ s.unl
  pv : ∀ q m, q < s.n → (s.req q).prev = some m → q < m ∧ m < s.n ∧ (s.req m).tag = (s.req q).tag ∧
         ∀ a, q < a → a < m → (s.req a).tag ≠ (s.req q).tag
  pn : ∀ q, q < s.n → q ∉ s.unl → (s.req q).prev = none → ∀ a, q < a → a < s.n → (s.req a).tag ≠ (s.req q).tag
  st : ∀ b, b < s.n → (s.req b).wpc ≠ .queued → ∀ a, a < b → (s.req a).tag = (s.req b).tag → a ∈ s.unl
  nx : ∀ it ∈ s.insts, it.pc = .next → ∀ m, it.nxt = some m → m < s.n ∧
         ∀ a, a < m → (s.req a).tag = (s.req m).tag → a ∈ s.unl
  ord : ∀ a b, a < b → b < s.n → (s.req a).tag = (s.req b).tag → b ∈ out s →
         NoFuture s a ∧ (a ∈ out s → Before (out s) a b)
  ex : ∀ a b, a < b → b < s.n → (s.req a).tag = (s.req b).tag → b ∈ s.implLog → BeforeL s.implLog a b

theorem pi_init (cap : Nat) : PI (LS.init cap) := by
  constructor <;> simp [LS.init, out, okp]

/-- steps that receive nothing and leave the tag tables alone -/
theorem pi_of (s s' : LS) (h : PI s) (hn : s'.n = s.n) (hch : s'.chain = s.chain) (hun : s'.unl = s.unl)
    (hreq : ∀ r, (s'.req r).oldtag = (s.req r).oldtag ∧ (s'.req r).fl = (s.req r).fl ∧
                 (s'.req r).flushreq = (s.req r).flushreq ∧ (s'.req r).tag = (s.req r).tag ∧
                 (s'.req r).prev = (s.req r).prev)
    (hnf : ∀ x, x < s.n → NoFuture s x → NoFuture s' x)
    (hwok : ∀ r, okp (s'.req r).wpc)
    (ha1 : ∀ it ∈ s'.insts, it.rid ∈ s'.implLog ∧ it.cur = none)
    (ha2 : ∀ r ∈ s'.implLog, r < s.n ∧ (s'.req r).wpc ≠ .queued)
    (hrsi : ∀ r, (s'.req r).rs = true → ∃ it ∈ s'.insts, it.rid = r)
    (hiq : ∀ it ∈ s'.insts, won it.rid it = true → it.rid ∉ s.unl)
    (hst : ∀ b, b < s.n → (s'.req b).wpc ≠ .queued → (s.req b).wpc ≠ .queued ∨
             ∀ a, a < b → (s.req a).tag = (s.req b).tag → a ∈ s.unl)
    (hnx : ∀ it' ∈ s'.insts, it'.pc = .next → ∀ m, it'.nxt = some m →
             ∃ it ∈ s.insts, it.pc = .next ∧ it.nxt = some m)
    (hout : out s' = out s ∨ ∃ b, out s' = out s ++ [b] ∧ (NoFuture s b → False) ∧
             ∀ a, a < b → (s.req a).tag = (s.req b).tag → NoFuture s' a)
    (hex : s'.implLog = s.implLog ∨ ∃ b, s'.implLog = s.implLog ++ [b] ∧
             ∀ a, a < b → (s.req a).tag = (s.req b).tag → a ∈ s.implLog) : PI s' := by
  have etag : ∀ r, (s'.req r).tag = (s.req r).tag := fun r => (hreq r).2.2.2.1
  constructor
  · intro r; rw [(hreq r).1, (hreq r).2.1, (hreq r).2.2.1]; exact h.a0 r
  · exact hwok
  · exact ha1
  · intro r hr; rw [hn]; exact ha2 r hr
  · exact hrsi
  · rw [hch]; exact h.srt
  · intro T a; rw [hch, hn, hun, etag a]; exact h.mem T a
  · intro a ha
    rw [hun] at ha; rw [hn]
    exact ⟨(h.un a ha).1, hnf a (h.un a ha).1 (h.un a ha).2⟩
  · intro it hit hw; rw [hun]; exact hiq it hit hw
  · intro q m hq hp
    rw [hn] at hq ⊢; rw [(hreq q).2.2.2.2] at hp
    obtain ⟨k1, k2, k3, k4⟩ := h.pv q m hq hp
    exact ⟨k1, k2, by rw [etag m, etag q]; exact k3, fun a h1 h2 => by rw [etag a, etag q]; exact k4 a h1 h2⟩
  · intro q hq hu hp a h1 h2
    rw [hn] at hq h2; rw [hun] at hu; rw [(hreq q).2.2.2.2] at hp
    rw [etag a, etag q]; exact h.pn q hq hu hp a h1 h2
  · intro b hb hw a hab htg
    rw [hn] at hb; rw [etag a, etag b] at htg; rw [hun]
    rcases hst b hb hw with k | k
    · exact h.st b hb k a hab htg
    · exact k a hab htg
  · intro it' hit' hpc m hm
    rw [hn, hun]
    obtain ⟨it, hit, k1, k2⟩ := hnx it' hit' hpc m hm
    obtain ⟨j1, j2⟩ := h.nx it hit k1 m k2
    exact ⟨j1, fun a ha htg => by rw [etag a, etag m] at htg; exact j2 a ha htg⟩
  · intro a b hab hb htg hbo
    rw [hn] at hb; rw [etag a, etag b] at htg
    rcases hout with hout | ⟨b', ho, hb1, hb2⟩
    · rw [hout] at hbo ⊢
      obtain ⟨k1, k2⟩ := h.ord a b hab hb htg hbo
      exact ⟨hnf a (Nat.lt_trans hab hb) k1, k2⟩
    · rw [ho] at hbo ⊢
      rcases List.mem_append.mp hbo with j | j
      · obtain ⟨k1, k2⟩ := h.ord a b hab hb htg j
        refine ⟨hnf a (Nat.lt_trans hab hb) k1, fun hao => ?_⟩
        rcases List.mem_append.mp hao with i | i
        · exact before_append _ _ _ _ (k2 i)
        · simp at i; subst i; exact absurd k1 hb1
      · simp at j; subst j
        refine ⟨hb2 a hab htg, fun hao => ?_⟩
        rcases List.mem_append.mp hao with i | i
        · exact before_last _ _ _ i
        · simp at i; omega
  · intro a b hab hb htg hbl
    rw [hn] at hb; rw [etag a, etag b] at htg
    rcases hex with k | ⟨b', k1, k2⟩
    · rw [k] at hbl ⊢; exact h.ex a b hab hb htg hbl
    · rw [k1] at hbl ⊢
      rcases List.mem_append.mp hbl with j | j
      · obtain ⟨x, y, z, hl⟩ := h.ex a b hab hb htg j
        exact ⟨x, y, z ++ [b'], by rw [hl]; simp⟩
      · simp at j; subst j
        have := k2 a hab htg
        obtain ⟨x, y, hl⟩ := List.append_of_mem this
        exact ⟨x, y, [], by rw [hl]; simp⟩

end G9.Life

namespace G9.Life

theorem linkPrev_prev (g : Nat → Req) (hd : Option Nat) (r x : Nat) :
    (linkPrev g hd r x).prev = if hd = some x then some r else (g x).prev := by
  unfold linkPrev
  cases hd with
  | none => simp
  | some h =>
    by_cases hx : x = h
    · subst hx; simp
    · have : ¬ (h = x) := fun e => hx e.symm
      simp [upd, hx, this]

theorem updL_same (f : Nat → List Nat) (i : Nat) (v : List Nat) : updL f i v i = v := by simp [updL]
theorem updL_other (f : Nat → List Nat) (i j : Nat) (v : List Nat) (h : j ≠ i) : updL f i v j = f j := by simp [updL, h]

/-- a request that has left the table was started -/
theorem unl_started (s : LS) (h : PI s) (a : Nat) (ha : a ∈ s.unl) : (s.req a).wpc ≠ .queued := by
  obtain ⟨it, hit, hr⟩ := h.rsi a (h.un a ha).2.1
  have := (h.a1 it hit).1
  rw [hr] at this
  exact (h.a2 a this).2

theorem head_max (l : List Nat) (y : Nat) (ys : List Nat) (hl : l = y :: ys) (hs : l.Pairwise (· > ·)) :
    ∀ x ∈ l, x ≤ y := by
  intro x hx
  rw [hl] at hs hx
  rcases List.mem_cons.mp hx with rfl | h1
  · exact Nat.le_refl _
  · exact Nat.le_of_lt ((List.pairwise_cons.mp hs).1 x h1)

/-- a request without old tag is received -/
theorem pi_recv (s : LS) (h : PI s) (hR : Ref s) (tag : Nat) :
    PI { s with n := s.n + 1,
                req := upd (linkPrev s.req (s.chain tag).head? s.n) s.n
                  { tag := tag, oldtag := none, wpc := if (s.chain tag).isEmpty then .start else .queued },
                chain := updL s.chain tag (s.n :: s.chain tag) } := by
  generalize hRq : upd (linkPrev s.req (s.chain tag).head? s.n) s.n
      { tag := tag, oldtag := none, wpc := if (s.chain tag).isEmpty then .start else .queued } = R
  have rn : R s.n = { tag := tag, oldtag := none, wpc := if (s.chain tag).isEmpty then .start else .queued } := by
    rw [← hRq]; simp
  have rx : ∀ x, x ≠ s.n → (R x).oldtag = (s.req x).oldtag ∧ (R x).fl = (s.req x).fl ∧
      (R x).flushreq = (s.req x).flushreq ∧ (R x).tag = (s.req x).tag ∧ (R x).rs = (s.req x).rs ∧
      (R x).wpc = (s.req x).wpc ∧ (R x).prev = if (s.chain tag).head? = some x then some s.n else (s.req x).prev := by
    intro x hx
    rw [← hRq, upd_other _ _ _ _ hx]
    have := linkPrev_same s.req (s.chain tag).head? s.n x
    exact ⟨this.2.2.2.2.2.1, this.2.2.2.1, this.1, this.2.2.2.2.2.2, this.2.2.1, this.2.1, linkPrev_prev _ _ _ _⟩
  have enf : ∀ x, x < s.n → (NoFuture { s with n := s.n + 1, req := R, chain := updL s.chain tag (s.n :: s.chain tag) } x ↔ NoFuture s x) := by
    intro x hx
    unfold NoFuture winners
    show (R x).rs = true ∧ _ ↔ _
    rw [(rx x (Nat.ne_of_lt hx)).2.2.2.2.1]
  have hnu : s.n ∉ s.unl := fun hh => Nat.lt_irrefl _ (h.un s.n hh).1
  constructor
  · intro r
    show (R r).oldtag = none ∧ (R r).fl = false ∧ (R r).flushreq = none
    by_cases hr : r = s.n
    · subst hr; rw [rn]; exact ⟨rfl, rfl, rfl⟩
    · rw [(rx r hr).1, (rx r hr).2.1, (rx r hr).2.2.1]; exact h.a0 r
  · intro r
    show okp (R r).wpc
    by_cases hr : r = s.n
    · subst hr; rw [rn]; show okp (if _ then _ else _); split <;> trivial
    · rw [(rx r hr).2.2.2.2.2.1]; exact h.wok r
  · exact h.a1
  · intro r hr
    have := h.a2 r hr
    refine ⟨Nat.lt_succ_of_lt this.1, ?_⟩
    show (R r).wpc ≠ .queued
    rw [(rx r (Nat.ne_of_lt this.1)).2.2.2.2.2.1]; exact this.2
  · intro r hr
    have hr : (R r).rs = true := hr
    by_cases hrn : r = s.n
    · subst hrn; rw [rn] at hr; cases hr
    · rw [(rx r hrn).2.2.2.2.1] at hr; exact h.rsi r hr
  · intro T
    show (updL s.chain tag (s.n :: s.chain tag) T).Pairwise (· > ·)
    by_cases hT : T = tag
    · subst hT
      rw [updL_same]
      refine List.Pairwise.cons ?_ (h.srt T)
      intro x hx; exact ((h.mem T x).mp hx).1
    · rw [updL_other _ _ _ _ hT]; exact h.srt T
  · intro T a
    show a ∈ updL s.chain tag (s.n :: s.chain tag) T ↔ (a < s.n + 1 ∧ (R a).tag = T ∧ a ∉ s.unl)
    by_cases hT : T = tag
    · subst hT
      rw [updL_same]
      constructor
      · intro ha
        rcases List.mem_cons.mp ha with rfl | h1
        · exact ⟨Nat.lt_succ_self _, by rw [rn], hnu⟩
        · have := (h.mem T a).mp h1
          exact ⟨Nat.lt_succ_of_lt this.1, by rw [(rx a (Nat.ne_of_lt this.1)).2.2.2.1]; exact this.2.1, this.2.2⟩
      · intro ⟨h1, h2, h3⟩
        by_cases han : a = s.n
        · subst han; exact List.mem_cons_self
        · rw [(rx a han).2.2.2.1] at h2
          exact List.mem_cons_of_mem _ ((h.mem T a).mpr ⟨by omega, h2, h3⟩)
    · rw [updL_other _ _ _ _ hT]
      constructor
      · intro ha
        have := (h.mem T a).mp ha
        exact ⟨Nat.lt_succ_of_lt this.1, by rw [(rx a (Nat.ne_of_lt this.1)).2.2.2.1]; exact this.2.1, this.2.2⟩
      · intro ⟨h1, h2, h3⟩
        by_cases han : a = s.n
        · subst han; rw [rn] at h2; exact absurd h2.symm hT
        · rw [(rx a han).2.2.2.1] at h2
          exact (h.mem T a).mpr ⟨by omega, h2, h3⟩
  · intro a ha
    have ha : a ∈ s.unl := ha
    have := h.un a ha
    exact ⟨Nat.lt_succ_of_lt this.1, (enf a this.1).mpr this.2⟩
  · exact h.iq
  · intro q m hq hp
    have hq : q < s.n + 1 := hq
    have hp : (R q).prev = some m := hp
    show q < m ∧ m < s.n + 1 ∧ (R m).tag = (R q).tag ∧ ∀ a, q < a → a < m → (R a).tag ≠ (R q).tag
    by_cases hqn : q = s.n
    · subst hqn; rw [rn] at hp; cases hp
    · have hq' : q < s.n := by omega
      rw [(rx q hqn).2.2.2.2.2.2] at hp
      by_cases hh : (s.chain tag).head? = some q
      · rw [if_pos hh] at hp
        have : m = s.n := by cases hp; rfl
        subst this
        have hqc : q ∈ s.chain tag := List.mem_of_mem_head? hh
        have hqm := (h.mem tag q).mp hqc
        refine ⟨hq', Nat.lt_succ_self _, by rw [rn, (rx q hqn).2.2.2.1]; exact hqm.2.1.symm, fun a h1 h2 => ?_⟩
        rw [(rx a (Nat.ne_of_lt h2)).2.2.2.1, (rx q hqn).2.2.2.1, hqm.2.1]
        intro hta
        by_cases hau : a ∈ s.unl
        · have := h.st a h2 (unl_started s h a hau) q h1 (by rw [hqm.2.1, hta])
          exact hqm.2.2 this
        · have hac : a ∈ s.chain tag := (h.mem tag a).mpr ⟨h2, hta, hau⟩
          cases hc : s.chain tag with
          | nil => rw [hc] at hac; cases hac
          | cons y ys =>
            rw [hc] at hh; simp at hh; subst hh
            have := head_max (s.chain tag) y ys hc (h.srt tag) a hac
            omega
      · rw [if_neg hh] at hp
        obtain ⟨k1, k2, k3, k4⟩ := h.pv q m hq' hp
        refine ⟨k1, Nat.lt_succ_of_lt k2, ?_, fun a h1 h2 => ?_⟩
        · rw [(rx m (Nat.ne_of_lt k2)).2.2.2.1, (rx q hqn).2.2.2.1]; exact k3
        · rw [(rx a (Nat.ne_of_lt (Nat.lt_trans h2 k2))).2.2.2.1, (rx q hqn).2.2.2.1]; exact k4 a h1 h2
  · intro q hq hu hp a h1 h2
    have hq : q < s.n + 1 := hq
    have h2 : a < s.n + 1 := h2
    have hu : q ∉ s.unl := hu
    have hp : (R q).prev = none := hp
    show (R a).tag ≠ (R q).tag
    have hqn : q ≠ s.n := by omega
    have hq' : q < s.n := by omega
    rw [(rx q hqn).2.2.2.2.2.2] at hp
    by_cases hh : (s.chain tag).head? = some q
    · rw [if_pos hh] at hp; cases hp
    · rw [if_neg hh] at hp
      rw [(rx q hqn).2.2.2.1]
      by_cases han : a = s.n
      · subst han
        rw [rn]
        intro htq
        have htq : tag = (s.req q).tag := htq
        have hqc : q ∈ s.chain tag := (h.mem tag q).mpr ⟨hq', htq.symm, hu⟩
        cases hc : s.chain tag with
        | nil => rw [hc] at hqc; cases hqc
        | cons y ys =>
          have hy : y ∈ s.chain tag := by rw [hc]; exact List.mem_cons_self
          have hym := (h.mem tag y).mp hy
          have hle := head_max (s.chain tag) y ys hc (h.srt tag) q hqc
          have hne : y ≠ q := by intro he; subst he; rw [hc] at hh; exact hh rfl
          exact h.pn q hq' hu hp y (by omega) hym.1 (by rw [hym.2.1]; exact htq)
      · rw [(rx a han).2.2.2.1]
        exact h.pn q hq' hu hp a h1 (by omega)
  · intro b hb hw a hab htg
    have hb : b < s.n + 1 := hb
    have hw : (R b).wpc ≠ .queued := hw
    have htg : (R a).tag = (R b).tag := htg
    show a ∈ s.unl
    by_cases hbn : b = s.n
    · subst hbn
      have ha' : a < s.n := hab
      rw [rn] at hw htg
      rw [(rx a (Nat.ne_of_lt ha')).2.2.2.1] at htg
      have hemp : s.chain tag = [] := by
        cases hc : s.chain tag with
        | nil => rfl
        | cons y ys => rw [hc] at hw; simp at hw
      by_cases hau : a ∈ s.unl
      · exact hau
      · have := (h.mem tag a).mpr ⟨ha', htg, hau⟩
        rw [hemp] at this; cases this
    · have hb' : b < s.n := by omega
      have ha' : a < s.n := Nat.lt_trans hab hb'
      rw [(rx b hbn).2.2.2.2.2.1] at hw
      rw [(rx a (Nat.ne_of_lt ha')).2.2.2.1, (rx b hbn).2.2.2.1] at htg
      exact h.st b hb' hw a hab htg
  · intro it hit hpc m hm
    obtain ⟨k1, k2⟩ := h.nx it hit hpc m hm
    refine ⟨Nat.lt_succ_of_lt k1, fun a ha htg => ?_⟩
    have htg : (R a).tag = (R m).tag := htg
    have ha' : a < s.n := Nat.lt_trans ha k1
    rw [(rx a (Nat.ne_of_lt ha')).2.2.2.1, (rx m (Nat.ne_of_lt k1)).2.2.2.1] at htg
    exact k2 a ha htg
  · intro a b hab hb htg hbo
    have hbo : b ∈ out s := hbo
    have hb' : b < s.n := hR.2 b (by unfold out at hbo; simp only [List.mem_append] at hbo ⊢; rcases hbo with h1 | h1; exact Or.inr h1; exact Or.inl h1)
    have ha' : a < s.n := Nat.lt_trans hab hb'
    have htg : (R a).tag = (R b).tag := htg
    rw [(rx a (Nat.ne_of_lt ha')).2.2.2.1, (rx b (Nat.ne_of_lt hb')).2.2.2.1] at htg
    obtain ⟨k1, k2⟩ := h.ord a b hab hb' htg hbo
    exact ⟨(enf a ha').mpr k1, k2⟩
  · intro a b hab hb htg hbl
    have hbl : b ∈ s.implLog := hbl
    have hb' : b < s.n := (h.a2 b hbl).1
    have ha' : a < s.n := Nat.lt_trans hab hb'
    have htg : (R a).tag = (R b).tag := htg
    rw [(rx a (Nat.ne_of_lt ha')).2.2.2.1, (rx b (Nat.ne_of_lt hb')).2.2.2.1] at htg
    exact h.ex a b hab hb' htg hbl

end G9.Life

namespace G9.Life

theorem cut_mem (m : Nat) : ∀ (l : List Nat), l.Pairwise (· > ·) → m ∈ l →
    (∀ x, x ∈ l.takeWhile (· ≠ m) ++ [m] ↔ (x ∈ l ∧ m ≤ x)) ∧ (l.takeWhile (· ≠ m) ++ [m]).Pairwise (· > ·)
  | [], _, hm => by cases hm
  | y :: ys, hs, hm => by
    have hp := List.pairwise_cons.mp hs
    by_cases hy : y = m
    · subst hy
      simp only [List.takeWhile_cons, ne_eq, not_true_eq_false, decide_false, Bool.false_eq_true, if_false, List.nil_append]
      refine ⟨fun x => ?_, List.pairwise_singleton _ _⟩
      constructor
      · intro hx; simp at hx; subst hx; exact ⟨List.mem_cons_self, Nat.le_refl _⟩
      · intro ⟨hx, hle⟩
        rcases List.mem_cons.mp hx with rfl | h1
        · simp
        · have := hp.1 x h1; omega
    · have hm' : m ∈ ys := by
        rcases List.mem_cons.mp hm with h1 | h1
        · exact absurd h1.symm hy
        · exact h1
      obtain ⟨ih1, ih2⟩ := cut_mem m ys hp.2 hm'
      have hym : y > m := hp.1 m hm'
      have : (y :: ys).takeWhile (· ≠ m) = y :: ys.takeWhile (· ≠ m) := by simp [List.takeWhile_cons, hy]
      rw [this]
      refine ⟨fun x => ?_, ?_⟩
      · simp only [List.cons_append, List.mem_cons]
        constructor
        · intro hx
          rcases hx with rfl | h1
          · exact ⟨Or.inl rfl, Nat.le_of_lt hym⟩
          · have := (ih1 x).mp h1; exact ⟨Or.inr this.1, this.2⟩
        · intro ⟨hx, hle⟩
          rcases hx with rfl | h1
          · exact Or.inl rfl
          · exact Or.inr ((ih1 x).mpr ⟨h1, hle⟩)
      · simp only [List.cons_append]
        refine List.Pairwise.cons ?_ ih2
        intro x hx
        exact hp.1 x ((ih1 x).mp hx).1

theorem mem_set_cases (l : List Inst) (i : Nat) (v x : Inst) (h : x ∈ setInst l i v) :
    x = v ∨ ∃ j, j ≠ i ∧ l[j]? = some x := by
  unfold setInst at h
  obtain ⟨j, hj⟩ := List.mem_iff_getElem?.mp h
  rw [List.getElem?_set] at hj
  by_cases hji : i = j
  · subst hji
    rw [if_pos rfl] at hj
    by_cases hl : i < l.length
    · rw [if_pos hl] at hj; left; cases hj; rfl
    · rw [if_neg hl] at hj; cases hj
  · rw [if_neg hji] at hj
    exact Or.inr ⟨j, fun e => hji e.symm, hj⟩

theorem countP_two (p : Inst → Bool) : ∀ (l : List Inst) (i j : Nat) (a b : Inst), i ≠ j → l[i]? = some a → l[j]? = some b →
    p a = true → p b = true → 2 ≤ l.countP p
  | [], i, _, _, _, _, hi, _, _, _ => by simp at hi
  | x :: xs, i, j, a, b, hij, hi, hj, ha, hb => by
    cases i with
    | zero =>
      cases j with
      | zero => exact absurd rfl hij
      | succ j =>
        simp at hi hj; subst hi
        have : 1 ≤ xs.countP p := List.countP_pos_iff.mpr ⟨b, List.mem_of_getElem? hj, hb⟩
        rw [List.countP_cons, if_pos ha]; omega
    | succ i =>
      cases j with
      | zero =>
        simp at hi hj; subst hj
        have : 1 ≤ xs.countP p := List.countP_pos_iff.mpr ⟨a, List.mem_of_getElem? hi, ha⟩
        rw [List.countP_cons, if_pos hb]; omega
      | succ j =>
        simp at hi hj
        have := countP_two p xs i j a b (fun e => hij (by rw [e])) hi hj ha hb
        simp only [List.countP_cons]
        omega

theorem exists_rid_set (l : List Inst) (i : Nat) (it v : Inst) (r : Nat) (hit : l[i]? = some it) (hv : v.rid = it.rid)
    (h : ∃ x ∈ l, x.rid = r) : ∃ x ∈ setInst l i v, x.rid = r := by
  obtain ⟨x, hx, hr⟩ := h
  obtain ⟨j, hj⟩ := List.mem_iff_getElem?.mp hx
  by_cases hji : j = i
  · subst hji
    rw [hit] at hj
    have : it = x := by cases hj; rfl
    subst this
    exact ⟨v, mem_setInst_self l j it v hit, by rw [hv]; exact hr⟩
  · refine ⟨x, ?_, hr⟩
    unfold setInst
    apply List.mem_iff_getElem?.mpr
    exact ⟨j, by rw [List.getElem?_set, if_neg (fun e => hji e.symm)]; exact hj⟩

end G9.Life

namespace G9.Life

/-- the winner takes its request out of the tag table -/
theorem pi_unlink_gen (s : LS) (h : PI s) (hW : W3 s) (hR : Ref s) (i : Nat) (it v : Inst)
    (hit : s.insts[i]? = some it) (hpc : it.pc = .unlink) (L : List Nat)
    (hL : ∀ x, x ∈ L ↔ (x ∈ s.chain (s.req it.rid).tag ∧ x ≠ it.rid)) (hLs : L.Pairwise (· > ·))
    (hv1 : v.rid = it.rid) (hv2 : v.pc = .next) (hv3 : v.cur = none) (hv4 : v.nxt = (s.req it.rid).prev)
    (hnf : ∀ x, x < s.n → NoFuture s x → NoFuture
       { s with chain := updL s.chain (s.req it.rid).tag L, unl := it.rid :: s.unl, insts := setInst s.insts i v } x)
    (hlate : NoFuture
       { s with chain := updL s.chain (s.req it.rid).tag L, unl := it.rid :: s.unl, insts := setInst s.insts i v } it.rid) :
    PI { s with chain := updL s.chain (s.req it.rid).tag L, unl := it.rid :: s.unl, insts := setInst s.insts i v } := by
  have hmem := List.mem_of_getElem? hit
  have hlt : it.rid < s.n := hR.1 it hmem
  have hwon : won it.rid it = true := by simp [won, hpc]
  have hnu : it.rid ∉ s.unl := h.iq it hmem hwon
  have hil : it.rid ∈ s.implLog := (h.a1 it hmem).1
  have hstart : (s.req it.rid).wpc ≠ .queued := (h.a2 it.rid hil).2
  have hold : ∀ a, a < it.rid → (s.req a).tag = (s.req it.rid).tag → a ∈ s.unl := h.st it.rid hlt hstart
  constructor
  · exact h.a0
  · exact h.wok
  · intro it' hit'
    rcases mem_setInst _ _ _ _ hit' with rfl | h1
    · rw [hv1]; exact ⟨hil, hv3⟩
    · exact h.a1 it' h1
  · exact h.a2
  · intro r hr
    exact exists_rid_set s.insts i it v r hit hv1 (h.rsi r hr)
  · intro T
    show (updL s.chain (s.req it.rid).tag L T).Pairwise (· > ·)
    by_cases hT : T = (s.req it.rid).tag
    · subst hT; rw [updL_same]; exact hLs
    · rw [updL_other _ _ _ _ hT]; exact h.srt T
  · intro T a
    show a ∈ updL s.chain (s.req it.rid).tag L T ↔ (a < s.n ∧ (s.req a).tag = T ∧ a ∉ it.rid :: s.unl)
    by_cases hT : T = (s.req it.rid).tag
    · subst hT
      rw [updL_same, hL a, h.mem]
      simp only [List.mem_cons, not_or]
      constructor
      · intro ⟨⟨h1, h2, h3⟩, h4⟩; exact ⟨h1, h2, h4, h3⟩
      · intro ⟨h1, h2, h4, h3⟩; exact ⟨⟨h1, h2, h3⟩, h4⟩
    · rw [updL_other _ _ _ _ hT, h.mem]
      simp only [List.mem_cons, not_or]
      constructor
      · intro ⟨h1, h2, h3⟩
        refine ⟨h1, h2, ?_, h3⟩
        intro he; subst he; exact hT h2.symm
      · intro ⟨h1, h2, _, h3⟩; exact ⟨h1, h2, h3⟩
  · intro a ha
    have ha : a ∈ it.rid :: s.unl := ha
    rcases List.mem_cons.mp ha with rfl | h1
    · exact ⟨hlt, hlate⟩
    · exact ⟨(h.un a h1).1, hnf a (h.un a h1).1 (h.un a h1).2⟩
  · intro it' hit' hw
    show it'.rid ∉ it.rid :: s.unl
    rcases mem_set_cases _ _ _ _ hit' with rfl | ⟨j, hji, hj⟩
    · simp [won, hv2] at hw
    · have h1 := h.iq it' (List.mem_of_getElem? hj) hw
      intro hm
      rcases List.mem_cons.mp hm with he | he
      · -- two calls of Respond past the test-and-set on one request
        have hw' : won it.rid it' = true := by rw [← he]; exact hw
        have := countP_two (won it.rid) s.insts i j it it' (fun e => hji e.symm) hit hj hwon hw'
        have := (hW it.rid).1
        omega
      · exact h1 he
  · exact h.pv
  · intro q hq hu hp
    have hu : q ∉ it.rid :: s.unl := hu
    exact h.pn q hq (fun hh => hu (List.mem_cons_of_mem _ hh)) hp
  · intro b hb hw a hab htg
    exact List.mem_cons_of_mem _ (h.st b hb hw a hab htg)
  · intro it' hit' hpc' m hm
    show m < s.n ∧ ∀ a, a < m → (s.req a).tag = (s.req m).tag → a ∈ it.rid :: s.unl
    rcases mem_setInst _ _ _ _ hit' with rfl | h1
    · rw [hv4] at hm
      obtain ⟨k1, k2, k3, k4⟩ := h.pv it.rid m hlt hm
      refine ⟨k2, fun a ha htg => ?_⟩
      rw [k3] at htg
      by_cases h2 : a = it.rid
      · subst h2; exact List.mem_cons_self
      · by_cases h3 : a < it.rid
        · exact List.mem_cons_of_mem _ (hold a h3 htg)
        · exact absurd htg (k4 a (by omega) ha)
    · obtain ⟨k1, k2⟩ := h.nx it' h1 hpc' m hm
      exact ⟨k1, fun a ha htg => List.mem_cons_of_mem _ (k2 a ha htg)⟩
  · intro a b hab hb htg hbo
    obtain ⟨k1, k2⟩ := h.ord a b hab hb htg hbo
    exact ⟨hnf a (Nat.lt_trans hab hb) k1, k2⟩
  · exact h.ex

end G9.Life

namespace G9.Life

theorem req5_upd (g : Nat → Req) (i : Nat) (v : Req) (h1 : v.oldtag = (g i).oldtag) (h2 : v.fl = (g i).fl)
    (h3 : v.flushreq = (g i).flushreq) (h4 : v.tag = (g i).tag) (h5 : v.prev = (g i).prev) :
    ∀ r, (upd g i v r).oldtag = (g r).oldtag ∧ (upd g i v r).fl = (g r).fl ∧ (upd g i v r).flushreq = (g r).flushreq ∧
         (upd g i v r).tag = (g r).tag ∧ (upd g i v r).prev = (g r).prev := by
  intro r
  by_cases hr : r = i
  · subst hr; simp only [upd_same]; exact ⟨h1, h2, h3, h4, h5⟩
  · rw [upd_other _ _ _ _ hr]; exact ⟨rfl, rfl, rfl, rfl, rfl⟩

/-- a request that has left the table had been handed to the implementation -/
theorem unl_impl (s : LS) (h : PI s) (a : Nat) (ha : a ∈ s.unl) : a ∈ s.implLog := by
  obtain ⟨it, hit, hr⟩ := h.rsi a (h.un a ha).2.1
  have := (h.a1 it hit).1
  rw [hr] at this; exact this

/-- a worker moves on (and, at dispatch, the request enters the implementation's log) -/
theorem pi_wpc (s : LS) (h : PI s) (r : Nat) (v : Req) (il' : List Nat)
    (h1 : v.oldtag = (s.req r).oldtag) (h2 : v.fl = (s.req r).fl) (h3 : v.flushreq = (s.req r).flushreq)
    (h4 : v.tag = (s.req r).tag) (h5 : v.prev = (s.req r).prev) (hrs : v.rs = (s.req r).rs)
    (hok : okp v.wpc) (hnq : v.wpc ≠ .queued)
    (hst : (s.req r).wpc ≠ .queued ∨ ∀ a, a < r → (s.req a).tag = (s.req r).tag → a ∈ s.unl)
    (hil : il' = s.implLog ∨ (il' = s.implLog ++ [r] ∧ r < s.n ∧ ∀ a, a < r → (s.req a).tag = (s.req r).tag → a ∈ s.implLog)) :
    PI { s with req := upd s.req r v, implLog := il' } := by
  have er : ∀ x, (upd s.req r v x).rs = (s.req x).rs := by
    intro x; by_cases hx : x = r
    · subst hx; simp [hrs]
    · simp [upd, hx]
  have hsub : ∀ x, x ∈ s.implLog → x ∈ il' := by
    intro x hx
    rcases hil with k | ⟨k, _⟩
    · rw [k]; exact hx
    · rw [k]; exact List.mem_append.mpr (Or.inl hx)
  refine pi_of s _ h rfl rfl rfl (req5_upd _ _ _ h1 h2 h3 h4 h5) ?_ ?_ ?_ ?_ ?_ h.iq ?_ ?_ (Or.inl rfl) ?_
  · intro x _ hx; exact (nf_congr s { s with req := upd s.req r v, implLog := il' } rfl er x).mpr hx
  · intro x
    show okp (upd s.req r v x).wpc
    by_cases hx : x = r
    · subst hx; rw [upd_same]; exact hok
    · rw [upd_other _ _ _ _ hx]; exact h.wok x
  · intro it hit; exact ⟨hsub _ (h.a1 it hit).1, (h.a1 it hit).2⟩
  · intro x hx
    have hx : x ∈ il' := hx
    show x < s.n ∧ (upd s.req r v x).wpc ≠ .queued
    by_cases hxr : x = r
    · subst hxr
      rw [upd_same]
      refine ⟨?_, hnq⟩
      rcases hil with k | ⟨_, k, _⟩
      · rw [k] at hx; exact (h.a2 x hx).1
      · exact k
    · rw [upd_other _ _ _ _ hxr]
      rcases hil with k | ⟨k, _⟩
      · rw [k] at hx; exact h.a2 x hx
      · rw [k] at hx
        rcases List.mem_append.mp hx with j | j
        · exact h.a2 x j
        · simp at j; exact absurd j hxr
  · intro x hx
    have hx : (upd s.req r v x).rs = true := hx
    rw [er x] at hx; exact h.rsi x hx
  · intro b hb hw
    have hw : (upd s.req r v b).wpc ≠ .queued := hw
    by_cases hbr : b = r
    · subst hbr; exact hst
    · rw [upd_other _ _ _ _ hbr] at hw; exact Or.inl hw
  · intro it' hit' hpc m hm; exact ⟨it', hit', hpc, hm⟩
  · rcases hil with k | ⟨k, _, k2⟩
    · exact Or.inl k
    · exact Or.inr ⟨r, k, k2⟩

end G9.Life

namespace G9.Life

theorem plain_tame (s : LS) (e : Ev) (h : s.plain e = true) : s.tame e = true := by
  cases e with
  | recv t o => cases o <;> simp [LS.plain, LS.tame] at h ⊢
  | implFlush r => simp [LS.plain] at h
  | _ => exact h

theorem pi_step_worker (s s' : LS) (e : Ev) (hI : Inv s) (hF : FI s) (h : PI s) (hp : s.plain e = true)
    (hs : s.step e = some s')
    (he : match e with
      | .mark _ | .post _ | .queue _ | .unlink _ | .next _ | .flushes _ => False
      | _ => True) : PI s' := by
  have hnf : ∀ x, x < s.n → NoFuture s x → NoFuture s' x := fun x hx hh => nf_step s s' e hs x hx hh
  obtain ⟨⟨hR, hO⟩, hB⟩ := hI
  cases e with
  | recv tag oldtag =>
    cases oldtag with
    | some o => simp [LS.plain] at hp
    | none =>
      simp only [LS.step] at hs
      split at hs
      · cases hs
      · cases hs; exact pi_recv s h hR tag
  | check r =>
    simp only [LS.step] at hs
    split at hs
    · rename_i hg
      cases hs
      refine pi_wpc s h r _ s.implLog rfl rfl rfl rfl rfl rfl ?_ (by intro hh; cases hh)
        (Or.inl (by rw [hg.2]; intro hh; cases hh)) (Or.inl rfl)
      show okp (.checked (s.req r).fl)
      rw [(h.a0 r).2.1]; trivial
    · cases hs
  | dispatch r =>
    simp only [LS.step] at hs
    split at hs
    · rename_i hg
      split at hs
      · cases hs
        refine pi_wpc s h r _ (s.implLog ++ [r]) rfl rfl rfl rfl rfl rfl trivial (by intro hh; cases hh)
          (Or.inl (by rw [hg.2]; intro hh; cases hh)) (Or.inr ⟨rfl, hg.1, ?_⟩)
        intro a ha htg
        exact unl_impl s h a (h.st r hg.1 (by rw [hg.2]; intro hh; cases hh) a ha htg)
      · rename_i ot hot
        rw [(h.a0 r).1] at hot; cases hot
    · cases hs
  | selfRespond r =>
    simp only [LS.step] at hs
    split at hs
    · rename_i hg
      have := h.wok r
      rw [hg.2] at this; exact absurd this (by simp [okp])
    · cases hs
  | answer r =>
    simp only [LS.step] at hs
    split at hs
    · rename_i hg
      cases hs
      refine pi_of s _ h rfl rfl rfl (fun _ => ⟨rfl, rfl, rfl, rfl, rfl⟩) hnf h.wok ?_ h.a2 ?_ ?_
        (fun b _ hw => Or.inl hw) ?_ (Or.inl rfl) (Or.inl rfl)
      · intro it hit
        rcases List.mem_append.mp hit with h1 | h1
        · exact h.a1 it h1
        · simp at h1; subst h1; exact ⟨hg.2, rfl⟩
      · intro x hx
        obtain ⟨it, hit, hr⟩ := h.rsi x hx
        exact ⟨it, List.mem_append.mpr (Or.inl hit), hr⟩
      · intro it hit hw
        rcases List.mem_append.mp hit with h1 | h1
        · exact h.iq it h1 hw
        · simp at h1; subst h1; simp [won] at hw
      · intro it hit hpc m hm
        rcases List.mem_append.mp hit with h1 | h1
        · exact ⟨it, h1, hpc, hm⟩
        · simp at h1; subst h1; cases hpc
    · cases hs
  | implFlush r => simp [LS.plain] at hp
  | implReturn r =>
    simp only [LS.step] at hs
    split at hs
    · rename_i hg
      cases hs
      exact pi_wpc s h r _ s.implLog rfl rfl rfl rfl rfl rfl trivial (by intro hh; cases hh)
        (Or.inl (by rw [hg.2]; intro hh; cases hh)) (Or.inl rfl)
    · cases hs
  | procEnd r =>
    simp only [LS.step] at hs
    split at hs
    · rename_i hg
      cases hs
      exact pi_wpc s h r _ s.implLog rfl rfl rfl rfl rfl rfl trivial (by intro hh; cases hh)
        (Or.inl (by rw [hg.2]; intro hh; cases hh)) (Or.inl rfl)
    · cases hs
  | flushLookup f =>
    simp only [LS.step] at hs
    split at hs
    · rename_i hg
      have := h.wok f
      rw [hg.2] at this; exact absurd this (by simp [okp])
    · cases hs
  | flushMark f =>
    simp only [LS.step] at hs
    split at hs
    · split at hs
      · rename_i t hw
        have := h.wok f
        rw [hw] at this; exact absurd this (by simp [okp])
      · cases hs
    · cases hs
  | flushAct f =>
    simp only [LS.step] at hs
    split at hs
    · split at hs
      · rename_i hw
        have := h.wok f
        rw [hw] at this; exact absurd this (by simp [okp])
      · rename_i t hw
        have := h.wok f
        rw [hw] at this; exact absurd this (by simp [okp])
      · rename_i t hw
        have := h.wok f
        rw [hw] at this; exact absurd this (by simp [okp])
      · cases hs
    · cases hs
  | send =>
    simp only [LS.step] at hs
    split at hs
    · cases hs
    · rename_i r0 rest hro
      split at hs
      · cases hs
      · cases hs
        refine pi_of s _ h rfl rfl rfl (fun _ => ⟨rfl, rfl, rfl, rfl, rfl⟩) hnf h.wok h.a1 h.a2 h.rsi h.iq
          (fun b _ hw => Or.inl hw) (fun it hit hpc m hm => ⟨it, hit, hpc, hm⟩) (Or.inl ?_) (Or.inl rfl)
        unfold out; rw [hro]; simp
  | close =>
    simp only [LS.step] at hs
    split at hs
    · cases hs
    · cases hs
      exact pi_of s _ h rfl rfl rfl (fun _ => ⟨rfl, rfl, rfl, rfl, rfl⟩) hnf h.wok h.a1 h.a2 h.rsi h.iq
        (fun b _ hw => Or.inl hw) (fun it hit hpc m hm => ⟨it, hit, hpc, hm⟩) (Or.inl rfl) (Or.inl rfl)
  | mark i => exact absurd he (by simp)
  | post i => exact absurd he (by simp)
  | queue i => exact absurd he (by simp)
  | unlink i => exact absurd he (by simp)
  | next i => exact absurd he (by simp)
  | flushes i => exact absurd he (by simp)

end G9.Life

namespace G9.Life

/-- membership bookkeeping for a step that replaces one call of Respond by `v` (same request) -/
theorem pi_setI (s s' : LS) (h : PI s) (i : Nat) (it v : Inst) (hit : s.insts[i]? = some it)
    (hn : s'.n = s.n) (hch : s'.chain = s.chain) (hun : s'.unl = s.unl) (hreq : s'.req = s.req)
    (hil : s'.implLog = s.implLog) (hi : s'.insts = setInst s.insts i v)
    (hv1 : v.rid = it.rid) (hv3 : v.cur = none) (hvn : v.pc ≠ .next)
    (hvw : won it.rid v = true → it.rid ∉ s.unl)
    (hnf : ∀ x, x < s.n → NoFuture s x → NoFuture s' x)
    (hout : out s' = out s ∨ ∃ b, out s' = out s ++ [b] ∧ (NoFuture s b → False) ∧
             ∀ a, a < b → (s.req a).tag = (s.req b).tag → NoFuture s' a) : PI s' := by
  refine pi_of s s' h hn hch hun (fun r => by rw [hreq]; exact ⟨rfl, rfl, rfl, rfl, rfl⟩) hnf
    (by rw [hreq]; exact h.wok) ?_ (by rw [hil, hreq]; exact h.a2) ?_ ?_ (fun b _ hw => Or.inl (by rw [hreq] at hw; exact hw))
    ?_ hout (Or.inl hil)
  · intro it' hit'
    rw [hi] at hit'; rw [hil]
    rcases mem_setInst _ _ _ _ hit' with rfl | h1
    · rw [hv1]; exact ⟨(h.a1 it (List.mem_of_getElem? hit)).1, hv3⟩
    · exact h.a1 it' h1
  · intro r hr
    rw [hreq] at hr; rw [hi]
    exact exists_rid_set s.insts i it v r hit hv1 (h.rsi r hr)
  · intro it' hit' hw
    rw [hi] at hit'
    rcases mem_setInst _ _ _ _ hit' with rfl | h1
    · rw [hv1] at hw ⊢; exact hvw hw
    · exact h.iq it' h1 hw
  · intro it' hit' hpc m hm
    rw [hi] at hit'
    rcases mem_setInst _ _ _ _ hit' with rfl | h1
    · exact absurd hpc hvn
    · exact ⟨it', h1, hpc, hm⟩

/-- the state after the test-and-set of Respond: the request is marked, the call moved to `v` -/
def markState (s : LS) (r i : Nat) (v : Inst) : LS :=
  { s with req := upd s.req r { s.req r with rs := true, wk := false }, insts := setInst s.insts i v }

theorem pi_step_inst (s s' : LS) (e : Ev) (hI : Inv s) (hF : FI s) (hW : W3 s) (h : PI s) (hp : s.plain e = true)
    (hs : s.step e = some s')
    (he : match e with
      | .mark _ | .post _ | .queue _ | .unlink _ | .next _ | .flushes _ => True
      | _ => False) : PI s' := by
  have hnf : ∀ x, x < s.n → NoFuture s x → NoFuture s' x := fun x hx hh => nf_step s s' e hs x hx hh
  have hF' := fi_step s s' e hI hF (plain_tame s e hp) hs
  obtain ⟨⟨hR, hO⟩, hB⟩ := hI
  cases e with
  | post i =>
    simp only [LS.step] at hs
    split at hs
    · rename_i it hit
      split at hs
      · rename_i hpc
        cases hs
        refine pi_setI s _ h i it _ hit rfl rfl rfl rfl rfl rfl rfl (h.a1 it (List.mem_of_getElem? hit)).2
          (by intro hh; cases hh) (fun _ => h.iq it (List.mem_of_getElem? hit) (by simp [won, hpc])) hnf (Or.inl rfl)
      · cases hs
    · cases hs
  | mark i =>
    simp only [LS.step] at hs
    split at hs
    · rename_i it hit
      have hmem := List.mem_of_getElem? hit
      -- both outcomes: the request's record changes in rs/wk only, the call moves to `v`
      have key : ∀ (v : Inst), v.rid = it.rid → v.cur = none → v.pc ≠ .next →
          (won it.rid v = true → it.rid ∉ s.unl) →
          (∀ x, x < s.n → NoFuture s x → NoFuture (markState s it.rid i v) x) →
          PI (markState s it.rid i v) := by
        intro v hv1 hv3 hvn hvw hnf'
        have ew : ∀ x, (upd s.req it.rid { s.req it.rid with rs := true, wk := false } x).wpc = (s.req x).wpc := by
          intro x; by_cases hx : x = it.rid
          · subst hx; simp
          · simp [upd, hx]
        refine pi_of s (markState s it.rid i v) h rfl rfl rfl (req5_upd _ _ _ rfl rfl rfl rfl rfl) hnf' ?_ ?_ ?_ ?_ ?_ ?_ ?_ (Or.inl rfl) (Or.inl rfl)
        · intro x; show okp (upd s.req it.rid _ x).wpc; rw [ew x]; exact h.wok x
        · intro it' hit'
          rcases mem_setInst _ _ _ _ hit' with rfl | h1
          · rw [hv1]; exact ⟨(h.a1 it hmem).1, hv3⟩
          · exact h.a1 it' h1
        · intro x hx
          show x < s.n ∧ (upd s.req it.rid _ x).wpc ≠ .queued
          rw [ew x]; exact h.a2 x hx
        · intro r hr
          have hr : (upd s.req it.rid { s.req it.rid with rs := true, wk := false } r).rs = true := hr
          by_cases hri : r = it.rid
          · subst hri; exact ⟨v, mem_setInst_self _ _ _ _ hit, hv1⟩
          · rw [upd_other _ _ _ _ hri] at hr
            exact exists_rid_set s.insts i it v r hit hv1 (h.rsi r hr)
        · intro it' hit' hw
          rcases mem_setInst _ _ _ _ hit' with rfl | h1
          · rw [hv1] at hw ⊢; exact hvw hw
          · exact h.iq it' h1 hw
        · intro b _ hw
          have hw : (upd s.req it.rid _ b).wpc ≠ .queued := hw
          rw [ew b] at hw; exact Or.inl hw
        · intro it' hit' hpc m hm
          rcases mem_setInst _ _ _ _ hit' with rfl | h1
          · exact absurd hpc hvn
          · exact ⟨it', h1, hpc, hm⟩
      split at hs
      · rename_i hpc
        split at hs
        · cases hs
          exact key _ rfl (h.a1 it hmem).2 (by intro hh; cases hh) (by intro hw; simp [won] at hw) hnf
        · rename_i hrs
          cases hs
          refine key _ rfl (h.a1 it hmem).2 (by intro hh; cases hh) ?_ hnf
          intro _ hu
          have := (h.un it.rid hu).2.1
          exact hrs this
      · cases hs
    · cases hs
  | queue i =>
    simp only [LS.step] at hs
    split at hs
    · rename_i it hit
      have hmem := List.mem_of_getElem? hit
      split at hs
      · rename_i hpc
        have hwon : won it.rid it = true := by simp [won, hpc]
        split at hs
        · cases hs
          exact pi_setI s _ h i it _ hit rfl rfl rfl rfl rfl rfl rfl (h.a1 it hmem).2 (by intro hh; cases hh)
            (fun _ => h.iq it hmem hwon) hnf (Or.inl rfl)
        · split at hs
          · cases hs
            refine pi_setI s _ h i it _ hit rfl rfl rfl rfl rfl rfl rfl (h.a1 it hmem).2 (by intro hh; cases hh)
              (fun _ => h.iq it hmem hwon) hnf (Or.inr ⟨it.rid, by unfold out; simp, ?_, ?_⟩)
            · intro hh
              have := winner_pos s.insts i it it.rid hit (by simp [win, hpc])
              have h0 : winners s it.rid = 0 := hh.2
              unfold winners at h0
              omega
            · intro a ha htg
              have hil := (h.a1 it hmem).1
              have hst := h.st it.rid (h.a2 it.rid hil).1 (h.a2 it.rid hil).2 a ha htg
              exact hnf a (h.un a hst).1 (h.un a hst).2
          · cases hs
      · cases hs
    · cases hs
  | unlink i =>
    simp only [LS.step] at hs
    split at hs
    · rename_i it hit
      have hmem := List.mem_of_getElem? hit
      have hlt : it.rid < s.n := hR.1 it hmem
      split at hs
      · rename_i hpc
        have hwon : won it.rid it = true := by simp [won, hpc]
        have hnu : it.rid ∉ s.unl := h.iq it hmem hwon
        have hil : it.rid ∈ s.implLog := (h.a1 it hmem).1
        have hold : ∀ a, a < it.rid → (s.req a).tag = (s.req it.rid).tag → a ∈ s.unl :=
          h.st it.rid hlt (h.a2 it.rid hil).2
        have hlate0 : NoFuture s it.rid := hF.w1 it hmem (Or.inl hpc)
        split at hs
        · rename_i od hod
          exfalso
          simp [LS.plain, LS.tame, hit, hod] at hp
        split at hs
        · rename_i hprev
          cases hs
          rw [(h.a0 it.rid).2.2]
          refine pi_unlink_gen s h hW hR i it _ hit hpc [] ?_ List.Pairwise.nil rfl rfl rfl (by rw [hprev]) ?_ ?_
          · intro x
            constructor
            · intro hx; cases hx
            · intro ⟨hx, hne⟩
              exfalso
              have hm := (h.mem _ x).mp hx
              by_cases hlt' : x < it.rid
              · exact hm.2.2 (hold x hlt' hm.2.1)
              · exact h.pn it.rid hlt hnu hprev x (by omega) hm.1 hm.2.1
          · intro x hx hh
            have := hnf x hx hh
            rw [(h.a0 it.rid).2.2] at this
            exact this
          · have := hnf it.rid hlt hlate0
            rw [(h.a0 it.rid).2.2] at this
            exact this
        · rename_i m hprev
          obtain ⟨k1, k2, k3, k4⟩ := h.pv it.rid m hlt hprev
          have hmu : m ∉ s.unl := by
            intro hh
            exact hnu (h.st m k2 (unl_started s h m hh) it.rid k1 k3.symm)
          have hmc : m ∈ s.chain (s.req it.rid).tag := (h.mem _ m).mpr ⟨k2, k3, hmu⟩
          split at hs
          · cases hs
            have hcut : cutAfter m (s.chain (s.req it.rid).tag) =
                (s.chain (s.req it.rid).tag).takeWhile (· ≠ m) ++ [m] := by
              unfold cutAfter; rw [if_pos hmc]
            obtain ⟨c1, c2⟩ := cut_mem m _ (h.srt _) hmc
            refine pi_unlink_gen s h hW hR i it _ hit hpc _ ?_ (by rw [hcut]; exact c2) rfl rfl rfl (by rw [hprev]) hnf
              (hnf it.rid hlt hlate0)
            intro x
            rw [hcut, c1 x]
            constructor
            · intro ⟨hx, hle⟩; exact ⟨hx, by omega⟩
            · intro ⟨hx, hne⟩
              refine ⟨hx, ?_⟩
              have hm := (h.mem _ x).mp hx
              by_cases hxm : m ≤ x
              · exact hxm
              · exfalso
                by_cases hlt' : x < it.rid
                · exact hm.2.2 (hold x hlt' hm.2.1)
                · exact k4 x (by omega) (by omega) hm.2.1
          · rename_i fr hfr
            rw [(h.a0 it.rid).2.2] at hfr; cases hfr
      · cases hs
    · cases hs
  | next i =>
    simp only [LS.step] at hs
    split at hs
    · rename_i it hit
      have hmem := List.mem_of_getElem? hit
      split at hs
      · rename_i hpc
        split at hs
        · cases hs
          exact pi_setI s _ h i it _ hit rfl rfl rfl rfl rfl rfl rfl (h.a1 it hmem).2 (by intro hh; cases hh)
            (by intro hw; simp [won] at hw) hnf (Or.inl rfl)
        · rename_i m hnxt
          cases hs
          obtain ⟨j1, j2⟩ := h.nx it hmem hpc m hnxt
          have ew : ∀ x, x ≠ m → (upd s.req m { s.req m with wpc := .start } x).wpc = (s.req x).wpc := by
            intro x hx; simp [upd, hx]
          have er : ∀ x, (upd s.req m { s.req m with wpc := .start } x).rs = (s.req x).rs := by
            intro x; by_cases hx : x = m
            · subst hx; simp
            · simp [upd, hx]
          refine pi_of s _ h rfl rfl rfl (req5_upd _ _ _ rfl rfl rfl rfl rfl) hnf ?_ ?_ ?_ ?_ ?_ ?_ ?_ (Or.inl rfl) (Or.inl rfl)
          · intro x
            show okp (upd s.req m _ x).wpc
            by_cases hx : x = m
            · subst hx; rw [upd_same]; trivial
            · rw [ew x hx]; exact h.wok x
          · intro it' hit'
            rcases mem_setInst _ _ _ _ hit' with rfl | h1
            · exact ⟨(h.a1 it hmem).1, (h.a1 it hmem).2⟩
            · exact h.a1 it' h1
          · intro x hx
            show x < s.n ∧ (upd s.req m _ x).wpc ≠ .queued
            by_cases hxm : x = m
            · subst hxm; rw [upd_same]; exact ⟨j1, by intro hh; cases hh⟩
            · rw [ew x hxm]; exact h.a2 x hx
          · intro r hr
            have hr : (upd s.req m { s.req m with wpc := .start } r).rs = true := hr
            rw [er r] at hr
            exact exists_rid_set s.insts i it _ r hit rfl (h.rsi r hr)
          · intro it' hit' hw
            rcases mem_setInst _ _ _ _ hit' with rfl | h1
            · simp [won] at hw
            · exact h.iq it' h1 hw
          · intro b _ hw
            have hw : (upd s.req m _ b).wpc ≠ .queued := hw
            by_cases hbm : b = m
            · subst hbm; exact Or.inr j2
            · rw [ew b hbm] at hw; exact Or.inl hw
          · intro it' hit' hpc' m' hm'
            rcases mem_setInst _ _ _ _ hit' with rfl | h1
            · cases hpc'
            · exact ⟨it', h1, hpc', hm'⟩
      · cases hs
    · cases hs
  | flushes i =>
    simp only [LS.step] at hs
    split at hs
    · rename_i it hit
      have hmem := List.mem_of_getElem? hit
      split at hs
      · rename_i hpc
        split at hs
        · cases hs
          exact pi_setI s _ h i it _ hit rfl rfl rfl rfl rfl rfl rfl (h.a1 it hmem).2 (by intro hh; cases hh)
            (by intro hw; simp [won] at hw) hnf (Or.inl rfl)
        · rename_i f hcur
          rw [(h.a1 it hmem).2] at hcur; cases hcur
      · cases hs
    · cases hs
  | _ => exact absurd he (by simp)

end G9.Life

namespace G9.Life

theorem pi_step (s s' : LS) (e : Ev) (hI : Inv s) (hF : FI s) (hW : W3 s) (h : PI s) (hp : s.plain e = true)
    (hs : s.step e = some s') : PI s' := by
  cases e with
  | mark i => exact pi_step_inst s s' _ hI hF hW h hp hs trivial
  | post i => exact pi_step_inst s s' _ hI hF hW h hp hs trivial
  | queue i => exact pi_step_inst s s' _ hI hF hW h hp hs trivial
  | unlink i => exact pi_step_inst s s' _ hI hF hW h hp hs trivial
  | next i => exact pi_step_inst s s' _ hI hF hW h hp hs trivial
  | flushes i => exact pi_step_inst s s' _ hI hF hW h hp hs trivial
  | recv a b => exact pi_step_worker s s' _ hI hF h hp hs trivial
  | check r => exact pi_step_worker s s' _ hI hF h hp hs trivial
  | dispatch r => exact pi_step_worker s s' _ hI hF h hp hs trivial
  | selfRespond r => exact pi_step_worker s s' _ hI hF h hp hs trivial
  | answer r => exact pi_step_worker s s' _ hI hF h hp hs trivial
  | implFlush r => exact pi_step_worker s s' _ hI hF h hp hs trivial
  | implReturn r => exact pi_step_worker s s' _ hI hF h hp hs trivial
  | procEnd r => exact pi_step_worker s s' _ hI hF h hp hs trivial
  | flushLookup f => exact pi_step_worker s s' _ hI hF h hp hs trivial
  | flushMark f => exact pi_step_worker s s' _ hI hF h hp hs trivial
  | flushAct f => exact pi_step_worker s s' _ hI hF h hp hs trivial
  | send => exact pi_step_worker s s' _ hI hF h hp hs trivial
  | close => exact pi_step_worker s s' _ hI hF h hp hs trivial

theorem pi_runP : ∀ (es : List Ev) (s s' : LS), Inv s → FI s → W3 s → PI s → s.runP es = some s' →
    Inv s' ∧ FI s' ∧ W3 s' ∧ PI s'
  | [], s, s', hI, hF, hW, h, hr => by simp [LS.runP] at hr; subst hr; exact ⟨hI, hF, hW, h⟩
  | e :: es, s, s', hI, hF, hW, h, hr => by
    simp only [LS.runP] at hr
    split at hr
    · rename_i hp
      cases hs : s.step e with
      | none => rw [hs] at hr; cases hr
      | some s1 =>
        rw [hs] at hr
        exact pi_runP es s1 s' (inv_step s s1 e hI hs) (fi_step s s1 e hI hF (plain_tame s e hp) hs)
          (w3_step s s1 e hI.1.1 hW hs) (pi_step s s1 e hI hF hW h hp hs) hr
    · cases hr

theorem runP_run : ∀ (es : List Ev) (s s' : LS), s.runP es = some s' → s.run es = some s'
  | [], s, s', hr => by simpa [LS.runP, LS.run] using hr
  | e :: es, s, s', hr => by
    simp only [LS.runP] at hr
    split at hr
    · cases hs : s.step e with
      | none => rw [hs] at hr; cases hr
      | some s1 =>
        rw [hs] at hr
        simp only [LS.run, hs, Option.bind_some]
        exact runP_run es s1 s' hr
    · cases hr

end G9.Life
