/-
  G9.OwnSet — the other synchronisation the library relies on (C19): objects that are not
  guarded by a mutex but are owned by one goroutine at a time and handed over through a
  channel — a `SrvReq` with its reply `Fcall` from the worker to the writer goroutine
  (`conn.reqout`), a reply `Fcall` back to the receive loop (`conn.rchan`), a client `Req`
  from the caller to the writer (`clnt.reqout`) and back from the receiver (`r.Done`), a `Log`
  entry to the logger goroutine.  In any execution in which every access to such an object is
  made by its current owner, two accesses by different goroutines are separated by a send of the
  object by the first and a later receive of it by the second: the channel edge of the Go
  memory model (the k-th receive on a channel is ordered after the k-th send; the receive that
  returns an object is the one matching the send that carried it).
-/
namespace G9.OwnSet

inductive Op where
  | send (c : Nat) (x : Nat)      -- `c <- x`: x leaves its owner
  | recv (c : Nat) (x : Nat)      -- `x := <-c`: the receiver becomes the owner of x
  | acc (x : Nat) (write : Bool)
  deriving Repr, DecidableEq

structure Ev where
  tid : Nat
  op : Op
  deriving Repr, DecidableEq

structure St where
  owner : Nat → Option Nat := fun _ => none       -- `none`: in a channel (or not yet made)
  via : Nat → Option Nat := fun _ => none          -- the channel an object is in

def set (f : Nat → Option Nat) (x : Nat) (v : Option Nat) : Nat → Option Nat := fun k => if k = x then v else f k

def step (s : St) (e : Ev) : Option St :=
  match e.op with
  | .send c x => if s.owner x = some e.tid then some { owner := set s.owner x none, via := set s.via x (some c) } else none
  | .recv c x => if s.via x = some c then some { owner := set s.owner x (some e.tid), via := set s.via x none } else none
  | .acc x _ => if s.owner x = some e.tid then some s else none

def run : St → List Ev → Option St
  | s, [] => some s
  | s, e :: es => (step s e).bind (fun s' => run s' es)

/-- an object in a channel has no owner -/
def WF (s : St) : Prop := ∀ x c, s.via x = some c → s.owner x = none

end G9.OwnSet
