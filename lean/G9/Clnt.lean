/-
  G9.Clnt — M5: the client's call machinery (clnt_clnt.go: ReqAlloc/ReqFree, Rpc/Rpcnb,
  Clnt.recv with its error fan-out; clnt_pool.go: the tag pool).
  Goroutines are program counters; each event below is one lock-protected region or one
  channel operation of the code. Any sequence of enabled events is a schedule.
-/
import G9.Prelude
namespace G9.Clnt

def cacheCap : Nat := 16          -- cap(clnt.reqchan)

structure CS where
  free : List Nat                        -- clnt.tagpool.id (FIFO channel of tags)
  cache : List Nat                       -- tags kept by Req objects parked in clnt.reqchan
  live : List (Nat × Nat)                -- (caller, tag): a Req in use, between ReqAlloc and ReqFree
  pend : List Nat                        -- callers on the pending list reqfirst…reqlast, in order
  woken : List (Nat × Option Nat)        -- (caller, result): r.Done was signalled; some p = reply payload, none = error
  refused : List Nat                     -- callers whose Rpcnb returned clnt.err
  err : Bool                             -- clnt.err != nil
  closed : Bool                          -- the receiver left its loop (`closed:`); the writer is stopped
  deriving Repr

def CS.init (n : Nat) : CS :=
  { free := List.range n, cache := [], live := [], pend := [], woken := [], refused := [], err := false, closed := false }

def tagOf (s : CS) (i : Nat) : Option Nat := (s.live.find? (·.1 == i)).map (·.2)

/-- `ReqFree`: park the Req (with its tag) if the cache has room, else give the tag back -/
def CS.release (s : CS) (i t : Nat) : CS :=
  let live := s.live.erase (i, t)
  if s.cache.length < cacheCap then { s with live := live, cache := s.cache ++ [t] }
  else { s with live := live, free := s.free ++ [t] }

inductive Ev where
  | alloc (i : Nat)                 -- ReqAlloc by caller i
  | enqueue (i : Nat)               -- Rpcnb's critical section: refused if err, else appended to the list
  | deliver (t : Nat) (p : Nat)     -- the receiver parsed a complete frame with tag t and payload p
  | fail                            -- read error, undecodable or oversize frame, Unmount
  | fanout                          -- one iteration of the error fan-out
  | ret (i : Nat)                   -- the caller took its result; Rpc calls ReqFree
  deriving Repr

def CS.step (s : CS) : Ev → Option CS
  | .alloc i =>
    if (s.live.any (·.1 == i)) then none else
    match s.cache, s.free with
    | t :: c, _ => some { s with cache := c, live := (i, t) :: s.live }
    | [], t :: f => some { s with free := f, live := (i, t) :: s.live }
    | [], [] => none                                   -- Get blocks: no tag available
  | .enqueue i =>
    match tagOf s i with
    | none => none
    | some t =>
      if s.pend.contains i || s.woken.any (·.1 == i) then none
      else if s.err then some { (s.release i t) with refused := i :: s.refused }
      else some { s with pend := s.pend ++ [i] }
  | .deliver t p =>
    if s.closed then none else
    match s.pend.find? (fun i => tagOf s i == some t) with
    | none => some { s with err := true, closed := true }        -- "unexpected response"
    | some i => some { s with pend := s.pend.erase i, woken := (i, some p) :: s.woken }
  | .fail => if s.closed then none else some { s with err := true, closed := true }
  | .fanout =>
    if !s.closed then none else
    match s.pend with
    | [] => none
    | i :: rest => some { s with pend := rest, woken := (i, none) :: s.woken }
  | .ret i =>
    match s.woken.find? (·.1 == i), tagOf s i with
    | some w, some t => some { (s.release i t) with woken := s.woken.erase w }
    | _, _ => none

def CS.run (s : CS) : List Ev → Option CS
  | [] => some s
  | e :: es => (s.step e).bind (fun s' => s'.run es)

end G9.Clnt
