/-
  G9.Logger — M6: mirror of log.go (`Logger.doLog`: the ring, `Log`, `Filter`) and of the
  asynchronous queue in front of it (`logchan`, capacity 16).
-/
import G9.Prelude
namespace G9.Logger

structure Entry where
  id : Nat                 -- identity of the *Log value (the harness logs distinct data)
  owner : Option Nat       -- `nil` or an owner
  typ : Nat
  deriving Repr, DecidableEq, Inhabited

structure Ring where
  items : List (Option Entry)   -- `l.items`, nil = none
  idx : Nat                     -- `l.idx`
  deriving Repr

def Ring.new (n : Nat) : Ring := { items := List.replicate n none, idx := 0 }

/-- `case it := <-l.logchan:` — wrap, store, advance. -/
def Ring.log (r : Ring) (e : Entry) : Ring :=
  let i := if r.idx ≥ r.items.length then 0 else r.idx
  { items := r.items.set i (some e), idx := i + 1 }

def sel (fo : Option Nat) (ft : Nat) (e : Entry) : Bool :=
  (fo.isNone || e.owner == fo) && (ft == 0 || e.typ == ft)

/-- first pass of `Filter`: count the matching entries, order irrelevant -/
def Ring.count (r : Ring) (fo : Option Nat) (ft : Nat) : Nat :=
  (r.items.filterMap id).countP (sel fo ft)

/-- second pass: `for i, m := l.idx, 0; m < len(its); i++ { if i >= len(l.items) { i = 0 } … }`.
    `fuel` bounds the iterations; `filter_terminates` shows `2·len` always suffices, i.e. the
    Go loop terminates. Returns `none` when the fuel runs out. -/
def Ring.scan (r : Ring) (fo : Option Nat) (ft : Nat) : Nat → Nat → Nat → Option (List Entry)
  | _, 0, _ => some []
  | 0, _ + 1, _ => none
  | fuel + 1, need + 1, i =>
    let i := if i ≥ r.items.length then 0 else i
    match r.items[i]? with
    | some (some e) =>
      if sel fo ft e then (r.scan fo ft fuel need (i + 1)).map (e :: ·)
      else r.scan fo ft fuel (need + 1) (i + 1)
    | _ => r.scan fo ft fuel (need + 1) (i + 1)

def Ring.filter (r : Ring) (fo : Option Nat) (ft : Nat) : Option (List Entry) :=
  r.scan fo ft (2 * r.items.length + 1) (r.count fo ft) r.idx

/-- the ring's contents oldest first: the circular order starting at `idx` -/
def Ring.contents (r : Ring) : List Entry :=
  let i := if r.idx ≥ r.items.length then 0 else r.idx
  (r.items.drop i ++ r.items.take i).filterMap id

/-- specification: the last `n` of a history -/
def lastN {α} (n : Nat) (l : List α) : List α := l.drop (l.length - n)

/-! ### the asynchronous system: producers → queue (≤ 16) → ring -/

structure Sys where
  ring : Ring
  queue : List Entry          -- `logchan`, FIFO
  processed : List Entry      -- ghost: entries the logger goroutine has stored, in order
  enqueued : List Entry       -- ghost: entries accepted by `Log`, in order
  deriving Repr

def qcap : Nat := 16

inductive Ev where
  | enqueue (e : Entry)       -- `l.logchan <- …` completes
  | dequeue                   -- `case it := <-l.logchan`
  deriving Repr

def Sys.init (n : Nat) : Sys := { ring := Ring.new n, queue := [], processed := [], enqueued := [] }

def Sys.enabled (s : Sys) : Ev → Bool
  | .enqueue _ => s.queue.length < qcap
  | .dequeue => !s.queue.isEmpty

def Sys.step (s : Sys) : Ev → Sys
  | .enqueue e => { s with queue := s.queue ++ [e], enqueued := s.enqueued ++ [e] }
  | .dequeue =>
    match s.queue with
    | [] => s
    | e :: q => { s with ring := s.ring.log e, queue := q, processed := s.processed ++ [e] }

/-- any run of enabled events -/
def Sys.run (s : Sys) : List Ev → Option Sys
  | [] => some s
  | ev :: evs => if s.enabled ev then (s.step ev).run evs else none

/-! ### concurrent `Filter` callers

`Filter` sends its question on the unbuffered `fltchan` together with a reply channel of its
own and waits on that channel; the logger goroutine answers from inside its `select` loop, so
between taking a question and handing over the answer it does nothing else. -/

structure Ask where
  caller : Nat
  fo : Option Nat
  ft : Nat
  deriving Repr, DecidableEq

/-- an answer on its way: the question, what `Filter`'s two passes returned, and (ghost) the
    entries stored when it was computed -/
structure Answer where
  ask : Ask
  ans : Option (List Entry)
  seen : List Entry
  deriving Repr

structure FSys where
  sys : Sys
  serving : Option Answer := none     -- the goroutine sits in `flt.resp <- its`
  delivered : List Answer := []       -- ghost: answers received by their callers, in order
  deriving Repr

inductive FEv where
  | log (ev : Ev)            -- a producer's `Log`, or the goroutine storing an entry
  | ask (a : Ask)            -- `l.fltchan <- &flt{owner, itype, c}` meets `case f := <-l.fltchan`
  | deliver                  -- `flt.resp <- its` meets the caller's `<-c`
  deriving Repr

def FSys.step (s : FSys) : FEv → Option FSys
  | .log (.enqueue e) => if s.sys.enabled (.enqueue e) then some { s with sys := s.sys.step (.enqueue e) } else none
  | .log .dequeue =>
    if s.serving.isNone ∧ s.sys.enabled .dequeue then some { s with sys := s.sys.step .dequeue } else none
  | .ask a =>
    if s.serving.isNone then
      some { s with serving := some { ask := a, ans := s.sys.ring.filter a.fo a.ft, seen := s.sys.processed } }
    else none
  | .deliver =>
    match s.serving with
    | some x => some { s with serving := none, delivered := s.delivered ++ [x] }
    | none => none

def FSys.run (s : FSys) : List FEv → Option FSys
  | [] => some s
  | ev :: evs => (s.step ev).bind (fun s' => s'.run evs)

def FSys.init (n : Nat) : FSys := { sys := Sys.init n }

end G9.Logger
