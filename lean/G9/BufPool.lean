/-
  G9.BufPool — the reply buffers of one connection (srv_conn.go `Conn.recv`/`Conn.send`,
  srv_fcall.go `Srv.version`).  Every request gets a reply `Fcall` whose `Buf` is either taken
  from the connection's pool (`conn.rchan`) and cut down to the connection's msize, or made
  afresh with that size; after the reply has been written the `Fcall` goes back to the pool.
  A Tversion may lower the connection's msize and never raises it.  What the guards of
  srv_fcall.go rely on — "a count of at most msize − IOHDRSZ fits the reply buffer" — is the
  invariant proved about this model (Props/C12).
-/
namespace G9.BufPool

def IOHDRSZ : Nat := 24

structure BS where
  msize : Nat                 -- conn.Msize
  pool : List Nat := []       -- conn.rchan: len(Buf) of the pooled reply Fcalls, oldest first
  out : List Nat := []        -- len(req.Rc.Buf) of the requests in progress, in order of arrival
  deriving Repr, DecidableEq

inductive BEv where
  | version (m : Nat)         -- Srv.version with tc.Msize = m
  | takePooled                -- recv: `case req.Rc = <-conn.rchan` and the cut to conn.Msize
  | takeFresh                 -- recv: `default: req.Rc = NewFcall(conn.Msize)`
  | give (i : Nat)            -- send: `case conn.rchan <- req.Rc` for the i-th request in progress
  | drop (i : Nat)            -- send: the pool is full (or the request is gone): left to the collector
  deriving Repr, DecidableEq

def rchanCap : Nat := 64

/-- the cut in recv: `if len(req.Rc.Buf) > int(conn.Msize) { req.Rc.Buf = req.Rc.Buf[:conn.Msize] }` -/
def cut (b msize : Nat) : Nat := if b > msize then msize else b

def BS.step (s : BS) : BEv → Option BS
  | .version m =>
    if m < IOHDRSZ then some s                      -- Rerror "msize too small", nothing changes
    else some { s with msize := if m < s.msize then m else s.msize }
  | .takePooled =>
    match s.pool with
    | [] => none
    | b :: rest => some { s with pool := rest, out := s.out ++ [cut b s.msize] }
  | .takeFresh => if s.pool = [] then some { s with out := s.out ++ [s.msize] } else none
  | .give i =>
    match s.out[i]? with
    | some b => if s.pool.length < rchanCap then some { s with pool := s.pool ++ [b], out := s.out.eraseIdx i } else none
    | none => none
  | .drop i => if i < s.out.length then some { s with out := s.out.eraseIdx i } else none

def BS.run (s : BS) : List BEv → Option BS
  | [] => some s
  | e :: es => (s.step e).bind (fun s' => s'.run es)

/-- a new connection: `conn.Msize = srv.Msize`, the pool empty -/
def BS.init (srvMsize : Nat) : BS := { msize := srvMsize }

/-- what C06-7 of the seeded changes did: a Tversion negotiates against what the server supports,
    so a later one may raise the connection's msize again (kept as a witness that the invariant
    is about the code's rule, not a tautology) -/
def BS.stepRaising (srvMsize : Nat) (s : BS) : BEv → Option BS
  | .version m =>
    if m < IOHDRSZ then some s
    else some { s with msize := if m < srvMsize then m else srvMsize }
  | e => s.step e

end G9.BufPool
